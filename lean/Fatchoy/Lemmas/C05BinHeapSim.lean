/-
C05 helper lemmas: the structural binary heap, part 5: composition.  The heap scheduler run over the array (`BS`,
Model/C05BinHeap.lean) and the heap scheduler run over the sorted list (`HS`, Model/C05Sched.lean) simulate each other
step by step through `babs`: `trigger` loop, every action, every run.
-/
import Fatchoy.Lemmas.C05BinHeapRefine
import Fatchoy.Lemmas.C05HeapTrace
namespace Fatchoy.C05

/-- the sorted-list scheduler state a structural state stands for -/
def BS.toHS (b : BS) : HS := { now := b.now, heap := babs b.arr, f := b.f }

theorem babs_empty (a : BHeap) (h : a.size = 0) : babs a = [] := by
  have : a = #[] := Array.eq_empty_of_size_eq_zero h
  subst this; rfl

/-- `Fix` at the root, as `trigger` uses it: re-insert the re-armed root into the rest -/
theorem babs_bfix_root (a a' a'' : BHeap) (v : BNode) (d : Nat) (h : BInv a) (hd : Distinct a)
    (e : bpop a = some (a', v)) (e2 : bfix (bsetDeadline a 0 d) 0 = some a'') :
    babs a'' = hinsert { v.n with deadline := d } (babs a') ∧ BInv a'' ∧ Distinct a'' := by
  have hne : a.size ≠ 0 := by
    intro h0; simp [bpop, h0] at e
  obtain ⟨a2, v2, e3, _, _, hv, _, hp⟩ := bpop_spec a h hne
  rw [e] at e3
  obtain ⟨rfl, rfl⟩ := Prod.mk.inj (Option.some.inj e3)
  obtain ⟨hab, _, _, _⟩ := babs_bpop a a' v h hd e
  obtain ⟨r1, r2, r3⟩ := babs_bfix a a'' 0 d h hd (by omega) e2
  refine ⟨?_, r2, r3⟩
  rw [r1, hab, ← hv]
  congr 1
  obtain ⟨hids', _⟩ := distinct_cons hp hd
  rw [List.filter_cons, if_neg (by simp)]
  exact List.filter_eq_self.mpr (fun m hm => by simpa using hids' m ((babs_perm a').mem_iff.mp hm))

theorem triggerLoop_sim (now maxId : Nat) : ∀ (fuel : Nat) (b : BS) (acc : List (Nat × Nat)), BInv b.arr → Distinct b.arr →
    (match BS.triggerLoop now maxId fuel b acc with
     | some (b', out) => HS.triggerLoop now maxId fuel b.toHS acc = some (b'.toHS, out) ∧ BInv b'.arr ∧ Distinct b'.arr
     | none => HS.triggerLoop now maxId fuel b.toHS acc = none)
  | 0, b, acc, _, _ => by simp [BS.triggerLoop, HS.triggerLoop]
  | fuel + 1, b, acc, hi, hd => by
    by_cases h0 : b.arr.size = 0
    · have := babs_empty b.arr h0
      simp [BS.triggerLoop, BS.trigOne, h0, HS.triggerLoop, BS.toHS, this, hi, hd]
    · obtain ⟨a', v, e, _, _, hv, _, _⟩ := bpop_spec b.arr hi h0
      obtain ⟨hab, hinv', hd', _⟩ := babs_bpop _ _ _ hi hd e
      have hnode : (b.arr[0]'(by omega)).n = v.n := by rw [key_eq, hv]
      have hidx : (b.arr[0]'(by omega)).index = 0 := by rw [idx_eq]; exact hi.idx 0 (by omega)
      simp only [BS.triggerLoop, BS.trigOne, h0, dite_false, HS.triggerLoop, BS.toHS, hab, hnode, hidx, e]
      by_cases c1 : now < v.n.deadline
      · simp [c1, hi, hd, hab]
      · by_cases c2 : v.n.id > maxId
        · simp [c1, c2]
        · by_cases c3 : v.n.id ∈ b.f.cancelled
          · simp only [c1, c2, c3, if_true, if_false]
            have ih := triggerLoop_sim now maxId fuel { b with arr := a' } acc hinv' hd'
            simpa [BS.toHS] using ih
          · by_cases c4 : v.n.period > 0
            · obtain ⟨a'', e2, _, _, _⟩ := bfix_set_spec b.arr hi 0 (now + v.n.period) (by omega)
              obtain ⟨r1, r2, r3⟩ := babs_bfix_root _ _ _ _ _ hi hd e e2
              simp only [c1, c2, c3, c4, if_true, if_false, Int.lt_irrefl, Int.toNat_zero, e2]
              have ih := triggerLoop_sim now maxId fuel { b with arr := a'' } (acc ++ [(v.n.id, v.n.deadline)]) r2 r3
              simpa [BS.toHS, r1] using ih
            · simp only [c1, c2, c3, c4, if_false]
              have ih := triggerLoop_sim now maxId fuel { b with arr := a', f := b.f.drop v.n.id } (acc ++ [(v.n.id, v.n.deadline)]) hinv' hd'
              simpa [BS.toHS] using ih

theorem distinct_of_hinv (b : BS) (hh : HInv b.toHS) : Distinct b.arr :=
  ((babs_perm b.arr).map _).nodup_iff.mp hh.nodup

theorem tick_sim (b : BS) (hi : BInv b.arr) (hd : Distinct b.arr) :
    (match BS.tick b with
     | some b' => HS.tick b.toHS = some b'.toHS ∧ BInv b'.arr
     | none => HS.tick b.toHS = none) := by
  have := triggerLoop_sim b.now b.f.nextId (b.arr.size + 1) b [] hi hd
  unfold BS.tick HS.tick
  simp only [BS.toHS, babs_length] at this ⊢
  split at this
  · rename_i b' out e
    rw [e, this.1]
    exact ⟨rfl, this.2.1⟩
  · rename_i e
    rw [e, this]

theorem delNode_sim (a : BHeap) (id : Nat) (hi : BInv a) (hd : Distinct a) :
    ∃ a', BS.delNode a id = some a' ∧ babs a' = (babs a).filter (fun m => decide (m.id ≠ id)) ∧ BInv a' := by
  unfold BS.delNode
  cases hf : a.find? (fun x => x.n.id == id) with
  | none =>
    refine ⟨a, rfl, ?_, hi⟩
    symm
    apply List.filter_eq_self.mpr
    intro m hm
    obtain ⟨k, hk, rfl⟩ := mem_keys ((babs_perm a).mem_iff.mp hm)
    have := Array.find?_eq_none.mp hf a[k] (Array.getElem_mem hk)
    rw [key_eq] at this
    simpa using this
  | some x =>
    have hx : x.n.id = id := by simpa using Array.find?_some hf
    obtain ⟨k, hk, rfl⟩ := Array.mem_iff_getElem.mp (Array.mem_of_find?_eq_some hf)
    have hix : a[k].index = k := by rw [idx_eq]; exact hi.idx k hk
    have hneg : ¬ ((k : Int) < 0) := by omega
    simp only [hix, Int.toNat_natCast, hneg, if_false]
    obtain ⟨a', v, e, _⟩ := bremove_spec a hi k hk
    obtain ⟨_, _, r1, _, r2, _, _⟩ := babs_bremove a a' v k hi hd e
    refine ⟨a', by simp [e], ?_, r2⟩
    rw [r1, ← key_eq a k hk, hx]

/-- ONE STEP: the structural scheduler and the sorted-list scheduler take the same step (same outcome, same output,
abstraction kept), and the structural invariant is kept -/
theorem step_sim (G : Geom) (b : BS) (hi : BInv b.arr) (hh : HInv b.toHS) (a : Act) :
    (match BS.step G b a with
     | .ok b' o => HS.step G b.toHS a = .ok b'.toHS o ∧ BInv b'.arr
     | .blocked => HS.step G b.toHS a = .blocked
     | .panic => HS.step G b.toHS a = .panic) := by
  have hd := distinct_of_hinv b hh
  cases a with
  | after d => by_cases c : b.f.addQ.length ≥ G.reqCap <;> simp [BS.step, HS.step, BS.toHS, c, hi]
  | every p => by_cases c : b.f.addQ.length ≥ G.reqCap <;> simp [BS.step, HS.step, BS.toHS, c, hi]
  | cancel id =>
    by_cases c : id ∈ b.f.refer <;> by_cases c2 : b.f.delQ.length ≥ G.reqCap <;> simp [BS.step, HS.step, BS.toHS, c, c2, hi]
  | clock n => simp [BS.step, HS.step, BS.toHS, hi]
  | tick =>
    have := tick_sim b hi hd
    simp only [BS.step, HS.step]
    split at this
    · rename_i b' e; rw [e, this.1]; exact ⟨rfl, this.2⟩
    · rename_i e; rw [e, this]
  | del =>
    simp only [BS.step, HS.step, BS.toHS]
    cases hq : b.f.delQ with
    | nil => simp [hi]
    | cons id q =>
      obtain ⟨a', e, r1, r2⟩ := delNode_sim b.arr id hi hd
      simp [e, r1, r2]
  | add =>
    simp only [BS.step, HS.step, BS.toHS]
    cases hq : b.f.addQ with
    | nil => simp [hi]
    | cons r q =>
      by_cases hc : r.id ∈ b.f.cancelled
      · simp [hc, hi]
      · have hfresh : r.id ∉ hids (babs b.arr) := by
          have hn := hh.front.nodup
          rw [List.nodup_append] at hn
          intro hm
          exact hn.2.2 r.id (by simp [Front.addIds, BS.toHS, hq]) r.id hm rfl
        have hnd : (hids ((⟨r.id, r.dl, r.period⟩ : HNode) :: keys b.arr)).Nodup := by
          simp only [hids, List.map_cons, List.nodup_cons]
          refine ⟨fun hm => hfresh ?_, hd⟩
          exact ((babs_perm b.arr).map _).mem_iff.mpr hm
        simp [hc, babs_bpush _ _ hi hnd, (bpush_spec b.arr ⟨r.id, r.dl, r.period⟩ hi).1]

/-- a run with its outputs; `none`: some step blocked or panicked -/
def BS.runO (G : Geom) : BS → List Act → Option (BS × List Out)
  | b, [] => some (b, [])
  | b, a :: as =>
    match BS.step G b a with
    | .ok b' o => (BS.runO G b' as).map (fun r => (r.1, o :: r.2))
    | _ => none

def HS.runO (G : Geom) : HS → List Act → Option (HS × List Out)
  | s, [] => some (s, [])
  | s, a :: as =>
    match HS.step G s a with
    | .ok s' o => (HS.runO G s' as).map (fun r => (r.1, o :: r.2))
    | _ => none

theorem HS.runO_run (G : Geom) : ∀ (acts : List Act) (s : HS), HS.run G s acts = (HS.runO G s acts).map (·.1)
  | [], s => rfl
  | a :: as, s => by
    simp only [HS.run, HS.runO]
    cases h : HS.step G s a with
    | ok s' o => simp only [HS.runO_run G as s', Option.map_map]; rfl
    | blocked => rfl
    | panic => rfl

inductive BReach (G : Geom) : BS → Prop
  | init (time : Nat) : BReach G (BS.init time)
  | step {b b' : BS} {a : Act} {o : Out} : BReach G b → BS.step G b a = .ok b' o → BReach G b'

theorem toHS_init (time : Nat) : (BS.init time).toHS = HS.init time := rfl

/-- ANY RUN: same outputs, same final state up to `babs` (in particular the same delivery log), or both fail -/
theorem runO_sim (G : Geom) : ∀ (acts : List Act) (b : BS), BInv b.arr → HInv b.toHS →
    (match BS.runO G b acts with
     | some (b', outs) => HS.runO G b.toHS acts = some (b'.toHS, outs) ∧ BInv b'.arr ∧ HInv b'.toHS
     | none => HS.runO G b.toHS acts = none)
  | [], b, hi, hh => ⟨rfl, hi, hh⟩
  | a :: as, b, hi, hh => by
    have h1 := step_sim G b hi hh a
    simp only [BS.runO, HS.runO]
    cases hs : BS.step G b a with
    | ok b' o =>
      rw [hs] at h1
      simp only [h1.1]
      have hh' : HInv b'.toHS := hh.step G h1.1
      have ih := runO_sim G as b' h1.2 hh'
      cases hr : BS.runO G b' as with
      | some r => rw [hr] at ih; simp [ih.1, ih.2]
      | none => rw [hr] at ih; simp [ih]
    | blocked => rw [hs] at h1; simp [h1]
    | panic => rw [hs] at h1; simp [h1]

theorem BReach.sim {G : Geom} {b : BS} (h : BReach G b) : HReach G b.toHS ∧ BInv b.arr := by
  induction h with
  | init time => exact ⟨HReach.init time, BInv.empty⟩
  | step hb hs ih =>
    rename_i b0 b1 a o
    have h1 := step_sim G b0 ih.2 ih.1.inv a
    rw [hs] at h1
    exact ⟨HReach.step ih.1 h1.1, h1.2⟩

/-- what `BInv` says, on the array itself -/
theorem BInv_iff (a : BHeap) :
    BInv a ↔ (∀ i (h : i < a.size), 0 < i → hless a[i].n (a[(i - 1) / 2]'(by omega)).n = false) ∧
      (∀ i (h : i < a.size), a[i].index = i) := by
  constructor
  · intro h
    refine ⟨fun i hi h0 => ?_, fun i hi => ?_⟩
    · rw [key_eq, key_eq]; exact h.ord i h0 hi
    · rw [idx_eq]; exact h.idx i hi
  · intro h
    refine ⟨fun i h0 hi => ?_, fun i hi => ?_⟩
    · have := h.1 i hi h0
      rw [key_eq, key_eq] at this; exact this
    · rw [← idx_eq a i hi]; exact h.2 i hi

end Fatchoy.C05
