/-
C05 helper lemmas, part 6: following one timer id through `expireNear`.
-/
import Fatchoy.Lemmas.C05WheelInv
namespace Fatchoy.C05

/-- the deliveries of timer `id` recorded in a log (newest first) -/
def entries (log : List (Nat × Nat)) (id : Nat) : List (Nat × Nat) := log.filter (fun e => e.2 == id)

def ids (l : List WNode) : List Nat := l.map (·.id)

theorem filter_id_singleton : ∀ (l : List WNode), (ids l).Nodup → ∀ n ∈ l,
    l.filter (fun m => m.id == n.id) = [n]
  | [], _, n, hn => by simp at hn
  | m :: l, hnd, n, hn => by
    simp only [ids, List.map_cons, List.nodup_cons] at hnd
    rcases List.mem_cons.mp hn with rfl | hn'
    · have : l.filter (fun m => m.id == n.id) = [] := by
        apply List.filter_eq_nil_iff.mpr
        intro x hx hxe
        simp only [beq_iff_eq] at hxe
        exact hnd.1 (hxe ▸ List.mem_map_of_mem (f := (·.id)) hx)
      simp [this]
    · have hne : ¬ (m.id = n.id) := by
        intro he
        exact hnd.1 (he ▸ List.mem_map_of_mem (f := (·.id)) hn')
      have ih := filter_id_singleton l hnd.2 n hn'
      simp [hne, ih]

theorem filter_id_nil (l : List WNode) (id : Nat) (h : id ∉ ids l) : l.filter (fun m => m.id == id) = [] := by
  apply List.filter_eq_nil_iff.mpr
  intro x hx hxe
  simp only [beq_iff_eq] at hxe
  exact h (hxe ▸ List.mem_map_of_mem (f := (·.id)) hx)

/-- the part of a batch of deliveries that belongs to `id` -/
theorem entries_batch (l : List WNode) (p : WNode → Bool) (t id : Nat) :
    entries ((((l.filter p).map (fun n => (t, n.id))).reverse)) id =
      (((l.filter (fun m => m.id == id)).filter p).map (fun n => (t, n.id))).reverse := by
  unfold entries
  rw [List.filter_reverse, List.filter_map]
  congr 2
  rw [List.filter_filter, List.filter_filter]
  apply List.filter_congr
  intro x _
  simp [Function.comp, Bool.and_comm]

theorem entries_append (a b : List (Nat × Nat)) (id : Nat) : entries (a ++ b) id = entries a id ++ entries b id := by
  unfold entries; exact List.filter_append ..

end Fatchoy.C05

namespace Fatchoy.C05
namespace WS

section
variable (c : Nat) (s : WS) (h : ∀ n ∈ s.w.nodes, NodeOK s.w.off s.w.time n)
include h

theorem expire_frame :
    (expire (litGeom c) s).w.off = s.w.off ∧ (expire (litGeom c) s).w.time = s.w.time ∧
    (expire (litGeom c) s).f.cancelled = s.f.cancelled ∧ (expire (litGeom c) s).f.addQ = s.f.addQ ∧
    (expire (litGeom c) s).f.delQ = s.f.delQ ∧ (expire (litGeom c) s).f.nextId = s.f.nextId := by
  obtain ⟨h1, h2, h3, h4, h5, h6, _⟩ := expire_spec c s h
  exact ⟨h1, h2, h3, h4, h5, h6⟩

/-- the nodes after `expireNear`: the ones not due, plus the re-armed periodic ones -/
theorem mem_expire_nodes (m : WNode) :
    m ∈ (expire (litGeom c) s).w.nodes ↔
      (m ∈ s.w.nodes ∧ m.deadline ≠ s.w.time) ∨
      (∃ n ∈ s.w.nodes, n.deadline = s.w.time ∧ n.id ∉ s.f.cancelled ∧ n.period > 0 ∧
        m = rearm (litGeom c) s.w.off s.w.time n) := by
  obtain ⟨_, _, _, _, _, _, h7, _, _⟩ := expire_spec c s h
  rw [h7]
  simp only [List.mem_append, List.mem_filter, List.mem_map, dueB, liveB, Bool.and_eq_true, decide_eq_true_eq,
    Bool.not_eq_true', beq_eq_false_iff_ne, beq_iff_eq, ne_eq]
  constructor
  · rintro (⟨a, b⟩ | ⟨n, ⟨⟨hn, hd⟩, hl, hp⟩, rfl⟩)
    · exact .inl ⟨a, b⟩
    · exact .inr ⟨n, hn, hd, hl, hp, rfl⟩
  · rintro (⟨a, b⟩ | ⟨n, hn, hd, hl, hp, rfl⟩)
    · exact .inl ⟨a, b⟩
    · exact .inr ⟨n, ⟨⟨hn, hd⟩, hl, hp⟩, rfl⟩

theorem mem_expire_refer (i : Nat) :
    i ∈ (expire (litGeom c) s).f.refer ↔
      i ∈ s.f.refer ∧ ¬ ∃ n ∈ s.w.nodes, n.id = i ∧ n.deadline = s.w.time ∧ n.id ∉ s.f.cancelled ∧ n.period = 0 := by
  obtain ⟨_, _, _, _, _, _, _, _, h9⟩ := expire_spec c s h
  rw [h9]
  simp only [List.mem_filter, Bool.not_eq_true', List.contains_eq_mem, decide_eq_false_iff_not, List.mem_map,
    dueB, liveB, Bool.and_eq_true, decide_eq_true_eq, beq_iff_eq]
  constructor
  · rintro ⟨a, b⟩
    refine ⟨a, ?_⟩
    rintro ⟨n, hn, hi, hd, hl, hp⟩
    exact b ⟨n, ⟨⟨hn, hd⟩, hl, hp⟩, hi⟩
  · rintro ⟨a, b⟩
    refine ⟨a, ?_⟩
    rintro ⟨n, ⟨⟨hn, hd⟩, hl, hp⟩, hi⟩
    exact b ⟨n, hn, hi, hd, hl, hp⟩

theorem expire_log_entries (id : Nat) :
    entries (expire (litGeom c) s).f.log id =
      ((((s.w.nodes.filter (fun m => m.id == id)).filter (dueB s.w.time)).filter (liveB s.f.cancelled)).map
        (fun n => (s.w.time, n.id))).reverse ++ entries s.f.log id := by
  obtain ⟨_, _, _, _, _, _, _, h8, _⟩ := expire_spec c s h
  rw [h8, entries_append, entries_batch]
  congr 4
  rw [List.filter_filter, List.filter_filter]
  apply List.filter_congr
  intro x _
  exact Bool.and_comm ..

/-- every delivery of one pass is logged at the current time -/
theorem expire_log : ∃ batch : List (Nat × Nat),
    (expire (litGeom c) s).f.log = batch ++ s.f.log ∧
    ∀ e ∈ batch, e.1 = s.w.time ∧ ∃ n ∈ s.w.nodes, n.id = e.2 ∧ n.deadline = s.w.time ∧ n.id ∉ s.f.cancelled := by
  obtain ⟨_, _, _, _, _, _, _, h8, _⟩ := expire_spec c s h
  refine ⟨_, h8, ?_⟩
  intro e he
  simp only [List.mem_reverse, List.mem_map, List.mem_filter, dueB, liveB, beq_iff_eq, decide_eq_true_eq] at he
  obtain ⟨n, ⟨⟨hn, hd⟩, hl⟩, rfl⟩ := he
  exact ⟨rfl, n, hn, rfl, hd, hl⟩

end

end WS
end Fatchoy.C05
