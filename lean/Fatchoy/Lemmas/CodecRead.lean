/-
Reader lemmas of the codec model: `io.ReadFull` and `ReadHeadBody` depend on the reader only through
the bytes it will deliver; the outcomes of `ReadHeadBody` for a complete frame, a refused length, a
stream that ends inside the header or inside the payload.
-/
import Fatchoy.Lemmas.CodecSpec
namespace Fatchoy.Codec
open Fatchoy.Crc32


theorem subWrap_eq {bits len hs : Nat} (h1 : hs ≤ len) (h2 : len < 2 ^ bits) : subWrap bits len hs = len - hs := by
  unfold subWrap
  have h3 : hs < 2 ^ bits := by omega
  rw [Nat.mod_eq_of_lt h3]
  have : len + 2 ^ bits - hs = (len - hs) + 2 ^ bits := by omega
  rw [this, Nat.add_mod_right, Nat.mod_eq_of_lt (by omega)]

/-- `io.ReadFull` depends on the reader only through the bytes it will deliver -/
theorem readFull_congr {n : Nat} {cs cs' : Chunks} (h : flat cs = flat cs') :
    (readFull n cs).1 = (readFull n cs').1 ∧ flat (readFull n cs).2 = flat (readFull n cs').2 := by
  by_cases hlt : (flat cs).length < n
  · obtain ⟨a1, a2⟩ := readFull_err hlt
    obtain ⟨b1, b2⟩ := readFull_err (h ▸ hlt)
    rw [a1, a2, b1, b2, h]; exact ⟨rfl, rfl⟩
  · have hs : flat cs = (flat cs).take n ++ (flat cs).drop n := (List.take_append_drop n _).symm
    have hl : ((flat cs).take n).length = n := by rw [List.length_take]; omega
    obtain ⟨a1, a2⟩ := readFull_ok hs hl
    obtain ⟨b1, b2⟩ := readFull_ok (cs := cs') (h ▸ hs : flat cs' = (flat cs).take n ++ (flat cs).drop n) hl
    rw [a1, a2, b1, b2]; exact ⟨rfl, rfl⟩

/-- a well-formed header followed by the announced payload is read exactly -/
theorem readHeadBody_ok {F : Fmt} {cs : Chunks} {hdr pl tail : Bytes} {n : Nat}
    (hl : hdr.length = F.headerSize) (hf : field? F.get "len" hdr = some n)
    (hg : ¬ (n < F.readLo ∨ n > F.readHi)) (hsw : subWrap F.lenBits n F.readSub = pl.length)
    (h : flat cs = hdr ++ (pl ++ tail)) :
    (readHeadBody F cs).res = .ok (hdr, pl) ∧ flat (readHeadBody F cs).rest = tail ∧
    (readHeadBody F cs).alloc = [pl.length] ∧ (readHeadBody F cs).awaited = [F.headerSize, pl.length] := by
  obtain ⟨r1, r2⟩ := readFull_ok h hl
  unfold readHeadBody
  rcases hrf : readFull F.headerSize cs with ⟨x1, x2⟩
  rw [hrf] at r1 r2
  simp only at r1 r2
  subst r1
  simp only [hf, hg, if_false, hsw]
  obtain ⟨q1, q2⟩ := readFull_ok r2 rfl
  rcases hrf2 : readFull pl.length x2 with ⟨y1, y2⟩
  rw [hrf2] at q1 q2
  simp only at q1 q2
  subst q1
  exact ⟨rfl, q2, rfl, rfl⟩

/-- a header whose length field is outside the accepted range is refused before anything is allocated -/
theorem readHeadBody_refused {F : Fmt} {cs : Chunks} {hdr tail : Bytes} {n : Nat}
    (hl : hdr.length = F.headerSize) (hf : field? F.get "len" hdr = some n)
    (hg : n < F.readLo ∨ n > F.readHi) (h : flat cs = hdr ++ tail) :
    (readHeadBody F cs).res = .error .overflow ∧ flat (readHeadBody F cs).rest = tail ∧
    (readHeadBody F cs).alloc = [] ∧ (readHeadBody F cs).awaited = [F.headerSize] := by
  obtain ⟨r1, r2⟩ := readFull_ok h hl
  unfold readHeadBody
  rcases hrf : readFull F.headerSize cs with ⟨x1, x2⟩
  rw [hrf] at r1 r2
  simp only at r1 r2
  subst r1
  simp only [hf, hg, if_true]
  exact ⟨trivial, r2, trivial, trivial⟩

/-- a stream that ends inside the header -/
theorem readHeadBody_short_header {F : Fmt} {cs : Chunks} (h : (flat cs).length < F.headerSize) :
    (∃ er, (readHeadBody F cs).res = .error er ∧ (er = .eof ∨ er = .short)) ∧
    (readHeadBody F cs).alloc = [] ∧ (readHeadBody F cs).awaited = [F.headerSize] := by
  obtain ⟨r1, r2⟩ := readFull_err h
  unfold readHeadBody
  rcases hrf : readFull F.headerSize cs with ⟨x1, x2⟩
  rw [hrf] at r1
  simp only at r1
  subst r1
  refine ⟨⟨_, rfl, ?_⟩, rfl, rfl⟩
  by_cases hz : (flat cs).length = 0 <;> simp [hz]

/-- a stream that ends inside the announced payload -/
theorem readHeadBody_short_payload {F : Fmt} {cs : Chunks} {hdr rest : Bytes} {n : Nat}
    (hl : hdr.length = F.headerSize) (hf : field? F.get "len" hdr = some n)
    (hg : ¬ (n < F.readLo ∨ n > F.readHi)) (hsh : rest.length < subWrap F.lenBits n F.readSub)
    (h : flat cs = hdr ++ rest) :
    (∃ er, (readHeadBody F cs).res = .error er ∧ (er = .eof ∨ er = .short)) ∧
    (readHeadBody F cs).alloc = [subWrap F.lenBits n F.readSub] ∧
    (readHeadBody F cs).awaited = [F.headerSize, subWrap F.lenBits n F.readSub] := by
  obtain ⟨r1, r2⟩ := readFull_ok h hl
  unfold readHeadBody
  rcases hrf : readFull F.headerSize cs with ⟨x1, x2⟩
  rw [hrf] at r1 r2
  simp only at r1 r2
  subst r1
  simp only [hf, hg, if_false]
  obtain ⟨q1, q2⟩ := readFull_err (cs := x2) (n := subWrap F.lenBits n F.readSub) (by rw [r2]; exact hsh)
  rcases hrf2 : readFull (subWrap F.lenBits n F.readSub) x2 with ⟨y1, y2⟩
  rw [hrf2] at q1
  simp only at q1
  subst q1
  refine ⟨⟨_, rfl, ?_⟩, rfl, rfl⟩
  by_cases hz : (flat x2).length = 0 <;> simp [hz]


end Fatchoy.Codec
