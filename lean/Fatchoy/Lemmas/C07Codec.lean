/-
Glue between the packet-value model (Model/C07.lean) and the wire-codec model (Model/Codec.lean, C01):
the codec environment's varint parameters instantiated with Go's varints of Model/Varint.lean, the
embedding of a C07 packet into the codec's packet type on the sender's side and back on the
receiver's side, and the refinement lemma: what a V1/V2 decoder returns for an encoded packet is
what the C07 model's `crossWire` says (flag, body, command, sequence number).
-/
import Fatchoy.Lemmas.C07
import Fatchoy.Props.C01
namespace Fatchoy.C07
open Fatchoy.Varint

/-! ### Go's varints as the codec environment's parameters -/

/-- `binary.PutVarint` of an int64 given as an integer (reduced to its 64 bits) -/
def goPutVarint (v : Int) : Bytes := putVarint (BitVec.ofInt 64 v)

/-- first result of `binary.Varint`, as an integer -/
def goVarint (b : Bytes) : Int := (varint b).1.toInt

/-- the environment's varint parameters are Go's (everything else — zlib, cipher, threshold — is free) -/
def GoVarints (e : Codec.Env) : Prop := e.putVarint = goPutVarint ∧ e.varint = goVarint

theorem goPutVarint_ne_nil (v : Int) : goPutVarint v ≠ [] := by
  intro h; have := (putVarint_length (BitVec.ofInt 64 v)).1
  unfold goPutVarint at h; rw [h] at this; simp at this

/-- the inversion hypothesis of `C01_errno_body`: holds for every int64 -/
theorem goVarint_goPutVarint (v : Int) (h : -(2 ^ 63 : Int) ≤ v ∧ v < 2 ^ 63) : goVarint (goPutVarint v) = v := by
  unfold goVarint goPutVarint
  have := varint_putVarint (BitVec.ofInt 64 v) []
  rw [List.append_nil] at this
  rw [this, BitVec.toInt_ofInt, Int.bmod_eq_of_le] <;> omega

/-- an integer body under the error flag comes back as the same integer through either codec, for
every int64: `C01_errno_body` with its hypotheses discharged by Go's varints -/
theorem errno_body_go (P : Codec.Params) (hv : Codec.Valid01 P) (F : Codec.Fmt) (e : Codec.Env) (hg : GoVarints e)
    (p : Codec.Pkt) (v : Int) (hr : -(2 ^ 63 : Int) ≤ v ∧ v < 2 ^ 63) (hbody : p.body = .int v)
    (hflag : p.flag &&& 16#8 ≠ 0#8) : (Codec.expect P F e p).body = .int v :=
  C01.C01_errno_body P hv F e p v hbody hflag (by rw [hg.1]; exact goPutVarint_ne_nil v)
    (by rw [hg.1, hg.2]; exact goVarint_goPutVarint v hr)

/-! ### the two parameter sets describe the same source -/

def Consistent (P7 : Params) (P : Codec.Params) : Prop :=
  P.flagError = P7.errFlag ∧ P.flagCompressed = P7.compressedFlag ∧ P.flagEncrypted = P7.encryptedFlag ∧
  P.nilBodyEncodes = P7.bytesHasNil
instance (P7 : Params) (P : Codec.Params) : Decidable (Consistent P7 P) := by unfold Consistent; infer_instance

/-! ### embeddings -/

/-- the sender's body as the codec model sees it. The codec only ever calls `BodyToBytes`: text
travels like bytes, and a float body is, to the codec, the bytes of the uvarint of its bits. -/
def toBody : GoVal → Option Codec.Body
  | .nil => some .absent
  | .bytes b => some (.bytes b)
  | .str s => some (.bytes s)
  | .i64 v => some (.int v.toInt)
  | .f64 v => some (.bytes (putUvarint v))
  | _ => none

def toPkt (p : Packet) (cb : Codec.Body) : Codec.Pkt :=
  { cmd := p.cmd, seq := p.seq, typ := p.typ, flag := p.flg, node := p.node, refs := p.refers, body := cb }

/-- the receiver's body: what `SetBody(x int64)` / `SetBody(body []byte)` / nothing leave in a fresh packet -/
def ofBody : Codec.Body → GoVal
  | .absent => .nil
  | .bytes b => .bytes b
  | .int v => .i64 (BitVec.ofInt 64 v)

def ofPkt (q : Codec.Pkt) : Packet :=
  { cmd := q.cmd, seq := q.seq, typ := q.typ, flg := q.flag, node := q.node, body := ofBody q.body,
    refers := q.refs, endpoint := none }

theorem ofBody_normal (cb : Codec.Body) : Normal (ofBody cb) := by
  cases cb <;> constructor

theorem toBody_some_of_normal {b : GoVal} (h : Normal b) : ∃ cb, toBody b = some cb := by
  cases h <;> exact ⟨_, rfl⟩

/-- the codec model's abstraction of `BodyToBytes` agrees with the C07 model on every sender body -/
theorem bodyToBytes_agree {P7 : Params} {P : Codec.Params} (hv7 : Valid P7) (hc : Consistent P7 P)
    {e : Codec.Env} (hg : GoVarints e) {b : GoVal} {cb : Codec.Body} (hb : toBody b = some cb) :
    ∃ w, bodyToBytes P7 b = .ok w ∧ Codec.bodyToBytes P e cb = some w := by
  have hnil : P7.bytesHasNil = true := by
    obtain ⟨_, _, _, _, _, _, _, _, h, _⟩ := hv7; exact h
  have hnil' : P.nilBodyEncodes = true := by rw [hc.2.2.2, hnil]
  cases b <;> simp only [toBody, Option.some.injEq, reduceCtorEq] at hb <;> subst hb
  case nil => exact ⟨[], by unfold bodyToBytes; rw [hnil]; rfl, by unfold Codec.bodyToBytes; rw [hnil']; rfl⟩
  case bytes v => exact ⟨v, rfl, rfl⟩
  case str s => exact ⟨s, rfl, rfl⟩
  case i64 v =>
    refine ⟨putVarint v, encodeInto_varint hv7 v, ?_⟩
    simp only [Codec.bodyToBytes, hg.1, goPutVarint, BitVec.ofInt_toInt]
  case f64 v => exact ⟨putUvarint v, encodeInto_uvarint hv7 v, rfl⟩

/-- … and on every body a decoder produced, whatever integer the decoder's varint returned -/
theorem bodyToBytes_ofBody {P7 : Params} {P : Codec.Params} (hv7 : Valid P7) (hc : Consistent P7 P)
    (cb : Codec.Body) :
    ∃ w, bodyToBytes P7 (ofBody cb) = .ok w ∧ ∀ e : Codec.Env, GoVarints e → Codec.bodyToBytes P e cb = some w := by
  have hnil : P7.bytesHasNil = true := by
    obtain ⟨_, _, _, _, _, _, _, _, h, _⟩ := hv7; exact h
  have hnil' : P.nilBodyEncodes = true := by rw [hc.2.2.2, hnil]
  cases cb with
  | absent => exact ⟨[], by unfold ofBody bodyToBytes; rw [hnil]; rfl, fun e _ => by unfold Codec.bodyToBytes; rw [hnil']; rfl⟩
  | bytes b => exact ⟨b, rfl, fun _ _ => rfl⟩
  | int v =>
    refine ⟨putVarint (BitVec.ofInt 64 v), encodeInto_varint hv7 _, fun e hg => ?_⟩
    simp only [Codec.bodyToBytes, hg.1, goPutVarint]

/-- every codec packet is encodable once `BodyToBytes` accepts nil (D8) -/
theorem encodable_any {P : Codec.Params} (hnil : P.nilBodyEncodes = true) (e : Codec.Env) (q : Codec.Pkt) :
    Codec.Encodable P e q := by
  unfold Codec.Encodable Codec.bodyToBytes
  cases q.body <;> simp [hnil]

/-- the codec model's decoded body is the C07 model's `recvBody` -/
theorem ofBody_decodedBody {P7 : Params} {P : Codec.Params} (hc : Consistent P7 P) {e : Codec.Env}
    (hg : GoVarints e) (flag : BitVec 8) (b : Bytes) :
    ofBody (Codec.decodedBody P e flag b) = recvBody P7 flag b := by
  have hbit : Codec.bit8 P.flagError = errBit P7 := by unfold Codec.bit8 errBit; rw [hc.1]
  unfold Codec.decodedBody recvBody
  cases b with
  | nil => simp [ofBody]
  | cons c cs =>
    simp only [reduceCtorEq, if_false, hbit]
    split
    · simp only [ofBody, hg.2, goVarint, BitVec.ofInt_toInt]
    · rfl

/-- `Errno` looks at the flag, the body and (before the D9 fix) the command only -/
theorem errno_congr (P7 : Params) {a b : Packet} (hf : a.flg = b.flg) (hb : a.body = b.body) (hc : a.cmd = b.cmd) :
    errno P7 a = errno P7 b := by
  unfold errno; rw [hf, hb, hc]

/-! ### refinement: the V1/V2 round trip is `crossWire` -/

/-- A packet whose body has a wire form, encoded by `WritePacket` of either format under any lawful
environment with Go's varints and followed by anything, is decoded — however the stream is chunked —
to a packet with the flag, body, command and sequence number that `crossWire` computes; the reader
stops exactly at the end of the frame. -/
theorem codec_refines_crossWire {P7 : Params} {P : Codec.Params} (hv7 : Valid P7) (hv : Codec.Valid01 P)
    (hc : Consistent P7 P) {F : Codec.Fmt} (hF : F = P.v1 ∨ F = P.v2) {e : Codec.Env} (hl : e.Lawful)
    (hg : GoVarints e) {p : Packet} {cb : Codec.Body} (hb : toBody p.body = some cb)
    (wf : Codec.WF F (toPkt p cb)) (fit : Codec.Fits P F e (toPkt p cb)) {tail : Bytes} {cs : Codec.Chunks}
    (hcs : Codec.flat cs = (Codec.writePacket P F e (toPkt p cb)).bytes ++ tail) :
    ∃ q r, (Codec.readPacket P F e cs).res = .ok q ∧ Codec.flat (Codec.readPacket P F e cs).rest = tail ∧
      crossWire P7 p = .ok r ∧ (ofPkt q).flg = r.flg ∧ (ofPkt q).body = r.body ∧
      (ofPkt q).cmd = r.cmd ∧ (ofPkt q).seq = r.seq := by
  obtain ⟨w, hw7, hwc⟩ := bodyToBytes_agree (P := P) hv7 hc hg hb
  have henc : Codec.Encodable P e (toPkt p cb) := by
    unfold Codec.Encodable; show (Codec.bodyToBytes P e cb).isSome; rw [hwc]; rfl
  obtain ⟨hcmd1, hseq1, hflag1, hbody1, h2, _, _, _⟩ := C01.C01_expect_fields P hv e (toPkt p cb) w hwc
  have hdec := ofBody_decodedBody (P7 := P7) hc hg p.flg w
  refine ⟨Codec.expect P F e (toPkt p cb),
    { cmd := p.cmd, seq := p.seq, typ := 0, flg := p.flg, node := 0, body := recvBody P7 p.flg w,
      refers := [], endpoint := none }, ?_, ?_, ?_, ?_, ?_, ?_, ?_⟩
  · rcases hF with h | h
    · subst h; exact (C01.C01_v1_roundtrip P hv e hl _ wf henc fit tail cs hcs).1
    · subst h; exact (C01.C01_v2_roundtrip P hv e hl _ wf henc fit tail cs hcs).1
  · rcases hF with h | h
    · subst h; exact (C01.C01_v1_roundtrip P hv e hl _ wf henc fit tail cs hcs).2
    · subst h; exact (C01.C01_v2_roundtrip P hv e hl _ wf henc fit tail cs hcs).2
  · unfold crossWire; rw [hw7]
  · rcases hF with h | h
    · subst h; show (Codec.expect P P.v1 e (toPkt p cb)).flag = p.flg; rw [hflag1]; rfl
    · subst h; show (Codec.expect P P.v2 e (toPkt p cb)).flag = p.flg; rw [h2]; rfl
  · rcases hF with h | h
    · subst h; show ofBody (Codec.expect P P.v1 e (toPkt p cb)).body = _; rw [hbody1]; exact hdec
    · subst h; show ofBody (Codec.expect P P.v2 e (toPkt p cb)).body = _; rw [h2]; exact hdec
  · rcases hF with h | h
    · subst h; show (Codec.expect P P.v1 e (toPkt p cb)).cmd = p.cmd; rw [hcmd1]; rfl
    · subst h; show (Codec.expect P P.v2 e (toPkt p cb)).cmd = p.cmd; rw [h2]; rfl
  · rcases hF with h | h
    · subst h; show (Codec.expect P P.v1 e (toPkt p cb)).seq = p.seq; rw [hseq1]; rfl
    · subst h; show (Codec.expect P P.v2 e (toPkt p cb)).seq = p.seq; rw [h2]; rfl

/-! ### a concrete lawful environment with Go's varints, for the non-vacuity examples -/

/-- the codec engineer's toy zlib and cipher (marker byte, reversal), threshold 4, Go's varints -/
def demoGoEnv : Codec.Env := { Codec.demoEnv with putVarint := goPutVarint, varint := goVarint }

theorem demoGoEnv_lawful : demoGoEnv.Lawful :=
  ⟨Codec.demoEnv_lawful.cmp, Codec.demoEnv_lawful.dec_enc, Codec.demoEnv_lawful.enc_len⟩

theorem demoGoEnv_go : GoVarints demoGoEnv := ⟨rfl, rfl⟩

/-- command 77, sequence 9, rpc flag, on which `SetErrno(-70000)` is called -/
def demoErrPacket : Packet := mkNew params 77 9 0x20 .nil
def demoErrCode : BitVec 32 := BitVec.ofInt 32 (-70000)
def demoErrSent : Codec.Pkt :=
  toPkt (setErrno params demoErrPacket demoErrCode) (.int (demoErrCode.signExtend 64).toInt)

/-- its body is the three varint bytes of zig-zag(-70000), reversed by the toy cipher; flag 0x30 | encrypted -/
theorem demoErr_marshal : Codec.marshalBody C01.params demoGoEnv demoErrSent =
    .ok ([0x08, 0xc5, 0xdf], { demoErrSent with flag := 0x32#8 }) := by rfl

theorem demoErr_fits (F : Codec.Fmt) (hF : F = C01.params.v1 ∨ F = C01.params.v2) :
    Codec.Fits C01.params F demoGoEnv demoErrSent := by
  intro w p' h
  rw [demoErr_marshal] at h
  injection h with h; injection h with hw hp; subst hw
  rcases hF with h | h <;> subst h <;> decide

end Fatchoy.C07
