/-
Refinement of the recency-list model of C13 to the stamp-based reference LRU (`Ref`, Model/C13Spec.lean).

`View s items clock ents`: `s` is the reference table `ents` listed by descending stamp; dropping the
stamps from `s` gives the model's recency list.  Every reference primitive (lookup by key, smallest
stamp, sort by stamp, delete, re-stamp) is computed on `ents` and shown to agree with the list primitive
on `s`.
-/
import Fatchoy.Lemmas.C13
namespace Fatchoy.C13

structure View (s : List REnt) (items : List (K × V)) (clock : Nat) (ents : List REnt) : Prop where
  items_eq : items = s.map kv
  sorted : s.Pairwise (fun a b => b.t < a.t)
  below : ∀ e ∈ s, e.t < clock
  perm : ents.Perm s
  nodup : (s.map (·.k)).Nodup

/-! ### generic list facts -/

theorem eq_of_nodup_map {α β : Type} (f : α → β) {l : List α} (hn : (l.map f).Nodup) {a b : α}
    (ha : a ∈ l) (hb : b ∈ l) (h : f a = f b) : a = b := by
  induction l with
  | nil => cases ha
  | cons x rest ih =>
    simp only [List.map_cons, List.nodup_cons] at hn
    rcases List.mem_cons.mp ha with ha' | ha' <;> rcases List.mem_cons.mp hb with hb' | hb'
    · rw [ha', hb']
    · exact absurd (ha' ▸ h ▸ List.mem_map_of_mem (f := f) hb') hn.1
    · exact absurd (hb' ▸ h.symm ▸ List.mem_map_of_mem (f := f) ha') hn.1
    · exact ih hn.2 ha' hb'

theorem find?_perm_unique {α : Type} {p : α → Bool} {l₁ l₂ : List α} (hp : l₁.Perm l₂)
    (hu : ∀ a ∈ l₁, ∀ b ∈ l₁, p a → p b → a = b) : l₁.find? p = l₂.find? p := by
  cases h1 : l₁.find? p with
  | none =>
    symm
    rw [List.find?_eq_none] at h1 ⊢
    exact fun a ha => h1 a (hp.symm.subset ha)
  | some a =>
    have ha := List.mem_of_find?_eq_some h1
    have hpa := List.find?_some h1
    cases h2 : l₂.find? p with
    | none =>
      rw [List.find?_eq_none] at h2
      exact absurd hpa (h2 a (hp.subset ha))
    | some b =>
      have hb := List.mem_of_find?_eq_some h2
      have hpb := List.find?_some h2
      rw [hu a ha b (hp.symm.subset hb) hpa hpb]

theorem stamp_inj {s : List REnt} (hs : s.Pairwise (fun a b => b.t < a.t)) {a b : REnt}
    (ha : a ∈ s) (hb : b ∈ s) (h : a.t = b.t) : a = b := by
  induction s with
  | nil => cases ha
  | cons x rest ih =>
    rw [List.pairwise_cons] at hs
    rcases List.mem_cons.mp ha with ha' | ha' <;> rcases List.mem_cons.mp hb with hb' | hb'
    · rw [ha', hb']
    · have := hs.1 b hb'; rw [← ha'] at this; omega
    · have := hs.1 a ha'; rw [← hb'] at this; omega
    · exact ih hs.2 ha' hb'

/-! ### the reference primitives on a viewed table -/

theorem lookup_map_kv (s : List REnt) (k : K) : lookup (s.map kv) k = (rfind s k).map (·.v) := by
  induction s with
  | nil => simp [lookup, rfind]
  | cons e rest ih =>
    rw [List.map_cons, lookup_cons, ih]
    unfold rfind
    by_cases h : e.k = k <;> simp [kv, h]

theorem erase_map_kv (s : List REnt) (k : K) : erase (s.map kv) k = (rdel s k).map kv := by
  unfold erase rdel
  rw [List.filter_map]
  rfl

theorem View.find {s items clock ents} (h : View s items clock ents) (k : K) :
    rfind ents k = rfind s k := by
  unfold rfind
  apply find?_perm_unique h.perm
  intro a ha b hb hpa hpb
  have hn : (ents.map (·.k)).Nodup := (h.perm.map _).symm.nodup h.nodup
  apply eq_of_nodup_map (·.k) hn ha hb
  simp only [beq_iff_eq] at hpa hpb
  rw [hpa, hpb]

theorem View.lookup {s items clock ents} (h : View s items clock ents) (k : K) :
    lookup items k = (rfind ents k).map (·.v) := by
  rw [h.items_eq, lookup_map_kv, h.find]

theorem View.length {s items clock ents} (h : View s items clock ents) :
    items.length = ents.length := by
  rw [h.items_eq, List.length_map, h.perm.length_eq]

theorem oldest_spec (l : List REnt) :
    (oldest l = none ↔ l = []) ∧ ∀ a, oldest l = some a → a ∈ l ∧ ∀ e ∈ l, a.t ≤ e.t := by
  induction l with
  | nil => simp [oldest]
  | cons x rest ih =>
    obtain ⟨ih1, ih2⟩ := ih
    constructor
    · simp only [oldest]
      cases h : oldest rest with
      | none => simp
      | some a => simp only []; split <;> simp
    · intro a ha
      simp only [oldest] at ha
      cases h : oldest rest with
      | none =>
        have hr : rest = [] := ih1.mp h
        simp only [h, Option.some.injEq] at ha
        subst ha; subst hr
        simp
      | some b =>
        obtain ⟨hb1, hb2⟩ := ih2 b h
        simp only [h] at ha
        split at ha
        · rename_i hlt
          simp only [Option.some.injEq] at ha
          subst ha
          refine ⟨List.mem_cons_self, ?_⟩
          intro e he
          rcases List.mem_cons.mp he with he | he
          · subst he; exact Nat.le_refl _
          · have := hb2 e he; omega
        · rename_i hlt
          simp only [Option.some.injEq] at ha
          subst ha
          refine ⟨List.mem_cons_of_mem _ hb1, ?_⟩
          intro e he
          rcases List.mem_cons.mp he with he | he
          · subst he; omega
          · exact hb2 e he

theorem View.oldest {s items clock ents} (h : View s items clock ents) :
    oldest ents = s.getLast? := by
  obtain ⟨h1, h2⟩ := oldest_spec ents
  cases hl : s.getLast? with
  | none =>
    have hs : s = [] := List.getLast?_eq_none_iff.mp hl
    have : ents = [] := by
      have := h.perm; rw [hs] at this; exact this.eq_nil
    exact h1.mpr this
  | some z =>
    obtain ⟨ys, hys⟩ := List.getLast?_eq_some_iff.mp hl
    cases ho : Fatchoy.C13.oldest ents with
    | none =>
      have he : ents = [] := h1.mp ho
      have hp := h.perm
      rw [he, hys] at hp
      have := hp.length_eq
      simp at this
    | some a =>
      obtain ⟨ha1, ha2⟩ := h2 a ho
      have has : a ∈ s := h.perm.subset ha1
      have hz : z ∈ ents := h.perm.symm.subset (by rw [hys]; simp)
      have hle := ha2 z hz
      rw [hys] at has
      rcases List.mem_append.mp has with hmem | hmem
      · have hsort := h.sorted
        rw [hys, List.pairwise_append] at hsort
        have := hsort.2.2 a hmem z (by simp)
        omega
      · simp only [List.mem_singleton] at hmem
        rw [hmem]

theorem View.byAge {s items clock ents} (h : View s items clock ents) :
    byAge ents = s.reverse := by
  unfold Fatchoy.C13.byAge
  have hperm : (ents.mergeSort (fun a b => decide (a.t ≤ b.t))).Perm s.reverse :=
    (List.mergeSort_perm _ _).trans (h.perm.trans (List.reverse_perm _).symm)
  apply List.Perm.eq_of_pairwise (le := fun a b => decide (a.t ≤ b.t) = true) _ _ _ hperm
  · intro a b ha hb hab hba
    simp only [decide_eq_true_eq] at hab hba
    have ha' : a ∈ s := by
      have := hperm.subset ha; simpa using this
    have hb' : b ∈ s := by simpa using hb
    exact stamp_inj h.sorted ha' hb' (by omega)
  · apply List.pairwise_mergeSort
    · intro a b c hab hbc
      simp only [decide_eq_true_eq] at hab hbc ⊢
      omega
    · intro a b
      simp only [Bool.or_eq_true, decide_eq_true_eq]
      omega
  · rw [List.pairwise_reverse]
    exact h.sorted.imp (fun hlt => by simp only [decide_eq_true_eq]; omega)

/-- a sub-table (listed in the same order) is still a view of the corresponding sub-list -/
theorem View.sub {s items clock ents} (h : View s items clock ents) {s' ents' : List REnt}
    (hs : s'.Sublist s) (hp : ents'.Perm s') : View s' (s'.map kv) clock ents' :=
  ⟨rfl, h.sorted.sublist hs, fun e he => h.below e (hs.subset he), hp, (hs.map _).nodup h.nodup⟩

theorem View.del {s items clock ents} (h : View s items clock ents) (k : K) :
    View (rdel s k) (erase items k) clock (rdel ents k) := by
  have := h.sub (s' := rdel s k) (ents' := rdel ents k) List.filter_sublist (h.perm.filter _)
  rwa [← erase_map_kv, ← h.items_eq] at this

theorem rtouch_perm {s : List REnt} (hn : (s.map (·.k)).Nodup) {k : K} {e : REnt}
    (hf : rfind s k = some e) (v : V) (now : Nat) :
    (rtouch s k v now).Perm ({ k := k, v := v, t := now } :: rdel s k) := by
  induction s with
  | nil => simp [rfind] at hf
  | cons x rest ih =>
    simp only [List.map_cons, List.nodup_cons] at hn
    by_cases hx : x.k = k
    · have hrest : ∀ y ∈ rest, y.k ≠ k := fun y hy hk =>
        hn.1 (by rw [hx, ← hk]; exact List.mem_map_of_mem (f := (·.k)) hy)
      have h1 : rtouch rest k v now = rest := by
        unfold rtouch
        have : ∀ y ∈ rest, (fun e : REnt => if e.k == k then { e with v := v, t := now } else e) y = id y :=
          fun y hy => by simp [hrest y hy]
        rw [List.map_congr_left this, List.map_id]
      have h2 : rdel rest k = rest := by
        unfold rdel
        exact List.filter_eq_self.mpr (fun y hy => by simpa using hrest y hy)
      have h3 : rtouch (x :: rest) k v now = { k := k, v := v, t := now } :: rtouch rest k v now := by
        unfold rtouch
        simp [hx]
      have h4 : rdel (x :: rest) k = rdel rest k := by
        unfold rdel; simp [hx]
      rw [h3, h4, h1, h2]
    · have hf' : rfind rest k = some e := by
        unfold rfind at hf ⊢
        simpa [List.find?_cons, hx] using hf
      have h3 : rtouch (x :: rest) k v now = x :: rtouch rest k v now := by
        unfold rtouch
        simp [hx]
      have h4 : rdel (x :: rest) k = x :: rdel rest k := by
        unfold rdel; simp [hx]
      rw [h3, h4]
      exact ((ih hn.2 hf').cons x).trans (List.Perm.swap _ _ _)

/-- `Put`/`Get` of a present key: re-stamping in the table = moving to the front of the list -/
theorem View.touch {s items clock ents} (h : View s items clock ents) {k : K} {e : REnt}
    (hf : rfind ents k = some e) (v : V) :
    View ({ k := k, v := v, t := clock } :: rdel s k) ((k, v) :: erase items k) (clock + 1)
      (rtouch ents k v clock) := by
  have hf' : rfind s k = some e := by rw [← h.find]; exact hf
  have hd := h.del k
  refine ⟨?_, ?_, ?_, ?_, ?_⟩
  · rw [List.map_cons, ← hd.items_eq]; rfl
  · rw [List.pairwise_cons]
    refine ⟨fun a ha => ?_, hd.sorted⟩
    exact hd.below a ha
  · intro a ha
    rcases List.mem_cons.mp ha with ha | ha
    · subst ha; simp
    · have := hd.below a ha; omega
  · exact ((h.perm.map _).trans (rtouch_perm h.nodup hf' v clock))
  · simp only [List.map_cons, List.nodup_cons]
    refine ⟨?_, hd.nodup⟩
    intro hmem
    obtain ⟨y, hy, hk⟩ := List.mem_map.mp hmem
    unfold rdel at hy
    simp only [List.mem_filter, bne_iff_ne, ne_eq] at hy
    exact hy.2 hk

/-- `Put` of an absent key: a new table row with the current stamp = a new list head -/
theorem View.push {s items clock ents} (h : View s items clock ents) {k : K}
    (hf : rfind ents k = none) (v : V) :
    View ({ k := k, v := v, t := clock } :: s) ((k, v) :: items) (clock + 1)
      ({ k := k, v := v, t := clock } :: ents) := by
  have hf' : rfind s k = none := by rw [← h.find]; exact hf
  refine ⟨?_, ?_, ?_, ?_, ?_⟩
  · rw [List.map_cons, ← h.items_eq]; rfl
  · rw [List.pairwise_cons]
    exact ⟨fun a ha => h.below a ha, h.sorted⟩
  · intro a ha
    rcases List.mem_cons.mp ha with ha | ha
    · subst ha; simp
    · have := h.below a ha; omega
  · exact h.perm.cons _
  · simp only [List.map_cons, List.nodup_cons]
    refine ⟨?_, h.nodup⟩
    intro hmem
    obtain ⟨y, hy, hk⟩ := List.mem_map.mp hmem
    unfold rfind at hf'
    rw [List.find?_eq_none] at hf'
    exact hf' y hy (by simpa using hk)

theorem View.mono {s items clock ents} (h : View s items clock ents) {clock' : Nat} (hc : clock ≤ clock') :
    View s items clock' ents :=
  ⟨h.items_eq, h.sorted, fun e he => Nat.lt_of_lt_of_le (h.below e he) hc, h.perm, h.nodup⟩

theorem dropOldest_concat (l : List (K × V)) (a : K × V) : dropOldest (l ++ [a]) = (l, [a]) := by
  simp [dropOldest]

/-- evicting the smallest stamp = dropping the last list element -/
theorem View.evict1 {s items clock ents} (h : View s items clock ents) :
    View s.dropLast (dropOldest items).1 clock (evict1 ents).1 ∧ (evict1 ents).2 = (dropOldest items).2 := by
  unfold Fatchoy.C13.evict1
  rw [h.oldest]
  cases hl : s.getLast? with
  | none =>
    have hs : s = [] := List.getLast?_eq_none_iff.mp hl
    have hi : items = [] := by rw [h.items_eq, hs]; rfl
    subst hs
    rw [hi]
    simp only [dropOldest, List.getLast?_nil, List.dropLast_nil]
    rw [hi] at h
    constructor
    · exact h
    · first | rfl | trivial
  | some z =>
    obtain ⟨ys, hys⟩ := List.getLast?_eq_some_iff.mp hl
    have hi : items = ys.map kv ++ [kv z] := by rw [h.items_eq, hys]; simp
    rw [hi, dropOldest_concat]
    simp only []
    have hd := h.del z.k
    have hdel : rdel s z.k = ys := by
      rw [hys]
      unfold rdel
      rw [List.filter_append]
      have hn := h.nodup
      rw [hys, List.map_append, List.nodup_append] at hn
      have h1 : ys.filter (fun e => e.k != z.k) = ys := by
        apply List.filter_eq_self.mpr
        intro y hy
        have := hn.2.2 y.k (List.mem_map_of_mem (f := (·.k)) hy) z.k (by simp)
        simpa using this
      rw [h1]; simp
    refine ⟨?_, rfl⟩
    have hsub := h.sub (s' := ys) (ents' := rdel ents z.k)
      (by rw [hys]; exact List.sublist_append_left _ _) (by rw [← hdel]; exact hd.perm)
    rw [hys, List.dropLast_concat]
    exact hsub

theorem View.evictMany {s items clock ents} (h : View s items clock ents) (n : Nat) :
    (∃ s', View s' (evictN n items).1 clock (evictMany n ents).1) ∧
      (evictMany n ents).2 = (evictN n items).2 := by
  induction n generalizing s items ents with
  | zero => exact ⟨⟨s, h⟩, rfl⟩
  | succ n ih =>
    obtain ⟨h1, h2⟩ := h.evict1
    obtain ⟨h3, h4⟩ := ih h1
    simp only [Fatchoy.C13.evictMany, evictN]
    exact ⟨h3, by rw [h2, h4]⟩

/-! ### the simulation -/

/-- the model cache and the reference table describe the same LRU -/
def Rel (c : Cache) (r : Ref) : Prop :=
  c.cap = r.cap ∧ c.cb = r.cb ∧ ∃ s, View s c.items r.clock r.ents

theorem rel_new {size : Int} {cb : Bool} {c0 : Cache} {r0 : Ref} (h : new size cb = some c0)
    (h' : Ref.new size cb = some r0) : Rel c0 r0 := by
  unfold new at h
  unfold Ref.new at h'
  by_cases hs : size ≤ 0
  · simp [hs] at h
  · simp only [hs, if_false, Option.some.injEq] at h h'
    subst h; subst h'
    exact ⟨rfl, rfl, [], ⟨rfl, List.Pairwise.nil, by simp, List.Perm.refl _, by simp⟩⟩

theorem step_sim (c : Cache) (r : Ref) (op : Op) (hrel : Rel c r) (hd : InDomain op) :
    Rel (step c op).1 (r.step op).1 ∧ (step c op).2 = (r.step op).2 := by
  obtain ⟨hcap, hcb, s, hv⟩ := hrel
  cases op with
  | len =>
    refine ⟨⟨hcap, hcb, s, hv⟩, ?_⟩
    simp [step, Ref.step, hv.length]
  | cap =>
    refine ⟨⟨hcap, hcb, s, hv⟩, ?_⟩
    simp [step, Ref.step, hcap]
  | contains k =>
    refine ⟨⟨hcap, hcb, s, hv⟩, ?_⟩
    simp [step, Ref.step, hv.lookup]
  | peek k =>
    refine ⟨⟨hcap, hcb, s, hv⟩, ?_⟩
    simp [step, Ref.step, hv.lookup]
  | getOldest =>
    refine ⟨⟨hcap, hcb, s, hv⟩, ?_⟩
    simp only [step, Ref.step, hv.oldest, hv.items_eq, List.getLast?_map]
    rfl
  | keys =>
    refine ⟨⟨hcap, hcb, s, hv⟩, ?_⟩
    simp only [step, Ref.step, hv.byAge, hv.items_eq]
    simp [kv, List.map_reverse]
  | get k =>
    simp only [step, Ref.step, hv.lookup]
    cases hf : rfind r.ents k with
    | none => exact ⟨⟨hcap, hcb, s, hv⟩, rfl⟩
    | some e => exact ⟨⟨hcap, hcb, _, hv.touch hf e.v⟩, rfl⟩
  | put k v =>
    simp only [step, Ref.step, hv.lookup]
    cases hf : rfind r.ents k with
    | some e => exact ⟨⟨hcap, hcb, _, hv.touch hf v⟩, rfl⟩
    | none =>
      simp only [Option.map_none]
      have hp := hv.push hf v
      have hlen : ((k, v) :: c.items).length = ({ k := k, v := v, t := r.clock } :: r.ents : List REnt).length := by
        simp [hv.length]
      rw [hlen, hcap]
      split
      · obtain ⟨h1, h2⟩ := hp.evict1
        exact ⟨⟨rfl, hcb, _, h1⟩, by simp only [h2]⟩
      · exact ⟨⟨rfl, hcb, _, hp⟩, rfl⟩
  | resize n =>
    have hn : 0 ≤ n := hd
    simp only [step, Ref.step]
    have hlen := hv.length
    have hnat : (if (c.items.length : Int) - n < 0 then 0 else (c.items.length : Int) - n).toNat
        = r.ents.length - n.toNat := by
      split <;> omega
    rw [hnat]
    obtain ⟨⟨s', h1⟩, h2⟩ := hv.evictMany (r.ents.length - n.toNat)
    refine ⟨⟨rfl, hcb, s', h1⟩, ?_⟩
    rw [h2]
    obtain ⟨_, h3⟩ := evictN_spec (r.ents.length - n.toNat) c.items
    have : (if (c.items.length : Int) - n < 0 then (0 : Int) else (c.items.length : Int) - n)
        = ((evictN (r.ents.length - n.toNat) c.items).2.length : Int) := by
      rw [h3]; split <;> omega
    rw [this]
  | remove k =>
    simp only [step, Ref.step, hv.lookup]
    cases hf : rfind r.ents k with
    | none => exact ⟨⟨hcap, hcb, s, hv⟩, rfl⟩
    | some e => exact ⟨⟨hcap, hcb, _, hv.del k⟩, rfl⟩
  | removeOldest =>
    simp only [step, Ref.step, hv.oldest]
    have hl : c.items.getLast? = s.getLast?.map kv := by rw [hv.items_eq, List.getLast?_map]
    rw [hl]
    cases hs : s.getLast? with
    | none => exact ⟨⟨hcap, hcb, s, hv⟩, rfl⟩
    | some z =>
      simp only [Option.map_some]
      obtain ⟨h1, _⟩ := hv.evict1
      have he : (evict1 r.ents).1 = rdel r.ents z.k := by
        unfold evict1; rw [hv.oldest, hs]
      have hi : (dropOldest c.items).1 = c.items.dropLast := by
        unfold dropOldest; rw [hl, hs]; rfl
      rw [he, hi] at h1
      exact ⟨⟨hcap, hcb, _, h1⟩, rfl⟩
  | purge =>
    simp only [step, Ref.step, hv.byAge, List.reverse_reverse]
    refine ⟨⟨hcap, hcb, [], ⟨rfl, List.Pairwise.nil, by simp, List.Perm.refl _, by simp⟩⟩, ?_⟩
    rw [hv.items_eq]
    rfl

theorem trace_sim (c : Cache) (r : Ref) (ops : List Op) (hrel : Rel c r) (hd : ∀ op ∈ ops, InDomain op) :
    trace c ops = r.trace ops := by
  induction ops generalizing c r with
  | nil => rfl
  | cons op rest ih =>
    obtain ⟨h1, h2⟩ := step_sim c r op hrel (hd op List.mem_cons_self)
    simp only [trace, Ref.trace]
    rw [ih _ _ h1 (fun o ho => hd o (List.mem_cons_of_mem _ ho))]
    congr 1
    have hcb : c.cb = r.cb := hrel.2.1
    rw [show (step c op).2.1 = (r.step op).2.1 from congrArg Prod.fst h2]
    rw [show (step c op).2.2 = (r.step op).2.2 from congrArg Prod.snd h2]
    simp [cbLog, hcb]

end Fatchoy.C13
