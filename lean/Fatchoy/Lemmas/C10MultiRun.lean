/-
C10 helper lemmas, part 10: one step and whole histories of the multi-iterator machine.
-/
import Fatchoy.Lemmas.C10Multi
namespace Fatchoy.C10

/-- the listing after the effect of a step on the specification side -/
def specEffect (L : List Entry) : Option Op → List Entry
  | some o => (specStep L o).1
  | none => L

theorem mstep_base (P : Params) (st : MState) (op : Op) :
    mstep P st (.base op) = ({ st with m := (step P st.m op).1 }, .base (step P st.m op).2) := rfl

/-- the step lemma: invariant, refinement of the listing, balance, the modification counter -/
theorem mstep_inv (P : Params) (hP : Valid P) (st : MState) (h : MInv st) (op : MOp) :
    MInv (mstep P st op).1 ∧
    toList (mstep P st op).1.m.root = specEffect (toList st.m.root) (effect P st op) ∧
    (RB st.m.root → RB (mstep P st op).1.m.root) ∧
    (mstep P st op).1.m.version = st.m.version + (if changesStructure P st op then 1 else 0) := by
  cases op with
  | base op =>
    rw [mstep_base]
    simp only [effect, specEffect, changesStructure]
    obtain ⟨_, r2, r3⟩ := step_refines P st.m op h.1
    have hver := step_version P hP st.m h.1 op
    refine ⟨⟨r3, fun s it hg => ?_⟩, r2, step_RB P st.m op, hver⟩
    obtain ⟨a, b⟩ := h.2 s it hg
    simp only at hver ⊢
    cases hs : structural (toList st.m.root) op
    · rw [hs] at hver
      simp only [Bool.false_eq_true, if_false, Nat.add_zero] at hver
      exact ⟨by omega, fun e => PosOK_of_keys (nonstructural_keys P st.m h.1 op hs) (b (by omega))⟩
    · rw [hs] at hver
      simp only [if_true] at hver
      exact ⟨by omega, fun e => by omega⟩
  | create s kind =>
    simp only [mstep, effect, specEffect, changesStructure, Bool.false_eq_true, if_false, Nat.add_zero]
    refine ⟨⟨h.1, fun t it hg => ?_⟩, (by first | rfl | trivial), id, (by first | rfl | trivial)⟩
    by_cases hts : t = s
    · subst hts
      simp only [getIt_setIt_same, Option.some.injEq] at hg
      subst hg
      exact ⟨Nat.le_refl _, fun _ => PosOK_iterNew st.m kind⟩
    · simp only [getIt_setIt_other _ _ hts] at hg
      exact h.2 t it hg
  | hasNext s =>
    simp only [mstep, effect, specEffect, changesStructure, Bool.false_eq_true, if_false, Nat.add_zero]
    split <;> exact ⟨h, (by first | rfl | trivial), id, (by first | rfl | trivial)⟩
  | next s =>
    simp only [effect, specEffect, changesStructure, Bool.false_eq_true, if_false, Nat.add_zero]
    cases hg : getIt st.iters s with
    | none => simp only [mstep, hg]; exact ⟨h, (by first | rfl | trivial), id, (by first | rfl | trivial)⟩
    | some it =>
      cases hr : iterNext st.m it with
      | error err => simp only [mstep, hg, hr]; exact ⟨h, (by first | rfl | trivial), id, (by first | rfl | trivial)⟩
      | ok r =>
        obtain ⟨it', e⟩ := r
        simp only [mstep, hg, hr]
        refine ⟨⟨h.1, fun t itt hgt => ?_⟩, (by first | rfl | trivial), id, (by first | rfl | trivial)⟩
        by_cases hts : t = s
        · subst hts
          simp only [getIt_setIt_same, Option.some.injEq] at hgt
          subst hgt
          have hv := iterNext_ok_fresh hr
          rcases fresh_next st.m h.1 it hv ((h.2 t it hg).2 hv) with ⟨_, h2⟩ | ⟨it2, k, v, h1, _, _, h4, _, _, h7⟩
          · rw [h2] at hr; cases hr
          · rw [h1] at hr
            cases hr
            exact ⟨by simp only at h4 ⊢; omega, fun _ => h7⟩
        · simp only [getIt_setIt_other _ _ hts] at hgt
          exact h.2 t itt hgt
  | iremove s =>
    cases hg : getIt st.iters s with
    | none =>
      simp only [mstep, hg, effect, specEffect, changesStructure, Bool.false_eq_true, if_false, Nat.add_zero]
      exact ⟨h, (by first | rfl | trivial), id, (by first | rfl | trivial)⟩
    | some it =>
      cases hr : iterRemove P st.m it with
      | error err =>
        simp only [mstep, hg, hr, effect, specEffect, changesStructure, Bool.false_eq_true, if_false, Nat.add_zero]
        exact ⟨h, (by first | rfl | trivial), id, (by first | rfl | trivial)⟩
      | ok r =>
        obtain ⟨m', it'⟩ := r
        have hv := iterRemove_ok_fresh hr
        rcases fresh_remove P hP st.m h.1 it hv ((h.2 s it hg).2 hv) with ⟨_, h2⟩ | ⟨k, it2, h1, h2, h3, h4, _, h6, h7, h8⟩
        · rw [h2] at hr; cases hr
        · rw [h2] at hr
          cases hr
          simp only [mstep, hg, h2, effect, specEffect, changesStructure, h1, Option.map_some, structural, h6,
            if_true, specStep]
          refine ⟨⟨h8, fun t itt hgt => ?_⟩, (remove_refines st.m k h.1).1, remove_RB st.m k, h3⟩
          by_cases hts : t = s
          · subst hts
            simp only [getIt_setIt_same, Option.some.injEq] at hgt
            subst hgt
            exact ⟨by simp only; omega, fun _ => h7⟩
          · simp only [getIt_setIt_other _ _ hts] at hgt
            have := (h.2 t itt hgt).1
            exact ⟨by simp only; omega, fun e => by simp only at e; omega⟩

theorem mrun_inv (P : Params) (hP : Valid P) : ∀ (ops : List MOp) (st : MState), MInv st →
    MInv (mrun P st ops).1 ∧
    toList (mrun P st ops).1.m.root = (specRun (toList st.m.root) (changes P st ops)).1 ∧
    (RB st.m.root → RB (mrun P st ops).1.m.root)
  | [], st, h => ⟨h, rfl, id⟩
  | op :: ops, st, h => by
    obtain ⟨h1, h2, h3, _⟩ := mstep_inv P hP st h op
    obtain ⟨i1, i2, i3⟩ := mrun_inv P hP ops (mstep P st op).1 h1
    simp only [mrun, changes]
    refine ⟨i1, ?_, fun hr => i3 (h3 hr)⟩
    rw [i2, h2]
    cases effect P st op with
    | none => rfl
    | some o => simp [specEffect, specRun]

/-! ### staleness is for good -/

/-- the iterator of slot `s` across one step that does not re-create it -/
theorem mstep_slot (P : Params) (hP : Valid P) (st : MState) (h : MInv st) (op : MOp) (s : Nat) (it : Iter)
    (hg : getIt st.iters s = some it) (hc : recreates s op = false) :
    ∃ it', getIt (mstep P st op).1.iters s = some it' ∧ it'.kind = it.kind ∧
      (it.expVer < st.m.version → it'.expVer < (mstep P st op).1.m.version) ∧
      (foreignTo P s st op = true → it'.expVer < (mstep P st op).1.m.version) ∧
      (foreignTo P s st op = false → it.expVer = st.m.version → it'.expVer = (mstep P st op).1.m.version) := by
  obtain ⟨hinv, _, _, hver⟩ := mstep_inv P hP st h op
  have hle := (h.2 s it hg).1
  cases op with
  | base op =>
    have hfor : foreignTo P s st (.base op) = changesStructure P st (.base op) := rfl
    rw [hfor]
    refine ⟨it, by rw [mstep_base]; exact hg, rfl, ?_, ?_, ?_⟩ <;> intro hf
    · split at hver <;> omega
    · rw [hf] at hver; simp only [if_true] at hver; omega
    · intro e; rw [hf] at hver; simp only [Bool.false_eq_true, if_false] at hver; omega
  | create t kind =>
    have hts : s ≠ t := by
      intro e; subst e; simp [recreates] at hc
    have hfor : foreignTo P s st (.create t kind) = false := rfl
    have hm : (mstep P st (.create t kind)).1.m = st.m := rfl
    rw [hfor, hm]
    exact ⟨it, by simp only [mstep, getIt_setIt_other _ _ hts]; exact hg, rfl, id, (fun e => by cases e), (fun _ e => e)⟩
  | hasNext t =>
    have : (mstep P st (.hasNext t)).1 = st := by simp only [mstep]; split <;> rfl
    rw [this]
    refine ⟨it, hg, rfl, id, ?_, fun _ e => e⟩
    simp [foreignTo, changesStructure, effect]
  | next t =>
    simp only [changesStructure, effect, Bool.false_eq_true, if_false, Nat.add_zero] at hver
    have hfor : foreignTo P s st (.next t) = false := by simp [foreignTo, changesStructure, effect]
    rw [hfor, hver]
    cases hgt : getIt st.iters t with
    | none => simp only [mstep, hgt]; exact ⟨it, hg, rfl, id, (fun e => by cases e), (fun _ e => e)⟩
    | some itt =>
      cases hr : iterNext st.m itt with
      | error err => simp only [mstep, hgt, hr]; exact ⟨it, hg, rfl, id, (fun e => by cases e), (fun _ e => e)⟩
      | ok r =>
        obtain ⟨it', e⟩ := r
        simp only [mstep, hgt, hr]
        by_cases hts : s = t
        · subst hts
          rw [hg] at hgt; cases hgt
          have hv := iterNext_ok_fresh hr
          rcases fresh_next st.m h.1 it hv ((h.2 s it hg).2 hv) with ⟨_, h2⟩ | ⟨it2, k, v, h1, _, _, h4, h5, _, _⟩
          · rw [h2] at hr; cases hr
          · rw [h1] at hr; cases hr
            exact ⟨_, getIt_setIt_same .., h5, fun e => by omega, (fun e => by cases e), (fun _ e => by omega)⟩
        · exact ⟨it, by rw [getIt_setIt_other _ _ hts]; exact hg, rfl, id, (fun e => by cases e), (fun _ e => e)⟩
  | iremove t =>
    cases hgt : getIt st.iters t with
    | none =>
      simp only [mstep, hgt, foreignTo, changesStructure, effect, Bool.and_false]
      exact ⟨it, hg, rfl, id, (fun e => by cases e), (fun _ e => e)⟩
    | some itt =>
      cases hr : iterRemove P st.m itt with
      | error err =>
        simp only [mstep, hgt, hr, foreignTo, changesStructure, effect, Bool.and_false]
        exact ⟨it, hg, rfl, id, (fun e => by cases e), (fun _ e => e)⟩
      | ok r =>
        obtain ⟨m', it'⟩ := r
        have hv := iterRemove_ok_fresh hr
        rcases fresh_remove P hP st.m h.1 itt hv ((h.2 t itt hgt).2 hv) with ⟨_, h2⟩ | ⟨k, it2, h1, h2, h3, h4, h5, h6, _, _⟩
        · rw [h2] at hr; cases hr
        · rw [h2] at hr; cases hr
          simp only [mstep, hgt, h2, foreignTo, changesStructure, effect, h1, Option.map_some, structural, h6,
            Bool.and_true]
          by_cases hts : s = t
          · subst hts
            rw [hg] at hgt; cases hgt
            refine ⟨_, getIt_setIt_same .., h5, fun e => by omega, fun e => by simp at e, fun _ _ => by omega⟩
          · refine ⟨it, by rw [getIt_setIt_other _ _ hts]; exact hg, rfl, fun _ => by omega, fun _ => by omega, ?_⟩
            intro e
            have : (t != s) = true := by simp; exact fun e => hts e.symm
            rw [this] at e; cases e

/-- over a history that does not re-create slot `s`: its iterator is still there, of the same kind; once stale it
stays stale; a foreign structural change makes it stale; without one a fresh iterator stays fresh -/
theorem mrun_slot (P : Params) (hP : Valid P) : ∀ (ops : List MOp) (st : MState), MInv st → ∀ (s : Nat) (it : Iter),
    getIt st.iters s = some it → (ops.any (recreates s)) = false →
    ∃ it', getIt (mrun P st ops).1.iters s = some it' ∧ it'.kind = it.kind ∧
      (it.expVer < st.m.version → it'.expVer < (mrun P st ops).1.m.version) ∧
      (foreignRun P s st ops = true → it'.expVer < (mrun P st ops).1.m.version) ∧
      (foreignRun P s st ops = false → it.expVer = st.m.version → it'.expVer = (mrun P st ops).1.m.version)
  | [], st, _, s, it, hg, _ => ⟨it, hg, rfl, id, fun e => by simp [foreignRun] at e, fun _ e => e⟩
  | op :: ops, st, h, s, it, hg, hc => by
    simp only [List.any_cons, Bool.or_eq_false_iff] at hc
    obtain ⟨it1, g1, k1, a1, b1, c1⟩ := mstep_slot P hP st h op s it hg hc.1
    obtain ⟨it2, g2, k2, a2, b2, c2⟩ := mrun_slot P hP ops (mstep P st op).1 (mstep_inv P hP st h op).1 s it1 g1 hc.2
    simp only [mrun, foreignRun]
    refine ⟨it2, g2, by rw [k2, k1], fun e => a2 (a1 e), ?_, ?_⟩
    · intro e
      simp only [Bool.or_eq_true] at e
      cases hf : foreignTo P s st op
      · rw [hf] at e
        rcases e with e | e
        · cases e
        · exact b2 e
      · exact a2 (b1 hf)
    · intro e hv
      simp only [Bool.or_eq_false_iff] at e
      exact c2 e.2 (c1 e.1 hv)

end Fatchoy.C10
