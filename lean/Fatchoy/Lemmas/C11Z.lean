/-
C11, layer Z: rank slices, the member→score table, and the simulation of zset.go (on the abstract skip
list L) by the reference semantics of Model/C11Spec.lean.
-/
import Fatchoy.Lemmas.C11L
namespace Fatchoy.C11

/-! ### rank slices -/

theorem slice_aux {α : Type} (l : List α) (k : Nat) (lo hi : Int) :
    ((l.zipIdx k).filter (fun p => decide (lo ≤ (p.2 : Int)) && decide ((p.2 : Int) ≤ hi))).map (·.1)
      = (l.take (hi + 1 - k).toNat).drop (lo - k).toNat := by
  induction l generalizing k with
  | nil => simp
  | cons x r ih =>
    rw [List.zipIdx_cons]
    by_cases hsel : lo ≤ (k : Int) ∧ (k : Int) ≤ hi
    · rw [List.filter_cons_of_pos (by simp [hsel.1, hsel.2]), List.map_cons, ih (k + 1)]
      have e1 : (lo - ((k + 1 : Nat) : Int)).toNat = 0 := by omega
      have e2 : (lo - (k : Int)).toNat = 0 := by omega
      have e3 : (hi + 1 - (k : Int)).toNat = (hi + 1 - ((k + 1 : Nat) : Int)).toNat + 1 := by omega
      rw [e1, e2, e3]; simp
    · rw [List.filter_cons_of_neg (by simp; omega), ih (k + 1)]
      by_cases hk : hi < (k : Int)
      · have e1 : (hi + 1 - (k : Int)).toNat = 0 := by omega
        have e2 : (hi + 1 - ((k + 1 : Nat) : Int)).toNat = 0 := by omega
        rw [e1, e2]; simp
      · have e1 : (lo - (k : Int)).toNat = (lo - ((k + 1 : Nat) : Int)).toNat + 1 := by omega
        have e3 : (hi + 1 - (k : Int)).toNat = (hi + 1 - ((k + 1 : Nat) : Int)).toNat + 1 := by omega
        rw [e1, e3]; simp

/-- the reference slice as take/drop -/
theorem slice_eq {α : Type} (l : List α) (start stop : Int) :
    slice l start stop =
      (l.take (normIdx l.length stop + 1).toNat).drop (normIdx l.length start).toNat := by
  unfold slice
  have := slice_aux l 0 (normIdx l.length start) (normIdx l.length stop)
  simpa using this

theorem fromEnd_eq (len : Nat) (i : Int) : fromEnd len i = normIdx len i := by
  unfold fromEnd normIdx
  split <;> omega

theorem clampRange_eq (llen lo hi : Int) :
    clampRange llen lo hi =
      if max lo 0 > hi ∨ max lo 0 ≥ llen then none else some (max lo 0, min hi (llen - 1)) := by
  unfold clampRange
  simp only []
  have e1 : (if lo < 0 then 0 else lo) = max lo 0 := by split <;> omega
  have e2 : (if hi ≥ llen then llen - 1 else hi) = min hi (llen - 1) := by split <;> omega
  rw [e1, e2]
  by_cases hc : max lo 0 > hi ∨ max lo 0 ≥ llen
  · rw [if_pos hc, if_pos (by simpa using hc)]
  · rw [if_neg hc, if_neg (by simpa using hc)]

theorem clamp_none {α : Type} (l : List α) (lo hi : Int)
    (h : max lo 0 > hi ∨ max lo 0 ≥ (l.length : Int)) :
    (l.take (hi + 1).toNat).drop lo.toNat = [] := by
  apply List.drop_eq_nil_of_le
  rw [List.length_take]
  omega

theorem clamp_some {α : Type} (l : List α) (lo hi : Int)
    (h1 : ¬ max lo 0 > hi) (h2 : max lo 0 < (l.length : Int)) :
    (l.take (hi + 1).toNat).drop lo.toNat =
      (l.drop (max lo 0).toNat).take (min hi ((l.length : Int) - 1) - max lo 0 + 1).toNat := by
  have e1 : lo.toNat = (max lo 0).toNat := by omega
  rw [List.drop_take, e1, List.take_eq_take_iff, List.length_drop]
  omega

/-- the code's index normalisation against the reference slice: the early return means an empty
  slice, otherwise the bounds are inside the list and cut out exactly the slice -/
theorem normRange_spec {α : Type} (l : List α) (start stop : Int) :
    (normRange l.length start stop = none → slice l start stop = []) ∧
    (∀ a b, normRange l.length start stop = some (a, b) →
      0 ≤ a ∧ a ≤ b ∧ b < (l.length : Int) ∧
      slice l start stop = (l.drop a.toNat).take (b - a + 1).toNat) := by
  rw [slice_eq]
  unfold normRange
  rw [fromEnd_eq, fromEnd_eq, clampRange_eq]
  generalize normIdx l.length start = lo
  generalize normIdx l.length stop = hi
  by_cases hc : max lo 0 > hi ∨ max lo 0 ≥ (l.length : Int)
  · rw [if_pos hc]
    exact ⟨fun _ => clamp_none l lo hi hc, fun a b h => by cases h⟩
  · rw [if_neg hc]
    refine ⟨fun h => (by cases h), ?_⟩
    intro a b h
    simp only [Option.some.injEq, Prod.mk.injEq] at h
    obtain ⟨ha, hb⟩ := h
    subst ha; subst hb
    refine ⟨by omega, by omega, by omega, ?_⟩
    exact clamp_some l lo hi (by omega) (by omega)

theorem walk_spec (l : List Node) (n : Nat) (h : n ≤ l.length) :
    walk l n = some ((l.take n).map (·.ele)) := by
  induction l generalizing n with
  | nil =>
    have : n = 0 := by simpa using h
    subst this; rfl
  | cons x r ih =>
    cases n with
    | zero => rfl
    | succ n =>
      simp only [walk, List.take_succ_cons, List.map_cons]
      rw [ih n (by simpa using h)]
      rfl

theorem getElementByRank_node (l : SL) (r : Int) (h1 : 0 < r) (h2 : r ≤ (l.length : Int)) :
    ∃ n, L.getElementByRank l r = .node n := by
  unfold L.getElementByRank
  have e1 : ¬ r < 0 := by omega
  have e2 : (r == 0) = false := by simp; omega
  simp only [e1, e2, if_false, Bool.false_eq_true]
  have : r.toNat - 1 < l.length := by omega
  rw [List.getElem?_eq_getElem this]
  exact ⟨_, rfl⟩

/-! ### the member→score table -/

theorem dget_eq_none {d : Dict} {e : Nat} : dget d e = none ↔ ∀ p ∈ d, p.1 ≠ e := by
  unfold dget
  simp [List.find?_eq_none]

theorem dget_cons (p : Nat × Int) (d : Dict) (e : Nat) :
    dget (p :: d) e = if p.1 = e then some p.2 else dget d e := by
  unfold dget
  by_cases h : p.1 = e <;> simp [h]

theorem dget_mem {d : Dict} {e : Nat} {s : Int} (h : dget d e = some s) : (e, s) ∈ d := by
  induction d with
  | nil => simp [dget] at h
  | cons p rest ih =>
    rw [dget_cons] at h
    by_cases hp : p.1 = e
    · simp only [hp, if_true, Option.some.injEq] at h
      have : p = (e, s) := by cases p; simp_all
      rw [this]; exact List.mem_cons_self
    · simp only [hp, if_false] at h
      exact List.mem_cons_of_mem _ (ih h)

theorem dget_of_mem {d : Dict} (hn : (d.map (·.1)).Nodup) {e : Nat} {s : Int} (h : (e, s) ∈ d) :
    dget d e = some s := by
  induction d with
  | nil => cases h
  | cons p rest ih =>
    rw [dget_cons]
    simp only [List.map_cons, List.nodup_cons] at hn
    rcases List.mem_cons.mp h with h | h
    · subst h; simp
    · have : p.1 ≠ e := fun hk => hn.1 (hk ▸ List.mem_map_of_mem (f := (·.1)) h)
      simp [this, ih hn.2 h]

theorem dget_perm {d d' : Dict} (hp : d.Perm d') (hn : (d.map (·.1)).Nodup) (e : Nat) :
    dget d e = dget d' e := by
  have hn' : (d'.map (·.1)).Nodup := (hp.map _).nodup hn
  cases h : dget d e with
  | some s => exact (dget_of_mem hn' (hp.subset (dget_mem h))).symm
  | none =>
    symm
    rw [dget_eq_none] at h ⊢
    exact fun p hp' => h p (hp.symm.subset hp')

theorem ddelAll_eq (d : Dict) (ns : List Node) :
    ddelAll d ns = d.filter (fun p => !(ns.map (·.ele)).contains p.1) := by
  unfold ddelAll
  induction ns generalizing d with
  | nil => exact (List.filter_eq_self.mpr (by simp)).symm
  | cons n rest ih =>
    rw [List.foldl_cons, ih]
    unfold ddel
    rw [List.filter_filter]
    apply List.filter_congr
    intro p _
    simp only [List.map_cons, List.contains_cons, Bool.not_or]
    rw [Bool.and_comm]
    congr 1

theorem nodup_keys_filter {d : Dict} (hn : (d.map (·.1)).Nodup) (q : Nat × Int → Bool) :
    ((d.filter q).map (·.1)).Nodup :=
  (List.filter_sublist.map _).nodup hn

theorem dset_perm_of_mem {d : Dict} (hn : (d.map (·.1)).Nodup) {e : Nat} {s : Int}
    (h : dget d e = some s) : (dset d e s).Perm d := by
  unfold dset ddel
  induction d with
  | nil => simp [dget] at h
  | cons p rest ih =>
    simp only [List.map_cons, List.nodup_cons] at hn
    rw [dget_cons] at h
    by_cases hp : p.1 = e
    · simp only [hp, if_true, Option.some.injEq] at h
      have hrest : rest.filter (fun q => q.1 != e) = rest := by
        apply List.filter_eq_self.mpr
        intro q hq
        have : q.1 ≠ e := fun hk => hn.1 (by rw [hp, ← hk]; exact List.mem_map_of_mem (f := (·.1)) hq)
        simpa using this
      have : p = (e, s) := by cases p; simp_all
      rw [List.filter_cons_of_neg (by simp [hp]), hrest, this]
    · simp only [hp, if_false] at h
      rw [List.filter_cons_of_pos (by simpa using hp)]
      exact (List.Perm.swap _ _ _).trans ((ih hn.2 h).cons p)

theorem ddel_of_absent {d : Dict} {e : Nat} (h : dget d e = none) : ddel d e = d := by
  unfold ddel
  apply List.filter_eq_self.mpr
  intro p hp
  simpa using dget_eq_none.mp h p hp

theorem nodup_keys_dset {d : Dict} (hn : (d.map (·.1)).Nodup) (e : Nat) (s : Int) :
    ((dset d e s).map (·.1)).Nodup := by
  unfold dset
  simp only [List.map_cons, List.nodup_cons]
  refine ⟨?_, nodup_keys_filter hn _⟩
  intro hmem
  obtain ⟨p, hp, hk⟩ := List.mem_map.mp hmem
  unfold ddel at hp
  simp only [List.mem_filter, bne_iff_ne, ne_eq] at hp
  exact hp.2 hk

/-! ### the relation between the sorted set and the reference table -/

/-- the sorted set and the reference table describe the same ranking: the list is strictly sorted, it
  holds exactly one node per table row, and the set's own dict is the same table -/
structure Rel (z : ZSet) (m : Dict) : Prop where
  sorted : Sorted z.zsl
  nodup : (m.map (·.1)).Nodup
  perm : z.zsl.Perm (m.map toNode)
  dict : z.dict.Perm m

theorem Rel.ranking_eq {z : ZSet} {m : Dict} (h : Rel z m) : ranking m = z.zsl := by
  unfold Fatchoy.C11.ranking
  apply List.Perm.eq_of_pairwise (le := fun a b => a.le b = true)
  · intro a b _ _ hab hba
    exact Node.le_antisymm hab hba
  · exact List.pairwise_mergeSort (le := Node.le) (fun a b c hab hbc => Node.le_trans hab hbc)
      (fun a b => Node.le_total a b) _
  · exact h.sorted.pairwise_le
  · exact (List.mergeSort_perm _ _).trans h.perm.symm

theorem Rel.dget_eq {z : ZSet} {m : Dict} (h : Rel z m) (e : Nat) : dget z.dict e = dget m e :=
  dget_perm h.dict ((h.dict.map _).symm.nodup h.nodup) e

theorem Rel.mem_iff {z : ZSet} {m : Dict} (h : Rel z m) (e : Nat) (s : Int) :
    dget m e = some s ↔ (⟨s, e⟩ : Node) ∈ z.zsl := by
  constructor
  · intro hd
    have := List.mem_map_of_mem (f := toNode) (dget_mem hd)
    exact h.perm.symm.subset this
  · intro hm
    obtain ⟨p, hp, hpe⟩ := List.mem_map.mp (h.perm.subset hm)
    apply dget_of_mem h.nodup
    have : p = (e, s) := by
      cases p; simp only [toNode, Node.mk.injEq] at hpe; simp [hpe.1, hpe.2]
    rw [← this]; exact hp

/-- a member occurs in the list once -/
theorem Rel.member_unique {z : ZSet} {m : Dict} (h : Rel z m) {a b : Node}
    (ha : a ∈ z.zsl) (hb : b ∈ z.zsl) (he : a.ele = b.ele) : a = b := by
  have h1 := (h.mem_iff a.ele a.score).mpr ha
  have h2 := (h.mem_iff b.ele b.score).mpr hb
  rw [he, h2] at h1
  rw [Node.ext_iff']
  exact ⟨(Option.some.inj h1).symm, he⟩

theorem Rel.length {z : ZSet} {m : Dict} (h : Rel z m) : z.zsl.length = m.length := by
  rw [h.perm.length_eq, List.length_map]

theorem Rel.absent {z : ZSet} {m : Dict} (h : Rel z m) {e : Nat} (hd : dget m e = none) :
    ∀ n ∈ z.zsl, n.ele ≠ e := by
  intro n hn he
  have := (h.mem_iff n.ele n.score).mpr hn
  rw [he, hd] at this
  cases this

theorem rel_empty : Rel ZSet.empty [] :=
  ⟨List.Pairwise.nil, by simp, by simp [ZSet.empty], by simp [ZSet.empty]⟩

/-- removing the nodes that fail `keep` from the list, and their rows from both tables -/
theorem Rel.filter_rel {z : ZSet} {m : Dict} (h : Rel z m) (keep : Node → Bool) :
    Rel { dict := z.dict.filter (fun p => keep (toNode p)), zsl := z.zsl.filter keep }
      (m.filter (fun p => keep (toNode p))) := by
  refine ⟨h.sorted.sublist List.filter_sublist, nodup_keys_filter h.nodup _, ?_, h.dict.filter _⟩
  have := h.perm.filter keep
  rw [List.filter_map] at this
  exact this

/-- a new row for a member that has none, and its node at the sorted position -/
theorem Rel.insert_rel {z : ZSet} {m : Dict} (h : Rel z m) {e : Nat} (hd : dget m e = none) (s : Int) :
    Rel { dict := (e, s) :: z.dict, zsl := L.insert z.zsl s e } ((e, s) :: m) := by
  have hn : (⟨s, e⟩ : Node) ∉ z.zsl := fun hm => h.absent hd _ hm rfl
  obtain ⟨h1, h2⟩ := insert_sorted h.sorted s e hn
  refine ⟨h1, ?_, ?_, h.dict.cons _⟩
  · simp only [List.map_cons, List.nodup_cons]
    refine ⟨?_, h.nodup⟩
    intro hmem
    obtain ⟨p, hp, hk⟩ := List.mem_map.mp hmem
    exact dget_eq_none.mp hd p hp hk
  · exact h2.trans (by rw [List.map_cons]; exact (h.perm.cons _))

/-- for rows of the table, "my member is among the removed nodes" is "my node is removed" -/
theorem Rel.contains_ele {z : ZSet} {m : Dict} (h : Rel z m) (q : Node → Bool) {p : Nat × Int}
    (hp : p ∈ m) : ((z.zsl.filter q).map (·.ele)).contains p.1 = q (toNode p) := by
  have hz : toNode p ∈ z.zsl := h.perm.symm.subset (List.mem_map_of_mem (f := toNode) hp)
  cases hq : q (toNode p) with
  | true =>
    rw [List.contains_iff_mem]
    exact List.mem_map.mpr ⟨toNode p, List.mem_filter.mpr ⟨hz, hq⟩, rfl⟩
  | false =>
    cases hc : ((z.zsl.filter q).map (·.ele)).contains p.1 with
    | false => rfl
    | true =>
      rw [List.contains_iff_mem] at hc
      obtain ⟨n, hn, hne⟩ := List.mem_map.mp hc
      rw [List.mem_filter] at hn
      have : n = toNode p := h.member_unique hn.1 hz hne
      rw [this, hq] at hn
      cases hn.2

/-- range removal: the list loses the nodes failing `keep`, the dict loses their members -/
theorem Rel.removeAll {z : ZSet} {m : Dict} (h : Rel z m) (keep : Node → Bool) :
    Rel { dict := ddelAll z.dict (z.zsl.filter (fun n => !keep n)), zsl := z.zsl.filter keep }
      (m.filter (fun p => keep (toNode p))) := by
  have := h.filter_rel keep
  have e : ddelAll z.dict (z.zsl.filter (fun n => !keep n)) = z.dict.filter (fun p => keep (toNode p)) := by
    rw [ddelAll_eq]
    apply List.filter_congr
    intro p hp
    rw [h.contains_ele (fun n => !keep n) (h.dict.subset hp)]
    simp
  rw [e]; exact this

theorem filter_ele_ne_split {P Q : SL} {x : Node}
    (hu : ∀ n ∈ P ++ x :: Q, n.ele = x.ele → n = x) (hn : (P ++ x :: Q).Nodup) :
    (P ++ x :: Q).filter (fun n => n.ele != x.ele) = P ++ Q := by
  rw [List.nodup_append] at hn
  obtain ⟨_, hxQ, hPQ⟩ := hn
  rw [List.nodup_cons] at hxQ
  rw [List.filter_append, List.filter_cons_of_neg (by simp)]
  congr 1
  · apply List.filter_eq_self.mpr
    intro n hn
    have : n.ele ≠ x.ele := by
      intro he
      have := hu n (List.mem_append_left _ hn) he
      exact hPQ n hn x List.mem_cons_self this
    simpa using this
  · apply List.filter_eq_self.mpr
    intro n hn
    have : n.ele ≠ x.ele := by
      intro he
      have := hu n (List.mem_append_right _ (List.mem_cons_of_mem _ hn)) he
      rw [this] at hn
      exact hxQ.1 hn
    simpa using this

/-- `Delete(score, member)` of a member of the set = dropping the nodes with that member -/
theorem Rel.delete_eq {z : ZSet} {m : Dict} (h : Rel z m) {e : Nat} {sc : Int} (hd : dget m e = some sc) :
    L.delete z.zsl sc e = (z.zsl.filter (fun n => n.ele != e), some ⟨sc, e⟩) := by
  have hm : (⟨sc, e⟩ : Node) ∈ z.zsl := (h.mem_iff e sc).mp hd
  obtain ⟨P, Q, hPQ⟩ := List.append_of_mem hm
  have hs := h.sorted
  rw [hPQ] at hs
  have hdel := delete_mem hs
  have hfil := filter_ele_ne_split (P := P) (Q := Q) (x := ⟨sc, e⟩)
    (fun n hn he => h.member_unique (hPQ ▸ hn) hm he) (hPQ ▸ h.sorted.nodup)
  rw [hPQ, hdel, hfil]

/-! ### the queries on a sorted list -/

theorem filter_inRange_empty (l : SL) {min max : Int} (h : min > max) : l.filter (inRange min max) = [] := by
  rw [List.filter_eq_nil_iff]
  intro n _
  simp only [inRange, Bool.and_eq_true, decide_eq_true_eq]
  omega

/-- `Count` through the two ranks = the number of nodes with min ≤ score ≤ max -/
theorem countRange_spec {l : SL} (h : Sorted l) (min max : Int) :
    countRange l min max = ((l.filter (inRange min max)).length : Int) := by
  unfold countRange
  by_cases hmm : min > max
  · simp [hmm, filter_inRange_empty l hmm]
  · simp only [hmm, if_false]
    rw [firstInRange_spec h, lastInRange_spec h]
    have hsplit := seg_append l min max
    rw [segF_spec h] at hsplit
    generalize hF : l.filter (inRange min max) = F at hsplit
    cases F with
    | nil => simp
    | cons zn F' =>
      simp only [List.head?_cons]
      obtain ⟨zn2, hlast⟩ : ∃ zn2, (zn :: F').getLast? = some zn2 :=
        ⟨_, List.getLast?_eq_some_getLast (by simp)⟩
      rw [hlast]
      simp only []
      obtain ⟨F'', hF''⟩ := List.getLast?_eq_some_iff.mp hlast
      have hl1 : l = segA l min ++ zn :: (F' ++ segC l min max) := by
        conv => lhs; rw [← hsplit]
        simp
      have hl2 : l = (segA l min ++ F'') ++ zn2 :: segC l min max := by
        conv => lhs; rw [← hsplit, hF'']
        simp
      have r1 : L.getRank l zn.score zn.ele = (segA l min).length + 1 := by
        have := getRank_split (P := segA l min) (x := zn) (Q := F' ++ segC l min max) (hl1 ▸ h)
        rw [← hl1] at this; exact this
      have r2 : L.getRank l zn2.score zn2.ele = (segA l min ++ F'').length + 1 := by
        have := getRank_split (P := segA l min ++ F'') (x := zn2) (Q := segC l min max) (hl2 ▸ h)
        rw [← hl2] at this; exact this
      rw [r1, r2]
      have hlen : (zn :: F').length = F''.length + 1 := by rw [hF'']; simp
      simp only [List.length_append] at *
      omega

theorem findIdx?_split {P Q : SL} {x : Node} (p : Node → Bool) (hP : ∀ n ∈ P, p n = false)
    (hx : p x = true) : (P ++ x :: Q).findIdx? p = some P.length := by
  rw [List.findIdx?_append]
  have : P.findIdx? p = none := by
    rw [List.findIdx?_eq_none_iff]
    intro n hn
    simp [hP n hn]
  rw [this, List.findIdx?_cons]
  simp [hx]

/-- `GetRank` of a member = its position in the ranking, from the front or from the back -/
theorem Rel.getRank_spec {z : ZSet} {m : Dict} (h : Rel z m) {e : Nat} {sc : Int} (hd : dget m e = some sc) :
    ((L.getRank z.zsl sc e : Nat) : Int) - 1 =
        rankOut (z.zsl.findIdx? (fun n => n.ele == e)) ∧
    (z.zsl.length : Int) - (L.getRank z.zsl sc e : Nat) =
        rankOut (z.zsl.reverse.findIdx? (fun n => n.ele == e)) := by
  have hm : (⟨sc, e⟩ : Node) ∈ z.zsl := (h.mem_iff e sc).mp hd
  obtain ⟨P, Q, hPQ⟩ := List.append_of_mem hm
  have hs := h.sorted
  rw [hPQ] at hs
  have hr := getRank_split hs
  have hnd := h.sorted.nodup
  rw [hPQ, List.nodup_append] at hnd
  obtain ⟨_, hxQ, hPx⟩ := hnd
  rw [List.nodup_cons] at hxQ
  have hP : ∀ n ∈ P, (n.ele == e) = false := by
    intro n hn
    cases hc : n.ele == e with
    | false => rfl
    | true =>
      have := h.member_unique (hPQ ▸ List.mem_append_left _ hn) hm (by simpa using hc)
      exact absurd this (hPx n hn _ List.mem_cons_self)
  have hQ : ∀ n ∈ Q, (n.ele == e) = false := by
    intro n hn
    cases hc : n.ele == e with
    | false => rfl
    | true =>
      have := h.member_unique (hPQ ▸ List.mem_append_right _ (List.mem_cons_of_mem _ hn)) hm (by simpa using hc)
      rw [this] at hn
      exact absurd hn hxQ.1
  have f1 := findIdx?_split (P := P) (Q := Q) (x := ⟨sc, e⟩) (fun n => n.ele == e) hP (by simp)
  have f2 := findIdx?_split (P := Q.reverse) (Q := P.reverse) (x := ⟨sc, e⟩) (fun n => n.ele == e)
    (fun n hn => hQ n (List.mem_reverse.mp hn)) (by simp)
  have hrev : (P ++ (⟨sc, e⟩ : Node) :: Q).reverse = Q.reverse ++ ⟨sc, e⟩ :: P.reverse := by simp
  rw [hPQ, hr, hrev, f1, f2]
  simp only [rankOut, List.length_append, List.length_cons, List.length_reverse]
  constructor <;> omega

theorem Rel.getRank_absent {z : ZSet} {m : Dict} (h : Rel z m) {e : Nat} (hd : dget m e = none) :
    z.zsl.findIdx? (fun n => n.ele == e) = none ∧ z.zsl.reverse.findIdx? (fun n => n.ele == e) = none := by
  have := h.absent hd
  constructor <;> rw [List.findIdx?_eq_none_iff]
  · intro n hn; simpa using this n hn
  · intro n hn; simpa using this n (List.mem_reverse.mp hn)

/-- `GetRange`: never a nil dereference, and exactly the reference slice -/
theorem rangeByRank_spec (l : SL) (start stop : Int) (reverse : Bool) :
    rangeByRank l start stop reverse =
      some ((slice (if reverse then l.reverse else l) start stop).map (·.ele)) := by
  unfold rangeByRank
  have hlen : (if reverse then l.reverse else l).length = l.length := by cases reverse <;> simp
  obtain ⟨hnone, hsome⟩ := normRange_spec (if reverse then l.reverse else l) start stop
  rw [hlen] at hnone hsome
  simp only []
  cases hnr : normRange (l.length : Int) start stop with
  | none => simp [hnone hnr]
  | some ab =>
    obtain ⟨a, b⟩ := ab
    obtain ⟨h0, hab, hbl, hslice⟩ := hsome a b hnr
    simp only []
    rw [hslice]
    cases reverse with
    | false =>
      simp only [Bool.false_eq_true, if_false]
      by_cases ha : a > 0
      · obtain ⟨n, hn⟩ := getElementByRank_node l (a + 1) (by omega) (by omega)
        simp only [ha, if_true, hn, Option.bind_some]
        rw [walk_spec _ _ (by rw [List.length_drop]; omega)]
      · have e0 : a.toNat = 0 := by omega
        simp only [ha, if_false, Option.bind_some, e0, List.drop_zero]
        rw [walk_spec _ _ (by omega)]
    | true =>
      simp only [if_true]
      rw [List.drop_reverse]
      have e : ((l.length : Int) - a).toNat = l.length - a.toNat := by omega
      by_cases ha : a > 0
      · obtain ⟨n, hn⟩ := getElementByRank_node l ((l.length : Int) - a) (by omega) (by omega)
        simp only [ha, if_true, hn, Option.bind_some, e]
        rw [walk_spec _ _ (by rw [List.length_reverse, List.length_take]; omega)]
      · have e0 : a.toNat = 0 := by omega
        simp only [ha, if_false, Option.bind_some, e0, Nat.sub_zero, List.take_length]
        rw [walk_spec _ _ (by rw [List.length_reverse]; omega)]

theorem takeWhile_eq_nil_of_all {α : Type} (p : α → Bool) (l : List α) (h : ∀ a ∈ l, p a = false) :
    l.takeWhile p = [] := by
  cases l with
  | nil => rfl
  | cons x r => rw [List.takeWhile_cons_of_neg (by simp [h x List.mem_cons_self])]

/-- `GetRangeByScore`: exactly the nodes with min ≤ score ≤ max, in ranking order or reversed -/
theorem rangeByScore_spec {l : SL} (h : Sorted l) (min max : Int) (reverse : Bool) :
    rangeByScore l min max reverse =
      ((if reverse then l.reverse else l).filter (inRange min max)).map (·.ele) := by
  unfold rangeByScore
  by_cases hmm : min > max
  · simp only [hmm, if_true]
    cases reverse <;> simp [filter_inRange_empty _ hmm]
  · simp only [hmm, if_false]
    have hF := segF_spec h min max
    cases reverse with
    | false =>
      simp only [Bool.false_eq_true, if_false]
      rw [firstInRange_spec h, ← hF]
      have e : (fun n : Node => !decide (n.score > max)) = (fun n : Node => decide (n.score ≤ max)) := by
        funext n
        by_cases hn : n.score ≤ max <;> simp [hn] <;> omega
      cases hh : (segF l min max).head? with
      | none =>
        rw [List.head?_eq_none_iff] at hh
        simp [hh]
      | some _ =>
        simp only []
        rw [e]
        rfl
    | true =>
      simp only [if_true]
      rw [lastInRange_spec h, ← hF, List.filter_reverse, ← hF]
      cases hh : (segF l min max).getLast? with
      | none =>
        rw [List.getLast?_eq_none_iff] at hh
        simp [hh]
      | some _ =>
        simp only []
        rw [takeWhile_le_max l (by omega : min ≤ max), List.reverse_append,
          List.takeWhile_append_of_pos, takeWhile_eq_nil_of_all, List.append_nil]
        · intro a ha
          have := mem_takeWhile_imp (List.mem_reverse.mp ha)
          simpa using this
        · intro a ha
          have := (mem_segF h).mp (List.mem_reverse.mp ha)
          simp only [Bool.not_eq_true', decide_eq_false_iff_not]
          omega

/-- `DeleteRangeByRank` with normalised bounds removes exactly the slice -/
theorem deleteRangeByRank_spec {l : SL} (hn : l.Nodup) {a b : Int} (h0 : 0 ≤ a) (hab : a ≤ b)
    (hbl : b < (l.length : Int)) :
    let R := (l.drop a.toNat).take (b - a + 1).toNat
    L.deleteRangeByRank l (a + 1) (b + 1) = (l.filter (fun n => !R.contains n), R) ∧
      l.filter (fun n => R.contains n) = R := by
  intro R
  unfold L.deleteRangeByRank
  have e1 : (a + 1 - 1).toNat = a.toNat := by omega
  have e2 : (l.take a.toNat).length = a.toNat := by rw [List.length_take]; omega
  simp only [e1, e2]
  have e3 : (b + 1 - ((a.toNat : Int) + 1) + 1).toNat = (b - a + 1).toNat := by omega
  rw [e3]
  have hl : l.take a.toNat ++ R ++ (l.drop a.toNat).drop (b - a + 1).toNat = l := by
    rw [List.append_assoc, List.take_append_drop, List.take_append_drop]
  have := filter_not_mem_middle (l.take a.toNat) R ((l.drop a.toNat).drop (b - a + 1).toNat) (by rw [hl]; exact hn)
  rw [hl] at this
  exact ⟨by rw [this.1], this.2⟩

/-! ### the simulation -/

theorem step_sim (z : ZSet) (m : Dict) (op : Op) (h : Rel z m) :
    Rel (step z op).1 (refStep m op).1 ∧ (step z op).2 = (refStep m op).2 := by
  have hrank := h.ranking_eq
  cases op with
  | len =>
    refine ⟨h, ?_⟩
    simp [step, refStep, h.length]
  | add e score =>
    simp only [step, refStep, h.dget_eq]
    cases hd : dget m e with
    | none =>
      simp only []
      have := h.insert_rel hd score
      have e1 : dset z.dict e score = (e, score) :: z.dict := by
        unfold dset; rw [ddel_of_absent (by rw [h.dget_eq]; exact hd)]
      have e2 : dset m e score = (e, score) :: m := by
        unfold dset; rw [ddel_of_absent hd]
      rw [e1, e2]
      exact ⟨this, by first | rfl | trivial⟩
    | some cur =>
      simp only []
      by_cases hc : cur = score
      · subst hc
        simp only [bne_self_eq_false, Bool.false_eq_true, if_false]
        have hp := dset_perm_of_mem h.nodup hd
        exact ⟨⟨h.sorted, nodup_keys_dset h.nodup e cur, h.perm.trans (hp.map _).symm, h.dict.trans hp.symm⟩, by first | rfl | trivial⟩
      · have hne : (cur != score) = true := by simpa using hc
        simp only [hne, if_true]
        rw [h.delete_eq hd]
        simp only []
        have h1 := h.filter_rel (fun n => n.ele != e)
        have hd1 : dget (m.filter (fun p => (toNode p).ele != e)) e = none := by
          rw [dget_eq_none]
          intro p hp
          simp only [List.mem_filter, toNode, bne_iff_ne, ne_eq] at hp
          exact hp.2
        have h2 := h1.insert_rel hd1 score
        exact ⟨h2, by first | rfl | trivial⟩
  | remove e =>
    simp only [step, refStep, h.dget_eq]
    cases hd : dget m e with
    | none => exact ⟨h, by first | rfl | trivial⟩
    | some sc =>
      simp only [Option.isSome_some, if_true]
      rw [h.delete_eq hd]
      exact ⟨h.filter_rel (fun n => n.ele != e), by first | rfl | trivial⟩
  | removeRangeByScore min max =>
    simp only [step, refStep, hrank]
    by_cases hmm : min > max
    · simp only [hmm, if_true, filter_inRange_empty _ hmm, List.length_nil]
      have : m.filter (fun p => !inRange min max (toNode p)) = m := by
        apply List.filter_eq_self.mpr
        intro p _
        simp only [inRange, Bool.not_eq_true', Bool.and_eq_false_iff, decide_eq_false_iff_not]
        omega
      rw [this]
      exact ⟨h, by first | rfl | trivial⟩
    · simp only [hmm, if_false]
      rw [deleteRangeByScore_spec h.sorted]
      simp only []
      have := h.removeAll (fun n => !inRange min max n)
      have e : z.zsl.filter (fun n => !(!inRange min max n)) = z.zsl.filter (inRange min max) := by
        apply List.filter_congr; intro n _; simp
      rw [e] at this
      exact ⟨this, by first | rfl | trivial⟩
  | removeRangeByRank start stop =>
    simp only [step, refStep, hrank]
    obtain ⟨hnone, hsome⟩ := normRange_spec z.zsl start stop
    cases hnr : normRange (z.zsl.length : Int) start stop with
    | none =>
      simp only [hnone hnr, List.map_nil, List.length_nil]
      have : m.filter (fun p => !([] : List Nat).contains p.1) = m :=
        List.filter_eq_self.mpr (by simp)
      rw [this]
      exact ⟨h, by first | rfl | trivial⟩
    | some ab =>
      obtain ⟨a, b⟩ := ab
      obtain ⟨h0, hab, hbl, hslice⟩ := hsome a b hnr
      obtain ⟨hdel, hR⟩ := deleteRangeByRank_spec h.sorted.nodup h0 hab hbl
      simp only [] at hdel hR ⊢
      rw [hdel, hslice]
      simp only [List.length_map]
      refine ⟨?_, by first | rfl | trivial⟩
      have := h.removeAll (fun n => !((z.zsl.drop a.toNat).take (b - a + 1).toNat).contains n)
      have e : z.zsl.filter (fun n => !(!((z.zsl.drop a.toNat).take (b - a + 1).toNat).contains n))
          = (z.zsl.drop a.toNat).take (b - a + 1).toNat := by
        conv => rhs; rw [← hR]
        apply List.filter_congr; intro n _; rw [Bool.not_not]
      rw [e] at this
      have em : m.filter (fun p => !(((z.zsl.drop a.toNat).take (b - a + 1).toNat).map (·.ele)).contains p.1)
          = m.filter (fun p => !((z.zsl.drop a.toNat).take (b - a + 1).toNat).contains (toNode p)) := by
        apply List.filter_congr
        intro p hp
        have := h.contains_ele (fun n => ((z.zsl.drop a.toNat).take (b - a + 1).toNat).contains n) hp
        rw [hR] at this
        rw [this]
      rw [em]
      exact this
  | count min max =>
    refine ⟨h, ?_⟩
    simp only [step, refStep, hrank, countRange_spec h.sorted]
  | getRank e reverse =>
    simp only [step, refStep, hrank, h.dget_eq]
    cases hd : dget m e with
    | none =>
      obtain ⟨h1, h2⟩ := h.getRank_absent hd
      refine ⟨h, ?_⟩
      cases reverse <;> simp [h1, h2, rankOut]
    | some sc =>
      obtain ⟨h1, h2⟩ := h.getRank_spec hd
      refine ⟨h, ?_⟩
      cases reverse
      · simp only [Bool.false_eq_true, if_false]; rw [h1]
      · simp only [if_true]; rw [h2]
  | getScore e =>
    refine ⟨h, ?_⟩
    simp only [step, refStep, h.dget_eq]
  | getRange start stop reverse =>
    simp only [step, refStep, hrank, rangeByRank_spec]
    exact ⟨h, by first | rfl | trivial⟩
  | getRangeByScore min max reverse =>
    refine ⟨h, ?_⟩
    simp only [step, refStep, hrank, rangeByScore_spec h.sorted]

theorem refStep_no_panic (m : Dict) (op : Op) : (refStep m op).2 ≠ .panic := by
  cases op <;> simp only [refStep] <;> (try split) <;> simp

theorem run_cons (z : ZSet) (op : Op) (ops : List Op) : run z (op :: ops) = run (step z op).1 ops := rfl
theorem refRun_cons (m : Dict) (op : Op) (ops : List Op) :
    refRun m (op :: ops) = refRun (refStep m op).1 ops := rfl

theorem run_sim (z : ZSet) (m : Dict) (ops : List Op) (h : Rel z m) :
    Rel (run z ops) (refRun m ops) ∧ trace z ops = refTrace m ops := by
  induction ops generalizing z m with
  | nil => exact ⟨h, rfl⟩
  | cons op rest ih =>
    obtain ⟨h1, h2⟩ := step_sim z m op h
    obtain ⟨h3, h4⟩ := ih _ _ h1
    rw [run_cons, refRun_cons]
    refine ⟨h3, ?_⟩
    simp only [trace, refTrace]
    rw [h2, h4]

theorem refTrace_no_panic (m : Dict) (ops : List Op) : Out.panic ∉ refTrace m ops := by
  induction ops generalizing m with
  | nil => simp [refTrace]
  | cons op rest ih =>
    simp only [refTrace, List.mem_cons, not_or]
    exact ⟨fun h => refStep_no_panic m op h.symm, ih _⟩

end Fatchoy.C11
