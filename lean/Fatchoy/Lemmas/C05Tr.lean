/-
C05: helper lemmas of the `C05_tr_*` theorems (translated source of addNode / shiftWheels, Gen/C05.lean `Tr`).
-/
import Fatchoy.Model.C05Wheel
namespace Fatchoy.C05

theorem and63 (x : Nat) : x &&& 63 = x % 64 := Nat.and_two_pow_sub_one_eq_mod x 6
theorem and63' (x : Nat) : 63 &&& x = x % 64 := by rw [Nat.and_comm]; exact and63 x
theorem and255 (x : Nat) : x &&& 255 = x % 256 := Nat.and_two_pow_sub_one_eq_mod x 8
theorem and255' (x : Nat) : 255 &&& x = x % 256 := by rw [Nat.and_comm]; exact and255 x

theorem slt_small (t k : BitVec 64) (ht : t.toNat < 2 ^ 63) (hk : k.toNat < 2 ^ 63) :
    BitVec.slt t k = decide (t.toNat < k.toNat) := by
  rw [Bool.eq_iff_iff]
  simp [BitVec.slt, BitVec.toInt_eq_toNat_of_lt (x := t) (by omega), BitVec.toInt_eq_toNat_of_lt (x := k) (by omega)]

end Fatchoy.C05
