/-
Layer 2 of the invariants of the connection LTS: the RWMutex of D3's repair.
`Inv2`: while the write lock is held no SendPacket caller is inside its read-locked region, and a caller
that is past the running check (pc `send`) exists only while the state word still says Running — so the
CAS Running->Shutdown (taken under the write lock) totally orders "accepted" and "shutdown began".
-/
import Fatchoy.Lemmas.Conn
namespace Fatchoy.Conn

structure Inv2 (s : State) : Prop where
  excl : wlocked s = true → ∀ x ∈ s.snd, x.holds = false
  sendRunning : ∀ x ∈ s.snd, ∀ p, x = .send p → s.st = .running

theorem wlocked_iff (s : State) :
    wlocked s = true ↔ (∃ c ∈ s.cls, c.pc.holds = true) ∨ s.r.holds = true ∨ winHolds s = true := by
  simp [wlocked, List.any_eq_true, or_assoc]

theorem rlocked_false_iff (s : State) : rlocked s = false ↔ ∀ x ∈ s.snd, x.holds = false := by
  simp [rlocked, List.any_eq_false]

theorem inv2_init (cfg : Cfg) : Inv2 (init cfg) := by
  constructor <;> simp [init]

/-- steps that keep the callers, the state word, and do not acquire the write lock -/
theorem inv2_frame {s s' : State} (h : Inv2 s) (e1 : s'.snd = s.snd) (e2 : s'.st = s.st)
    (hw : wlocked s' = true → wlocked s = true) : Inv2 s' := by
  obtain ⟨h1, h2⟩ := h
  constructor
  · intro hl; rw [e1]; exact h1 (hw hl)
  · rw [e1, e2]; exact h2

theorem wlocked_mono {s s' : State} (hl : wlocked s' = true) (e1 : s'.cls = s.cls) (e2 : s'.win = s.win)
    (e3 : s'.r.holds = true → s.r.holds = true) : wlocked s = true := by
  simp only [wlocked_iff, winHolds, e1, e2] at hl ⊢
  rcases hl with hl | hl | hl
  · exact Or.inl hl
  · exact Or.inr (Or.inl (e3 hl))
  · exact Or.inr (Or.inr hl)

theorem inv2_start {s s' : State} (h : Inv2 s) (hs : stepStart s = some s') : Inv2 s' := by
  unfold stepStart at hs
  obtain ⟨h1, h2⟩ := h
  split at hs
  · injection hs with hs; subst hs
    constructor
    · intro hl; exact h1 (wlocked_mono hl rfl rfl (by simp [RPc.holds]))
    · intro x hx p hp; rfl
  · injection hs with hs; subst hs
    exact inv2_frame ⟨h1, h2⟩ rfl rfl (fun hl => wlocked_mono hl rfl rfl id)

theorem inv2_sendCall {s s' : State} {i : Nat} {p : Pkt} (h : Inv2 s) (hs : stepSendCall s i p = some s') : Inv2 s' := by
  unfold stepSendCall at hs
  obtain ⟨h1, h2⟩ := h
  split at hs
  · injection hs with hs; subst hs
    constructor
    · intro hl x hx
      rcases List.mem_append.mp hx with hx | hx
      · exact h1 hl x hx
      · simp at hx; subst hx; rfl
    · intro x hx q hq
      rcases List.mem_append.mp hx with hx | hx
      · exact h2 x hx q hq
      · simp at hx; subst hx; simp at hq
  · split at hs
    · injection hs with hs; subst hs
      constructor
      · intro hl x hx
        rcases List.mem_or_eq_of_mem_set hx with hx | hx
        · exact h1 hl x hx
        · subst hx; rfl
      · intro x hx q hq
        rcases List.mem_or_eq_of_mem_set hx with hx | hx
        · exact h2 x hx q hq
        · subst hx; simp at hq
    · simp at hs

theorem inv2_closeCall {s s' : State} {g : Bool} (h : Inv2 s) (hs : stepCloseCall s g = some s') : Inv2 s' := by
  unfold stepCloseCall at hs
  injection hs with hs; subst hs
  refine inv2_frame h rfl rfl ?_
  simp only [wlocked_iff, winHolds]
  rintro (⟨c, hc, hh⟩ | hh | hh)
  · rcases List.mem_append.mp hc with hc | hc
    · exact Or.inl ⟨c, hc, hh⟩
    · simp at hc; subst hc; simp [CPc.holds] at hh
  · exact Or.inr (Or.inl hh)
  · exact Or.inr (Or.inr hh)

/-- a caller inside its region excludes the write lock -/
theorem not_wlocked_of_holder {s : State} (h : Inv2 s) {i : Nat} {x : SPc} (hx : s.snd[i]? = some x)
    (hh : x.holds = true) : wlocked s = false := by
  cases hl : wlocked s with
  | false => rfl
  | true =>
    have := h.excl hl x (List.mem_of_getElem? hx)
    rw [hh] at this; simp at this

theorem inv2_snd {cfg : Cfg} {s s' : State} {i : Nat} (h : Inv2 s) (hs : stepSnd cfg s i = some s') : Inv2 s' := by
  unfold stepSnd at hs
  have key : ∀ (y : SPc) (s1 : State), s1.snd = s.snd.set i y → s1.st = s.st → s1.cls = s.cls → s1.r = s.r → s1.win = s.win →
      wlocked s = false → (∀ p, y = .send p → s.st = .running) → Inv2 s1 := by
    intro y s1 e1 e2 e3 e4 e5 hl hy
    have hl' : wlocked s1 = false := by
      simp only [wlocked, winHolds, e3, e4, e5] at hl ⊢; exact hl
    constructor
    · intro hc; rw [hl'] at hc; simp at hc
    · intro x hx q hq
      rw [e1] at hx; rw [e2]
      rcases List.mem_or_eq_of_mem_set hx with hx | hx
      · exact h.sendRunning x hx q hq
      · subst hx; exact hy q hq
  split at hs
  · simp at hs
  · next p hx =>
    split at hs
    · simp at hs
    · next hl =>
      injection hs with hs; subst hs
      exact key _ _ rfl rfl rfl rfl rfl (by simpa using hl) (by simp)
  · next p hx =>
    have hl := not_wlocked_of_holder h hx rfl
    split at hs
    · next hrun => injection hs with hs; subst hs; exact key _ _ rfl rfl rfl rfl rfl hl (fun _ _ => hrun)
    · injection hs with hs; subst hs; exact key _ _ rfl rfl rfl rfl rfl hl (by simp)
  · next p hx =>
    have hl := not_wlocked_of_holder h hx rfl
    repeat' (split at hs)
    all_goals (injection hs with hs; subst hs; exact key _ _ rfl rfl rfl rfl rfl hl (by simp))
  · next r hx =>
    have hl := not_wlocked_of_holder h hx rfl
    injection hs with hs; subst hs; exact key _ _ rfl rfl rfl rfl rfl hl (by simp)
  · simp at hs

theorem wlocked_of_cls_holder {s : State} {j : Nat} {c : Closer} (hc : s.cls[j]? = some c)
    (hh : c.pc.holds = true) : wlocked s = true :=
  (wlocked_iff s).mpr (Or.inl ⟨c, List.mem_of_getElem? hc, hh⟩)

theorem wlocked_of_reader_holder {s : State} (hh : s.r.holds = true) : wlocked s = true :=
  (wlocked_iff s).mpr (Or.inr (Or.inl hh))

/-- under the write lock nobody is at `send`, so flipping the state word keeps `sendRunning` -/
theorem no_send_of_wlocked {s : State} (h : Inv2 s) (hl : wlocked s = true) :
    ∀ x ∈ s.snd, ∀ p, x ≠ .send p := by
  intro x hx p hp
  have := h.excl hl x hx
  subst hp; simp [SPc.holds] at this

/-- the shape of what `electStep` does to the state -/
theorem elect_cases {s s' : State} {g : Bool} {e : Err} {c c' : CPc} (hs : electStep s g e c = some (s', c')) :
    (c = .lock ∧ c' = .cas ∧ s' = s ∧ wlocked s = false ∧ rlocked s = false) ∨
    (c = .cas ∧ c' = .won ∧ s.st = .running ∧ s'.snd = s.snd ∧ s'.cls = s.cls ∧ s'.r = s.r ∧ s'.st = .shutdown ∧
      (s.win = none → s'.win = some ⟨g, e, .unlock⟩) ∧ (s.win ≠ none → s'.win = s.win)) ∨
    (c = .cas ∧ c' = .unlockLost ∧ s' = s ∧ s.st ≠ .running) ∨
    (c = .unlockLost ∧ c' = .returned false ∧ s' = s) ∨
    (c = .won ∧ c' = .returned true ∧ s' = s ∧ ∃ w, s.win = some w ∧ w.returnable = true) := by
  unfold electStep at hs
  cases c <;> simp only at hs
  case lock =>
    split at hs
    · simp at hs
    · next hg =>
      simp only [Option.some.injEq, Prod.mk.injEq] at hs; obtain ⟨rfl, rfl⟩ := hs
      simp only [Bool.or_eq_true, not_or, Bool.not_eq_true] at hg
      exact Or.inl ⟨rfl, rfl, rfl, hg.1, hg.2⟩
  case cas =>
    split at hs
    · next hrun =>
      cases hw : s.win with
      | none =>
        simp only [hw, Option.some.injEq, Prod.mk.injEq] at hs; obtain ⟨rfl, rfl⟩ := hs
        exact Or.inr (Or.inl ⟨rfl, rfl, hrun, rfl, rfl, rfl, rfl, fun _ => rfl, fun h => absurd rfl h⟩)
      | some w =>
        simp only [hw, Option.some.injEq, Prod.mk.injEq] at hs; obtain ⟨rfl, rfl⟩ := hs
        exact Or.inr (Or.inl ⟨rfl, rfl, hrun, rfl, rfl, rfl, rfl, fun h => by simp at h, fun _ => by simp⟩)
    · next hrun =>
      simp only [Option.some.injEq, Prod.mk.injEq] at hs; obtain ⟨rfl, rfl⟩ := hs
      exact Or.inr (Or.inr (Or.inl ⟨rfl, rfl, rfl, hrun⟩))
  case unlockLost =>
    simp only [Option.some.injEq, Prod.mk.injEq] at hs; obtain ⟨rfl, rfl⟩ := hs
    exact Or.inr (Or.inr (Or.inr (Or.inl ⟨rfl, rfl, rfl⟩)))
  case won =>
    split at hs
    · next w hw =>
      split at hs
      · next hr =>
        simp only [Option.some.injEq, Prod.mk.injEq] at hs; obtain ⟨rfl, rfl⟩ := hs
        exact Or.inr (Or.inr (Or.inr (Or.inr ⟨rfl, rfl, rfl, w, hw, hr⟩)))
      · simp at hs
    · simp at hs
  case returned => simp at hs

theorem inv2_cls {s s' : State} {j : Nat} (h : Inv2 s) (hs : stepCls s j = some s') : Inv2 s' := by
  unfold stepCls at hs
  split at hs
  · simp at hs
  · next c hc =>
    split at hs
    · next s1 pc1 he =>
      injection hs with hs; subst hs
      rcases elect_cases he with ⟨hc0, _, rfl, hl, hr⟩ | ⟨hc0, _, hrun, e1, e2, e3, e4, _, _⟩ | ⟨hc0, _, rfl, _⟩ |
          ⟨hc0, _, rfl⟩ | ⟨hc0, hc1, rfl, _⟩
      · -- Lock acquired: no reader inside
        exact ⟨fun _ => (rlocked_false_iff s1).mp hr, h.sendRunning⟩
      · -- CAS won under the lock
        have hl : wlocked s = true := wlocked_of_cls_holder hc (by rw [hc0]; rfl)
        constructor
        · intro _; show ∀ x ∈ s1.snd, _; rw [e1]; exact h.excl hl
        · intro x hx p hp
          show s1.st = _
          rw [e1] at hx
          exact absurd hp (no_send_of_wlocked h hl x hx p)
      · have hl : wlocked s1 = true := wlocked_of_cls_holder hc (by rw [hc0]; rfl)
        exact ⟨fun _ => h.excl hl, h.sendRunning⟩
      · have hl : wlocked s1 = true := wlocked_of_cls_holder hc (by rw [hc0]; rfl)
        exact ⟨fun _ => h.excl hl, h.sendRunning⟩
      · refine inv2_frame h rfl rfl ?_
        intro hl
        simp only [wlocked_iff, winHolds] at hl ⊢
        rcases hl with ⟨c2, hc2, hh⟩ | hl | hl
        · rcases List.mem_or_eq_of_mem_set hc2 with hc2 | hc2
          · exact Or.inl ⟨c2, hc2, hh⟩
          · subst hc2; rw [hc1] at hh; simp [CPc.holds] at hh
        · exact Or.inr (Or.inl hl)
        · exact Or.inr (Or.inr hl)
    · simp at hs

theorem inv2_rClose {s s' : State} (h : Inv2 s) (hs : stepRClose s = some s') : Inv2 s' := by
  unfold stepRClose at hs
  split at hs
  · next e c hr =>
    split at hs
    · next s1 c1 he =>
      injection hs with hs; subst hs
      rcases elect_cases he with ⟨hc0, _, rfl, hl, hrl⟩ | ⟨hc0, _, hrun, e1, e2, e3, e4, _, _⟩ | ⟨hc0, _, rfl, _⟩ |
          ⟨hc0, _, rfl⟩ | ⟨hc0, hc1, rfl, _⟩
      · exact ⟨fun _ => (rlocked_false_iff s1).mp hrl, h.sendRunning⟩
      · have hl : wlocked s = true := wlocked_of_reader_holder (by rw [hr, hc0]; rfl)
        constructor
        · intro _; show ∀ x ∈ s1.snd, _; rw [e1]; exact h.excl hl
        · intro x hx p hp
          rw [e1] at hx
          exact absurd hp (no_send_of_wlocked h hl x hx p)
      · have hl : wlocked s1 = true := wlocked_of_reader_holder (by rw [hr, hc0]; rfl)
        exact ⟨fun _ => h.excl hl, h.sendRunning⟩
      · have hl : wlocked s1 = true := wlocked_of_reader_holder (by rw [hr, hc0]; rfl)
        exact ⟨fun _ => h.excl hl, h.sendRunning⟩
      · refine inv2_frame h rfl rfl ?_
        intro hl
        exact wlocked_mono hl rfl rfl (by rw [hc1]; simp [RPc.holds])
    · simp at hs
  · simp at hs

theorem inv2_win {cfg : Cfg} {s s' : State} (h1 : Inv1 s) (h : Inv2 s) (hs : stepWin cfg s = some s') : Inv2 s' := by
  unfold stepWin at hs
  cases hw : s.win with
  | none => simp [hw] at hs
  | some w =>
    have hw3 := h1.some_ w hw
    simp only [hw] at hs
    -- nobody is at `send` once the election is over
    have nosend : ∀ x ∈ s.snd, ∀ p, x ≠ .send p := by
      intro x hx p hp
      have := h.sendRunning x hx p hp
      rw [this] at hw3
      have := hw3.2.1
      cases hp : w.pc <;> simp [hp, phaseOf] at this
    have key : ∀ s1 : State, s1.snd = s.snd → s1.cls = s.cls → s1.r = s.r →
        (winHolds s1 = true → winHolds s = true) → Inv2 s1 := by
      intro s1 e1 e2 e3 e4
      constructor
      · intro hl; rw [e1]; apply h.excl
        simp only [wlocked_iff, e2, e3] at hl ⊢
        rcases hl with hl | hl | hl
        · exact Or.inl hl
        · exact Or.inr (Or.inl hl)
        · exact Or.inr (Or.inr (e4 hl))
      · intro x hx p hp; rw [e1] at hx; exact absurd hp (nosend x hx p)
    cases hp : w.pc <;> simp only [hp, setWin] at hs
    all_goals (repeat' (split at hs))
    all_goals (first
      | (injection hs with hs; subst hs; exact key _ rfl rfl rfl (by simp [winHolds, hw, hp]))
      | (simp at hs))

/-- steps of the pumps and the environment: callers, closers, election and state word untouched; the reader
  does not take the write lock -/
macro "inv2_other" h:ident hs:ident : tactic => `(tactic| (
  repeat' (split at $hs:ident)
  all_goals (first
    | (injection $hs:ident with $hs:ident; subst $hs:ident
       exact inv2_frame $h rfl rfl (fun hl => wlocked_mono hl rfl rfl (by simp [RPc.holds, CPc.holds])))
    | (simp at $hs:ident))))

theorem inv2_step {cfg : Cfg} {s s' : State} (a : Action) (h1 : Inv1 s) (h : Inv2 s)
    (hs : step cfg s a = some s') : Inv2 s' := by
  cases a <;> simp only [step] at hs
  case start => exact inv2_start h hs
  case sendCall => exact inv2_sendCall h hs
  case closeCall => exact inv2_closeCall h hs
  case peerSend => unfold stepPeerSend at hs; inv2_other h hs
  case inbCall => inv2_other h hs
  case errCall => inv2_other h hs
  case rTimeout => unfold stepRTimeout at hs; inv2_other h hs
  case snd => exact inv2_snd h hs
  case cls => exact inv2_cls h hs
  case win => exact inv2_win h1 h hs
  case wRecv => unfold stepWRecv at hs; inv2_other h hs
  case wDone => unfold stepWDone at hs; inv2_other h hs
  case wWrite => unfold stepWWrite writeOne at hs; inv2_other h hs
  case wFlush => unfold stepWFlush at hs; inv2_other h hs
  case wWgDone => unfold stepWWgDone at hs; inv2_other h hs
  case rArm => unfold stepRArm at hs; inv2_other h hs
  case rChk => unfold stepRChk at hs; inv2_other h hs
  case rFrame => unfold stepRFrame at hs; inv2_other h hs
  case rErr => unfold stepRErr at hs; inv2_other h hs
  case rNil => unfold stepRNil at hs; inv2_other h hs
  case rPush => unfold stepRPush at hs; inv2_other h hs
  case rDrop => unfold stepRDrop at hs; inv2_other h hs
  case rCheck => unfold stepRCheck at hs; inv2_other h hs
  case rClose => exact inv2_rClose h hs
  case rWgDone => unfold stepRWgDone at hs; inv2_other h hs
  case inbPop => unfold stepInbPop at hs; inv2_other h hs
  case errPop => unfold stepErrPop at hs; inv2_other h hs

theorem inv2_reachable {cfg : Cfg} {s : State} (h : Reachable cfg s) : Inv2 s := by
  induction h with
  | init => exact inv2_init cfg
  | step a hr hs ih => exact inv2_step a (inv1_reachable hr) ih hs

end Fatchoy.Conn
