/-
C12, third part: which calls touch the configured minimum capacity.  These are facts about the model
functions in ANY state (no invariant needed): only SetMinCapacity changes `minCap`, except that the
first allocation of a zero-value deque (minCap = 0) fills in `minCapacity`.
-/
import Fatchoy.Model.C12
set_option linter.unusedSectionVars false
set_option linter.unusedVariables false
namespace Fatchoy.C12
section
variable {α : Type} [Inhabited α]

/-- the minimum capacity in force: a zero-value deque has not stored one yet and will use `minCapacity` -/
def effMin (P : Params) (d : Deque α) : Nat := if d.minCap = 0 then P.minCapacity else d.minCap

/-- the minimum `SetMinCapacity(e)` configures -/
def minOf (P : Params) (e : Nat) : Nat := if e < 63 ∧ 2 ^ e > P.minCapacity then 2 ^ e else P.minCapacity

/-- the configured minimum after a call -/
def cfgMin (P : Params) (m : Nat) : Op α → Nat
  | .setMinCap e => minOf P e
  | _ => m

theorem resize_minCap {P : Params} {d d' : Deque α} (h : resize P d = some d') : d'.minCap = d.minCap := by
  unfold resize at h
  split at h
  · simp only [Option.bind_eq_bind, Option.bind_eq_some_iff, Option.some.injEq] at h
    obtain ⟨s, _, rfl⟩ := h; rfl
  · simp only [Option.bind_eq_bind, Option.bind_eq_some_iff, Option.some.injEq] at h
    obtain ⟨s1, _, s2, _, rfl⟩ := h; rfl

theorem growIfFull_effMin {P : Params} {d d' : Deque α} (h : growIfFull P d = some d') :
    effMin P d' = effMin P d := by
  unfold growIfFull at h
  split at h
  · cases h; rfl
  · split at h
    · cases h
      unfold effMin
      simp only []
      by_cases hz : d.minCap = 0
      · simp [hz]
      · simp [hz]
    · unfold effMin; rw [resize_minCap h]

theorem shrinkIfExcess_minCap {P : Params} {d d' : Deque α} (h : shrinkIfExcess P d = some d') :
    d'.minCap = d.minCap := by
  unfold shrinkIfExcess at h
  split at h
  · exact resize_minCap h
  · cases h; rfl

theorem rotFwd_minCap : ∀ (n : Nat) (d d' : Deque α), rotFwd n d = some d' → d'.minCap = d.minCap := by
  intro n
  induction n with
  | zero => intro d d' h; simp [rotFwd] at h; rw [← h]
  | succ n ih =>
    intro d d' h
    unfold rotFwd at h
    simp only [Option.bind_eq_bind, Option.bind_eq_some_iff] at h
    obtain ⟨x, _, b, _, b2, _, hh, _, t, _, hr⟩ := h
    have h2 := ih _ _ hr
    exact h2

theorem rotBack_minCap : ∀ (n : Nat) (d d' : Deque α), rotBack n d = some d' → d'.minCap = d.minCap := by
  intro n
  induction n with
  | zero => intro d d' h; simp [rotBack] at h; rw [← h]
  | succ n ih =>
    intro d d' h
    unfold rotBack at h
    simp only [Option.bind_eq_bind, Option.bind_eq_some_iff] at h
    obtain ⟨hh, _, t, _, x, _, b, _, b2, _, hr⟩ := h
    have h2 := ih _ _ hr
    exact h2

theorem rotate_minCap {d d' : Deque α} {n : Int} (h : rotate d n = some d') : d'.minCap = d.minCap := by
  unfold rotate at h
  split at h
  · cases h; rfl
  · simp only [] at h
    split at h
    · cases h; rfl
    · split at h
      · simp only [Option.bind_eq_bind, Option.bind_eq_some_iff, Option.some.injEq] at h
        obtain ⟨hh, _, t, _, rfl⟩ := h; rfl
      · split at h
        · exact rotBack_minCap _ _ _ h
        · exact rotFwd_minCap _ _ _ h

theorem setMinCapacity_minCap {P : Params} {d d' : Deque α} {e : Nat} (h : setMinCapacity P d e = some d') :
    d'.minCap = minOf P e := by
  unfold setMinCapacity at h
  simp only [] at h
  rw [← show minOf P e = (if e < 63 ∧ 2 ^ e > P.minCapacity then 2 ^ e else P.minCapacity) from rfl] at h
  split at h
  · simp only [Option.bind_eq_bind, Option.bind_eq_some_iff, Option.some.injEq] at h
    obtain ⟨nb, _, rfl⟩ := h; rfl
  · cases h; rfl

/-- only SetMinCapacity changes the minimum in force -/
theorem step_effMin {P : Params} {d d' : Deque α} {op : Op α} {out : Out α}
    (h : step P d op = some (d', out)) : effMin P d' = cfgMin P (effMin P d) op := by
  cases op with
  | pushBack v =>
    simp only [step, pushBack, Option.bind_eq_bind, Option.map_eq_some_iff, Option.bind_eq_some_iff,
      Prod.mk.injEq, Option.some.injEq] at h
    obtain ⟨_, ⟨d1, hg, b, _, t, _, rfl⟩, rfl, _⟩ := h
    have h2 := growIfFull_effMin hg
    exact h2
  | pushFront v =>
    simp only [step, pushFront, Option.bind_eq_bind, Option.map_eq_some_iff, Option.bind_eq_some_iff,
      Prod.mk.injEq, Option.some.injEq] at h
    obtain ⟨_, ⟨d1, hg, hh, _, b, _, rfl⟩, rfl, _⟩ := h
    have h2 := growIfFull_effMin hg
    exact h2
  | popFront =>
    simp only [step, popFront] at h
    split at h
    · cases h; rfl
    · simp only [Option.bind_eq_bind, Option.bind_eq_some_iff, Option.some.injEq, Prod.mk.injEq] at h
      obtain ⟨x, _, b, _, hh, _, d2, hs, rfl, _⟩ := h
      unfold effMin cfgMin; rw [shrinkIfExcess_minCap hs]
  | popBack =>
    simp only [step, popBack] at h
    split at h
    · cases h; rfl
    · simp only [Option.bind_eq_bind, Option.bind_eq_some_iff, Option.some.injEq, Prod.mk.injEq] at h
      obtain ⟨t, _, x, _, b, _, d2, hs, rfl, _⟩ := h
      unfold effMin cfgMin; rw [shrinkIfExcess_minCap hs]
  | front =>
    simp only [step, Option.map_eq_some_iff, Prod.mk.injEq] at h
    obtain ⟨_, _, rfl, _⟩ := h; rfl
  | back =>
    simp only [step, Option.map_eq_some_iff, Prod.mk.injEq] at h
    obtain ⟨_, _, rfl, _⟩ := h; rfl
  | «at» i =>
    simp only [step, Option.map_eq_some_iff, Prod.mk.injEq] at h
    obtain ⟨_, _, rfl, _⟩ := h; rfl
  | set i v =>
    simp only [step, set_] at h
    split at h
    · cases h; rfl
    · simp only [Option.bind_eq_bind, Option.bind_eq_some_iff, Option.some.injEq, Prod.mk.injEq] at h
      obtain ⟨j, _, b, _, rfl, _⟩ := h; rfl
  | clear =>
    simp only [step, clear, Option.bind_eq_bind, Option.map_eq_some_iff, Option.bind_eq_some_iff,
      Prod.mk.injEq, Option.some.injEq] at h
    obtain ⟨_, ⟨b, _, rfl⟩, rfl, _⟩ := h; rfl
  | rotate n =>
    simp only [step, Option.map_eq_some_iff, Prod.mk.injEq] at h
    obtain ⟨d1, hr, rfl, _⟩ := h
    unfold effMin cfgMin; rw [rotate_minCap hr]
  | setMinCap e =>
    simp only [step, Option.map_eq_some_iff, Prod.mk.injEq] at h
    obtain ⟨d1, hr, rfl, _⟩ := h
    have hmc := setMinCapacity_minCap hr
    unfold effMin cfgMin
    simp only [hmc]
    split
    · rename_i h0
      unfold minOf at h0 ⊢
      split at h0
      · rename_i hc
        have := Nat.two_pow_pos e
        omega
      · split
        · rename_i hc1 hc2; exact absurd hc2 hc1
        · rfl
    · rfl

end
/-- `landMask` on a non-negative argument is the plain `&` (used by the `C12_tr_*` theorems) -/
theorem landMask_ofNat (n m : Nat) : landMask (n : Int) m = n &&& m := rfl

/-- a bit vector with a positive value is at least one (side condition of `BitVec.toNat_sub_of_le` in the `C12_tr_*` theorems) -/
theorem bv_one_le {w : Nat} (x : BitVec (w+1)) (h : 0 < x.toNat) : 1#(w+1) ≤ x := by
  simp [BitVec.le_def]; omega

end Fatchoy.C12
