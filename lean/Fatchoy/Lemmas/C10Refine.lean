/-
C10 helper lemmas, part 3: Put / Remove / Clear realise insert / erase / empty on the sorted listing,
and every query is the obvious function of the listing.
-/
import Fatchoy.Lemmas.C10Order
namespace Fatchoy.C10

/-- the representation invariant of the map object as far as the sorted-map view goes -/
def MapOK (m : Map) : Prop := Sorted (toList m.root) ∧ m.size = ((toList m.root).length : Int)

theorem MapOK_empty : MapOK Map.empty := by simp [MapOK, Map.empty, Sorted]

theorem put_refines (m : Map) (k : Nat) (v : Int) (h : MapOK m) :
    toList (put m k v).1.root = insertS k v (toList m.root) ∧
    (put m k v).2 = lookupS k (toList m.root) ∧ MapOK (put m k v).1 := by
  obtain ⟨hs, hsz⟩ := h
  have key : toList (put m k v).1.root = insertS k v (toList m.root) ∧
      (put m k v).2 = lookupS k (toList m.root) ∧
      (put m k v).1.size = ((insertS k v (toList m.root)).length : Int) := by
    rcases m with ⟨root, size, ver⟩
    simp only at hs hsz
    cases root with
    | nil => simp [put, insertS, lookupS]
    | node rc rl rk rv rr =>
      obtain ⟨hl, _, hlt, hgt, hss⟩ := descend_root (.node rc rl rk rv rr) k hs
      have hf := descend_focus (.node rc rl rk rv rr) k []
      simp only [put]
      generalize Tree.node rc rl rk rv rr = T at *
      rcases hd : descend T k [] with ⟨s, p⟩
      rw [hd] at hl hlt hgt hss hf
      simp only at hl hlt hgt hss hf
      rcases hf with hf | ⟨c, l, old, r, hf⟩
      · subst hf
        simp only [toList_nil, List.append_nil] at hl
        simp only [toList_blacken, toList_insFix, toList_nil, List.nil_append]
        rw [hl, insertS_new hlt hgt, lookupS_absent hlt hgt]
        simp [hsz, hl]; omega
      · subst hf
        obtain ⟨_, _, hl1, _, _⟩ := sorted_mid.mp hss
        have hA : AllLt (pathL p ++ toList l) k := hlt.append hl1
        have hl' : toList T = (pathL p ++ toList l) ++ (k, old) :: (toList r ++ pathR p) := by
          rw [hl]; simp
        simp only [toList_plug, toList_node]
        rw [hl', insertS_replace hA, lookupS_present hA]
        simp [hsz, hl]
  refine ⟨key.1, key.2.1, ?_, ?_⟩
  · rw [key.1]; exact insertS_sorted hs
  · rw [key.2.2, key.1]

theorem remove_refines (m : Map) (k : Nat) (h : MapOK m) :
    toList (remove m k).1.root = eraseS k (toList m.root) ∧
    (remove m k).2 = (lookupS k (toList m.root)).isSome ∧ MapOK (remove m k).1 := by
  obtain ⟨hs, hsz⟩ := h
  have key : toList (remove m k).1.root = eraseS k (toList m.root) ∧
      (remove m k).2 = (lookupS k (toList m.root)).isSome ∧
      (remove m k).1.size = ((eraseS k (toList m.root)).length : Int) := by
    rcases m with ⟨root, size, ver⟩
    simp only at hs hsz
    obtain ⟨hl, _, hlt, hgt, hss⟩ := descend_root root k hs
    have hf := descend_focus root k []
    simp only [remove]
    rcases hd : descend root k [] with ⟨s, p⟩
    rw [hd] at hl hlt hgt hss hf
    simp only at hl hlt hgt hss hf
    rcases hf with hf | ⟨c, l, old, r, hf⟩
    · subst hf
      simp only [toList_nil, List.append_nil] at hl
      simp only []
      rw [hl, eraseS_absent hlt hgt, lookupS_absent hlt hgt]
      simp [hsz, hl]
    · subst hf
      obtain ⟨_, _, hl1, hr1, _⟩ := sorted_mid.mp hss
      have hA : AllLt (pathL p ++ toList l) k := hlt.append hl1
      have hB : AllGt (toList r ++ pathR p) k := hr1.append hgt
      have hl' : toList root = (pathL p ++ toList l) ++ (k, old) :: (toList r ++ pathR p) := by
        rw [hl]; simp
      simp only [toList_deleteAt]
      rw [hl', eraseS_present hA hB, lookupS_present hA]
      simp [hsz, hl]; omega
  refine ⟨key.1, key.2.1, ?_, ?_⟩
  · rw [key.1]; exact eraseS_sorted hs
  · rw [key.2.2, key.1]

/-- Put bumps the modification counter exactly when it adds a key -/
theorem put_version (m : Map) (k : Nat) (v : Int) (h : MapOK m) :
    (put m k v).1.version = m.version + (if (lookupS k (toList m.root)).isNone then 1 else 0) := by
  obtain ⟨hs, _⟩ := h
  rcases m with ⟨root, size, ver⟩
  simp only at hs
  cases root with
  | nil => simp [put, lookupS]
  | node rc rl rk rv rr =>
    obtain ⟨hl, _, hlt, hgt, hss⟩ := descend_root (.node rc rl rk rv rr) k hs
    have hf := descend_focus (.node rc rl rk rv rr) k []
    simp only [put]
    generalize Tree.node rc rl rk rv rr = T at *
    rcases hd : descend T k [] with ⟨s, p⟩
    rw [hd] at hl hlt hgt hss hf
    simp only at hl hlt hgt hss hf
    rcases hf with hf | ⟨c, l, old, r, hf⟩
    · subst hf
      simp only [toList_nil, List.append_nil] at hl
      rw [hl, lookupS_absent hlt hgt]
      simp
    · subst hf
      obtain ⟨_, _, hl1, _, _⟩ := sorted_mid.mp hss
      have hA : AllLt (pathL p ++ toList l) k := hlt.append hl1
      have hl' : toList T = (pathL p ++ toList l) ++ (k, old) :: (toList r ++ pathR p) := by
        rw [hl]; simp
      rw [hl', lookupS_present hA]
      simp

/-- Remove bumps the modification counter exactly when it removes a key -/
theorem remove_version (m : Map) (k : Nat) (h : MapOK m) :
    (remove m k).1.version = m.version + (if (lookupS k (toList m.root)).isSome then 1 else 0) := by
  obtain ⟨hs, _⟩ := h
  rcases m with ⟨root, size, ver⟩
  simp only at hs
  obtain ⟨hl, _, hlt, hgt, hss⟩ := descend_root root k hs
  have hf := descend_focus root k []
  simp only [remove]
  rcases hd : descend root k [] with ⟨s, p⟩
  rw [hd] at hl hlt hgt hss hf
  simp only at hl hlt hgt hss hf
  rcases hf with hf | ⟨c, l, old, r, hf⟩
  · subst hf
    simp only [toList_nil, List.append_nil] at hl
    rw [hl, lookupS_absent hlt hgt]
    simp
  · subst hf
    obtain ⟨_, _, hl1, _, _⟩ := sorted_mid.mp hss
    have hA : AllLt (pathL p ++ toList l) k := hlt.append hl1
    have hl' : toList root = (pathL p ++ toList l) ++ (k, old) :: (toList r ++ pathR p) := by
      rw [hl]; simp
    rw [hl', lookupS_present hA]
    simp

theorem clear_refines (P : Params) (m : Map) : toList (clear P m).root = [] ∧ MapOK (clear P m) := by
  simp [clear, MapOK, Sorted]

/-! ### queries -/

theorem find_spec : ∀ (t : Tree) (k : Nat), Sorted (toList t) → find t k = lookupS k (toList t)
  | .nil, k, _ => by simp [find, lookupS]
  | .node c l k' v r, k, hs => by
    obtain ⟨hsl, hsr, hlt, hgt, _⟩ := sorted_mid.mp hs
    unfold find
    split
    · rename_i hk
      rw [find_spec l k hsl]
      have hB : AllGt ((k', v) :: toList r) k := by
        intro e he
        rcases List.mem_cons.mp he with rfl | he
        · exact hk
        · exact Nat.lt_trans hk (hgt e he)
      simp only [lookupS, toList_node, List.find?_append, find_none_of_allGt hB]
      simp
    · split
      · rename_i hk
        rw [find_spec r k hsr]
        have hA : AllLt (toList l) k := hlt.mono (Nat.le_of_lt hk)
        have hne : (k' == k) = false := by simp; omega
        simp only [lookupS, toList_node, List.find?_append, find_none_of_allLt hA, List.find?_cons, hne]
        simp
      · rename_i h1 h2
        have : k' = k := by omega
        subst this
        rw [toList_node, lookupS_present hlt]

theorem firstEntry_spec : ∀ (t : Tree), firstEntry t = (toList t).head?
  | .nil => rfl
  | .node _ .nil k v r => by simp [firstEntry]
  | .node _ (.node lc ll lk lv lr) k v r => by
    simp only [firstEntry]
    rw [firstEntry_spec (.node lc ll lk lv lr)]
    simp [List.head?_append]

theorem lastEntry_spec : ∀ (t : Tree), lastEntry t = (toList t).getLast?
  | .nil => rfl
  | .node _ l k v .nil => by simp [lastEntry]
  | .node _ l k v (.node rc rl rk rv rr) => by
    simp only [lastEntry]
    rw [lastEntry_spec (.node rc rl rk rv rr)]
    simp [List.getLast?_append, List.getLast?_cons]

end Fatchoy.C10
