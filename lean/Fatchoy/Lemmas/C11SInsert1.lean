/-
C11, structural skip list S, `Insert` part 1: the state after the linking loops, cell by cell.
-/
import Fatchoy.Lemmas.C11SFold
namespace Fatchoy.C11.S

/-! ### the three loop bodies are level steps -/

theorem levelStep_headSpan (len : Int) :
    LevelStep (fun t i => setCell t 0 i ⟨(cell t 0 i).fwd, len⟩) := by
  refine ⟨fun t i => keeps_setCell _ _ _ _, ?_, ?_⟩
  · intro t i y j hj
    exact cell_setCell_ne _ _ _ _ _ _ (Or.inr hj)
  · intro t t' i hk hc y
    simp only [cell_setCell, hk.size, hk.hgt, hc]

theorem levelStep_link (ur : List (Nat × Int)) (id : Nat) : LevelStep (linkLevel ur id) := by
  refine ⟨fun t i => (keeps_setCell _ _ _ _).trans (keeps_setCell _ _ _ _), ?_, ?_⟩
  · intro t i y j hj
    unfold linkLevel
    simp only []
    rw [cell_setCell_ne _ _ _ _ _ _ (Or.inr hj), cell_setCell_ne _ _ _ _ _ _ (Or.inr hj)]
  · intro t t' i hk hc y
    unfold linkLevel
    simp only [cell_setCell, size_setCell, height_setCell, hk.size, hk.hgt, hc]

theorem levelStep_bump (ur : List (Nat × Int)) : LevelStep (bumpLevel ur) := by
  refine ⟨fun t i => keeps_setCell _ _ _ _, ?_, ?_⟩
  · intro t i y j hj
    exact cell_setCell_ne _ _ _ _ _ _ (Or.inr hj)
  · intro t t' i hk hc y
    unfold bumpLevel
    simp only [cell_setCell, hk.size, hk.hgt, hc]

/-! ### growLevels -/

@[simp] theorem cell_withLevel (s : SList) (n : Nat) (y j : Nat) :
    cell { s with level := n } y j = cell s y j := rfl
@[simp] theorem height_withLevel (s : SList) (n : Nat) (y : Nat) :
    height { s with level := n } y = height s y := rfl
@[simp] theorem nodeOf_withLevel (s : SList) (n : Nat) (y : Nat) :
    nodeOf { s with level := n } y = nodeOf s y := rfl
@[simp] theorem nd_withLevel (s : SList) (n : Nat) (y : Nat) : nd { s with level := n } y = nd s y := rfl

theorem mem_range'_1 (a n j : Nat) : j ∈ List.range' a n ↔ a ≤ j ∧ j < a + n := by
  simp [List.mem_range'_1]

/-- `growLevels`: only the header's spans at the new levels change, and the level -/
theorem growLevels_spec (s : SList) (h : Nat) (hv : 0 < s.nodes.length) (hh : h ≤ height s 0) :
    let s2 := growLevels s h
    s2.nodes.length = s.nodes.length ∧ (∀ y, height s2 y = height s y) ∧ (∀ y, nodeOf s2 y = nodeOf s y) ∧
    (∀ y, (nd s2 y).bwd = (nd s y).bwd) ∧ s2.tail = s.tail ∧ s2.length = s.length ∧
    s2.level = (if s.level < h then h else s.level) ∧
    ∀ y j, cell s2 y j =
      if y = 0 ∧ s.level ≤ j ∧ j < h then ⟨(cell s 0 j).fwd, s.length⟩ else cell s y j := by
  intro s2
  obtain ⟨hk, hc⟩ := fold_levels (levelStep_headSpan s.length) (List.range' s.level (h - s.level))
    (List.nodup_range') s
  refine ⟨hk.size, hk.hgt, hk.key, hk.bwd, hk.tail, hk.len, rfl, ?_⟩
  intro y j
  show cell ((List.range' s.level (h - s.level)).foldl _ s) y j = _
  rw [hc]
  by_cases hj : s.level ≤ j ∧ j < s.level + (h - s.level)
  · have hj' : s.level ≤ j ∧ j < h := by omega
    rw [if_pos ((mem_range'_1 _ _ _).mpr hj), cell_setCell]
    by_cases hy : y = 0
    · subst hy
      have : j < height s 0 := by omega
      simp [hj', hv, this]
    · simp [hy]
  · have hj' : ¬ (s.level ≤ j ∧ j < h) := by omega
    rw [if_neg (fun hm => hj ((mem_range'_1 _ _ _).mp hm))]
    have : ¬ (y = 0 ∧ s.level ≤ j ∧ j < h) := fun hh => hj' hh.2
    rw [if_neg this]

/-! ### pushNode -/

theorem pushNode_spec (s : SList) (score : Int) (ele : Nat) (h : Nat) :
    let s3 := pushNode s score ele h
    s3.nodes.length = s.nodes.length + 1 ∧
    (∀ y, height s3 y = if y = s.nodes.length then h else height s y) ∧
    (∀ y, nodeOf s3 y = if y = s.nodes.length then ⟨score, ele⟩ else nodeOf s y) ∧
    (∀ y, (nd s3 y).bwd = if y = s.nodes.length then none else (nd s y).bwd) ∧
    (∀ y j, y ≠ s.nodes.length → cell s3 y j = cell s y j) ∧
    s3.tail = s.tail ∧ s3.length = s.length ∧ s3.level = s.level := by
  intro s3
  have hnd : ∀ y, nd s3 y = if y = s.nodes.length then ⟨score, ele, none, List.replicate h Lvl.nil⟩ else nd s y :=
    nd_push s _ s3 rfl
  refine ⟨by simp [s3, pushNode], ?_, ?_, ?_, ?_, rfl, rfl, rfl⟩
  · intro y; unfold height; rw [hnd]; split <;> simp
  · intro y; unfold nodeOf; rw [hnd]; split <;> simp [SNode.key]
  · intro y; rw [hnd]; split <;> rfl
  · intro y j hy; unfold cell; rw [hnd, if_neg hy]

end Fatchoy.C11.S
