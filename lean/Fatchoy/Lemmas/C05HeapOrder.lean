/-
C05 helper lemmas: order of the heap scheduler's deliveries.
-/
import Fatchoy.Lemmas.C05HeapTrace
import Fatchoy.Lemmas.C05Order
namespace Fatchoy.C05
namespace HS

/-- one tick of the heap scheduler: it delivers exactly the uncancelled nodes whose deadline has been
reached, in heap order — which is non-decreasing deadline order — logs them at the tick's time, and
everything left in the heap is due strictly after the tick's time -/
theorem tick_batch (s : HS) (h : HInv s) :
    ∃ s' batch, tick s = some s' ∧
      batch = s.heap.filter (fun n => hdue s.now n && hlive s.f.cancelled n) ∧
      HSorted batch ∧
      (∀ n, n ∈ batch ↔ n ∈ s.heap ∧ n.deadline ≤ s.now ∧ n.id ∉ s.f.cancelled) ∧
      s'.f.log = (batch.map (fun n => (s.now, n.id))).reverse ++ s.f.log ∧
      (∀ m ∈ s'.heap, s.now < m.deadline) := by
  obtain ⟨s', r0, r1, r2, r3, r4, r5, r6, r7, ⟨r8, _⟩, r9⟩ := tick_spec s h
  refine ⟨s', _, r0, rfl, h.sorted.sublist List.filter_sublist, ?_, r8, ?_⟩
  · intro n
    simp only [List.mem_filter, hdue, hlive, Bool.and_eq_true, decide_eq_true_eq]
  · intro m hm
    rcases (mem_tick_heap s s' h r0 m).mp hm with ⟨_, hd⟩ | ⟨n, _, _, _, hp, rfl⟩
    · exact hd
    · show s.now < s.now + n.period
      omega

theorem step_logOK (G : Geom) {s s' : HS} {a : Act} {o : Out} (hi : HInv s) (h : LogOK s.f.log s.now)
    (hs : step G s a = .ok s' o) : LogOK s'.f.log s'.now := by
  cases a with
  | tick =>
    simp only [step] at hs
    split at hs
    · rename_i s1 ht
      cases hs
      obtain ⟨s2, batch, r0, _, _, _, r4, _⟩ := tick_batch s hi
      rw [ht] at r0; cases r0
      rw [r4, (tick_frame s _ hi ht).1]
      apply h.batch
      intro e he
      simp only [List.mem_reverse, List.mem_map] at he
      obtain ⟨n, _, rfl⟩ := he
      rfl
    · cases hs
  | after d => simp only [step] at hs; split at hs <;> cases hs; exact h
  | every p => simp only [step] at hs; split at hs <;> cases hs; exact h
  | cancel j =>
    simp only [step] at hs
    split at hs
    · split at hs <;> cases hs; exact h
    · cases hs; exact h
  | add =>
    simp only [step] at hs
    split at hs
    · cases hs; exact h
    · split at hs <;> cases hs <;> exact h
  | del => simp only [step] at hs; split at hs <;> cases hs <;> exact h
  | clock n => simp only [step] at hs; cases hs; exact h.mono (Nat.le_add_right _ _)

end HS

theorem HReach.logOK {G : Geom} {s : HS} (h : HReach G s) : LogOK s.f.log s.now := by
  induction h with
  | init time => exact ⟨List.Pairwise.nil, fun e he => by simp [HS.init, Front.init] at he⟩
  | step hr hs ih => exact HS.step_logOK G hr.inv ih hs

end Fatchoy.C05
