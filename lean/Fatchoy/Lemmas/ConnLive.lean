/-
Absence of stuck states in the connection LTS (towards C04's "no call blocks forever").
`no_stuck`: in every reachable state in which some SendPacket / Close / ForceClose call has not returned, or
the elected closer is not through `finally`, some *internal* step (a step of a goroutine of the connection —
not an action of the user, the peer or the consumers) is enabled.  In particular Close does not depend on
the inbound or error channel being drained, nor on the peer.
-/
import Fatchoy.Lemmas.ConnSteps
namespace Fatchoy.Conn

/-- steps of the connection's own goroutines and of calls in progress (everything but the environment) -/
def Action.internal : Action → Bool
  | .snd _ => true | .cls _ => true | .win => true
  | .wRecv => true | .wDone => true | .wWrite _ => true | .wFlush => true | .wWgDone => true
  | .rArm => true | .rChk => true | .rFrame => true | .rErr _ => true | .rNil => true | .rPush => true | .rDrop => true | .rCheck => true
  | .rClose => true | .rWgDone => true
  | _ => false

structure Inv6 (s : State) : Prop where
  rWon : ∀ e, s.r = .closing e .won → ∃ w, s.win = some w ∧ w.graceful = false
  rNotRet : ∀ e b, s.r ≠ .closing e (.returned b)

theorem inv6_init (cfg : Cfg) : Inv6 (init cfg) := by
  constructor <;> simp [init]

theorem inv6_frame {s s' : State} (h : Inv6 s) (e1 : s'.r = s.r)
    (e2 : ∀ w, s.win = some w → ∃ w', s'.win = some w' ∧ w'.graceful = w.graceful) : Inv6 s' := by
  obtain ⟨a, b⟩ := h
  constructor
  · rw [e1]; intro e he
    obtain ⟨w, hw, hg⟩ := a e he
    obtain ⟨w', hw', hg'⟩ := e2 w hw
    exact ⟨w', hw', hg'.trans hg⟩
  · rw [e1]; exact b

theorem inv6_move {s' : State} (e1 : ∀ e c, s'.r = .closing e c → c = .lock) : Inv6 s' := by
  constructor
  · intro e he; have := e1 e _ he; simp at this
  · intro e b he; have := e1 e _ he; simp at this

macro "inv6_other" h:ident hs:ident : tactic => `(tactic| (
  repeat' (split at $hs:ident)
  all_goals (first
    | (injection $hs:ident with $hs:ident; subst $hs:ident
       exact inv6_frame $h rfl (fun w hw => ⟨w, hw, rfl⟩))
    | (simp at $hs:ident))))

macro "inv6_mv" hs:ident : tactic => `(tactic| (
  repeat' (split at $hs:ident)
  all_goals (first
    | (injection $hs:ident with $hs:ident; subst $hs:ident
       exact inv6_move (by intro e c; simp; try (split <;> simp)))
    | (simp at $hs:ident))))

theorem inv6_step {cfg : Cfg} {s s' : State} (a : Action) (h1 : Inv1 s) (h : Inv6 s)
    (hs : step cfg s a = some s') : Inv6 s' := by
  cases a <;> simp only [step] at hs
  case start =>
    unfold stepStart at hs
    split at hs
    · injection hs with hs; subst hs; exact inv6_move (by intro e c; simp)
    · injection hs with hs; subst hs; exact inv6_frame h rfl (fun w hw => ⟨w, hw, rfl⟩)
  case sendCall => unfold stepSendCall at hs; inv6_other h hs
  case closeCall => unfold stepCloseCall at hs; inv6_other h hs
  case peerSend => unfold stepPeerSend at hs; inv6_other h hs
  case inbCall => inv6_other h hs
  case errCall => inv6_other h hs
  case rTimeout =>
    unfold stepRTimeout at hs
    repeat' (split at hs)
    all_goals (first
      | (injection hs with hs; subst hs
         exact inv6_move (fun e c hc => by simp at hc; exact hc.2.symm))
      | (simp at hs))
  case snd => unfold stepSnd at hs; inv6_other h hs
  case cls =>
    unfold stepCls at hs
    split at hs
    · simp at hs
    · next c hc =>
      split at hs
      · next s1 pc1 he =>
        injection hs with hs; subst hs
        rcases elect_cases he with ⟨_, _, rfl, _, _⟩ | ⟨hc0, hc1, hrun, e1, e2, e3, e4, e5, _⟩ | ⟨_, _, rfl, _⟩ |
            ⟨_, _, rfl⟩ | ⟨_, _, rfl, _⟩
        · exact inv6_frame h rfl (fun w hw => ⟨w, hw, rfl⟩)
        · have hwn := win_none_of_running h1 hrun
          constructor
          · intro e he
            have he' : s.r = .closing e .won := by rw [← e3]; exact he
            obtain ⟨w, hw, _⟩ := h.rWon e he'
            rw [hwn] at hw; simp at hw
          · intro e b he
            have he' : s.r = .closing e (.returned b) := by rw [← e3]; exact he
            exact h.rNotRet e b he'
        · exact inv6_frame h rfl (fun w hw => ⟨w, hw, rfl⟩)
        · exact inv6_frame h rfl (fun w hw => ⟨w, hw, rfl⟩)
        · exact inv6_frame h rfl (fun w hw => ⟨w, hw, rfl⟩)
      · simp at hs
  case win =>
    unfold stepWin at hs
    cases hw : s.win with
    | none => simp [hw] at hs
    | some w =>
      simp only [hw] at hs
      cases hp : w.pc <;> simp only [hp, setWin] at hs
      all_goals (repeat' (split at hs))
      all_goals (first
        | (injection hs with hs; subst hs
           exact inv6_frame h rfl (fun w0 hw0 => by rw [hw] at hw0; injection hw0 with hw0; subst hw0; exact ⟨_, rfl, rfl⟩))
        | (simp at hs))
  case wRecv => unfold stepWRecv at hs; inv6_other h hs
  case wDone => unfold stepWDone at hs; inv6_other h hs
  case wWrite => unfold stepWWrite writeOne at hs; inv6_other h hs
  case wFlush => unfold stepWFlush at hs; inv6_other h hs
  case wWgDone => unfold stepWWgDone at hs; inv6_other h hs
  case rArm => unfold stepRArm at hs; inv6_mv hs
  case rChk =>
    unfold stepRChk at hs
    split at hs
    · injection hs with hs; subst hs
      exact inv6_move (fun e c hc => by simp at hc; split at hc <;> simp at hc; exact hc.2.symm)
    · simp at hs
  case rFrame => unfold stepRFrame at hs; inv6_mv hs
  case rErr =>
    unfold stepRErr at hs
    repeat' (split at hs)
    all_goals (first
      | (injection hs with hs; subst hs
         exact inv6_move (fun e c hc => by simp at hc; exact hc.2.symm))
      | (simp at hs))
  case rNil => unfold stepRNil at hs; inv6_mv hs
  case rPush => unfold stepRPush at hs; inv6_mv hs
  case rDrop => unfold stepRDrop at hs; inv6_mv hs
  case rCheck => unfold stepRCheck at hs; inv6_mv hs
  case rClose =>
    unfold stepRClose at hs
    split at hs
    · next e c hr =>
      split at hs
      · next s1 c1 he =>
        injection hs with hs; subst hs
        rcases elect_cases he with ⟨_, hc1, rfl, _, _⟩ | ⟨hc0, hc1, hrun, e1, e2, e3, e4, e5, _⟩ | ⟨_, hc1, rfl, _⟩ |
            ⟨_, hc1, rfl⟩ | ⟨_, hc1, rfl, _⟩
        · subst hc1; constructor <;> simp
        · subst hc1
          have hwn := win_none_of_running h1 hrun
          constructor
          · intro e' _
            exact ⟨_, e5 hwn, rfl⟩
          · simp
        · subst hc1; constructor <;> simp
        · subst hc1; constructor <;> simp
        · subst hc1; constructor <;> simp
      · simp at hs
    · simp at hs
  case rWgDone => unfold stepRWgDone at hs; inv6_mv hs
  case inbPop => unfold stepInbPop at hs; inv6_other h hs
  case errPop => unfold stepErrPop at hs; inv6_other h hs

theorem inv6_reachable {cfg : Cfg} {s : State} (h : Reachable cfg s) : Inv6 s := by
  induction h with
  | init => exact inv6_init cfg
  | step a hr hs ih => exact inv6_step a (inv1_reachable hr) ih hs

/-- the sticky write error is only ever set after a reset -/
def Inv7 (s : State) : Prop := s.wbroken = true → s.broken = true

theorem inv7_elect {s s' : State} {g : Bool} {e : Err} {c c' : CPc} (h : Inv7 s)
    (hs : electStep s g e c = some (s', c')) : Inv7 s' := by
  unfold electStep at hs
  cases c <;> simp only at hs
  all_goals (repeat' (split at hs))
  all_goals (first
    | (simp only [Option.some.injEq, Prod.mk.injEq] at hs; obtain ⟨rfl, _⟩ := hs; exact h)
    | (simp at hs))

theorem inv7_step {cfg : Cfg} {s s' : State} (a : Action) (h : Inv7 s) (hs : step cfg s a = some s') : Inv7 s' := by
  cases a <;> simp only [step] at hs
  case cls =>
    unfold stepCls at hs
    split at hs
    · simp at hs
    · split at hs
      · next he => injection hs with hs; subst hs; exact (inv7_elect h he : Inv7 _)
      · simp at hs
  case rClose =>
    unfold stepRClose at hs
    split at hs
    · split at hs
      · next he => injection hs with hs; subst hs; exact (inv7_elect h he : Inv7 _)
      · simp at hs
    · simp at hs
  case win =>
    unfold stepWin at hs
    cases hw : s.win with
    | none => simp [hw] at hs
    | some w =>
      simp only [hw] at hs
      cases hp : w.pc <;> simp only [hp, setWin] at hs
      all_goals (repeat' (split at hs))
      all_goals (first | (injection hs with hs; subst hs; exact h) | (simp at hs))
  all_goals (first
    | (unfold stepStart at hs) | (unfold stepSendCall at hs) | (unfold stepCloseCall at hs) | (unfold stepPeerSend at hs)
    | (unfold stepRTimeout at hs) | (unfold stepSnd at hs) | (unfold stepWRecv at hs) | (unfold stepWDone at hs)
    | (unfold stepWWrite writeOne at hs)
    | (unfold stepWFlush at hs) | (unfold stepWWgDone at hs) | (unfold stepRArm at hs) | (unfold stepRChk at hs) | (unfold stepRFrame at hs) | (unfold stepRErr at hs)
    | (unfold stepRNil at hs) | (unfold stepRPush at hs) | (unfold stepRDrop at hs) | (unfold stepRCheck at hs)
    | (unfold stepRWgDone at hs) | (unfold stepInbPop at hs) | (unfold stepErrPop at hs) | skip)
  all_goals (repeat' (split at hs))
  all_goals (first
    | (injection hs with hs; subst hs; exact h)
    | (injection hs with hs; subst hs; unfold Inv7 at h ⊢; simp_all; done)
    | (simp at hs; done)
    | skip)
  -- the failing write: it sets the sticky error only for an encodable packet, i.e. only after a reset
  all_goals (
    injection hs with hs; subst hs
    unfold Inv7 at h ⊢
    intro hb
    simp only [Bool.or_eq_true] at hb
    rename_i hg
    simp only [Bool.or_eq_true, Bool.not_eq_true'] at hg
    rcases hb with hb | hb
    · exact h hb
    · rcases hg with hg | hg
      · rw [hb] at hg; simp at hg
      · exact hg)

theorem inv7_reachable {cfg : Cfg} {s : State} (h : Reachable cfg s) : Inv7 s := by
  induction h with
  | init => intro h0; simp [init] at h0
  | step a _ hs ih => exact inv7_step a ih hs

/-- the graceful Close's deadline is not lost: once it has set the read deadline into the past, a reader that is
  (still or again) inside its read has that deadline — it arms its own deadline BEFORE it looks at `done`, and the
  closer closes `done` BEFORE it sets the deadline -/
def pastDl : WinPc → Bool
  | .unlock => false | .closeRead => false | .closeDone => false | .setDl => false | .dead => false | _ => true

def Inv8 (s : State) : Prop :=
  ∀ w, s.win = some w → w.graceful = true → pastDl w.pc = true → s.r = .reading → s.rdl = true

theorem inv8_elect {s s' : State} {g : Bool} {e : Err} {c c' : CPc} (h1 : Inv1 s) (h : Inv8 s)
    (hs : electStep s g e c = some (s', c')) : Inv8 s' ∧ s'.r = s.r := by
  unfold electStep at hs
  cases c <;> simp only at hs
  all_goals (repeat' (split at hs))
  all_goals (first
    | (simp only [Option.some.injEq, Prod.mk.injEq] at hs; obtain ⟨rfl, _⟩ := hs; exact ⟨h, rfl⟩)
    | (simp only [Option.some.injEq, Prod.mk.injEq] at hs; obtain ⟨rfl, _⟩ := hs
       refine ⟨?_, rfl⟩
       intro w hw hg hp hr
       simp at hw; subst hw; simp [pastDl] at hp)
    | (simp at hs))

theorem inv8_step {cfg : Cfg} {s s' : State} (a : Action) (h1 : Inv1 s) (h : Inv8 s)
    (hs : step cfg s a = some s') : Inv8 s' := by
  cases a <;> simp only [step] at hs
  case cls =>
    unfold stepCls at hs
    split at hs
    · simp at hs
    · split at hs
      · next he => injection hs with hs; subst hs; exact ((inv8_elect h1 h he).1 : Inv8 _)
      · simp at hs
  case rClose =>
    unfold stepRClose at hs
    split at hs
    · next e c hr0 =>
      split at hs
      · next s1 c1 he =>
        injection hs with hs; subst hs
        intro w hw hg hp hr
        cases c1 <;> simp at hr
      · simp at hs
    · simp at hs
  case win =>
    unfold stepWin at hs
    cases hw : s.win with
    | none => simp [hw] at hs
    | some w =>
      have h0 := h w hw
      simp only [hw] at hs
      cases hp : w.pc <;> simp only [hp, setWin] at hs <;> simp only [hp, pastDl] at h0
      all_goals (repeat' (split at hs))
      all_goals (first
        | (injection hs with hs; subst hs
           intro w' hw' hg' hp' hr'
           simp at hw'; subst hw'
           simp_all [pastDl]; done)
        | (subst hs
           intro w' hw' hg' hp' hr'
           simp at hw'; subst hw'
           simp_all [pastDl]; done)
        | (simp at hs; done))
  case rChk =>
    unfold stepRChk at hs
    split at hs
    · injection hs with hs; subst hs
      intro w hw hg hp hr
      by_cases hd : s.done = true
      · simp [hd] at hr
      · exfalso
        have := (h1.some_ w hw).2.2.2.1
        apply hd; rw [this]
        cases hpc : w.pc <;> simp [hpc, pastDl] at hp <;> simp [phaseOf]
    · simp at hs
  case rCheck =>
    unfold stepRCheck at hs
    split at hs
    · injection hs with hs; subst hs
      intro w hw hg hp hr
      simp at hr; split at hr <;> simp at hr
    · simp at hs
  all_goals (first
    | (unfold stepStart at hs) | (unfold stepSendCall at hs) | (unfold stepCloseCall at hs) | (unfold stepPeerSend at hs)
    | (unfold stepRTimeout at hs) | (unfold stepSnd at hs) | (unfold stepWRecv at hs) | (unfold stepWDone at hs)
    | (unfold stepWWrite writeOne at hs)
    | (unfold stepWFlush at hs) | (unfold stepWWgDone at hs) | (unfold stepRArm at hs) | (unfold stepRFrame at hs)
    | (unfold stepRErr at hs)
    | (unfold stepRNil at hs) | (unfold stepRPush at hs) | (unfold stepRDrop at hs)
    | (unfold stepRWgDone at hs) | (unfold stepInbPop at hs) | (unfold stepErrPop at hs) | skip)
  all_goals (repeat' (split at hs))
  all_goals (first
    | (injection hs with hs; subst hs; exact h)
    | (injection hs with hs; subst hs; intro w hw hg hp hr; simp at hr; done)
    | (simp at hs))

theorem inv8_reachable {cfg : Cfg} {s : State} (h : Reachable cfg s) : Inv8 s := by
  induction h with
  | init => intro w hw; simp [init] at hw
  | step a hr hs ih => exact inv8_step a (inv1_reachable hr) ih hs

/-! ### enabledness -/

theorem snd_holder_enabled (cfg : Cfg) {s : State} {i : Nat} {x : SPc} (hx : s.snd[i]? = some x)
    (hh : x.holds = true) : (stepSnd cfg s i).isSome = true := by
  unfold stepSnd
  rw [hx]
  cases x <;> simp [SPc.holds] at hh ⊢
  · split <;> rfl
  · split
    · split <;> rfl
    · rfl
    · rfl

theorem rlocked_enabled (cfg : Cfg) {s : State} (h : rlocked s = true) :
    ∃ a, a.internal = true ∧ (step cfg s a).isSome = true := by
  simp only [rlocked, List.any_eq_true] at h
  obtain ⟨x, hx, hh⟩ := h
  obtain ⟨i, hi⟩ := List.getElem?_of_mem hx
  exact ⟨.snd i, rfl, snd_holder_enabled cfg hi hh⟩

theorem elect_holder_enabled {s : State} {g : Bool} {e : Err} {c : CPc} (hh : c.holds = true) :
    (electStep s g e c).isSome = true := by
  cases c <;> simp [CPc.holds] at hh
  · unfold electStep
    simp only
    split
    · split <;> rfl
    · rfl
  · rfl

theorem win_enabled {cfg : Cfg} {s : State} {w : Winner} (hw : s.win = some w)
    (hp : w.pc ≠ .finished ∧ w.pc ≠ .dead ∧ (w.pc = .wait → s.wg = 0)) : (stepWin cfg s).isSome = true := by
  unfold stepWin
  simp only [hw]
  cases hpc : w.pc <;> simp only [hpc] at hp ⊢
  all_goals (first | rfl | (simp at hp; done) | skip)
  all_goals (repeat' split)
  all_goals (first | rfl | (simp_all; done))

theorem wlocked_enabled (cfg : Cfg) {s : State} (h1 : Inv1 s) (h : wlocked s = true) :
    ∃ a, a.internal = true ∧ (step cfg s a).isSome = true := by
  rcases (wlocked_iff s).mp h with ⟨c, hc, hh⟩ | hh | hh
  · obtain ⟨j, hj⟩ := List.getElem?_of_mem hc
    refine ⟨.cls j, rfl, ?_⟩
    simp only [step]
    unfold stepCls
    rw [hj]
    have := elect_holder_enabled (s := s) (g := c.graceful) (e := if c.graceful then .closed else .forced) hh
    cases he : electStep s c.graceful (if c.graceful then .closed else .forced) c.pc with
    | none => rw [he] at this; simp at this
    | some v => simp [he]
  · refine ⟨.rClose, rfl, ?_⟩
    simp only [step]
    unfold stepRClose
    cases hr : s.r <;> simp [hr, RPc.holds] at hh ⊢
    next e c =>
      have := elect_holder_enabled (s := s) (g := false) (e := e) hh
      cases he : electStep s false e c with
      | none => rw [he] at this; simp at this
      | some v => simp [he]
  · simp only [winHolds] at hh
    cases hw : s.win with
    | none => simp [hw] at hh
    | some w =>
      simp only [hw, beq_iff_eq] at hh
      exact ⟨.win, rfl, win_enabled hw (by simp [hh])⟩

/-- the elected closer waits in `wg.Wait` only while a pump is still running — and a running pump can
  always move once `done` is closed and the read side is shut -/
theorem write_enabled (cfg : Cfg) {s : State} (h7 : Inv7 s) {p : Pkt}
    (hw : s.w = .writing p ∨ s.w = .flushing p) : ∃ a, a.internal = true ∧ (step cfg s a).isSome = true := by
  cases he : p.enc with
  | false =>
    refine ⟨.wWrite false, rfl, ?_⟩
    rcases hw with hw | hw <;> simp [step, stepWWrite, hw, writeOne, he]
  | true =>
    cases hb : s.wbroken with
    | false =>
      refine ⟨.wWrite true, rfl, ?_⟩
      rcases hw with hw | hw <;> simp [step, stepWWrite, hw, writeOne, he, hb]
    | true =>
      refine ⟨.wWrite false, rfl, ?_⟩
      have := h7 hb
      rcases hw with hw | hw <;> simp [step, stepWWrite, hw, writeOne, he, this]

theorem pumps_enabled (cfg : Cfg) {s : State} (h1 : Inv1 s) (h6 : Inv6 s) (h7 : Inv7 s) (h8 : Inv8 s) {w : Winner} (hw : s.win = some w)
    (hpc : w.pc = .wait) (hwg : s.wg ≠ 0) : ∃ a, a.internal = true ∧ (step cfg s a).isSome = true := by
  have hp := h1.some_ w hw
  rw [hpc] at hp
  simp only [phaseOf] at hp
  obtain ⟨_, hst, hrs, hdn, _, _, _, hoc, hcl⟩ := hp
  have hne : s.st ≠ .init := by rw [hst]; simp
  obtain ⟨hwi, hri⟩ := h1.started hne
  have hcount := h1.wg_
  by_cases hwx : s.w = .exited
  · -- the reader is the one still running
    have hrx : s.r ≠ .exited := by
      intro hrx; rw [hwx, hrx] at hcount; simp [wcount, rcount] at hcount; exact hwg hcount
    cases hr : s.r with
    | idle => exact absurd hr hri
    | exited => exact absurd hr hrx
    | arm => exact ⟨.rArm, rfl, by simp [step, stepRArm, hr, hcl]⟩
    | chk => exact ⟨.rChk, rfl, by simp [step, stepRChk, hr]⟩
    | reading =>
      refine ⟨.rErr false, rfl, ?_⟩
      cases hg : w.graceful with
      | false => simp [step, stepRErr, hr, readFails, hrs, hg]
      | true =>
        have := h8 w hw hg (by rw [hpc]; rfl) hr
        simp [step, stepRErr, hr, readFails, this]
    | deliver p =>
      refine ⟨.rDrop, rfl, ?_⟩
      simp [step, stepRDrop, hr, hdn]
    | checkExit => exact ⟨.rCheck, rfl, by simp [step, stepRCheck, hr]⟩
    | wgDone =>
      refine ⟨.rWgDone, rfl, ?_⟩
      simp only [step, stepRWgDone, hr]
      split <;> rfl
    | closing e c =>
      cases c with
      | lock =>
        by_cases hl : wlocked s = true
        · exact wlocked_enabled cfg h1 hl
        · by_cases hrl : rlocked s = true
          · exact rlocked_enabled cfg hrl
          · refine ⟨.rClose, rfl, ?_⟩
            simp [step, stepRClose, hr, electStep, hl, hrl]
      | cas =>
        refine ⟨.rClose, rfl, ?_⟩
        have := elect_holder_enabled (s := s) (g := false) (e := e) (c := .cas) rfl
        simp only [step, stepRClose, hr]
        cases he : electStep s false e .cas with
        | none => rw [he] at this; simp at this
        | some v => simp [he]
      | unlockLost => exact ⟨.rClose, rfl, by simp [step, stepRClose, hr, electStep]⟩
      | won =>
        obtain ⟨w', hw', hg⟩ := h6.rWon e hr
        rw [hw] at hw'; injection hw' with hw'; subst hw'
        refine ⟨.rClose, rfl, ?_⟩
        simp [step, stepRClose, hr, electStep, hw, Winner.returnable, hg, hpc]
      | returned b => exact absurd hr (h6.rNotRet e b)
  · -- the writer is still running
    cases hww : s.w with
    | idle => exact absurd hww hwi
    | exited => exact absurd hww hwx
    | select => exact ⟨.wDone, rfl, by simp [step, stepWDone, hww, hdn]⟩
    | writing p => exact write_enabled cfg h7 (Or.inl hww)
    | flushing p => exact write_enabled cfg h7 (Or.inr hww)
    | flush =>
      refine ⟨.wFlush, rfl, ?_⟩
      simp only [step, stepWFlush, hww, hoc]
      cases s.out <;> rfl
    | wgDone =>
      refine ⟨.wWgDone, rfl, ?_⟩
      simp only [step, stepWWgDone, hww]
      split <;> rfl

/-- a call that has not returned, or an elected closer that is not through `finally` -/
def Unfinished (s : State) : Prop :=
  (∃ x ∈ s.snd, ∀ r, x ≠ .ret r) ∨ (∃ c ∈ s.cls, ∀ b, c.pc ≠ .returned b) ∨
  (∃ w, s.win = some w ∧ w.pc ≠ .finished)

theorem winner_enabled (cfg : Cfg) {s : State} (h1 : Inv1 s) (h6 : Inv6 s) (h7 : Inv7 s) (h8 : Inv8 s) {w : Winner} (hw : s.win = some w)
    (hf : w.pc ≠ .finished) : ∃ a, a.internal = true ∧ (step cfg s a).isSome = true := by
  have hd := (h1.some_ w hw).1.1
  by_cases hwait : w.pc = .wait ∧ s.wg ≠ 0
  · exact pumps_enabled cfg h1 h6 h7 h8 hw hwait.1 hwait.2
  · refine ⟨.win, rfl, win_enabled hw ⟨hf, hd, ?_⟩⟩
    intro hpw
    by_cases h0 : s.wg = 0
    · exact h0
    · exact absurd ⟨hpw, h0⟩ hwait

theorem no_stuck (cfg : Cfg) {s : State} (h : Reachable cfg s) (hu : Unfinished s) :
    ∃ a, a.internal = true ∧ (step cfg s a).isSome = true := by
  have h1 := inv1_reachable h
  have h5 := inv5_reachable h
  have h6 := inv6_reachable h
  have h7 := inv7_reachable h
  have h8 := inv8_reachable h
  rcases hu with ⟨x, hx, hnr⟩ | ⟨c, hc, hnr⟩ | ⟨w, hw, hf⟩
  · obtain ⟨i, hi⟩ := List.getElem?_of_mem hx
    cases x with
    | rlock p =>
      by_cases hl : wlocked s = true
      · exact wlocked_enabled cfg h1 hl
      · exact ⟨.snd i, rfl, by simp [step, stepSnd, hi, hl]⟩
    | check p => exact ⟨.snd i, rfl, snd_holder_enabled cfg hi rfl⟩
    | send p => exact ⟨.snd i, rfl, snd_holder_enabled cfg hi rfl⟩
    | unlock r => exact ⟨.snd i, rfl, snd_holder_enabled cfg hi rfl⟩
    | ret r => exact absurd rfl (hnr r)
  · obtain ⟨j, hj⟩ := List.getElem?_of_mem hc
    obtain ⟨g, pc⟩ := c
    cases pc with
    | lock =>
      by_cases hl : wlocked s = true
      · exact wlocked_enabled cfg h1 hl
      · by_cases hrl : rlocked s = true
        · exact rlocked_enabled cfg hrl
        · exact ⟨.cls j, rfl, by simp [step, stepCls, hj, electStep, hl, hrl]⟩
    | cas => exact wlocked_enabled cfg h1 (wlocked_of_cls_holder hj rfl)
    | unlockLost => exact wlocked_enabled cfg h1 (wlocked_of_cls_holder hj rfl)
    | won =>
      obtain ⟨w, hw, _⟩ := h5.wonLink _ hc (Or.inl rfl)
      by_cases hret : w.returnable = true
      · exact ⟨.cls j, rfl, by simp [step, stepCls, hj, electStep, hw, hret]⟩
      · have hf : w.pc ≠ .finished := by
          intro hf
          apply hret
          simp [Winner.returnable, hf]
        exact winner_enabled cfg h1 h6 h7 h8 hw hf
    | returned b => exact absurd rfl (hnr b)
  · exact winner_enabled cfg h1 h6 h7 h8 hw hf

end Fatchoy.Conn
