/-
C05 helper lemmas, part 5: the back-end invariant of the wheel and what `expireNear` and `tick` do
under it, for the literal geometry.
-/
import Fatchoy.Lemmas.C05Expire
namespace Fatchoy.C05

/-- back-end invariant at the boundaries of worker steps -/
structure WheelOK (w : Wheel) : Prop where
  ok : ∀ n ∈ w.nodes, NodeOK w.off w.time n
  nodup : (w.nodes.map (·.id)).Nodup

def dueB (t : Nat) (n : WNode) : Bool := n.deadline == t

theorem lit_cur (c : Nat) (w : Wheel) : w.cur (litGeom c) % (litGeom c).nearSize = (w.off + w.time) % 256 := by
  show (w.off + w.time) % 4294967296 % 256 = _
  omega

/-- under the placement invariant the near bucket that comes up holds exactly the nodes due now -/
theorem inBucket_iff_due (c : Nat) (w : Wheel) (n : WNode) (h : NodeOK w.off w.time n) :
    Wheel.inBucket 0 (w.cur (litGeom c) % (litGeom c).nearSize) n = dueB w.time n := by
  rw [lit_cur]
  have := due_iff h.2
  unfold Wheel.inBucket dueB
  rw [Bool.eq_iff_iff]
  simp only [Bool.and_eq_true, beq_iff_eq]
  rw [this]
  omega

namespace WS

/-- `expireNear` = "deliver every node whose deadline is now", under the placement invariant -/
theorem expire_eq (c : Nat) (s : WS) (h : ∀ n ∈ s.w.nodes, NodeOK s.w.off s.w.time n) :
    expire (litGeom c) s =
      expireList (litGeom c) { s with w := { s.w with nodes := s.w.nodes.filter (fun n => !dueB s.w.time n) } }
        (s.w.nodes.filter (dueB s.w.time)) := by
  unfold expire
  simp only
  have e1 : s.w.nodes.filter (Wheel.inBucket 0 (s.w.cur (litGeom c) % (litGeom c).nearSize)) =
      s.w.nodes.filter (dueB s.w.time) :=
    List.filter_congr (fun n hn => inBucket_iff_due c s.w n (h n hn))
  have e2 : s.w.nodes.filter (fun n => !Wheel.inBucket 0 (s.w.cur (litGeom c) % (litGeom c).nearSize) n) =
      s.w.nodes.filter (fun n => !dueB s.w.time n) :=
    List.filter_congr (fun n hn => by rw [inBucket_iff_due c s.w n (h n hn)])
  rw [e1, e2]

/-- closed form of `expireNear` under the invariant -/
theorem expire_spec (c : Nat) (s : WS) (h : ∀ n ∈ s.w.nodes, NodeOK s.w.off s.w.time n) :
    let r := expire (litGeom c) s
    r.w.off = s.w.off ∧ r.w.time = s.w.time ∧
    r.f.cancelled = s.f.cancelled ∧ r.f.addQ = s.f.addQ ∧ r.f.delQ = s.f.delQ ∧ r.f.nextId = s.f.nextId ∧
    r.w.nodes = s.w.nodes.filter (fun n => !dueB s.w.time n) ++
      ((s.w.nodes.filter (dueB s.w.time)).filter
        (fun n => liveB s.f.cancelled n && decide (n.period > 0))).map (rearm (litGeom c) s.w.off s.w.time) ∧
    r.f.log = (((s.w.nodes.filter (dueB s.w.time)).filter (liveB s.f.cancelled)).map
        (fun n => (s.w.time, n.id))).reverse ++ s.f.log ∧
    r.f.refer = s.f.refer.filter (fun i =>
      !(((s.w.nodes.filter (dueB s.w.time)).filter
          (fun n => liveB s.f.cancelled n && decide (n.period = 0))).map (·.id)).contains i) := by
  intro r
  have := expireList_spec (litGeom c) (s.w.nodes.filter (dueB s.w.time))
    { s with w := { s.w with nodes := s.w.nodes.filter (fun n => !dueB s.w.time n) } }
  rw [← expire_eq c s h] at this
  exact this

end WS
end Fatchoy.C05
