/-
C16 — the `done`/`rest` machine of Model/C16.lean and the flat-buffer machine of Model/C16Flat.lean
compute the same thing, statement by statement, for every program.
-/
import Fatchoy.Model.C16Flat
import Fatchoy.Lemmas.C16
namespace Fatchoy.C16


theorem length_data (st : St) : st.data.length = st.base + st.rest.length := by
  simp [St.data, St.base]

theorem drop_data (st : St) (off : Nat) : st.data.drop (st.base + off) = st.rest.drop off := by
  simp only [St.data, St.base]
  rw [List.drop_append, List.drop_of_length_le (by simp)]
  simp

theorem blockEncrypt_flat (p : Prog) (E : Bytes → Bytes) (bs : Nat) (st : St) (r : Ref) (src : Bytes) :
    (blockEncrypt p E bs st r src).map St.flat = blockEncryptF p E bs st.flat r src := by
  unfold blockEncrypt blockEncryptF
  simp only [not_hasLen]
  show Option.map St.flat (if src.length < bs ∨ regLen p (resolve st.sw r) < bs then none else _) =
    if src.length < bs ∨ regLen p (resolve st.sw r) < bs then none else _
  split <;> rfl

theorem exec_flat (p : Prog) (E : Bytes → Bytes) (bs : Nat) (iv : Bytes) (st : St) (s : Stmt) :
    (exec p E bs iv st s).map St.flat = execF p E bs iv st.flat s := by
  cases s with
  | encIV r => exact blockEncrypt_flat p E bs st r iv
  | enc r off len =>
    cases len with
    | some l =>
      simp only [exec, execF, not_hasLen]
      show Option.map St.flat (if st.rest.length < off + l then none else _) =
        if st.data.length < st.base + off + l then none else blockEncryptF p E bs st.flat r (rd st.data (st.base + off) l)
      rw [length_data, rd_data]
      by_cases h : st.rest.length < off + l
      · rw [if_pos h, if_pos (by omega)]; rfl
      · rw [if_neg h, if_neg (by omega)]; exact blockEncrypt_flat p E bs st r _
    | none =>
      simp only [exec, execF, not_hasLen]
      show Option.map St.flat (if st.rest.length < off then none else _) =
        if st.data.length < st.base + off then none else blockEncryptF p E bs st.flat r (st.data.drop (st.base + off))
      rw [length_data, drop_data]
      by_cases h : st.rest.length < off
      · rw [if_pos h, if_pos (by omega)]; rfl
      · rw [if_neg h, if_neg (by omega)]; exact blockEncrypt_flat p E bs st r _
  | xor d s w r =>
    simp only [exec, execF, not_hasLen]
    show Option.map St.flat (if st.rest.length < s + w ∨ st.rest.length < d + w ∨ _ then none else _) =
      if st.data.length < st.base + s + w ∨ st.data.length < st.base + d + w ∨
        (rd st.buf (regOff p (resolve st.sw r)) w).length < w then none
      else some { st.flat with data := wr st.data (st.base + d) (xorBytes (rd st.data (st.base + s) w) (rd st.buf (regOff p (resolve st.sw r)) w)) }
    rw [length_data, rd_data, wr_data]
    by_cases h : st.rest.length < s + w ∨ st.rest.length < d + w ∨ (rd st.buf (regOff p (resolve st.sw r)) w).length < w
    · rw [if_pos h, if_pos (by omega)]; rfl
    · rw [if_neg h, if_neg (by omega)]; rfl
  | swap => rfl
  | adv k =>
    simp only [exec, execF, not_hasLen]
    show Option.map St.flat (if st.rest.length < k then none else _) =
      if st.data.length < st.base + k then none else some { st.flat with base := st.base + k }
    rw [length_data]
    by_cases h : st.rest.length < k
    · rw [if_pos h, if_pos (by omega)]; rfl
    · rw [if_neg h, if_neg (by omega)]
      simp only [Option.map_some, St.flat, St.data, St.base]
      congr 2
      · simp
      · simp; omega
  | xorRest r =>
    simp only [exec, execF, Option.map_some]
    have h0 := drop_data st 0
    have h1 := wr_data st 0 (xorBytes st.rest (rd st.buf (regOff p (resolve st.sw r)) (regLen p (resolve st.sw r))))
    simp only [Nat.add_zero, List.drop_zero] at h0 h1
    apply congrArg some
    simp only [St.flat]
    rw [h0, h1]
    simp [St.data, St.base, wr]




theorem execs_flat (p : Prog) (E : Bytes → Bytes) (bs : Nat) (iv : Bytes) (ss : List Stmt) (st : St) :
    (execs p E bs iv ss st).map St.flat = execsF p E bs iv ss st.flat := by
  induction ss generalizing st with
  | nil => rfl
  | cons s ss ih =>
    simp only [execs, execsF]
    rw [← exec_flat]
    cases exec p E bs iv st s with
    | none => rfl
    | some st' => simp only [Option.bind_some, Option.map_some]; exact ih st'

theorem loopN_flat (p : Prog) (E : Bytes → Bytes) (bs : Nat) (iv : Bytes) (k : Nat) (st : St) :
    (loopN p E bs iv k st).map St.flat = loopNF p E bs iv k st.flat := by
  induction k generalizing st with
  | zero => rfl
  | succ k ih =>
    simp only [loopN, loopNF, not_hasLen]
    show Option.map St.flat (if st.rest.length < p.window then none else _) =
      if st.data.length < st.base + p.window then none else _
    rw [length_data]
    by_cases h : st.rest.length < p.window
    · rw [if_pos h, if_pos (by omega)]; rfl
    · rw [if_neg h, if_neg (by omega), ← execs_flat]
      cases execs p E bs iv p.body st with
      | none => rfl
      | some st' => simp only [Option.bind_some, Option.map_some]; exact ih st'

theorem runFrom_flat (p : Prog) (E : Bytes → Bytes) (bs : Nat) (iv : Bytes) (cs : List Case) (st : St) :
    (runFrom p E bs iv cs st).map St.flat = runFromF p E bs iv cs st.flat := by
  induction cs generalizing st with
  | nil => rfl
  | cons c cs ih =>
    simp only [runFrom, runFromF]
    rw [← execs_flat]
    cases execs p E bs iv c.stmts st with
    | none => rfl
    | some st' =>
      simp only [Option.bind_some, Option.map_some]
      cases c.fall with
      | true => simp only [if_true]; exact ih st'
      | false => rfl

theorem switch_flat (p : Prog) (E : Bytes → Bytes) (bs : Nat) (iv : Bytes) (cs : List Case) (t : Nat) (st : St) :
    (switch p E bs iv cs t st).map St.flat = switchF p E bs iv cs t st.flat := by
  induction cs with
  | nil => rfl
  | cons c cs ih =>
    simp only [switch, switchF]
    by_cases h : c.label = t
    · rw [if_pos h, if_pos h]; exact runFrom_flat p E bs iv (c :: cs) st
    · rw [if_neg h, if_neg h]; exact ih

/-- one call: the two machines return the same packet and the same scratch buffer, or both panic -/
theorem run_flat (p : Prog) (E : Bytes → Bytes) (bs : Nat) (iv buf data : Bytes) :
    runF p E bs iv buf data = run p E bs iv buf data := by
  unfold run runF
  split
  · rfl
  · have h0 : ({ data := data, base := 0, buf := buf, sw := false } : Flat) =
        St.flat { done := [], rest := data, buf := buf, sw := false } := by simp [St.flat, St.data, St.base]
    rw [h0, ← execs_flat]
    cases execs p E bs iv p.pre { done := [], rest := data, buf := buf, sw := false } with
    | none => rfl
    | some st1 =>
      simp only [Option.bind_some, Option.map_some]
      rw [← loopN_flat]
      cases loopN p E bs iv (data.length / p.div / p.stride) st1 with
      | none => rfl
      | some st2 =>
        simp only [Option.bind_some, Option.map_some]
        rw [← switch_flat]
        cases switch p E bs iv p.cases (data.length / p.div % p.tag) st2 with
        | none => rfl
        | some st3 => rfl


end Fatchoy.C16
