/-
Layer 5 of the invariants of the connection LTS: the callers of Close/ForceClose, panics, failed writes.
`Inv5`: a caller that won the election (or returned as the winner) is matched by the elected closer, and has
returned only when that allows it (graceful: `finally` is through; forced: `finally` is spawned); the only
panic that ever happens is the documented one of `Go` on a connection that is not in its initial state; a
write fails only for a packet that cannot be encoded or after the peer reset the connection.
-/
import Fatchoy.Lemmas.ConnQueue
namespace Fatchoy.Conn

structure Inv5 (s : State) : Prop where
  wonLink : ∀ c ∈ s.cls, (c.pc = .won ∨ c.pc = .returned true) → ∃ w, s.win = some w ∧ w.graceful = c.graceful
  retLink : ∀ c ∈ s.cls, c.pc = .returned true → ∃ w, s.win = some w ∧ w.returnable = true
  panics : ∀ p ∈ s.panics, p = .goTwice
  failWhy : ∀ x ∈ s.wlog, x.2 = false → x.1.enc = false ∨ s.broken = true

theorem inv5_init (cfg : Cfg) : Inv5 (init cfg) := by
  constructor <;> simp [init]

theorem inv5_frame {s s' : State} (h : Inv5 s) (e1 : s'.cls = s.cls)
    (e2 : ∀ w, s.win = some w → ∃ w', s'.win = some w' ∧ w'.graceful = w.graceful ∧ (w.returnable = true → w'.returnable = true))
    (e3 : s'.panics = s.panics) (e4 : s'.wlog = s.wlog) (e5 : s.broken = true → s'.broken = true) : Inv5 s' := by
  obtain ⟨a, b, c, d⟩ := h
  constructor
  · rw [e1]; intro x hx hp
    obtain ⟨w, hw, hg⟩ := a x hx hp
    obtain ⟨w', hw', hg', _⟩ := e2 w hw
    exact ⟨w', hw', hg'.trans hg⟩
  · rw [e1]; intro x hx hp
    obtain ⟨w, hw, hr⟩ := b x hx hp
    obtain ⟨w', hw', _, hr'⟩ := e2 w hw
    exact ⟨w', hw', hr' hr⟩
  · rw [e3]; exact c
  · rw [e4]; intro x hx hf
    rcases d x hx hf with h' | h'
    · exact Or.inl h'
    · exact Or.inr (e5 h')

theorem same_win {s s' : State} (e : s'.win = s.win) :
    ∀ w, s.win = some w → ∃ w', s'.win = some w' ∧ w'.graceful = w.graceful ∧ (w.returnable = true → w'.returnable = true) :=
  fun w hw => ⟨w, by rw [e, hw], rfl, id⟩

theorem reading_not_cleared {s : State} (h : Inv1 s) (hr : s.r ≠ .exited) : s.cleared = false := by
  cases hw : s.win with
  | none => exact (h.none_ hw).2.2.2.2.2.2
  | some w =>
    have h3 := h.some_ w hw
    cases hc : s.cleared with
    | false => rfl
    | true =>
      have hcl := h3.2.2.2.2.2.2.2.2
      rw [hc] at hcl
      have hg : (phaseOf w.graceful w.pc).gone = true := by
        cases hp : w.pc <;> simp [hp, phaseOf] at hcl ⊢
      exact absurd (h3.2.2.2.2.2.1 hg).2 hr

macro "inv5_other" h:ident hs:ident : tactic => `(tactic| (
  repeat' (split at $hs:ident)
  all_goals (first
    | (injection $hs:ident with $hs:ident; subst $hs:ident
       exact inv5_frame $h rfl (same_win rfl) rfl rfl id)
    | (simp at $hs:ident))))

theorem inv5_snd {cfg : Cfg} {s s' : State} {i : Nat} (h1 : Inv1 s) (h2 : Inv2 s) (h : Inv5 s)
    (hs : stepSnd cfg s i = some s') : Inv5 s' := by
  unfold stepSnd at hs
  split at hs
  · simp at hs
  · inv5_other h hs
  · inv5_other h hs
  · next p hx =>
    have hrun := h2.sendRunning _ (List.mem_of_getElem? hx) p rfl
    have ho := (h1.none_ (win_none_of_running h1 hrun)).2.2.2.2.2.1
    rw [ho] at hs
    simp only at hs
    inv5_other h hs
  · inv5_other h hs
  · simp at hs

theorem inv5_cls {s s' : State} {j : Nat} (h1 : Inv1 s) (h : Inv5 s) (hs : stepCls s j = some s') : Inv5 s' := by
  unfold stepCls at hs
  split at hs
  · simp at hs
  · next c hc =>
    split at hs
    · next s1 pc1 he =>
      injection hs with hs; subst hs
      obtain ⟨a, b, cc, d⟩ := h
      have hcm := List.mem_of_getElem? hc
      rcases elect_cases he with ⟨hc0, hc1, rfl, _, _⟩ | ⟨hc0, hc1, hrun, e1, e2, e3, e4, e5, _⟩ | ⟨hc0, hc1, rfl, _⟩ |
          ⟨hc0, hc1, rfl⟩ | ⟨hc0, hc1, rfl, w, hw, hret⟩
      · -- lock -> cas
        constructor
        · intro x hx hp
          rcases List.mem_or_eq_of_mem_set hx with hx | hx
          · exact a x hx hp
          · subst hx; simp [hc1] at hp
        · intro x hx hp
          rcases List.mem_or_eq_of_mem_set hx with hx | hx
          · exact b x hx hp
          · subst hx; simp [hc1] at hp
        · exact cc
        · exact d
      · -- cas won: nobody had won before
        have hwn := win_none_of_running h1 hrun
        have hnew := e5 hwn
        have hold : ∀ x ∈ s.cls, ¬(x.pc = .won ∨ x.pc = .returned true) := by
          intro x hx hp
          obtain ⟨w, hw, _⟩ := a x hx hp
          rw [hwn] at hw; simp at hw
        have hpan : s1.panics = s.panics ∧ s1.wlog = s.wlog ∧ s1.broken = s.broken := by
          unfold electStep at he
          rw [hc0] at he
          simp only [hrun, hwn, if_true] at he
          simp only [Option.some.injEq, Prod.mk.injEq] at he
          obtain ⟨rfl, _⟩ := he
          exact ⟨rfl, rfl, rfl⟩
        constructor
        · intro x hx hp
          show ∃ w, s1.win = some w ∧ _
          rw [e2] at hx
          rcases List.mem_or_eq_of_mem_set hx with hx | hx
          · exact absurd hp (hold x hx)
          · subst hx; exact ⟨_, hnew, rfl⟩
        · intro x hx hp
          rw [e2] at hx
          rcases List.mem_or_eq_of_mem_set hx with hx | hx
          · exact absurd (Or.inr hp) (hold x hx)
          · subst hx; simp [hc1] at hp
        · show ∀ p ∈ s1.panics, _
          rw [hpan.1]; exact cc
        · show ∀ x ∈ s1.wlog, _
          rw [hpan.2.1, hpan.2.2]; exact d
      · -- cas lost
        constructor
        · intro x hx hp
          rcases List.mem_or_eq_of_mem_set hx with hx | hx
          · exact a x hx hp
          · subst hx; simp [hc1] at hp
        · intro x hx hp
          rcases List.mem_or_eq_of_mem_set hx with hx | hx
          · exact b x hx hp
          · subst hx; simp [hc1] at hp
        · exact cc
        · exact d
      · -- unlock after losing
        constructor
        · intro x hx hp
          rcases List.mem_or_eq_of_mem_set hx with hx | hx
          · exact a x hx hp
          · subst hx; simp [hc1] at hp
        · intro x hx hp
          rcases List.mem_or_eq_of_mem_set hx with hx | hx
          · exact b x hx hp
          · subst hx; simp [hc1] at hp
        · exact cc
        · exact d
      · -- the winner's caller returns
        constructor
        · intro x hx hp
          rcases List.mem_or_eq_of_mem_set hx with hx | hx
          · exact a x hx hp
          · subst hx; exact a c hcm (Or.inl hc0)
        · intro x hx hp
          rcases List.mem_or_eq_of_mem_set hx with hx | hx
          · exact b x hx hp
          · exact ⟨w, hw, hret⟩
        · exact cc
        · exact d
    · simp at hs

theorem inv5_rClose {s s' : State} (h1 : Inv1 s) (h : Inv5 s) (hs : stepRClose s = some s') : Inv5 s' := by
  unfold stepRClose at hs
  split at hs
  · next e c hr =>
    split at hs
    · next s1 c1 he =>
      injection hs with hs; subst hs
      obtain ⟨a, b, cc, d⟩ := h
      rcases elect_cases he with ⟨_, _, rfl, _, _⟩ | ⟨hc0, hc1, hrun, e1, e2, e3, e4, e5, _⟩ | ⟨_, _, rfl, _⟩ |
          ⟨_, _, rfl⟩ | ⟨_, _, rfl, _⟩
      · exact ⟨a, b, cc, d⟩
      · have hwn := win_none_of_running h1 hrun
        have hold : ∀ x ∈ s.cls, ¬(x.pc = .won ∨ x.pc = .returned true) := by
          intro x hx hp
          obtain ⟨w, hw, _⟩ := a x hx hp
          rw [hwn] at hw; simp at hw
        have hpan : s1.panics = s.panics ∧ s1.wlog = s.wlog ∧ s1.broken = s.broken := by
          unfold electStep at he
          rw [hc0] at he
          simp only [hrun, hwn, if_true] at he
          simp only [Option.some.injEq, Prod.mk.injEq] at he
          obtain ⟨rfl, _⟩ := he
          exact ⟨rfl, rfl, rfl⟩
        constructor
        · intro x hx hp
          have hx' : x ∈ s.cls := by rw [← e2]; exact hx
          exact absurd hp (hold x hx')
        · intro x hx hp
          have hx' : x ∈ s.cls := by rw [← e2]; exact hx
          exact absurd (Or.inr hp) (hold x hx')
        · show ∀ p ∈ s1.panics, _
          rw [hpan.1]; exact cc
        · show ∀ x ∈ s1.wlog, _
          rw [hpan.2.1, hpan.2.2]; exact d
      · exact ⟨a, b, cc, d⟩
      · exact ⟨a, b, cc, d⟩
      · exact ⟨a, b, cc, d⟩
    · simp at hs
  · simp at hs

theorem inv5_win {cfg : Cfg} {s s' : State} (h1 : Inv1 s) (h : Inv5 s) (hs : stepWin cfg s = some s') : Inv5 s' := by
  unfold stepWin at hs
  cases hw : s.win with
  | none => simp [hw] at hs
  | some w =>
    have hw3 := h1.some_ w hw
    simp only [hw] at hs
    have key : ∀ (s1 : State) (pc : WinPc), s1.cls = s.cls → s1.win = some { w with pc := pc } →
        s1.panics = s.panics → s1.wlog = s.wlog → s1.broken = s.broken →
        (w.returnable = true → ({ w with pc := pc } : Winner).returnable = true) → Inv5 s1 := by
      intro s1 pc e1 e2 e3 e4 e5 e6
      refine inv5_frame h e1 ?_ e3 e4 (by rw [e5]; exact id)
      intro w0 hw0
      rw [hw] at hw0; injection hw0 with hw0; subst hw0
      exact ⟨_, e2, rfl, e6⟩
    cases hp : w.pc <;> simp only [hp, setWin] at hs <;> simp only [hp, phaseOf] at hw3
    all_goals (repeat' (split at hs))
    all_goals (first
      | (injection hs with hs; subst hs
         exact key _ _ rfl rfl rfl rfl rfl (by simp [Winner.returnable, hp]; try (cases w.graceful <;> simp)))
      | (simp at hs; done)
      | (exfalso; simp_all; done))

theorem inv5_step {cfg : Cfg} {s s' : State} (a : Action) (h1 : Inv1 s) (h2 : Inv2 s) (h : Inv5 s)
    (hs : step cfg s a = some s') : Inv5 s' := by
  cases a <;> simp only [step] at hs
  case start =>
    unfold stepStart at hs
    split at hs
    · injection hs with hs; subst hs
      exact inv5_frame h rfl (same_win rfl) rfl rfl id
    · injection hs with hs; subst hs
      obtain ⟨a, b, c, d⟩ := h
      refine ⟨a, b, ?_, d⟩
      intro p hp
      rcases List.mem_append.mp hp with hp | hp
      · exact c p hp
      · simpa using hp
  case sendCall => unfold stepSendCall at hs; inv5_other h hs
  case closeCall =>
    unfold stepCloseCall at hs
    injection hs with hs; subst hs
    obtain ⟨a, b, c, d⟩ := h
    constructor
    · intro x hx hp
      rcases List.mem_append.mp hx with hx | hx
      · exact a x hx hp
      · simp at hx; subst hx; simp at hp
    · intro x hx hp
      rcases List.mem_append.mp hx with hx | hx
      · exact b x hx hp
      · simp at hx; subst hx; simp at hp
    · exact c
    · exact d
  case peerSend =>
    unfold stepPeerSend at hs
    injection hs with hs; subst hs
    exact inv5_frame h rfl (same_win rfl) rfl rfl (by intro hb; simp [hb])
  case inbCall => inv5_other h hs
  case errCall => inv5_other h hs
  case rTimeout => unfold stepRTimeout at hs; inv5_other h hs
  case snd => exact inv5_snd h1 h2 h hs
  case cls => exact inv5_cls h1 h hs
  case win => exact inv5_win h1 h hs
  case wRecv => unfold stepWRecv at hs; inv5_other h hs
  case wDone => unfold stepWDone at hs; inv5_other h hs
  case wWrite =>
    unfold stepWWrite writeOne at hs
    obtain ⟨a, b, c, d⟩ := h
    repeat' (split at hs)
    all_goals (first | (simp at hs; done) | skip)
    all_goals (injection hs with hs; subst hs)
    all_goals (refine ⟨a, b, c, ?_⟩; intro x hx hf; rcases List.mem_append.mp hx with hx | hx)
    all_goals (first | (exact d x hx hf) | skip)
    all_goals (simp at hx; subst hx)
    all_goals (first | (simp at hf; done) | (simp_all; done))
  case wFlush => unfold stepWFlush at hs; inv5_other h hs
  case wWgDone =>
    unfold stepWWgDone at hs
    split at hs
    · next hw =>
      have h6 := h1.wg_
      split at hs
      · next h0 => rw [hw] at h6; simp [wcount] at h6; omega
      · injection hs with hs; subst hs; exact inv5_frame h rfl (same_win rfl) rfl rfl id
    · simp at hs
  case rArm => unfold stepRArm at hs; inv5_other h hs
  case rChk => unfold stepRChk at hs; inv5_other h hs
  case rFrame => unfold stepRFrame at hs; inv5_other h hs
  case rErr => unfold stepRErr at hs; inv5_other h hs
  case rNil =>
    unfold stepRNil at hs
    split at hs
    · next hr =>
      split at hs
      · next hc =>
        have := reading_not_cleared h1 (by rw [hr]; simp)
        rw [hc] at this; simp at this
      · simp at hs
    · simp at hs
  case rPush => unfold stepRPush at hs; inv5_other h hs
  case rDrop => unfold stepRDrop at hs; inv5_other h hs
  case rCheck => unfold stepRCheck at hs; inv5_other h hs
  case rClose => exact inv5_rClose h1 h hs
  case rWgDone =>
    unfold stepRWgDone at hs
    split at hs
    · next hr =>
      have h6 := h1.wg_
      split at hs
      · next h0 => rw [hr] at h6; simp [rcount] at h6; omega
      · injection hs with hs; subst hs; exact inv5_frame h rfl (same_win rfl) rfl rfl id
    · simp at hs
  case inbPop => unfold stepInbPop at hs; inv5_other h hs
  case errPop => unfold stepErrPop at hs; inv5_other h hs

theorem inv5_reachable {cfg : Cfg} {s : State} (h : Reachable cfg s) : Inv5 s := by
  induction h with
  | init => exact inv5_init cfg
  | step a hr hs ih => exact inv5_step a (inv1_reachable hr) (inv2_reachable hr) ih hs

end Fatchoy.Conn
