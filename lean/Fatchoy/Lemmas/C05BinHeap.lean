/-
C05 helper lemmas: the structural binary heap (Model/C05BinHeap.lean).  Part 1: the order `LE` induced by
`timerHeap.Less`, heap order with a hole (the loop invariants of `up` and `down` on key functions), the accessors
`key` / `idx` and `Swap`.
-/
import Fatchoy.Model.C05BinHeap
namespace Fatchoy.C05

def key (a : BHeap) (k : Nat) : HNode := (a[k]?.getD default).n
def idx (a : BHeap) (k : Nat) : Int := (a[k]?.getD default).index

theorem key_eq (a : BHeap) (k : Nat) (h : k < a.size) : a[k].n = key a k := by simp [key, h]
theorem idx_eq (a : BHeap) (k : Nat) (h : k < a.size) : a[k].index = idx a k := by simp [idx, h]

theorem key_bswap (a : BHeap) (i j : Nat) (hi : i < a.size) (hj : j < a.size) (k : Nat) :
    key (bswap a i j hi hj) k = if k = i then key a j else if k = j then key a i else key a k := by
  unfold key bswap
  grind

theorem idx_bswap (a : BHeap) (i j : Nat) (hi : i < a.size) (hj : j < a.size) (k : Nat) :
    idx (bswap a i j hi hj) k = if k = i ∨ k = j then (k : Int) else idx a k := by
  unfold idx bswap
  grind

def LE (x y : HNode) : Prop := hless y x = false

theorem LE_trans {x y z : HNode} (h1 : LE x y) (h2 : LE y z) : LE x z := by
  simp [LE, hless] at *; omega
theorem LE_of_less {x y : HNode} (h : hless x y = true) : LE x y := by
  simp [LE, hless] at *; omega
theorem LE_refl (x : HNode) : LE x x := by simp [LE, hless]
theorem LE_total (x y : HNode) : LE x y ∨ LE y x := by
  simp [LE, hless]; omega
theorem LE_antisymm {x y : HNode} (h1 : LE x y) (h2 : LE y x) : x.deadline = y.deadline ∧ x.id = y.id := by
  simp [LE, hless] at *; omega
theorem less_of_LE_ne {x y : HNode} (h : LE x y) (hne : x.id ≠ y.id) : hless x y = true := by
  simp [LE, hless] at *; omega

def swapF (f : Nat → HNode) (i j : Nat) (k : Nat) : HNode := if k = i then f j else if k = j then f i else f k

def Ord (f : Nat → HNode) (n : Nat) : Prop := ∀ k, 0 < k → k < n → LE (f ((k - 1) / 2)) (f k)
def Hole (f : Nat → HNode) (i n : Nat) : Prop :=
  (∀ k, 0 < k → k < n → k ≠ i → (k - 1) / 2 ≠ i → LE (f ((k - 1) / 2)) (f k)) ∧
  (∀ k, 0 < k → k < n → (k - 1) / 2 = i → 0 < i → LE (f ((i - 1) / 2)) (f k))
def ParentOK (f : Nat → HNode) (i : Nat) : Prop := 0 < i → LE (f ((i - 1) / 2)) (f i)
def ChildrenOK (f : Nat → HNode) (i n : Nat) : Prop := ∀ k, 0 < k → k < n → (k - 1) / 2 = i → LE (f i) (f k)

theorem ord_of_hole {f : Nat → HNode} {i n : Nat} (h : Hole f i n) (hp : ParentOK f i) (hc : ChildrenOK f i n) : Ord f n := by
  intro k hk hkn
  by_cases h1 : k = i
  · subst h1; exact hp hk
  · by_cases h2 : (k - 1) / 2 = i
    · rw [h2]; exact hc k hk hkn h2
    · exact h.1 k hk hkn h1 h2

theorem hole_of_ord {f g : Nat → HNode} {i n : Nat} (h : Ord f n) (hg : ∀ k, k ≠ i → g k = f k) : Hole g i n := by
  refine ⟨fun k hk hkn h1 h2 => ?_, fun k hk hkn h1 h2 => ?_⟩
  · rw [hg k h1, hg _ h2]; exact h k hk hkn
  · rw [hg k (by omega), hg _ (by omega)]
    have := h k hk hkn
    rw [h1] at this
    exact LE_trans (h i h2 (by omega)) this

/-- one swap of `down`: the hole moves from i to the child j, whose new parent is in order -/
theorem down_step {f : Nat → HNode} {i j n : Nat} (h : Hole f i n) (hjn : j < n) (hj : (j - 1) / 2 = i) (hj0 : 0 < j)
    (hmin : ∀ k, 0 < k → k < n → (k - 1) / 2 = i → LE (f j) (f k)) (hl : hless (f j) (f i) = true) :
    Hole (swapF f i j) j n ∧ ParentOK (swapF f i j) j := by
  have hij : i < j := by omega
  refine ⟨⟨fun k hk hkn h1 h2 => ?_, fun k hk hkn h1 h2 => ?_⟩, fun _ => ?_⟩
  · by_cases h3 : (k - 1) / 2 = i
    · have : k ≠ i := by omega
      simp only [swapF, h3, if_true, this, h1, if_false]
      exact hmin k hk hkn h3
    · by_cases h4 : k = i
      · subst h4
        have hp : (k - 1) / 2 ≠ j := by omega
        simp only [swapF, h3, hp, if_false, if_true]
        exact h.2 j hj0 hjn hj hk
      · simp only [swapF, h3, h2, h4, h1, if_false]
        exact h.1 k hk hkn h4 h3
  · have : k ≠ i := by omega
    have hk2 : k ≠ j := by omega
    simp only [swapF, hj, if_true, this, hk2, if_false]
    have := h.1 k hk hkn this (by omega)
    rw [h1] at this
    exact this
  · have : j ≠ i := by omega
    simp only [swapF, hj, if_true, this, if_false]
    exact LE_of_less hl

/-- one swap of `up`: the hole moves from j to its parent p, whose children are in order -/
theorem up_step {f : Nat → HNode} {j n : Nat} (h : Hole f j n) (hc : ChildrenOK f j n) (hjn : j < n) (hj0 : 0 < j)
    (hl : hless (f j) (f ((j - 1) / 2)) = true) :
    Hole (swapF f ((j - 1) / 2) j) ((j - 1) / 2) n ∧ ChildrenOK (swapF f ((j - 1) / 2) j) ((j - 1) / 2) n := by
  generalize hp : (j - 1) / 2 = p at *
  have hpj : p < j := by omega
  have hjp : j ≠ p := by omega
  refine ⟨⟨fun k hk hkn h1 h2 => ?_, fun k hk hkn h1 h2 => ?_⟩, fun k hk hkn h1 => ?_⟩
  · by_cases h3 : k = j
    · omega
    · by_cases h4 : (k - 1) / 2 = j
      · simp only [swapF, h4, h1, h3, if_false, if_true, hjp]
        have := h.2 k hk hkn h4 hj0
        rw [hp] at this; exact this
      · simp only [swapF, h4, h1, h3, h2, if_false]
        exact h.1 k hk hkn h3 h4
  · have hpp : (p - 1) / 2 ≠ p := by omega
    have hpp2 : (p - 1) / 2 ≠ j := by omega
    have hkp : k ≠ p := by omega
    have hpar := h.1 p h2 (by omega) (by omega) (by omega)
    by_cases h3 : k = j
    · subst h3
      simp only [swapF, hpp, hpp2, if_false, if_true, hkp]
      exact hpar
    · simp only [swapF, hpp, hpp2, if_false, h3, hkp]
      have := h.1 k hk hkn h3 (by omega)
      rw [h1] at this
      exact LE_trans hpar this
  · have hkp : k ≠ p := by omega
    by_cases h3 : k = j
    · subst h3
      simp only [swapF, if_true, hkp, if_false]
      exact LE_of_less hl
    · simp only [swapF, if_true, h3, hkp, if_false]
      have := h.1 k hk hkn h3 (by omega)
      rw [h1] at this
      exact LE_trans (LE_of_less hl) this

theorem ord_root_min {f : Nat → HNode} {n : Nat} (h : Ord f n) : ∀ k, k < n → LE (f 0) (f k) := by
  intro k
  induction k using Nat.strongRecOn with
  | _ k ih =>
    intro hk
    by_cases h0 : k = 0
    · subst h0; exact LE_refl _
    · exact LE_trans (ih ((k - 1) / 2) (by omega) (by omega)) (h k (by omega) hk)

end Fatchoy.C05
