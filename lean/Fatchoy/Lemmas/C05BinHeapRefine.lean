/-
C05 helper lemmas: the structural binary heap, part 4: refinement.  `babs` (the nodes of the array, insertion-sorted by
`timerHeap.Less`) maps Push / Pop / Remove / Fix to the operations of the sorted-list model (`hinsert`, tail, filter by id).
-/
import Fatchoy.Lemmas.C05BinHeapOps
import Fatchoy.Lemmas.C05Heap
namespace Fatchoy.C05

/-- insertion sort by `timerHeap.Less`: the sorted list that stands for the heap in Model/C05Sched.lean -/
def isort (l : List HNode) : List HNode := l.foldr hinsert []

/-- the abstraction function: the array's nodes, sorted by `Less` -/
def babs (a : BHeap) : List HNode := isort (keys a)

def LSorted (l : List HNode) : Prop := l.Pairwise LE

theorem hinsert_lsorted (n : HNode) : ∀ l, LSorted l → LSorted (hinsert n l)
  | [], _ => by simp [hinsert, LSorted]
  | m :: ms, h => by
    simp only [hinsert]
    have h' := List.pairwise_cons.mp h
    split
    · rename_i hl
      refine List.pairwise_cons.mpr ⟨?_, h⟩
      intro b hb
      rcases List.mem_cons.mp hb with rfl | hb
      · exact LE_of_less hl
      · exact LE_trans (LE_of_less hl) (h'.1 b hb)
    · rename_i hl
      have hmn : LE m n := by simpa [LE] using hl
      refine List.pairwise_cons.mpr ⟨?_, hinsert_lsorted n ms h'.2⟩
      intro b hb
      rcases List.mem_cons.mp ((hinsert_perm n ms).mem_iff.mp hb) with rfl | hb
      · exact hmn
      · exact h'.1 b hb

theorem isort_perm : ∀ l, (isort l).Perm l
  | [] => List.Perm.refl _
  | x :: l => (hinsert_perm x (isort l)).trans ((isort_perm l).cons x)

theorem isort_lsorted : ∀ l, LSorted (isort l)
  | [] => List.Pairwise.nil
  | x :: l => hinsert_lsorted x _ (isort_lsorted l)

theorem isort_cons (x : HNode) (l : List HNode) : isort (x :: l) = hinsert x (isort l) := rfl

/-- two `Less`-sorted lists with the same nodes, ids distinct, are equal -/
theorem lsorted_unique : ∀ (l1 l2 : List HNode), LSorted l1 → LSorted l2 → l1.Perm l2 → (hids l1).Nodup → l1 = l2
  | [], l2, _, _, hp, _ => (List.Perm.nil_eq hp)
  | x :: xs, [], _, _, hp, _ => absurd hp.symm (List.Perm.nil_eq · |> fun h => by simp at h)
  | x :: xs, y :: ys, h1, h2, hp, hn => by
    have hxy : x = y := by
      by_cases hxy : x = y
      · exact hxy
      · have hx : x ∈ ys := by
          have := hp.mem_iff.mp (List.mem_cons_self)
          rcases List.mem_cons.mp this with h | h
          · exact absurd h hxy
          · exact h
        have hy : y ∈ xs := by
          have := hp.mem_iff.mpr (List.mem_cons_self)
          rcases List.mem_cons.mp this with h | h
          · exact absurd h.symm hxy
          · exact h
        have a1 := (List.pairwise_cons.mp h1).1 y hy
        have a2 := (List.pairwise_cons.mp h2).1 x hx
        have hid := (LE_antisymm a1 a2).2
        simp only [hids, List.map_cons, List.nodup_cons, List.mem_map] at hn
        exact absurd ⟨y, hy, hid.symm⟩ hn.1
    subst hxy
    have hn' : (hids xs).Nodup := by
      simp only [hids, List.map_cons, List.nodup_cons] at hn; exact hn.2
    rw [lsorted_unique xs ys (List.pairwise_cons.mp h1).2 (List.pairwise_cons.mp h2).2 (List.Perm.cons_inv hp) hn']

theorem isort_congr {l1 l2 : List HNode} (hp : l1.Perm l2) (hn : (hids l1).Nodup) : isort l1 = isort l2 := by
  apply lsorted_unique _ _ (isort_lsorted _) (isort_lsorted _) ((isort_perm l1).trans (hp.trans (isort_perm l2).symm))
  exact ((isort_perm l1).map _).nodup_iff.mpr hn

theorem hinsert_min (x : HNode) : ∀ l, (∀ m ∈ l, hless x m = true) → hinsert x l = x :: l
  | [], _ => rfl
  | m :: ms, h => by simp [hinsert, h m (List.mem_cons_self)]

theorem filter_hinsert_self (x : HNode) (l : List HNode) (h : ∀ m ∈ l, m.id ≠ x.id) :
    (hinsert x l).filter (fun m => decide (m.id ≠ x.id)) = l := by
  rw [filter_hinsert_false _ x (by simp)]
  exact List.filter_eq_self.mpr (fun m hm => by simpa using h m hm)

theorem mem_keys {a : BHeap} {m : HNode} (h : m ∈ keys a) : ∃ k, k < a.size ∧ key a k = m := by
  simp only [keys, List.mem_map, Array.mem_toList_iff] at h
  obtain ⟨b, hb, rfl⟩ := h
  obtain ⟨k, hk, rfl⟩ := Array.mem_iff_getElem.mp hb
  exact ⟨k, hk, (key_eq a k hk).symm⟩

theorem erase_hinsert (x : HNode) : ∀ l, x ∉ l → (hinsert x l).erase x = l
  | [], _ => by simp [hinsert]
  | m :: ms, h => by
    have hne : m ≠ x := fun e => h (e ▸ List.mem_cons_self)
    simp only [hinsert]
    split
    · simp
    · rw [List.erase_cons_tail (by simpa using hne), erase_hinsert x ms (fun hm => h (List.mem_cons_of_mem _ hm))]

/-- distinct ids in the array -/
def Distinct (a : BHeap) : Prop := (hids (keys a)).Nodup

theorem babs_perm (a : BHeap) : (babs a).Perm (keys a) := isort_perm _

theorem babs_length (a : BHeap) : (babs a).length = a.size := by
  rw [(babs_perm a).length_eq]; simp [keys]

theorem Distinct.of_perm {a b : BHeap} (h : Distinct a) (hp : (keys b).Perm (keys a)) : Distinct b :=
  (hp.map _).nodup_iff.mpr h

/-- under the heap order the root is the `Less`-minimum -/
theorem root_min (a : BHeap) (h : BInv a) (m : HNode) (hm : m ∈ keys a) : LE (key a 0) m := by
  obtain ⟨k, hk, rfl⟩ := mem_keys hm
  exact ord_root_min h.ord k hk

/-- `abs (Push a x) = sortedInsert x (abs a)` -/
theorem babs_bpush (a : BHeap) (x : HNode) (h : BInv a) (hd : (hids (x :: keys a)).Nodup) :
    babs (bpush a x) = hinsert x (babs a) := by
  have hp := (bpush_spec a x h).2.2
  unfold babs
  rw [isort_congr hp ((hp.map _).nodup_iff.mpr hd)]
  rfl

/-- removing `x`: if the nodes of `a` are `x` plus the nodes of `a'`, then `abs a = sortedInsert x (abs a')` -/
theorem babs_of_perm_cons {a a' : BHeap} {x : HNode} (hp : (keys a).Perm (x :: keys a')) (hd : Distinct a) :
    babs a = hinsert x (babs a') := by
  unfold babs
  rw [isort_congr hp hd]
  rfl

theorem distinct_cons {a a' : BHeap} {x : HNode} (hp : (keys a).Perm (x :: keys a')) (hd : Distinct a) :
    (∀ m ∈ keys a', m.id ≠ x.id) ∧ Distinct a' := by
  have := (hp.map (fun m : HNode => m.id)).nodup_iff.mp hd
  simp only [List.map_cons, List.nodup_cons, List.mem_map, not_exists, not_and] at this
  exact ⟨fun m hm => this.1 m hm, this.2⟩

/-- `abs (Pop a) = (abs a).tail` and the popped node is `(abs a).head` -/
theorem babs_bpop (a a' : BHeap) (v : BNode) (h : BInv a) (hd : Distinct a) (e : bpop a = some (a', v)) :
    babs a = v.n :: babs a' ∧ BInv a' ∧ Distinct a' ∧ v.index = -1 := by
  have hne : a.size ≠ 0 := by
    intro h0; simp [bpop, h0] at e
  obtain ⟨a2, v2, e2, hinv, _, hv, hvi, hp⟩ := bpop_spec a h hne
  rw [e] at e2
  obtain ⟨rfl, rfl⟩ := Prod.mk.inj (Option.some.inj e2)
  obtain ⟨hids', hd'⟩ := distinct_cons hp hd
  refine ⟨?_, hinv, hd', hvi⟩
  rw [babs_of_perm_cons hp hd]
  apply hinsert_min
  intro m hm
  have hm' : m ∈ keys a' := (babs_perm a').mem_iff.mp hm
  have hle := root_min a h m (hp.mem_iff.mpr (List.mem_cons_of_mem _ hm'))
  rw [← hv] at hle
  exact less_of_LE_ne hle (fun e => hids' m hm' e.symm)

/-- `abs (Remove a i) = (abs a)` without the node `a[i]` -/
theorem babs_bremove (a a' : BHeap) (v : BNode) (i : Nat) (h : BInv a) (hd : Distinct a) (e : bremove a i = some (a', v)) :
    i < a.size ∧ v.n = key a i ∧ babs a' = (babs a).filter (fun m => decide (m.id ≠ (key a i).id)) ∧
      babs a' = (babs a).erase (key a i) ∧ BInv a' ∧ Distinct a' ∧ v.index = -1 := by
  have hi : i < a.size := by
    by_cases hi : i < a.size
    · exact hi
    · simp [bremove, hi] at e
  obtain ⟨a2, v2, e2, hinv, _, hv, hvi, hp⟩ := bremove_spec a h i hi
  rw [e] at e2
  obtain ⟨rfl, rfl⟩ := Prod.mk.inj (Option.some.inj e2)
  obtain ⟨hids', hd'⟩ := distinct_cons hp hd
  have hids'' : ∀ m ∈ babs a', m.id ≠ v.n.id := fun m hm => hids' m ((babs_perm a').mem_iff.mp hm)
  refine ⟨hi, hv, ?_, ?_, hinv, hd', hvi⟩
  · rw [babs_of_perm_cons hp hd, ← hv, filter_hinsert_self _ _ hids'']
  · rw [babs_of_perm_cons hp hd, ← hv]
    exact (erase_hinsert v.n (babs a') (fun hm => hids'' _ hm rfl)).symm

theorem perm_set_split (l : List HNode) (i : Nat) (hi : i < l.length) (x : HNode) :
    ∃ rest, l.Perm (l[i] :: rest) ∧ (l.set i x).Perm (x :: rest) := by
  refine ⟨l.take i ++ l.drop (i + 1), ?_, ?_⟩
  · have : l.set i l[i] = l := List.set_getElem_self hi
    conv => lhs; rw [← this, List.set_eq_take_append_cons_drop, if_pos hi]
    exact List.perm_middle
  · rw [List.set_eq_take_append_cons_drop, if_pos hi]
    exact List.perm_middle

theorem keys_getElem (a : BHeap) (i : Nat) (hi : i < (keys a).length) : (keys a)[i] = key a i := by
  simp only [keys, List.length_map, Array.length_toList] at hi
  simp [keys, key_eq _ _ hi]

/-- `a[i].deadline = d; Fix(a, i)`: `abs` re-inserts the changed node -/
theorem babs_bfix (a a' : BHeap) (i d : Nat) (h : BInv a) (hd : Distinct a) (hi : i < a.size)
    (e : bfix (bsetDeadline a i d) i = some a') :
    babs a' = hinsert { key a i with deadline := d } ((babs a).filter (fun m => decide (m.id ≠ (key a i).id))) ∧
      BInv a' ∧ Distinct a' := by
  obtain ⟨a2, e2, hinv, _, hp⟩ := bfix_set_spec a h i d hi
  rw [e] at e2
  obtain rfl := Option.some.inj e2
  have hil : i < (keys a).length := by simpa [keys] using hi
  obtain ⟨rest, p1, p2⟩ := perm_set_split (keys a) i hil { key a i with deadline := d }
  rw [keys_getElem] at p1
  have hn1 : (hids (key a i :: rest)).Nodup := (p1.map _).nodup_iff.mp hd
  have hn2 : (hids ({ key a i with deadline := d } :: rest)).Nodup := hn1
  have hd' : Distinct a' := ((hp.trans p2).map _).nodup_iff.mpr hn2
  refine ⟨?_, hinv, hd'⟩
  have e1 : babs a = hinsert (key a i) (isort rest) := by
    unfold babs; rw [isort_congr p1 hd]; rfl
  have e3 : babs a' = hinsert { key a i with deadline := d } (isort rest) := by
    unfold babs; rw [isort_congr (hp.trans p2) hd']; rfl
  rw [e1, e3, filter_hinsert_self]
  intro m hm
  have hm' := (isort_perm rest).mem_iff.mp hm
  simp only [hids, List.map_cons, List.nodup_cons, List.mem_map, not_exists, not_and] at hn1
  exact hn1.1 m hm'

end Fatchoy.C05
