/-
C06 helper lemmas: a cancelled timer is never delivered again, whatever the schedule.
-/
import Fatchoy.Lemmas.C05Order
import Fatchoy.Lemmas.C05HeapOrder
namespace Fatchoy.C05

theorem ids_cases (l : List WNode) (id : Nat) : id ∉ ids l ∨ ∃ D P, has l id D P := by
  by_cases h : id ∈ ids l
  · obtain ⟨n, hn, hi⟩ := mem_ids.mp h
    exact .inr ⟨n.deadline, n.period, n, hn, hi, rfl, rfl⟩
  · exact .inl h

theorem hids_cases (l : List HNode) (id : Nat) : id ∉ hids l ∨ ∃ D P, hhas l id D P := by
  by_cases h : id ∈ hids l
  · obtain ⟨n, hn, hi⟩ := mem_hids.mp h
    exact .inr ⟨n.deadline, n.period, n, hn, hi, rfl, rfl⟩
  · exact .inl h

/-- wheel: a step never un-cancels a timer and never delivers a cancelled one -/
theorem cancelled_step (c : Nat) {s s' : WS} {a : Act} {o : Out} (h : WInv s) {id : Nat} (hc : id ∈ s.f.cancelled)
    (hs : WS.step (litGeom c) s a = .ok s' o) : id ∈ s'.f.cancelled ∧ entries s'.f.log id = entries s.f.log id := by
  cases a with
  | after d => simp only [WS.step] at hs; split at hs <;> cases hs; exact ⟨hc, rfl⟩
  | every p => simp only [WS.step] at hs; split at hs <;> cases hs; exact ⟨hc, rfl⟩
  | cancel j =>
    simp only [WS.step] at hs
    split at hs
    · split at hs
      · cases hs
      · cases hs; exact ⟨List.mem_append_left _ hc, rfl⟩
    · cases hs; exact ⟨hc, rfl⟩
  | add =>
    simp only [WS.step] at hs
    split at hs
    · cases hs; exact ⟨hc, rfl⟩
    · split at hs
      · cases hs; exact ⟨hc, rfl⟩
      · split at hs <;> cases hs; exact ⟨hc, rfl⟩
  | del => simp only [WS.step] at hs; split at hs <;> cases hs <;> exact ⟨hc, rfl⟩
  | tick =>
    simp only [WS.step] at hs
    cases hs
    refine ⟨by rw [(WS.tick_frame c s h.wheel).2.2.1]; exact hc, ?_⟩
    rcases ids_cases s.w.nodes id with hn | ⟨D, P, hh⟩
    · exact (WS.tick_absent c s h.wheel id hn).2.1
    · exact (WS.tick_cancelled c s h.wheel id D P hh hc).1
  | clock n => simp only [WS.step] at hs; cases hs; exact ⟨hc, rfl⟩

theorem cancelled_run (c : Nat) (id : Nat) : ∀ (acts : List Act) (s s' : WS), WInv s →
    id ∈ s.f.cancelled → WS.run (litGeom c) s acts = some s' →
    id ∈ s'.f.cancelled ∧ entries s'.f.log id = entries s.f.log id ∧ WInv s'
  | [], s, s', h, hc, hr => by
    simp only [WS.run, Option.some.injEq] at hr; subst hr; exact ⟨hc, rfl, h⟩
  | a :: as, s, s', h, hc, hr => by
    simp only [WS.run] at hr
    split at hr
    · rename_i s1 o he
      obtain ⟨c1, e1⟩ := cancelled_step c h hc he
      obtain ⟨c2, e2, i2⟩ := cancelled_run c id as s1 s' (h.step c he) c1 hr
      exact ⟨c2, e2.trans e1, i2⟩
    · cases hr

/-- heap: a step never un-cancels a timer and never delivers a cancelled one -/
theorem hcancelled_step (G : Geom) {s s' : HS} {a : Act} {o : Out} (h : HInv s) {id : Nat} (hc : id ∈ s.f.cancelled)
    (hs : HS.step G s a = .ok s' o) : id ∈ s'.f.cancelled ∧ entries s'.f.log id = entries s.f.log id := by
  cases a with
  | after d => simp only [HS.step] at hs; split at hs <;> cases hs; exact ⟨hc, rfl⟩
  | every p => simp only [HS.step] at hs; split at hs <;> cases hs; exact ⟨hc, rfl⟩
  | cancel j =>
    simp only [HS.step] at hs
    split at hs
    · split at hs
      · cases hs
      · cases hs; exact ⟨List.mem_append_left _ hc, rfl⟩
    · cases hs; exact ⟨hc, rfl⟩
  | add =>
    simp only [HS.step] at hs
    split at hs
    · cases hs; exact ⟨hc, rfl⟩
    · split at hs <;> cases hs <;> exact ⟨hc, rfl⟩
  | del => simp only [HS.step] at hs; split at hs <;> cases hs <;> exact ⟨hc, rfl⟩
  | tick =>
    simp only [HS.step] at hs
    split at hs
    · rename_i s1 ht
      cases hs
      refine ⟨by rw [(HS.tick_frame s _ h ht).2.1]; exact hc, ?_⟩
      rcases hids_cases s.heap id with hn | ⟨D, P, hh⟩
      · exact (HS.tick_absent s _ h ht id hn).2.1
      · exact (HS.tick_cancelled s _ h ht id D P hh hc).1
    · cases hs
  | clock n => simp only [HS.step] at hs; cases hs; exact ⟨hc, rfl⟩

theorem hcancelled_run (G : Geom) (id : Nat) : ∀ (acts : List Act) (s s' : HS), HInv s →
    id ∈ s.f.cancelled → HS.run G s acts = some s' →
    id ∈ s'.f.cancelled ∧ entries s'.f.log id = entries s.f.log id ∧ HInv s'
  | [], s, s', h, hc, hr => by
    simp only [HS.run, Option.some.injEq] at hr; subst hr; exact ⟨hc, rfl, h⟩
  | a :: as, s, s', h, hc, hr => by
    simp only [HS.run] at hr
    split at hr
    · rename_i s1 o he
      obtain ⟨c1, e1⟩ := hcancelled_step G h hc he
      obtain ⟨c2, e2, i2⟩ := hcancelled_run G id as s1 s' (h.step G he) c1 hr
      exact ⟨c2, e2.trans e1, i2⟩
    · cases hr

/-- removing the one occurrence of an element of a duplicate-free list shortens it by exactly one -/
theorem length_filter_ne : ∀ {l : List Nat}, l.Nodup → ∀ {a : Nat}, a ∈ l → (l.filter (· ≠ a)).length + 1 = l.length
  | [], _, a, ha => by simp at ha
  | x :: xs, hn, a, ha => by
    have hx := List.nodup_cons.mp hn
    by_cases hxa : x = a
    · subst hxa
      have e : xs.filter (· ≠ x) = xs := List.filter_eq_self.mpr (fun y hy => by
        simp only [ne_eq, decide_eq_true_eq]; exact fun e => hx.1 (e ▸ hy))
      rw [List.filter_cons_of_neg (by simp), e, List.length_cons]
    · have ha' : a ∈ xs := by
        rcases List.mem_cons.mp ha with e | h
        · exact absurd e.symm hxa
        · exact h
      rw [List.filter_cons_of_pos (by simpa using hxa), List.length_cons, List.length_cons, length_filter_ne hx.2 ha']

end Fatchoy.C05
