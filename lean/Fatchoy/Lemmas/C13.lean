/-
Helper lemmas for C13 (LRU cache): facts about the model's list primitives, the step-wise invariants
(bound, distinct keys, recency order = last use) and the callback conservation law.
-/
import Fatchoy.Model.C13Spec
namespace Fatchoy.C13

/-! ### list primitives -/

theorem lookup_eq_none {items : List (K × V)} {k : K} :
    lookup items k = none ↔ ∀ e ∈ items, e.1 ≠ k := by
  unfold lookup
  simp [List.find?_eq_none]

theorem lookup_eq_some {items : List (K × V)} {k : K} {v : V} (h : lookup items k = some v) :
    (k, v) ∈ items := by
  unfold lookup at h
  simp only [Option.map_eq_some_iff] at h
  obtain ⟨e, he, hv⟩ := h
  have h1 := List.mem_of_find?_eq_some he
  have h2 := List.find?_some he
  simp at h2
  cases e; simp_all

theorem lookup_cons (e : K × V) (items : List (K × V)) (k : K) :
    lookup (e :: items) k = if e.1 = k then some e.2 else lookup items k := by
  unfold lookup
  by_cases h : e.1 = k <;> simp [h]

/-- with distinct keys, every entry is what `lookup` finds for its key -/
theorem lookup_of_mem {items : List (K × V)} (hn : (items.map (·.1)).Nodup) {k : K} {v : V}
    (h : (k, v) ∈ items) : lookup items k = some v := by
  induction items with
  | nil => cases h
  | cons e rest ih =>
    rw [lookup_cons]
    simp only [List.map_cons, List.nodup_cons] at hn
    rcases List.mem_cons.mp h with h | h
    · subst h; simp
    · have : e.1 ≠ k := by
        intro hk
        exact hn.1 (hk ▸ List.mem_map_of_mem (f := (·.1)) h)
      simp [this, ih hn.2 h]

theorem erase_sublist (items : List (K × V)) (k : K) : (erase items k).Sublist items :=
  List.filter_sublist

theorem mem_erase {items : List (K × V)} {k : K} {e : K × V} :
    e ∈ erase items k ↔ e ∈ items ∧ e.1 ≠ k := by
  unfold erase; simp

theorem erase_of_absent {items : List (K × V)} {k : K} (h : ∀ e ∈ items, e.1 ≠ k) :
    erase items k = items := by
  unfold erase
  exact List.filter_eq_self.mpr (fun e he => by simpa using h e he)

theorem dropOldest_spec (l : List (K × V)) :
    (dropOldest l).1 ++ (dropOldest l).2 = l ∧ (dropOldest l).2.length = min 1 l.length := by
  unfold dropOldest
  cases h : l.getLast? with
  | none =>
    have : l = [] := List.getLast?_eq_none_iff.mp h
    subst this; simp
  | some e =>
    obtain ⟨ys, hys⟩ := List.getLast?_eq_some_iff.mp h
    subst hys
    simp

/-- `Resize`'s loop drops the last `n` entries (all of them if there are fewer), oldest first -/
theorem evictN_spec (n : Nat) (l : List (K × V)) :
    (evictN n l).1 ++ (evictN n l).2.reverse = l ∧ (evictN n l).2.length = min n l.length := by
  induction n generalizing l with
  | zero => simp [evictN]
  | succ n ih =>
    obtain ⟨h1, h2⟩ := dropOldest_spec l
    obtain ⟨h3, h4⟩ := ih (dropOldest l).1
    simp only [evictN]
    refine ⟨?_, ?_⟩
    · have hrev : (dropOldest l).2.reverse = (dropOldest l).2 := by
        have : (dropOldest l).2.length ≤ 1 := by omega
        match hd : (dropOldest l).2, this with
        | [], _ => rfl
        | [_], _ => rfl
      rw [List.reverse_append, ← List.append_assoc, h3, hrev, h1]
    · have hl : l.length = (dropOldest l).1.length + (dropOldest l).2.length := by
        rw [← List.length_append, h1]
      rw [List.length_append, h4]
      omega

theorem evictN_length (n : Nat) (l : List (K × V)) : (evictN n l).1.length = l.length - n := by
  obtain ⟨h1, h2⟩ := evictN_spec n l
  have := congrArg List.length h1
  rw [List.length_append, List.length_reverse] at this
  omega

theorem erase_length_lt {items : List (K × V)} {k : K} {v : V} (h : (k, v) ∈ items) :
    (erase items k).length < items.length := by
  induction items with
  | nil => cases h
  | cons e rest ih =>
    unfold erase
    simp only [List.filter_cons]
    by_cases he : e.1 = k
    · simp only [he, bne_self_eq_false, Bool.false_eq_true, if_false, List.length_cons]
      exact Nat.lt_succ_of_le (List.length_filter_le _ _)
    · have hm : (k, v) ∈ rest := by
        rcases List.mem_cons.mp h with h | h
        · subst h; exact absurd rfl he
        · exact h
      have := ih hm
      unfold erase at this
      simp only [bne_iff_ne, ne_eq, he, not_false_eq_true, if_true, List.length_cons]
      omega

/-! ### invariants of a step -/

/-- never more entries than the capacity (a capacity ≤ 0, reachable only through `Resize`, holds nothing) -/
def Bounded (c : Cache) : Prop := (c.items.length : Int) ≤ max c.cap 0

/-- the keys of the recency list are pairwise distinct -/
def KeysNodup (c : Cache) : Prop := (c.items.map (·.1)).Nodup

theorem step_bounded (c : Cache) (op : Op) (h : Bounded c) : Bounded (step c op).1 := by
  unfold Bounded at *
  cases op with
  | len => exact h
  | cap => exact h
  | contains k => exact h
  | peek k => exact h
  | getOldest => exact h
  | keys => exact h
  | get k =>
    simp only [step]
    split
    · rename_i v hv
      have := erase_length_lt (lookup_eq_some hv)
      simp only [List.length_cons]
      omega
    · exact h
  | put k v =>
    simp only [step]
    split
    · rename_i v' hv
      have := erase_length_lt (lookup_eq_some hv)
      simp only [List.length_cons]
      omega
    · split
      · rename_i hfull
        obtain ⟨h1, h2⟩ := dropOldest_spec ((k, v) :: c.items)
        have h3 := congrArg List.length h1
        simp only [List.length_append, List.length_cons] at h3 h2 hfull ⊢
        omega
      · rename_i hfull
        simp only [List.length_cons] at hfull ⊢
        omega
  | resize n =>
    simp only [step, evictN_length]
    split <;> omega
  | remove k =>
    simp only [step]
    split
    · rename_i v hv
      have := erase_length_lt (lookup_eq_some hv)
      simp only []
      omega
    · exact h
  | removeOldest =>
    simp only [step]
    split
    · simp only [List.length_dropLast]; omega
    · exact h
  | purge => simp only [step, List.length_nil]; omega

theorem nodup_touch {items : List (K × V)} (hn : (items.map (·.1)).Nodup) (k : K) (v : V) :
    (((k, v) :: erase items k).map (·.1)).Nodup := by
  simp only [List.map_cons, List.nodup_cons]
  refine ⟨?_, ((erase_sublist items k).map _).nodup hn⟩
  intro hmem
  obtain ⟨e, he, hk⟩ := List.mem_map.mp hmem
  exact (mem_erase.mp he).2 hk

theorem step_keysNodup (c : Cache) (op : Op) (h : KeysNodup c) : KeysNodup (step c op).1 := by
  unfold KeysNodup at *
  cases op with
  | len => exact h
  | cap => exact h
  | contains k => exact h
  | peek k => exact h
  | getOldest => exact h
  | keys => exact h
  | get k =>
    simp only [step]
    split
    · exact nodup_touch h k _
    · exact h
  | put k v =>
    simp only [step]
    split
    · exact nodup_touch h k v
    · rename_i hnone
      have hfull : (((k, v) :: c.items).map (·.1)).Nodup := by
        simp only [List.map_cons, List.nodup_cons]
        refine ⟨?_, h⟩
        intro hmem
        obtain ⟨e, he, hk⟩ := List.mem_map.mp hmem
        exact lookup_eq_none.mp hnone e he hk
      split
      · obtain ⟨h1, _⟩ := dropOldest_spec ((k, v) :: c.items)
        have hs : (dropOldest ((k, v) :: c.items)).1.Sublist ((k, v) :: c.items) := by
          have := List.sublist_append_left (dropOldest ((k, v) :: c.items)).1 (dropOldest ((k, v) :: c.items)).2
          rwa [h1] at this
        exact (hs.map _).nodup hfull
      · exact hfull
  | resize n =>
    simp only [step]
    obtain ⟨h1, _⟩ := evictN_spec
      (if (c.items.length : Int) - n < 0 then 0 else (c.items.length : Int) - n).toNat c.items
    have hs := List.sublist_append_left
      (evictN (if (c.items.length : Int) - n < 0 then 0 else (c.items.length : Int) - n).toNat c.items).1
      (evictN (if (c.items.length : Int) - n < 0 then 0 else (c.items.length : Int) - n).toNat c.items).2.reverse
    rw [h1] at hs
    exact (hs.map _).nodup h
  | remove k =>
    simp only [step]
    split
    · exact ((erase_sublist c.items k).map _).nodup h
    · exact h
  | removeOldest =>
    simp only [step]
    split
    · exact ((List.dropLast_sublist c.items).map _).nodup h
    · exact h
  | purge => simp [step]

/-! ### recency order = order of last use -/

theorem lastUse_snoc (ops : List Op) (op : Op) (k : K) :
    lastUse (ops ++ [op]) k = if isUse op k then ops.length + 1 else lastUse ops k := by
  simp [lastUse, lastUseR]

theorem lastUseR_le (h : List Op) (k : K) : lastUseR h k ≤ h.length := by
  induction h with
  | nil => simp [lastUseR]
  | cons op older ih =>
    simp only [lastUseR, List.length_cons]
    split <;> omega

theorem lastUse_le (ops : List Op) (k : K) : lastUse ops k ≤ ops.length := by
  have := lastUseR_le ops.reverse k
  simpa [lastUse] using this

/-- the recency list is strictly ordered by last use (front = used last) and every entry has been used -/
def Recency (ops : List Op) (items : List (K × V)) : Prop :=
  items.Pairwise (fun a b => lastUse ops b.1 < lastUse ops a.1) ∧ ∀ e ∈ items, 0 < lastUse ops e.1

theorem Recency.sublist {ops : List Op} {items l : List (K × V)} (h : Recency ops items)
    (hs : l.Sublist items) : Recency ops l :=
  ⟨h.1.sublist hs, fun e he => h.2 e (hs.subset he)⟩

/-- a call that uses none of the keys of `l` leaves their order of last use alone -/
theorem Recency.nonuse {ops : List Op} {items l : List (K × V)} (h : Recency ops items)
    (hs : l.Sublist items) (op : Op) (hu : ∀ e ∈ l, isUse op e.1 = false) :
    Recency (ops ++ [op]) l := by
  have h' := h.sublist hs
  refine ⟨h'.1.imp_of_mem ?_, ?_⟩
  · intro a b ha hb hab
    rw [lastUse_snoc, lastUse_snoc, hu a ha, hu b hb]
    simpa using hab
  · intro e he
    rw [lastUse_snoc, hu e he]
    simpa using h'.2 e he

/-- a call that uses exactly key `k` puts `k` in front of all other keys -/
theorem Recency.touch {ops : List Op} {items l : List (K × V)} (h : Recency ops items)
    (hs : l.Sublist items) (op : Op) (k : K) (v : V) (hk : ∀ e ∈ l, e.1 ≠ k)
    (hu : ∀ k', isUse op k' = (k == k')) :
    Recency (ops ++ [op]) ((k, v) :: l) := by
  have hl : Recency (ops ++ [op]) l :=
    h.nonuse hs op (fun e he => by rw [hu]; simpa using (hk e he).symm)
  refine ⟨List.pairwise_cons.mpr ⟨?_, hl.1⟩, ?_⟩
  · intro e he
    have h1 : lastUse (ops ++ [op]) e.1 = lastUse ops e.1 := by
      rw [lastUse_snoc, hu]
      have : (k == e.1) = false := by simpa using (hk e he).symm
      simp [this]
    have h2 : lastUse (ops ++ [op]) k = ops.length + 1 := by
      rw [lastUse_snoc, hu]; simp
    have := lastUse_le ops e.1
    simp only [h1, h2]
    omega
  · intro e he
    rcases List.mem_cons.mp he with he | he
    · subst he
      rw [lastUse_snoc, hu]; simp
    · exact hl.2 e he

theorem step_recency (ops : List Op) (c : Cache) (op : Op) (h : Recency ops c.items) :
    Recency (ops ++ [op]) (step c op).1.items := by
  cases op with
  | len => exact h.nonuse (List.Sublist.refl _) _ (fun _ _ => rfl)
  | cap => exact h.nonuse (List.Sublist.refl _) _ (fun _ _ => rfl)
  | contains k => exact h.nonuse (List.Sublist.refl _) _ (fun _ _ => rfl)
  | peek k => exact h.nonuse (List.Sublist.refl _) _ (fun _ _ => rfl)
  | getOldest => exact h.nonuse (List.Sublist.refl _) _ (fun _ _ => rfl)
  | keys => exact h.nonuse (List.Sublist.refl _) _ (fun _ _ => rfl)
  | get k =>
    simp only [step]
    split
    · exact h.touch (erase_sublist _ _) _ k _ (fun e he => (mem_erase.mp he).2) (fun _ => rfl)
    · rename_i hnone
      exact h.nonuse (List.Sublist.refl _) _
        (fun e he => by simpa [isUse] using (lookup_eq_none.mp hnone e he).symm)
  | put k v =>
    simp only [step]
    split
    · exact h.touch (erase_sublist _ _) _ k v (fun e he => (mem_erase.mp he).2) (fun _ => rfl)
    · rename_i hnone
      have hfull : Recency (ops ++ [Op.put k v]) ((k, v) :: c.items) :=
        h.touch (List.Sublist.refl _) _ k v (lookup_eq_none.mp hnone) (fun _ => rfl)
      split
      · obtain ⟨h1, _⟩ := dropOldest_spec ((k, v) :: c.items)
        have hs := List.sublist_append_left (dropOldest ((k, v) :: c.items)).1 (dropOldest ((k, v) :: c.items)).2
        rw [h1] at hs
        exact hfull.sublist hs
      · exact hfull
  | resize n =>
    simp only [step]
    obtain ⟨h1, _⟩ := evictN_spec
      (if (c.items.length : Int) - n < 0 then 0 else (c.items.length : Int) - n).toNat c.items
    have hs := List.sublist_append_left
      (evictN (if (c.items.length : Int) - n < 0 then 0 else (c.items.length : Int) - n).toNat c.items).1
      (evictN (if (c.items.length : Int) - n < 0 then 0 else (c.items.length : Int) - n).toNat c.items).2.reverse
    rw [h1] at hs
    exact h.nonuse hs _ (fun _ _ => rfl)
  | remove k =>
    simp only [step]
    split
    · exact h.nonuse (erase_sublist _ _) _ (fun _ _ => rfl)
    · exact h.nonuse (List.Sublist.refl _) _ (fun _ _ => rfl)
  | removeOldest =>
    simp only [step]
    split
    · exact h.nonuse (List.dropLast_sublist _) _ (fun _ _ => rfl)
    · exact h.nonuse (List.Sublist.refl _) _ (fun _ _ => rfl)
  | purge => exact ⟨by simp [step], by simp [step]⟩

/-! ### callbacks: conservation of entries -/

/-- the entry a call brings into the cache: `Put` of a key that is not present -/
def incoming (c : Cache) : Op → List (K × V)
  | .put k v => if (lookup c.items k).isNone then [(k, v)] else []
  | _ => []

theorem perm_touch {items : List (K × V)} (hn : (items.map (·.1)).Nodup) {k : K} {v : V}
    (h : lookup items k = some v) : ((k, v) :: erase items k).Perm items := by
  induction items with
  | nil => simp [lookup] at h
  | cons e rest ih =>
    simp only [List.map_cons, List.nodup_cons] at hn
    rw [lookup_cons] at h
    by_cases he : e.1 = k
    · simp only [he, if_true, Option.some.injEq] at h
      have hrest : erase rest k = rest := erase_of_absent (fun x hx hk =>
        hn.1 (by rw [he, ← hk]; exact List.mem_map_of_mem (f := (·.1)) hx))
      have : erase (e :: rest) k = erase rest k := by
        unfold erase; simp [he]
      rw [this, hrest]
      have : e = (k, v) := by cases e; simp_all
      rw [this]
    · simp only [he, if_false] at h
      have : erase (e :: rest) k = e :: erase rest k := by
        unfold erase; simp [he]
      rw [this]
      exact (List.Perm.swap e (k, v) _).trans ((ih hn.2 h).cons e)

theorem step_conserves (c : Cache) (op : Op) (hn : KeysNodup c) :
    (((step c op).2.2.map (·.1)) ++ ((step c op).1.items.map (·.1))).Perm
      (((incoming c op).map (·.1)) ++ (c.items.map (·.1))) := by
  unfold KeysNodup at hn
  cases op with
  | len => exact List.Perm.refl _
  | cap => exact List.Perm.refl _
  | contains k => exact List.Perm.refl _
  | peek k => exact List.Perm.refl _
  | getOldest => exact List.Perm.refl _
  | keys => exact List.Perm.refl _
  | get k =>
    simp only [step, incoming]
    split
    · rename_i v hv
      simpa using (perm_touch hn hv).map (·.1)
    · exact List.Perm.refl _
  | put k v =>
    simp only [step, incoming]
    split
    · rename_i v' hv
      have := (perm_touch hn hv).map (·.1)
      simpa [hv] using this
    · rename_i hnone
      simp only [hnone, Option.isNone_none, if_true]
      split
      · obtain ⟨h1, _⟩ := dropOldest_spec ((k, v) :: c.items)
        generalize dropOldest ((k, v) :: c.items) = r at h1
        have h2 : (r.2 ++ r.1).Perm ((k, v) :: c.items) := by
          have h3 : (r.2 ++ r.1).Perm (r.1 ++ r.2) := List.perm_append_comm
          rw [h1] at h3
          exact h3
        simpa using h2.map (·.1)
      · exact List.Perm.refl _
  | resize n =>
    simp only [step, incoming]
    obtain ⟨h1, _⟩ := evictN_spec
      (if (c.items.length : Int) - n < 0 then 0 else (c.items.length : Int) - n).toNat c.items
    generalize evictN (if (c.items.length : Int) - n < 0 then 0 else (c.items.length : Int) - n).toNat c.items = r at h1
    have h2 : (r.2 ++ r.1).Perm c.items := by
      have h3 : (r.2 ++ r.1).Perm (r.1 ++ r.2.reverse) :=
        List.perm_append_comm.trans (List.Perm.append_left _ (List.reverse_perm _).symm)
      rw [h1] at h3
      exact h3
    simpa using h2.map (·.1)
  | remove k =>
    simp only [step, incoming]
    split
    · rename_i v hv
      simpa using (perm_touch hn hv).map (·.1)
    · exact List.Perm.refl _
  | removeOldest =>
    simp only [step, incoming]
    split
    · rename_i e he
      obtain ⟨ys, hys⟩ := List.getLast?_eq_some_iff.mp he
      rw [hys]
      simp only [List.dropLast_concat, List.map_cons, List.map_nil, List.nil_append, List.map_append]
      exact (List.perm_append_singleton _ _).symm
    · exact List.Perm.refl _
  | purge => simp [step, incoming]

/-- every reported entry is an entry the cache held (or was just given), key and stored value -/
theorem step_left_mem (c : Cache) (op : Op) :
    ∀ e ∈ (step c op).2.2, e ∈ incoming c op ++ c.items := by
  cases op with
  | len => simp [step]
  | cap => simp [step]
  | contains k => simp [step]
  | peek k => simp [step]
  | getOldest => simp [step]
  | keys => simp [step]
  | get k => simp only [step]; split <;> simp
  | put k v =>
    simp only [step, incoming]
    split
    · simp
    · rename_i hnone
      simp only [hnone, Option.isNone_none, if_true]
      split
      · obtain ⟨h1, _⟩ := dropOldest_spec ((k, v) :: c.items)
        intro e he
        have : e ∈ (dropOldest ((k, v) :: c.items)).1 ++ (dropOldest ((k, v) :: c.items)).2 :=
          List.mem_append_right _ he
        rw [h1] at this
        simpa using this
      · simp
  | resize n =>
    simp only [step, incoming]
    obtain ⟨h1, _⟩ := evictN_spec
      (if (c.items.length : Int) - n < 0 then 0 else (c.items.length : Int) - n).toNat c.items
    generalize evictN (if (c.items.length : Int) - n < 0 then 0 else (c.items.length : Int) - n).toNat c.items = r at h1
    intro e he
    have : e ∈ r.1 ++ r.2.reverse := List.mem_append_right _ (List.mem_reverse.mpr he)
    rw [h1] at this
    simpa using this
  | remove k =>
    simp only [step, incoming]
    split
    · rename_i v hv
      intro e he
      simp only [List.mem_singleton] at he
      subst he
      simpa using lookup_eq_some hv
    · simp
  | removeOldest =>
    simp only [step, incoming]
    split
    · rename_i e he
      intro e' he'
      simp only [List.mem_singleton] at he'
      subst he'
      simpa using List.mem_of_getLast? he
    · simp
  | purge => simp [step, incoming]

/-! ### reachable states -/

theorem run_append (c : Cache) (ops : List Op) (op : Op) :
    run c (ops ++ [op]) = (step (run c ops) op).1 := by
  simp [run, List.foldl_append]

theorem run_cons (c : Cache) (op : Op) (ops : List Op) : run c (op :: ops) = run (step c op).1 ops := rfl

theorem run_inv (pre : List Op) (c : Cache) (ops : List Op)
    (h : Bounded c ∧ KeysNodup c ∧ Recency pre c.items) :
    Bounded (run c ops) ∧ KeysNodup (run c ops) ∧ Recency (pre ++ ops) (run c ops).items := by
  induction ops generalizing pre c with
  | nil => simpa [run] using h
  | cons op rest ih =>
    rw [run_cons]
    have := ih (pre ++ [op]) (step c op).1
      ⟨step_bounded c op h.1, step_keysNodup c op h.2.1, step_recency pre c op h.2.2⟩
    simpa [List.append_assoc] using this

theorem new_inv {size : Int} {cb : Bool} {c : Cache} (h : new size cb = some c) :
    c.items = [] ∧ c.cap = size ∧ 0 < size ∧ c.cb = cb := by
  unfold new at h
  split at h
  · cases h
  · cases h; simp; omega

/-- everything reachable from `NewCache` is bounded, has distinct keys and is ordered by last use -/
theorem reach_inv {size : Int} {cb : Bool} {c0 : Cache} (h : new size cb = some c0) (ops : List Op) :
    Bounded (run c0 ops) ∧ KeysNodup (run c0 ops) ∧ Recency ops (run c0 ops).items := by
  obtain ⟨h1, h2, h3, _⟩ := new_inv h
  have := run_inv [] c0 ops ⟨by unfold Bounded; rw [h1]; simp; omega, by unfold KeysNodup; rw [h1]; simp,
    by rw [h1]; exact ⟨List.Pairwise.nil, by simp⟩⟩
  simpa using this

end Fatchoy.C13
