/-
C11, structural skip list S: `GetElementByRank` through the spans, and the cut of the chain by a
condition on the position.
-/
import Fatchoy.Lemmas.C11SDelete3
namespace Fatchoy.C11.S

/-- a condition on the position that holds exactly on the positions ≤ k cuts the chain into
  `take k` / `drop k` -/
theorem cut_pos {s : SList} {l : List Nat} (c : SNode → Int → Bool) (k : Nat) (hk : k ≤ l.length)
    (hlo : ∀ (n : SNode) (q : Nat), 1 ≤ q → q ≤ k → c n (q : Int) = true)
    (hhi : ∀ (n : SNode) (q : Nat), k < q → q ≤ l.length → c n (q : Int) = false) :
    Cut s c (l.take k) (l.drop k) := by
  have hAl : (l.take k).length = k := by rw [List.length_take]; omega
  constructor
  · intro P f Q hs hP
    apply hlo
    · cases P with
      | nil => exact absurd rfl hP
      | cons _ _ => simp
    · have := congrArg List.length hs
      simp only [List.length_cons, List.length_append, hAl] at this
      omega
  · intro P b Q hB
    have := congrArg List.length hB
    simp only [List.length_drop, List.length_append, List.length_cons] at this
    apply hhi
    · rw [hAl]; omega
    · rw [hAl]; omega

/-- the pointer `GetElementByRank(rank)` must return: position `rank` of `header :: chain` -/
def ptrAt (l : List Nat) (rank : Int) : Option Nat := if rank < 0 then none else (0 :: l)[rank.toNat]?

theorem getElementByRank_ptr {s : SList} {l : List Nat} (hI : Inv s l) (rank : Int) :
    getElementByRank s rank = some (ptrAt l rank) := by
  let k := min l.length rank.toNat
  let A := l.take k
  let B := l.drop k
  have hl : l = A ++ B := (List.take_append_drop k l).symm
  have hkd : k = min l.length rank.toNat := rfl
  have hAl : A.length = k := by simp only [A, List.length_take]; omega
  have hc : Cut s (fun _ q => decide (q ≤ rank)) A B := by
    apply cut_pos _ k (Nat.min_le_left _ _)
    · intro _ q h1 h2; simp only [decide_eq_true_eq]; omega
    · intro _ q h1 h2; simp only [decide_eq_false_iff_not]; omega
  have hidx : ∀ p y suf, 0 :: A = p ++ y :: suf → (0 :: l)[p.length]? = some y := by
    intro p y suf hs
    have : 0 :: l = p ++ y :: (suf ++ B) := by rw [hl, ← List.cons_append, hs]; simp
    rw [this]; simp
  have key : ∀ n, n ≤ s.level → ∀ pre x suf, 0 :: A = pre ++ x :: suf → n ≤ height s x →
      (n = 0 → suf = [] ∧ (pre.length : Int) ≠ rank) →
      byRankLoop s rank n x (pre.length : Int) = some (ptrAt l rank) := by
    intro n
    induction n with
    | zero =>
      intro _ pre x suf hs _ h0
      obtain ⟨hsuf, hne⟩ := h0 rfl
      subst hsuf
      simp only [byRankLoop]
      have hlen : pre.length = A.length := by
        have := congrArg List.length hs
        simp only [List.length_cons, List.length_append, List.length_nil] at this
        omega
      unfold ptrAt
      by_cases hr : rank < 0
      · rw [if_pos hr]
      · rw [if_neg hr, List.getElem?_eq_none]
        simp only [List.length_cons]
        rw [hlen, hAl] at hne
        omega
    | succ n ih =>
      intro hn pre x suf hs hx _
      have hfuel : suf.length < s.nodes.length := by
        have h1 := congrArg List.length hs
        have h2 := congrArg List.length hl
        have := hI.room
        simp only [List.length_cons, List.length_append] at h1 h2
        omega
      obtain ⟨y, r, hw, hu⟩ := walk_spec hI hl hc n (by omega) s.nodes.length pre x suf hs (by omega) hfuel
      obtain ⟨p', suf', hs', hy, hnone, hr⟩ := hu
      subst hr
      unfold byRankLoop
      rw [hw]
      simp only []
      by_cases heq : (p'.length : Int) = rank
      · rw [if_pos (by simpa using heq)]
        unfold ptrAt
        have hr0 : ¬ rank < 0 := by omega
        have : rank.toNat = p'.length := by omega
        rw [if_neg hr0, this, hidx p' y suf' hs']
      · rw [if_neg (by simpa using heq)]
        apply ih (by omega) p' y suf' hs' (by omega)
        intro hn0
        subst hn0
        exact ⟨suf_nil_of_level0 hI hl hs' hnone, heq⟩
  unfold getElementByRank
  have := key s.level (Nat.le_refl _) [] 0 A rfl hI.level_le (fun h0 => by have := hI.level_pos; omega)
  simpa using this

/-- … and that pointer is what layer L answers -/
theorem ptrAt_L {s : SList} {l : List Nat} (hI : Inv s l) (rank : Int) :
    L.getElementByRank (abs s) rank =
      match ptrAt l rank with
      | none => L.ByRank.none
      | some 0 => L.ByRank.head
      | some (x + 1) => L.ByRank.node (nodeOf s (x + 1)) := by
  unfold L.getElementByRank ptrAt
  by_cases hr : rank < 0
  · simp [hr]
  · simp only [hr, if_false]
    by_cases h0 : rank = 0
    · subst h0; simp
    · have hb : (rank == 0) = false := by simpa using h0
      simp only [hb, Bool.false_eq_true, if_false]
      have hpos : rank.toNat = (rank.toNat - 1) + 1 := by omega
      rw [hpos, List.getElem?_cons_succ, hI.abs_eq, List.getElem?_map]
      simp only [Nat.add_sub_cancel]
      cases hx : l[rank.toNat - 1]? with
      | none => rfl
      | some x =>
        have hm : x ∈ l := List.mem_of_getElem? hx
        have hx0 : x ≠ 0 := hI.ne_zero hm
        obtain ⟨x', rfl⟩ : ∃ x', x = x' + 1 := ⟨x - 1, by omega⟩
        rfl

end Fatchoy.C11.S
