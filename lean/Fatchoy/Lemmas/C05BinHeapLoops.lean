/-
C05 helper lemmas: the structural binary heap, part 2: the loops `up` and `down` (functional induction over the
well-founded definitions) keep the heap order around the moving hole; what every Swap-invariant property keeps.
-/
import Fatchoy.Lemmas.C05BinHeap
namespace Fatchoy.C05

theorem key_bswap_fun (a : BHeap) (i j : Nat) (hi : i < a.size) (hj : j < a.size) :
    key (bswap a i j hi hj) = swapF (key a) i j := by
  funext k; rw [key_bswap]; rfl

theorem bchild_spec (a : BHeap) (j1 n : Nat) (h1 : j1 < n) (hn : n ≤ a.size) :
    (bchild a j1 n h1 hn = j1 ∨ bchild a j1 n h1 hn = j1 + 1) ∧
    LE (key a (bchild a j1 n h1 hn)) (key a j1) ∧ (j1 + 1 < n → LE (key a (bchild a j1 n h1 hn)) (key a (j1 + 1))) := by
  unfold bchild
  split
  · rename_i h2
    split
    · rename_i h3
      rw [key_eq, key_eq] at h3
      exact ⟨Or.inr rfl, LE_of_less h3, fun _ => LE_refl _⟩
    · rename_i h3
      rw [key_eq, key_eq] at h3
      exact ⟨Or.inl rfl, LE_refl _, fun _ => by simpa [LE] using h3⟩
  · exact ⟨Or.inl rfl, LE_refl _, fun h => absurd h (by assumption)⟩

theorem bchild_min (a : BHeap) (i n : Nat) (h1 : 2 * i + 1 < n) (hn : n ≤ a.size) :
    ∀ k, 0 < k → k < n → (k - 1) / 2 = i → LE (key a (bchild a (2 * i + 1) n h1 hn)) (key a k) := by
  intro k hk hkn hpar
  obtain ⟨_, h2, h3⟩ := bchild_spec a (2 * i + 1) n h1 hn
  have : k = 2 * i + 1 ∨ k = 2 * i + 1 + 1 := by omega
  rcases this with rfl | rfl
  · exact h2
  · exact h3 hkn

theorem bdown_ge (a : BHeap) (i n : Nat) (hn : n ≤ a.size) : i ≤ (bdown a i n hn).2 := by
  fun_induction bdown a i n hn with
  | case1 a i hn j1 h1 => simp
  | case2 a i hn j1 h1 j hj hl => simp
  | case3 a i hn j1 h1 j hj hl ih =>
    have hge : 2 * i + 1 ≤ j := bchild_ge a (2 * i + 1) n (by omega) hn
    omega

theorem bdown_ord (a : BHeap) (i n : Nat) (hn : n ≤ a.size) (h : Hole (key a) i n) (hp : ParentOK (key a) i) :
    Ord (key (bdown a i n hn).1) n := by
  fun_induction bdown a i n hn with
  | case1 a i hn j1 h1 => exact ord_of_hole h hp (fun k hk hkn hpar => by omega)
  | case2 a i hn j1 h1 j hj hl =>
    refine ord_of_hole h hp (fun k hk hkn hpar => ?_)
    have hm := bchild_min a i n (by omega) hn k hk hkn hpar
    rw [key_eq, key_eq] at hl
    exact LE_trans (by simpa [LE] using hl) hm
  | case3 a i hn j1 h1 j hj hl ih =>
    rw [key_eq, key_eq] at hl
    have hs : j = 2 * i + 1 ∨ j = 2 * i + 1 + 1 := (bchild_spec a (2 * i + 1) n (by omega) hn).1
    have := down_step (j := j) h hj (by omega) (by omega)
      (bchild_min a i n (by omega) hn) (by simpa using hl)
    rw [← key_bswap_fun a i j (by omega) (by omega)] at this
    exact ih this.1 this.2

/-- `down` from a hole without a parent guarantee (Fix / Remove): either it moved and the heap order holds, or
nothing changed and the children of `i` are in order (then `up` finishes) -/
theorem bdown_fix (a : BHeap) (i n : Nat) (hn : n ≤ a.size) (h : Hole (key a) i n) :
    ((bdown a i n hn).2 > i → Ord (key (bdown a i n hn).1) n) ∧
    (¬ (bdown a i n hn).2 > i → (bdown a i n hn).1 = a ∧ ChildrenOK (key a) i n) := by
  rw [bdown]
  simp only
  split
  · rename_i h1
    exact ⟨fun h => absurd h (by simp), fun _ => ⟨rfl, fun k hk hkn hpar => by omega⟩⟩
  · rename_i h1
    split
    · rename_i hl
      refine ⟨fun h => absurd h (by simp), fun _ => ⟨rfl, fun k hk hkn hpar => ?_⟩⟩
      have hm := bchild_min a i n (by omega) hn k hk hkn hpar
      rw [key_eq, key_eq] at hl
      exact LE_trans (by simpa [LE] using hl) hm
    · rename_i hl
      rw [key_eq, key_eq] at hl
      have hj := bchild_lt a (2 * i + 1) n (by omega) hn
      have hs := (bchild_spec a (2 * i + 1) n (by omega) hn).1
      have hge := bdown_ge (bswap a i (bchild a (2 * i + 1) n (by omega) hn) (by omega) (by omega))
        (bchild a (2 * i + 1) n (by omega) hn) n (by simp; omega)
      have := down_step (j := bchild a (2 * i + 1) n (by omega) hn) h hj (by omega) (by omega)
        (bchild_min a i n (by omega) hn) (by simpa using hl)
      rw [← key_bswap_fun a i _ (by omega) (by omega)] at this
      exact ⟨fun _ => bdown_ord _ _ _ _ this.1 this.2, fun hh => absurd hh (by omega)⟩

theorem bup_ord (a : BHeap) (j : Nat) (hj : j < a.size) (n : Nat) (hjn : j < n) (h : Hole (key a) j n)
    (hc : ChildrenOK (key a) j n) : Ord (key (bup a j hj)) n := by
  fun_induction bup a j hj with
  | case1 a j hj i hstop =>
    refine ord_of_hole h (fun h0 => ?_) hc
    rcases hstop with h1 | h1
    · omega
    · rw [key_eq, key_eq] at h1
      simpa [LE] using h1
  | case2 a j hj i hgo ih =>
    have h0 : 0 < j := by omega
    have hl : hless (key a j) (key a ((j - 1) / 2)) = true := by
      have := hgo
      rw [key_eq, key_eq] at this
      simp only [not_or, Decidable.not_not] at this
      exact this.2
    have := up_step h hc hjn h0 hl
    rw [← key_bswap_fun a _ j (by omega) hj] at this
    exact ih (by omega) this.1 this.2

/-! ### what every `Swap`-invariant property keeps through `up` and `down` -/

theorem bup_ind (P : BHeap → Prop) (m : Nat) (hP : ∀ a i j hi hj, i ≤ m → j ≤ m → P a → P (bswap a i j hi hj))
    (a : BHeap) (j : Nat) (hj : j < a.size) (hjm : j ≤ m) (h : P a) : P (bup a j hj) := by
  fun_induction bup a j hj with
  | case1 a j hj i hstop => exact h
  | case2 a j hj i hgo ih => exact ih (by omega) (hP _ _ _ _ _ (by omega) hjm h)

theorem bdown_ind (P : BHeap → Prop) (n : Nat) (hP : ∀ a i j hi hj, i < n → j < n → P a → P (bswap a i j hi hj))
    (a : BHeap) (i : Nat) (hn : n ≤ a.size) (h : P a) : P (bdown a i n hn).1 := by
  fun_induction bdown a i n hn with
  | case1 a i hn j1 h1 => exact h
  | case2 a i hn j1 h1 j hj hl => exact h
  | case3 a i hn j1 h1 j hj hl ih =>
    have hge : 2 * i + 1 ≤ j := bchild_ge a (2 * i + 1) n (by omega) hn
    exact ih (hP _ _ _ _ _ (by omega) hj h)

theorem bup_size (a : BHeap) (j : Nat) (hj : j < a.size) : (bup a j hj).size = a.size :=
  bup_ind (fun b => b.size = a.size) j (fun _ _ _ _ _ _ _ h => by simpa using h) a j hj (Nat.le_refl _) rfl

def keys (a : BHeap) : List HNode := a.toList.map (·.n)

theorem keys_bswap (a : BHeap) (i j : Nat) (hi : i < a.size) (hj : j < a.size) : (keys (bswap a i j hi hj)).Perm (keys a) := by
  have h1 : keys (bswap a i j hi hj) = keys (a.swap i j) := by
    apply List.ext_getElem
    · simp [keys, bswap]
    · intro k h1 h2
      simp only [keys, List.getElem_map, Array.getElem_toList]
      simp only [keys, List.length_map, Array.length_toList] at h1 h2
      rw [key_eq _ _ h1, key_eq _ _ h2]
      unfold key bswap
      grind
  rw [h1]
  exact (Array.swap_perm hi hj).toList.map _

end Fatchoy.C05
