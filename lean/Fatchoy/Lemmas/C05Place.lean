/-
C05 helper lemmas, part 1: the placement arithmetic of the hashed hierarchical wheel for the literal
geometry 8+6+6+6+6 on a 32-bit position (what `Valid` demands of the regenerated constants).
`p` = unwrapped position, `e` = unwrapped expiry tick.
-/
import Fatchoy.Model.C05Sched
namespace Fatchoy.C05

/-- span of one slot of level k (k = 1..4) -/
def B : Nat → Nat
  | 1 => 256
  | 2 => 16384
  | 3 => 1048576
  | _ => 67108864

/-- a node expiring at `e` sits in bucket (level, slot) correctly, seen from position `p`:
near wheel: due within 256 ticks, slot = low bits of e; level k: the cascade point ⌊e/B⌋·B of its slot
is still ahead; clamped (remaining delay ≥ 2^32, parked in the last level): some cascade point q of its
slot lies ahead and not past the expiry — the node is looked at again there -/
def SlotOK (p e level slot : Nat) : Prop :=
  (level = 0 ∧ p ≤ e ∧ e - p < 256 ∧ slot = e % 256) ∨
  (1 ≤ level ∧ level ≤ 4 ∧ p < e / B level * B level ∧ slot = e / B level % 64) ∨
  (level = 4 ∧ ∃ q, p < q ∧ q ≤ e ∧ q % 67108864 = 0 ∧ slot = q / 67108864 % 64)

theorem place_lit (c cur ticks : Nat) :
    place (litGeom c) cur ticks =
      (let t := if ticks > 4294967295 then 4294967295 else ticks
       let idx := (cur + t) % 4294967296
       if t < 256 then (0, idx / 1 % 256)
       else if t < 16384 then (1, idx / 256 % 64)
       else if t < 1048576 then (2, idx / 16384 % 64)
       else if t < 67108864 then (3, idx / 1048576 % 64)
       else (4, idx / 67108864 % 64)) := rfl

/-- placement establishes the invariant from any position not past the expiry, for ANY remaining delay -/
theorem place_ok (c p e : Nat) (h1 : p ≤ e) :
    SlotOK p e (place (litGeom c) (p % 4294967296) (e - p)).1 (place (litGeom c) (p % 4294967296) (e - p)).2 := by
  rw [place_lit]
  by_cases hc : e - p > 4294967295
  · simp only [hc, if_true]
    unfold SlotOK
    right; right
    simp only [show ¬ (4294967295 < 256) by omega, show ¬ (4294967295 < 16384) by omega,
      show ¬ (4294967295 < 1048576) by omega, show ¬ (4294967295 < 67108864) by omega, if_false, true_and]
    exact ⟨(p + 4294967295) / 67108864 * 67108864, by omega, by omega, by omega, by omega⟩
  · simp only [hc, if_false, Nat.div_one]
    unfold SlotOK
    by_cases c0 : e - p < 256
    · simp only [c0, if_true]; left; simp only [true_and]; omega
    · by_cases c1 : e - p < 16384
      · simp only [c0, c1, if_true, if_false, B]; right; left; simp; omega
      · by_cases c2 : e - p < 1048576
        · simp only [c0, c1, c2, if_true, if_false, B]; right; left; simp; omega
        · by_cases c3 : e - p < 67108864
          · simp only [c0, c1, c2, c3, if_true, if_false, B]; right; left; simp; omega
          · simp only [c0, c1, c2, c3, if_false, B]; right; left; simp; omega

theorem slotOK_le (h : SlotOK p e l s) : p ≤ e := by
  rcases h with ⟨_, h1, _, _⟩ | ⟨_, _, h2, _⟩ | ⟨_, q, h1, h2, _, _⟩
  · exact h1
  · have : e / B l * B l ≤ e := Nat.div_mul_le_self _ _
    omega
  · omega

/-- a node is due exactly when it sits in the near slot that comes up -/
theorem due_iff (h : SlotOK p e l s) : (l = 0 ∧ s = p % 256) ↔ e = p := by
  constructor
  · rintro ⟨hl, hs⟩
    rcases h with ⟨_, h1, h2, h3⟩ | ⟨h0, _, _, _⟩ | ⟨h0, _⟩ <;> omega
  · intro he
    rcases h with ⟨h0, h1, h2, h3⟩ | ⟨h0, h1, h2, h3⟩ | ⟨_, q, h1, h2, _, _⟩
    · exact ⟨h0, by omega⟩
    · have : e / B l * B l ≤ e := Nat.div_mul_le_self _ _
      omega
    · omega

end Fatchoy.C05
