/-
C10 helper lemmas, part 9: several live iterators.  Invariant of the slot table: every iterator's expected
version is at most the map's; an iterator whose expected version IS the map's ("fresh") stands at a position of
the current listing (`PosOK`).  A structural change by anybody else makes it stale for good.
-/
import Fatchoy.Lemmas.C10Iter
import Fatchoy.Model.C10Multi
namespace Fatchoy.C10

theorem getIt_setIt_same (its : List (Nat × Iter)) (s : Nat) (it : Iter) : getIt (setIt its s it) s = some it := by
  simp [getIt, setIt]

theorem getIt_setIt_other (its : List (Nat × Iter)) {s t : Nat} (it : Iter) (h : t ≠ s) :
    getIt (setIt its s it) t = getIt its t := by
  have h' : (s == t) = false := by simp; exact fun e => h e.symm
  simp only [getIt, setIt, List.find?_cons, h']
  congr 1
  induction its with
  | nil => rfl
  | cons p rest ih =>
    by_cases hp : p.1 = s
    · have h1 : (p.1 != s) = false := by simp [hp]
      have h2 : (p.1 == t) = false := by simp; omega
      simp only [List.filter_cons, h1, List.find?_cons, h2, Bool.false_eq_true, if_false]
      exact ih
    · have : (p.1 != s) = true := by simp [hp]
      simp only [List.filter_cons, this, if_true, List.find?_cons]
      rw [ih]

/-- position of an iterator in the listing `L`: after `Next` returned `j` the cursor is on the neighbour of `j`
in the iterator's direction; before any `Next` (or after its own `Remove`) the cursor is on an entry or at the end -/
def PosOK (L : List Entry) (it : Iter) : Prop :=
  match it.last with
  | some j => ∃ A v B, L = A ++ (j, v) :: B ∧
      it.next = (if it.kind.descending then A.getLast? else B.head?).map (·.1)
  | none => it.next = none ∨ ∃ A k v B, L = A ++ (k, v) :: B ∧ it.next = some k

def MInv (st : MState) : Prop :=
  MapOK st.m ∧ ∀ s it, getIt st.iters s = some it →
    it.expVer ≤ st.m.version ∧ (it.expVer = st.m.version → PosOK (toList st.m.root) it)

theorem MInv_empty : MInv MState.empty := ⟨MapOK_empty, fun s it h => by simp [MState.empty, getIt] at h⟩

theorem getLast?_split {A : List Entry} {e : Entry} (h : A.getLast? = some e) : ∃ A', A = A' ++ [e] :=
  List.getLast?_eq_some_iff.mp h

theorem head?_split {B : List Entry} {e : Entry} (h : B.head? = some e) : ∃ B', B = e :: B' := by
  cases B with
  | nil => simp at h
  | cons b B' => simp at h; exact ⟨B', by rw [h]⟩

/-- an optional neighbour is the end or an entry of the listing `A ++ B` -/
theorem pos_of_neighbour (A B : List Entry) (d : Bool) :
    (if d then A.getLast? else B.head?).map (·.1) = none ∨
    ∃ A' k v B', A ++ B = A' ++ (k, v) :: B' ∧ (if d then A.getLast? else B.head?).map (·.1) = some k := by
  cases d with
  | true =>
    simp only [if_true]
    cases h : A.getLast? with
    | none => exact .inl rfl
    | some e =>
      obtain ⟨A', rfl⟩ := getLast?_split h
      exact .inr ⟨A', e.1, e.2, B, by simp, rfl⟩
  | false =>
    simp only [Bool.false_eq_true, if_false]
    cases h : B.head? with
    | none => exact .inl rfl
    | some e =>
      obtain ⟨B', rfl⟩ := head?_split h
      exact .inr ⟨A, e.1, e.2, B', rfl, rfl⟩

theorem PosOK_iterNew (m : Map) (kind : IterKind) : PosOK (toList m.root) (iterNew m kind) := by
  have := pos_of_neighbour (toList m.root) (toList m.root) kind.descending
  simp only [PosOK, iterNew]
  cases hk : kind.descending
  · simp only [hk, Bool.false_eq_true, if_false] at this ⊢
    rw [firstEntry_spec]
    rcases pos_of_neighbour [] (toList m.root) false with h | h
    · exact .inl (by simpa using h)
    · exact .inr (by simpa using h)
  · simp only [if_true] at this ⊢
    rw [lastEntry_spec]
    rcases pos_of_neighbour (toList m.root) [] true with h | h
    · exact .inl (by simpa using h)
    · exact .inr (by simpa using h)

/-- the cursor of a positioned iterator is on an entry of the listing -/
theorem pos_split {L : List Entry} {it : Iter} (h : PosOK L it) {k : Nat} (hn : it.next = some k) :
    ∃ A v B, L = A ++ (k, v) :: B := by
  unfold PosOK at h
  cases hl : it.last with
  | none =>
    rw [hl] at h
    rcases h with h | ⟨A, k', v, B, h1, h2⟩
    · rw [h] at hn; cases hn
    · rw [hn] at h2; cases h2; exact ⟨A, v, B, h1⟩
  | some j =>
    rw [hl] at h
    obtain ⟨A, v, B, h1, h2⟩ := h
    rw [hn] at h2
    cases hd : it.kind.descending
    · rw [hd] at h2
      simp only [Bool.false_eq_true, if_false] at h2
      cases hb : B.head? with
      | none => rw [hb] at h2; cases h2
      | some e =>
        rw [hb] at h2
        obtain ⟨B', rfl⟩ := head?_split hb
        simp at h2
        exact ⟨A ++ [(j, v)], e.2, B', by rw [h1, h2]; simp⟩
    · rw [hd] at h2
      simp only [if_true] at h2
      cases ha : A.getLast? with
      | none => rw [ha] at h2; cases h2
      | some e =>
        rw [ha] at h2
        obtain ⟨A', rfl⟩ := getLast?_split ha
        simp at h2
        exact ⟨A', e.2, (j, v) :: B, by rw [h1, h2]; simp⟩

/-- `Next` on a fresh, positioned iterator: "no such element" at the end, otherwise the entry under the cursor -/
theorem fresh_next (m : Map) (hm : MapOK m) (it : Iter) (hv : it.expVer = m.version) (hp : PosOK (toList m.root) it) :
    (it.next = none ∧ iterNext m it = .error .noSuchElement) ∨
    ∃ it' k v, iterNext m it = .ok (it', (k, v)) ∧ it.next = some k ∧ (k, v) ∈ toList m.root ∧
      it'.expVer = it.expVer ∧ it'.kind = it.kind ∧ it'.last = some k ∧ PosOK (toList m.root) it' := by
  cases hn : it.next with
  | none => exact .inl ⟨rfl, by simp [iterNext, hn]⟩
  | some k =>
    right
    obtain ⟨A, v, B, h⟩ := pos_split hp hn
    cases hd : it.kind.descending
    · have := iterNext_asc m it hm.1 h hn hv hd
      exact ⟨_, k, v, this, rfl, by rw [h]; simp, rfl, rfl, rfl, by
        simp only [PosOK]; exact ⟨A, v, B, h, by simp [hd]⟩⟩
    · have := iterNext_desc m it hm.1 h hn hv hd
      exact ⟨_, k, v, this, rfl, by rw [h]; simp, rfl, rfl, rfl, by
        simp only [PosOK]; exact ⟨A, v, B, h, by simp [hd]⟩⟩

/-- `Remove` on a fresh, positioned iterator: "illegal state" when there is nothing to remove, otherwise it is
`Map.Remove(lastReturned.key)` of a present key, and the iterator is fresh and positioned again -/
theorem fresh_remove (P : Params) (hP : Valid P) (m : Map) (hm : MapOK m) (it : Iter) (hv : it.expVer = m.version)
    (hp : PosOK (toList m.root) it) :
    (it.last = none ∧ iterRemove P m it = .error .illegalState) ∨
    ∃ k it', it.last = some k ∧ iterRemove P m it = .ok ((remove m k).1, it') ∧
      (remove m k).1.version = m.version + 1 ∧ it'.expVer = m.version + 1 ∧ it'.kind = it.kind ∧
      (lookupS k (toList m.root)).isSome = true ∧
      PosOK (toList (remove m k).1.root) it' ∧ MapOK (remove m k).1 := by
  cases hl : it.last with
  | none => exact .inl ⟨rfl, by simp [iterRemove, hl]⟩
  | some j =>
    right
    have hp' := hp
    unfold PosOK at hp'
    rw [hl] at hp'
    obtain ⟨A, v, B, h, hn⟩ := hp'
    obtain ⟨hrm, hver⟩ := iterRemove_spec P hP m it hm.1 h hl hv (by rw [hn]; split <;> rfl)
    have hs := hm.1
    rw [h] at hs
    obtain ⟨_, _, hA, hB, _⟩ := sorted_mid.mp hs
    obtain ⟨r1, _, r3⟩ := remove_refines m j hm
    rw [h, eraseS_present hA hB] at r1
    refine ⟨j, _, rfl, hrm, hver, by simp [hver], rfl, by rw [h, lookupS_present hA]; rfl, ?_, r3⟩
    rw [r1]
    simp only [PosOK]
    rw [hn]
    exact pos_of_neighbour A B it.kind.descending

theorem iterRemove_ok_fresh {P : Params} {m : Map} {it : Iter} {r : Map × Iter} (h : iterRemove P m it = .ok r) :
    it.expVer = m.version := by
  unfold iterRemove at h
  cases hl : it.last with
  | none => rw [hl] at h; cases h
  | some k =>
    rw [hl] at h
    by_cases hv : it.expVer = m.version
    · exact hv
    · simp [hv] at h

theorem iterNext_ok_fresh {m : Map} {it : Iter} {r : Iter × Entry} (h : iterNext m it = .ok r) :
    it.expVer = m.version := by
  unfold iterNext at h
  cases hl : it.next with
  | none => rw [hl] at h; cases h
  | some k =>
    rw [hl] at h
    by_cases hv : it.expVer = m.version
    · exact hv
    · simp [hv] at h

/-! ### operations that do not change the key set keep every position -/

theorem PosOK_of_keys {L L' : List Entry} (hk : L'.map (·.1) = L.map (·.1)) {it : Iter} (h : PosOK L it) :
    PosOK L' it := by
  have split : ∀ {A : List Entry} {k : Nat} {v : Int} {B : List Entry}, L = A ++ (k, v) :: B →
      ∃ A' v' B', L' = A' ++ (k, v') :: B' ∧ A'.map (·.1) = A.map (·.1) ∧ B'.map (·.1) = B.map (·.1) := by
    intro A k v B hL
    rw [hL, List.map_append, List.map_cons] at hk
    obtain ⟨A', R, h1, h2, h3⟩ := List.map_eq_append_iff.mp hk
    obtain ⟨e, B', h4, h5, h6⟩ := List.map_eq_cons_iff.mp h3
    refine ⟨A', e.2, B', ?_, h2, h6⟩
    rw [h1, h4]
    simp only at h5
    rw [← h5]
  unfold PosOK at h ⊢
  cases hl : it.last with
  | none =>
    rw [hl] at h
    rcases h with h | ⟨A, k, v, B, h1, h2⟩
    · exact .inl h
    · obtain ⟨A', v', B', e1, _, _⟩ := split h1
      exact .inr ⟨A', k, v', B', e1, h2⟩
  | some j =>
    rw [hl] at h
    obtain ⟨A, v, B, h1, h2⟩ := h
    obtain ⟨A', v', B', e1, e2, e3⟩ := split h1
    refine ⟨A', v', B', e1, ?_⟩
    rw [h2]
    cases it.kind.descending
    · simp only [Bool.false_eq_true, if_false]
      rw [← List.head?_map, ← List.head?_map, e3]
    · simp only [if_true]
      rw [← List.getLast?_map, ← List.getLast?_map, e2]

theorem nonstructural_keys (P : Params) (m : Map) (hm : MapOK m) (op : Op)
    (h : structural (toList m.root) op = false) :
    (toList (step P m op).1.root).map (·.1) = (toList m.root).map (·.1) := by
  rw [(step_refines P m op hm).2.1]
  cases op <;> simp only [specStep] <;> simp only [structural] at h
  case put k v =>
    cases hl : lookupS k (toList m.root) with
    | none => rw [hl] at h; simp at h
    | some old =>
      unfold lookupS at hl
      cases hf : (toList m.root).find? (fun e => e.1 == k) with
      | none => rw [hf] at hl; cases hl
      | some e =>
        obtain ⟨he, A, B, hL, _⟩ := List.find?_eq_some_iff_append.mp hf
        have hek : e.1 = k := by simpa using he
        have hs := hm.1
        rw [hL] at hs ⊢
        obtain ⟨k', w⟩ := e
        simp only at hek
        subst hek
        obtain ⟨_, _, hA, _, _⟩ := sorted_mid.mp hs
        rw [insertS_replace hA]
        simp
  case remove k =>
    cases hl : lookupS k (toList m.root) with
    | some old => rw [hl] at h; simp at h
    | none =>
      unfold lookupS at hl
      simp only [Option.map_eq_none_iff] at hl
      have := List.find?_eq_none.mp hl
      have : eraseS k (toList m.root) = toList m.root := by
        unfold eraseS
        apply List.filter_eq_self.mpr
        intro e he
        have := this e he
        simpa using this
      rw [this]
  case clear => cases h

end Fatchoy.C10
