import Fatchoy.Model.C07
namespace Fatchoy.C07
open Fatchoy.Varint

/-! ### side-conditions on the regenerated facts -/

/-- what the proofs need from the regenerated constants -/
def Valid (P : Params) : Prop :=
  -- the error flag is one bit of the flag byte, distinct from the codec's bits
  (P.errFlag = 16 ∧ P.compressedFlag = 1 ∧ P.encryptedFlag = 2) ∧
  P.ptypePacket = 0 ∧
  -- the platform word is one of the two Go has: `int`/`uint` values are 32 or 64 bits wide
  (P.intSize = 32 ∨ P.intSize = 64) ∧
  -- integers print in decimal and parse as decimal int64
  P.fmtBase = 10 ∧ P.parseBase = 10 ∧ P.parseBits = 64 ∧
  -- the varint scratch arrays hold every 64-bit value
  10 ≤ P.varintBuf ∧ 10 ≤ P.uvarintBuf ∧
  -- an absent body has a wire form, and Errno reads the body
  P.bytesHasNil = true ∧ P.errnoFromBody = true
instance (P : Params) : Decidable (Valid P) := by unfold Valid; infer_instance

/-- the source shapes the hand-written branches of the model were read from: (case list, statements)
of the five type switches, and the bodies of the small functions. The extractor prints them
alpha-normalised (receiver `_r`, parameters `_p0, _p1, …` by position, locals `_v0, _v1, …` by first
occurrence in the fragment, resolved with go/types) and with the arguments of `panic` elided, so that
renaming a local or rewording a panic message changes nothing here. -/
structure Tables where
  setBody : List (String × String)
  bodyToInt : List (String × String)
  bodyToFloat : List (String × String)
  bodyToString : List (String × String)
  bodyToBytes : List (String × String)
  encodeInt64 : String
  encodeUint64 : String
  errno : String
  setErrno : String
  new : String
  replyWith : String
  reply : String
  refuse : String
  refuseWith : String
  unmarshalErr : String

def tables : Tables :=
  { setBody := Gen.C07.setBodyKeys.zip Gen.C07.setBodyBodies
    bodyToInt := Gen.C07.bodyToIntKeys.zip Gen.C07.bodyToIntBodies
    bodyToFloat := Gen.C07.bodyToFloatKeys.zip Gen.C07.bodyToFloatBodies
    bodyToString := Gen.C07.bodyToStringKeys.zip Gen.C07.bodyToStringBodies
    bodyToBytes := Gen.C07.bodyToBytesKeys.zip Gen.C07.bodyToBytesBodies
    encodeInt64 := Gen.C07.encodeInt64Src, encodeUint64 := Gen.C07.encodeUint64Src
    errno := Gen.C07.errnoSrc, setErrno := Gen.C07.setErrnoSrc, new := Gen.C07.newSrc
    replyWith := Gen.C07.replyWithSrc, reply := Gen.C07.replySrc, refuse := Gen.C07.refuseSrc
    refuseWith := Gen.C07.refuseWithSrc, unmarshalErr := Gen.C07.unmarshalErrBranch }

def keys (t : List (String × String)) : List String := t.map Prod.fst

/-- the type switch of SetBody: which kinds exist and what each is turned into -/
def ValidSetBody (T : Tables) : Prop :=
  keys T.setBody = ["int", "uint", "int8", "int16", "int32", "uint8", "uint16", "uint32", "uint64",
    "float32", "nil", "bool", "int64, float64, string, []byte, proto.Message", "default"] ∧
  ["int", "uint", "int8", "int16", "int32", "uint8", "uint16", "uint32", "uint64"].map (T.setBody.lookup ·) =
    List.replicate 9 (some "_r.Body_ = int64(_v0)") ∧
  T.setBody.lookup "float32" = some "_r.Body_ = float64(_v0)" ∧
  T.setBody.lookup "nil" = some "_r.Body_ = nil" ∧
  T.setBody.lookup "bool" = some "if _v0 { _r.Body_ = int64(1) } else { _r.Body_ = int64(0) }" ∧
  T.setBody.lookup "int64, float64, string, []byte, proto.Message" = some "_r.Body_ = _p0" ∧
  T.setBody.lookup "default" = some "panic(...)"
instance (T : Tables) : Decidable (ValidSetBody T) := by unfold ValidSetBody; infer_instance

/-- the typed views: exactly the cases the model computes. Not pinned: the proto.Message cases and
the conversions the model declares `unmodelled` (int64(float64), float64(int64), ParseFloat) — only
that those cases exist (the key lists), so that the `_ => panic` branches of the model stay right. -/
def ValidViews (T : Tables) : Prop :=
  keys T.bodyToInt = ["int64", "float64", "string", "[]byte", "default"] ∧
  T.bodyToInt.lookup "int64" = some "return _v0" ∧
  T.bodyToInt.lookup "string" = some "if _v0, _v1 := strconv.ParseInt(_v2, 10, 64); _v1 != nil { panic(...) } else { return _v0 }" ∧
  T.bodyToInt.lookup "[]byte" = some "switch len(_v0) { case 0: return 0 case 1: return int64(_v0[0]) case 2: return int64(binary.LittleEndian.Uint16(_v0)) case 4: return int64(binary.LittleEndian.Uint32(_v0)) case 8: return int64(binary.LittleEndian.Uint64(_v0)) default: panic(...) }" ∧
  T.bodyToInt.lookup "default" = some "panic(...)" ∧
  keys T.bodyToFloat = ["int64", "float64", "string", "[]byte", "default"] ∧
  T.bodyToFloat.lookup "float64" = some "return _v0" ∧
  T.bodyToFloat.lookup "[]byte" = some "switch len(_v0) { case 4: _v1 := binary.LittleEndian.Uint32(_v0) return float64(math.Float32frombits(_v1)) case 8: _v2 := binary.LittleEndian.Uint64(_v0) return math.Float64frombits(_v2) default: panic(...) }" ∧
  T.bodyToFloat.lookup "default" = some "panic(...)" ∧
  keys T.bodyToString = ["string", "[]byte", "int64", "float64", "proto.Message", "default"] ∧
  T.bodyToString.lookup "string" = some "return _v0" ∧
  T.bodyToString.lookup "[]byte" = some "return string(_v0)" ∧
  T.bodyToString.lookup "int64" = some "return strconv.FormatInt(_v0, 10)" ∧
  T.bodyToString.lookup "float64" = some "return strconv.FormatFloat(_v0, 'g', -1, 64)" ∧
  T.bodyToString.lookup "default" = some "return fmt.Sprintf(\"%v\", _v0)" ∧
  keys T.bodyToBytes = ["nil", "string", "[]byte", "int64", "float64", "proto.Message", "default"] ∧
  T.bodyToBytes.lookup "nil" = some "return nil" ∧
  T.bodyToBytes.lookup "string" = some "return []byte(_v0)" ∧
  T.bodyToBytes.lookup "[]byte" = some "return _v0" ∧
  T.bodyToBytes.lookup "int64" = some "return encodeInt64(_v0)" ∧
  T.bodyToBytes.lookup "float64" = some "return encodeUint64(math.Float64bits(_v0))" ∧
  T.bodyToBytes.lookup "default" = some "panic(...)" ∧
  T.encodeInt64 = "var _v0 [binary.MaxVarintLen64]byte; _v1 := binary.PutVarint(_v0[:], _p0); return _v0[:_v1]" ∧
  T.encodeUint64 = "var _v0 [binary.MaxVarintLen64]byte; _v1 := binary.PutUvarint(_v0[:], _p0); return _v0[:_v1]"
instance (T : Tables) : Decidable (ValidViews T) := by unfold ValidViews; infer_instance

/-- error code, constructors, and the receiver's varint step. (When the codecs run that step — their
body guard — is part of the codec model, C01: `bodyStepOnFlags`; `recvBody` is proved to be that
model's decoded body in Lemmas/C07Codec.lean.) -/
def ValidPacket (T : Tables) : Prop :=
  T.errno = "if (_r.Flg & fatchoy.PFlagError) != 0 { if _v0, _v1 := _r.Body_.(int64); _v1 { return int32(_v0) } }; return 0" ∧
  T.setErrno = "_r.Flg |= fatchoy.PFlagError; _r.SetBody(int64(_p0))" ∧
  T.new = "return &Packet{ Type_: fatchoy.PTypePacket, Cmd: _p0, Flg: _p2, Seq_: _p1, Body_: _p3, }" ∧
  T.replyWith = "var _v0 = New(_p0, _r.Seq_, _r.Flg, _p1); _v0.Type_ = _r.Type_; _v0.Node_ = _r.Node_; _v0.Refers_ = _r.Refers_; return _r.endpoint.SendPacket(_v0)" ∧
  T.reply = "var _v0 = GetMessageIDOf(_p0); if _v0 == 0 { _v0 = _r.Cmd }; return _r.ReplyWith(_v0, _p0)" ∧
  T.refuse = "var _v0 = GetPairingAckID(_r.Cmd); if _v0 == 0 { _v0 = _r.Cmd }; return _r.RefuseWith(_v0, _p0)" ∧
  T.refuseWith = "var _v0 = New(_p0, _r.Seq_, _r.Flg|fatchoy.PFlagError, nil); _v0.Type_ = _r.Type_; _v0.Node_ = _r.Node_; _v0.Refers_ = _r.Refers_; _v0.SetErrno(_p1); return _r.endpoint.SendPacket(_v0)" ∧
  T.unmarshalErr = "if (_v0 & fatchoy.PFlagError) != 0 { _v1, _ := binary.Varint(_p0) _p2.SetBody(_v1) } else { _p2.SetBody(_p0) }"
instance (T : Tables) : Decidable (ValidPacket T) := by unfold ValidPacket; infer_instance

/-! ### bit-vector facts -/

theorem setWidth_signExtend32 (v : BitVec 32) : (v.signExtend 64).setWidth 32 = v := by
  ext i hi
  simp
  rw [BitVec.getLsbD_signExtend]
  simp [hi]
  intro; omega

theorem or_and_self_right (f e : BitVec 8) : (f ||| e) &&& e = e := by
  ext i hi
  simp
  intro h; right; exact h

theorem errBit_eq {P : Params} (hv : Valid P) : errBit P = 16#8 := by
  unfold errBit; rw [hv.1.1]

theorem errBit_ne_zero {P : Params} (hv : Valid P) : errBit P ≠ 0 := by
  rw [errBit_eq hv]; decide

theorem toInt_setWidth64_of_lt {w : Nat} (x : BitVec w) (hw : w < 64) : (x.setWidth 64).toInt = x.toNat := by
  have h := x.isLt
  have : 2 ^ w ≤ 2 ^ 63 := Nat.pow_le_pow_right (by omega) (by omega)
  rw [BitVec.toInt_setWidth, Int.bmod_eq_of_le] <;> omega

theorem toInt_signExtend64 {w : Nat} (x : BitVec w) (hw : w ≤ 64) : (x.signExtend 64).toInt = x.toInt :=
  BitVec.toInt_signExtend_of_le hw

/-! ### the wire form of numbers always fits the scratch array -/

theorem encodeInto_varint {P : Params} (hv : Valid P) (v : BitVec 64) :
    encodeInto P.varintBuf (putVarint v) = .ok (putVarint v) := by
  have h10 : 10 ≤ P.varintBuf := hv.2.2.2.2.2.2.1
  have := (putVarint_length v).2
  unfold maxVarintLen64 at this
  unfold encodeInto; rw [if_pos (by omega)]

theorem encodeInto_uvarint {P : Params} (hv : Valid P) (v : BitVec 64) :
    encodeInto P.uvarintBuf (putUvarint v) = .ok (putUvarint v) := by
  have h10 : 10 ≤ P.uvarintBuf := hv.2.2.2.2.2.2.2.1
  have := (putUvarint_length v).2
  unfold maxVarintLen64 at this
  unfold encodeInto; rw [if_pos (by omega)]

/-! ### kinds -/

/-- the kinds `SetBody` normalises everything to (what the property calls a body) -/
inductive Normal : GoVal → Prop where
  | absent : Normal .nil
  | int (v : BitVec 64) : Normal (.i64 v)
  | float (v : BitVec 64) : Normal (.f64 v)
  | str (s : Bytes) : Normal (.str s)
  | bytes (b : Bytes) : Normal (.bytes b)

/-- the values the property quantifies over: every kind `SetBody` accepts except protobuf messages -/
def Supported : GoVal → Prop
  | .msg => False
  | .unsupported => False
  | _ => True

theorem setBody_normal {P : Params} {v b : GoVal} (hs : Supported v) (h : setBody P v = .ok b) : Normal b := by
  cases v <;> simp only [setBody, Res.ok.injEq, reduceCtorEq] at h <;> first
    | (subst h; constructor)
    | exact absurd hs (by simp [Supported])

theorem setBody_total (P : Params) {v : GoVal} (hs : Supported v) : ∃ b, setBody P v = .ok b := by
  cases v <;> first
    | exact ⟨_, rfl⟩
    | exact absurd hs (by simp [Supported])

/-- every body a decoder leaves in a packet is one of three normal kinds -/
theorem recvBody_normal (P : Params) (flag : BitVec 8) (raw : Bytes) : Normal (recvBody P flag raw) := by
  unfold recvBody
  cases raw with
  | nil => exact .absent
  | cons b bs =>
    simp only
    split
    · exact .int _
    · exact .bytes _

/-! ### vocabulary of the property statements (Props/C07.lean) -/

/-- the mathematical value of an integer-kinded Go value (bool: 0/1) -/
def intValue : GoVal → Option Int
  | .bool b => some (if b then 1 else 0)
  | .int v => some v.toInt | .i8 v => some v.toInt | .i16 v => some v.toInt
  | .i32 v => some v.toInt | .i64 v => some v.toInt
  | .uint v => some v.toNat | .u8 v => some v.toNat | .u16 v => some v.toNat
  | .u32 v => some v.toNat | .u64 v => some v.toNat
  | _ => none

/-- a multicast request with references, bound to endpoint 3 -/
def sampleRequest : Packet :=
  { cmd := 7, seq := 9, typ := 2, flg := 0x20, node := 5, body := GoVal.nil, refers := [1, 2], endpoint := some 3 }

end Fatchoy.C07

namespace Fatchoy.C07

/-! ### decimal text of an int64 parses back to it -/

theorem digitChar_toNat {d : Nat} (h : d < 10) : (digitChar d).toNat = 48 + d := by
  unfold digitChar; rw [if_pos h, UInt8.toNat_ofNat']; omega

theorem fmtNat_ne_nil (n : Nat) : fmtNat 10 n ≠ [] := by
  unfold fmtNat; split <;> simp

theorem fmtNat_digits (n : Nat) : ∀ c ∈ fmtNat 10 n, 48 ≤ c.toNat ∧ c.toNat ≤ 57 := by
  induction n using Nat.strongRecOn with
  | _ n ih =>
    unfold fmtNat
    by_cases h : n < 10 ∨ 10 < 2
    · have hn : n < 10 := by omega
      simp only [h, dite_true, List.mem_singleton]
      intro c hc; rw [hc, digitChar_toNat hn]; omega
    · simp only [h, dite_false, List.mem_append, List.mem_singleton]
      intro c hc
      rcases hc with hc | hc
      · exact ih (n / 10) (by omega) c hc
      · rw [hc, digitChar_toNat (Nat.mod_lt n (by omega))]; omega

theorem parseDigits_append (a b : Bytes) (acc : Nat) :
    parseDigits (a ++ b) acc = (parseDigits a acc).bind (fun v => parseDigits b v) := by
  induction a generalizing acc with
  | nil => simp [parseDigits]
  | cons c cs ih =>
    simp only [List.cons_append, parseDigits]
    split
    · exact ih _
    · rfl

theorem parseDigits_fmtNat (n : Nat) : ∀ acc, parseDigits (fmtNat 10 n) acc = some (acc * 10 ^ (fmtNat 10 n).length + n) := by
  induction n using Nat.strongRecOn with
  | _ n ih =>
    intro acc
    unfold fmtNat
    by_cases h : n < 10 ∨ 10 < 2
    · have hn : n < 10 := by omega
      simp only [h, dite_true, parseDigits, digitChar_toNat hn, List.length_cons, List.length_nil]
      rw [if_pos (by omega)]
      congr 1; omega
    · simp only [h, dite_false]
      have hm : n % 10 < 10 := Nat.mod_lt n (by omega)
      rw [parseDigits_append, ih (n / 10) (by omega)]
      simp only [Option.bind_some, parseDigits, digitChar_toNat hm, List.length_append,
        List.length_cons, List.length_nil]
      rw [if_pos (by omega)]
      congr 1
      rw [Nat.pow_succ, Nat.add_mul, Nat.mul_assoc]
      omega

theorem parseDigits_fmtNat_zero (n : Nat) : parseDigits (fmtNat 10 n) 0 = some n := by
  rw [parseDigits_fmtNat]; simp

theorem parseMag_fmtNat (neg : Bool) (n : Nat) :
    parseMag neg (fmtNat 10 n) =
      if neg then (if n ≤ 2 ^ 63 then some (BitVec.ofInt 64 (-(n : Int))) else none)
      else (if n < 2 ^ 63 then some (BitVec.ofNat 64 n) else none) := by
  unfold parseMag
  cases hs : fmtNat 10 n with
  | nil => exact absurd hs (fmtNat_ne_nil n)
  | cons c cs => rw [← hs, parseDigits_fmtNat_zero, hs]

/-- `ParseInt(FormatInt(i, 10), 10, 64) = i` for every int64 `i` -/
theorem parseInt_formatInt (x : BitVec 64) : parseInt (formatInt 10 x.toInt) = some x := by
  have hlo : -(2 ^ 63 : Int) ≤ x.toInt := by have := @BitVec.le_toInt 64 x; simpa using this
  have hhi : x.toInt < (2 ^ 63 : Int) := by have := @BitVec.toInt_lt 64 x; simpa using this
  unfold formatInt
  by_cases hneg : x.toInt < 0
  · rw [if_pos hneg]
    unfold parseInt
    simp only
    rw [if_neg (by decide), if_pos (by decide), parseMag_fmtNat]
    simp only [if_true]
    have hn : (x.toInt.natAbs : Int) = -x.toInt := by omega
    rw [if_pos (by omega), hn, Int.neg_neg, BitVec.ofInt_toInt]
  · rw [if_neg hneg]
    unfold parseInt
    cases hs : fmtNat 10 x.toInt.natAbs with
    | nil => exact absurd hs (fmtNat_ne_nil _)
    | cons c cs =>
      have hc := fmtNat_digits x.toInt.natAbs c (by rw [hs]; exact List.mem_cons_self ..)
      simp only
      rw [if_neg (by omega), if_neg (by omega), ← hs, parseMag_fmtNat]
      have hn : (x.toInt.natAbs : Int) = x.toInt := by omega
      simp only [Bool.false_eq_true, if_false]
      rw [if_pos (by omega)]
      have : BitVec.ofNat 64 x.toInt.natAbs = BitVec.ofInt 64 (x.toInt.natAbs : Int) := by
        rw [BitVec.ofInt_natCast]
      rw [this, hn, BitVec.ofInt_toInt]

end Fatchoy.C07

namespace Fatchoy.C07

/-! ### float32 → float64 is exact -/

/-- a finite float64 as (is negative, |value| · 2^1074); `none` for ±Inf and NaN.
(2^-1074 is the smallest positive float64, so the scaled magnitude is a natural number.) -/
def f64Scaled (b : BitVec 64) : Option (Bool × Nat) :=
  let n := b.toNat
  let e := n / 2 ^ 52 % 2048
  let m := n % 2 ^ 52
  if e = 2047 then none
  else some (decide (n / 2 ^ 63 = 1), if e = 0 then m else (m + 2 ^ 52) * 2 ^ (e - 1))

/-- a finite float32 on the same scale: subnormals are m · 2^-149, normals (m + 2^23) · 2^(e-150) -/
def f32Scaled (b : BitVec 32) : Option (Bool × Nat) :=
  let n := b.toNat
  let e := n / 2 ^ 23 % 256
  let m := n % 2 ^ 23
  if e = 255 then none
  else some (decide (n / 2 ^ 31 = 1), if e = 0 then m * 2 ^ 925 else (m + 2 ^ 23) * 2 ^ (e + 924))

theorem topBit_spec : ∀ (fuel m : Nat), 0 < m → m < 2 ^ fuel →
    2 ^ topBit fuel m ≤ m ∧ m < 2 ^ (topBit fuel m + 1) ∧ topBit fuel m < fuel := by
  intro fuel
  induction fuel with
  | zero => intro m h0 h; simp at h; omega
  | succ f ih =>
    intro m h0 h
    unfold topBit
    by_cases h2 : m < 2
    · rw [if_pos h2]
      have : m = 1 := by omega
      subst this; simp
    · rw [if_neg h2]
      have hd : m / 2 < 2 ^ f := by
        rw [Nat.div_lt_iff_lt_mul (by omega)]; rw [Nat.pow_succ] at h; exact h
      obtain ⟨a, b, c⟩ := ih (m / 2) (by omega) hd
      refine ⟨?_, ?_, by omega⟩
      · rw [Nat.pow_succ]; omega
      · rw [Nat.pow_succ]; omega

/-- decoding the fields of an assembled float64 -/
theorem f64_fields {s e m : Nat} (hs : s ≤ 1) (he : e < 2048) (hm : m < 2 ^ 52) :
    let n := (BitVec.ofNat 64 (s * 2 ^ 63 + e * 2 ^ 52 + m)).toNat
    n / 2 ^ 63 = s ∧ n / 2 ^ 52 % 2048 = e ∧ n % 2 ^ 52 = m := by
  have hlt : s * 2 ^ 63 + e * 2 ^ 52 + m < 2 ^ 64 := by omega
  simp only [BitVec.toNat_ofNat, Nat.mod_eq_of_lt hlt]
  refine ⟨by omega, by omega, by omega⟩

theorem widen_eq (b : BitVec 32) :
    widen b = BitVec.ofNat 64 (b.toNat / 2 ^ 31 * 2 ^ 63 +
      (if b.toNat / 2 ^ 23 % 256 = 255 then (2047, if b.toNat % 2 ^ 23 = 0 then 0 else b.toNat % 2 ^ 23 * 2 ^ 29 ||| 2 ^ 51)
       else if b.toNat / 2 ^ 23 % 256 = 0 then
         (if b.toNat % 2 ^ 23 = 0 then (0, 0)
          else (topBit 23 (b.toNat % 2 ^ 23) + 874,
                (b.toNat % 2 ^ 23 - 2 ^ topBit 23 (b.toNat % 2 ^ 23)) * 2 ^ (52 - topBit 23 (b.toNat % 2 ^ 23))))
       else (b.toNat / 2 ^ 23 % 256 + 896, b.toNat % 2 ^ 23 * 2 ^ 29)).1 * 2 ^ 52 +
      (if b.toNat / 2 ^ 23 % 256 = 255 then (2047, if b.toNat % 2 ^ 23 = 0 then 0 else b.toNat % 2 ^ 23 * 2 ^ 29 ||| 2 ^ 51)
       else if b.toNat / 2 ^ 23 % 256 = 0 then
         (if b.toNat % 2 ^ 23 = 0 then (0, 0)
          else (topBit 23 (b.toNat % 2 ^ 23) + 874,
                (b.toNat % 2 ^ 23 - 2 ^ topBit 23 (b.toNat % 2 ^ 23)) * 2 ^ (52 - topBit 23 (b.toNat % 2 ^ 23))))
       else (b.toNat / 2 ^ 23 % 256 + 896, b.toNat % 2 ^ 23 * 2 ^ 29)).2) := rfl

set_option exponentiation.threshold 1024 in
/-- every finite float32 (normal, subnormal, ±0) widens to the float64 with the same sign and exactly
the same magnitude -/
theorem widen_exact (b : BitVec 32) (v : Bool × Nat) (h : f32Scaled b = some v) :
    f64Scaled (widen b) = some v := by
  have hn := b.isLt
  have hs : b.toNat / 2 ^ 31 ≤ 1 := by omega
  have hm : b.toNat % 2 ^ 23 < 2 ^ 23 := Nat.mod_lt _ (by decide)
  unfold f32Scaled at h
  simp only at h
  by_cases he255 : b.toNat / 2 ^ 23 % 256 = 255
  · rw [if_pos he255] at h; cases h
  · rw [if_neg he255, Option.some.injEq] at h
    rw [widen_eq, if_neg he255]
    by_cases he0 : b.toNat / 2 ^ 23 % 256 = 0
    · rw [if_pos he0] at h ⊢
      by_cases hm0 : b.toNat % 2 ^ 23 = 0
      · -- ±0
        rw [if_pos hm0]
        obtain ⟨f1, f2, f3⟩ := f64_fields (s := b.toNat / 2 ^ 31) (e := 0) (m := 0) hs (by omega) (by omega)
        unfold f64Scaled
        simp only at f1 f2 f3 ⊢
        rw [f1, f2, f3, if_neg (by omega), if_pos rfl, ← h, hm0, Nat.zero_mul]
      · -- subnormal: normalise
        rw [if_neg hm0]
        obtain ⟨k1, k2, k3⟩ := topBit_spec 23 (b.toNat % 2 ^ 23) (by omega) hm
        generalize hk : topBit 23 (b.toNat % 2 ^ 23) = k at k1 k2 k3 ⊢
        generalize hmm : b.toNat % 2 ^ 23 = m at k1 k2 h hm hm0 ⊢
        have hpow : 2 ^ k * 2 ^ (52 - k) = 2 ^ 52 := by rw [← Nat.pow_add]; congr 1; omega
        have hmant : (m - 2 ^ k) * 2 ^ (52 - k) + 2 ^ 52 = m * 2 ^ (52 - k) := by
          rw [← hpow, ← Nat.add_mul]; congr 1; omega
        have hlt : (m - 2 ^ k) * 2 ^ (52 - k) < 2 ^ 52 := by
          rw [← hpow]
          exact Nat.mul_lt_mul_of_lt_of_le (by rw [Nat.pow_succ] at k2; omega) (Nat.le_refl _)
            (Nat.pos_of_ne_zero (by simp))
        obtain ⟨f1, f2, f3⟩ := f64_fields (s := b.toNat / 2 ^ 31) (e := k + 874)
          (m := (m - 2 ^ k) * 2 ^ (52 - k)) hs (by omega) hlt
        unfold f64Scaled
        simp only at f1 f2 f3 ⊢
        have hval : m * 2 ^ (52 - k) * 2 ^ (k + 874 - 1) = m * 2 ^ 925 := by
          have hexp : 52 - k + (k + 874 - 1) = 925 := by omega
          rw [Nat.mul_assoc, ← Nat.pow_add]
          exact congrArg (fun t => m * 2 ^ t) hexp
        rw [f1, f2, f3, if_neg (by omega), if_neg (by omega), ← h, hmant, hval]
    · -- normal
      rw [if_neg he0] at h ⊢
      generalize hee : b.toNat / 2 ^ 23 % 256 = e at he255 he0 h ⊢
      generalize hmm : b.toNat % 2 ^ 23 = m at h hm ⊢
      have he : e < 256 := by rw [← hee]; exact Nat.mod_lt _ (by decide)
      obtain ⟨f1, f2, f3⟩ := f64_fields (s := b.toNat / 2 ^ 31) (e := e + 896) (m := m * 2 ^ 29) hs
        (by omega) (by omega)
      unfold f64Scaled
      simp only at f1 f2 f3 ⊢
      have hval : (m + 2 ^ 23) * 2 ^ (e + 924) = (m * 2 ^ 29 + 2 ^ 52) * 2 ^ (e + 896 - 1) := by
        have hexp : e + 924 = 29 + (e + 896 - 1) := by omega
        have hpp : (2:Nat) ^ 23 * 2 ^ 29 = 2 ^ 52 := by rw [← Nat.pow_add]
        have hmul : (m + 2 ^ 23) * 2 ^ 29 = m * 2 ^ 29 + 2 ^ 52 := by rw [Nat.add_mul, hpp]
        rw [hexp, Nat.pow_add, ← Nat.mul_assoc, hmul]
      rw [f1, f2, f3, if_neg (by omega), if_neg (by omega), ← h, hval]

/-- ±Inf widens to ±Inf and a NaN to a NaN (exponent field all ones; mantissa zero iff it was zero) -/
theorem widen_nonfinite (b : BitVec 32) (h : b.toNat / 2 ^ 23 % 256 = 255) :
    (widen b).toNat / 2 ^ 63 = b.toNat / 2 ^ 31 ∧ (widen b).toNat / 2 ^ 52 % 2048 = 2047 ∧
    ((widen b).toNat % 2 ^ 52 = 0 ↔ b.toNat % 2 ^ 23 = 0) := by
  have hn := b.isLt
  have hs : b.toNat / 2 ^ 31 ≤ 1 := by omega
  have hm : b.toNat % 2 ^ 23 < 2 ^ 23 := Nat.mod_lt _ (by decide)
  rw [widen_eq, if_pos h]
  by_cases hm0 : b.toNat % 2 ^ 23 = 0
  · rw [if_pos hm0]
    obtain ⟨f1, f2, f3⟩ := f64_fields (s := b.toNat / 2 ^ 31) (e := 2047) (m := 0) hs (by omega) (by omega)
    simp only at f1 f2 f3 ⊢
    exact ⟨f1, f2, by rw [f3]; simp [hm0]⟩
  · rw [if_neg hm0]
    generalize hmm : b.toNat % 2 ^ 23 = m at hm hm0 ⊢
    have hor : m * 2 ^ 29 ||| 2 ^ 51 < 2 ^ 52 := Nat.or_lt_two_pow (by omega) (by omega)
    have hpos : m * 2 ^ 29 ||| 2 ^ 51 ≠ 0 := by
      intro h0
      have : 2 ^ 51 ≤ m * 2 ^ 29 ||| 2 ^ 51 := Nat.right_le_or
      omega
    obtain ⟨f1, f2, f3⟩ := f64_fields (s := b.toNat / 2 ^ 31) (e := 2047) (m := m * 2 ^ 29 ||| 2 ^ 51) hs (by omega) hor
    simp only at f1 f2 f3 ⊢
    exact ⟨f1, f2, by rw [f3]; simp [hm0, hpos]⟩

/-! ### either NaN convention -/

theorem widenOn_of_not_nan (c : Bool) (b : BitVec 32) (h : isNaN32 b = false) : widenOn c b = widen b := by
  unfold widenOn; rw [h]; simp

/-- exactness does not depend on the NaN convention: finite values are not NaNs -/
theorem widenOn_exact (c : Bool) (b : BitVec 32) (v : Bool × Nat) (h : f32Scaled b = some v) :
    f64Scaled (widenOn c b) = some v := by
  have hfin : b.toNat / 2 ^ 23 % 256 ≠ 255 := by
    intro he; unfold f32Scaled at h; simp only at h; rw [if_pos he] at h; cases h
  rw [widenOn_of_not_nan c b (by unfold isNaN32; simp [hfin])]
  exact widen_exact b v h

/-- ±Inf widens to ±Inf (same sign) and a NaN to a NaN, under either convention -/
theorem widenOn_nonfinite (c : Bool) (b : BitVec 32) (h : b.toNat / 2 ^ 23 % 256 = 255) :
    (widenOn c b).toNat / 2 ^ 52 % 2048 = 2047 ∧
    ((widenOn c b).toNat % 2 ^ 52 = 0 ↔ b.toNat % 2 ^ 23 = 0) ∧
    (b.toNat % 2 ^ 23 = 0 → (widenOn c b).toNat / 2 ^ 63 = b.toNat / 2 ^ 31) := by
  obtain ⟨w1, w2, w3⟩ := widen_nonfinite b h
  by_cases hm : b.toNat % 2 ^ 23 = 0
  · rw [widenOn_of_not_nan c b (by unfold isNaN32; simp [hm])]
    exact ⟨w2, w3, fun _ => w1⟩
  · cases c with
    | false =>
      have hw : widenOn false b = widen b := by unfold widenOn; simp
      rw [hw]; exact ⟨w2, w3, fun _ => w1⟩
    | true =>
      have hn : isNaN32 b = true := by unfold isNaN32; simp [h, hm]
      have hw : widenOn true b = canonNaN64 := by unfold widenOn; rw [hn]; rfl
      rw [hw]
      refine ⟨by decide, ?_, fun h0 => absurd h0 hm⟩
      constructor
      · intro h0; exact absurd h0 (by decide)
      · intro h0; exact absurd h0 hm

end Fatchoy.C07
