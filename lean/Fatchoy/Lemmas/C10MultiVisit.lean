/-
C10 helper lemmas, part 11: what a live iterator among others still has to visit.
-/
import Fatchoy.Lemmas.C10MultiRun
namespace Fatchoy.C10

/-- the keys an iterator has still to return, in its direction: those of the listing from its cursor on -/
def todo (L : List Entry) (it : Iter) : List Nat :=
  match it.next with
  | none => []
  | some k =>
    if it.kind.descending then ((L.map (·.1)).filter (fun x => decide (x ≤ k))).reverse
    else (L.map (·.1)).filter (fun x => decide (k ≤ x))

/-- the keys returned by the successful `Next` calls on slot `s` during a history -/
def returnedBy (P : Params) (s : Nat) : MState → List MOp → List Nat
  | _, [] => []
  | st, op :: ops =>
    (match op, (mstep P st op).2 with
      | .next t, .entry _ e => if t = s then [e.1] else []
      | _, _ => []) ++ returnedBy P s (mstep P st op).1 ops

theorem todo_keys {L L' : List Entry} (h : L'.map (·.1) = L.map (·.1)) (it : Iter) : todo L' it = todo L it := by
  unfold todo; rw [h]

theorem todo_split {A B : List Entry} {k : Nat} {v : Int} (hs : Sorted (A ++ (k, v) :: B)) {it : Iter}
    (hn : it.next = some k) :
    todo (A ++ (k, v) :: B) it = if it.kind.descending then k :: (A.map (·.1)).reverse else k :: B.map (·.1) := by
  obtain ⟨_, _, hA, hB, _⟩ := sorted_mid.mp hs
  unfold todo
  rw [hn]
  simp only [List.map_append, List.map_cons, List.filter_append, List.filter_cons]
  cases it.kind.descending
  · have h1 : (A.map (·.1)).filter (fun x => decide (k ≤ x)) = [] := by
      apply List.filter_eq_nil_iff.mpr
      intro a ha
      obtain ⟨e, he, rfl⟩ := List.mem_map.mp ha
      have := hA e he
      simp; omega
    have h2 : (B.map (·.1)).filter (fun x => decide (k ≤ x)) = B.map (·.1) := by
      apply List.filter_eq_self.mpr
      intro a ha
      obtain ⟨e, he, rfl⟩ := List.mem_map.mp ha
      have := hB e he
      simp; omega
    simp [h1, h2]
  · have h1 : (A.map (·.1)).filter (fun x => decide (x ≤ k)) = A.map (·.1) := by
      apply List.filter_eq_self.mpr
      intro a ha
      obtain ⟨e, he, rfl⟩ := List.mem_map.mp ha
      have := hA e he
      simp; omega
    have h2 : (B.map (·.1)).filter (fun x => decide (x ≤ k)) = [] := by
      apply List.filter_eq_nil_iff.mpr
      intro a ha
      obtain ⟨e, he, rfl⟩ := List.mem_map.mp ha
      have := hB e he
      simp; omega
    simp [h1, h2]

theorem todo_nbr_asc {A B : List Entry} (hs : Sorted (A ++ B)) {it : Iter} (hd : it.kind.descending = false)
    (hn : it.next = B.head?.map (·.1)) : todo (A ++ B) it = B.map (·.1) := by
  cases B with
  | nil => simp [todo, show it.next = none from by simpa using hn]
  | cons e B' =>
    obtain ⟨k, v⟩ := e
    rw [todo_split hs (by simpa using hn), hd]
    simp

theorem todo_nbr_desc {A B : List Entry} (hs : Sorted (A ++ B)) {it : Iter} (hd : it.kind.descending = true)
    (hn : it.next = A.getLast?.map (·.1)) : todo (A ++ B) it = (A.map (·.1)).reverse := by
  cases h : A.getLast? with
  | none =>
    have : A = [] := List.getLast?_eq_none_iff.mp h
    subst this
    simp [todo, show it.next = none from by simpa [h] using hn]
  | some e =>
    obtain ⟨A', rfl⟩ := getLast?_split h
    obtain ⟨k, v⟩ := e
    have hs' : Sorted (A' ++ (k, v) :: B) := by simpa using hs
    have : (A' ++ [(k, v)]) ++ B = A' ++ (k, v) :: B := by simp
    rw [this, todo_split hs' (by rw [hn, h]; rfl), hd]
    simp

theorem todo_iterNew (m : Map) (kind : IterKind) (hs : Sorted (toList m.root)) :
    todo (toList m.root) (iterNew m kind) = (visitOrder kind (toList m.root)).map (·.1) := by
  cases hd : kind.descending
  · have := todo_nbr_asc (A := []) (B := toList m.root) (by simpa using hs) (it := iterNew m kind)
      (by simpa [iterNew] using hd) (by simp [iterNew, hd, firstEntry_spec])
    simpa [visitOrder, hd] using this
  · have := todo_nbr_desc (A := toList m.root) (B := []) (by simpa using hs) (it := iterNew m kind)
      (by simpa [iterNew] using hd) (by simp [iterNew, hd, lastEntry_spec])
    simpa [visitOrder, hd] using this

/-- a fresh positioned iterator is at the end exactly when nothing is left to visit -/
theorem todo_nil_iff {L : List Entry} (hs : Sorted L) {it : Iter} (hp : PosOK L it) :
    iterHasNext it = false ↔ todo L it = [] := by
  cases hn : it.next with
  | none => simp [iterHasNext, todo, hn]
  | some k =>
    obtain ⟨A, v, B, rfl⟩ := pos_split hp hn
    rw [todo_split hs hn]
    simp only [iterHasNext, hn, Option.isSome_some]
    cases it.kind.descending <;> simp

/-- one step that is not foreign to the fresh iterator of slot `s`: what it returned, then what is left -/
theorem mstep_todo (P : Params) (hP : Valid P) (st : MState) (h : MInv st) (op : MOp) (s : Nat) (it : Iter)
    (hg : getIt st.iters s = some it) (hv : it.expVer = st.m.version) (hc : recreates s op = false)
    (hf : foreignTo P s st op = false) :
    ∃ it', getIt (mstep P st op).1.iters s = some it' ∧
      todo (toList st.m.root) it = returnedBy P s st [op] ++ todo (toList (mstep P st op).1.m.root) it' := by
  have hpos := (h.2 s it hg).2 hv
  have hsorted := h.1.1
  cases op with
  | base op =>
    have hs : structural (toList st.m.root) op = false := hf
    refine ⟨it, by rw [mstep_base]; exact hg, ?_⟩
    rw [mstep_base]
    simp only [returnedBy, List.append_nil, List.nil_append]
    exact (todo_keys (nonstructural_keys P st.m h.1 op hs) it).symm
  | create t kind =>
    have hts : s ≠ t := by
      intro e; subst e; simp [recreates] at hc
    exact ⟨it, by simp only [mstep, getIt_setIt_other _ _ hts]; exact hg, by simp [returnedBy, mstep]⟩
  | hasNext t =>
    have : (mstep P st (.hasNext t)).1 = st := by simp only [mstep]; split <;> rfl
    rw [this]
    exact ⟨it, hg, by simp [returnedBy]⟩
  | next t =>
    cases hgt : getIt st.iters t with
    | none => exact ⟨it, by simp only [mstep, hgt]; exact hg, by simp [returnedBy, mstep, hgt]⟩
    | some itt =>
      cases hr : iterNext st.m itt with
      | error err => exact ⟨it, by simp only [mstep, hgt, hr]; exact hg, by simp [returnedBy, mstep, hgt, hr]⟩
      | ok r =>
        obtain ⟨it', e⟩ := r
        by_cases hts : s = t
        · subst hts
          rw [hg] at hgt; cases hgt
          cases hn : it.next with
          | none => simp [iterNext, hn] at hr
          | some k =>
            obtain ⟨A, v, B, hL⟩ := pos_split hpos hn
            rw [hL] at hsorted
            cases hd : it.kind.descending
            · have e1 := iterNext_asc st.m it h.1.1 hL hn hv hd
              rw [e1] at hr; cases hr
              refine ⟨_, by simp only [mstep, hg, e1]; exact getIt_setIt_same .., ?_⟩
              simp only [returnedBy, mstep, hg, e1, if_true, List.append_nil, List.singleton_append]
              rw [hL, todo_split hsorted hn, hd]
              have hs2 : Sorted ((A ++ [(k, v)]) ++ B) := by simpa using hsorted
              have := todo_nbr_asc hs2 (it := { it with next := B.head?.map (·.1), last := some k }) hd rfl
              simp only [List.append_assoc, List.singleton_append] at this
              rw [this]; rfl
            · have e1 := iterNext_desc st.m it h.1.1 hL hn hv hd
              rw [e1] at hr; cases hr
              refine ⟨_, by simp only [mstep, hg, e1]; exact getIt_setIt_same .., ?_⟩
              simp only [returnedBy, mstep, hg, e1, if_true, List.append_nil, List.singleton_append]
              rw [hL, todo_split hsorted hn, hd]
              have := todo_nbr_desc (A := A) (B := (k, v) :: B) hsorted
                (it := { it with next := A.getLast?.map (·.1), last := some k }) hd rfl
              rw [this]; rfl
        · refine ⟨it, by simp only [mstep, hgt, hr]; rw [getIt_setIt_other _ _ hts]; exact hg, ?_⟩
          have : (if t = s then [e.1] else ([] : List Nat)) = [] := by
            rw [if_neg]; exact fun e => hts e.symm
          simp [returnedBy, mstep, hgt, hr, this]
  | iremove t =>
    cases hgt : getIt st.iters t with
    | none => exact ⟨it, by simp only [mstep, hgt]; exact hg, by simp [returnedBy, mstep, hgt]⟩
    | some itt =>
      cases hr : iterRemove P st.m itt with
      | error err => exact ⟨it, by simp only [mstep, hgt, hr]; exact hg, by simp [returnedBy, mstep, hgt, hr]⟩
      | ok r =>
        obtain ⟨m', it'⟩ := r
        have hvt := iterRemove_ok_fresh hr
        rcases fresh_remove P hP st.m h.1 itt hvt ((h.2 t itt hgt).2 hvt) with ⟨_, h2⟩ | ⟨j, it2, h1, h2, _, _, _, h6, _, h8⟩
        · rw [h2] at hr; cases hr
        · by_cases hts : s = t
          · subst hts
            rw [hg] at hgt; cases hgt
            have hp' := hpos
            unfold PosOK at hp'
            rw [h1] at hp'
            obtain ⟨A, v, B, hL, hn⟩ := hp'
            obtain ⟨hrm, _⟩ := iterRemove_spec P hP st.m it h.1.1 hL h1 hv (by rw [hn]; split <;> rfl)
            rw [hL] at hsorted
            obtain ⟨_, _, hA, hB, _⟩ := sorted_mid.mp hsorted
            have r1 := (remove_refines st.m j h.1).1
            rw [hL, eraseS_present hA hB] at r1
            have hs' : Sorted (A ++ B) := by rw [← r1]; exact h8.1
            refine ⟨_, by simp only [mstep, hg, hrm]; exact getIt_setIt_same .., ?_⟩
            simp only [returnedBy, mstep, hg, hrm, List.append_nil, List.nil_append]
            rw [r1, hL]
            cases hd : it.kind.descending
            · rw [hd] at hn
              simp only [Bool.false_eq_true, if_false] at hn
              have hs2 : Sorted ((A ++ [(j, v)]) ++ B) := by simpa using hsorted
              have a1 := todo_nbr_asc hs2 (it := it) hd hn
              have a2 := todo_nbr_asc hs'
                (it := { it with last := none, expVer := (remove st.m j).1.version }) hd hn
              simp only [List.append_assoc, List.singleton_append] at a1
              rw [a1, a2]
            · rw [hd] at hn
              simp only [if_true] at hn
              have a1 := todo_nbr_desc (A := A) (B := (j, v) :: B) hsorted (it := it) hd hn
              have a2 := todo_nbr_desc hs'
                (it := { it with last := none, expVer := (remove st.m j).1.version }) hd hn
              rw [a1, a2]
          · exfalso
            have : (t != s) = true := by simp; exact fun e => hts e.symm
            simp only [foreignTo, this, Bool.true_and, changesStructure, effect, hgt, h2, h1, Option.map_some,
              structural, h6] at hf
            cases hf

theorem mrun_todo (P : Params) (hP : Valid P) : ∀ (ops : List MOp) (st : MState), MInv st → ∀ (s : Nat) (it : Iter),
    getIt st.iters s = some it → it.expVer = st.m.version → (ops.any (recreates s)) = false →
    foreignRun P s st ops = false →
    ∃ it', getIt (mrun P st ops).1.iters s = some it' ∧
      todo (toList st.m.root) it = returnedBy P s st ops ++ todo (toList (mrun P st ops).1.m.root) it'
  | [], st, _, s, it, hg, _, _, _ => ⟨it, hg, by simp [returnedBy, mrun]⟩
  | op :: ops, st, h, s, it, hg, hv, hc, hf => by
    simp only [List.any_cons, Bool.or_eq_false_iff] at hc
    simp only [foreignRun, Bool.or_eq_false_iff] at hf
    obtain ⟨it1, g1, t1⟩ := mstep_todo P hP st h op s it hg hv hc.1 hf.1
    obtain ⟨it1', g1', _, _, _, c1⟩ := mstep_slot P hP st h op s it hg hc.1
    rw [g1] at g1'; cases g1'
    obtain ⟨it2, g2, t2⟩ := mrun_todo P hP ops (mstep P st op).1 (mstep_inv P hP st h op).1 s it1 g1
      (c1 hf.1 hv) hc.2 hf.2
    refine ⟨it2, by simpa [mrun] using g2, ?_⟩
    rw [t1, t2]
    simp [returnedBy, mrun]

end Fatchoy.C10
