/-
C13 — LRU cache: capacity bound, least-recently-used eviction, exact callbacks.
Property theorems only.  Model: Model/C13.lean (every method of collections/lru/cache.go on a recency
list, newest first).  Specification vocabulary: Model/C13Spec.lean (`lastUse` read off the call
history; the stamp-based reference LRU `Ref`).  Helper lemmas: Lemmas/C13.lean, Lemmas/C13Ref.lean.

All theorems quantify over every capacity, every call sequence `ops` from `NewCache` and (where a
further call is named) every next call `op`; keys and values are arbitrary naturals.
-/
import Fatchoy.Lemmas.C13Ref
import Fatchoy.Model.C13Params
namespace Fatchoy.C13

/-- the source still has the methods, the deciding comparisons and the callback arguments the model
  was written from (regenerated on every run; `Purge` handing the callback the stored value is one) -/
theorem C13_valid : Valid params := by decide

/-- Capacity bound: after any call sequence the cache holds at most `cap` entries, where `cap` is the
  constructor's size or the argument of the last `Resize`; a capacity ≤ 0 (only `Resize` can set it)
  holds nothing. -/
theorem C13_bound (size : Int) (cb : Bool) (c0 : Cache) (h : new size cb = some c0) (ops : List Op) :
    ((run c0 ops).items.length : Int) ≤ max (run c0 ops).cap 0 :=
  (reach_inv h ops).1

/-- the bound in the form of the property text, for the capacities it speaks about -/
theorem C13_bound_nonneg (size : Int) (cb : Bool) (c0 : Cache) (h : new size cb = some c0) (ops : List Op)
    (hc : 0 ≤ (run c0 ops).cap) : ((run c0 ops).items.length : Int) ≤ (run c0 ops).cap := by
  have := C13_bound size cb c0 h ops
  omega

/-- The constructor refuses exactly the capacities ≤ 0 (the code panics), and starts empty. -/
theorem C13_new (size : Int) (cb : Bool) :
    (size ≤ 0 → new size cb = none) ∧
    (0 < size → new size cb = some { cap := size, items := [], cb := cb }) := by
  unfold new
  constructor <;> intro h <;> simp <;> omega

/-- Keys of the recency list are pairwise distinct after any call sequence. -/
theorem C13_unique (size : Int) (cb : Bool) (c0 : Cache) (h : new size cb = some c0) (ops : List Op) :
    ((run c0 ops).items.map (·.1)).Nodup :=
  (reach_inv h ops).2.1

/-- Recency order is order of last use, where only `Put` and `Get` count as use: after any call
  sequence the entries are listed strictly by descending position of the last call that used their
  key (`lastUse`, read off the history), and every entry has been used. -/
theorem C13_recency (size : Int) (cb : Bool) (c0 : Cache) (h : new size cb = some c0) (ops : List Op) :
    (run c0 ops).items.Pairwise (fun a b => lastUse ops b.1 < lastUse ops a.1) ∧
    ∀ e ∈ (run c0 ops).items, 0 < lastUse ops e.1 :=
  (reach_inv h ops).2.2

/-- Least-recently-used eviction: whatever `Put`, `Resize` or `RemoveOldest` throws out was used less
  recently than every entry that stays (last use taken over the whole history including this call;
  `Peek`, `Contains`, `Keys`, `GetOldest`, … do not count). -/
theorem C13_lru (size : Int) (cb : Bool) (c0 : Cache) (h : new size cb = some c0) (ops : List Op) (op : Op)
    (hop : (∃ k v, op = .put k v) ∨ (∃ n, op = .resize n) ∨ op = .removeOldest) :
    ∀ e ∈ (step (run c0 ops) op).2.2, ∀ e' ∈ (step (run c0 ops) op).1.items,
      lastUse (ops ++ [op]) e.1 < lastUse (ops ++ [op]) e'.1 := by
  have hr : Recency ops (run c0 ops).items := (reach_inv h ops).2.2
  generalize run c0 ops = c at hr
  intro e he e' he'
  rcases hop with ⟨k, v, rfl⟩ | ⟨n, rfl⟩ | rfl
  · -- Put
    simp only [step] at he he'
    split at he
    · simp at he
    · rename_i hnone
      simp only [hnone] at he'
      have hfull : Recency (ops ++ [Op.put k v]) ((k, v) :: c.items) :=
        hr.touch (List.Sublist.refl _) _ k v (lookup_eq_none.mp hnone) (fun _ => rfl)
      split at he
      · rename_i hlt
        simp only [hlt, if_true] at he'
        obtain ⟨h1, _⟩ := dropOldest_spec ((k, v) :: c.items)
        have hp := hfull.1
        rw [← h1, List.pairwise_append] at hp
        exact hp.2.2 e' he' e he
      · simp at he
  · -- Resize
    simp only [step] at he he'
    have hfull : Recency (ops ++ [Op.resize n]) c.items :=
      hr.nonuse (List.Sublist.refl _) _ (fun _ _ => rfl)
    obtain ⟨h1, _⟩ := evictN_spec
      (if (c.items.length : Int) - n < 0 then 0 else (c.items.length : Int) - n).toNat c.items
    have hp := hfull.1
    rw [← h1, List.pairwise_append] at hp
    exact hp.2.2 e' he' e (List.mem_reverse.mpr he)
  · -- RemoveOldest
    simp only [step] at he he'
    have hfull : Recency (ops ++ [Op.removeOldest]) c.items :=
      hr.nonuse (List.Sublist.refl _) _ (fun _ _ => rfl)
    split at he
    · rename_i x hx
      simp only [hx] at he'
      obtain ⟨ys, hys⟩ := List.getLast?_eq_some_iff.mp hx
      have hp := hfull.1
      rw [hys, List.pairwise_append] at hp
      rw [hys, List.dropLast_concat] at he'
      exact hp.2.2 e' he' e (by simpa using he)
    · simp at he

/-- Eviction happens only when it must and takes exactly the overflow: a `Put` of a new key evicts
  one entry iff the cache was full, `Resize n` evicts exactly the surplus over `n`, and both take the
  entries from the old end of the recency list, oldest first. -/
theorem C13_evicts_overflow (c : Cache) :
    (∀ k v, lookup c.items k = none →
      (step c (.put k v)).1.items ++ (step c (.put k v)).2.2 = (k, v) :: c.items ∧
      (step c (.put k v)).2.2.length = if c.cap < (c.items.length : Int) + 1 then 1 else 0) ∧
    (∀ n, (step c (.resize n)).1.items ++ (step c (.resize n)).2.2.reverse = c.items ∧
      ((step c (.resize n)).2.2.length : Int) = min (max ((c.items.length : Int) - n) 0) c.items.length) := by
  constructor
  · intro k v hnone
    simp only [step, hnone]
    split
    · obtain ⟨h1, h2⟩ := dropOldest_spec ((k, v) :: c.items)
      rename_i hlt
      have hlt' : c.cap < (c.items.length : Int) + 1 := by simpa using hlt
      refine ⟨h1, ?_⟩
      simp only [h2, List.length_cons, hlt', if_true]
      omega
    · rename_i hlt
      have hlt' : ¬ c.cap < (c.items.length : Int) + 1 := by simpa using hlt
      simp [hlt']
  · intro n
    simp only [step]
    obtain ⟨h1, h2⟩ := evictN_spec
      (if (c.items.length : Int) - n < 0 then 0 else (c.items.length : Int) - n).toNat c.items
    refine ⟨h1, ?_⟩
    rw [h2]
    split <;> omega

/-- Exact callbacks.  For any reachable cache and any call, with `lg` the arguments the eviction
  callback sees during the call:
  * no callback installed ⇒ nothing is seen;
  * conservation: the keys reported together with the keys still held are exactly (as a multiset)
    the keys held before plus the key a `Put` of an absent key brings in — so an entry that leaves
    is reported, an entry that stays is not;
  * once each: reported keys are pairwise distinct and none of them is still in the cache;
  * key and stored value: every reported pair is an entry the cache held at that moment (or the pair
    just put), and with distinct keys that is the value `lookup` finds;
  * overwriting the value of a present key fires nothing. -/
theorem C13_callbacks (size : Int) (cb : Bool) (c0 : Cache) (h : new size cb = some c0) (ops : List Op) (op : Op) :
    let c := run c0 ops
    let c' := (step c op).1
    let lg := cbLog c (step c op).2.2
    (c.cb = false → lg = []) ∧
    (c.cb = true →
      (lg.map (·.1) ++ c'.items.map (·.1)).Perm ((incoming c op).map (·.1) ++ c.items.map (·.1)) ∧
      (lg.map (·.1)).Nodup ∧ (∀ e ∈ lg, e.1 ∉ c'.items.map (·.1)) ∧
      (∀ e ∈ lg, e ∈ incoming c op ++ c.items) ∧
      (∀ k v, (k, v) ∈ lg → (k, v) ∉ incoming c op → lookup c.items k = some v) ∧
      (∀ k v, op = .put k v → (lookup c.items k).isSome → lg = [])) := by
  intro c c' lg
  have hn : (c.items.map (·.1)).Nodup := (reach_inv h ops).2.1
  refine ⟨fun hcb => by simp [lg, cbLog, hcb], fun hcb => ?_⟩
  have hlg : lg = (step c op).2.2 := by simp [lg, cbLog, hcb]
  rw [hlg]
  have hperm := step_conserves c op hn
  have hmem := step_left_mem c op
  -- the right-hand side has no duplicates
  have hrhs : ((incoming c op).map (·.1) ++ c.items.map (·.1)).Nodup := by
    cases op with
    | put k v =>
      simp only [incoming]
      split
      · rename_i hnone
        simp only [List.map_cons, List.map_nil, List.cons_append, List.nil_append, List.nodup_cons]
        refine ⟨?_, hn⟩
        intro hmem'
        obtain ⟨e, he, hk⟩ := List.mem_map.mp hmem'
        exact lookup_eq_none.mp (Option.isNone_iff_eq_none.mp hnone) e he hk
      · simpa using hn
    | _ => simpa [incoming] using hn
  have hlhs := hperm.symm.nodup hrhs
  rw [List.nodup_append] at hlhs
  refine ⟨hperm, hlhs.1, ?_, hmem, ?_, ?_⟩
  · intro e he hin
    exact hlhs.2.2 e.1 (List.mem_map_of_mem (f := (·.1)) he) e.1 hin rfl
  · intro k v hkv hnot
    have := hmem (k, v) hkv
    rcases List.mem_append.mp this with h1 | h1
    · exact absurd h1 hnot
    · exact lookup_of_mem hn h1
  · intro k v hop hsome
    subst hop
    obtain ⟨v', hv'⟩ := Option.isSome_iff_exists.mp hsome
    simp [step, hv']

/-- Agreement with a reference LRU.  `Ref` (Model/C13Spec.lean) is an unordered table of
  (key, value, stamp of last use) with a clock: `Put`/`Get` stamp, eviction removes the smallest stamp,
  `Keys`/`GetOldest` sort by stamp; it has no recency list.  For every capacity and every call sequence
  whose `Resize` arguments are not negative, the model returns exactly what the reference returns for
  every call — `Len`, `Cap`, `Contains`, `Get`, `Peek`, `GetOldest`, `Keys` (oldest to newest), `Put`,
  `Resize`, `Remove`, `RemoveOldest` — and the callback sees exactly the same entries in the same order
  (`Purge`: both list newest first; the code's order is Go map order, the comparison with the code sorts). -/
theorem C13_results (size : Int) (cb : Bool) (c0 : Cache) (r0 : Ref)
    (h : new size cb = some c0) (h' : Ref.new size cb = some r0)
    (ops : List Op) (hd : ∀ op ∈ ops, InDomain op) :
    trace c0 ops = r0.trace ops :=
  trace_sim c0 r0 ops (rel_new h h') hd

/-- The recency list itself is the reference table sorted by descending stamp, after every call
  sequence (so contents, values and oldest-to-newest order agree, not only the answers given so far). -/
theorem C13_contents (size : Int) (cb : Bool) (c0 : Cache) (r0 : Ref)
    (h : new size cb = some c0) (h' : Ref.new size cb = some r0)
    (ops : List Op) (hd : ∀ op ∈ ops, InDomain op) :
    (run c0 ops).items = ((byAge (ops.foldl (fun r op => (r.step op).1) r0).ents).reverse.map kv) := by
  have key : ∀ (ops : List Op) (c : Cache) (r : Ref), Rel c r → (∀ op ∈ ops, InDomain op) →
      Rel (run c ops) (ops.foldl (fun r op => (r.step op).1) r) := by
    intro ops
    induction ops with
    | nil => intro c r hr _; exact hr
    | cons op rest ih =>
      intro c r hr hd
      rw [run_cons, List.foldl_cons]
      exact ih _ _ (step_sim c r op hr (hd op List.mem_cons_self)).1
        (fun o ho => hd o (List.mem_cons_of_mem _ ho))
  obtain ⟨_, _, s, hv⟩ := key ops c0 r0 (rel_new h h') hd
  rw [hv.byAge, List.reverse_reverse, hv.items_eq]

/-! ### non-vacuity (tests, not proofs): the hypotheses are met by non-trivial runs -/

/-- a run with an eviction at capacity, a protecting `Get`, a non-protecting `Peek`, an overwrite, a
  `Resize` below the size and a `Purge` of a non-empty cache -/
def demoOps : List Op :=
  [.put 1 11, .put 2 12, .get 1, .peek 2, .put 3 13, .put 1 21, .put 4 14, .resize 1, .put 5 15, .purge]

example : ∃ c0, new 2 true = some c0 ∧
    trace c0 demoOps =
      [(.bool true, []), (.bool true, []), (.val (some 11), []), (.val (some 12), []),
       (.bool true, [(2, 12)]),            -- key 2 was only peeked: it is the one evicted
       (.bool false, []),                  -- overwrite: nothing fires
       (.bool true, [(3, 13)]), (.num 1, [(1, 21)]), (.bool true, [(4, 14)]), (.unit, [(5, 15)])] :=
  ⟨_, rfl, by decide⟩

example : lastUse demoOps 1 = 6 ∧ lastUse demoOps 2 = 2 ∧ lastUse demoOps 9 = 0 := by decide

/-- the reference gives the same trace on the demo run, and the run is in the domain -/
example : ∃ r0, Ref.new 2 true = some r0 ∧ (∀ op ∈ demoOps, InDomain op) ∧
    (r0.trace demoOps).length = 10 ∧ (r0.trace demoOps)[4]? = some (.bool true, [(2, 12)]) :=
  ⟨_, rfl, by simp [demoOps, InDomain], by decide, by decide⟩

end Fatchoy.C13
