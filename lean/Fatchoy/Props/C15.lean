/-
C15 — every RPC is completed exactly once: by its own response or by a timeout.
Property theorems only.  The model (Model/C15.lean) is a labelled transition system written from
qnet/rpc.go: one action per mutex-protected method (call, Dispatch, the reaper's sweep, ReapTimeout),
plus the queue consumer and the wake-up of a blocking caller; `Reach P s` = reachable by SOME action
sequence, so the theorems hold for every interleaving, every response order (duplicates, unknown and
zero sequence numbers included), sweeps at any instants, and every counter position (`setCounter`).
`completions` = invocations of RpcContext.run in order; `callbacks` = invocations of the asynchronous
callback with their arguments; `returned` = what the blocking `Call`s returned.
Invariant and helper lemmas: Lemmas/C15.lean.
-/
import Fatchoy.Lemmas.C15
namespace Fatchoy.C15

/-- the regenerated facts: TTL and codes positive, Errno reads the body (D9 repaired), the sequence search
skips outstanding numbers (D15 repaired), the counter is 16 bits wide -/
theorem C15_valid : Valid params := by decide

/-- the sequence numbers of the outstanding calls are pairwise different and never 0 — in every reachable state -/
theorem C15_seq_distinct (P : Params) (hv : Valid P) {s : St} (hr : Reach P s) :
    (keys s.pending).Nodup ∧ ∀ k ∈ keys s.pending, k ≠ 0 :=
  ⟨(reach_inv P hv hr).keysNodup, (reach_inv P hv hr).keysNonzero⟩

/-- a new call gets a sequence number that is not 0 and that no outstanding call holds, and is entered under it
without disturbing any other entry; the only alternative is a refusal, and that happens only when every one of
the 65 535 non-zero numbers is outstanding (then nothing is overwritten) -/
theorem C15_seq_fresh (P : Params) (hv : Valid P) {s s' : St} (mode : Mode) (dl : Int)
    (hs : step P s (.call mode dl) = some s') :
    (∃ sq : Seq, sq ≠ 0 ∧ sq ∉ keys s.pending ∧
        s'.pending = (sq, { id := s.nextId, mode := mode, dl := dl }) :: s.pending ∧
        s'.queue = s.queue ++ [(sq, s.nextId)] ∧ s'.counter = sq ∧ s'.refused = s.refused) ∨
    ((∀ v : Seq, v ≠ 0 → v ∈ keys s.pending) ∧ s'.pending = s.pending ∧ s'.queue = s.queue ∧
        s'.counter = s.counter ∧ s'.refused = s.refused ++ [s.nextId]) := by
  obtain ⟨_, _, _, _, hskip, _⟩ := hv
  simp only [step] at hs
  split at hs
  case isFalse => cases hs
  split at hs
  · rename_i sq hsq
    injection hs with hs; subst hs
    unfold nextSeq at hsq
    rw [hskip] at hsq
    obtain ⟨hnz, hfresh⟩ := nextSeqAux_spec _ _ _ _ hsq
    left
    refine ⟨sq, hnz, hfresh, ?_, rfl, rfl, rfl⟩
    show (sq, _) :: s.pending.filter _ = _
    rw [filter_keys_of_not_mem s.pending sq hfresh]
  · rename_i hsq
    injection hs with hs; subst hs
    unfold nextSeq at hsq
    rw [hskip] at hsq
    right
    exact ⟨nextSeq_none_all_used _ _ hsq, rfl, rfl, rfl, rfl⟩

/-- exactly once: every call ever made (ids 0 … nextId−1) is, at any time, in exactly one of four places —
outstanding, expired and waiting for the reap, completed, refused — and in that place exactly once.  Hence no
call is ever completed twice, and a call has its completion exactly when it has left the tables -/
theorem C15_once (P : Params) (hv : Valid P) {s : St} (hr : Reach P s) (i : Nat) :
    ((pids s.pending).count i + (eids s.expired).count i + (cids s.completions).count i + s.refused.count i =
      if i < s.nextId then 1 else 0) ∧
    (cids s.completions).count i ≤ 1 ∧
    ((cids s.completions).count i = 1 ↔
      (i < s.nextId ∧ i ∉ pids s.pending ∧ i ∉ eids s.expired ∧ i ∉ s.refused)) := by
  have h := (reach_inv P hv hr).ids i
  refine ⟨h, by split at h <;> omega, ?_⟩
  constructor
  · intro h1
    split at h
    · rename_i hlt
      exact ⟨hlt, List.count_eq_zero.mp (by omega), List.count_eq_zero.mp (by omega), List.count_eq_zero.mp (by omega)⟩
    · omega
  · intro ⟨hlt, h1, h2, h3⟩
    rw [if_pos hlt, List.count_eq_zero.mpr h1, List.count_eq_zero.mpr h2, List.count_eq_zero.mpr h3] at h
    omega

/-- a response completes exactly the outstanding call that holds its sequence number — there is exactly one
such call —, with that packet, and takes it out of the table; a response whose number no outstanding call holds
is reported as unmatched and changes nothing else -/
theorem C15_match (P : Params) (hv : Valid P) {s s' : St} (hr : Reach P s) (seq : Seq) (p : Pkt)
    (hs : step P s (.dispatch seq p) = some s') :
    (∃ c : Ctx, (seq, c) ∈ s.pending ∧ (∀ c', (seq, c') ∈ s.pending → c' = c) ∧
        s'.completions = s.completions ++ [(c, p)] ∧
        s'.pending = s.pending.filter (fun e => e.1 != seq) ∧ seq ∉ keys s'.pending ∧
        s'.expired = s.expired ∧ s'.unmatched = s.unmatched) ∨
    (seq ∉ keys s.pending ∧ s' = { s with unmatched := s.unmatched + 1 }) := by
  have h := reach_inv P hv hr
  simp only [step] at hs
  split at hs
  · rename_i e he
    injection hs with hs; subst hs
    obtain ⟨hmem, hkey⟩ := find_mem he
    obtain ⟨f1, f2, f3, f4, f5, f6, f7, f8, f9, f10⟩ :=
      run_frame P { s with pending := s.pending.filter (fun e => e.1 != seq) } e.2 p
    left
    have hme : (seq, e.2) ∈ s.pending := by rw [← hkey]; exact hmem
    refine ⟨e.2, hme, fun c' hc' => nodup_keys_unique _ h.keysNodup seq c' e.2 hc' hme, f10, f3, ?_, f4, f9⟩
    rw [f3]
    intro hm
    rcases List.mem_map.mp hm with ⟨x, hx, hxk⟩
    have := (List.mem_filter.mp hx).2
    simp [hxk] at this
  · rename_i he
    injection hs with hs; subst hs
    exact Or.inr ⟨find_none he, rfl⟩

/-- timeouts: a sweep moves exactly the overdue calls (now > deadline) from the table to the expired list and
leaves the others where they are, completing nothing; the next reap completes every expired call with the
request-timeout packet, in that order, once, and empties the list; and a response that arrives for a swept call
is unmatched (its number is no longer in the table) -/
theorem C15_timeout (P : Params) (hv : Valid P) {s : St} (hr : Reach P s) :
    (∀ now s', step P s (.sweep now) = some s' →
      s'.completions = s.completions ∧
      ∀ e ∈ s.pending,
        (now > e.2.dl → e.2 ∈ s'.expired ∧ e.1 ∉ keys s'.pending ∧
          ∀ p, step P s' (.dispatch e.1 p) = some { s' with unmatched := s'.unmatched + 1 }) ∧
        (¬ now > e.2.dl → e ∈ s'.pending ∧ e.2 ∉ (s.pending.filter (fun x => now > x.2.dl)).map (·.2))) ∧
    (∀ s', step P s .reap = some s' →
      s'.expired = [] ∧ s'.pending = s.pending ∧
      s'.completions = s.completions ++ s.expired.map (fun c => (c, timeoutPkt P))) := by
  have h := reach_inv P hv hr
  constructor
  · intro now s' hs
    simp only [step] at hs
    injection hs with hs; subst hs
    refine ⟨rfl, ?_⟩
    intro e he
    constructor
    · intro hov
      have hnk : e.1 ∉ keys (s.pending.filter (fun e => !decide (now > e.2.dl))) := by
        intro hm
        rcases List.mem_map.mp hm with ⟨x, hx, hxk⟩
        obtain ⟨hx1, hx2⟩ := List.mem_filter.mp hx
        have : x.2 = e.2 := nodup_keys_unique _ h.keysNodup e.1 x.2 e.2 (by rw [← hxk]; exact hx1) he
        simp [this, hov] at hx2
      refine ⟨?_, hnk, ?_⟩
      · apply List.mem_append_right
        exact List.mem_map_of_mem (List.mem_filter.mpr ⟨he, by simp [hov]⟩)
      · intro p
        simp only [step]
        have : (s.pending.filter (fun e => !decide (now > e.2.dl))).find? (fun x => x.1 == e.1) = none := by
          apply List.find?_eq_none.mpr
          intro x hx hxe
          exact hnk (by rw [← (by simpa using hxe : x.1 = e.1)]; exact List.mem_map_of_mem (f := (·.1)) hx)
        rw [this]
    · intro hnov
      refine ⟨List.mem_filter.mpr ⟨he, by simp [hnov]⟩, ?_⟩
      intro hm
      rcases List.mem_map.mp hm with ⟨x, hx, hxe⟩
      obtain ⟨hx1, hx2⟩ := List.mem_filter.mp hx
      -- x and e are entries with the same context: same id, and ids are unique in the table
      have hid := h.ids e.2.id
      have hc1 : 2 ≤ (pids s.pending).count e.2.id ∨ x = e := by
        by_cases hxe' : x = e
        · exact Or.inr hxe'
        · left
          have key : ∀ (l : List (Seq × Ctx)), x ∈ l → e ∈ l → x ≠ e → x.2.id = e.2.id → 2 ≤ (pids l).count e.2.id := by
            intro l
            induction l with
            | nil => intro h1; cases h1
            | cons a l ih =>
              intro hxm hem hne hid
              rcases List.mem_cons.mp hxm with hxa | hxl <;> rcases List.mem_cons.mp hem with hea | hel
              · exact absurd (hxa.trans hea.symm) hne
              · have : 0 < (pids l).count e.2.id := List.count_pos_iff.mpr (List.mem_map_of_mem (f := (·.2.id)) hel)
                rw [← hxa]
                simp [pids, List.count_cons, hid] at this ⊢; omega
              · have : 0 < (pids l).count e.2.id := List.count_pos_iff.mpr (hid ▸ List.mem_map_of_mem (f := (·.2.id)) hxl)
                rw [← hea]
                simp [pids, List.count_cons] at this ⊢; omega
              · have := ih hxl hel hne hid
                simp [pids, List.count_cons] at this ⊢; omega
          exact key s.pending hx1 he hxe' (by rw [hxe])
      rcases hc1 with hc1 | hc1
      · split at hid <;> omega
      · rw [hc1] at hx2; simp [hnov] at hx2
  · intro s' hs
    simp only [step] at hs
    injection hs with hs; subst hs
    have hpre : ∀ i, (eids s.expired).count i + (cids s.completions).count i ≤ 1 := by
      intro i; have := h.ids i; split at this <;> omega
    obtain ⟨_, r2, _, _, r5, r6, _⟩ :=
      reap_fold P s.expired { s with expired := [] } ⟨h.R.callbacks, h.R.blockCount, h.R.blockMem⟩ hpre
    exact ⟨r6, r5, r2⟩

/-- what the completion hands over.  Asynchronous: the callback has run exactly once per completion of an
asynchronous call, in completion order, with `cbArgs` of the completing packet — (decoded reply, 0), or
(nothing, the reply's error code), or (nothing, InternalError) when the reply does not decode, and for the
timeout packet (nothing, RequestTimeout).  Blocking: every completion of a blocking call has reached its
waiter's channel and is received at most once — the non-blocking notify never drops — and what `Call` returns
is the completing packet -/
theorem C15_callback_args (P : Params) (hv : Valid P) {s : St} (hr : Reach P s) :
    s.callbacks = (s.completions.filter (fun e => e.1.mode == .async)).map (fun e => (e.1.id, cbArgs P e.2)) ∧
    cbArgs P (timeoutPkt P) = (none, P.timeoutCode) ∧
    (∀ p : Pkt, p.errFlag = true → 0 < p.code → cbArgs P p = (none, p.code)) ∧
    (∀ p : Pkt, p.errFlag = false → ∀ m, p.decodes = some m → cbArgs P p = (some m, 0)) ∧
    (∀ p : Pkt, p.errFlag = false → p.decodes = none → cbArgs P p = (none, P.internalError)) ∧
    (∀ i, (s.returned.map (·.1)).count i + (s.doneBuf.map (·.1)).count i = (bcids s.completions).count i ∧
          (bcids s.completions).count i ≤ 1) ∧
    (∀ e ∈ s.returned, ∃ c : Ctx, c.id = e.1 ∧ c.mode = .block ∧ (c, e.2) ∈ s.completions) := by
  have h := reach_inv P hv hr
  obtain ⟨_, htc, _, hrb, _, _⟩ := hv
  refine ⟨h.R.callbacks, ?_, ?_, ?_, ?_, ?_, ?_⟩
  · simp [cbArgs, errno, timeoutPkt, hrb, htc]
  · intro p hp hc; simp [cbArgs, errno, hp, hrb, hc]
  · intro p hp m hm; simp [cbArgs, errno, hp, hm]
  · intro p hp hm; simp [cbArgs, errno, hp, hm]
  · intro i
    refine ⟨h.R.blockCount i, ?_⟩
    have a := bcids_count_le s.completions i
    have b := h.ids i
    split at b <;> omega
  · intro e he; exact h.R.blockMem e (Or.inl he)

/-! ### non-vacuity: one schedule (Lemmas/C15.lean `demoActs`) — tests of one case, not proofs -/

/-- the counter wraps past 0 with a call outstanding; an error reply, a duplicate, a stray response with
number 0, a sweep that finds nothing overdue and one that does, the reap, the wake-up, a late response -/
example : ∃ s, Reach params s ∧ s.nextId = 2 ∧ s.callbacks = [(0, none, 5)] ∧ s.unmatched = 3 ∧
    s.returned = [(1, timeoutPkt params)] ∧ s.pending = [] ∧ s.counter = 1#16 :=
  ⟨_, reach_runActs params demoActs (Reach.init 4) (by rfl), by decide⟩

/-- a state with two outstanding calls on both sides of the wrap (hypotheses of C15_match / C15_timeout) -/
example : ∃ s, Reach params s ∧ keys s.pending = [1#16, 65535#16] :=
  ⟨_, reach_runActs params (demoActs.take 4) (Reach.init 4) (by rfl), by decide⟩

end Fatchoy.C15
