/-
C15 — every RPC is completed exactly once: by its own response or by a timeout.
Property theorems only.  The model (Model/C15.lean) is a labelled transition system written from
qnet/rpc.go: one action per critical section (call, Dispatch, the reaper's sweep, the `strip` of ReapTimeout),
one action per completion of the ReapTimeout loop (outside the mutex — anything can happen between two of them),
plus the queue consumer and the wake-up of a blocking caller; `Reach P s` = reachable by SOME action
sequence, so the theorems hold for every interleaving, every response order (duplicates, unknown and
zero sequence numbers included), sweeps at any instants, and every counter position (`setCounter`).
`completions` = invocations of RpcContext.run in order; `callbacks` = invocations of the asynchronous
callback with their arguments; `returned` = what the blocking `Call`s returned.
Invariant and helper lemmas: Lemmas/C15.lean; liveness (`C15_no_stuck`, `C15_eventually_completed`,
`C15_reap_terminates`): definitions in Lemmas/C15Live.lean.
-/
import Fatchoy.Lemmas.C15Live
namespace Fatchoy.C15

/-- the regenerated facts: TTL and codes positive, Errno reads the body (D9 repaired), the sequence search
skips outstanding numbers (D15 repaired), the counter is 16 bits wide, stripExpired hands out a batch that
shares no storage with the live expired list -/
theorem C15_valid : Valid params := by decide

/-- the sequence numbers of the outstanding calls are pairwise different and never 0 — in every reachable state -/
theorem C15_seq_distinct (P : Params) (hv : Valid P) {s : St} (hr : Reach P s) :
    (keys s.pending).Nodup ∧ ∀ k ∈ keys s.pending, k ≠ 0 :=
  ⟨(reach_inv P hv hr).keysNodup, (reach_inv P hv hr).keysNonzero⟩

/-- a new call gets a sequence number that is not 0 and that no outstanding call holds, and is entered under it
without disturbing any other entry; the only alternative is a refusal, and that happens only when every one of
the 65 535 non-zero numbers is outstanding (then nothing is overwritten) -/
theorem C15_seq_fresh (P : Params) (hv : Valid P) {s s' : St} (mode : Mode) (dl : Int)
    (hs : step P s (.call mode dl) = some s') :
    (∃ sq : Seq, sq ≠ 0 ∧ sq ∉ keys s.pending ∧
        s'.pending = (sq, { id := s.nextId, mode := mode, dl := dl }) :: s.pending ∧
        s'.queue = s.queue ++ [(sq, s.nextId)] ∧ s'.counter = sq ∧ s'.refused = s.refused) ∨
    ((∀ v : Seq, v ≠ 0 → v ∈ keys s.pending) ∧ s'.pending = s.pending ∧ s'.queue = s.queue ∧
        s'.counter = s.counter ∧ s'.refused = s.refused ++ [s.nextId]) := by
  obtain ⟨_, _, _, _, hskip, _⟩ := hv
  simp only [step] at hs
  split at hs
  case isFalse => cases hs
  split at hs
  · rename_i sq hsq
    injection hs with hs; subst hs
    unfold nextSeq at hsq
    rw [hskip] at hsq
    obtain ⟨hnz, hfresh⟩ := nextSeqAux_spec _ _ _ _ hsq
    left
    refine ⟨sq, hnz, hfresh, ?_, rfl, rfl, rfl⟩
    show (sq, _) :: s.pending.filter _ = _
    rw [filter_keys_of_not_mem s.pending sq hfresh]
  · rename_i hsq
    injection hs with hs; subst hs
    unfold nextSeq at hsq
    rw [hskip] at hsq
    right
    exact ⟨nextSeq_none_all_used _ _ hsq, rfl, rfl, rfl, rfl⟩

/-- exactly once: every call ever made (ids 0 … nextId−1) is, at any time — also between two completions of a
ReapTimeout that is under way, whatever was interleaved — in exactly one of five places: outstanding, expired
and waiting for a reap, in the batch of a ReapTimeout under way, completed, refused; and in that place exactly
once.  Hence no call is ever completed twice, none is ever dropped, and a call has its completion exactly when it
has left the tables -/
theorem C15_once (P : Params) (hv : Valid P) {s : St} (hr : Reach P s) (i : Nat) :
    ((pids s.pending).count i + (eids s.expired).count i + (bids s.batches).count i + (cids s.completions).count i +
      s.refused.count i = if i < s.nextId then 1 else 0) ∧
    (cids s.completions).count i ≤ 1 ∧
    ((cids s.completions).count i = 1 ↔
      (i < s.nextId ∧ i ∉ pids s.pending ∧ i ∉ eids s.expired ∧ i ∉ bids s.batches ∧ i ∉ s.refused)) := by
  have h := (reach_inv P hv hr).ids i
  refine ⟨h, by split at h <;> omega, ?_⟩
  constructor
  · intro h1
    split at h
    · rename_i hlt
      exact ⟨hlt, List.count_eq_zero.mp (by omega), List.count_eq_zero.mp (by omega), List.count_eq_zero.mp (by omega),
        List.count_eq_zero.mp (by omega)⟩
    · omega
  · intro ⟨hlt, h1, h2, h3, h4⟩
    rw [if_pos hlt, List.count_eq_zero.mpr h1, List.count_eq_zero.mpr h2, List.count_eq_zero.mpr h3,
      List.count_eq_zero.mpr h4] at h
    omega

/-- a response completes exactly the outstanding call that holds its sequence number — there is exactly one
such call —, with that packet, and takes it out of the table; a response whose number no outstanding call holds
is reported as unmatched and changes nothing else -/
theorem C15_match (P : Params) (hv : Valid P) {s s' : St} (hr : Reach P s) (seq : Seq) (p : Pkt)
    (hs : step P s (.dispatch seq p) = some s') :
    (∃ c : Ctx, (seq, c) ∈ s.pending ∧ (∀ c', (seq, c') ∈ s.pending → c' = c) ∧
        s'.completions = s.completions ++ [(c, p)] ∧
        s'.pending = s.pending.filter (fun e => e.1 != seq) ∧ seq ∉ keys s'.pending ∧
        s'.expired = s.expired ∧ s'.unmatched = s.unmatched) ∨
    (seq ∉ keys s.pending ∧ s' = { s with unmatched := s.unmatched + 1 }) := by
  have h := reach_inv P hv hr
  simp only [step] at hs
  split at hs
  · rename_i e he
    injection hs with hs; subst hs
    obtain ⟨hmem, hkey⟩ := find_mem he
    obtain ⟨f1, f2, f3, f4, _, f5, f6, f7, f8, f9, f10⟩ :=
      run_frame P { s with pending := s.pending.filter (fun e => e.1 != seq) } e.2 p
    left
    have hme : (seq, e.2) ∈ s.pending := by rw [← hkey]; exact hmem
    refine ⟨e.2, hme, fun c' hc' => nodup_keys_unique _ h.keysNodup seq c' e.2 hc' hme, f10, f3, ?_, f4, f9⟩
    rw [f3]
    intro hm
    rcases List.mem_map.mp hm with ⟨x, hx, hxk⟩
    have := (List.mem_filter.mp hx).2
    simp [hxk] at this
  · rename_i he
    injection hs with hs; subst hs
    exact Or.inr ⟨find_none he, rfl⟩

/-- timeouts.  (1) A sweep moves exactly the overdue calls (now > deadline) from the table to the expired list,
leaves the others and every batch under way where they are, and completes nothing; a response that arrives for a
swept call is unmatched.  (2) `strip` hands the whole expired list to the ReapTimeout as its batch and leaves an
empty list.  (3) A completion step completes exactly one call of its batch, with the request-timeout packet, and
takes it out of the batch — nothing else moves -/
theorem C15_timeout (P : Params) (hv : Valid P) {s : St} (hr : Reach P s) :
    (∀ now s', step P s (.sweep now) = some s' →
      s'.completions = s.completions ∧ s'.batches = s.batches ∧
      ∀ e ∈ s.pending,
        (now > e.2.dl → e.2 ∈ s'.expired ∧ e.1 ∉ keys s'.pending ∧
          ∀ p, step P s' (.dispatch e.1 p) = some { s' with unmatched := s'.unmatched + 1 }) ∧
        (¬ now > e.2.dl → e ∈ s'.pending ∧ e.2 ∉ (s.pending.filter (fun x => now > x.2.dl)).map (·.2))) ∧
    (∀ s', step P s .strip = some s' →
      s'.expired = [] ∧ s'.batches = s.batches ++ [s.expired] ∧ s'.pending = s.pending ∧
      s'.completions = s.completions) ∧
    (∀ b k s', step P s (.complete b k) = some s' →
      ∃ l c, s.batches[b]? = some l ∧ l[k]? = some c ∧
        s'.completions = s.completions ++ [(c, timeoutPkt P)] ∧ s'.batches = s.batches.set b (l.eraseIdx k) ∧
        s'.pending = s.pending ∧ s'.expired = s.expired) := by
  have h := reach_inv P hv hr
  constructor
  · intro now s' hs
    simp only [step] at hs
    injection hs with hs; subst hs
    refine ⟨rfl, rfl, ?_⟩
    intro e he
    constructor
    · intro hov
      have hnk : e.1 ∉ keys (s.pending.filter (fun e => !decide (now > e.2.dl))) := by
        intro hm
        rcases List.mem_map.mp hm with ⟨x, hx, hxk⟩
        obtain ⟨hx1, hx2⟩ := List.mem_filter.mp hx
        have : x.2 = e.2 := nodup_keys_unique _ h.keysNodup e.1 x.2 e.2 (by rw [← hxk]; exact hx1) he
        simp [this, hov] at hx2
      refine ⟨?_, hnk, ?_⟩
      · apply List.mem_append_right
        exact List.mem_map_of_mem (List.mem_filter.mpr ⟨he, by simp [hov]⟩)
      · intro p
        simp only [step]
        have : (s.pending.filter (fun e => !decide (now > e.2.dl))).find? (fun x => x.1 == e.1) = none := by
          apply List.find?_eq_none.mpr
          intro x hx hxe
          exact hnk (by rw [← (by simpa using hxe : x.1 = e.1)]; exact List.mem_map_of_mem (f := (·.1)) hx)
        rw [this]
    · intro hnov
      refine ⟨List.mem_filter.mpr ⟨he, by simp [hnov]⟩, ?_⟩
      intro hm
      rcases List.mem_map.mp hm with ⟨x, hx, hxe⟩
      obtain ⟨hx1, hx2⟩ := List.mem_filter.mp hx
      -- x and e are entries with the same context: same id, and ids are unique in the table
      have hid := h.ids e.2.id
      have hc1 : 2 ≤ (pids s.pending).count e.2.id ∨ x = e := by
        by_cases hxe' : x = e
        · exact Or.inr hxe'
        · left
          have key : ∀ (l : List (Seq × Ctx)), x ∈ l → e ∈ l → x ≠ e → x.2.id = e.2.id → 2 ≤ (pids l).count e.2.id := by
            intro l
            induction l with
            | nil => intro h1; cases h1
            | cons a l ih =>
              intro hxm hem hne hid
              rcases List.mem_cons.mp hxm with hxa | hxl <;> rcases List.mem_cons.mp hem with hea | hel
              · exact absurd (hxa.trans hea.symm) hne
              · have : 0 < (pids l).count e.2.id := List.count_pos_iff.mpr (List.mem_map_of_mem (f := (·.2.id)) hel)
                rw [← hxa]
                simp [pids, List.count_cons, hid] at this ⊢; omega
              · have : 0 < (pids l).count e.2.id := List.count_pos_iff.mpr (hid ▸ List.mem_map_of_mem (f := (·.2.id)) hxl)
                rw [← hea]
                simp [pids, List.count_cons] at this ⊢; omega
              · have := ih hxl hel hne hid
                simp [pids, List.count_cons] at this ⊢; omega
          exact key s.pending hx1 he hxe' (by rw [hxe])
      rcases hc1 with hc1 | hc1
      · split at hid <;> omega
      · rw [hc1] at hx2; simp [hnov] at hx2
  constructor
  · intro s' hs
    simp only [step] at hs
    injection hs with hs; subst hs
    exact ⟨rfl, rfl, rfl, rfl⟩
  · intro b k s' hs
    simp only [step] at hs
    split at hs
    case h_2 => cases hs
    rename_i l hb
    split at hs
    case h_2 => cases hs
    rename_i c hk
    injection hs with hs; subst hs
    obtain ⟨_, _, f3, f4, fb, _, _, _, _, _, f10⟩ :=
      run_frame P { s with batches := s.batches.set b (l.eraseIdx k) } c (timeoutPkt P)
    exact ⟨l, c, hb, hk, f10, fb, f3, f4⟩

/-- whatever is interleaved: the batch of a ReapTimeout under way is changed by nothing but that ReapTimeout's
own completion steps — not by sweeps, calls, responses, wake-ups, nor by the strips and completions of other
ReapTimeouts; and a swept call stays in the expired list until a strip takes it -/
theorem C15_batch_stable (P : Params) {s s' : St} (a : Act) (hs : step P s a = some s') :
    (∀ b l, s.batches[b]? = some l → (∀ k, a ≠ .complete b k) → s'.batches[b]? = some l) ∧
    (a ≠ .strip → ∀ c ∈ s.expired, c ∈ s'.expired) := by
  cases a with
  | call mode dl =>
    simp only [step] at hs
    repeat' split at hs
    all_goals first | (injection hs with hs; subst hs; exact ⟨fun _ _ hb _ => hb, fun _ _ hc => hc⟩) | cases hs
  | pop =>
    simp only [step] at hs
    split at hs
    · injection hs with hs; subst hs; exact ⟨fun _ _ hb _ => hb, fun _ _ hc => hc⟩
    · cases hs
  | dispatch seq p =>
    simp only [step] at hs
    split at hs
    · rename_i e _
      injection hs with hs; subst hs
      obtain ⟨_, _, _, f4, fb, _⟩ := run_frame P { s with pending := s.pending.filter (fun e => e.1 != seq) } e.2 p
      exact ⟨fun _ _ hb _ => by rw [fb]; exact hb, fun _ _ hc => by rw [f4]; exact hc⟩
    · injection hs with hs; subst hs; exact ⟨fun _ _ hb _ => hb, fun _ _ hc => hc⟩
  | sweep now =>
    simp only [step] at hs
    injection hs with hs; subst hs
    exact ⟨fun _ _ hb _ => hb, fun _ _ hc => List.mem_append_left _ hc⟩
  | strip =>
    simp only [step] at hs
    injection hs with hs; subst hs
    refine ⟨fun b l hb _ => ?_, fun h => absurd rfl h⟩
    show (s.batches ++ [s.expired])[b]? = some l
    rw [List.getElem?_append_left]
    · exact hb
    · rcases Nat.lt_or_ge b s.batches.length with h' | h'
      · exact h'
      · rw [List.getElem?_eq_none h'] at hb; cases hb
  | complete b' k' =>
    simp only [step] at hs
    split at hs
    case h_2 => cases hs
    rename_i l' hb'
    split at hs
    case h_2 => cases hs
    rename_i c _
    injection hs with hs; subst hs
    obtain ⟨_, _, _, f4, fb, _⟩ := run_frame P { s with batches := s.batches.set b' (l'.eraseIdx k') } c (timeoutPkt P)
    refine ⟨fun b l hb hne => ?_, fun _ _ hc => by rw [f4]; exact hc⟩
    rw [fb]
    show (s.batches.set b' (l'.eraseIdx k'))[b]? = some l
    have hbb : b' ≠ b := fun h' => hne k' (by rw [h'])
    rw [List.getElem?_set_ne hbb]; exact hb
  | wake id =>
    simp only [step] at hs
    split at hs
    · injection hs with hs; subst hs; exact ⟨fun _ _ hb _ => hb, fun _ _ hc => hc⟩
    · cases hs
  | setCounter v =>
    simp only [step] at hs
    injection hs with hs; subst hs; exact ⟨fun _ _ hb _ => hb, fun _ _ hc => hc⟩

/-- the loop of ReapTimeout: from any state, the owner of batch `b` can complete its remaining calls front to
back by its own steps alone (no step of it waits for anything), each with the request-timeout packet, leaving
the batch empty — so, with `C15_batch_stable` and `C15_once`, every call that was swept is completed by the
ReapTimeout that stripped it, exactly once, whatever else runs in between -/
theorem C15_reap_completes (P : Params) : ∀ (l : List Ctx) (s : St) (b : Nat), s.batches[b]? = some l →
    ∃ s', runActs P s (List.replicate l.length (.complete b 0)) = some s' ∧
      s'.completions = s.completions ++ l.map (fun c => (c, timeoutPkt P)) ∧ s'.batches[b]? = some [] ∧
      s'.pending = s.pending ∧ s'.expired = s.expired
  | [], s, b, hb => ⟨s, rfl, by simp, hb, rfl, rfl⟩
  | c :: l, s, b, hb => by
    have hlen : b < s.batches.length := by
      rcases Nat.lt_or_ge b s.batches.length with h' | h'
      · exact h'
      · rw [List.getElem?_eq_none h'] at hb; cases hb
    have hstep : step P s (.complete b 0) =
        some (run P { s with batches := s.batches.set b l } c (timeoutPkt P)) := by
      simp only [step, hb]; rfl
    obtain ⟨_, _, f3, f4, fb, _, _, _, _, _, f10⟩ := run_frame P { s with batches := s.batches.set b l } c (timeoutPkt P)
    have hb' : (run P { s with batches := s.batches.set b l } c (timeoutPkt P)).batches[b]? = some l := by
      rw [fb]; show (s.batches.set b l)[b]? = some l
      simp [hlen]
    obtain ⟨s', r1, r2, r3, r4, r5⟩ := C15_reap_completes P l _ b hb'
    refine ⟨s', ?_, ?_, r3, r4.trans f3, r5.trans f4⟩
    · simp only [List.length_cons, List.replicate_succ, runActs, hstep]; exact r1
    · rw [r2, f10]; simp

/-- what the completion hands over.  Asynchronous: the callback has run exactly once per completion of an
asynchronous call, in completion order, with `cbArgs` of the completing packet — (decoded reply, 0), or
(nothing, the reply's error code), or (nothing, InternalError) when the reply does not decode, and for the
timeout packet (nothing, RequestTimeout).  Blocking: every completion of a blocking call has reached its
waiter's channel and is received at most once — the non-blocking notify never drops — and what `Call` returns
is the completing packet -/
theorem C15_callback_args (P : Params) (hv : Valid P) {s : St} (hr : Reach P s) :
    s.callbacks = (s.completions.filter (fun e => e.1.mode == .async)).map (fun e => (e.1.id, cbArgs P e.2)) ∧
    cbArgs P (timeoutPkt P) = (none, P.timeoutCode) ∧
    (∀ p : Pkt, p.errFlag = true → 0 < p.code → cbArgs P p = (none, p.code)) ∧
    (∀ p : Pkt, p.errFlag = false → ∀ m, p.decodes = some m → cbArgs P p = (some m, 0)) ∧
    (∀ p : Pkt, p.errFlag = false → p.decodes = none → cbArgs P p = (none, P.internalError)) ∧
    (∀ i, (s.returned.map (·.1)).count i + (s.doneBuf.map (·.1)).count i = (bcids s.completions).count i ∧
          (bcids s.completions).count i ≤ 1) ∧
    (∀ e ∈ s.returned, ∃ c : Ctx, c.id = e.1 ∧ c.mode = .block ∧ (c, e.2) ∈ s.completions) := by
  have h := reach_inv P hv hr
  obtain ⟨_, htc, _, hrb, _, _⟩ := hv
  refine ⟨h.R.callbacks, ?_, ?_, ?_, ?_, ?_, ?_⟩
  · simp [cbArgs, errno, timeoutPkt, hrb, htc]
  · intro p hp hc; simp [cbArgs, errno, hp, hrb, hc]
  · intro p hp m hm; simp [cbArgs, errno, hp, hm]
  · intro p hp hm; simp [cbArgs, errno, hp, hm]
  · intro i
    refine ⟨h.R.blockCount i, ?_⟩
    have a := bcids_count_le s.completions i
    have b := h.ids i
    split at b <;> omega
  · intro e he; exact h.R.blockMem e (Or.inl he)

/-! ### liveness (Lemmas/C15Live.lean: `Act.internal`, `Act.mutex`, `stepHeld`, `mu`, `Unfinished`, `Quiescent`) -/

/-- no stuck state — with the makeCall observation made explicit.  `held = true` means: some makeCall is blocked
on the full request queue and holds the client's mutex meanwhile.  (1) In ANY state in which a ReapTimeout has
calls left in its batch or a completion sits in a blocking caller's `done` channel, an internal action that needs
no mutex is enabled — `held` or not.  (2) While `held`, no critical section runs at all (no Dispatch, no sweep, no
stripExpired, no other call, no counter hook): a response that arrives meanwhile waits, a deadline that passes is
not swept.  (3) What ends that is the queue consumer alone (environment): with a buffered queue its `pop` is
enabled and makes room.  So the client is never stuck by its own doing, but its progress on responses and timeouts
is hostage to the consumer of `PendingQueue` — a consumer that itself calls Dispatch/ReapTimeout/Call on the same
goroutine deadlocks (DESIGN §10.2); that is an assumption on the environment here, not a theorem. -/
theorem C15_no_stuck (P : Params) (held : Bool) (s : St) :
    (Unfinished s → ∃ a, a.internal = true ∧ a.mutex = false ∧ (stepHeld P held s a).isSome = true) ∧
    (held = true → ∀ a, a.mutex = true → stepHeld P held s a = none) ∧
    (HeldOk held s → held = true → 0 < s.cap →
      ∃ s', stepHeld P held s .pop = some s' ∧ (s.queue.length = s.cap → s'.queue.length < s'.cap)) := by
  refine ⟨no_stuck P held s, ?_, ?_⟩
  · intro hh a ha; simp [stepHeld, hh, ha]
  · intro hok hh hc
    have hlen := hok hh
    cases hq : s.queue with
    | nil => rw [hq] at hlen; simp at hlen; omega
    | cons x q =>
      refine ⟨{ s with queue := q }, by simp [stepHeld, Act.mutex, step, hq], ?_⟩
      intro he; show q.length < s.cap; simp at he; omega

/-- every call is eventually completed, exactly once.  `mu s` = 2 × (calls stripped by a ReapTimeout and not yet
completed) + (completions not yet received by their blocking callers).  From any reachable state, under every
interleaving of the client's own steps (completion steps of any ReapTimeout in any order, wake-ups): (1) a
sequence of internal steps has at most `mu s` steps; (2) when none is enabled any more, every batch is empty and
every `done` channel drained, and every call made so far that was neither refused nor is still outstanding
(no response yet, deadline not yet swept) nor waits in the expired list for the next ReapTimeout — that is: its
response arrived (`C15_match`: completed in that very action) or its deadline passed, a sweep ran and a ReapTimeout
stripped it — is in `completions` exactly once; and every blocking call among them has returned exactly once.
Assumed: an enabled internal step is eventually taken; callbacks return.  Not internal, hence assumptions on
the environment: the reaper ticks (`sweep`), somebody calls ReapTimeout (`strip`), and — `C15_no_stuck` (2) — no
makeCall sits on a full queue for ever. -/
theorem C15_eventually_completed (P : Params) (hv : Valid P) {s : St} (hr : Reach P s) (acts : List Act) (s' : St)
    (hi : ∀ a ∈ acts, a.internal = true) (hrun : runActs P s acts = some s') :
    acts.length + mu s' ≤ mu s ∧
    (Quiescent P s' →
      s'.batches.flatten = [] ∧ s'.doneBuf = [] ∧
      (∀ i, i < s.nextId → i ∉ s.refused → i ∉ pids s.pending → i ∉ eids s.expired →
        (cids s'.completions).count i = 1) ∧
      (∀ i, (s'.returned.map (·.1)).count i = (bcids s'.completions).count i)) := by
  obtain ⟨hm, hp, he, hrf, hn, _, _⟩ := mu_run P acts hi hrun
  refine ⟨hm, ?_⟩
  intro hq
  obtain ⟨hb, hd⟩ := quiescent_empty P hq
  have hr' := reach_runActs P acts hr hrun
  have hinv := reach_inv P hv hr'
  refine ⟨hb, hd, ?_, ?_⟩
  · intro i hlt h1 h2 h3
    have h := hinv.ids i
    rw [hp, he, hrf, hn, if_pos hlt, List.count_eq_zero.mpr h1, List.count_eq_zero.mpr h2, List.count_eq_zero.mpr h3] at h
    have : (bids s'.batches).count i = 0 := by simp [bids, hb, eids]
    omega
  · intro i
    have := hinv.R.blockCount i
    rw [hd] at this; simpa using this

/-- ReapTimeout terminates and completes what it stripped: after `strip`, whatever internal steps follow (of this and
of any other ReapTimeout under way, in any order), there are at most `2 × (stripped + left over from before) +
undelivered wake-ups` of them, and when none is left every call that was in the expired list when ReapTimeout
was called has been completed exactly once -/
theorem C15_reap_terminates (P : Params) (hv : Valid P) {s s1 : St} (hr : Reach P s) (hs : step P s .strip = some s1)
    (acts : List Act) (s' : St) (hi : ∀ a ∈ acts, a.internal = true) (hrun : runActs P s1 acts = some s') :
    acts.length + mu s' ≤ 2 * (s.batches.flatten.length + s.expired.length) + s.doneBuf.length ∧
    (Quiescent P s' → ∀ i ∈ eids s.expired, (cids s'.completions).count i = 1) := by
  have hr1 : Reach P s1 := Reach.step _ hr hs
  obtain ⟨hm, hq⟩ := C15_eventually_completed P hv hr1 acts s' hi hrun
  simp only [step] at hs
  injection hs with hs; subst hs
  refine ⟨?_, ?_⟩
  · simp only [mu, List.flatten_append, List.length_append, List.flatten_cons, List.flatten_nil, List.append_nil] at hm ⊢
    omega
  · intro hqs i hmem
    have h := (reach_inv P hv hr).ids i
    have hpos : 0 < (eids s.expired).count i := List.count_pos_iff.mpr hmem
    have hlt : i < s.nextId := by
      rcases Nat.lt_or_ge i s.nextId with h' | h'
      · exact h'
      · rw [if_neg (by omega)] at h; omega
    rw [if_pos hlt] at h
    have r0 : s.refused.count i = 0 := by omega
    have p0 : (pids s.pending).count i = 0 := by omega
    exact (hq hqs).2.2.1 i hlt (List.count_eq_zero.mp r0) (List.count_eq_zero.mp p0) (by simp [eids])

/-! ### non-vacuity: one schedule (Lemmas/C15.lean `demoActs`) — tests of one case, not proofs -/

/-- the counter wraps past 0 with a call outstanding; an error reply, a duplicate, a stray response with
number 0, a sweep that finds nothing overdue and one that does, the reap, the wake-up, a late response -/
example : ∃ s, Reach params s ∧ s.nextId = 2 ∧ s.callbacks = [(0, none, 5)] ∧ s.unmatched = 3 ∧
    s.returned = [(1, timeoutPkt params)] ∧ s.pending = [] ∧ s.counter = 1#16 ∧ s.batches = [[]] :=
  ⟨_, reach_runActs params demoActs (Reach.init 4) (by rfl), by decide⟩

/-- a state with two outstanding calls on both sides of the wrap (hypotheses of C15_match / C15_timeout) -/
example : ∃ s, Reach params s ∧ keys s.pending = [1#16, 65535#16] :=
  ⟨_, reach_runActs params (demoActs.take 4) (Reach.init 4) (by rfl), by decide⟩

/-- a ReapTimeout under way with a sweep in the middle of its loop: batch [call 1, call 0] stripped, call 1
completed first (pending is newest-first), then calls 2 and 3 expire (they go to the live list, not into the batch), then call 0 -/
example : ∃ s, Reach params s ∧ s.batches = [[]] ∧ eids s.expired = [3, 2] ∧ cids s.completions = [1, 0] :=
  ⟨_, reach_runActs params
    [.call .async 10, .call .async 20, .call .async 30, .call .block 40, .sweep 25, .strip, .complete 0 0,
     .sweep 50, .complete 0 0] (Reach.init 8) (by rfl), by decide⟩

/-- `C15_eventually_completed` / `C15_reap_terminates`: the demo schedule up to its `strip` — the blocking call 1 is in
the batch, measure 2; the two internal steps `complete 0 0`, `wake 1` bring it to 0, a quiescent state in which call 1
is completed once and has returned (test of one schedule) -/
example : ∃ s s', Reach params s ∧ bids s.batches = [1] ∧ mu s = 2 ∧ Unfinished s ∧
    runActs params s [.complete 0 0, .wake 1] = some s' ∧ mu s' = 0 ∧ Quiescent params s' ∧
    cids s'.completions = [0, 1] ∧ s'.returned = [(1, timeoutPkt params)] :=
  ⟨_, _, reach_runActs params (demoActs.take 10) (Reach.init 4) (by rfl), by decide, by decide, Or.inl (by decide), by rfl,
    by decide, quiescent_of_empty params (by decide) (by decide), by decide, by decide⟩

/-- `C15_no_stuck` with `held = true`: capacity 1, one request in the queue (full), a ReapTimeout under way with call 0
in its batch — Dispatch and sweep are disabled, `complete 0 0` and `pop` are enabled (test of one schedule) -/
example : ∃ s, Reach params s ∧ HeldOk true s ∧ Unfinished s ∧ stepHeld params true s (.sweep 99) = none ∧
    (stepHeld params true s (.complete 0 0)).isSome = true ∧ (stepHeld params true s .pop).isSome = true :=
  ⟨_, reach_runActs params [.call .async 10, .pop, .sweep 11, .strip, .call .block 20] (Reach.init 1) (by rfl),
    fun _ => by decide, Or.inl (by decide), by rfl, by rfl, by rfl⟩

end Fatchoy.C15
