/-
C19 — the typed byte buffer (qnet/buffer.go) reads back exactly what was written.
Property theorems only; helper lemmas are in Lemmas/C19.lean, the model in Model/C19.lean. The
(method, byte count) tables the model is instantiated with are regenerated from the method bodies of
/repo/qnet/buffer.go into Gen/C19.lean, once for is64Bit = true and once for is64Bit = false.
Values are unsigned bit patterns (`WF`: below 256^width; a bool is 0/1), floats are their IEEE bits.
-/
import Fatchoy.Lemmas.C19
namespace Fatchoy.C19

/-- the regenerated tables satisfy the side-condition, on the platform of the run … -/
theorem C19_valid : Valid params := by decide
/-- … and on both code paths selected by `is64Bit`: `mkParams true` / `mkParams false` are exactly
the tables the model driver switches to when the op stream announces `arch bits=64` / `arch bits=32`
(a GOARCH=386 build of the harness announces 32), so every theorem below — all stated for any
`Valid P` — holds of the model that is compared with the real code, for either word size -/
theorem C19_valid_64 : Valid (mkParams true) := by decide
theorem C19_valid_32 : Valid (mkParams false) := by decide
/-- the word is 8 bytes with the 64-bit tables and 4 bytes with the 32-bit tables -/
theorem C19_valid_word : (mkParams true).word = 8 ∧ (mkParams false).word = 4 := ⟨rfl, rfl⟩

/-- fixed-width little-endian encoding: `n` bytes, byte `i` holds bits `8i..8i+7`, and decoding the
first `n` bytes gives the value back and leaves the rest -/
theorem C19_le_roundtrip (n v : Nat) (r : Buf) (h : v < 256 ^ n) :
    getLE ((putLE n v ++ r).take n) = v ∧ (putLE n v ++ r).drop n = r ∧ (putLE n v).length = n ∧
    ∀ i, i < n → (putLE n v)[i]? = some (UInt8.ofNat (v >>> (8 * i) % 256)) := by
  refine ⟨?_, drop_putLE n v r, putLE_length n v, ?_⟩
  · rw [take_putLE, getLE_putLE h]
  · intro i hi
    rw [putLE_getElem? n v i hi, Nat.shiftRight_eq_div_pow, Nat.pow_mul]

/-- each write appends exactly the width of its type, in little-endian order, and nothing else -/
theorem C19_write_width (P : Params) (hv : Valid P) (b : Buf) (t : Ty) (v : Nat) :
    write P b t v = b ++ putLE (t.width P.word) (enc t v) ∧
    (write P b t v).length = b.length + t.width P.word := by
  have hw : write P b t v = b ++ putLE (t.width P.word) (enc t v) := by
    unfold write; rw [wr_of_valid hv]; simp
  exact ⟨hw, by rw [hw, List.length_append, putLE_length]⟩

/-- reading a type from a buffer that starts with a written value of that type returns the value
and consumes exactly its bytes -/
theorem C19_read_written (P : Params) (hv : Valid P) (t : Ty) (v : Nat) (r : Buf)
    (hwf : WF P.word t v) :
    read P (write P [] t v ++ r) t = .ok (v, r) := by
  rw [(C19_write_width P hv [] t v).1]
  have hpos := width_pos hv.1 t
  have hne : (putLE (t.width P.word) (enc t v) ++ r).isEmpty = false := by
    cases hp : putLE (t.width P.word) (enc t v) with
    | nil => have := putLE_length (t.width P.word) (enc t v); rw [hp] at this; simp at this; omega
    | cons => rfl
  unfold read
  rw [rd_of_valid hv]
  simp only [List.nil_append, hne, take_putLE, drop_putLE, getLE_putLE (enc_lt hwf), dec_enc hwf]
  rfl

/-- any sequence of typed writes followed by the same sequence of typed reads returns the written
values bit for bit and leaves the buffer empty -/
theorem C19_sequence (P : Params) (hv : Valid P) (vs : List (Ty × Nat))
    (hwf : ∀ tv ∈ vs, WF P.word tv.1 tv.2) :
    readAll P (writeAll P [] vs) (vs.map Prod.fst) = .ok (vs.map Prod.snd, []) := by
  -- generalised: whatever follows the written values is what is left
  have hwr : ∀ (vs : List (Ty × Nat)) (b : Buf),
      writeAll P b vs = b ++ writeAll P [] vs := by
    intro vs
    induction vs with
    | nil => intro b; simp [writeAll]
    | cons tv vs ih =>
      intro b
      obtain ⟨t, v⟩ := tv
      simp only [writeAll]
      rw [ih (write P b t v), ih (write P [] t v), (C19_write_width P hv b t v).1,
        (C19_write_width P hv [] t v).1]
      simp
  have hrd : ∀ (vs : List (Ty × Nat)) (r : Buf), (∀ tv ∈ vs, WF P.word tv.1 tv.2) →
      readAll P (writeAll P [] vs ++ r) (vs.map Prod.fst) = .ok (vs.map Prod.snd, r) := by
    intro vs
    induction vs with
    | nil => intro r _; simp [writeAll, readAll]
    | cons tv vs ih =>
      intro r h
      obtain ⟨t, v⟩ := tv
      simp only [writeAll, List.map_cons, readAll]
      rw [hwr vs (write P [] t v), List.append_assoc,
        C19_read_written P hv t v _ (h (t, v) (List.mem_cons_self ..))]
      simp only
      rw [ih r (fun tv htv => h tv (List.mem_cons_of_mem _ htv))]
  have := hrd vs [] hwf
  rwa [List.append_nil] at this

/-- a peek that succeeds returns exactly what the next read of that type returns. (That it consumes
nothing is structural in the model — `peek` has no buffer result; on the real code `Len()` and
`Bytes()` are compared before and after every peek by the harness.) -/
theorem C19_peek (P : Params) (hv : Valid P) (b : Buf) (t : Ty) (v : Nat)
    (h : peek P b t = .ok v) :
    read P b t = .ok (v, b.drop (t.width P.word)) := by
  unfold peek at h
  rw [pk_of_valid hv] at h
  have hpos := width_pos hv.1 t
  by_cases hl : b.length < t.width P.word
  · simp [hl] at h
  · simp only [hl, if_false, Except.ok.injEq] at h
    have hne : b.isEmpty = false := by
      cases b with
      | nil => simp at hl; omega
      | cons => rfl
    unfold read
    rw [rd_of_valid hv]
    simp [hne, h]

/-- a peek of the type just written (at the head of the unread bytes) returns the written value -/
theorem C19_peek_written (P : Params) (hv : Valid P) (t : Ty) (v : Nat) (r : Buf)
    (hwf : WF P.word t v) :
    peek P (write P [] t v ++ r) t = .ok v := by
  rw [(C19_write_width P hv [] t v).1]
  unfold peek
  rw [pk_of_valid hv]
  have hl : ¬ (putLE (t.width P.word) (enc t v) ++ r).length < t.width P.word := by
    simp [putLE_length]
  simp only [List.nil_append, hl, if_false, take_putLE, getLE_putLE (enc_lt hwf), dec_enc hwf]

/-- the failure branches: an empty buffer makes every read panic (`io.EOF`), fewer unread bytes
than the width make a peek panic (`ErrBufferOutOfRange`) … -/
theorem C19_underflow (P : Params) (hv : Valid P) (b : Buf) (t : Ty) :
    read P [] t = .error .eof ∧ (b.length < t.width P.word → peek P b t = .error .range) := by
  refine ⟨rfl, fun h => ?_⟩
  unfold peek
  rw [pk_of_valid hv]; simp [h]

/-- … while a read from a non-empty buffer shorter than the width does *not* panic in this code: it
returns the bytes that are there, zero-extended, and drains the buffer (`bytes.Buffer.Read` reports
an error only when nothing is unread). Recorded as the behaviour of the code, not required by C19. -/
theorem C19_short_read (P : Params) (hv : Valid P) (b : Buf) (t : Ty)
    (h0 : b ≠ []) (hl : b.length ≤ t.width P.word) :
    read P b t = .ok (dec t (getLE b), []) := by
  unfold read
  rw [rd_of_valid hv]
  have hne : b.isEmpty = false := by cases b with | nil => exact absurd rfl h0 | cons => rfl
  simp [hne, List.take_of_length_le hl, List.drop_of_length_le hl]

/-! ### non-vacuity (labelled tests: evaluated on one sample each) -/

/-- test: a sequence with four different widths, a negative int16 (0xfffe), a NaN payload and the
platform word, on the regenerated tables -/
example : readAll params (writeAll params [] [(.bool, 1), (.i16, 0xfffe), (.f32, 0x7fc00001), (.uint, 0xdeadbeef), (.u64, 2^64-1)])
    [.bool, .i16, .f32, .uint, .u64] = .ok ([1, 0xfffe, 0x7fc00001, 0xdeadbeef, 2^64-1], []) :=
  C19_sequence params C19_valid _ (by decide)

/-- test: the same sequence on the 32-bit tables: the word-sized value takes 4 bytes (15 in all) and
everything reads back -/
example : (writeAll (mkParams false) [] [(.bool, 1), (.i16, 0xfffe), (.uint, 0xdeadbeef), (.u64, 2^64-1)]).length = 15 ∧
    readAll (mkParams false) (writeAll (mkParams false) [] [(.bool, 1), (.i16, 0xfffe), (.uint, 0xdeadbeef), (.u64, 2^64-1)])
      [.bool, .i16, .uint, .u64] = .ok ([1, 0xfffe, 0xdeadbeef, 2^64-1], []) :=
  ⟨by decide, C19_sequence (mkParams false) C19_valid_32 _ (by decide)⟩

/-- test: the bytes of a 32-bit write are little-endian -/
example : write params [] .u32 0x11223344 = [0x44, 0x33, 0x22, 0x11] := by decide

/-- test: the hypothesis of `C19_peek` is satisfiable and peek/read agree on it -/
example : peek params [0x34, 0x12, 0xff] .u16 = .ok 0x1234 ∧
    read params [0x34, 0x12, 0xff] .u16 = .ok (0x1234, [0xff]) := ⟨rfl, rfl⟩

/-- test: the short read really is in the model (one byte unread, 32-bit read) -/
example : read params [0x7f] .u32 = .ok (0x7f, []) ∧ peek params [0x7f] .u32 = .error .range := ⟨rfl, rfl⟩

end Fatchoy.C19
