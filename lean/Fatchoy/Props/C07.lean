/-
C07 — packet values: bodies, error codes and replies are faithful.
Property theorems only; helper lemmas are in Lemmas/C07.lean, the model in Model/C07.lean and
Model/Varint.lean (Go's encoding/binary varints). Constants, the five type-switch tables and the
bodies of Errno/SetErrno/New/Reply*/Refuse*/the receiver's error branch are regenerated from
/repo/packet/*.go, /repo/packet.go and /repo/codec/*.go into Gen/C07.lean.

`Supported v`: every kind SetBody accepts except protobuf messages (the property's quantifier).
`Normal b`: absent | int64 | float64 | string | bytes — what SetBody and the decoders leave in a packet.
-/
import Fatchoy.Lemmas.C07
namespace Fatchoy.C07
open Fatchoy.Varint

/-! ### the regenerated facts satisfy the side-conditions -/

theorem C07_valid : Valid params := by decide
theorem C07_valid_setbody : ValidSetBody tables := by
  unfold ValidSetBody; repeat' apply And.intro
  all_goals rfl
theorem C07_valid_views : ValidViews tables := by
  unfold ValidViews; repeat' apply And.intro
  all_goals rfl
theorem C07_valid_packet : ValidPacket tables := by
  unfold ValidPacket; repeat' apply And.intro
  all_goals rfl

/-! ### a body set from any supported value reads back through the accessor of its own kind -/

/-- integers of every width and signedness (and bool): `BodyToInt` returns the int64 with the same
value; the only kinds that can exceed int64, `uint`/`uint64` ≥ 2^63, come back modulo 2^64 (the same
64 bits), which is what `BitVec.ofInt 64 n` says uniformly. -/
theorem C07_readback_int (P : Params) (v : GoVal) (n : Int) (h : intValue v = some n) :
    ∃ r, setBody v = .ok (.i64 r) ∧ bodyToInt P (.i64 r) = .ok r ∧ r = BitVec.ofInt 64 n ∧
      (-(2 ^ 63 : Int) ≤ n ∧ n < 2 ^ 63 → r.toInt = n) := by
  have key : ∀ r : BitVec 64, r = BitVec.ofInt 64 n →
      (-(2 ^ 63 : Int) ≤ n ∧ n < 2 ^ 63 → r.toInt = n) := by
    intro r hr ⟨h1, h2⟩
    rw [hr, BitVec.toInt_ofInt, Int.bmod_eq_of_le] <;> omega
  cases v <;> simp only [intValue, Option.some.injEq, reduceCtorEq] at h
  case bool b =>
    refine ⟨if b then 1 else 0, rfl, rfl, ?_, ?_⟩
    · subst h; cases b <;> rfl
    · exact key _ (by subst h; cases b <;> rfl)
  case int x => exact ⟨x, rfl, rfl, by rw [← h, BitVec.ofInt_toInt], key _ (by rw [← h, BitVec.ofInt_toInt])⟩
  case i64 x => exact ⟨x, rfl, rfl, by rw [← h, BitVec.ofInt_toInt], key _ (by rw [← h, BitVec.ofInt_toInt])⟩
  case i8 x =>
    have e : x.signExtend 64 = BitVec.ofInt 64 n := by
      rw [← h, ← toInt_signExtend64 x (by omega), BitVec.ofInt_toInt]
    exact ⟨_, rfl, rfl, e, key _ e⟩
  case i16 x =>
    have e : x.signExtend 64 = BitVec.ofInt 64 n := by
      rw [← h, ← toInt_signExtend64 x (by omega), BitVec.ofInt_toInt]
    exact ⟨_, rfl, rfl, e, key _ e⟩
  case i32 x =>
    have e : x.signExtend 64 = BitVec.ofInt 64 n := by
      rw [← h, ← toInt_signExtend64 x (by omega), BitVec.ofInt_toInt]
    exact ⟨_, rfl, rfl, e, key _ e⟩
  case uint x =>
    have e : x = BitVec.ofInt 64 n := by rw [← h, BitVec.ofInt_natCast, BitVec.ofNat_toNat, BitVec.setWidth_eq]
    exact ⟨x, rfl, rfl, e, key _ e⟩
  case u64 x =>
    have e : x = BitVec.ofInt 64 n := by rw [← h, BitVec.ofInt_natCast, BitVec.ofNat_toNat, BitVec.setWidth_eq]
    exact ⟨x, rfl, rfl, e, key _ e⟩
  case u8 x =>
    have e : x.setWidth 64 = BitVec.ofInt 64 n := by
      rw [← h, ← toInt_setWidth64_of_lt x (by omega), BitVec.ofInt_toInt]
    exact ⟨_, rfl, rfl, e, key _ e⟩
  case u16 x =>
    have e : x.setWidth 64 = BitVec.ofInt 64 n := by
      rw [← h, ← toInt_setWidth64_of_lt x (by omega), BitVec.ofInt_toInt]
    exact ⟨_, rfl, rfl, e, key _ e⟩
  case u32 x =>
    have e : x.setWidth 64 = BitVec.ofInt 64 n := by
      rw [← h, ← toInt_setWidth64_of_lt x (by omega), BitVec.ofInt_toInt]
    exact ⟨_, rfl, rfl, e, key _ e⟩

/-- floats: a float64 reads back bit for bit (NaN payloads, ±0, ±Inf included); a float32 reads back
as its widening (`widen`, exact for every non-NaN value: `C07_widen_exact`) -/
theorem C07_readback_float (bits : BitVec 64) (bits32 : BitVec 32) :
    (setBody (.f64 bits) = .ok (.f64 bits) ∧ bodyToFloat (.f64 bits) = .ok bits) ∧
    (setBody (.f32 bits32) = .ok (.f64 (widen bits32)) ∧ bodyToFloat (.f64 (widen bits32)) = .ok (widen bits32)) :=
  ⟨⟨rfl, rfl⟩, ⟨rfl, rfl⟩⟩

/-- the widening is exact: a finite float32 (normal, subnormal, ±0) becomes the float64 with the same
sign and exactly the same magnitude (`f32Scaled`/`f64Scaled`: |value|·2^1074 as a natural number);
±Inf stays ±Inf and a NaN stays a NaN with its sign -/
theorem C07_widen_exact (b : BitVec 32) :
    (∀ v, f32Scaled b = some v → f64Scaled (widen b) = some v) ∧
    (b.toNat / 2 ^ 23 % 256 = 255 →
      (widen b).toNat / 2 ^ 63 = b.toNat / 2 ^ 31 ∧ (widen b).toNat / 2 ^ 52 % 2048 = 2047 ∧
      ((widen b).toNat % 2 ^ 52 = 0 ↔ b.toNat % 2 ^ 23 = 0)) :=
  ⟨widen_exact b, widen_nonfinite b⟩

/-- text, bytes and the absent body read back verbatim -/
theorem C07_readback_text (P : Params) (s : Bytes) :
    (setBody (.str s) = .ok (.str s) ∧ bodyToString P (.str s) = .ok (.lit s)) ∧
    (setBody (.bytes s) = .ok (.bytes s) ∧ bodyToBytes P (.bytes s) = .ok s) ∧
    setBody .nil = .ok .nil :=
  ⟨⟨rfl, rfl⟩, ⟨rfl, rfl⟩, rfl⟩

/-- `SetBody` accepts every supported value and leaves a normal body -/
theorem C07_setbody_total (v : GoVal) (hs : Supported v) : ∃ b, setBody v = .ok b ∧ Normal b := by
  obtain ⟨b, hb⟩ := setBody_total hs
  exact ⟨b, hb, setBody_normal hs hb⟩

/-! ### every body has a text form -/

/-- `BodyToString` is defined (no panic) on every normal body — whatever `SetBody` produced from a
supported value and whatever a decoder left — and an integer prints in base 10 -/
theorem C07_text_total (P : Params) (hv : Valid P) (b : GoVal) (hb : Normal b) :
    (∃ t, bodyToString P b = .ok t) ∧
    (∀ x, b = .i64 x → bodyToString P b = .ok (.lit (formatInt 10 x.toInt))) := by
  have hbase : P.fmtBase = 10 := hv.2.2.2.1
  cases hb with
  | absent => exact ⟨⟨_, rfl⟩, fun x h => by cases h⟩
  | int v =>
    have : bodyToString P (.i64 v) = .ok (.lit (formatInt 10 v.toInt)) := by
      unfold bodyToString; rw [hbase]; simp
    exact ⟨⟨_, this⟩, fun x h => by cases h; exact this⟩
  | float v => exact ⟨⟨_, rfl⟩, fun x h => by cases h⟩
  | str s => exact ⟨⟨_, rfl⟩, fun x h => by cases h⟩
  | bytes s => exact ⟨⟨_, rfl⟩, fun x h => by cases h⟩

/-- the text of an integer body is its decimal form: `strconv.ParseInt(text, 10, 64)` — which is what
`BodyToInt` applies to a string body — gives the value back, for every int64 -/
theorem C07_text_int (P : Params) (hv : Valid P) (x : BitVec 64) :
    ∃ t, bodyToString P (.i64 x) = .ok (.lit t) ∧ parseInt t = some x ∧ bodyToInt P (.str t) = .ok x := by
  refine ⟨formatInt 10 x.toInt, ((C07_text_total P hv _ (.int x)).2 x rfl), parseInt_formatInt x, ?_⟩
  simp only [bodyToInt]
  rw [if_pos ⟨hv.2.2.2.2.1, hv.2.2.2.2.2.1⟩, parseInt_formatInt]

/-! ### every body has a wire form -/

/-- `BodyToBytes` is defined (no panic) on every normal body: text and bytes verbatim, an absent body
as the empty one, an integer as its varint, a float as the uvarint of its IEEE bits -/
theorem C07_wire_total (P : Params) (hv : Valid P) (b : GoVal) (hb : Normal b) :
    ∃ w, bodyToBytes P b = .ok w ∧
      (b = .nil → w = []) ∧ (∀ s, b = .str s → w = s) ∧ (∀ s, b = .bytes s → w = s) ∧
      (∀ x, b = .i64 x → w = putVarint x) ∧ (∀ x, b = .f64 x → w = putUvarint x) := by
  cases hb with
  | absent =>
    refine ⟨[], ?_, fun _ => rfl, ?_, ?_, ?_, ?_⟩
    · unfold bodyToBytes; rw [hv.2.2.2.2.2.2.2.2.1]; rfl
    all_goals (intro x h; cases h)
  | int v =>
    refine ⟨putVarint v, encodeInto_varint hv v, ?_, ?_, ?_, ?_, ?_⟩
    · intro h; cases h
    · intro x h; cases h
    · intro x h; cases h
    · intro x h; cases h; rfl
    · intro x h; cases h
  | float v =>
    refine ⟨putUvarint v, encodeInto_uvarint hv v, ?_, ?_, ?_, ?_, ?_⟩
    · intro h; cases h
    · intro x h; cases h
    · intro x h; cases h
    · intro x h; cases h
    · intro x h; cases h; rfl
  | str s =>
    refine ⟨s, rfl, ?_, ?_, ?_, ?_, ?_⟩
    · intro h; cases h
    · intro x h; cases h; rfl
    · intro x h; cases h
    · intro x h; cases h
    · intro x h; cases h
  | bytes s =>
    refine ⟨s, rfl, ?_, ?_, ?_, ?_, ?_⟩
    · intro h; cases h
    · intro x h; cases h
    · intro x h; cases h; rfl
    · intro x h; cases h
    · intro x h; cases h

/-- Go's varints decode to exactly the value encoded, for all 2^64 values, whatever follows, in at
most 10 bytes (`binary.MaxVarintLen64`) -/
theorem C07_varint (x : BitVec 64) (r : Bytes) :
    varint (putVarint x ++ r) = (x, ((putVarint x).length : Int)) ∧
    uvarint (putUvarint x ++ r) = (x, ((putUvarint x).length : Int)) ∧
    (putVarint x).length ≤ 10 ∧ (putUvarint x).length ≤ 10 ∧
    0 < (putVarint x).length ∧ 0 < (putUvarint x).length :=
  ⟨varint_putVarint x r, uvarint_putUvarint x r, (putVarint_length x).2, (putUvarint_length x).2,
    (putVarint_length x).1, (putUvarint_length x).1⟩

/-- numbers travel as variable-length integers that decode to exactly the value set: an integer body
through `Varint`, a float body through `Uvarint` of its IEEE-754 bits, consuming the whole wire form -/
theorem C07_number_wire (P : Params) (hv : Valid P) (x : BitVec 64) :
    (∃ w, bodyToBytes P (.i64 x) = .ok w ∧ varint w = (x, (w.length : Int))) ∧
    (∃ w, bodyToBytes P (.f64 x) = .ok w ∧ uvarint w = (x, (w.length : Int))) := by
  refine ⟨⟨putVarint x, encodeInto_varint hv x, ?_⟩, ⟨putUvarint x, encodeInto_uvarint hv x, ?_⟩⟩
  · have := varint_putVarint x []; rwa [List.append_nil] at this
  · have := uvarint_putUvarint x []; rwa [List.append_nil] at this

/-- the float32 case end to end: what arrives decodes to the bits of the widened value -/
theorem C07_float_wire (P : Params) (hv : Valid P) (bits : BitVec 64) :
    ∃ w, bodyToBytes P (.f64 bits) = .ok w ∧ (uvarint w).1 = bits :=
  let ⟨w, h1, h2⟩ := (C07_number_wire P hv bits).2
  ⟨w, h1, by rw [h2]⟩

/-! ### every packet a decoder can produce can be sent on again -/

/-- FULL statement (pending the codec model): for the V1 and V2 decoders `D`, any stream on which
`ReadPacket` succeeds yields a packet that `WritePacket` can encode (its body has a wire form) -/
def C07_resend_full (P : Params) (D : Decoder) : Prop :=
  ∀ s flag raw, D.read s = some (flag, raw) → ∃ w, bodyToBytes P (recvBody P flag raw) = .ok w

/-- what is proved here: the body-level half — whatever flag byte and body bytes a decoder hands to
the tail of `unmarshalPacketBody` (or an empty body, which both codecs skip), the resulting body has
a wire form; hence `C07_resend_full` holds for *every* decoder of that shape. Missing: that the V1/V2
models of `ReadPacket` are such decoders (their `read` is the codec engineer's model). -/
theorem C07_resend_partial (P : Params) (hv : Valid P) (flag : BitVec 8) (raw : Bytes) :
    ∃ w, bodyToBytes P (recvBody P flag raw) = .ok w :=
  let ⟨w, h, _⟩ := C07_wire_total P hv _ (recvBody_normal P flag raw)
  ⟨w, h⟩

theorem C07_resend_any_decoder (P : Params) (hv : Valid P) (D : Decoder) : C07_resend_full P D :=
  fun _ flag raw _ => C07_resend_partial P hv flag raw

/-! ### error codes -/

/-- locally: the code placed on a packet is the code read from it, whatever its command, flags and
previous body; and nothing but the error bit of the flags changes -/
theorem C07_errno_local (P : Params) (hv : Valid P) (p : Packet) (ec : BitVec 32) :
    errno P (setErrno P p ec) = ec ∧ (setErrno P p ec).flg = p.flg ||| errBit P ∧
    (setErrno P p ec).body = .i64 (ec.signExtend 64) := by
  refine ⟨?_, rfl, rfl⟩
  unfold errno setErrno
  simp only [or_and_self_right, errBit_ne_zero hv, ne_eq, not_false_eq_true, if_true,
    hv.2.2.2.2.2.2.2.2.2, setWidth_signExtend32]

/-- zero when no error is flagged -/
theorem C07_errno_unflagged (P : Params) (p : Packet) (h : p.flg &&& errBit P = 0) : errno P p = 0 := by
  unfold errno; simp [h]

/-- FULL statement (pending the codec model): for codec ∈ {V1, V2} as wires, every int32 error code
survives encode → decode, and a packet without the error bit reads 0 on the other side -/
def C07_errno_wire_full (P : Params) (W : Wire) : Prop :=
  (∀ p ec, ∃ q, received P W (setErrno P p ec) = .ok q ∧ errno P q = ec) ∧
  (∀ p q, p.flg &&& errBit P = 0 → received P W p = .ok q → errno P q = 0)

/-- what is proved here: setErrno → body bytes (zig-zag varint) → the receiver's `binary.Varint` →
SetBody → Errno gives back the code for every int32, and 0 without the flag — over *any* faithful
wire. Missing: `Wire.Faithful` for the V1 and V2 codec models (C01's round-trip theorem, owned by the
codec engineer); until then the composition is covered by the harness on the real codecs. -/
theorem C07_errno_wire_partial (P : Params) (hv : Valid P) (W : Wire) (hW : W.Faithful) :
    C07_errno_wire_full P W := by
  constructor
  · intro p ec
    have hb : bodyToBytes P (setErrno P p ec).body = .ok (putVarint (ec.signExtend 64)) :=
      encodeInto_varint hv _
    have hne : putVarint (ec.signExtend 64) ≠ [] := by
      intro h0; have := (putVarint_length (ec.signExtend 64)).1; rw [h0] at this; simp at this
    refine ⟨{ cmd := p.cmd, seq := p.seq, typ := 0, flg := p.flg ||| errBit P, node := 0,
              body := recvBody P (p.flg ||| errBit P) (putVarint (ec.signExtend 64)),
              refers := [], endpoint := none }, ?_, ?_⟩
    · unfold received; rw [hb]; simp only [hW _ _]; rfl
    · have hv1 := varint_putVarint (ec.signExtend 64) []
      rw [List.append_nil] at hv1
      unfold errno recvBody
      cases hp : putVarint (ec.signExtend 64) with
      | nil => exact absurd hp hne
      | cons c cs =>
        rw [hp] at hv1
        simp only [or_and_self_right, errBit_ne_zero hv, ne_eq, not_false_eq_true, if_true,
          hv.2.2.2.2.2.2.2.2.2, hv1, setWidth_signExtend32]
  · intro p q hflag hq
    unfold received at hq
    cases hb : bodyToBytes P p.body with
    | ok raw =>
      rw [hb] at hq
      simp only [hW _ _, Res.ok.injEq] at hq
      subst hq
      exact C07_errno_unflagged P _ hflag
    | panic => rw [hb] at hq; cases hq
    | unmodelled => rw [hb] at hq; cases hq

/-- the same for the model's own `crossWire` (the identity wire), which is what the harness compares
with the real V1 and V2 codecs on every generated case -/
theorem C07_errno_crosswire (P : Params) (hv : Valid P) (p : Packet) (ec : BitVec 32) :
    ∃ q, crossWire P (setErrno P p ec) = .ok q ∧ errno P q = ec ∧ q.flg = p.flg ||| errBit P := by
  have hb : bodyToBytes P (setErrno P p ec).body = .ok (putVarint (ec.signExtend 64)) :=
    encodeInto_varint hv _
  have hne : putVarint (ec.signExtend 64) ≠ [] := by
    intro h0; have := (putVarint_length (ec.signExtend 64)).1; rw [h0] at this; simp at this
  refine ⟨{ cmd := p.cmd, seq := p.seq, typ := 0, flg := p.flg ||| errBit P, node := 0,
            body := recvBody P (p.flg ||| errBit P) (putVarint (ec.signExtend 64)),
            refers := [], endpoint := none }, ?_, ?_, rfl⟩
  · unfold crossWire; rw [hb]; rfl
  · have hv1 := varint_putVarint (ec.signExtend 64) []
    rw [List.append_nil] at hv1
    unfold errno recvBody
    cases hp : putVarint (ec.signExtend 64) with
    | nil => exact absurd hp hne
    | cons c cs =>
      rw [hp] at hv1
      simp only [or_and_self_right, errBit_ne_zero hv, ne_eq, not_false_eq_true, if_true,
        hv.2.2.2.2.2.2.2.2.2, hv1, setWidth_signExtend32]

/-! ### replies and refusals -/

/-- a reply carries the request's sequence number, type, node, reference list (and flags), the given
command and body, and goes to the endpoint the request is bound to; without an endpoint the call
panics (nil dereference) and nothing is sent -/
theorem C07_reply (P : Params) (m : Packet) (cmd : BitVec 32) (body : GoVal) :
    (∀ e, m.endpoint = some e → ∃ pkt, replyWith P m cmd body = .ok (e, pkt) ∧
      pkt.seq = m.seq ∧ pkt.typ = m.typ ∧ pkt.node = m.node ∧ pkt.refers = m.refers ∧
      pkt.flg = m.flg ∧ pkt.cmd = cmd ∧ pkt.body = body) ∧
    (m.endpoint = none → replyWith P m cmd body = .panic) := by
  constructor
  · intro e he
    refine ⟨{ mkNew P cmd m.seq m.flg body with typ := m.typ, node := m.node, refers := m.refers },
      ?_, rfl, rfl, rfl, rfl, rfl, rfl, rfl⟩
    unfold replyWith sendOn; rw [he]
  · intro he; unfold replyWith sendOn; rw [he]

/-- a refusal carries the request's sequence number, type, node and reference list, has the error
flag (other flag bits as in the request), carries the given code — as its body and as what `Errno`
reads — and goes to the endpoint the request is bound to -/
theorem C07_refuse (P : Params) (hv : Valid P) (m : Packet) (cmd ec : BitVec 32) :
    (∀ e, m.endpoint = some e → ∃ pkt, refuseWith P m cmd ec = .ok (e, pkt) ∧
      pkt.seq = m.seq ∧ pkt.typ = m.typ ∧ pkt.node = m.node ∧ pkt.refers = m.refers ∧
      pkt.flg = m.flg ||| errBit P ∧ pkt.flg &&& errBit P ≠ 0 ∧ pkt.cmd = cmd ∧
      pkt.body = .i64 (ec.signExtend 64) ∧ errno P pkt = ec) ∧
    (m.endpoint = none → refuseWith P m cmd ec = .panic) := by
  constructor
  · intro e he
    have hflg : (m.flg ||| errBit P ||| errBit P) = m.flg ||| errBit P := by
      rw [BitVec.or_assoc, BitVec.or_self]
    refine ⟨setErrno P { mkNew P cmd m.seq (m.flg ||| errBit P) .nil with
        typ := m.typ, node := m.node, refers := m.refers } ec, ?_, rfl, rfl, rfl, rfl, ?_, ?_, rfl, rfl, ?_⟩
    · unfold refuseWith sendOn; rw [he]
    · simp only [setErrno, mkNew, hflg]
    · simp only [setErrno, mkNew, hflg, or_and_self_right]; exact errBit_ne_zero hv
    · exact (C07_errno_local P hv _ ec).1
  · intro he; unfold refuseWith sendOn; rw [he]

/-- `Reply`/`Refuse` choose the command (the registered id, or the request's own command when the
registry answers 0) and are otherwise `ReplyWith`/`RefuseWith` -/
theorem C07_reply_refuse_command (P : Params) (m : Packet) (id ec : BitVec 32) :
    reply P m id = replyWith P m (if id = 0 then m.cmd else id) .msg ∧
    refuse P m id ec = refuseWith P m (if id = 0 then m.cmd else id) ec := ⟨rfl, rfl⟩

/-! ### non-vacuity (labelled tests on sample values, on the regenerated parameters) -/

/-- test: command 77, code 5 — the D9 example reads 5, not 77 -/
example : errno params (setErrno params (mkNew params 77 9 0x20 (.str [1, 2])) 5) = 5 :=
  (C07_errno_local params C07_valid _ 5).1

/-- test: the most negative code crosses the (identity) wire -/
example : ∃ q, crossWire params (setErrno params (mkNew params 77 9 0x20 .nil) (BitVec.ofInt 32 (-2147483648))) = .ok q ∧
    errno params q = BitVec.ofInt 32 (-2147483648) ∧ q.flg = 0x20 ||| errBit params :=
  C07_errno_crosswire params C07_valid _ _

/-- test: a uint64 above MaxInt64 reads back as the same 64 bits -/
example : ∃ r, setBody (.u64 (BitVec.ofNat 64 (2^64 - 1))) = .ok (.i64 r) ∧ r = BitVec.ofInt 64 (2^64 - 1) :=
  let ⟨r, h1, _, h3, _⟩ := C07_readback_int params (.u64 (BitVec.ofNat 64 (2^64 - 1))) (2^64 - 1) (by decide)
  ⟨r, h1, h3⟩

/-- test: an int8 -5 reads back as -5 -/
example : ∃ r : BitVec 64, setBody (.i8 (BitVec.ofInt 8 (-5))) = .ok (.i64 r) ∧ r.toInt = -5 :=
  let ⟨r, h1, _, _, h4⟩ := C07_readback_int params (.i8 (BitVec.ofInt 8 (-5))) (-5) (by decide)
  ⟨r, h1, h4 (by decide)⟩

/-- test: 1.0f widens to 1.0, the smallest subnormal 2^-149 to the normal float64 0x36a0000000000000,
and a signalling NaN with payload to the quiet NaN with the same payload -/
example : widen 0x3f800000 = 0x3ff0000000000000 ∧ widen 1 = 0x36a0000000000000 ∧
    widen 0xff800001 = 0xfff8000020000000 := by decide

/-- test: the hypothesis of `C07_widen_exact` is met by a subnormal (scaled magnitude 3·2^925) -/
example : ∃ v, f32Scaled 0x80000003 = some v ∧ v.1 = true := ⟨_, rfl, by decide⟩

/-- test: the absent body a decoder leaves for an empty frame has the empty wire form (D8) -/
example : bodyToBytes params (recvBody params 0 []) = .ok [] := by decide

/-- test: its refusal with code -1 -/
example : ∃ pkt, refuseWith params sampleRequest 7 (BitVec.ofInt 32 (-1)) = .ok (3, pkt) ∧ pkt.refers = [1, 2] ∧
      errno params pkt = BitVec.ofInt 32 (-1) :=
  let ⟨pkt, h, _, _, _, hr, _, _, _, _, he⟩ := (C07_refuse params C07_valid sampleRequest 7 (BitVec.ofInt 32 (-1))).1 3 rfl
  ⟨pkt, h, hr, he⟩

end Fatchoy.C07
