/-
C07 — packet values: bodies, error codes and replies are faithful.
Property theorems only; helper lemmas are in Lemmas/C07.lean, the model in Model/C07.lean and
Model/Varint.lean (Go's encoding/binary varints). Constants, the five type-switch tables and the
bodies of Errno/SetErrno/New/Reply*/Refuse*/the receiver's error branch are regenerated from
/repo/packet/*.go, /repo/packet.go and /repo/codec/*.go into Gen/C07.lean.
The cross-wire theorems (`C07_errno_wire`, `C07_resend`, `C07_wire_refines`) compose this model with the
codec model of C01 (Model/Codec.lean; glue in Lemmas/C07Codec.lean): for both formats, any lawful
environment (threshold, zlib, cipher pair) whose varint parameters are Go's varints of
Model/Varint.lean, and any chunking of the stream.

`Supported v`: every kind SetBody accepts except protobuf messages (the property's quantifier).
`Normal b`: absent | int64 | float64 | string | bytes — what SetBody and the decoders leave in a packet.
-/
import Fatchoy.Lemmas.C07Codec
namespace Fatchoy.C07
open Fatchoy.Varint

/-! ### the regenerated facts satisfy the side-conditions -/

theorem C07_valid : Valid params := by decide
/-- … for every word size and NaN convention the op stream can announce (`arch bits=32|64
nan=quiet|canon`): `archParams` is what the model driver then answers under, so the theorems below —
all for any `Valid P` — hold of the model compared with an amd64 and with a GOARCH=386 build alike -/
theorem C07_valid_arch : Valid (archParams 32 true) ∧ Valid (archParams 32 false) ∧
    Valid (archParams 64 true) ∧ Valid (archParams 64 false) := by decide
theorem C07_valid_setbody : ValidSetBody tables := by
  unfold ValidSetBody; repeat' apply And.intro
  all_goals rfl
theorem C07_valid_views : ValidViews tables := by
  unfold ValidViews; repeat' apply And.intro
  all_goals rfl
theorem C07_valid_packet : ValidPacket tables := by
  unfold ValidPacket; repeat' apply And.intro
  all_goals rfl
/-- this model's constants and the codec model's (regenerated for C01) describe the same source -/
theorem C07_valid_codec : Consistent params C01.params := by decide

/-! ### a body set from any supported value reads back through the accessor of its own kind -/

/-- integers of every width and signedness (and bool): `BodyToInt` returns the int64 with the same
value; the only kinds that can exceed int64, `uint`/`uint64` ≥ 2^63, come back modulo 2^64 (the same
64 bits), which is what `BitVec.ofInt 64 n` says uniformly. Word-size generic: an `int`/`uint` is
carried as the sign/zero extension of its 32- or 64-bit value (`GoVal.inWord P.intSize`, see
`C07_word_values`), `intValue` is its mathematical value, and no hypothesis on `P.intSize` is needed. -/
theorem C07_readback_int (P : Params) (v : GoVal) (n : Int) (h : intValue v = some n) :
    ∃ r, setBody P v = .ok (.i64 r) ∧ bodyToInt P (.i64 r) = .ok r ∧ r = BitVec.ofInt 64 n ∧
      (-(2 ^ 63 : Int) ≤ n ∧ n < 2 ^ 63 → r.toInt = n) := by
  have key : ∀ r : BitVec 64, r = BitVec.ofInt 64 n →
      (-(2 ^ 63 : Int) ≤ n ∧ n < 2 ^ 63 → r.toInt = n) := by
    intro r hr ⟨h1, h2⟩
    rw [hr, BitVec.toInt_ofInt, Int.bmod_eq_of_le] <;> omega
  cases v <;> simp only [intValue, Option.some.injEq, reduceCtorEq] at h
  case bool b =>
    refine ⟨if b then 1 else 0, rfl, rfl, ?_, ?_⟩
    · subst h; cases b <;> rfl
    · exact key _ (by subst h; cases b <;> rfl)
  case int x => exact ⟨x, rfl, rfl, by rw [← h, BitVec.ofInt_toInt], key _ (by rw [← h, BitVec.ofInt_toInt])⟩
  case i64 x => exact ⟨x, rfl, rfl, by rw [← h, BitVec.ofInt_toInt], key _ (by rw [← h, BitVec.ofInt_toInt])⟩
  case i8 x =>
    have e : x.signExtend 64 = BitVec.ofInt 64 n := by
      rw [← h, ← toInt_signExtend64 x (by omega), BitVec.ofInt_toInt]
    exact ⟨_, rfl, rfl, e, key _ e⟩
  case i16 x =>
    have e : x.signExtend 64 = BitVec.ofInt 64 n := by
      rw [← h, ← toInt_signExtend64 x (by omega), BitVec.ofInt_toInt]
    exact ⟨_, rfl, rfl, e, key _ e⟩
  case i32 x =>
    have e : x.signExtend 64 = BitVec.ofInt 64 n := by
      rw [← h, ← toInt_signExtend64 x (by omega), BitVec.ofInt_toInt]
    exact ⟨_, rfl, rfl, e, key _ e⟩
  case uint x =>
    have e : x = BitVec.ofInt 64 n := by rw [← h, BitVec.ofInt_natCast, BitVec.ofNat_toNat, BitVec.setWidth_eq]
    exact ⟨x, rfl, rfl, e, key _ e⟩
  case u64 x =>
    have e : x = BitVec.ofInt 64 n := by rw [← h, BitVec.ofInt_natCast, BitVec.ofNat_toNat, BitVec.setWidth_eq]
    exact ⟨x, rfl, rfl, e, key _ e⟩
  case u8 x =>
    have e : x.setWidth 64 = BitVec.ofInt 64 n := by
      rw [← h, ← toInt_setWidth64_of_lt x (by omega), BitVec.ofInt_toInt]
    exact ⟨_, rfl, rfl, e, key _ e⟩
  case u16 x =>
    have e : x.setWidth 64 = BitVec.ofInt 64 n := by
      rw [← h, ← toInt_setWidth64_of_lt x (by omega), BitVec.ofInt_toInt]
    exact ⟨_, rfl, rfl, e, key _ e⟩
  case u32 x =>
    have e : x.setWidth 64 = BitVec.ofInt 64 n := by
      rw [← h, ← toInt_setWidth64_of_lt x (by omega), BitVec.ofInt_toInt]
    exact ⟨_, rfl, rfl, e, key _ e⟩

/-- on a build with `bits`-bit words (32 or 64) every `int` in [-2^(bits-1), 2^(bits-1)) and every
`uint` below 2^bits is a value of the model (`inWord`), and reads back as exactly that number — for
both word sizes -/
theorem C07_word_values (P : Params) (hv : Valid P) (x : Int) (u : Nat)
    (hx : -(2 ^ (P.intSize - 1) : Int) ≤ x ∧ x < 2 ^ (P.intSize - 1)) (hu : u < 2 ^ P.intSize) :
    (GoVal.int (BitVec.ofInt 64 x)).inWord P.intSize = true ∧ intValue (.int (BitVec.ofInt 64 x)) = some x ∧
    (GoVal.uint (BitVec.ofNat 64 u)).inWord P.intSize = true ∧ intValue (.uint (BitVec.ofNat 64 u)) = some (u : Int) := by
  have hw : P.intSize = 32 ∨ P.intSize = 64 := hv.2.2.1
  have hx64 : -(2 ^ 63 : Int) ≤ x ∧ x < 2 ^ 63 := by
    rcases hw with h | h <;> rw [h] at hx <;> simp at hx <;> omega
  have hu64 : u < 2 ^ 64 := by
    rcases hw with h | h <;> rw [h] at hu <;> simp at hu <;> omega
  have hxi : (BitVec.ofInt 64 x).toInt = x := by
    rw [BitVec.toInt_ofInt, Int.bmod_eq_of_le] <;> omega
  have hun : (BitVec.ofNat 64 u).toNat = u := by
    rw [BitVec.toNat_ofNat]; exact Nat.mod_eq_of_lt hu64
  refine ⟨?_, ?_, ?_, ?_⟩
  · simp only [GoVal.inWord, hxi, decide_eq_true_eq]; exact hx
  · simp only [intValue, hxi]
  · simp only [GoVal.inWord, hun, decide_eq_true_eq]; exact hu
  · simp only [intValue, hun]

/-- floats: a float64 reads back bit for bit (NaN payloads, ±0, ±Inf included); a float32 reads back
as its widening (`widenOn P.canonNaN`, exact for every non-NaN value under either NaN convention:
`C07_widen_exact`) -/
theorem C07_readback_float (P : Params) (bits : BitVec 64) (bits32 : BitVec 32) :
    (setBody P (.f64 bits) = .ok (.f64 bits) ∧ bodyToFloat P (.f64 bits) = .ok bits) ∧
    (setBody P (.f32 bits32) = .ok (.f64 (widenOn P.canonNaN bits32)) ∧
      bodyToFloat P (.f64 (widenOn P.canonNaN bits32)) = .ok (widenOn P.canonNaN bits32)) :=
  ⟨⟨rfl, rfl⟩, ⟨rfl, rfl⟩⟩

/-- the widening is exact under either NaN convention (`canon`: what the build does with a NaN —
amd64/arm64 keep sign and payload and set the quiet bit, the 386 back end yields the one canonical
NaN): a finite float32 (normal, subnormal, ±0) becomes the float64 with the same sign and exactly the
same magnitude (`f32Scaled`/`f64Scaled`: |value|·2^1074 as a natural number); ±Inf stays ±Inf with its
sign; a NaN stays a NaN -/
theorem C07_widen_exact (canon : Bool) (b : BitVec 32) :
    (∀ v, f32Scaled b = some v → f64Scaled (widenOn canon b) = some v) ∧
    (b.toNat / 2 ^ 23 % 256 = 255 →
      (widenOn canon b).toNat / 2 ^ 52 % 2048 = 2047 ∧
      ((widenOn canon b).toNat % 2 ^ 52 = 0 ↔ b.toNat % 2 ^ 23 = 0) ∧
      (b.toNat % 2 ^ 23 = 0 → (widenOn canon b).toNat / 2 ^ 63 = b.toNat / 2 ^ 31)) :=
  ⟨widenOn_exact canon b, widenOn_nonfinite canon b⟩

/-- text, bytes and the absent body read back verbatim -/
theorem C07_readback_text (P : Params) (s : Bytes) :
    (setBody P (.str s) = .ok (.str s) ∧ bodyToString P (.str s) = .ok (.lit s)) ∧
    (setBody P (.bytes s) = .ok (.bytes s) ∧ bodyToBytes P (.bytes s) = .ok s) ∧
    setBody P .nil = .ok .nil :=
  ⟨⟨rfl, rfl⟩, ⟨rfl, rfl⟩, rfl⟩

/-- `SetBody` accepts every supported value and leaves a normal body -/
theorem C07_setbody_total (P : Params) (v : GoVal) (hs : Supported v) : ∃ b, setBody P v = .ok b ∧ Normal b := by
  obtain ⟨b, hb⟩ := setBody_total P hs
  exact ⟨b, hb, setBody_normal hs hb⟩

/-! ### every body has a text form -/

/-- `BodyToString` is defined (no panic) on every normal body — whatever `SetBody` produced from a
supported value and whatever a decoder left — and an integer prints in base 10 -/
theorem C07_text_total (P : Params) (hv : Valid P) (b : GoVal) (hb : Normal b) :
    (∃ t, bodyToString P b = .ok t) ∧
    (∀ x, b = .i64 x → bodyToString P b = .ok (.lit (formatInt 10 x.toInt))) := by
  have hbase : P.fmtBase = 10 := hv.2.2.2.1
  cases hb with
  | absent => exact ⟨⟨_, rfl⟩, fun x h => by cases h⟩
  | int v =>
    have : bodyToString P (.i64 v) = .ok (.lit (formatInt 10 v.toInt)) := by
      unfold bodyToString; rw [hbase]; simp
    exact ⟨⟨_, this⟩, fun x h => by cases h; exact this⟩
  | float v => exact ⟨⟨_, rfl⟩, fun x h => by cases h⟩
  | str s => exact ⟨⟨_, rfl⟩, fun x h => by cases h⟩
  | bytes s => exact ⟨⟨_, rfl⟩, fun x h => by cases h⟩

/-- the text of an integer body is its decimal form: `strconv.ParseInt(text, 10, 64)` — which is what
`BodyToInt` applies to a string body — gives the value back, for every int64 -/
theorem C07_text_int (P : Params) (hv : Valid P) (x : BitVec 64) :
    ∃ t, bodyToString P (.i64 x) = .ok (.lit t) ∧ parseInt t = some x ∧ bodyToInt P (.str t) = .ok x := by
  refine ⟨formatInt 10 x.toInt, ((C07_text_total P hv _ (.int x)).2 x rfl), parseInt_formatInt x, ?_⟩
  simp only [bodyToInt]
  rw [if_pos ⟨hv.2.2.2.2.1, hv.2.2.2.2.2.1⟩, parseInt_formatInt]

/-! ### every body has a wire form -/

/-- `BodyToBytes` is defined (no panic) on every normal body: text and bytes verbatim, an absent body
as the empty one, an integer as its varint, a float as the uvarint of its IEEE bits -/
theorem C07_wire_total (P : Params) (hv : Valid P) (b : GoVal) (hb : Normal b) :
    ∃ w, bodyToBytes P b = .ok w ∧
      (b = .nil → w = []) ∧ (∀ s, b = .str s → w = s) ∧ (∀ s, b = .bytes s → w = s) ∧
      (∀ x, b = .i64 x → w = putVarint x) ∧ (∀ x, b = .f64 x → w = putUvarint x) := by
  cases hb with
  | absent =>
    refine ⟨[], ?_, fun _ => rfl, ?_, ?_, ?_, ?_⟩
    · unfold bodyToBytes; rw [hv.2.2.2.2.2.2.2.2.1]; rfl
    all_goals (intro x h; cases h)
  | int v =>
    refine ⟨putVarint v, encodeInto_varint hv v, ?_, ?_, ?_, ?_, ?_⟩
    · intro h; cases h
    · intro x h; cases h
    · intro x h; cases h
    · intro x h; cases h; rfl
    · intro x h; cases h
  | float v =>
    refine ⟨putUvarint v, encodeInto_uvarint hv v, ?_, ?_, ?_, ?_, ?_⟩
    · intro h; cases h
    · intro x h; cases h
    · intro x h; cases h
    · intro x h; cases h
    · intro x h; cases h; rfl
  | str s =>
    refine ⟨s, rfl, ?_, ?_, ?_, ?_, ?_⟩
    · intro h; cases h
    · intro x h; cases h; rfl
    · intro x h; cases h
    · intro x h; cases h
    · intro x h; cases h
  | bytes s =>
    refine ⟨s, rfl, ?_, ?_, ?_, ?_, ?_⟩
    · intro h; cases h
    · intro x h; cases h
    · intro x h; cases h; rfl
    · intro x h; cases h
    · intro x h; cases h

/-- Go's varints decode to exactly the value encoded, for all 2^64 values, whatever follows, in at
most 10 bytes (`binary.MaxVarintLen64`) -/
theorem C07_varint (x : BitVec 64) (r : Bytes) :
    varint (putVarint x ++ r) = (x, ((putVarint x).length : Int)) ∧
    uvarint (putUvarint x ++ r) = (x, ((putUvarint x).length : Int)) ∧
    (putVarint x).length ≤ 10 ∧ (putUvarint x).length ≤ 10 ∧
    0 < (putVarint x).length ∧ 0 < (putUvarint x).length :=
  ⟨varint_putVarint x r, uvarint_putUvarint x r, (putVarint_length x).2, (putUvarint_length x).2,
    (putVarint_length x).1, (putUvarint_length x).1⟩

/-- numbers travel as variable-length integers that decode to exactly the value set: an integer body
through `Varint`, a float body through `Uvarint` of its IEEE-754 bits, consuming the whole wire form -/
theorem C07_number_wire (P : Params) (hv : Valid P) (x : BitVec 64) :
    (∃ w, bodyToBytes P (.i64 x) = .ok w ∧ varint w = (x, (w.length : Int))) ∧
    (∃ w, bodyToBytes P (.f64 x) = .ok w ∧ uvarint w = (x, (w.length : Int))) := by
  refine ⟨⟨putVarint x, encodeInto_varint hv x, ?_⟩, ⟨putUvarint x, encodeInto_uvarint hv x, ?_⟩⟩
  · have := varint_putVarint x []; rwa [List.append_nil] at this
  · have := uvarint_putUvarint x []; rwa [List.append_nil] at this

/-- the float32 case end to end: what arrives decodes to the bits of the widened value -/
theorem C07_float_wire (P : Params) (hv : Valid P) (bits : BitVec 64) :
    ∃ w, bodyToBytes P (.f64 bits) = .ok w ∧ (uvarint w).1 = bits :=
  let ⟨w, h1, h2⟩ := (C07_number_wire P hv bits).2
  ⟨w, h1, by rw [h2]⟩

/-! ### every packet a decoder can produce can be sent on again -/

/-- body level: whatever flag byte and plain body bytes a decoder hands to the tail of
`unmarshalPacketBody` (or an empty body, which leaves the fresh packet body-less), the resulting body
has a wire form -/
theorem C07_recv_body_wire (P : Params) (hv : Valid P) (flag : BitVec 8) (raw : Bytes) :
    ∃ w, bodyToBytes P (recvBody P flag raw) = .ok w :=
  let ⟨w, h, _⟩ := C07_wire_total P hv _ (recvBody_normal P flag raw)
  ⟨w, h⟩

/-- FULL statement, on the codec model: whatever stream a V1 or V2 `ReadPacket` decodes successfully
(under any environment, any chunking) yields a packet `q` that can be written again — by either
format, under any environment: `WritePacket` returns a byte count or one of its three ordinary errors
(reference count, frame limit, compressor), never a panic. On the way: the decoded body is a normal
body of the C07 model with a wire form `w`, and the codec model's `BodyToBytes` produces that same `w`
whenever its varint parameters are Go's. -/
theorem C07_resend (P7 : Params) (hv7 : Valid P7) (P : Codec.Params) (hv : Codec.Valid01 P) (hc : Consistent P7 P)
    (F F' : Codec.Fmt) (_hF : F = P.v1 ∨ F = P.v2) (hF' : F' = P.v1 ∨ F' = P.v2) (e e' : Codec.Env)
    (cs : Codec.Chunks) (q : Codec.Pkt) (_hq : (Codec.readPacket P F e cs).res = .ok q) :
    (Normal (ofPkt q).body ∧ ∃ w, bodyToBytes P7 (ofPkt q).body = .ok w ∧
      (GoVarints e' → Codec.bodyToBytes P e' q.body = some w)) ∧
    ((∃ n, (Codec.writePacket P F' e' q).ret = .ok n) ∨ (Codec.writePacket P F' e' q).ret = .error .refcount ∨
      (Codec.writePacket P F' e' q).ret = .error .overflow ∨ (Codec.writePacket P F' e' q).ret = .error .compress) ∧
    (∀ er, (Codec.writePacket P F' e' q).ret = .error er → er.isPanic = false) := by
  have hnil : P.nilBodyEncodes = true := by
    obtain ⟨_, _, _, _, _, _, _, _, h, _⟩ := hv7
    rw [hc.2.2.2, h]
  have htot := C01.C01_write_total P hv F' hF' e' q (encodable_any hnil e' q)
  obtain ⟨w, hw, hagree⟩ := bodyToBytes_ofBody (P := P) hv7 hc q.body
  refine ⟨⟨ofBody_normal q.body, w, hw, hagree e'⟩, htot, ?_⟩
  intro er her
  rcases htot with ⟨n, h⟩ | h | h | h <;> rw [h] at her <;> cases her <;> rfl

/-! ### error codes -/

/-- locally: the code placed on a packet is the code read from it, whatever its command, flags and
previous body; and nothing but the error bit of the flags changes -/
theorem C07_errno_local (P : Params) (hv : Valid P) (p : Packet) (ec : BitVec 32) :
    errno P (setErrno P p ec) = ec ∧ (setErrno P p ec).flg = p.flg ||| errBit P ∧
    (setErrno P p ec).body = .i64 (ec.signExtend 64) := by
  refine ⟨?_, rfl, rfl⟩
  unfold errno setErrno
  simp only [or_and_self_right, errBit_ne_zero hv, ne_eq, not_false_eq_true, if_true,
    hv.2.2.2.2.2.2.2.2.2, setWidth_signExtend32]

/-- zero when no error is flagged -/
theorem C07_errno_unflagged (P : Params) (p : Packet) (h : p.flg &&& errBit P = 0) : errno P p = 0 := by
  unfold errno; simp [h]

/-- the model's own `crossWire` (the wire reduced to "flag byte and body bytes arrive"), which is what
the harness compares with the real V1 and V2 codecs on every generated case, and which
`C07_wire_refines` shows the codec model to implement: setErrno → body bytes (zig-zag varint) → the
receiver's `binary.Varint` → SetBody → Errno gives back the code, for every int32 -/
theorem C07_errno_crosswire (P : Params) (hv : Valid P) (p : Packet) (ec : BitVec 32) :
    ∃ q, crossWire P (setErrno P p ec) = .ok q ∧ errno P q = ec ∧ q.flg = p.flg ||| errBit P := by
  have hb : bodyToBytes P (setErrno P p ec).body = .ok (putVarint (ec.signExtend 64)) :=
    encodeInto_varint hv _
  have hne : putVarint (ec.signExtend 64) ≠ [] := by
    intro h0; have := (putVarint_length (ec.signExtend 64)).1; rw [h0] at this; simp at this
  refine ⟨{ cmd := p.cmd, seq := p.seq, typ := 0, flg := p.flg ||| errBit P, node := 0,
            body := recvBody P (p.flg ||| errBit P) (putVarint (ec.signExtend 64)),
            refers := [], endpoint := none }, ?_, ?_, rfl⟩
  · unfold crossWire; rw [hb]; rfl
  · have hv1 := varint_putVarint (ec.signExtend 64) []
    rw [List.append_nil] at hv1
    unfold errno recvBody
    cases hp : putVarint (ec.signExtend 64) with
    | nil => exact absurd hp hne
    | cons c cs =>
      rw [hp] at hv1
      simp only [or_and_self_right, errBit_ne_zero hv, ne_eq, not_false_eq_true, if_true,
        hv.2.2.2.2.2.2.2.2.2, hv1, setWidth_signExtend32]

/-- the codec model implements `crossWire`: a packet whose body has a wire form (`toBody`), with
the two codec flag bits clear and within the format's limits, written by `WritePacket` of V1 or V2
under any lawful environment with Go's varints and followed by anything on the stream, is decoded —
however the stream is chunked — to a packet with exactly the flag byte, body, command and sequence
number `crossWire` computes, and the reader stops at the end of the frame -/
theorem C07_wire_refines (P7 : Params) (hv7 : Valid P7) (P : Codec.Params) (hv : Codec.Valid01 P)
    (hc : Consistent P7 P) (F : Codec.Fmt) (hF : F = P.v1 ∨ F = P.v2) (e : Codec.Env) (hl : e.Lawful)
    (hg : GoVarints e) (p : Packet) (cb : Codec.Body) (hb : toBody p.body = some cb)
    (wf : Codec.WF F (toPkt p cb)) (fit : Codec.Fits P F e (toPkt p cb)) (tail : Bytes) (cs : Codec.Chunks)
    (hcs : Codec.flat cs = (Codec.writePacket P F e (toPkt p cb)).bytes ++ tail) :
    ∃ q r, (Codec.readPacket P F e cs).res = .ok q ∧ Codec.flat (Codec.readPacket P F e cs).rest = tail ∧
      crossWire P7 p = .ok r ∧ (ofPkt q).flg = r.flg ∧ (ofPkt q).body = r.body ∧
      (ofPkt q).cmd = r.cmd ∧ (ofPkt q).seq = r.seq :=
  codec_refines_crossWire hv7 hv hc hF hl hg hb wf fit hcs

/-- FULL statement, on the codec model: for every int32 code `ec`, both formats, any lawful
environment (compression threshold, zlib, cipher pair) with Go's varints and any chunking, the
packet on which `SetErrno(ec)` was called — encoded by `WritePacket`, decoded by `ReadPacket` — reads
`Errno() = ec` on the receiver's side (and the error bit arrived); a packet sent without the error
bit reads 0. `wf`/`fit`: the caller did not set a codec bit, V2 carries ≤ 255 references, the frame
is within the format's limit — the hypotheses of C01's round trip. -/
theorem C07_errno_wire (P7 : Params) (hv7 : Valid P7) (P : Codec.Params) (hv : Codec.Valid01 P)
    (hc : Consistent P7 P) (F : Codec.Fmt) (hF : F = P.v1 ∨ F = P.v2) (e : Codec.Env) (hl : e.Lawful)
    (hg : GoVarints e) (tail : Bytes) (cs : Codec.Chunks) :
    (∀ (p : Packet) (ec : BitVec 32),
      let sent := toPkt (setErrno P7 p ec) (.int (ec.signExtend 64).toInt)
      Codec.WF F sent → Codec.Fits P F e sent →
      Codec.flat cs = (Codec.writePacket P F e sent).bytes ++ tail →
      ∃ q, (Codec.readPacket P F e cs).res = .ok q ∧ Codec.flat (Codec.readPacket P F e cs).rest = tail ∧
        errno P7 (ofPkt q) = ec ∧ (ofPkt q).flg = p.flg ||| errBit P7) ∧
    (∀ (p : Packet) (cb : Codec.Body), toBody p.body = some cb → p.flg &&& errBit P7 = 0 →
      Codec.WF F (toPkt p cb) → Codec.Fits P F e (toPkt p cb) →
      Codec.flat cs = (Codec.writePacket P F e (toPkt p cb)).bytes ++ tail →
      ∃ q, (Codec.readPacket P F e cs).res = .ok q ∧ Codec.flat (Codec.readPacket P F e cs).rest = tail ∧
        errno P7 (ofPkt q) = 0) := by
  constructor
  · intro p ec sent wf fit hcs
    obtain ⟨q, r, hq, hrest, hr, hflg, hbody, hcmd, _⟩ :=
      codec_refines_crossWire (p := setErrno P7 p ec) hv7 hv hc hF hl hg rfl wf fit hcs
    obtain ⟨r', hr', herr, hflg'⟩ := C07_errno_crosswire P7 hv7 p ec
    rw [hr] at hr'; injection hr' with hr'; subst hr'
    exact ⟨q, hq, hrest, by rw [errno_congr P7 hflg hbody hcmd, herr], by rw [hflg, hflg']⟩
  · intro p cb hb hflag wf fit hcs
    obtain ⟨q, r, hq, hrest, hr, hflg, _, _, _⟩ :=
      codec_refines_crossWire hv7 hv hc hF hl hg hb wf fit hcs
    refine ⟨q, hq, hrest, C07_errno_unflagged P7 _ ?_⟩
    have : r.flg = p.flg := by
      unfold crossWire at hr
      cases hbb : bodyToBytes P7 p.body with
      | ok raw => rw [hbb] at hr; injection hr with hr; rw [← hr]
      | panic => rw [hbb] at hr; cases hr
      | unmodelled => rw [hbb] at hr; cases hr
    rw [hflg, this, hflag]

/-! ### replies and refusals -/

/-- a reply carries the request's sequence number, type, node, reference list (and flags), the given
command and body, and goes to the endpoint the request is bound to; without an endpoint the call
panics (nil dereference) and nothing is sent -/
theorem C07_reply (P : Params) (m : Packet) (cmd : BitVec 32) (body : GoVal) :
    (∀ e, m.endpoint = some e → ∃ pkt, replyWith P m cmd body = .ok (e, pkt) ∧
      pkt.seq = m.seq ∧ pkt.typ = m.typ ∧ pkt.node = m.node ∧ pkt.refers = m.refers ∧
      pkt.flg = m.flg ∧ pkt.cmd = cmd ∧ pkt.body = body) ∧
    (m.endpoint = none → replyWith P m cmd body = .panic) := by
  constructor
  · intro e he
    refine ⟨{ mkNew P cmd m.seq m.flg body with typ := m.typ, node := m.node, refers := m.refers },
      ?_, rfl, rfl, rfl, rfl, rfl, rfl, rfl⟩
    unfold replyWith sendOn; rw [he]
  · intro he; unfold replyWith sendOn; rw [he]

/-- a refusal carries the request's sequence number, type, node and reference list, has the error
flag (other flag bits as in the request), carries the given code — as its body and as what `Errno`
reads — and goes to the endpoint the request is bound to -/
theorem C07_refuse (P : Params) (hv : Valid P) (m : Packet) (cmd ec : BitVec 32) :
    (∀ e, m.endpoint = some e → ∃ pkt, refuseWith P m cmd ec = .ok (e, pkt) ∧
      pkt.seq = m.seq ∧ pkt.typ = m.typ ∧ pkt.node = m.node ∧ pkt.refers = m.refers ∧
      pkt.flg = m.flg ||| errBit P ∧ pkt.flg &&& errBit P ≠ 0 ∧ pkt.cmd = cmd ∧
      pkt.body = .i64 (ec.signExtend 64) ∧ errno P pkt = ec) ∧
    (m.endpoint = none → refuseWith P m cmd ec = .panic) := by
  constructor
  · intro e he
    have hflg : (m.flg ||| errBit P ||| errBit P) = m.flg ||| errBit P := by
      rw [BitVec.or_assoc, BitVec.or_self]
    refine ⟨setErrno P { mkNew P cmd m.seq (m.flg ||| errBit P) .nil with
        typ := m.typ, node := m.node, refers := m.refers } ec, ?_, rfl, rfl, rfl, rfl, ?_, ?_, rfl, rfl, ?_⟩
    · unfold refuseWith sendOn; rw [he]
    · simp only [setErrno, mkNew, hflg]
    · simp only [setErrno, mkNew, hflg, or_and_self_right]; exact errBit_ne_zero hv
    · exact (C07_errno_local P hv _ ec).1
  · intro he; unfold refuseWith sendOn; rw [he]

/-- `Reply`/`Refuse` choose the command (the registered id, or the request's own command when the
registry answers 0) and are otherwise `ReplyWith`/`RefuseWith` -/
theorem C07_reply_refuse_command (P : Params) (m : Packet) (id ec : BitVec 32) :
    reply P m id = replyWith P m (if id = 0 then m.cmd else id) .msg ∧
    refuse P m id ec = refuseWith P m (if id = 0 then m.cmd else id) ec := ⟨rfl, rfl⟩

/-! ### non-vacuity (labelled tests on sample values, on the regenerated parameters) -/

/-- test: command 77, code 5 — the D9 example reads 5, not 77 -/
example : errno params (setErrno params (mkNew params 77 9 0x20 (.str [1, 2])) 5) = 5 :=
  (C07_errno_local params C07_valid _ 5).1

/-- test: the most negative code crosses the (identity) wire -/
example : ∃ q, crossWire params (setErrno params (mkNew params 77 9 0x20 .nil) (BitVec.ofInt 32 (-2147483648))) = .ok q ∧
    errno params q = BitVec.ofInt 32 (-2147483648) ∧ q.flg = 0x20 ||| errBit params :=
  C07_errno_crosswire params C07_valid _ _

/-- test: `SetErrno(-70000)` on command 77 crosses the V1 and the V2 codec model (regenerated
parameters, toy zlib, toy cipher that really encrypts the three body bytes, two bytes of the next
frame already on the stream) and reads -70000 -/
example : ∀ F, F = C01.params.v1 ∨ F = C01.params.v2 →
    ∃ q, (Codec.readPacket C01.params F demoGoEnv
        [(Codec.writePacket C01.params F demoGoEnv demoErrSent).bytes ++ [9, 9]]).res = .ok q ∧
      errno params (ofPkt q) = BitVec.ofInt 32 (-70000) := fun F hF =>
  let ⟨q, h1, _, h3, _⟩ := (C07_errno_wire params C07_valid C01.params C01.C01_valid C07_valid_codec F hF
    demoGoEnv demoGoEnv_lawful demoGoEnv_go [9, 9] _).1 demoErrPacket demoErrCode
    (by rcases hF with h | h <;> subst h <;> decide) (demoErr_fits F hF)
    (by simp only [Codec.flat, List.flatten_cons, List.flatten_nil, List.append_nil]; rfl)
  ⟨q, h1, h3⟩

/-- test: the packet the V2 decoder produces for C01's demo frame (compressed, encrypted, two
references) can be written again by V1 under another environment -/
example : ∀ er, (Codec.writePacket C01.params C01.params.v1 demoGoEnv C01.demoPkt).ret = .error er → er.isPanic = false :=
  (C07_resend params C07_valid C01.params C01.C01_valid C07_valid_codec C01.params.v2 C01.params.v1
    (Or.inr rfl) (Or.inl rfl) Codec.demoEnv demoGoEnv
    [(Codec.writePacket C01.params C01.params.v2 Codec.demoEnv C01.demoPkt).bytes ++ [9, 9]] C01.demoPkt
    (C01.C01_v2_roundtrip C01.params C01.C01_valid Codec.demoEnv Codec.demoEnv_lawful C01.demoPkt (by decide) (by decide)
      (C01.demo_fits _ (Or.inr rfl)) [9, 9] _ (by simp [Codec.flat])).1).2.2

/-- test: a uint64 above MaxInt64 reads back as the same 64 bits -/
example : ∃ r, setBody params (.u64 (BitVec.ofNat 64 (2^64 - 1))) = .ok (.i64 r) ∧ r = BitVec.ofInt 64 (2^64 - 1) :=
  let ⟨r, h1, _, h3, _⟩ := C07_readback_int params (.u64 (BitVec.ofNat 64 (2^64 - 1))) (2^64 - 1) (by decide)
  ⟨r, h1, h3⟩

/-- test: an int8 -5 reads back as -5 -/
example : ∃ r : BitVec 64, setBody params (.i8 (BitVec.ofInt 8 (-5))) = .ok (.i64 r) ∧ r.toInt = -5 :=
  let ⟨r, h1, _, _, h4⟩ := C07_readback_int params (.i8 (BitVec.ofInt 8 (-5))) (-5) (by decide)
  ⟨r, h1, h4 (by decide)⟩

/-- test: 1.0f widens to 1.0, the smallest subnormal 2^-149 to the normal float64 0x36a0000000000000,
and a signalling NaN with payload to the quiet NaN with the same payload (amd64) or to the canonical
NaN (386), which leaves finite values alone -/
example : widen 0x3f800000 = 0x3ff0000000000000 ∧ widen 1 = 0x36a0000000000000 ∧
    widenOn false 0xff800001 = 0xfff8000020000000 ∧ widenOn true 0xff800001 = 0x7ff8000000000000 ∧
    widenOn true 1 = 0x36a0000000000000 := by decide

/-- test: on a 32-bit build MinInt32 is an `int` of the model and MaxInt32+1 is not; it reads back as -2^31 -/
example : (GoVal.int (BitVec.ofInt 64 (-2147483648))).inWord 32 = true ∧
    (GoVal.int (BitVec.ofInt 64 2147483648)).inWord 32 = false ∧
    setBody (archParams 32 true) (.int (BitVec.ofInt 64 (-2147483648))) = .ok (.i64 (BitVec.ofInt 64 (-2147483648))) := by decide


/-- test: the hypothesis of `C07_widen_exact` is met by a subnormal (scaled magnitude 3·2^925) -/
example : ∃ v, f32Scaled 0x80000003 = some v ∧ v.1 = true := ⟨_, rfl, by decide⟩

/-- test: the absent body a decoder leaves for an empty frame has the empty wire form (D8) -/
example : bodyToBytes params (recvBody params 0 []) = .ok [] := by decide

/-- test: its refusal with code -1 -/
example : ∃ pkt, refuseWith params sampleRequest 7 (BitVec.ofInt 32 (-1)) = .ok (3, pkt) ∧ pkt.refers = [1, 2] ∧
      errno params pkt = BitVec.ofInt 32 (-1) :=
  let ⟨pkt, h, _, _, _, hr, _, _, _, _, he⟩ := (C07_refuse params C07_valid sampleRequest 7 (BitVec.ofInt 32 (-1))).1 3 rfl
  ⟨pkt, h, hr, he⟩

end Fatchoy.C07
