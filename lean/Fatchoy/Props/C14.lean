/-
C14 — the word-filter dictionary is exactly the words added and not removed.
Property theorems only. `run P ops` is the trie (Model/C14.lean, the code of hashtrie.go) after the history
`ops` of AddWord/Remove/Reset calls starting from `NewHashTrie()`; `spec ops` (Lemmas/C14.lean) is the
reference dictionary — a plain list used as a set: AddWord puts a non-empty new word in, Remove filters
the word out, Reset empties it. Runes are code points; `P.wild` is the wildcard rune, `P.mask` the rune
`Filter` writes. `w <:+: text` = "w occurs in text" (contiguous), `p <+: e` = "p is a prefix of e".
-/
import Fatchoy.Lemmas.C14Match
namespace Fatchoy.C14

/-- the regenerated facts satisfy the side-conditions: `Remove` looks words up literally, the mask is '*' -/
theorem C14_valid : Valid params := by decide

/-- the reference dictionary is "the words added and not since removed": how one more call changes it -/
theorem C14_dictionary_step (ops : List Op) (o : Op) (w : List Nat) :
    w ∈ spec (ops ++ [o]) ↔
      match o with
      | .add v => w ∈ spec ops ∨ (w = v ∧ v ≠ [])
      | .remove v => w ∈ spec ops ∧ w ≠ v
      | .reset => False := by
  have hs : spec (ops ++ [o]) = specStep (spec ops) o := by simp [spec, List.foldl_append]
  rw [hs]
  cases o with
  | add v =>
    simp only [specStep]
    by_cases hv : v = [] ∨ v ∈ spec ops
    · simp only [hv, if_true]
      constructor
      · exact Or.inl
      · rintro (h | ⟨rfl, h2⟩)
        · exact h
        · rcases hv with hv | hv
          · exact absurd hv h2
          · exact hv
    · simp only [hv, if_false, List.mem_cons]
      have hvne : v ≠ [] := fun h => hv (Or.inl h)
      constructor
      · rintro (h | h)
        · exact Or.inr ⟨h, hvne⟩
        · exact Or.inl h
      · rintro (h | ⟨h, _⟩)
        · exact Or.inr h
        · exact Or.inl h
  | remove v => simp [specStep, List.mem_filter]
  | reset => simp [specStep]

/-- after every history the terminal marks of the trie are exactly the reference dictionary, its words are
  distinct and non-empty, `WordsCount` is their number, and `Remove` reports whether the word is in it -/
theorem C14_dictionary (P : Params) (hv : Valid P) (ops : List Op) :
    (run P ops).ends = spec ops ∧ (spec ops).Nodup ∧ [] ∉ spec ops ∧
    (run P ops).size = (spec ops).length ∧
    ∀ w, (remove P (run P ops) w).2 = decide (w ∈ spec ops) := by
  obtain ⟨hwf, he⟩ := run_spec P hv.1 ops
  refine ⟨he, he ▸ hwf.nodup, he ▸ hwf.nil_not_end, he ▸ hwf.size_eq, ?_⟩
  intro w
  rw [← he]
  by_cases hw : w ∈ (run P ops).ends
  · simp [hw, (remove_present P hv.1 _ hwf w hw).1]
  · simp [hw, remove_absent P hv.1 _ hwf w hw]

/-- removing a word takes exactly that word out of the dictionary and keeps the trie's state in step with
  it (all later observations are those of the history with the removal, by the other theorems); removing
  something that is not in the dictionary changes nothing at all -/
theorem C14_remove (P : Params) (hv : Valid P) (ops : List Op) (w : List Nat) :
    (w ∈ spec ops → ∀ v, v ∈ (remove P (run P ops) w).1.ends ↔ v ∈ spec ops ∧ v ≠ w) ∧
    (w ∉ spec ops → (remove P (run P ops) w).1 = run P ops) := by
  obtain ⟨hwf, he⟩ := run_spec P hv.1 ops
  rw [← he]
  constructor
  · intro hw v
    rw [(remove_present P hv.1 _ hwf w hw).2.1]
    simp [List.mem_filter]
  · intro hw
    rw [remove_absent P hv.1 _ hwf w hw]

/-- after every history the nodes of the trie are exactly the non-empty prefixes of the dictionary words:
  every prefix of every word is there (a walk along a word never falls off the trie), and pruning has
  removed everything else -/
theorem C14_prefixes (P : Params) (hv : Valid P) (ops : List Op) (p : List Nat) :
    p ∈ (run P ops).nodes ↔ p ≠ [] ∧ ∃ e ∈ spec ops, p <+: e := by
  obtain ⟨hwf, he⟩ := run_spec P hv.1 ops
  rw [← he]
  exact hwf.nodes_iff p

/-- how texts match depends on the dictionary alone, not on the history that produced it: every observation
  equals the observation on the trie built by adding the words of the resulting dictionary to a fresh
  trie. In particular a removal never changes how the remaining words match. Wildcards included. -/
theorem C14_remove_iso (P : Params) (hv : Valid P) (ops : List Op) (text : List Nat) :
    exactMatch P (run P ops) text = exactMatch P (run P ((spec ops).map Op.add)) text ∧
    contains P (run P ops) text = contains P (run P ((spec ops).map Op.add)) text ∧
    filter P (run P ops) text = filter P (run P ((spec ops).map Op.add)) text := by
  obtain ⟨hwf, he⟩ := run_spec P hv.1 ops
  obtain ⟨hwf', he'⟩ := run_spec P hv.1 ((spec ops).map Op.add)
  have hsame : Same (run P ops) (run P ((spec ops).map Op.add)) := by
    apply same_of_wf hwf hwf'
    intro p
    rw [he, he', mem_spec_adds]
    constructor
    · intro h; exact ⟨h, fun h0 => hwf.nil_not_end (he ▸ h0 ▸ h)⟩
    · exact fun h => h.1
  exact ⟨exactMatch_same P hsame text, contains_same P hsame text, filterLoop_same P hsame _ text rfl⟩

/-- literal dictionary (no word contains '*'): a text is reported iff some dictionary word occurs in it -/
theorem C14_contains (P : Params) (hv : Valid P) (ops : List Op) (hlit : ∀ e ∈ spec ops, P.wild ∉ e)
    (text : List Nat) :
    contains P (run P ops) text = true ↔ ∃ w ∈ spec ops, w <:+: text := by
  obtain ⟨hwf, he⟩ := run_spec P hv.1 ops
  have hl : Literal P (run P ops) := by intro e h; exact hlit e (he ▸ h)
  rw [contains_iff P _ hwf (literal_noCompete P _ hwf hl), ← he]
  unfold Occurs
  constructor
  · rintro ⟨w, hw, j, hm⟩
    exact ⟨w, hw, (exists_prefix_drop_iff_infix w text).mp ⟨j, (pmatches_literal _ _ _ (hl w hw)).mp hm⟩⟩
  · rintro ⟨w, hw, hin⟩
    obtain ⟨j, hj⟩ := (exists_prefix_drop_iff_infix w text).mpr hin
    exact ⟨w, hw, j, (pmatches_literal _ _ _ (hl w hw)).mpr hj⟩

/-- `Filter` keeps the length of the text (in runes) — for every dictionary, wildcards included -/
theorem C14_filter_length (P : Params) (hv : Valid P) (ops : List Op) (text : List Nat) :
    (filter P (run P ops) text).length = text.length :=
  filterLoop_length P _ (run_spec P hv.1 ops).1 _ text rfl

/-- literal dictionary: filtering keeps the length, changes a rune only into the mask and only inside an
  occurrence of a dictionary word in the text, and leaves no dictionary word in the result -/
theorem C14_filter (P : Params) (hv : Valid P) (ops : List Op) (hlit : ∀ e ∈ spec ops, P.wild ∉ e)
    (text : List Nat) :
    (filter P (run P ops) text).length = text.length ∧
    (∀ i, i < text.length →
      (filter P (run P ops) text)[i]? = text[i]? ∨
      ((filter P (run P ops) text)[i]? = some P.mask ∧
        ∃ w ∈ spec ops, ∃ j, j ≤ i ∧ i < j + w.length ∧ w <+: text.drop j)) ∧
    ∀ w ∈ spec ops, ¬ w <:+: filter P (run P ops) text := by
  obtain ⟨hwf, he⟩ := run_spec P hv.1 ops
  have hl : Literal P (run P ops) := by intro e h; exact hlit e (he ▸ h)
  refine ⟨filterLoop_length P _ hwf _ text rfl, ?_, ?_⟩
  · intro i hi
    rcases filterLoop_positions P _ hwf _ text rfl i hi with h | ⟨h, w, hw, j, h1, h2, hm⟩
    · exact Or.inl h
    · exact Or.inr ⟨h, w, he ▸ hw, j, h1, h2, (pmatches_literal _ _ _ (hl w hw)).mp hm⟩
  · intro w hw
    exact filterLoop_no_word P _ hwf hl hv.2 _ text rfl w (he ▸ hw)

/-- dictionaries in which literal and wildcard branches cannot compete: a text is reported iff some
  dictionary word matches a contiguous piece of it with '*' standing for exactly one arbitrary rune -/
theorem C14_wildcard (P : Params) (hv : Valid P) (ops : List Op) (hnc : NoCompeteDict P.wild (spec ops))
    (text : List Nat) :
    contains P (run P ops) text = true ↔
      ∃ w ∈ spec ops, ∃ a u b, text = a ++ u ++ b ∧ WildMatch P.wild w u := by
  obtain ⟨hwf, he⟩ := run_spec P hv.1 ops
  rw [contains_iff P _ hwf (noCompete_of_dict P _ hwf (he ▸ hnc)), occurs_iff_wild, he]

/-- …and there `Filter` masks only positions inside such a match (and keeps the length: `C14_filter_length`) -/
theorem C14_wildcard_filter (P : Params) (hv : Valid P) (ops : List Op) (text : List Nat) (i : Nat)
    (hi : i < text.length) :
    (filter P (run P ops) text)[i]? = text[i]? ∨
    ((filter P (run P ops) text)[i]? = some P.mask ∧
      ∃ w ∈ spec ops, ∃ j u, j ≤ i ∧ i < j + w.length ∧ u <+: text.drop j ∧ WildMatch P.wild w u) := by
  obtain ⟨hwf, he⟩ := run_spec P hv.1 ops
  rcases filterLoop_positions P _ hwf _ text rfl i hi with h | ⟨h, w, hw, j, h1, h2, hm⟩
  · exact Or.inl h
  · obtain ⟨u, hu, hwm⟩ := (pmatches_iff_wildMatch _ _ _).mp hm
    exact Or.inr ⟨h, w, he ▸ hw, j, u, h1, h2, hu, hwm⟩

/-! ### non-vacuity (tests on samples, by evaluation). a=97 b=98 c=99 x=120 '*'=42 -/

/-- the history of D14: add "aa", add "aab", add "ab", remove "aa" — "aab" and "ab" stay, the node "aa" stays
  (it leads to "aab"), and `Remove` reported true -/
example : spec [.add [97,97], .add [97,97,98], .add [97,98], .remove [97,97]] = [[97,98], [97,97,98]] ∧
    (run params [.add [97,97], .add [97,97,98], .add [97,98], .remove [97,97]]).nodes
      = [[97,98], [97,97,98], [97,97], [97]] ∧
    (remove params (run params [.add [97,97], .add [97,97,98], .add [97,98]]) [97,97]).2 = true ∧
    (run params [.add [97,97], .add [97,97,98], .add [97,98], .remove [97,97]]).size = 2 := by decide
/-- pruning: removing "aab" as well leaves only "ab" and its prefix -/
example : (run params [.add [97,97], .add [97,97,98], .add [97,98], .remove [97,97], .remove [97,97,98]]).nodes
    = [[97,98], [97]] := by decide
/-- the hypotheses of `C14_contains`/`C14_filter` hold for that history, and "xaabx" contains "aab" -/
example : contains params (run params [.add [97,97], .add [97,97,98], .add [97,98], .remove [97,97]]) [120,97,97,98,120] = true :=
  (C14_contains params C14_valid _ (by decide) _).mpr ⟨[97,97,98], by decide, by decide⟩
/-- with "a*" in the dictionary `Remove("ab")` reports false and changes nothing (the other half of D14) -/
example : remove params (run params [.add [97,42]]) [97,98] = (run params [.add [97,42]], false) := by decide
/-- `C14_wildcard`: the dictionary {"a*"} has no competing branches; "xab" is reported -/
example : contains params (run params [.add [97,42]]) [120,97,98] = true := by
  refine (C14_wildcard params C14_valid _ ?_ _).mpr ⟨[97,42], by decide, [120], [97,98], [], by decide, ⟨Or.inr rfl, Or.inl rfl, trivial⟩⟩
  rintro p c ⟨e, he, h1⟩ ⟨e', he', h2⟩
  have he1 : e = [97,42] := by simpa [spec, specStep] using he
  have he2 : e' = [97,42] := by simpa [spec, specStep] using he'
  subst he1 he2
  match p, h1, h2 with
  | [], h1, _ => simp [List.cons_prefix_cons, params, Gen.C14.wildCard] at h1
  | [a], h1, h2 =>
    simp only [List.cons_append, List.nil_append, List.cons_prefix_cons] at h1 h2
    exact h2.2.1.trans h1.2.1.symm
  | a :: b :: p, h1, _ =>
    have := h1.length_le
    simp at this
/-- a dictionary where the branches compete ({"ax", "*b"}: after 'a' the literal branch wins and "ab" is
  missed) — why `C14_wildcard` needs its hypothesis -/
example : contains params (run params [.add [97,120], .add [42,98]]) [97,98] = false := by decide

end Fatchoy.C14
