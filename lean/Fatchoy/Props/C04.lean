/-
C04 — connection shutdown is safe under every interleaving.
Property theorems only.  Model: Model/Conn.lean (LTS of TcpConn at the level of its synchronisation operations,
after the repairs of D2/D3/D4); invariants: Lemmas/Conn*.lean.  `Reachable cfg s` quantifies over ALL action
sequences: any number of SendPacket / Close / ForceClose callers, the reader closing on its own after a peer
FIN / RST / garbage / read timeout, full or drained inbound and error channels, every schedule.
Every place the real code would panic is an explicit outcome of the model (`panics`): send on the closed queue,
close of a closed or nil channel, negative WaitGroup, nil connection, `Go` twice.
Not carried by these theorems (see conf/C04.json): the listener (TcpServer) is checked by the harness' oracle
and its sync-op skeleton only.  Liveness is `C04_no_stuck` + `C04_no_deadlock` (a measure every internal step
decreases); that the Go scheduler eventually runs an enabled goroutine is assumed.
-/
import Fatchoy.Lemmas.ConnMeasure
import Fatchoy.Lemmas.ListenerLive
namespace Fatchoy.Conn

/-- the regenerated state constants satisfy the side-condition of the four-valued abstraction -/
theorem C04_valid : Valid paramsC04 := by decide

/-- the abstraction of the state word is faithful for any constants that satisfy `Valid` -/
theorem C04_state_codes (P : Params) (hv : Valid P) (a b : St) : St.code P a = St.code P b ↔ a = b :=
  ⟨code_injective P hv a b, fun h => by rw [h]⟩

/-- no send on a closed queue, no close of a closed or nil channel, no negative WaitGroup, no nil connection:
  the only panic that any schedule can produce is the documented one of calling `Go` on a connection that is
  not in its initial state. -/
theorem C04_no_panic (cfg : Cfg) {s : State} (h : Reachable cfg s) : ∀ p ∈ s.panics, p = Panic.goTwice :=
  (inv5_reachable h).panics

/-- the CAS Running->Shutdown succeeds at most once: there is never a second elected closer, so `done` and the
  queue are closed at most once and `finally` runs at most once. -/
theorem C04_single_closer (cfg : Cfg) {s : State} (h : Reachable cfg s) :
    s.dupWin = false ∧ (s.st = .running → s.win = none) ∧ (∀ w, s.win = some w → w.pc ≠ .dead) := by
  have h1 := inv1_reachable h
  exact ⟨h1.noDup, win_none_of_running h1, fun w hw => (h1.some_ w hw).1.1⟩

/-- exactly one terminal error is offered per connection: never more than one; exactly one once the state is
  Terminated and whenever a winning caller of Close/ForceClose has returned; and it is the elected closer's. -/
theorem C04_single_error (cfg : Cfg) {s : State} (h : Reachable cfg s) :
    s.offered.length ≤ 1 ∧ (s.st = .terminated → s.offered.length = 1) ∧
    (∀ c ∈ s.cls, c.pc = .returned true → s.offered.length = 1) ∧
    (∀ e ∈ s.offered, ∃ w, s.win = some w ∧ w.err = e) := by
  have h1 := inv1_reachable h
  have h5 := inv5_reachable h
  cases hw : s.win with
  | none =>
    have hn := h1.none_ hw
    refine ⟨by simp [hn.2.2.2.1], ?_, ?_, by simp [hn.2.2.2.1]⟩
    · intro ht; rcases hn.1 with h' | h' <;> (rw [ht] at h'; simp at h')
    · intro c hc hr
      obtain ⟨w, hw', _⟩ := h5.retLink c hc hr
      rw [hw] at hw'; simp at hw'
  | some w =>
    have hp := h1.some_ w hw
    obtain ⟨_, hst, _, _, hoff, _, _, _, _⟩ := hp
    refine ⟨?_, ?_, ?_, ?_⟩
    · rw [hoff]; cases hpc : w.pc <;> simp [phaseOf]
    · intro ht; rw [hoff]; rw [ht] at hst
      cases hpc : w.pc <;> simp [hpc, phaseOf] at hst ⊢
    · intro c hc hr
      obtain ⟨w', hw', hret⟩ := h5.retLink c hc hr
      rw [hw] at hw'; injection hw' with hw'; subst hw'
      rw [hoff]
      cases hpc : w.pc <;> cases hg : w.graceful <;> simp [Winner.returnable, hpc, hg, phaseOf] at hret ⊢
    · intro e he
      rw [hoff] at he
      exact ⟨w, rfl, (List.eq_of_mem_replicate he).symm⟩

/-- offering the error never blocks: the elected closer's `notifyErr` step is enabled whatever the error
  channel holds (full, empty, nobody receiving). -/
theorem C04_notify_never_blocks (cfg : Cfg) (s : State) (w : Winner) (hw : s.win = some w)
    (hpc : w.pc = .notify) : (stepWin cfg s).isSome = true := by
  unfold stepWin
  simp only [hw, hpc]
  split
  · rfl
  · split <;> rfl

/-- once shutdown began the state word never says Running again -/
theorem C04_shutdown_monotone (cfg : Cfg) {s s' : State} (a : Action) (hs : step cfg s a = some s')
    (hl : s.st = .shutdown ∨ s.st = .terminated) : s'.st = .shutdown ∨ s'.st = .terminated :=
  (step_mono hs).2 hl

/-- a SendPacket whose check reads a state other than Running is refused: it moves on (never blocked) to
  return ErrConnIsClosing, and touches neither the queue nor anything else. -/
theorem C04_refused_step (cfg : Cfg) (s : State) (i : Nat) (p : Pkt) (hx : s.snd[i]? = some (.check p))
    (hst : s.st ≠ .running) :
    stepSnd cfg s i = some { s with snd := s.snd.set i (.unlock .closing) } ∧
    stepSnd cfg { s with snd := s.snd.set i (.unlock .closing) } i =
      some { s with snd := s.snd.set i (.ret .closing) } := by
  have hi : i < s.snd.length := by
    rcases Nat.lt_or_ge i s.snd.length with h | h
    · exact h
    · rw [List.getElem?_eq_none h] at hx; simp at hx
  constructor
  · unfold stepSnd; rw [hx]; simp [hst]
  · unfold stepSnd
    simp [hi]

/-- sends after shutdown began are refused: a SendPacket call that begins when the state word has left
  Running can — along every continuation of the schedule, until that caller calls again — only wait for
  the read lock, read the state, and return ErrConnIsClosing; and no packet at all is accepted meanwhile. -/
theorem C04_refused_after (cfg : Cfg) {s : State} (h : Reachable cfg s)
    (hl : s.st = .shutdown ∨ s.st = .terminated) (i : Nat) (p : Pkt) (hx : s.snd[i]? = some (.rlock p))
    (acts : List Action) (s' : State) (hr : run cfg s acts = some s') (hn : ∀ q, Action.sendCall i q ∉ acts) :
    (s'.snd[i]? = some (.rlock p) ∨ s'.snd[i]? = some (.check p) ∨ s'.snd[i]? = some (.unlock .closing) ∨
      s'.snd[i]? = some (.ret .closing)) ∧ s'.accepted = s.accepted := by
  obtain ⟨⟨x, hx', hP⟩, hacc, _⟩ := refused_path i p acts h hl ⟨_, hx, Or.inl rfl⟩ hr hn
  refine ⟨?_, hacc⟩
  rcases hP with rfl | rfl | rfl | rfl
  · exact Or.inl hx'
  · exact Or.inr (Or.inl hx')
  · exact Or.inr (Or.inr (Or.inl hx'))
  · exact Or.inr (Or.inr (Or.inr hx'))

/-- closing is idempotent: a Close/ForceClose caller whose CAS finds the state word not Running releases the
  lock and returns in its next two steps, both always enabled, changing nothing but its own program counter. -/
theorem C04_idempotent (s : State) (j : Nat) (c : Closer) (hc : s.cls[j]? = some c) (hpc : c.pc = .cas)
    (hst : s.st ≠ .running) :
    stepCls s j = some { s with cls := s.cls.set j { c with pc := .unlockLost } } ∧
    stepCls { s with cls := s.cls.set j { c with pc := .unlockLost } } j =
      some { s with cls := s.cls.set j { c with pc := .returned false } } := by
  have hj : j < s.cls.length := by
    rcases Nat.lt_or_ge j s.cls.length with h | h
    · exact h
    · rw [List.getElem?_eq_none h] at hc; simp at hc
  constructor
  · unfold stepCls; rw [hc]; simp [electStep, hpc, hst]
  · unfold stepCls
    simp [hj, electStep]

/-- when the state is Terminated both pumps have exited, the WaitGroup is at zero, `done` is closed, the write side of
  the socket is shut (the peer sees the stream end), and the receive side is shut exactly when the elected closer
  was a ForceClose: the graceful Close leaves it open (shutting it would let a frame of the peer that arrives
  after our FIN reset the connection and destroy flushed, not yet transmitted data). -/
theorem C04_terminated_clean (cfg : Cfg) {s : State} (h : Reachable cfg s) (ht : s.st = .terminated) :
    s.w = .exited ∧ s.r = .exited ∧ s.wg = 0 ∧ s.done = true ∧ s.writeShut = true ∧
    ∃ w, s.win = some w ∧ s.readShut = !w.graceful := by
  have h1 := inv1_reachable h
  cases hw : s.win with
  | none => rcases (h1.none_ hw).1 with h' | h' <;> (rw [ht] at h'; simp at h')
  | some w =>
    obtain ⟨_, hst, hrs, hdn, _, hgone, hws, _, _⟩ := h1.some_ w hw
    rw [ht] at hst
    have hg : (phaseOf w.graceful w.pc).gone = true ∧ (phaseOf w.graceful w.pc).done = true ∧
        (phaseOf w.graceful w.pc).readShut = !w.graceful ∧ (phaseOf w.graceful w.pc).writeShut = true := by
      cases hpc : w.pc <;> simp [hpc, phaseOf] at hst ⊢
    obtain ⟨hwx, hrx⟩ := hgone hg.1
    refine ⟨hwx, hrx, ?_, by rw [hdn, hg.2.1], by rw [hws, hg.2.2.2], w, rfl, by rw [hrs, hg.2.2.1]⟩
    rw [h1.wg_, hwx, hrx]; rfl

/-- no call can be blocked forever by the connection itself: in every reachable state in which a SendPacket,
  Close or ForceClose call has not returned, or the elected closer is not through `finally`, some step of a
  goroutine of the connection (not of the user, the peer or a consumer) is enabled — whatever the inbound and
  error channels hold and whatever the peer does.  (On the unfixed code this is false: reader in `deliver`
  with a full inbound queue, elected closer in `wait` — D4.) -/
theorem C04_no_stuck (cfg : Cfg) {s : State} (h : Reachable cfg s) (hu : Unfinished s) :
    ∃ a, a.internal = true ∧ (step cfg s a).isSome = true :=
  no_stuck cfg h hu

/-- no call blocks forever, under every schedule: `mu` is a measure that every step of the connection's own
  goroutines and of calls in progress strictly decreases (only the environment — new calls, frames from the
  peer, the read deadline — can raise it).  So from any reachable state, once the environment stops
  interfering, (1) every sequence of internal steps is at most `mu s` long, and (2) when no internal step is
  enabled any more, every SendPacket / Close / ForceClose call has returned and the elected closer (if any) is
  through `finally` — by `C04_terminated_clean` both pumps have then exited and the peer sees the stream end. -/
theorem C04_no_deadlock (cfg : Cfg) {s : State} (h : Reachable cfg s) (acts : List Action) (s' : State)
    (hi : ∀ a ∈ acts, a.internal = true) (hr : run cfg s acts = some s') :
    acts.length + mu s' ≤ mu s ∧
    ((∀ a, a.internal = true → step cfg s' a = none) →
      (∀ x ∈ s'.snd, ∃ r, x = .ret r) ∧ (∀ c ∈ s'.cls, ∃ b, c.pc = .returned b) ∧
      (∀ w, s'.win = some w → w.pc = .finished ∧ s'.st = .terminated ∧ s'.writeShut = true)) := by
  refine ⟨internal_run_bound acts hi hr, ?_⟩
  intro hnone
  have hr' := reachable_of_run acts h hr
  have hnu : ¬ Unfinished s' := by
    intro hu
    obtain ⟨a, ha, he⟩ := no_stuck cfg hr' hu
    rw [hnone a ha] at he; simp at he
  refine ⟨?_, ?_, ?_⟩
  · intro x hx
    cases x with
    | ret r => exact ⟨r, rfl⟩
    | rlock p => exact absurd (Or.inl ⟨_, hx, by simp⟩) hnu
    | check p => exact absurd (Or.inl ⟨_, hx, by simp⟩) hnu
    | send p => exact absurd (Or.inl ⟨_, hx, by simp⟩) hnu
    | unlock r => exact absurd (Or.inl ⟨_, hx, by simp⟩) hnu
  · intro c hc
    obtain ⟨g, pc⟩ := c
    cases pc with
    | returned b => exact ⟨b, rfl⟩
    | lock => exact absurd (Or.inr (Or.inl ⟨_, hc, by simp⟩)) hnu
    | cas => exact absurd (Or.inr (Or.inl ⟨_, hc, by simp⟩)) hnu
    | unlockLost => exact absurd (Or.inr (Or.inl ⟨_, hc, by simp⟩)) hnu
    | won => exact absurd (Or.inr (Or.inl ⟨_, hc, by simp⟩)) hnu
  · intro w hw
    have hf : w.pc = .finished := by
      cases hpc : w.pc with
      | finished => rfl
      | _ => exact absurd (Or.inr (Or.inr ⟨w, hw, by simp [hpc]⟩)) hnu
    have hp := (inv1_reachable hr').some_ w hw
    rw [hf] at hp
    simp only [phaseOf] at hp
    exact ⟨hf, hp.2.1, hp.2.2.2.2.2.2.1⟩

/-! ### non-vacuity: the interleaving that crashed the unfixed code (the Lean counter-example of D3) -/

def exCfg4 : Cfg := ⟨2, 1, 1, 0⟩
def exPkt (n : Nat) : Pkt := ⟨n, 10 + n, true⟩

/-- sender 0 passes its running check (it holds the read lock); a Close caller and — after a peer FIN — the
  reader both want to close; the sender enqueues and leaves; the Close caller wins, the reader loses; the
  inbound queue (capacity 1) is full and undrained, the reader is released by `done` (D4); a second Close and
  a late SendPacket follow.  With the repaired code this ends Terminated, without a panic, one error offered. -/
def exRace : List Action :=
  [.start, .peerSend (.frame (exPkt 100)), .rArm, .rChk, .rFrame, .rPush, .rCheck,
   .peerSend (.frame (exPkt 101)), .rArm, .rChk, .rFrame,
   .sendCall 0 (exPkt 1), .snd 0, .snd 0,          -- sender is at `send` (H2 point send.checked)
   .closeCall true,                                   -- Close: must wait for the read lock
   .snd 0, .snd 0,                                    -- enqueue, RUnlock
   .cls 0, .cls 0,                                    -- Lock, CAS: wins
   .closeCall false, .win, .cls 1, .cls 1, .cls 1,   -- ForceClose loses and returns
   .win, .win, .win,                                  -- close(done), SetReadDeadline(now), notifyErr
   .rDrop, .rWgDone,                                  -- the reader was stuck on the full inbound queue
   .wDone, .wFlush, .wWrite true, .wFlush, .wWgDone,
   .win, .win, .win, .win, .win, .cls 0,              -- finally; Close returns
   .sendCall 1 (exPkt 2), .snd 1, .snd 1, .snd 1]     -- a late send is refused

example : ∃ s, run exCfg4 (init exCfg4) exRace = some s ∧ s.st = .terminated ∧ s.panics = [] ∧
    s.offered = [.closed] ∧ wire s = [exPkt 1] ∧ s.dropped = [exPkt 101] ∧
    s.snd = [.ret .ok, .ret .closing] ∧ s.cls = [⟨true, .returned true⟩, ⟨false, .returned false⟩] := by
  refine ⟨_, rfl, ?_⟩
  decide

/-- the hypotheses of `C04_refused_after` are satisfiable: a call that begins after the election -/
example : ∃ s, run exCfg4 (init exCfg4) (exRace.take 21 ++ [.sendCall 1 (exPkt 2)]) = some s ∧
    s.st = .shutdown ∧ s.snd[1]? = some (.rlock (exPkt 2)) := by
  refine ⟨_, rfl, ?_⟩
  decide

/-- the state in which the unfixed code was stuck for ever (D4) is reachable: the elected closer waits in
  `wg.Wait`, the reader holds a frame for the full, undrained inbound queue — here `C04_no_stuck` provides a
  step (the reader's `select` takes `<-done`) and `C04_no_deadlock` bounds what is left to do by `mu` -/
example : ∃ s, run exCfg4 (init exCfg4) (exRace.take 27) = some s ∧ s.win = some ⟨true, .closed, .wait⟩ ∧
    s.r = .deliver (exPkt 101) ∧ s.inb.length = exCfg4.icap ∧ s.wg = 2 ∧ (stepRDrop s).isSome = true ∧ mu s = 36 ∧ s.readShut = false ∧ s.rdl = true := by
  refine ⟨_, rfl, ?_⟩
  decide

end Fatchoy.Conn

/-! ## the listener (`TcpServer.serve / accept / Close`) — Model/Listener.lean

`Reachable cfg s` quantifies over ALL action sequences of the listener LTS: any number of `Listen` calls (before
`Close`), clients connecting at any time, `Accept` failing for reasons of the environment, the consumer draining the
hand-off queue or not, every interleaving of the serve loops with the caller of `Close`.  -/
namespace Fatchoy.Listener

/-- the regenerated capacity of the hand-off queue satisfies the side-condition (the queue is buffered) -/
theorem Listener_valid : ValidCfg cfgGen := by decide

/-- no panic site is reachable: no send on the closed hand-off queue (it is closed only after every accept loop has
  exited), no close of a closed or nil channel, no negative WaitGroup; the shared error channel is never closed
  (the model has no such action: see the skeleton of tcp_server.go).  The only panic is the misuse the model makes
  explicit: calling `Close` a second time. -/
theorem Listener_no_panic (cfg : Cfg) {s : State} (h : Reachable cfg s) : ∀ p ∈ s.panics, p = Panic.closeTwice :=
  (inv_reachable h).panics

/-- every connection `Accept` returned is handed off, or was closed by the listener because it could not be handed
  off, or is the one a serve loop holds right now; the hand-off queue is FIFO and never over capacity. -/
theorem Listener_handoff (cfg : Cfg) {s : State} (h : Reachable cfg s) :
    s.accepted.length = s.handed.length + s.closed.length + (s.loops.map (fun l => (held l.pc).length)).sum ∧
    s.handed = s.taken ++ s.backlog ∧ s.backlog.length ≤ cfg.bcap := by
  have hi := inv_reachable h
  exact ⟨hi.count, hi.fifo, hi.room⟩

/-- `Close` is never stuck: once it was called and until it has returned, a step of a serve loop or of its caller is
  enabled — whether or not anybody drains the hand-off queue (a loop blocked on the full queue takes `<-done`),
  whatever the clients do. -/
theorem Listener_no_stuck (cfg : Cfg) {s : State} (h : Reachable cfg s) (hc : s.cl ≠ .idle ∧ s.cl ≠ .returned) :
    ∃ a, a.internal = true ∧ (step cfg s a).isSome = true :=
  no_stuck cfg h hc

/-- `Close` returns under every interleaving: `mu` strictly decreases with every internal step (only the
  environment — new clients — can raise it), so after `Close` was called every sequence of internal steps is at
  most `mu s` long, and when no internal step is enabled any more `Close` has returned. -/
theorem Listener_close_returns (cfg : Cfg) {s : State} (h : Reachable cfg s) (hc : s.cl ≠ .idle)
    (acts : List Action) (s' : State) (hi : ∀ a ∈ acts, a.internal = true) (hr : run cfg s acts = some s') :
    acts.length + mu s' ≤ mu s ∧ ((∀ a, a.internal = true → step cfg s' a = none) → s'.cl = .returned) := by
  refine ⟨internal_run_bound acts hi hr, ?_⟩
  intro hnone
  have hr' := run_reachable acts h hr
  have hni : s'.cl ≠ .idle := by
    clear hnone hr'
    induction acts generalizing s with
    | nil => simp [run] at hr; subst hr; exact hc
    | cons a as ih =>
      simp only [run] at hr
      cases hs : step cfg s a with
      | none => simp [hs] at hr
      | some s1 =>
        simp only [hs] at hr
        exact ih (Reachable.step a h hs) (step_cl_not_idle hs hc) (fun b hb => hi b (List.mem_cons_of_mem _ hb)) hr
  cases hcl : s'.cl with
  | returned => rfl
  | _ =>
    obtain ⟨a, ha, he⟩ := no_stuck cfg hr' ⟨hni, by rw [hcl]; simp⟩
    rw [hnone a ha] at he; simp at he

/-- after `Close` has returned: every accept loop has exited, every listening socket is closed, the WaitGroup is at
  zero, `done` is closed, and every connection `Accept` ever returned was either handed off or closed by the
  listener — none is left behind. -/
theorem Listener_after_close (cfg : Cfg) {s : State} (h : Reachable cfg s) (hc : s.cl = .returned) :
    (∀ l ∈ s.loops, l.pc = .exited ∧ l.isOpen = false) ∧ s.wg = 0 ∧ s.done = true ∧ s.bchan = .nil ∧
    s.accepted.length = s.handed.length + s.closed.length := by
  have hi := inv_reachable h
  have hex : ∀ l ∈ s.loops, l.pc = .exited := hi.gone (by rw [hc]; rfl)
  refine ⟨?_, ?_, by rw [hi.done_, hc]; rfl, by rw [hi.chan_, hc]; rfl, ?_⟩
  · intro l hl
    obtain ⟨i, hil⟩ := List.getElem?_of_mem hl
    exact ⟨hex l hl, hi.shut i l hil (by rw [hc]; trivial)⟩
  · rw [hi.wg_]
    have : ∀ (l : List Loop), (∀ x ∈ l, x.pc = .exited) → (l.map act).sum = 0 := by
      intro l
      induction l with
      | nil => intro _; rfl
      | cons a l ih =>
        intro hl
        simp [act, active, hl a List.mem_cons_self, ih (fun x hx => hl x (List.mem_cons_of_mem _ hx))]
    exact this s.loops hex
  · have := hi.count
    rw [held_sum_zero s.loops hex] at this
    simpa using this

/-- …and it stays that way: after `Close` has returned no step accepts, hands off or closes anything, and a client
  that connects is refused. -/
theorem Listener_frozen (cfg : Cfg) {s s' : State} (h : Reachable cfg s) (hc : s.cl = .returned) (a : Action)
    (hs : step cfg s a = some s') :
    s'.accepted = s.accepted ∧ s'.handed = s.handed ∧ s'.closed = s.closed ∧ s'.cl = .returned ∧
    (∀ i c, a = .dial i c → s'.refused = s.refused ++ [c]) :=
  frozen_step (inv_reachable h) hc hs

/-! ### non-vacuity: two listeners, a full hand-off queue nobody drains, a client arriving while `Close` runs -/

def exL : Cfg := ⟨1⟩

/-- listener 0 hands connection 1 off (the queue, capacity 1, is now full) and blocks on connection 2; listener 1
  has accepted connection 3 when `Close` closes `done`: it closes it; connection 4 waits in listener 1's accept queue
  when that listener is closed (reset by the kernel); the loop blocked on the full queue takes `<-done` and closes
  connection 2; `Close` returns; a late client is refused. -/
def exClose : List Action :=
  [.listen, .listen, .dial 0 1, .dial 0 2, .accept 0, .loop 0 false, .loop 0 false, .accept 0, .loop 0 false,
   .dial 1 3, .accept 1, .closeCall, .close, .dial 1 4, .close, .close, .close,
   .loop 1 false, .loop 1 false, .loop 0 true, .acceptClosed 0, .loop 0 false, .loop 0 false, .close,
   .close, .close, .dial 0 5]

example : ∃ s, run exL init exClose = some s ∧ s.cl = .returned ∧ s.accepted = [1, 2, 3] ∧ s.handed = [1] ∧
    s.closed = [3, 2] ∧ s.kreset = [4] ∧ s.refused = [5] ∧ s.backlog = [1] ∧ s.panics = [] := by
  refine ⟨_, rfl, ?_⟩
  decide

/-- the state in which the unrepaired `accept` was stuck for ever is reachable: `Close` waits in `wg.Wait`, a serve
  loop holds a connection for the full, undrained hand-off queue — `Listener_no_stuck` provides the step -/
example : ∃ s, run exL init (exClose.take 17) = some s ∧ s.cl = .wait ∧ s.backlog.length = exL.bcap ∧
    s.loops[0]? = some ⟨false, [], .offer 2⟩ ∧ s.wg = 2 ∧ (stepLoop exL s 0 true).isSome = true := by
  refine ⟨_, rfl, ?_⟩
  decide

end Fatchoy.Listener
