/-
C05 — timers fire exactly once, on their due tick, in due order (hashed hierarchical wheel and heap).

Property theorems only.  The models are Model/C05Wheel.lean (placement, cascade, shiftWheels) and
Model/C05Sched.lean (both schedulers as transition systems: client calls and worker steps are the
actions, so "every history" is "every action list"); helper lemmas are in Lemmas/C05*.lean; the
geometry is regenerated from /repo/sched into Gen/C05.lean.

Reading guide.  `WReach G s` / `HReach G s`: s is reachable from a fresh scheduler (wheel: ANY position
`off` and time) by ANY sequence of client calls and worker steps, with delays and periods of ANY size
(the wheel clamps a remaining delay ≥ 2^32 and looks at the node again at each cascade of its slot).
`has s.w.nodes id D P` / `hhas s.heap id D P`: the back end holds timer `id` with deadline D, period P.
`entries log id`: the deliveries of `id` in the log, newest first, as (time of delivery, id).
`WS.run G s acts = some s'`: the action list runs from s to s' (no step blocked, none panicked).
Time: the wheel's `time` moves only with `tick` (one unit per tick); the heap's clock moves with
`clock n` and its `tick` fires at the current clock value.
-/
import Fatchoy.Lemmas.C05Ex
import Fatchoy.Lemmas.C05Dues
import Fatchoy.Lemmas.C05BinHeapEx
import Fatchoy.Lemmas.C05Tr
namespace Fatchoy.C05

/-- the regenerated constants are exactly the geometry the proofs are carried out for
(8+6+6+6+6 bits, 32-bit position, clamp 2^32-1) and the request queues have room -/
theorem C05_valid : Valid geom := by decide

/-! ## wheel -/

/-- accepting a start request (worker step `add`, request not cancelled) at time t₀ links the timer with
deadline t₀ + delay (RunAfter: dl = delay, period 0) resp. t₀ + period (RunEvery: dl = 0); it cannot panic -/
theorem C05_wheel_accept (G : Geom) (hv : Valid G) {s : WS} (hr : WReach G s) (r : Req) (q : List Req)
    (hq : s.f.addQ = r :: q) (hl : r.id ∉ s.f.cancelled) :
    ∃ s', WS.step G s .add = .ok s' .done ∧ has s'.w.nodes r.id (r.dl + s.w.time + r.period) r.period ∧
      r.id ∉ s'.f.cancelled ∧ s'.w.time = s.w.time := by
  obtain ⟨hG, _⟩ := hv
  generalize G.reqCap = c at hG
  subst hG
  have h := hr.inv
  have hfresh : r.id ∉ ids s.w.nodes := by
    have hn := h.front.nodup
    rw [List.nodup_append] at hn
    intro hm
    exact hn.2.2 r.id (by simp [Front.addIds, hq]) r.id hm rfl
  have hany : s.w.nodes.any (fun n => n.id == r.id) = false := by
    rw [List.any_eq_false]
    intro n hn
    simp only [beq_iff_eq]
    exact fun e => hfresh (mem_ids.mpr ⟨n, hn, e⟩)
  have hstep : WS.step (litGeom c) s .add = .ok
      { w := { s.w with nodes := s.w.nodes ++ [s.w.link (litGeom c)
          { id := r.id, deadline := r.dl + s.w.time + r.period, period := r.period, level := 0, slot := 0 }] },
        f := { s.f with addQ := q } } .done := by
    simp only [WS.step, hq, hl, hany, if_false]; rfl
  refine ⟨_, hstep, ?_, hl, rfl⟩
  exact ⟨_, List.mem_append_right _ (List.mem_singleton.mpr rfl), rfl, rfl, rfl⟩

/-- ONE-SHOT, wheel.  A one-shot timer held by the wheel with deadline D (state s, time t₀, any position,
any other timers), not cancelled: along ANY sequence of client calls and worker steps that does not
cancel it — ticks in bursts of any size included —
 * while the time is below `max D (t₀+1)` it is still linked, still scheduled, and not delivered;
 * from the tick that makes the time `max D (t₀+1)` on (for a delay d ≥ 1 accepted at t₀: the tick
   that makes the time t₀ + d; for delay 0: the very next tick) it has been delivered EXACTLY ONCE
   more, the delivery is logged at time D (its due time), it is no longer in the wheel, no longer in
   the table (`IsScheduled` false, not counted by `Size`), and its id is not queued. -/
theorem C05_wheel_one_shot (G : Geom) (hv : Valid G) {s s' : WS} (hr : WReach G s) (id D : Nat)
    (hh : has s.w.nodes id D 0) (hl : id ∉ s.f.cancelled) (acts : List Act)
    (hnc : Act.cancel id ∉ acts) (hrun : WS.run G s acts = some s') :
    (s'.w.time < max D (s.w.time + 1) →
      has s'.w.nodes id D 0 ∧ id ∈ s'.f.refer ∧ entries s'.f.log id = entries s.f.log id) ∧
    (max D (s.w.time + 1) ≤ s'.w.time →
      id ∉ ids s'.w.nodes ∧ id ∉ s'.f.addIds ∧ id ∉ s'.f.refer ∧
      entries s'.f.log id = (D, id) :: entries s.f.log id) := by
  obtain ⟨hG, _⟩ := hv
  generalize G.reqCap = c at hG
  subst hG
  obtain ⟨r1, r2, r3⟩ := oneshot_run c id D acts s s' hr.inv hnc hh hl hrun
  refine ⟨fun hlt => ?_, fun hle => ?_⟩
  · obtain ⟨x1, x2, x3⟩ := r1 hlt
    exact ⟨x1, r3.live_refer x1 x2, x3⟩
  · obtain ⟨x1, x2⟩ := r2 hle
    exact ⟨x1.2.2, x1.2.1, r3.gone_not_refer x1, x2⟩

/-- PERIODIC, wheel.  A periodic timer (period P > 0) held by the wheel with deadline D, not cancelled:
along ANY sequence of steps that does not cancel it, its deliveries are exactly the instants
D, D+P, D+2P, …, D+(k-1)P — logged at those times, each once — where k is determined by the time
reached: D+(k-1)P ≤ time < D+kP; it is still linked, now with deadline D+kP, and still scheduled.
(`fires id D P k` = [(D+(k-1)P, id), …, (D+P, id), (D, id)].) -/
theorem C05_wheel_periodic (G : Geom) (hv : Valid G) {s s' : WS} (hr : WReach G s) (id D P : Nat) (hP : P > 0)
    (hh : has s.w.nodes id D P) (hl : id ∉ s.f.cancelled) (acts : List Act)
    (hnc : Act.cancel id ∉ acts) (hrun : WS.run G s acts = some s') :
    ∃ k, has s'.w.nodes id (D + k * P) P ∧ id ∈ s'.f.refer ∧
      entries s'.f.log id = fires id D P k ++ entries s.f.log id ∧
      s'.w.time < D + k * P ∧ (k = 0 ∨ ∃ j, k = j + 1 ∧ D + j * P ≤ s'.w.time) := by
  obtain ⟨hG, _⟩ := hv
  generalize G.reqCap = c at hG
  subst hG
  obtain ⟨k, r1, r2, r3, r4, r5, _, r7⟩ := periodic_run c id P hP acts s s' D hr.inv hnc hh hl hrun
  exact ⟨k, r1, r7.live_refer r1 r2, r3, r4, r5⟩

/-- ORDER, wheel.  In every reachable state the delivery log (newest first) is non-increasing in its time
component and nothing is logged in the future; by the two theorems above the logged time of a
delivery IS the timer's due time, so deliveries happen in non-decreasing due-time order. -/
theorem C05_wheel_order (G : Geom) {s : WS} (hr : WReach G s) :
    s.f.log.Pairwise (fun newer older => older.1 ≤ newer.1) ∧ ∀ e ∈ s.f.log, e.1 ≤ s.w.time :=
  hr.logOK

/-- DUE ORDER, wheel.  `dues` is the ghost list parallel to `log` that records, for every delivery, the
deadline the node had when it was delivered.  In every reachable state it coincides with the logged
times, and it is non-increasing from newest to oldest: deliveries happen in non-decreasing due-time
order, whatever the schedule. -/
theorem C05_wheel_due_order (G : Geom) (hv : Valid G) {s : WS} (hr : WReach G s) :
    s.f.dues = s.f.log.map (·.1) ∧ s.f.dues.Pairwise (fun newer older => older ≤ newer) := by
  obtain ⟨hG, _⟩ := hv
  generalize G.reqCap = c at hG
  subst hG
  refine ⟨hr.dues, ?_⟩
  rw [hr.dues, List.pairwise_map]
  exact hr.logOK.1

/-- every delivery of one `expireNear` pass is the delivery of a linked, uncancelled node whose deadline is
the current time, and is logged at that time (so "logged time = due time" holds for every entry) -/
theorem C05_wheel_pass_on_time (G : Geom) (hv : Valid G) (s : WS) (h : WheelOK s.w) :
    ∃ batch, (WS.expire G s).f.log = batch ++ s.f.log ∧
      ∀ e ∈ batch, e.1 = s.w.time ∧ ∃ n ∈ s.w.nodes, n.id = e.2 ∧ n.deadline = s.w.time ∧ n.id ∉ s.f.cancelled := by
  obtain ⟨hG, _⟩ := hv
  generalize G.reqCap = c at hG
  subst hG
  exact WS.expire_log c s h.ok

/-- the back-end invariant (every node in the bucket its remaining delay and the position demand; ids
distinct) holds in every reachable state and is preserved by a tick -/
theorem C05_wheel_invariant (G : Geom) (hv : Valid G) {s : WS} (hr : WReach G s) :
    WheelOK s.w ∧ WheelOK (WS.tick G s).w := by
  obtain ⟨hG, _⟩ := hv
  generalize G.reqCap = c at hG
  subst hG
  exact ⟨hr.inv.wheel, WS.tick_ok c s hr.inv.wheel⟩

/-- DELIVERED ⇒ UNSCHEDULED (both schedulers share the table): a timer id that is neither queued nor
linked is not in the table — `IsScheduled` is false and `Size` does not count it -/
theorem C05_delivered_unscheduled (G : Geom) (hv : Valid G) {s : WS} (hr : WReach G s) (id : Nat)
    (h1 : id ∉ s.f.addIds) (h2 : id ∉ ids s.w.nodes) : id ∉ s.f.refer := by
  obtain ⟨hG, _⟩ := hv
  generalize G.reqCap = c at hG
  subst hG
  intro hm
  rcases ((hr.inv.front.refer_iff id).mp hm).1 with h | h
  · exact h1 h
  · exact h2 h

/-! ## heap -/

/-- accepting a start request (not cancelled) pushes the timer with the deadline the client computed
(clock at the call + delay / + period) -/
theorem C05_heap_accept (G : Geom) {s : HS} (r : Req) (q : List Req) (hq : s.f.addQ = r :: q)
    (hl : r.id ∉ s.f.cancelled) :
    ∃ s', HS.step G s .add = .ok s' .done ∧ hhas s'.heap r.id r.dl r.period ∧ r.id ∉ s'.f.cancelled ∧ s'.now = s.now := by
  have hstep : HS.step G s .add = .ok
      { s with heap := hinsert ⟨r.id, r.dl, r.period⟩ s.heap, f := { s.f with addQ := q } } .done := by
    simp only [HS.step, hq, hl, if_false]
  refine ⟨_, hstep, ?_, hl, rfl⟩
  exact ⟨_, (hinsert_perm _ _).mem_iff.mpr (List.mem_cons_self ..), rfl, rfl, rfl⟩

/-- ONE-SHOT, heap.  A one-shot timer in the heap with deadline D, not cancelled: along ANY sequence of
steps that does not cancel it, with `fireTime D now acts` = the clock value of the FIRST tick at or
after D in that sequence (SPEC function, Lemmas/C05HeapTrace.lean):
 * no such tick yet: still in the heap, still scheduled, not delivered;
 * otherwise: delivered EXACTLY ONCE more, by that tick (logged at its clock value t, D ≤ t), gone from
   heap, queue and table. -/
theorem C05_heap_one_shot (G : Geom) {s s' : HS} (hr : HReach G s) (id D : Nat)
    (hh : hhas s.heap id D 0) (hl : id ∉ s.f.cancelled) (acts : List Act)
    (hnc : Act.cancel id ∉ acts) (hrun : HS.run G s acts = some s') :
    match fireTime D s.now acts with
    | none => hhas s'.heap id D 0 ∧ id ∈ s'.f.refer ∧ entries s'.f.log id = entries s.f.log id
    | some t => id ∉ hids s'.heap ∧ id ∉ s'.f.addIds ∧ id ∉ s'.f.refer ∧
        entries s'.f.log id = (t, id) :: entries s.f.log id := by
  obtain ⟨r1, r2⟩ := heap_oneshot_run G id D acts s s' hr.inv hnc hh hl hrun
  split
  · rename_i hx; rw [hx] at r1
    exact ⟨r1.1, r2.live_refer r1.1 r1.2.1, r1.2.2⟩
  · rename_i t hx; rw [hx] at r1
    exact ⟨r1.1.2.2, r1.1.2.1, r2.gone_not_refer r1.1, r1.2⟩

/-- the tick `fireTime` names is at or after the due time, and no earlier tick of the sequence was -/
theorem C05_heap_fireTime_spec (D : Nat) : ∀ (acts : List Act) (now t : Nat), fireTime D now acts = some t → D ≤ t ∧ now ≤ t
  | [], _, _, h => by simp [fireTime] at h
  | a :: as, now, t, h => by
    cases a with
    | tick =>
      simp only [fireTime] at h
      split at h
      · simp only [Option.some.injEq] at h; omega
      · exact C05_heap_fireTime_spec D as now t h
    | clock n =>
      simp only [fireTime] at h
      have := C05_heap_fireTime_spec D as (now + n) t h
      omega
    | after d => exact C05_heap_fireTime_spec D as now t (by simpa only [fireTime] using h)
    | every p => exact C05_heap_fireTime_spec D as now t (by simpa only [fireTime] using h)
    | cancel j => exact C05_heap_fireTime_spec D as now t (by simpa only [fireTime] using h)
    | add => exact C05_heap_fireTime_spec D as now t (by simpa only [fireTime] using h)
    | del => exact C05_heap_fireTime_spec D as now t (by simpa only [fireTime] using h)

/-- PERIODIC, heap.  A periodic timer (period P > 0) in the heap, next due at D, not cancelled: along ANY
sequence of steps that does not cancel it, its deliveries are exactly the ticks `firePlan` names
(SPEC function: the first tick at or after D, then the first tick at or after (that tick's time + P),
and so on), each once, logged at the tick's clock value; it stays in the heap, due at the time
`firePlan` ends with, and scheduled. -/
theorem C05_heap_periodic (G : Geom) {s s' : HS} (hr : HReach G s) (id D P : Nat) (hP : P > 0)
    (hh : hhas s.heap id D P) (hl : id ∉ s.f.cancelled) (acts : List Act)
    (hnc : Act.cancel id ∉ acts) (hrun : HS.run G s acts = some s') :
    hhas s'.heap id (firePlan P D s.now acts).2 P ∧ id ∈ s'.f.refer ∧
    entries s'.f.log id = (firePlan P D s.now acts).1.map (fun t => (t, id)) ++ entries s.f.log id := by
  obtain ⟨r1, r2, r3, r4⟩ := heap_periodic_run G id P hP acts s s' D hr.inv hnc hh hl hrun
  exact ⟨r1, r4.live_refer r1 r2, r3⟩

/-- ORDER, heap, one tick: a tick terminates, delivers EXACTLY the uncancelled timers whose deadline has been
reached, in non-decreasing deadline order, and every timer left in the heap is due strictly after
the tick's time — hence after everything delivered so far. -/
theorem C05_heap_tick_order (G : Geom) {s : HS} (hr : HReach G s) :
    ∃ (s' : HS) (batch : List HNode), HS.tick s = some s' ∧
      batch.Pairwise (fun a b => a.deadline ≤ b.deadline) ∧
      (∀ n, n ∈ batch ↔ n ∈ s.heap ∧ n.deadline ≤ s.now ∧ n.id ∉ s.f.cancelled) ∧
      s'.f.log = (batch.map (fun n => (s.now, n.id))).reverse ++ s.f.log ∧
      (∀ m ∈ s'.heap, s.now < m.deadline) := by
  obtain ⟨s', batch, r0, _, r2, r3, r4, r5⟩ := HS.tick_batch s hr.inv
  exact ⟨s', batch, r0, r2, r3, r4, r5⟩

/-- DUE ORDER, heap.  As long as every start request is accepted before the next tick (`HReachPrompt`: the
regime of this property — which request the worker handles first is C06's quantifier), the due times
of all deliveries (ghost list `dues`, parallel to `log`) are non-increasing from newest to oldest:
deliveries happen in non-decreasing due-time order.  (Without the proviso a start request accepted
only after a later tick keeps its client-computed deadline, which may precede deadlines already
delivered; the wheel has no such case because it fixes the deadline at acceptance.) -/
theorem C05_heap_due_order (G : Geom) {s : HS} (hr : HReachPrompt G s) :
    s.f.dues.Pairwise (fun newer older => older ≤ newer) ∧ ∀ d ∈ s.f.dues, d ≤ s.now :=
  ⟨hr.dueH.sorted, hr.dueH.le_now⟩

/-- ORDER, heap, whole log: tick times never decrease and nothing is logged in the future -/
theorem C05_heap_order (G : Geom) {s : HS} (hr : HReach G s) :
    s.f.log.Pairwise (fun newer older => older.1 ≤ newer.1) ∧ ∀ e ∈ s.f.log, e.1 ≤ s.now :=
  hr.logOK

/-! ## the binary heap inside the model (Model/C05BinHeap.lean)

`BHeap` is the ARRAY of `timerHeap`; `bup` / `bdown` / `bpush` / `bpop` / `bremove` / `bfix` mirror container/heap composed
with the `timerHeap` methods statement for statement (the source texts they were written from are regenerated into
Gen/C05.lean and pinned below); the differential run compares the array LAYOUT (`harr` lines) after every heap-changing
step.  `key a i` = `a[i].n` (id, deadline, period), `idx a i` = `a[i].index`, `keys a` = the nodes in array order,
`BInv a` = heap order + index invariant, `Distinct a` = ids pairwise distinct, `babs a` = the nodes insertion-sorted by
`Less` = the list that stands for the heap in `HS`; `BS` = the heap scheduler over the array, `BS.toHS` its abstraction. -/

/-- the source the structural model mirrors: container/heap of the Go tree in use and the `timerHeap` methods, as
regenerated on every run (alpha-normalised one-line texts), are the texts the model was written from -/
theorem C05_binheap_source :
    [Gen.C05.goheap_Init, Gen.C05.goheap_Push, Gen.C05.goheap_Pop, Gen.C05.goheap_Remove, Gen.C05.goheap_Fix,
      Gen.C05.goheap_up, Gen.C05.goheap_down] = heapSrcGo ∧
    [Gen.C05.pin_timerHeap_Len, Gen.C05.pin_timerHeap_Less, Gen.C05.pin_timerHeap_Swap, Gen.C05.pin_timerHeap_Push,
      Gen.C05.pin_timerHeap_Pop, Gen.C05.pin_TimerQueue_delNode] = heapSrcRepo ∧
    Gen.C05.heapCalls = heapSites := ⟨rfl, rfl, rfl⟩

/-- what `BInv` says, on the array itself: `∀ i > 0, ¬Less(a[i], a[parent i])` and `a[i].index = i` -/
theorem C05_binheap_inv_iff (a : BHeap) :
    BInv a ↔ (∀ i (h : i < a.size), 0 < i → hless a[i].n (a[(i - 1) / 2]'(by omega)).n = false) ∧
      (∀ i (h : i < a.size), a[i].index = i) := BInv_iff a

/-- the empty heap satisfies both invariants (`make(timerHeap, 0, 32)`) -/
theorem C05_binheap_empty : BInv #[] ∧ Distinct #[] := ⟨BInv.empty, List.nodup_nil⟩

/-- PUSH, any size and contents: heap order and index invariant are kept (established from the empty heap), the size
grows by one, the multiset of nodes gains exactly `x` -/
theorem C05_binheap_push (a : BHeap) (x : HNode) (h : BInv a) :
    BInv (bpush a x) ∧ (bpush a x).size = a.size + 1 ∧ (keys (bpush a x)).Perm (x :: keys a) :=
  bpush_spec a x h

/-- POP, any non-empty heap: it cannot panic, the invariants are kept, the popped node is the root `a[0]` and leaves with
`index = -1`, the multiset of nodes loses exactly it -/
theorem C05_binheap_pop (a : BHeap) (h : BInv a) (hne : a.size ≠ 0) :
    ∃ a' v, bpop a = some (a', v) ∧ BInv a' ∧ a'.size + 1 = a.size ∧ v.n = key a 0 ∧ v.index = -1 ∧
      (keys a).Perm (v.n :: keys a') :=
  bpop_spec a h hne

/-- REMOVE i, any position (last, root, middle; the moved node may sift down or UP): no panic, invariants kept, the
removed node is `a[i]` and leaves with `index = -1`, the multiset loses exactly it -/
theorem C05_binheap_remove (a : BHeap) (h : BInv a) (i : Nat) (hi : i < a.size) :
    ∃ a' v, bremove a i = some (a', v) ∧ BInv a' ∧ a'.size + 1 = a.size ∧ v.n = key a i ∧ v.index = -1 ∧
      (keys a).Perm (v.n :: keys a') :=
  bremove_spec a h i hi

/-- FIX i after an ARBITRARY change of `a[i].deadline`: no panic, invariants re-established, same size, the multiset is
the old one with the changed node in place of the old `a[i]` -/
theorem C05_binheap_fix (a : BHeap) (h : BInv a) (i d : Nat) (hi : i < a.size) :
    ∃ a', bfix (bsetDeadline a i d) i = some a' ∧ BInv a' ∧ a'.size = a.size ∧
      (keys a').Perm ((keys a).set i { key a i with deadline := d }) :=
  bfix_set_spec a h i d hi

/-- under the heap order the root is the `Less`-minimum: no node sorts before `a[0]` -/
theorem C05_binheap_root_min (a : BHeap) (h : BInv a) (m : HNode) (hm : m ∈ keys a) : hless m (key a 0) = false :=
  root_min a h m hm

/-- `babs` is what it is called: sorted by `Less` (no later element sorts before an earlier one), same nodes -/
theorem C05_binheap_abs_sorted (a : BHeap) :
    (babs a).Pairwise (fun x y => hless y x = false) ∧ (babs a).Perm (keys a) ∧ (babs a).length = a.size :=
  ⟨isort_lsorted _, babs_perm a, babs_length a⟩

/-- REFINEMENT, Push: `abs (Push a x) = sortedInsert x (abs a)` — the `hinsert` of the sorted-list model -/
theorem C05_binheap_abs_push (a : BHeap) (x : HNode) (h : BInv a) (hd : Distinct a) (hx : ∀ m ∈ keys a, m.id ≠ x.id) :
    babs (bpush a x) = hinsert x (babs a) :=
  babs_bpush a x h (by
    simp only [hids, List.map_cons, List.nodup_cons, List.mem_map, not_exists, not_and]
    exact ⟨fun m hm => hx m hm, hd⟩)

/-- REFINEMENT, Pop: the popped node is `(abs a).head`, `abs (Pop a) = (abs a).tail`; distinctness is kept -/
theorem C05_binheap_abs_pop (a a' : BHeap) (v : BNode) (h : BInv a) (hd : Distinct a) (e : bpop a = some (a', v)) :
    babs a = v.n :: babs a' ∧ BInv a' ∧ Distinct a' ∧ v.index = -1 :=
  babs_bpop a a' v h hd e

/-- REFINEMENT, Remove: `abs (Remove a i) = (abs a).erase a[i]` = `abs a` without the node of that id (the `filter` the
sorted-list model uses for `delNode`) -/
theorem C05_binheap_abs_remove (a a' : BHeap) (v : BNode) (i : Nat) (h : BInv a) (hd : Distinct a)
    (e : bremove a i = some (a', v)) :
    i < a.size ∧ v.n = key a i ∧ babs a' = (babs a).filter (fun m => decide (m.id ≠ (key a i).id)) ∧
      babs a' = (babs a).erase (key a i) ∧ BInv a' ∧ Distinct a' ∧ v.index = -1 :=
  babs_bremove a a' v i h hd e

/-- REFINEMENT, Fix after a deadline change at i: `abs` = the old `abs` without `a[i]`, the changed node re-inserted -/
theorem C05_binheap_abs_fix (a a' : BHeap) (i d : Nat) (h : BInv a) (hd : Distinct a) (hi : i < a.size)
    (e : bfix (bsetDeadline a i d) i = some a') :
    babs a' = hinsert { key a i with deadline := d } ((babs a).filter (fun m => decide (m.id ≠ (key a i).id))) ∧
      BInv a' ∧ Distinct a' :=
  babs_bfix a a' i d h hd hi e

/-- COMPOSITION, the loop of `trigger(now)`: run over the array it yields the same `expires` list and the abstraction
of its final state is the final state of the loop over the sorted list (or neither terminates) -/
theorem C05_binheap_trigger_refines (now maxId fuel : Nat) (b : BS) (acc : List (Nat × Nat)) (hi : BInv b.arr)
    (hd : Distinct b.arr) :
    (match BS.triggerLoop now maxId fuel b acc with
     | some (b', out) => HS.triggerLoop now maxId fuel b.toHS acc = some (b'.toHS, out) ∧ BInv b'.arr ∧ Distinct b'.arr
     | none => HS.triggerLoop now maxId fuel b.toHS acc = none) :=
  triggerLoop_sim now maxId fuel b acc hi hd

/-- COMPOSITION, one action (client call or worker step) from any state whose abstraction satisfies the heap scheduler's
invariant: same outcome (ok / blocked / panic), same output, abstraction and structural invariant kept -/
theorem C05_binheap_step_refines (G : Geom) (b : BS) (hi : BInv b.arr) (hh : HInv b.toHS) (a : Act) :
    (match BS.step G b a with
     | .ok b' o => HS.step G b.toHS a = .ok b'.toHS o ∧ BInv b'.arr
     | .blocked => HS.step G b.toHS a = .blocked
     | .panic => HS.step G b.toHS a = .panic) :=
  step_sim G b hi hh a

/-- COMPOSITION, every history: the heap scheduler over the structural heap, started fresh at any time and run through
ANY action list, produces the same outputs, and its final state abstracts to the final state of the scheduler over
the sorted list — same table, queues, cancelled marks, same delivery log and due times (`f` is shared), heap =
`babs` of the array; the array satisfies heap order + index invariant; if one run fails so does the other -/
theorem C05_binheap_refines_sorted (G : Geom) (time : Nat) (acts : List Act) :
    (match BS.runO G (BS.init time) acts with
     | some (b', outs) => HS.runO G (HS.init time) acts = some (b'.toHS, outs) ∧ HS.run G (HS.init time) acts = some b'.toHS ∧
         b'.toHS.f.log = b'.f.log ∧ BInv b'.arr ∧ Distinct b'.arr
     | none => HS.runO G (HS.init time) acts = none ∧ HS.run G (HS.init time) acts = none) := by
  have h := runO_sim G acts (BS.init time) BInv.empty (HInv.init time)
  rw [toHS_init] at h
  cases hr : BS.runO G (BS.init time) acts with
  | some r =>
    rw [hr] at h
    exact ⟨h.1, by rw [HS.runO_run, h.1]; rfl, rfl, h.2.1, distinct_of_hinv _ h.2.2⟩
  | none =>
    rw [hr] at h
    exact ⟨h, by rw [HS.runO_run, h]; rfl⟩

/-- hence every state the structural scheduler reaches abstracts to a state the sorted-list scheduler reaches: all
`C05_heap_*` theorems above (stated for `HReach`) hold of `b.toHS` -/
theorem C05_binheap_reach (G : Geom) {b : BS} (h : BReach G b) : HReach G b.toHS ∧ BInv b.arr ∧ Distinct b.arr :=
  ⟨h.sim.1, h.sim.2, distinct_of_hinv b h.sim.1.inv⟩

/-! ## non-vacuity

`exW` (Lemmas/C05Ex.lean): a wheel two ticks before the 2^32 wrap of its position, time 7, holding a
one-shot timer 1 (delay 3, due after the wrap), a periodic timer 2 (period 2), a one-shot timer 3
(delay 300, level 1), a one-shot timer 4 with delay 8589934592000 (far beyond 2^32: clamped, parked in the
last level); timer 5 was started and cancelled before the worker saw either request.
`exH`: the heap scheduler after the same calls at clock 1000.  Both are reachable, so the hypotheses
of the theorems above are satisfiable by non-trivial states; the instances below are the theorems
applied to them. -/

example : WReach geom exW ∧ has exW.w.nodes 1 10 0 ∧ has exW.w.nodes 2 9 2 ∧ has exW.w.nodes 3 307 0 ∧
    has exW.w.nodes 4 8589934592007 0 ∧ 1 ∉ exW.f.cancelled ∧ exW.f.cancelled = [5] ∧ exW.w.time = 7 ∧
    (exW.w.off + exW.w.time) % 4294967296 = 4294967294 :=
  ⟨exW_reach, by decide, by decide, by decide, by decide, by decide, by decide, by decide, by decide⟩

/-- C05_wheel_one_shot applied: three ticks (the position wraps at the second) deliver timer 1 once, at 10 -/
example (s' : WS) (h : WS.run geom exW [.tick, .tick, .tick] = some s') :
    1 ∉ ids s'.w.nodes ∧ 1 ∉ s'.f.addIds ∧ 1 ∉ s'.f.refer ∧ entries s'.f.log 1 = (10, 1) :: entries exW.f.log 1 := by
  have hs : s' = (WS.run geom exW [.tick, .tick, .tick]).getD exW := by rw [h]; rfl
  exact (C05_wheel_one_shot geom C05_valid exW_reach 1 10 (by decide) (by decide) [.tick, .tick, .tick]
    (by decide) h).2 (by subst hs; decide)

/-- C05_wheel_periodic applied: after five ticks timer 2 fired at 9 and 11 (k = 2) and is due at 13 -/
example (s' : WS) (h : WS.run geom exW [.tick, .tick, .tick, .tick, .tick] = some s') :
    ∃ k, has s'.w.nodes 2 (9 + k * 2) 2 ∧ 2 ∈ s'.f.refer ∧ entries s'.f.log 2 = fires 2 9 2 k ++ entries exW.f.log 2 ∧
      s'.w.time < 9 + k * 2 ∧ (k = 0 ∨ ∃ j, k = j + 1 ∧ 9 + j * 2 ≤ s'.w.time) :=
  C05_wheel_periodic geom C05_valid exW_reach 2 9 2 (by decide) (by decide) (by decide) _ (by decide) h

example : (WS.run geom exW [.tick, .tick, .tick, .tick, .tick]).map (fun s => (s.w.time, entries s.f.log 2)) =
    some (12, [(11, 2), (9, 2)]) := by decide

example : HReach geom exH ∧ hhas exH.heap 1 1003 0 ∧ hhas exH.heap 2 1002 2 ∧ 1 ∉ exH.f.cancelled ∧ exH.now = 1000 :=
  ⟨exH_reach, by decide, by decide, by decide, by decide⟩

/-- C05_heap_one_shot applied: the tick at 1002 is too early, the tick at 1004 is the first at or after 1003 -/
example (s' : HS) (h : HS.run geom exH [.clock 2, .tick, .clock 2, .tick, .tick] = some s') :
    1 ∉ hids s'.heap ∧ 1 ∉ s'.f.addIds ∧ 1 ∉ s'.f.refer ∧ entries s'.f.log 1 = (1004, 1) :: entries exH.f.log 1 :=
  C05_heap_one_shot geom exH_reach 1 1003 (by decide) (by decide) _ (by decide) h

/-- C05_heap_periodic applied: fired by the ticks at 1002 and 1004 (1002 + 2 ≤ 1004), next due at 1006 -/
example (s' : HS) (h : HS.run geom exH [.clock 2, .tick, .clock 2, .tick, .tick] = some s') :
    hhas s'.heap 2 1006 2 ∧ 2 ∈ s'.f.refer ∧ entries s'.f.log 2 = [(1004, 2), (1002, 2)] ++ entries exH.f.log 2 :=
  C05_heap_periodic geom exH_reach 2 1002 2 (by decide) (by decide) (by decide) _ (by decide) h

/-! ### the structural heap: non-vacuity

`exArr` (Lemmas/C05BinHeapEx.lean): a three-node array (root id 2 due 1002 period 2; id 4 due 1003; id 1 due 1003 — a tie, broken by id DESC), in
heap order with correct index fields and distinct ids; the theorems applied to it. -/

example : BInv exArr ∧ Distinct exArr ∧ exArr.size = 3 ∧ babs exArr = [⟨2, 1002, 2⟩, ⟨4, 1003, 0⟩, ⟨1, 1003, 0⟩] :=
  ⟨exArr_inv, exArr_distinct, by decide, by decide⟩

/-- C05_binheap_push / _abs_push applied (a new node with the root's deadline and a larger id sorts FIRST) -/
example : BInv (bpush exArr ⟨7, 1002, 0⟩) ∧ babs (bpush exArr ⟨7, 1002, 0⟩) = hinsert ⟨7, 1002, 0⟩ (babs exArr) :=
  ⟨(C05_binheap_push exArr _ exArr_inv).1, C05_binheap_abs_push exArr _ exArr_inv exArr_distinct (by decide)⟩

/-- C05_binheap_pop / _remove / _fix applied -/
example : ∃ a' v, bpop exArr = some (a', v) ∧ BInv a' ∧ v.n = ⟨2, 1002, 2⟩ ∧ v.index = -1 ∧ babs exArr = v.n :: babs a' := by
  obtain ⟨a', v, e, h1, _, h3, h4, _⟩ := C05_binheap_pop exArr exArr_inv (by decide)
  exact ⟨a', v, e, h1, h3, h4, (C05_binheap_abs_pop exArr a' v exArr_inv exArr_distinct e).1⟩

example : ∃ a' v, bremove exArr 1 = some (a', v) ∧ BInv a' ∧ v.n = ⟨4, 1003, 0⟩ ∧ v.index = -1 ∧
    babs a' = [⟨2, 1002, 2⟩, ⟨1, 1003, 0⟩] := by
  obtain ⟨a', v, e, h1, _, h3, h4, _⟩ := C05_binheap_remove exArr exArr_inv 1 (by decide)
  refine ⟨a', v, e, h1, h3, h4, ?_⟩
  rw [(C05_binheap_abs_remove exArr a' v 1 exArr_inv exArr_distinct e).2.2.1]
  decide

example : ∃ a', bfix (bsetDeadline exArr 0 1004) 0 = some a' ∧ BInv a' ∧
    babs a' = [⟨4, 1003, 0⟩, ⟨1, 1003, 0⟩, ⟨2, 1004, 2⟩] := by
  obtain ⟨a', e, h1, _, _⟩ := C05_binheap_fix exArr exArr_inv 0 1004 (by decide)
  refine ⟨a', e, h1, ?_⟩
  rw [(C05_binheap_abs_fix exArr a' 0 1004 exArr_inv exArr_distinct (by decide) e).1]
  decide

/-- C05_binheap_root_min applied -/
example : hless ⟨1, 1003, 0⟩ (key exArr 0) = false := C05_binheap_root_min exArr exArr_inv _ (by decide)

/-- C05_binheap_trigger_refines / _step_refines hypotheses: a structural scheduler state over `exArr` -/
example : BInv (BS.mk 1004 exArr Front.init).arr ∧ Distinct (BS.mk 1004 exArr Front.init).arr := ⟨exArr_inv, exArr_distinct⟩

/-- C05_binheap_refines_sorted / _reach: every action list qualifies; e.g. three starts, accepted, one tick -/
example : BReach geom (BS.init 1000) := BReach.init 1000
example (r : BS × List Out) (h : BS.runO geom (BS.init 1000) [.after 3, .every 2, .add, .add, .clock 2, .tick] = some r) :
    HS.run geom (HS.init 1000) [.after 3, .every 2, .add, .add, .clock 2, .tick] = some r.1.toHS ∧ BInv r.1.arr := by
  have := C05_binheap_refines_sorted geom 1000 [.after 3, .every 2, .add, .add, .clock 2, .tick]
  rw [h] at this
  exact ⟨this.2.1, this.2.2.2.1⟩

/-! ### The translated source (Gen/C05.lean, `namespace Tr`, rewritten from hhwheel_timer.go on every run) equals the
wheel model's placement arithmetic (Model/C05Wheel.lean on the literal geometry), for all inputs. -/
section Translated
open Fatchoy.Gen.C05
set_option linter.unusedSimpArgs false

/-- the model's `place` (the if-chain of `addNode` on the literal 8+6+6+6+6 geometry) is the chain built from the
translated pieces: expiry tick `addNode_idx`, the four level conditions and the five slot expressions; for every
position and every clamped tick count -/
theorem C05_tr_place (cap : Nat) (cur : BitVec 32) (t : BitVec 64) (h : t.toNat ≤ 4294967295) :
    place (litGeom cap) cur.toNat t.toNat =
      (let idx := Tr.addNode_idx cur t
       if Tr.addNode_c0 t then (0, (Tr.addNode_s0 idx).toNat)
       else if Tr.addNode_c1 t then (1, (Tr.addNode_s1 idx).toNat)
       else if Tr.addNode_c2 t then (2, (Tr.addNode_s2 idx).toNat)
       else if Tr.addNode_c3 t then (3, (Tr.addNode_s3 idx).toNat)
       else (4, (Tr.addNode_s4 idx).toNat)) := by
  have ht : t.toNat < 2 ^ 63 := by omega
  have hidx : (Tr.addNode_idx cur t).toNat = (cur.toNat + t.toNat) % 4294967296 := by
    simp (disch := omega) [Tr.addNode_idx, BitVec.toNat_add, Nat.mod_eq_of_lt, Nat.add_comm] <;> ac_rfl
  have c0 := slt_small t 256#64 ht (by decide)
  have c1 := slt_small t 16384#64 ht (by decide)
  have c2 := slt_small t 1048576#64 ht (by decide)
  have c3 := slt_small t 67108864#64 ht (by decide)
  simp only [Tr.addNode_c0, Tr.addNode_c1, Tr.addNode_c2, Tr.addNode_c3, c0, c1, c2, c3]
  simp [place, litGeom, placeAux, Nat.not_lt.mpr h, Tr.addNode_s0, Tr.addNode_s1, Tr.addNode_s2, Tr.addNode_s3,
    Tr.addNode_s4, hidx, and63, and63', and255, and255', Nat.shiftRight_eq_div_pow]

/-- the two clamp tests of `addNode`: below zero (signed), and above the model's `maxTicks` -/
theorem C05_tr_clamp (cap : Nat) (t : BitVec 64) :
    Tr.addNode_neg t = decide (t.toInt < 0) ∧
    (0 ≤ t.toInt → Tr.addNode_over t = decide (t.toNat > (litGeom cap).maxTicks)) := by
  constructor
  · rw [Bool.eq_iff_iff]; simp [Tr.addNode_neg, BitVec.slt]
  · intro h
    have ht : t.toNat < 2 ^ 63 := by
      have := BitVec.toInt_eq_toNat_cond t
      have := t.isLt
      split at * <;> omega
    have c := slt_small 4294967295#64 t (by decide) ht
    simp [Tr.addNode_over, c, litGeom]

/-- the index arithmetic of `shiftWheels` is the model's `shift` / `shiftLoop` arithmetic: wrap test of the near wheel,
first `ticks`, the slot that comes up at a level, `ticks` of the next level -/
theorem C05_tr_shift (cap : Nat) (ct tk : BitVec 32) :
    Tr.shift_skip ct = decide (ct.toNat % (litGeom cap).nearSize ≠ 0) ∧
    (Tr.shift_ticks ct).toNat = ct.toNat / (litGeom cap).nearSize ∧
    (Tr.shift_slot tk).toNat = tk.toNat % (litGeom cap).lvlSize ∧
    (Tr.shift_next tk).toNat = tk.toNat / (litGeom cap).lvlSize := by
  refine ⟨?_, ?_, ?_, ?_⟩
  · rw [Bool.eq_iff_iff]
    simp only [decide_eq_true_eq]
    simp [Tr.shift_skip, litGeom, bne_iff_ne, BitVec.toNat_eq, and255, and255']
  · simp [Tr.shift_ticks, litGeom, Nat.shiftRight_eq_div_pow]
  · have := tk.isLt
    simp (disch := omega) [Tr.shift_slot, litGeom, and63, and63', Nat.mod_eq_of_lt]
  · simp [Tr.shift_next, litGeom, Nat.shiftRight_eq_div_pow]

/-- test (samples, not a proof): tick 300 from position 4294967290 wraps to expiry tick 294 = slot 1 of level 1 -/
example : Tr.addNode_idx 4294967290#32 300#64 = 294#32 ∧ Tr.addNode_c0 300#64 = false ∧ Tr.addNode_c1 300#64 = true ∧
    Tr.addNode_s1 294#32 = 1#32 ∧ place (litGeom 1) 4294967290 300 = (1, 1) := by decide

end Translated

end Fatchoy.C05
