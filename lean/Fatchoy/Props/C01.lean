/-
C01 — wire codecs round-trip every packet and emit the documented frame layout.

Property theorems only.  Model: Model/Codec.lean + Model/Crc32.lean (WritePacket, ReadHeadBody,
UnmarshalPacket, ReadPacket of both formats; the reader is a list of chunks); parameters regenerated
from the source: Gen/C01.lean through Model/C01Params.lean; definitions used in the statements
(`Env.Lawful`, `WF`, `Encodable`, `Fits`, `expect`, `readN`, `framesOf`) and all lemmas: Lemmas/Codec*.lean.

All theorems are for *any* parameters `P` satisfying the decidable side-condition `Valid01 P`
(documented layouts, limits that fit the length fields, flag bits), any environment (zlib, cipher
pair, varint functions), any packet, any chunking.  zlib and the cipher appear only through the
hypothesis `e.Lawful` (decompress ∘ compress = id with a non-empty output, dec ∘ enc = id, length
preserved).  That hypothesis has a model: `C01_toy_cipher_lawful` proves the toy cipher of the
correspondence run lawful for every key, `C01_lawful_env` builds a fully lawful environment from it
and a run-length codec, and `C01_roundtrip_model` / `C01_stream_model` are the round-trip theorems
with every hypothesis about the environment discharged.
-/
import Fatchoy.Model.C01Params
import Fatchoy.Lemmas.C01Demo
namespace Fatchoy.C01
open Fatchoy.Codec Fatchoy.Crc32

/-- the regenerated constants, layout tables and limits satisfy the side-conditions of the proofs -/
theorem C01_valid : Valid01 params := by decide

/-- with a lawful environment every packet whose body `BodyToBytes` can convert is marshalled -/
theorem C01_marshal_total (P : Params) (e : Env) (p : Pkt) (hl : e.Lawful) (he : Encodable P e p) :
    ∃ w p', marshalBody P e p = .ok (w, p') :=
  marshal_total hl he

/-- V1 round trip: a packet within the limits, encoded and followed by anything on the stream, is
    decoded — however the stream is chunked — to the same command, sequence number, caller flag bits
    and body (`expect`), and the reader has consumed exactly the encoder's bytes. -/
theorem C01_v1_roundtrip (P : Params) (hv : Valid01 P) (e : Env) (hl : e.Lawful) (p : Pkt)
    (wf : WF P.v1 p) (he : Encodable P e p) (fit : Fits P P.v1 e p) (tail : Bytes) (cs : Chunks)
    (hcs : flat cs = (writePacket P P.v1 e p).bytes ++ tail) :
    (readPacket P P.v1 e cs).res = .ok (expect P P.v1 e p) ∧ flat (readPacket P P.v1 e cs).rest = tail :=
  roundtrip (Or.inl hv.1) hv.2.2 hl wf he fit hcs

/-- V2 round trip: additionally type, node and the reference list come back -/
theorem C01_v2_roundtrip (P : Params) (hv : Valid01 P) (e : Env) (hl : e.Lawful) (p : Pkt)
    (wf : WF P.v2 p) (he : Encodable P e p) (fit : Fits P P.v2 e p) (tail : Bytes) (cs : Chunks)
    (hcs : flat cs = (writePacket P P.v2 e p).bytes ++ tail) :
    (readPacket P P.v2 e cs).res = .ok (expect P P.v2 e p) ∧ flat (readPacket P P.v2 e cs).rest = tail :=
  roundtrip (Or.inr hv.2.1) hv.2.2 hl wf he fit hcs

/-- what `expect` is, spelled out: the fields the property lists -/
theorem C01_expect_fields (P : Params) (hv : Valid01 P) (e : Env) (p : Pkt) (b : Bytes)
    (hb : bodyToBytes P e p.body = some b) :
    (expect P P.v1 e p).cmd = p.cmd ∧ (expect P P.v1 e p).seq = p.seq ∧ (expect P P.v1 e p).flag = p.flag ∧
    (expect P P.v1 e p).body = decodedBody P e p.flag b ∧
    expect P P.v2 e p = { p with body := decodedBody P e p.flag b } ∧
    (b ≠ [] → p.flag &&& 16#8 = 0#8 → decodedBody P e p.flag b = .bytes b) ∧
    (b ≠ [] → p.flag &&& 16#8 ≠ 0#8 → decodedBody P e p.flag b = .int (e.varint b)) ∧
    decodedBody P e p.flag [] = .absent := by
  have h1 : P.v1.v2 = false := hv.1.1
  have h2 : P.v2.v2 = true := hv.2.1.1
  have h16 : bit8 P.flagError = 16#8 := by rw [hv.2.2.2.2.1]; rfl
  refine ⟨?_, ?_, ?_, ?_, ?_, ?_, ?_, ?_⟩ <;>
    simp_all [expect, expectV1, expectV2, decodedBody]

/-- the result of a read does not depend on how the stream is chunked (neither do the bytes consumed
    nor the sizes requested) -/
theorem C01_chunking (P : Params) (F : Fmt) (e : Env) (cs cs' : Chunks) (h : flat cs = flat cs') :
    (readPacket P F e cs).res = (readPacket P F e cs').res ∧
    flat (readPacket P F e cs).rest = flat (readPacket P F e cs').rest ∧
    (readPacket P F e cs).alloc = (readPacket P F e cs').alloc ∧
    (readPacket P F e cs).awaited = (readPacket P F e cs').awaited :=
  readPacket_congr h

/-- back-to-back frames of any list of packets decode independently and in order, whatever the
    chunking, and the reader ends exactly where the frames end -/
theorem C01_stream (P : Params) (hv : Valid01 P) (F : Fmt) (hF : F = P.v1 ∨ F = P.v2) (e : Env) (hl : e.Lawful)
    (ps : List Pkt) (hps : ∀ p ∈ ps, WF F p ∧ Encodable P e p ∧ Fits P F e p) (tail : Bytes) (cs : Chunks)
    (hcs : flat cs = framesOf P F e ps ++ tail) :
    (readN P F e ps.length cs).1 = ps.map (fun p => .ok (expect P F e p)) ∧
    flat (readN P F e ps.length cs).2 = tail := by
  have hF' : ValidFmt F := by
    rcases hF with h | h
    · rw [h]; exact Or.inl hv.1
    · rw [h]; exact Or.inr hv.2.1
  exact stream_roundtrip hF' hv.2.2 hl ps hps tail cs hcs

/-- V1 layout: big-endian length covering header and body, type, flag (caller bits plus codec bits),
    sequence, command, CRC-32 over the first ten header bytes and the body; two `Write` calls; the
    return value is the number of bytes written. `w`, `p'` are the marshalled body and flag. -/
theorem C01_layout_v1 (P : Params) (hv : Valid01 P) (e : Env) (p p' : Pkt) (w : Bytes)
    (hm : marshalBody P e p = .ok (w, p')) (fit : 14 + w.length ≤ P.v1.max) :
    let n := 14 + w.length
    let covered := bePut 2 n ++ bePut 1 p.typ.toNat ++ bePut 1 p'.flag.toNat ++ bePut 2 p.seq.toNat ++ bePut 4 p.cmd.toNat
    (writePacket P P.v1 e p).writes = [covered ++ bePut 4 (crc32 (covered ++ w)).toNat, w] ∧
    (writePacket P P.v1 e p).ret = .ok n ∧ (writePacket P P.v1 e p).bytes.length = n := by
  intro n covered
  obtain ⟨bits, _, hp⟩ := marshal_flag hm
  have e1 : p'.typ = p.typ := by rw [hp]
  have e2 : p'.seq = p.seq := by rw [hp]
  have e3 : p'.cmd = p.cmd := by rw [hp]
  rw [writePacket_v1 hv.1 hm]
  have : ¬ 14 + w.length > P.v1.max := by omega
  simp only [this, if_false]
  refine ⟨?_, rfl, ?_⟩
  · simp [hdrV1, preV1, frameCrc, e1, e2, e3, covered, n]
  · simp [WrOut.bytes, hdrV1_length, n]

/-- V2 layout: 3-byte length, type, flag, reference count, sequence, node, command, CRC-32 over the
    first sixteen header bytes, the references and the body; then the references, then the body -/
theorem C01_layout_v2 (P : Params) (hv : Valid01 P) (e : Env) (p p' : Pkt) (w : Bytes)
    (hm : marshalBody P e p = .ok (w, p')) (hr : p.refs.length ≤ 255)
    (fit : 20 + p.refs.length * 4 + w.length ≤ P.v2.max) :
    let n := 20 + p.refs.length * 4 + w.length
    let covered := bePut 3 n ++ bePut 1 p.typ.toNat ++ bePut 1 p'.flag.toNat ++ bePut 1 p.refs.length ++
      bePut 2 p.seq.toNat ++ bePut 4 p.node.toNat ++ bePut 4 p.cmd.toNat
    let refs := (p.refs.map (fun r => bePut 4 r.toNat)).flatten
    (writePacket P P.v2 e p).writes = [covered ++ bePut 4 (crc32 (covered ++ refs ++ w)).toNat ++ refs, w] ∧
    (writePacket P P.v2 e p).ret = .ok n ∧ (writePacket P P.v2 e p).bytes.length = n := by
  intro n covered refs
  obtain ⟨bits, _, hp⟩ := marshal_flag hm
  have e1 : p'.typ = p.typ := by rw [hp]
  have e2 : p'.seq = p.seq := by rw [hp]
  have e3 : p'.cmd = p.cmd := by rw [hp]
  have e4 : p'.node = p.node := by rw [hp]
  have e5 : p'.refs = p.refs := by rw [hp]
  rw [writePacket_v2 hv.2.1 hm]
  have h1 : ¬ p.refs.length > P.maxRefs := by rw [hv.2.2.2.2.2]; omega
  have h2 : ¬ 20 + p'.refs.length * 4 + w.length > P.v2.max := by rw [e5]; omega
  simp only [h1, h2, if_false]
  refine ⟨?_, by rw [e5], ?_⟩
  · simp [hdrV2, preV2, frameCrc, e1, e2, e3, e4, e5, covered, n, refs, refBytes]
  · simp [WrOut.bytes, hdrV2_length, refBytes_length, n, e5]; omega

/-- whatever the outcome, the encoder leaves command, sequence, type, node, references and body of
    the caller's packet untouched and only ORs the compression / encryption bit into the flag -/
theorem C01_encoder_frame (P : Params) (F : Fmt) (e : Env) (p : Pkt) :
    ∃ bits : BitVec 8, (bits = 0 ∨ bits = bit8 P.flagCompressed ∨ bits = bit8 P.flagEncrypted ∨
        bits = bit8 P.flagCompressed ||| bit8 P.flagEncrypted) ∧
      (writePacket P F e p).pkt = { p with flag := p.flag ||| bits } :=
  write_pkt P F e p

/-- a packet that exceeds a limit (frame size after marshalling, reference count) is answered with an
    error, and no error is ever returned after a byte was handed to the writer -/
theorem C01_limit_no_byte (P : Params) (hv : Valid01 P) (F : Fmt) (hF : F = P.v1 ∨ F = P.v2) (e : Env) (p : Pkt) :
    (∀ er, (writePacket P F e p).ret = .error er → (writePacket P F e p).writes = []) ∧
    (F.v2 = true → p.refs.length > 255 → (writePacket P F e p).ret = .error .refcount) ∧
    (∀ w p', marshalBody P e p = .ok (w, p') → frameLen F p w > F.max → ∃ er, (writePacket P F e p).ret = .error er) := by
  have hF' : ValidFmt F := by
    rcases hF with h | h
    · rw [h]; exact Or.inl hv.1
    · rw [h]; exact Or.inr hv.2.1
  refine ⟨fun er h => write_error_no_byte P F e p h, fun h2 hr => ?_, fun w p' hm h => write_over_limit hF' hm h⟩
  exact (write_refs_limit e h2 (by rw [hv.2.2.2.2.2]; exact hr)).1

/-- a packet within the limits is accepted, and the value returned is the number of bytes written -/
theorem C01_accepts (P : Params) (hv : Valid01 P) (F : Fmt) (hF : F = P.v1 ∨ F = P.v2) (e : Env) (p p' : Pkt)
    (w : Bytes) (hm : marshalBody P e p = .ok (w, p')) (hr : F.v2 = true → p.refs.length ≤ 255)
    (fit : frameLen F p w ≤ F.max) :
    (writePacket P F e p).ret = .ok (frameLen F p w) ∧ (writePacket P F e p).bytes.length = frameLen F p w := by
  have hF' : ValidFmt F := by
    rcases hF with h | h
    · rw [h]; exact Or.inl hv.1
    · rw [h]; exact Or.inr hv.2.1
  exact ⟨(write_ok hF' hv.2.2 hm hr fit).1, (write_ok hF' hv.2.2 hm hr fit).2.1⟩

/-- `WritePacket` never panics on a packet whose body `BodyToBytes` can convert: it returns the byte
    count or one of three errors (used by C07: a decoded packet can be sent again) -/
theorem C01_write_total (P : Params) (hv : Valid01 P) (F : Fmt) (hF : F = P.v1 ∨ F = P.v2) (e : Env) (p : Pkt)
    (he : Encodable P e p) :
    (∃ n, (writePacket P F e p).ret = .ok n) ∨ (writePacket P F e p).ret = .error .refcount ∨
    (writePacket P F e p).ret = .error .overflow ∨ (writePacket P F e p).ret = .error .compress := by
  have hF' : ValidFmt F := by
    rcases hF with h | h
    · rw [h]; exact Or.inl hv.1
    · rw [h]; exact Or.inr hv.2.1
  cases h : (writePacket P F e p).ret with
  | ok n => exact Or.inl ⟨n, rfl⟩
  | error er =>
    rcases write_errors hF' e p h with h1 | h1 | h1 | ⟨_, h1⟩
    · subst h1; exact Or.inr (Or.inl rfl)
    · subst h1; exact Or.inr (Or.inr (Or.inl rfl))
    · subst h1; exact Or.inr (Or.inr (Or.inr rfl))
    · unfold Encodable at he; rw [h1] at he; simp at he

/-- an error code travels as a number: with the error flag set and varint functions that invert
    each other on it, an integer body comes back as the same integer -/
theorem C01_errno_body (P : Params) (hv : Valid01 P) (F : Fmt) (e : Env) (p : Pkt) (v : Int)
    (hbody : p.body = .int v) (hflag : p.flag &&& 16#8 ≠ 0#8) (hne : e.putVarint v ≠ [])
    (hvar : e.varint (e.putVarint v) = v) :
    (expect P F e p).body = .int v := by
  have h16 : bit8 P.flagError = 16#8 := by rw [hv.2.2.2.2.1]; rfl
  unfold expect
  simp only [hbody, bodyToBytes, Option.getD_some]
  split <;> simp [expectV1, expectV2, decodedBody, hne, h16, hflag, hvar]

/-! ### the hypothesis `Env.Lawful` has a model -/

/-- the toy cipher the driver and the harness run (`Codec.toy`, `hxcodec.Toy`) is lawful for every
    key, the empty one included: decryption undoes encryption and vice versa, both preserve length -/
theorem C01_toy_cipher_lawful (key bs : Bytes) :
    toy key false (toy key true bs) = bs ∧ toy key true (toy key false bs) = bs ∧
    (toy key true bs).length = bs.length ∧ (toy key false bs).length = bs.length :=
  toy_lawful key bs

/-- a fully lawful environment exists for every key and threshold: "zlib" = marker byte + a
    run-length code (proved inverse: `rleDec_rleEnc`), cipher = the toy cipher, varints = Go's -/
theorem C01_lawful_env (key : Bytes) (thr : Nat) : (modelEnv key thr).Lawful :=
  modelEnv_lawful key thr

/-- the round trip of both formats with no hypothesis left about the environment: any key, any
    threshold, any well-formed packet whose body (doubled, the worst case of the run-length code)
    leaves room for header and references, any chunking, anything following on the stream -/
theorem C01_roundtrip_model (P : Params) (hv : Valid01 P) (F : Fmt) (hF : F = P.v1 ∨ F = P.v2) (key : Bytes)
    (thr : Nat) (p : Pkt) (b : Bytes) (wf : WF F p) (hb : bodyToBytes P (modelEnv key thr) p.body = some b)
    (hfit : F.headerSize + p.refs.length * 4 + 2 * b.length + 1 ≤ F.max) (tail : Bytes) (cs : Chunks)
    (hcs : flat cs = (writePacket P F (modelEnv key thr) p).bytes ++ tail) :
    (readPacket P F (modelEnv key thr) cs).res = .ok (expect P F (modelEnv key thr) p) ∧
    flat (readPacket P F (modelEnv key thr) cs).rest = tail := by
  have he : Encodable P (modelEnv key thr) p := by unfold Encodable; rw [hb]; rfl
  rcases hF with h | h <;> subst h
  · exact C01_v1_roundtrip P hv _ (modelEnv_lawful key thr) p wf he (modelEnv_fits hb hfit) tail cs hcs
  · exact C01_v2_roundtrip P hv _ (modelEnv_lawful key thr) p wf he (modelEnv_fits hb hfit) tail cs hcs

/-- the same for streams of frames -/
theorem C01_stream_model (P : Params) (hv : Valid01 P) (F : Fmt) (hF : F = P.v1 ∨ F = P.v2) (key : Bytes) (thr : Nat)
    (ps : List Pkt)
    (hps : ∀ p ∈ ps, WF F p ∧ ∃ b, bodyToBytes P (modelEnv key thr) p.body = some b ∧
      F.headerSize + p.refs.length * 4 + 2 * b.length + 1 ≤ F.max)
    (tail : Bytes) (cs : Chunks) (hcs : flat cs = framesOf P F (modelEnv key thr) ps ++ tail) :
    (readN P F (modelEnv key thr) ps.length cs).1 = ps.map (fun p => .ok (expect P F (modelEnv key thr) p)) ∧
    flat (readN P F (modelEnv key thr) ps.length cs).2 = tail := by
  refine C01_stream P hv F hF _ (modelEnv_lawful key thr) ps (fun p hp => ?_) tail cs hcs
  obtain ⟨wf, b, hb, hfit⟩ := hps p hp
  exact ⟨wf, by unfold Encodable; rw [hb]; rfl, modelEnv_fits hb hfit⟩

/-! ### the length-prefixed pair `WriteLenData` / `ReadLenData` -/

/-- the regenerated facts about the pair: 2-byte self-counting prefix, writer's limit, reader's guard -/
theorem C01_valid_lendata : ValidLd params := by decide

/-- `WriteLenData`: a payload of up to 65532 bytes goes out as a 16-bit big-endian length that counts
    itself, then the data — two `Write` calls, `len(data) + 2` bytes — and anything longer is refused
    without a byte.  The value returned on success is `len(data) + P.ldRetAdd`: the code's behaviour
    as regenerated from its `return n + 4`, i.e. NOT the number of bytes written (that is `n + 2`).
    The property's "reports the exact number of bytes it wrote" is about the two wire formats
    (`C01_layout_v1/2`, `C01_accepts`); this theorem only records what the helper does. -/
theorem C01_lendata_write (P : Params) (hv : ValidLd P) (data : Bytes) :
    (data.length ≤ 65532 →
      (writeLenData P data).writes = [bePut 2 (data.length + 2), data] ∧
      (writeLenData P data).ret = .ok (data.length + P.ldRetAdd) ∧
      (writeLenData P data).bytes.length = data.length + 2) ∧
    (data.length > 65532 → (writeLenData P data).writes = [] ∧ (writeLenData P data).ret = .error .overflow) :=
  writeLenData_spec P hv data

/-- round trip of the pair for EVERY payload length 0..65532, any chunking, anything following on the
    stream: `ReadLenData` returns the data and has consumed exactly the writer's bytes -/
theorem C01_lendata_roundtrip (P : Params) (hv : ValidLd P) (data tail : Bytes) (h : data.length ≤ 65532)
    (cs : Chunks) (hcs : flat cs = (writeLenData P data).bytes ++ tail) :
    (readLenData P cs).res = .ok data ∧ flat (readLenData P cs).rest = tail :=
  lendata_roundtrip P hv data tail h cs hcs

/-! ### non-vacuity: the hypotheses are met by the regenerated parameters, a lawful environment that
compresses and encrypts, and packets with references, flags and a body above the threshold -/

example : demoEnv.Lawful := demoEnv_lawful
example : WF params.v2 demoPkt ∧ Encodable params demoEnv demoPkt := by decide

example : (readPacket params params.v2 demoEnv [(writePacket params params.v2 demoEnv demoPkt).bytes ++ [9, 9]]).res =
    .ok demoPkt :=
  (C01_v2_roundtrip params C01_valid demoEnv demoEnv_lawful demoPkt (by decide) (by decide)
    (demo_fits _ (Or.inr rfl)) [9, 9] _ (by simp [flat])).1

example := C01_write_total params C01_valid params.v2 (Or.inr rfl) demoEnv demoPkt (by decide)
example : (expect params params.v1 demoEnv { demoPkt with flag := 0x10#8, body := .int (-70000) }).body = .int (-70000) :=
  C01_errno_body params C01_valid params.v1 demoEnv _ (-70000) rfl (by decide) (by decide) (by decide)

example : (writePacket params params.v1 demoEnv demoPkt).ret = .ok 22 :=
  (C01_layout_v1 params C01_valid demoEnv demoPkt _ _ demo_marshal (by decide)).2.1

example : (readN params params.v1 demoEnv 2 [framesOf params params.v1 demoEnv [demoPkt, demoPkt]]).1 =
    [.ok (expect params params.v1 demoEnv demoPkt), .ok (expect params params.v1 demoEnv demoPkt)] :=
  (C01_stream params C01_valid params.v1 (Or.inl rfl) demoEnv demoEnv_lawful [demoPkt, demoPkt]
    (fun p hp => by
      have : p = demoPkt := by simpa using hp
      subst this
      exact ⟨by decide, by decide, demo_fits _ (Or.inl rfl)⟩) [] _ (by simp [flat])).1


/-- the model environment at work: threshold 4, so the 7-byte body is run-length coded and then
    encrypted with the toy cipher under a two-byte key; V2 with references, bytes behind the frame,
    the stream delivered in three chunks -/
example (c1 c2 c3 : Bytes)
    (h : c1 ++ c2 ++ c3 = (writePacket params params.v2 (modelEnv [0xa1, 0xb2] 4) demoPkt).bytes ++ [9, 9]) :
    (readPacket params params.v2 (modelEnv [0xa1, 0xb2] 4) [c1, c2, c3]).res = .ok demoPkt :=
  (C01_roundtrip_model params C01_valid params.v2 (Or.inr rfl) [0xa1, 0xb2] 4 demoPkt [1, 2, 3, 4, 5, 6, 7]
    (by decide) rfl (by decide) [9, 9] [c1, c2, c3] (by simpa [flat] using h)).1

/-- the marshalled form in that environment: both codec bits set, marker + run-length code, encrypted -/
example : ∃ w, marshalBody params (modelEnv [0xa1, 0xb2] 4) demoPkt = .ok (w, { demoPkt with flag := 0x23#8 }) ∧
    w.length = 15 := ⟨_, rfl, rfl⟩


/-- the length-prefixed pair on an empty and on a 3-byte payload, delivered byte by byte -/
example : (readLenData params [[0], [2], [7]]).res = .ok [] :=
  (C01_lendata_roundtrip params C01_valid_lendata [] [7] (by decide) [[0], [2], [7]] (by decide)).1
example : (readLenData params [[0], [5], [1], [2], [3]]).res = .ok [1, 2, 3] :=
  (C01_lendata_roundtrip params C01_valid_lendata [1, 2, 3] [] (by decide) [[0], [5], [1], [2], [3]] (by decide)).1
example : (writeLenData params (List.replicate 65533 0)).writes = [] :=
  ((C01_lendata_write params C01_valid_lendata _).2 (by rw [List.length_replicate]; omega)).1

/-- **Re-encoding.** The packet object the encoder leaves behind (it carries the codec's wire bits) can be handed to
    the encoder again — a broadcast loop, a resend — and produces exactly the same `Write` calls, the same return
    value, and is left unchanged: for every environment, packet and format. -/
theorem C01_rewrite_same (P : Params) (F : Fmt) (e : Env) (p : Pkt) (n : Nat)
    (h : (writePacket P F e p).ret = .ok n) :
    writePacket P F e (writePacket P F e p).pkt = writePacket P F e p := by
  unfold writePacket at h ⊢
  by_cases hr : F.v2 = true ∧ p.refs.length > P.maxRefs
  · simp [hr] at h
  · simp only [hr, if_false] at h ⊢
    cases hm : marshalBody P e p with
    | error er => simp [hm] at h
    | ok wp =>
      obtain ⟨w, p'⟩ := wp
      simp only [hm] at h ⊢
      obtain ⟨bits, _, hp'⟩ := marshal_flag hm
      have hrefs : p'.refs = p.refs := by rw [hp']
      have hm2 := marshal_again P e p p' w hm
      by_cases ho : F.headerSize + (if F.v2 = true then p'.refs else []).length * 4 + w.length > F.writeMax
      · simp [ho] at h
      · simp only [ho, if_false] at h ⊢
        cases hh : buildHeader F p' (if F.v2 = true then p'.refs else []).length
            (F.headerSize + (if F.v2 = true then p'.refs else []).length * 4 + w.length)
            (refBytes (if F.v2 = true then p'.refs else [])) w with
        | none => simp [hh] at h
        | some hdr =>
          simp only [hh]
          have hr' : ¬ (F.v2 = true ∧ p'.refs.length > P.maxRefs) := by rw [hrefs]; exact hr
          simp only [hr', if_false, hm2, ho, hh]

/-- non-vacuity: the demo packet is written (`ret = .ok 31`-style success), is left with both codec bits set, and the
    second encoding of that object is the first one -/
example : ∃ n, (writePacket params params.v2 demoEnv demoPkt).ret = .ok n ∧
    (writePacket params params.v2 demoEnv demoPkt).pkt.flag = 0x23#8 ∧
    writePacket params params.v2 demoEnv (writePacket params params.v2 demoEnv demoPkt).pkt =
      writePacket params params.v2 demoEnv demoPkt := by
  have h : ∃ n, (writePacket params params.v2 demoEnv demoPkt).ret = .ok n := ⟨_, rfl⟩
  obtain ⟨n, hn⟩ := h
  exact ⟨n, hn, rfl, C01_rewrite_same params params.v2 demoEnv demoPkt n hn⟩

end Fatchoy.C01
