/-
C20 — node ids pack, unpack and print/parse losslessly for every service and instance.
Property theorems only; helper lemmas are in Lemmas/C20.lean, the model in Model/C20.lean and the
constants it is instantiated with are regenerated from /repo/nodeid.go into Gen/C20.lean.
-/
import Fatchoy.Lemmas.C20
namespace Fatchoy.C20

/-- the regenerated constants satisfy the side-conditions the proofs need -/
theorem C20_valid_pack : ValidPack params := by decide
theorem C20_valid_print : ValidPrint params := by decide

/-- taking a node id apart returns what it was built from, and it is a backend id -/
theorem C20_unpack (P : Params) (hv : ValidPack P) (s i : Nat) (hs : s < 2 ^ 8) (hi : i < 2 ^ 16) :
    service P (make P s i) = s ∧ inst (make P s i) = i ∧ isBackend P (make P s i) = true := by
  have hs' : s < 256 := by simpa using hs
  have hi' : i < 65536 := by simpa using hi
  obtain ⟨hm, hlt⟩ := make_eq P hv hs' hi'
  obtain ⟨h16, h8, h32⟩ := hv
  have hik : i < 2 ^ P.serviceShift :=
    Nat.lt_of_lt_of_le hi' (by simpa using Nat.pow_le_pow_right (n := 2) (by omega) h16)
  rw [hm]
  refine ⟨?_, ?_, ?_⟩
  · unfold service
    rw [Nat.shiftRight_eq_div_pow, Nat.add_comm, Nat.add_mul_div_right _ _ (two_pow_shift_pos _),
      Nat.div_eq_of_lt hik, Nat.zero_add, Nat.mod_eq_of_lt hs']
  · unfold inst
    obtain ⟨d, hd⟩ : ∃ d, P.serviceShift = 16 + d := ⟨P.serviceShift - 16, by omega⟩
    rw [hd, Nat.pow_add, ← Nat.mul_assoc, Nat.mul_comm s, Nat.mul_assoc, Nat.add_comm,
      show (2:Nat) ^ 16 = 65536 by rfl, Nat.add_mul_mod_self_left, Nat.mod_eq_of_lt hi']
  · unfold isBackend
    rw [Nat.shiftLeft_eq, Nat.one_mul, and_two_pow_eq_zero hlt]; rfl

/-- distinct (service, instance) pairs give distinct ids -/
theorem C20_distinct (P : Params) (hv : ValidPack P) (s i s' i' : Nat)
    (hs : s < 2 ^ 8) (hi : i < 2 ^ 16) (hs' : s' < 2 ^ 8) (hi' : i' < 2 ^ 16)
    (h : make P s i = make P s' i') : s = s' ∧ i = i' := by
  have h1 := C20_unpack P hv s i hs hi
  have h2 := C20_unpack P hv s' i' hs' hi'
  rw [h] at h1
  exact ⟨h1.1.symm.trans h2.1, h1.2.1.symm.trans h2.2.1⟩

/-- the printed form is exactly six lower-case hexadecimal characters and parses back to the id -/
theorem C20_print (P : Params) (hv : ValidPack P) (hp : ValidPrint P) (s i : Nat)
    (hs : s < 2 ^ 8) (hi : i < 2 ^ 16) :
    ∃ str, toStringL P (make P s i) = some str ∧ str.length = 6 ∧ (∀ c ∈ str, IsLowerHex c) ∧
      parse P str = some (make P s i) := by
  obtain ⟨hsv, hin, _⟩ := C20_unpack P hv s i hs hi
  have hs' : s < 256 := by simpa using hs
  have hi' : i < 65536 := by simpa using hi
  obtain ⟨hm, _⟩ := make_eq P hv hs' hi'
  obtain ⟨hk, hf, ha0, hb0, ha1, hb1, hpb, hpbits⟩ := hp
  have h2 : s < 16 ^ 2 := by omega
  have h4 : i < 16 ^ 4 := by omega
  refine ⟨padHex 2 s ++ padHex 4 i, ?_, ?_, ?_, ?_⟩
  · unfold toStringL
    rw [hf, hsv, hin, ha0, hb0, ha1, hb1]
    simp only [fmtHex_unsigned, Nat.mod_eq_of_lt hs, Nat.mod_eq_of_lt hi]
  · rw [List.length_append, padHex_length (by omega) h2, padHex_length (by omega) h4]
  · intro c hc
    rcases List.mem_append.mp hc with hc | hc
    · exact padHex_lower _ _ c hc
    · exact padHex_lower _ _ c hc
  · have hne : padHex 2 s ++ padHex 4 i ≠ [] := by
      intro h0
      have := congrArg List.length h0
      rw [List.length_append, padHex_length (by omega) h2, padHex_length (by omega) h4] at this
      simp at this
    have hval : parseAux 0 (padHex 2 s ++ padHex 4 i) = some (s * 16 ^ 4 + i) := by
      have h := parseAux_padHex 0 2 s (padHex 4 i) (hw := by omega) h2
      rw [h]
      have h' := parseAux_padHex (0 * 16 ^ 2 + s) 4 i [] (hw := by omega) h4
      rw [List.append_nil] at h'
      rw [h']; simp [parseAux]
    unfold parse
    rw [hpb, hpbits, hm, hk]
    cases hstr : padHex 2 s ++ padHex 4 i with
    | nil => exact absurd hstr hne
    | cons c cs =>
      rw [hstr] at hval
      have hlt : s * 16 ^ 4 + i < 2 ^ 32 := by omega
      simp only [ne_eq, not_true_eq_false, if_false, hval, hlt, if_true]

/-- non-vacuity: the hypotheses are met by the regenerated parameters and by a service ≥ 128 -/
example : ∃ str, toStringL params (make params 0xef 0x0bcd) = some str ∧ str.length = 6 ∧
    (∀ c ∈ str, IsLowerHex c) ∧ parse params str = some (make params 0xef 0x0bcd) :=
  C20_print params C20_valid_pack C20_valid_print 0xef 0x0bcd (by decide) (by decide)

/-! ### The translated source (Gen/C20.lean, `namespace Tr`, rewritten from nodeid.go on every run) equals the model.
For all inputs; a semantic edit of one of these four bodies changes the generated definition and breaks the theorem. -/
section Translated
open Fatchoy.Gen.C20

set_option linter.unusedSimpArgs false
/-- the translation of `MakeNodeID` is the model's `make` (proved up to the order of the `|` operands and extra locals) -/
theorem C20_tr_MakeNodeID (s : BitVec 8) (i : BitVec 16) :
    (Tr.MakeNodeID s i).toNat = make params s.toNat i.toNat := by
  have hs := s.isLt
  have hi := i.isLt
  rw [make_params_eq (by omega) (by omega)]
  simp (disch := omega) [Tr.MakeNodeID, Nat.shiftLeft_eq, Nat.mod_eq_of_lt] <;> ac_rfl

/-- the translation of `NodeID.Service` is the model's `service` (every 32-bit id, also client ids) -/
theorem C20_tr_Service (n : BitVec 32) : (Tr.Service n).toNat = service params n.toNat := by
  simp [Tr.Service, service, params, nodeServiceShift]

/-- the translation of `NodeID.Instance` is the model's `inst` -/
theorem C20_tr_Instance (n : BitVec 32) : (Tr.Instance n).toNat = inst n.toNat := by
  simp [Tr.Instance, inst]

/-- the translation of `NodeID.IsTypeBackend` is the model's `isBackend` -/
theorem C20_tr_IsTypeBackend (n : BitVec 32) : Tr.IsTypeBackend n = isBackend params n.toNat := by
  rw [Bool.eq_iff_iff]
  simp [Tr.IsTypeBackend, isBackend, params, nodeTypeShift, BitVec.toNat_eq, Nat.and_comm, eq_comm (a := (0 : Nat))]

/-- the property, stated on the translated code itself: every service and instance survives packing -/
theorem C20_tr_unpack (s : BitVec 8) (i : BitVec 16) :
    Tr.Service (Tr.MakeNodeID s i) = s ∧ Tr.Instance (Tr.MakeNodeID s i) = i ∧
      Tr.IsTypeBackend (Tr.MakeNodeID s i) = true := by
  obtain ⟨h1, h2, h3⟩ := C20_unpack params C20_valid_pack s.toNat i.toNat s.isLt i.isLt
  refine ⟨BitVec.eq_of_toNat_eq ?_, BitVec.eq_of_toNat_eq ?_, ?_⟩
  · rw [C20_tr_Service, C20_tr_MakeNodeID, h1]
  · rw [C20_tr_Instance, C20_tr_MakeNodeID, h2]
  · rw [C20_tr_IsTypeBackend, C20_tr_MakeNodeID, h3]

/-- test (one sample, not a proof): the translation computes the documented layout, service ≥ 128 -/
example : Tr.MakeNodeID 0xef 0x0bcd = 0x00ef0bcd#32 ∧ Tr.Service 0x80ef0bcd#32 = 0xef#8 ∧
    Tr.Instance 0x80ef0bcd#32 = 0x0bcd#16 ∧ Tr.IsTypeBackend 0x80ef0bcd#32 = false := by decide

end Translated

end Fatchoy.C20
