/-
C08 — segment id generators never repeat an id across generators, restarts, faults.

Property theorems only.  Model: Model/C08.lean (`newGen`, `init`, `reload`, `next` of
/repo/x/uuid/seq.go; `Adapter.incr` = the "did not grow" guard of the four store adapters; `Sys` =
one database + adapters + generators + the log of issued ids).  Facts regenerated from the source:
Gen/C08.lean.  Helper lemmas: Lemmas/C08.lean.

How the property's quantifiers appear here.
* The database is an adversary: every store call is answered by an arbitrary `Raw` (a value, a
  failure before the counter moved, a failure after it moved).  The "given" of the property — no
  counter value is handed out twice — and the other hypotheses are the predicate `Legal`:
  every generator on the store has the same step `st ≥ 1` (`StepOK`); `Next` is only called on a
  generator whose `Init` has succeeded (as `uuid.Init` does); a value the database hands out was
  not handed out before, is not negative and its segment fits int64 (`CounterOK`).
* A `History P st as s` is any list `as` of legal actions from the empty system: adapters and
  generators are created at any time (`create` after `crash` = the re-creation after a crash; a
  crashed generator never acts again), `Init`/`Next` are called on any live generator in any order.
* Schedules: one action is one whole `Init`/`Next`.  `Next` runs under the generator's mutex and
  calls the store at most once (regenerated facts `seqNextLocked`, `reloadAfterIncr` in `Valid`),
  so every interleaving of concurrent callers is a sequence of such actions.
The four database adapters themselves are not modelled; only the presence of their guard is
checked on the source (`guard*` in `Valid`).
-/
import Fatchoy.Lemmas.C08
namespace Fatchoy.C08

/-- the regenerated facts satisfy the side-conditions -/
theorem C08_valid : Valid params := by decide

/-- Every id issued lies inside the segment `(c·step, (c+1)·step]` of a counter `c` leased by the
generator that issued it; every lease is a value the database handed out; no counter is leased by
two generators. -/
theorem C08_in_segment (P : Params) {st : Int} (hs : StepOK st) {as : List Action} {s : Sys}
    (h : History P st as s) :
    (∀ e ∈ s.log, ∃ gs : GenSt, s.gens[e.1]? = some gs ∧ ∃ c ∈ gs.leased, c * st < e.2 ∧ e.2 ≤ (c + 1) * st) ∧
    (∀ (g : Nat) (gs : GenSt), s.gens[g]? = some gs → ∀ c ∈ gs.leased, c ∈ s.used) ∧
    (∀ (g₁ g₂ : Nat) (gs₁ gs₂ : GenSt), g₁ ≠ g₂ → s.gens[g₁]? = some gs₁ → s.gens[g₂]? = some gs₂ →
      ∀ c ∈ gs₁.leased, c ∉ gs₂.leased) := by
  obtain ⟨i1, i2, i3, -⟩ := history_inv P hs h
  refine ⟨?_, fun g gs hg c hc => ((i1 g gs hg).2.1 c hc).1, i2⟩
  intro e he
  obtain ⟨gs, k1, -, -, k2⟩ := i3 e he
  exact ⟨gs, k1, k2⟩

/-- The ids of one generator strictly increase in the order of issue. -/
theorem C08_increasing (P : Params) {st : Int} (hs : StepOK st) {as : List Action} {s : Sys}
    (h : History P st as s) (g : Nat) : (issuedBy s g).Pairwise (· < ·) := by
  obtain ⟨-, -, -, i4⟩ := history_inv P hs h
  have hp : s.log.reverse.Pairwise (fun a b => b.1 = a.1 → a.2 < b.2) := by
    rw [List.pairwise_reverse]; exact i4.imp (fun h => h.2)
  have hf := hp.filter (fun e => e.1 == g)
  unfold issuedBy
  rw [List.pairwise_map]
  refine hf.imp_of_mem ?_
  intro a b ha hb hab
  have h1 := (List.mem_filter.mp ha).2
  have h2 := (List.mem_filter.mp hb).2
  simp only [beq_iff_eq] at h1 h2
  exact hab (h2.trans h1.symm)

/-- All ids issued by all generators, over any history, are pairwise distinct. -/
theorem C08_distinct (P : Params) {st : Int} (hs : StepOK st) {as : List Action} {s : Sys}
    (h : History P st as s) : (issued s).Nodup := by
  obtain ⟨-, -, -, i4⟩ := history_inv P hs h
  unfold issued
  have hp : s.log.reverse.Pairwise (fun a b => a.2 ≠ b.2) := by
    rw [List.pairwise_reverse]; exact i4.imp (fun h => Ne.symm h.1)
  exact (List.pairwise_map).mpr hp

/-- Nothing issued after any point of a history repeats an id issued before it.  In particular,
with `s` the state in which a generator crashes: the generator created in its place (and every other
generator) only issues ids that were not issued before the crash. -/
theorem C08_crash (P : Params) {st : Int} (hs : StepOK st) {as : List Action} {s : Sys}
    (h : History P st as s) {bs : List Action} {s' : Sys} (hL : LegalRun P st s bs)
    (hr : runActs P s bs = some s') :
    ∃ new, s'.log = new ++ s.log ∧ ∀ e ∈ new, ∀ e' ∈ s.log, e.2 ≠ e'.2 := by
  obtain ⟨-, -, -, i4⟩ := runActs_inv P hs (history_inv P hs h) hL hr
  obtain ⟨new, hnew⟩ := runActs_log_suffix P hr
  refine ⟨new, hnew, ?_⟩
  rw [hnew, List.pairwise_append] at i4
  intro e he e' he'
  exact (i4.2.2 e he e' he').1

/-- A failed store call surfaces as an error without consuming or duplicating ids, and generation
resumes correctly.  For one legal call of `Next` on generator `g` (`b`: the store was asked):
(1) if the store was asked and failed — before or after the counter moved — the call returns that error;
(2) a call that returns no id leaves every generator and the log of issued ids exactly as they
    were (nothing consumed), and the store was asked and failed, or handed out a value the
    adapter's guard refused (no spurious error);
(3) the state after the call is again one to which all theorems of this file apply (`History` of
    the longer action list), whatever the outcome — so the next successful call continues inside
    a fresh segment or the current one;
(4) a call whose store call succeeded with counter `c` (guard passed) returns `c·step + 1`. -/
theorem C08_fault (P : Params) {st : Int} (hs : StepOK st) {as : List Action} {s : Sys}
    (h : History P st as s) {g : Nat} {raw : Raw} (hL : Legal P st s (.next g raw))
    {s' : Sys} {o : Out} {b : Bool} (hst : step P s (.next g raw) = some (s', o, b)) :
    (b = true → (raw = .failBefore ∨ ∃ c, raw = .failAfter c) → o = .errStore) ∧
    ((∀ n, o ≠ .id n) → s'.gens = s.gens ∧ s'.log = s.log ∧ b = true ∧
      ((o = .errStore ∧ (raw = .failBefore ∨ ∃ c, raw = .failAfter c)) ∨ (o = .errRange ∧ ∃ c, raw = .ok c))) ∧
    (b = true → ∀ c, raw = .ok c → o = .id (c * st + 1) ∨ o = .errRange) := by
  obtain ⟨gs, -, -, -, -, hcase⟩ := step_next_cases P hs (history_inv P hs h) hL hst
  rcases hcase with ⟨rfl, -, rfl, -⟩ | ⟨rfl, -, c, rfl, -, rfl, -⟩ | ⟨rfl, -, hk, -, hg, hl⟩
  · exact ⟨fun hb => (by cases hb), fun hn => absurd rfl (hn _), fun hb => (by cases hb)⟩
  · refine ⟨fun _ hr => ?_, fun hn => absurd rfl (hn _), fun _ c' hc' => ?_⟩
    · rcases hr with hr | ⟨c', hr⟩ <;> cases hr
    · cases hc'; exact Or.inl rfl
  · refine ⟨fun _ hr => ?_, fun _ => ⟨hg, hl, rfl, hk⟩, fun _ c hc => ?_⟩
    · rcases hk with ⟨ho, -⟩ | ⟨-, c, hc⟩
      · exact ho
      · rcases hr with hr | ⟨c', hr⟩ <;> rw [hr] at hc <;> cases hc
    · rcases hk with ⟨-, hr⟩ | ⟨ho, -⟩
      · rcases hr with hr | ⟨c', hr⟩ <;> rw [hr] at hc <;> cases hc
      · exact Or.inr ho

/-- The same for `Init`: a legal `Init` either leases the counter the store handed out (and issues
nothing), or returns the store's error / the guard's refusal and leaves every generator — in
particular its own "not yet initialised" state — and the log unchanged. -/
theorem C08_fault_init (P : Params) {st : Int} (hs : StepOK st) {as : List Action} {s : Sys}
    (h : History P st as s) {g : Nat} {raw : Raw} (hL : Legal P st s (.init g raw))
    {s' : Sys} {o : Out} {b : Bool} (hst : step P s (.init g raw) = some (s', o, b)) :
    s'.log = s.log ∧ (o = .done ∨ o = .errStore ∨ o = .errRange) ∧ (o ≠ .done → s'.gens = s.gens) ∧
    (o = .done → ∃ c, raw = .ok c) := by
  obtain ⟨gs, -, -, -, hcase⟩ := step_init_cases P hs (history_inv P hs h) hL hst
  rcases hcase with ⟨c, hr, rfl, -, hl, -⟩ | ⟨ho, hg, hl⟩
  · exact ⟨hl, Or.inl rfl, fun hn => absurd rfl hn, fun _ => ⟨c, hr⟩⟩
  · refine ⟨hl, Or.inr ho, fun _ => hg, fun hd => ?_⟩
    rcases ho with ho | ho <;> rw [ho] at hd <;> cases hd

/-- (3) of C08_fault, and the general form of "for any history": a legal action extends a history. -/
theorem C08_history_step (P : Params) {st : Int} {as : List Action} {s : Sys} (h : History P st as s)
    {a : Action} (hL : Legal P st s a) {s' : Sys} {o : Out} {b : Bool} (hst : step P s a = some (s', o, b)) :
    History P st (as ++ [a]) s' := by
  obtain ⟨h1, h2⟩ := h
  have key : ∀ (s₀ : Sys) (as : List Action), LegalRun P st s₀ as → runActs P s₀ as = some s →
      LegalRun P st s₀ (as ++ [a]) ∧ runActs P s₀ (as ++ [a]) = some s' := by
    intro s₀ as
    induction as generalizing s₀ with
    | nil =>
      intro _ hr
      simp only [runActs, Option.some.injEq] at hr
      subst hr
      constructor
      · exact ⟨hL, by rw [hst]; trivial⟩
      · simp only [List.nil_append, runActs, hst]
    | cons x xs ih =>
      intro hl hr
      simp only [List.cons_append, LegalRun, runActs] at hl hr ⊢
      cases hx : step P s₀ x with
      | none => rw [hx] at hr; cases hr
      | some t =>
        obtain ⟨s₁, o₁, b₁⟩ := t
        rw [hx] at hl hr
        simp only at hl hr ⊢
        obtain ⟨k1, k2⟩ := ih s₁ hl.2 hr
        exact ⟨⟨hl.1, k1⟩, k2⟩
  exact key _ _ h1 h2

/-! ### non-vacuity

One concrete history at the regenerated parameters (`Ex.acts` in Lemmas/C08.lean: step 2, a shared
adapter, a failed `Init`, a reload, a store failure after the counter moved, a value refused by the
guard, a crash and a re-creation).  A test of satisfiability of the hypotheses, not a proof. -/

example : History params 2 Ex.acts Ex.final := Ex.hist
example : StepOK 2 := by decide
example : issued Ex.final = [7, 8, 19, 21, 11] := by decide
example : (issued Ex.final).Nodup := C08_distinct params (by decide) Ex.hist
example : issuedBy Ex.final 0 = [7, 8, 19] ∧ (issuedBy Ex.final 0).Pairwise (· < ·) :=
  ⟨by decide, C08_increasing params (by decide) Ex.hist 0⟩
/-- C08_crash with the crash of generator 0 inside the continuation: what generator 2 (created in its
place) and generator 1 issue afterwards (21, 11) differs from everything issued before (7, 8, 19) -/
example : ∃ s new, History params 2 (Ex.acts.take 11) s ∧ Ex.final.log = new ++ s.log ∧
    new = [(1, 11), (2, 21)] ∧ ∀ e ∈ new, ∀ e' ∈ s.log, e.2 ≠ e'.2 := by
  have hh : History params 2 (Ex.acts.take 11) ((runActs params Sys.empty (Ex.acts.take 11)).get (by decide)) := by decide
  obtain ⟨new, h1, h2⟩ := C08_crash params (st := 2) (by decide) hh (bs := Ex.acts.drop 11) (s' := Ex.final) (by decide) (by decide)
  refine ⟨_, new, hh, h1, ?_, h2⟩
  have : Ex.final.log = [(1, 11), (2, 21)] ++ ((runActs params Sys.empty (Ex.acts.take 11)).get (by decide)).log := by decide
  rw [this] at h1
  exact (List.append_cancel_right h1).symm

/-- the step of `Ex.acts` in which the store fails after moving: C08_fault applies to it -/
example : ∃ as s s' o, History params 2 as s ∧ Legal params 2 s (.next 0 (.failAfter 6)) ∧
    step params s (.next 0 (.failAfter 6)) = some (s', o, true) ∧ o = .errStore ∧ s'.gens = s.gens :=
  ⟨Ex.acts.take 8, (runActs params Sys.empty (Ex.acts.take 8)).get (by decide), _, _, by decide, by decide, rfl, by decide, by decide⟩

/-! ### The translated source (Gen/C08.lean, `namespace Tr`, rewritten from seq.go on every run) equals the model's
segment arithmetic — for ALL int64 inputs, overflowing ones included (`wrap64` is `Int.bmod · 2^64`, `wrap64_eq_bmod`);
no range hypothesis is needed. Proofs normalise and close up to associativity/commutativity (harmless rewrites survive). -/
section Translated
open Fatchoy.Gen.C08
set_option linter.unusedSimpArgs false
/-- what `reload` stores in `lastID` is the model's `wrap64 (c * step)`, for every int64 counter and step -/
theorem C08_tr_reload_lastID (step c : BitVec 64) :
    (Tr.reload_lastID step c).toInt = wrap64 (c.toInt * step.toInt) := by
  simp [Tr.reload_lastID, wrap64_eq_bmod, BitVec.toInt_mul, Int.mul_comm] <;> ac_rfl

/-- the segment end computed by `reload` and by `Next` is the model's `rangeEnd` (both int64 wraps included) -/
theorem C08_tr_rangeEnd (step c : BitVec 64) (x l : Int) :
    (Tr.reload_rangeEnd step c).toInt = rangeEnd ⟨step.toInt, x, l⟩ c.toInt ∧
    (Tr.Next_rangeEnd step c).toInt = rangeEnd ⟨step.toInt, x, l⟩ c.toInt := by
  constructor <;>
  (simp [Tr.reload_rangeEnd, Tr.Next_rangeEnd, rangeEnd, wrap64_eq_bmod, BitVec.toInt_mul, BitVec.toInt_add, Int.mul_comm, Int.add_comm] <;> ac_rfl)

/-- the overflow test of `reload` is the model's `rangeEnd g c < lastID` (signed comparison) -/
theorem C08_tr_reload_overflow (step lastID c : BitVec 64) (x l : Int) :
    Tr.reload_overflow step lastID c = decide (rangeEnd ⟨step.toInt, x, l⟩ c.toInt < lastID.toInt) := by
  rw [Bool.eq_iff_iff]
  simp [Tr.reload_overflow, BitVec.slt, ← (C08_tr_rangeEnd step c x l).1, Tr.reload_rangeEnd]

/-- the candidate id of `Next` is the model's `wrap64 (lastID + 1)` -/
theorem C08_tr_Next_next (lastID : BitVec 64) :
    (Tr.Next_next lastID).toInt = wrap64 (lastID.toInt + 1) := by
  simp [Tr.Next_next, wrap64_eq_bmod, BitVec.toInt_add, Int.add_comm] <;> ac_rfl

/-- the in-segment test of `Next` is the model's `nxt ≤ rangeEnd g g.counter` -/
theorem C08_tr_Next_inRange (step c n : BitVec 64) (l : Int) :
    Tr.Next_inRange step c n = decide (n.toInt ≤ rangeEnd ⟨step.toInt, c.toInt, l⟩ c.toInt) := by
  rw [Bool.eq_iff_iff]
  simp [Tr.Next_inRange, BitVec.sle, ← (C08_tr_rangeEnd step c c.toInt l).2, Tr.Next_rangeEnd]

/-- the model's decision of `Next` to go to the store, on the translated code -/
theorem C08_tr_needsStore (step c lastID : BitVec 64) :
    needsStore ⟨step.toInt, c.toInt, lastID.toInt⟩ =
      !(Tr.Next_inRange step c (Tr.Next_next lastID)) := by
  rw [C08_tr_Next_inRange step c _ lastID.toInt, C08_tr_Next_next]
  unfold needsStore
  by_cases h : wrap64 (lastID.toInt + 1) ≤ rangeEnd ⟨step.toInt, c.toInt, lastID.toInt⟩ c.toInt <;> simp [h]

/-- test (samples, not a proof): a segment of 2000 ids; the last id of a segment; a product that wraps -/
example : Tr.reload_lastID 2000#64 7#64 = 14000#64 ∧ Tr.Next_inRange 2000#64 7#64 16000#64 = true ∧
    Tr.Next_inRange 2000#64 7#64 16001#64 = false ∧
    Tr.reload_overflow 9223372036854775807#64 (Tr.reload_lastID 9223372036854775807#64 3#64) 3#64 = true := by decide

end Translated

end Fatchoy.C08
