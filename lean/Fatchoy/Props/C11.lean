/-
C11 — the sorted set agrees with a reference ranking under any operation sequence.
Property theorems only.

Model (Model/C11.lean), two layers: L = `zskiplist.go` abstracted to its content list, every exported
primitive specified the way its level-0 walk proceeds; Z = `zset.go` structurally on top of L.
Reference (Model/C11Spec.lean): a member→score table, and per query the table sorted by
(score, member) — score ranges include both ends, rank ranges select the positions between the two
indices, a negative index counting from the end.  Lemmas: Lemmas/C11L.lean, Lemmas/C11Z.lean.
The pointer/span/tower structure of the real skip list is NOT covered by these theorems: it is tied to
L by the correspondence run (every primitive compared directly) and by the invariant probe.
-/
import Fatchoy.Lemmas.C11Z
import Fatchoy.Model.C11Params
namespace Fatchoy.C11

/-- the source still has the exported methods and the comparison operators the models were written
  from (regenerated on every run; `DeleteRangeByScore` walking `Score < min`, not `<=`, is one of them) -/
theorem C11_valid : Valid params := by decide

/-- The sorted set agrees with the reference ranking: for every sequence of `Add` (new member or score
  update), `Remove`, `RemoveRangeByScore`, `RemoveRangeByRank`, `Len`, `GetScore`, `GetRank`
  (ascending and descending), `GetRange`, `GetRangeByScore` (both directions) and `Count`, every result
  of the model of zset.go equals the result computed from the reference table by sorting it. -/
theorem C11_zset_spec (ops : List Op) : trace ZSet.empty ops = refTrace [] ops :=
  (run_sim ZSet.empty [] ops rel_empty).2

/-- After any operation sequence the skip list's content *is* the reference table sorted by
  (score, member), strictly ascending, one node per member. -/
theorem C11_ranking (ops : List Op) :
    (run ZSet.empty ops).zsl = ranking (refRun [] ops) ∧ Sorted (run ZSet.empty ops).zsl ∧
    ((run ZSet.empty ops).zsl.map (·.ele)).Nodup := by
  have h := (run_sim ZSet.empty [] ops rel_empty).1
  refine ⟨h.ranking_eq.symm, h.sorted, ?_⟩
  have : ((refRun [] ops).map toNode).map (·.ele) = (refRun [] ops).map (·.1) := by
    rw [List.map_map]; rfl
  exact (h.perm.map (·.ele)).symm.nodup (this ▸ h.nodup)

/-- No nil dereference: none of the places where zset.go would dereference a nil node (`znode.Ele`
  after a failed `Delete` in `Add`, running off the list in `GetRange`) is ever reached. -/
theorem C11_no_panic (ops : List Op) : Out.panic ∉ trace ZSet.empty ops := by
  rw [C11_zset_spec]
  exact refTrace_no_panic [] ops

/-- `Count` computed from the ranks of the first and the last node in range is the number of nodes
  with min ≤ score ≤ max — on every strictly sorted list, hence after every operation sequence. -/
theorem C11_count (l : SL) (h : Sorted l) (min max : Int) :
    countRange l min max = ((l.filter (inRange min max)).length : Int) :=
  countRange_spec h min max

theorem C11_count_reachable (ops : List Op) (min max : Int) :
    (step (run ZSet.empty ops) (.count min max)).2 =
      .int (((run ZSet.empty ops).zsl.filter (inRange min max)).length) := by
  simp only [step, C11_count _ (C11_ranking ops).2.1]

/-- The member→score table is kept in step with the list after every operation, range removals
  included: distinct members, a row (e, s) exactly when the list has the node (s, e), same size. -/
theorem C11_dict_sync (ops : List Op) :
    let z := run ZSet.empty ops
    (z.dict.map (·.1)).Nodup ∧
    (∀ e s, dget z.dict e = some s ↔ (⟨s, e⟩ : Node) ∈ z.zsl) ∧
    z.dict.length = z.zsl.length := by
  intro z
  have h : Rel z (refRun [] ops) := (run_sim ZSet.empty [] ops rel_empty).1
  refine ⟨(h.dict.map _).symm.nodup h.nodup, ?_, ?_⟩
  · intro e s
    rw [h.dget_eq]
    exact h.mem_iff e s
  · rw [h.dict.length_eq, h.length]

/-- Every `GetRank` call zset.go makes is inside the contract under which the real skip list's answer
  is a function of the content (no node with that member and a smaller score): the calls with a
  member's own score from the table, and the calls `Count` makes for nodes of the list. -/
theorem C11_rank_contract (ops : List Op) :
    let z := run ZSet.empty ops
    (∀ e s, dget z.dict e = some s → L.RankContract z.zsl s e) ∧
    (∀ n ∈ z.zsl, L.RankContract z.zsl n.score n.ele) := by
  intro z
  have h : Rel z (refRun [] ops) := (run_sim ZSet.empty [] ops rel_empty).1
  have key : ∀ n ∈ z.zsl, L.RankContract z.zsl n.score n.ele := by
    intro n hn n' hn' he
    have := h.member_unique hn' hn he
    rw [this]; exact Int.le_refl _
  refine ⟨?_, key⟩
  intro e s hd
  rw [h.dget_eq] at hd
  exact key ⟨s, e⟩ ((h.mem_iff e s).mp hd)

/-- Layer L keeps the list sorted: inserting a node that is not in the list puts exactly that node at
  its sorted position (and a member that was absent stays unique); `Delete`, `DeleteRangeByScore` and
  `DeleteRangeByRank` only remove nodes, so sortedness and uniqueness of members survive them. -/
theorem L_sorted (l : SL) (h : Sorted l) :
    (∀ s e, (⟨s, e⟩ : Node) ∉ l →
      Sorted (L.insert l s e) ∧ (L.insert l s e).Perm (⟨s, e⟩ :: l) ∧
      ((∀ n ∈ l, n.ele ≠ e) → (l.map (·.ele)).Nodup → ((L.insert l s e).map (·.ele)).Nodup)) ∧
    (∀ s e, Sorted (L.delete l s e).1 ∧ (L.delete l s e).1.Sublist l) ∧
    (∀ min max, Sorted (L.deleteRangeByScore l min max).1 ∧ (L.deleteRangeByScore l min max).1.Sublist l) ∧
    (∀ a b, Sorted (L.deleteRangeByRank l a b).1 ∧ (L.deleteRangeByRank l a b).1.Sublist l) := by
  refine ⟨?_, ?_, ?_, ?_⟩
  · intro s e hn
    obtain ⟨h1, h2⟩ := insert_sorted h s e hn
    refine ⟨h1, h2, ?_⟩
    intro habs hnd
    have : ((⟨s, e⟩ :: l : SL).map (·.ele)).Nodup := by
      simp only [List.map_cons, List.nodup_cons]
      refine ⟨?_, hnd⟩
      intro hm
      obtain ⟨n, hn', he⟩ := List.mem_map.mp hm
      exact habs n hn' he
    exact (h2.map (·.ele)).symm.nodup this
  · exact fun s e => ⟨h.sublist (delete_sublist l s e), delete_sublist l s e⟩
  · exact fun a b => ⟨h.sublist (deleteRangeByScore_sublist l a b), deleteRangeByScore_sublist l a b⟩
  · exact fun a b => ⟨h.sublist (deleteRangeByRank_sublist l a b), deleteRangeByRank_sublist l a b⟩

/-- What the primitives compute on a strictly sorted list, declaratively:
  `Delete` unlinks exactly the named node if it is there (else nothing, answer nil); `GetRank` of a node
  of the list is its 1-based position; `FirstInRange`/`LastInRange` are the first/last node with
  min ≤ score ≤ max; `DeleteRangeByScore` removes exactly the nodes with min ≤ score ≤ max. -/
theorem L_spec (l : SL) (h : Sorted l) :
    (∀ P Q x, l = P ++ x :: Q → L.delete l x.score x.ele = (P ++ Q, some x) ∧
      L.getRank l x.score x.ele = P.length + 1) ∧
    (∀ s e, (⟨s, e⟩ : Node) ∉ l → L.delete l s e = (l, none)) ∧
    (∀ s e, (∀ n ∈ l, n.ele ≠ e) → L.getRank l s e = 0) ∧
    (∀ min max, L.firstInRange l min max = (l.filter (inRange min max)).head? ∧
      L.lastInRange l min max = (l.filter (inRange min max)).getLast? ∧
      L.deleteRangeByScore l min max = (l.filter (fun n => !inRange min max n), l.filter (inRange min max))) := by
  refine ⟨?_, fun s e hn => delete_not_mem h s e hn, fun s e hn => getRank_absent l s e hn, ?_⟩
  · intro P Q x hl
    subst hl
    exact ⟨delete_mem h, getRank_split h⟩
  · exact fun min max => ⟨firstInRange_spec h min max, lastInRange_spec h min max, deleteRangeByScore_spec h min max⟩

/-- `GetRange` returns exactly the reference slice for every pair of indices — negative, out of range,
  crossed — in both directions, on every list (no sortedness needed), and never dereferences nil. -/
theorem C11_range_by_rank (l : SL) (start stop : Int) (reverse : Bool) :
    rangeByRank l start stop reverse =
      some ((slice (if reverse then l.reverse else l) start stop).map (·.ele)) :=
  rangeByRank_spec l start stop reverse

/-! ### non-vacuity (tests, not proofs): a run with ties, a score update, both range removals -/

def demoOps : List Op :=
  [.add 3 1, .add 1 1, .add 2 1, .add 6 2, .add 4 2, .add 5 2,   -- two tie groups
   .getRank 2 false, .getRank 2 true, .count 1 1, .getRange (-2) 9 true,
   .add 1 2,                                                       -- score update into the other group
   .getRangeByScore 2 2 false, .removeRangeByScore 1 1, .removeRangeByRank 0 (-3), .len,
   .getRange 0 (-1) false]

example : trace ZSet.empty demoOps =
    [.bool true, .bool true, .bool true, .bool true, .bool true, .bool true,
     .int 1, .int 4, .int 3, .eles [2, 1],
     .bool true,
     .eles [1, 4, 5, 6], .int 2, .int 2, .int 2,
     .eles [5, 6]] := by decide

example : (run ZSet.empty demoOps).zsl = [⟨2, 5⟩, ⟨2, 6⟩] ∧ Sorted [⟨2, 5⟩, ⟨2, 6⟩] :=
  ⟨by decide, by unfold Sorted; decide⟩

example : slice [10, 11, 12, 13, 14] (-2) 9 = [13, 14] ∧ slice [10, 11, 12, 13, 14] (-9) 1 = [10, 11] ∧
    slice [10, 11, 12, 13, 14] 3 1 = ([] : List Nat) := by decide

end Fatchoy.C11
