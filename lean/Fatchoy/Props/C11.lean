/-
C11 — the sorted set agrees with a reference ranking under any operation sequence.
Property theorems only.

Model, three layers.  S (Model/C11S.lean) = `zskiplist.go` itself: node table, towers of (forward, span),
backward pointers, header, tail, length, level; every operation as the Go code walks, the tower height
an input of `Insert`.  L (Model/C11.lean) = the skip list abstracted to its content list, every exported
primitive specified the way its level-0 walk proceeds.  Z / ZS = `zset.go` structurally on top of L /
on top of S (Model/C11.lean, Model/C11ZS.lean).
Reference (Model/C11Spec.lean): a member→score table, and per query the table sorted by
(score, member) — score ranges include both ends, rank ranges select the positions between the two
indices, a negative index counting from the end.
Lemmas: Lemmas/C11L.lean, C11Z.lean (content level); C11SBase … C11SDelRange (structure: invariant,
search, insert, deleteNode, rank lookups, range deletions); C11ZS1 … C11ZS3 (zset.go over the structure).
The first block of theorems is about Z over L; the block "the structural skip list S" proves that S
keeps its invariant and refines L for every tower height, and composes: zset.go over the pointer/span
structure agrees with the reference ranking (`C11_zset_spec_structural`).
-/
import Fatchoy.Lemmas.C11ZS3
import Fatchoy.Model.C11Params
namespace Fatchoy.C11

/-- the source still has the exported methods and the comparison operators the models were written
  from (regenerated on every run; `DeleteRangeByScore` walking `Score < min`, not `<=`, is one of them) -/
theorem C11_valid : Valid params := by decide

/-- The sorted set agrees with the reference ranking: for every sequence of `Add` (new member or score
  update), `Remove`, `RemoveRangeByScore`, `RemoveRangeByRank`, `Len`, `GetScore`, `GetRank`
  (ascending and descending), `GetRange`, `GetRangeByScore` (both directions) and `Count`, every result
  of the model of zset.go equals the result computed from the reference table by sorting it. -/
theorem C11_zset_spec (ops : List Op) : trace ZSet.empty ops = refTrace [] ops :=
  (run_sim ZSet.empty [] ops rel_empty).2

/-- After any operation sequence the skip list's content *is* the reference table sorted by
  (score, member), strictly ascending, one node per member. -/
theorem C11_ranking (ops : List Op) :
    (run ZSet.empty ops).zsl = ranking (refRun [] ops) ∧ Sorted (run ZSet.empty ops).zsl ∧
    ((run ZSet.empty ops).zsl.map (·.ele)).Nodup := by
  have h := (run_sim ZSet.empty [] ops rel_empty).1
  refine ⟨h.ranking_eq.symm, h.sorted, ?_⟩
  have : ((refRun [] ops).map toNode).map (·.ele) = (refRun [] ops).map (·.1) := by
    rw [List.map_map]; rfl
  exact (h.perm.map (·.ele)).symm.nodup (this ▸ h.nodup)

/-- No nil dereference: none of the places where zset.go would dereference a nil node (`znode.Ele`
  after a failed `Delete` in `Add`, running off the list in `GetRange`) is ever reached. -/
theorem C11_no_panic (ops : List Op) : Out.panic ∉ trace ZSet.empty ops := by
  rw [C11_zset_spec]
  exact refTrace_no_panic [] ops

/-- `Count` computed from the ranks of the first and the last node in range is the number of nodes
  with min ≤ score ≤ max — on every strictly sorted list, hence after every operation sequence. -/
theorem C11_count (l : SL) (h : Sorted l) (min max : Int) :
    countRange l min max = ((l.filter (inRange min max)).length : Int) :=
  countRange_spec h min max

theorem C11_count_reachable (ops : List Op) (min max : Int) :
    (step (run ZSet.empty ops) (.count min max)).2 =
      .int (((run ZSet.empty ops).zsl.filter (inRange min max)).length) := by
  simp only [step, C11_count _ (C11_ranking ops).2.1]

/-- The member→score table is kept in step with the list after every operation, range removals
  included: distinct members, a row (e, s) exactly when the list has the node (s, e), same size. -/
theorem C11_dict_sync (ops : List Op) :
    let z := run ZSet.empty ops
    (z.dict.map (·.1)).Nodup ∧
    (∀ e s, dget z.dict e = some s ↔ (⟨s, e⟩ : Node) ∈ z.zsl) ∧
    z.dict.length = z.zsl.length := by
  intro z
  have h : Rel z (refRun [] ops) := (run_sim ZSet.empty [] ops rel_empty).1
  refine ⟨(h.dict.map _).symm.nodup h.nodup, ?_, ?_⟩
  · intro e s
    rw [h.dget_eq]
    exact h.mem_iff e s
  · rw [h.dict.length_eq, h.length]

/-- Every `GetRank` call zset.go makes is inside the contract under which the real skip list's answer
  is a function of the content (no node with that member and a smaller score): the calls with a
  member's own score from the table, and the calls `Count` makes for nodes of the list. -/
theorem C11_rank_contract (ops : List Op) :
    let z := run ZSet.empty ops
    (∀ e s, dget z.dict e = some s → L.RankContract z.zsl s e) ∧
    (∀ n ∈ z.zsl, L.RankContract z.zsl n.score n.ele) := by
  intro z
  have h : Rel z (refRun [] ops) := (run_sim ZSet.empty [] ops rel_empty).1
  have key : ∀ n ∈ z.zsl, L.RankContract z.zsl n.score n.ele := by
    intro n hn n' hn' he
    have := h.member_unique hn' hn he
    rw [this]; exact Int.le_refl _
  refine ⟨?_, key⟩
  intro e s hd
  rw [h.dget_eq] at hd
  exact key ⟨s, e⟩ ((h.mem_iff e s).mp hd)

/-- Layer L keeps the list sorted: inserting a node that is not in the list puts exactly that node at
  its sorted position (and a member that was absent stays unique); `Delete`, `DeleteRangeByScore` and
  `DeleteRangeByRank` only remove nodes, so sortedness and uniqueness of members survive them. -/
theorem L_sorted (l : SL) (h : Sorted l) :
    (∀ s e, (⟨s, e⟩ : Node) ∉ l →
      Sorted (L.insert l s e) ∧ (L.insert l s e).Perm (⟨s, e⟩ :: l) ∧
      ((∀ n ∈ l, n.ele ≠ e) → (l.map (·.ele)).Nodup → ((L.insert l s e).map (·.ele)).Nodup)) ∧
    (∀ s e, Sorted (L.delete l s e).1 ∧ (L.delete l s e).1.Sublist l) ∧
    (∀ min max, Sorted (L.deleteRangeByScore l min max).1 ∧ (L.deleteRangeByScore l min max).1.Sublist l) ∧
    (∀ a b, Sorted (L.deleteRangeByRank l a b).1 ∧ (L.deleteRangeByRank l a b).1.Sublist l) := by
  refine ⟨?_, ?_, ?_, ?_⟩
  · intro s e hn
    obtain ⟨h1, h2⟩ := insert_sorted h s e hn
    refine ⟨h1, h2, ?_⟩
    intro habs hnd
    have : ((⟨s, e⟩ :: l : SL).map (·.ele)).Nodup := by
      simp only [List.map_cons, List.nodup_cons]
      refine ⟨?_, hnd⟩
      intro hm
      obtain ⟨n, hn', he⟩ := List.mem_map.mp hm
      exact habs n hn' he
    exact (h2.map (·.ele)).symm.nodup this
  · exact fun s e => ⟨h.sublist (delete_sublist l s e), delete_sublist l s e⟩
  · exact fun a b => ⟨h.sublist (deleteRangeByScore_sublist l a b), deleteRangeByScore_sublist l a b⟩
  · exact fun a b => ⟨h.sublist (deleteRangeByRank_sublist l a b), deleteRangeByRank_sublist l a b⟩

/-- What the primitives compute on a strictly sorted list, declaratively:
  `Delete` unlinks exactly the named node if it is there (else nothing, answer nil); `GetRank` of a node
  of the list is its 1-based position; `FirstInRange`/`LastInRange` are the first/last node with
  min ≤ score ≤ max; `DeleteRangeByScore` removes exactly the nodes with min ≤ score ≤ max. -/
theorem L_spec (l : SL) (h : Sorted l) :
    (∀ P Q x, l = P ++ x :: Q → L.delete l x.score x.ele = (P ++ Q, some x) ∧
      L.getRank l x.score x.ele = P.length + 1) ∧
    (∀ s e, (⟨s, e⟩ : Node) ∉ l → L.delete l s e = (l, none)) ∧
    (∀ s e, (∀ n ∈ l, n.ele ≠ e) → L.getRank l s e = 0) ∧
    (∀ min max, L.firstInRange l min max = (l.filter (inRange min max)).head? ∧
      L.lastInRange l min max = (l.filter (inRange min max)).getLast? ∧
      L.deleteRangeByScore l min max = (l.filter (fun n => !inRange min max n), l.filter (inRange min max))) := by
  refine ⟨?_, fun s e hn => delete_not_mem h s e hn, fun s e hn => getRank_absent l s e hn, ?_⟩
  · intro P Q x hl
    subst hl
    exact ⟨delete_mem h, getRank_split h⟩
  · exact fun min max => ⟨firstInRange_spec h min max, lastInRange_spec h min max, deleteRangeByScore_spec h min max⟩

/-- `GetRange` returns exactly the reference slice for every pair of indices — negative, out of range,
  crossed — in both directions, on every list (no sortedness needed), and never dereferences nil. -/
theorem C11_range_by_rank (l : SL) (start stop : Int) (reverse : Bool) :
    rangeByRank l start stop reverse =
      some ((slice (if reverse then l.reverse else l) start stop).map (·.ele)) :=
  rangeByRank_spec l start stop reverse

/-! ### the structural skip list S (Model/C11S.lean): zskiplist.go with its pointers and spans

`S.SOk s` (Lemmas/C11SBase.lean, `Inv`): following level 0 from the header yields a duplicate-free chain
of valid node ids; at every level i every node's forward pointer is the next node of the chain whose
tower is higher than i and its span is the level-0 distance to it (a link without successor spans the
rest of the list) — so every level-i chain is a sub-chain of level 0 and spans sum to ranks; backward
pointers, tail, length fit the chain; 1 ≤ level ≤ header height, no tower is higher than `level`, and
the top level is not empty; the content `S.abs s` is strictly sorted by (score, member). -/

/-- `NewZSkipList()` satisfies the invariant and is empty. -/
theorem S_new (ml : Nat) (h : 1 ≤ ml) : S.SOk (S.new ml) ∧ S.abs (S.new ml) = [] ∧ S.height (S.new ml) 0 = ml := by
  have hI := S.inv_new ml h
  refine ⟨S.SOk_of_inv hI, by rw [hI.abs_eq]; rfl, by simp [S.new, S.height, S.nd]⟩

/-- `Insert` as the Go code walks (update[]/rank[] search, span arithmetic, level growth, backward
  fix-up), for EVERY tower height 1 ≤ h ≤ header height: it terminates, the invariant holds again, the
  content is `L.insert` of the content, and the returned node carries (score, member).
  (Contract of the code: the pair is not already in the list.) -/
theorem S_insert (s : S.SList) (hs : S.SOk s) (score : Int) (ele : Nat) (h : Nat)
    (h1 : 1 ≤ h) (hh : h ≤ S.height s 0) (hn : (⟨score, ele⟩ : Node) ∉ S.abs s) :
    ∃ t id, S.insert s score ele h = some (t, id) ∧ S.SOk t ∧ S.abs t = L.insert (S.abs s) score ele ∧
      S.nodeOf t id = ⟨score, ele⟩ ∧ S.height t 0 = S.height s 0 :=
  S.insert_refines hs score ele h h1 hh hn

/-- `Delete`/`deleteNode` (unlinking with span repair at every level, backward fix-up, level
  shrinking): terminates, keeps the invariant, content and returned node are those of `L.delete`. -/
theorem S_delete (s : S.SList) (hs : S.SOk s) (score : Int) (ele : Nat) :
    ∃ t r, S.delete s score ele = some (t, r) ∧ S.SOk t ∧ S.abs t = (L.delete (S.abs s) score ele).1 ∧
      r.map (S.nodeOf s) = (L.delete (S.abs s) score ele).2 ∧ S.height t 0 = S.height s 0 := by
  obtain ⟨t, r, h1, h2, h3, h4, _, h6⟩ := S.delete_refines hs score ele
  exact ⟨t, r, h1, h2, h3, h4, h6⟩

/-- `GetRank` summing spans along the search path = the rank of layer L (the position in the content),
  inside the calling contract. -/
theorem S_getRank (s : S.SList) (hs : S.SOk s) (score : Int) (ele : Nat)
    (hcon : L.RankContract (S.abs s) score ele) :
    S.getRank s score ele = some ((L.getRank (S.abs s) score ele : Nat) : Int) :=
  S.getRank_refines hs score ele hcon

/-- `GetElementByRank` walking by spans returns the node at that position of `header :: chain`
  (`ptrAt`), which is what layer L answers: header for 0, nil outside 0..length. -/
theorem S_getElementByRank (s : S.SList) (hs : S.SOk s) (rank : Int) :
    S.getElementByRank s rank = some (S.ptrAt (S.ids s) rank) ∧
    L.getElementByRank (S.abs s) rank =
      match S.ptrAt (S.ids s) rank with
      | none => L.ByRank.none
      | some 0 => L.ByRank.head
      | some (x + 1) => L.ByRank.node (S.nodeOf s (x + 1)) :=
  ⟨S.getElementByRank_ptr hs rank, S.ptrAt_L hs rank⟩

/-- `IsInRange`, `FirstInRange`, `LastInRange` through the level search = layer L; in particular
  `LastInRange` never returns the header. -/
theorem S_inRange (s : S.SList) (hs : S.SOk s) (min max : Int) :
    S.isInRange s min max = L.isInRange (S.abs s) min max ∧
    (∃ p, S.firstInRange s min max = some p ∧ p.map (S.nodeOf s) = L.firstInRange (S.abs s) min max ∧
      ∀ x, p = some x → x ∈ S.ids s) ∧
    (∃ p, S.lastInRange s min max = some p ∧ p.map (S.nodeOf s) = L.lastInRange (S.abs s) min max ∧
      ∀ x, p = some x → x ∈ S.ids s) := by
  refine ⟨S.isInRange_refines hs min max, ?_, ?_⟩
  · obtain ⟨p, h1, h2, h3⟩ := S.firstInRange_refines hs min max
    exact ⟨p, h1, h2, fun x hx => (h3 x hx).1⟩
  · obtain ⟨p, h1, h2, h3⟩ := S.lastInRange_refines hs min max
    exact ⟨p, h1, h2, fun x hx => (h3 x hx).1⟩

/-- `DeleteRangeByScore` and `DeleteRangeByRank` (one search, then `deleteNode` in a loop with the same
  update[]): terminate, keep the invariant, and remove exactly what layer L removes, in the same order. -/
theorem S_deleteRange (s : S.SList) (hs : S.SOk s) (a b : Int) :
    (∃ t, S.deleteRangeByScore s a b = some (t, (L.deleteRangeByScore (S.abs s) a b).2) ∧ S.SOk t ∧
      S.abs t = (L.deleteRangeByScore (S.abs s) a b).1 ∧ S.height t 0 = S.height s 0) ∧
    (∃ t, S.deleteRangeByRank s a b = some (t, (L.deleteRangeByRank (S.abs s) a b).2) ∧ S.SOk t ∧
      S.abs t = (L.deleteRangeByRank (S.abs s) a b).1 ∧ S.height t 0 = S.height s 0) := by
  constructor
  · obtain ⟨t, h1, h2, h3, _, h5⟩ := S.deleteRangeByScore_refines hs a b
    exact ⟨t, h1, h2, h3, h5⟩
  · obtain ⟨t, h1, h2, h3, _, h5⟩ := S.deleteRangeByRank_refines hs a b
    exact ⟨t, h1, h2, h3, h5⟩

/-- The composed theorem: zset.go running on the STRUCTURAL skip list agrees with the reference
  ranking.  For every header height `ml ≥ 1` (the regenerated `ZSKIPLIST_MAXLEVEL` is one, `C11_valid`),
  every call sequence and every choice of tower heights 1..ml for the calls that insert: no pointer walk
  runs out of fuel (the code terminates), and every result equals the result computed from the
  reference table by sorting it — `C11_zset_spec` with the pointer/span structure underneath. -/
theorem C11_zset_spec_structural (ml : Nat) (hml : 1 ≤ ml) (ops : List (Op × Nat))
    (hh : ∀ p ∈ ops, 1 ≤ p.2 ∧ p.2 ≤ ml) :
    traceS (ZS.empty ml) ops = some (refTrace [] (ops.map (·.1))) := by
  rw [(traceS_sim ops hh (ZS.empty ml) ZSet.empty [] (relS_empty ml hml) rel_empty).1, C11_zset_spec]

/-- … and after any such sequence the structure satisfies the invariant, its content is the reference
  table sorted by (score, member), and its dict is the dict of the content-level run. -/
theorem C11_structure_ok (ml : Nat) (hml : 1 ≤ ml) (ops : List (Op × Nat))
    (hh : ∀ p ∈ ops, 1 ≤ p.2 ∧ p.2 ≤ ml) :
    ∃ zs, runS (ZS.empty ml) ops = some zs ∧ S.SOk zs.sl ∧
      S.abs zs.sl = ranking (refRun [] (ops.map (·.1))) ∧
      zs.dict = (run ZSet.empty (ops.map (·.1))).dict := by
  obtain ⟨zs, h1, h2⟩ := (traceS_sim ops hh (ZS.empty ml) ZSet.empty [] (relS_empty ml hml) rel_empty).2
  exact ⟨zs, h1, h2.ok, by rw [h2.abs]; exact (C11_ranking _).1, h2.dict⟩

/-! ### non-vacuity (tests, not proofs): a run with ties, a score update, both range removals -/

def demoOps : List Op :=
  [.add 3 1, .add 1 1, .add 2 1, .add 6 2, .add 4 2, .add 5 2,   -- two tie groups
   .getRank 2 false, .getRank 2 true, .count 1 1, .getRange (-2) 9 true,
   .add 1 2,                                                       -- score update into the other group
   .getRangeByScore 2 2 false, .removeRangeByScore 1 1, .removeRangeByRank 0 (-3), .len,
   .getRange 0 (-1) false]

example : trace ZSet.empty demoOps =
    [.bool true, .bool true, .bool true, .bool true, .bool true, .bool true,
     .int 1, .int 4, .int 3, .eles [2, 1],
     .bool true,
     .eles [1, 4, 5, 6], .int 2, .int 2, .int 2,
     .eles [5, 6]] := by decide

example : (run ZSet.empty demoOps).zsl = [⟨2, 5⟩, ⟨2, 6⟩] ∧ Sorted [⟨2, 5⟩, ⟨2, 6⟩] :=
  ⟨by decide, by unfold Sorted; decide⟩

/-- the same run on the structural skip list, with tower heights 1..4 drawn for the seven inserts -/
def demoOpsS : List (Op × Nat) :=
  demoOps.zip [2, 1, 4, 1, 3, 1, 0, 0, 0, 0, 2, 0, 0, 0, 0, 0] |>.map (fun p => (p.1, if p.2 = 0 then 1 else p.2))

example : (traceS (ZS.empty 12) demoOpsS) = some (trace ZSet.empty demoOps) := by decide

example : ∀ p ∈ demoOpsS, 1 ≤ p.2 ∧ p.2 ≤ 12 := by decide

example : slice [10, 11, 12, 13, 14] (-2) 9 = [13, 14] ∧ slice [10, 11, 12, 13, 14] (-9) 1 = [10, 11] ∧
    slice [10, 11, 12, 13, 14] 3 1 = ([] : List Nat) := by decide

end Fatchoy.C11
