/-
C17 — consistent-hash lookups are stable; membership changes move a minimum of keys.
Property theorems only. The ring model (Model/C17.lean) is generic in the member type `μ` and in the
function `pts` that gives the replica points of a member, so every theorem below holds for an ARBITRARY hash
function, collisions included; `h` is the hash of the key that is looked up. `run g pts ops` is the ring
after the history `ops` of AddNode/RemoveNode calls starting from `New()`; `P.guarded` says that
`RemoveNode` deletes a point only while the removed member owns it (regenerated from the source; `Valid`).
-/
import Fatchoy.Lemmas.C17
namespace Fatchoy.C17

variable {μ : Type} [DecidableEq μ]

/-- the regenerated constants satisfy the side-conditions (in particular: RemoveNode is guarded) -/
theorem C17_valid : Valid params := by decide

/-- `search` on the sorted point list returns the least index whose point is above the hash, or 0 when
  no point is above it (wrap-around) — and never an index outside the list unless the list is empty -/
theorem C17_search_spec (a : List Nat) (h : Nat) (hs : a.Pairwise (· ≤ ·)) :
    (∃ _ : search a h < a.length, h < a[search a h] ∧ ∀ j (_ : j < a.length), j < search a h → a[j] ≤ h) ∨
    (search a h = 0 ∧ ∀ p ∈ a, p ≤ h) :=
  search_sorted a h hs

/-- after every history the point list that `search` runs on is sorted and holds exactly the keys of the map -/
theorem C17_sorted (g : Bool) (pts : μ → List Nat) (ops : List (Op μ)) :
    (run g pts ops).sorted.Pairwise (· ≤ ·) ∧ ∀ q, q ∈ (run g pts ops).sorted ↔ q ∈ keys (run g pts ops).circle := by
  have hr := wf_run g pts ops
  exact ⟨by rw [hr.sorted_eq]; exact sorted_sortPoints _, mem_sorted_iff hr⟩

/-- a lookup on a ring with at least one point returns a current member (and it is the owner of the
  cyclic successor of the hash); on a ring without points `GetNodeBy` panics -/
theorem C17_member (g : Bool) (pts : μ → List Nat) (ops : List (Op μ)) (h : Nat) :
    ((run g pts ops).circle = [] → lookup (run g pts ops) h = .panic) ∧
    ((run g pts ops).circle ≠ [] → ∃ p m, IsSucc (keys (run g pts ops).circle) h p ∧
        find (run g pts ops).circle p = some m ∧ lookup (run g pts ops) h = .node m ∧ m ∈ (run g pts ops).nodes) := by
  have hr := wf_run g pts ops
  constructor
  · intro he
    exact lookup_empty hr ((keys_eq_nil_iff _).mpr he) h
  · intro hne
    obtain ⟨p, m, hp, hm, hl⟩ := lookup_total hr (fun hk => hne ((keys_eq_nil_iff _).mp hk)) h
    exact ⟨p, m, hp, hm, hl, hr.owner_mem p m hm⟩

/-- if replica points never collide, a ring with at least one member has a point: every lookup returns
  a current member. (With collisions a member can lose all its points to others: `C17_member` is then
  the statement that holds.) -/
theorem C17_member_of_members (g : Bool) (pts : μ → List Nat) (hnc : NoCollision pts) (ops : List (Op μ)) (h : Nat)
    (hne : (run g pts ops).nodes ≠ []) :
    ∃ m, lookup (run g pts ops) h = .node m ∧ m ∈ (run g pts ops).nodes := by
  obtain ⟨a, ha⟩ := List.exists_mem_of_ne_nil _ hne
  obtain ⟨p, hp⟩ := List.exists_mem_of_ne_nil _ (hnc.2 a)
  have hf := owns_all_run g pts hnc ops a ha p hp
  have hc : (run g pts ops).circle ≠ [] := by
    intro he
    rw [he] at hf
    simp [find] at hf
  obtain ⟨_, m, _, _, hl, hm⟩ := (C17_member g pts ops h).2 hc
  exact ⟨m, hl, hm⟩

/-- the answer is a function of the map from points to owners alone: two histories that end in the same
  map answer every lookup alike — no dependence on map iteration order, on the order of insertion or on
  anything else that is not the membership history -/
theorem C17_stable (g : Bool) (pts : μ → List Nat) (ops ops' : List (Op μ))
    (hsame : ∀ p, find (run g pts ops).circle p = find (run g pts ops').circle p) (h : Nat) :
    lookup (run g pts ops) h = lookup (run g pts ops') h :=
  lookup_congr (wf_run g pts ops) (wf_run g pts ops') hsame h

/-- removing something that is not a member changes no lookup -/
theorem C17_stable_remove_absent (P : Params) (hv : Valid P) (pts : μ → List Nat) (ops : List (Op μ)) (m : μ)
    (hm : m ∉ (run P.guarded pts ops).nodes) (h : Nat) :
    lookup (removeNode P.guarded pts (run P.guarded pts ops) m) h = lookup (run P.guarded pts ops) h := by
  rw [hv.1] at hm ⊢
  have hr := wf_run true pts ops
  apply lookup_congr (wf_removeNode true pts _ m hr) hr
  intro p
  rw [find_removeNode]
  by_cases hp : p ∈ pts m ∧ find (run true pts ops).circle p = some m
  · exact absurd (hr.owner_mem p m hp.2) hm
  · simp only [hp, if_false]

/-- adding a member again that still owns all its points changes no lookup -/
theorem C17_stable_readd (g : Bool) (pts : μ → List Nat) (ops : List (Op μ)) (m : μ)
    (hown : ∀ p ∈ pts m, find (run g pts ops).circle p = some m) (h : Nat) :
    lookup (addNode pts (run g pts ops) m) h = lookup (run g pts ops) h := by
  have hr := wf_run g pts ops
  apply lookup_congr (wf_addNode pts _ m hr) hr
  intro p
  rw [find_addNode]
  by_cases hp : p ∈ pts m
  · simp only [hp, if_true]; exact (hown p hp).symm
  · simp only [hp, if_false]

/-- adding a member: every key keeps its member or moves to the added member -/
theorem C17_add_minimal (g : Bool) (pts : μ → List Nat) (ops : List (Op μ)) (m y : μ) (h : Nat)
    (hy : lookup (run g pts ops) h = .node y) :
    lookup (addNode pts (run g pts ops) m) h = .node y ∨ lookup (addNode pts (run g pts ops) m) h = .node m := by
  have hr := wf_run g pts ops
  have hr' := wf_addNode pts _ m hr
  obtain ⟨p, hp, hpy⟩ := succ_of_lookup hr hy
  have hsub : ∀ q, q ∈ keys (run g pts ops).circle → q ∈ keys (addNode pts (run g pts ops) m).circle := by
    intro q hq
    obtain ⟨x, hx⟩ := (mem_keys_iff _ q).mp hq
    apply (mem_keys_iff _ q).mpr
    rw [find_addNode]
    by_cases hqm : q ∈ pts m
    · exact ⟨m, by simp [hqm]⟩
    · exact ⟨x, by simp [hqm, hx]⟩
  have hne : keys (addNode pts (run g pts ops) m).circle ≠ [] := List.ne_nil_of_mem (hsub p hp.1)
  obtain ⟨p', x, hp', hx, hl⟩ := lookup_total hr' hne h
  rw [hl]
  rw [find_addNode] at hx
  by_cases hpm : p' ∈ pts m
  · simp only [hpm, if_true, Option.some.injEq] at hx
    subst hx; exact Or.inr rfl
  · simp only [hpm, if_false] at hx
    have hmem : p' ∈ keys (run g pts ops).circle := (mem_keys_iff _ p').mpr ⟨x, hx⟩
    have := (hp'.mono hsub hmem).unique hp
    subst this
    rw [hx] at hpy
    cases hpy
    exact Or.inl rfl

/-- removing a member: a key that was not mapped to the removed member keeps its member -/
theorem C17_remove_minimal (P : Params) (hv : Valid P) (pts : μ → List Nat) (ops : List (Op μ)) (m y : μ) (h : Nat)
    (hy : lookup (run P.guarded pts ops) h = .node y) (hne : y ≠ m) :
    lookup (removeNode P.guarded pts (run P.guarded pts ops) m) h = .node y := by
  rw [hv.1] at hy ⊢
  have hr := wf_run true pts ops
  have hr' := wf_removeNode true pts _ m hr
  obtain ⟨p, hp, hpy⟩ := succ_of_lookup hr hy
  have hkeep : find (removeNode true pts (run true pts ops) m).circle p = some y := by
    rw [find_removeNode]
    have : ¬ (p ∈ pts m ∧ find (run true pts ops).circle p = some m) := by
      rintro ⟨_, h2⟩
      rw [hpy] at h2
      exact hne (Option.some.inj h2)
    simp only [this, if_false]; exact hpy
  have hsub : ∀ q, q ∈ keys (removeNode true pts (run true pts ops) m).circle → q ∈ keys (run true pts ops).circle := by
    intro q hq
    obtain ⟨x, hx⟩ := (mem_keys_iff _ q).mp hq
    apply (mem_keys_iff _ q).mpr
    rw [find_removeNode] at hx
    by_cases hc : q ∈ pts m ∧ find (run true pts ops).circle q = some m
    · simp [hc] at hx
    · simp only [hc, if_false] at hx; exact ⟨x, hx⟩
  exact lookup_of_succ hr' (hp.mono hsub ((mem_keys_iff _ p).mpr ⟨y, hkeep⟩)) hkeep

/-- …and the member that was removed is no longer returned by any lookup -/
theorem C17_remove_gone (g : Bool) (pts : μ → List Nat) (ops : List (Op μ)) (m : μ) (h : Nat) :
    lookup (removeNode g pts (run g pts ops) m) h ≠ .node m := by
  intro hl
  have hr' := wf_removeNode g pts _ m (wf_run g pts ops)
  obtain ⟨p, _, hpm⟩ := succ_of_lookup hr' hl
  have hmem := hr'.owner_mem p m hpm
  have hn : (removeNode g pts (run g pts ops) m).nodes = (run g pts ops).nodes.filter (· ≠ m) := rfl
  rw [hn] at hmem
  simpa using (List.mem_filter.mp hmem).2

/-! ### non-vacuity (tests on a sample, by evaluation): a hash with a collision — members 1 and 2 share point 50.
`search` is defined by well-founded recursion, so the ring is evaluated by `rfl` and the lookup by `simp`. -/

private def samplePts : Nat → List Nat
  | 1 => [10, 50]
  | 2 => [50, 90]
  | 3 => [30, 70]
  | _ => []

/-- the history add 1, add 3, add 2 (2 takes point 50 over from 1); key hash 40 is served by point 50 -/
example : lookup (run true samplePts [.add 1, .add 3, .add 2]) 40 = .node 2 := by
  rw [show run true samplePts [.add 1, .add 3, .add 2] =
    ⟨[(90, 2), (50, 2), (70, 3), (30, 3), (10, 1)], [2, 3, 1], [10, 30, 50, 70, 90]⟩ from rfl]
  simp [lookup, search, searchLoop] <;> simp [find]
/-- `C17_remove_minimal` applies to it: removing member 1 leaves the key with member 2 -/
example : lookup (removeNode params.guarded samplePts (run params.guarded samplePts [.add 1, .add 3, .add 2]) 1) 40 = .node 2 := by
  refine C17_remove_minimal params C17_valid samplePts _ 1 2 40 ?_ (by decide)
  rw [show run params.guarded samplePts [.add 1, .add 3, .add 2] =
    ⟨[(90, 2), (50, 2), (70, 3), (30, 3), (10, 1)], [2, 3, 1], [10, 30, 50, 70, 90]⟩ from rfl]
  simp [lookup, search, searchLoop] <;> simp [find]
/-- the unguarded RemoveNode (the code before the repair) moves that key to member 3: the guard is needed -/
example : lookup (removeNode false samplePts (run false samplePts [.add 1, .add 3, .add 2]) 1) 40 = .node 3 := by
  rw [show removeNode false samplePts (run false samplePts [.add 1, .add 3, .add 2]) 1 =
    ⟨[(90, 2), (70, 3), (30, 3)], [2, 3], [30, 70, 90]⟩ from rfl]
  simp [lookup, search, searchLoop] <;> simp [find]
/-- `C17_add_minimal` with a key that moves (hash 40: member 1 → member 2) and one that stays (hash 20) -/
example : lookup (run true samplePts [.add 1, .add 3]) 40 = .node 1 ∧
    lookup (addNode samplePts (run true samplePts [.add 1, .add 3]) 2) 40 = .node 2 ∧
    lookup (addNode samplePts (run true samplePts [.add 1, .add 3]) 2) 20 = .node 3 := by
  rw [show addNode samplePts (run true samplePts [.add 1, .add 3]) 2 =
    ⟨[(90, 2), (50, 2), (70, 3), (30, 3), (10, 1)], [2, 3, 1], [10, 30, 50, 70, 90]⟩ from rfl,
    show run true samplePts [.add 1, .add 3] = ⟨[(70, 3), (30, 3), (50, 1), (10, 1)], [3, 1], [10, 30, 50, 70]⟩ from rfl]
  simp [lookup, search, searchLoop] <;> simp [find]
/-- wrap-around: hash 95 is above every point and is served by the least point -/
example : lookup (run true samplePts [.add 1, .add 3, .add 2]) 95 = .node 1 := by
  rw [show run true samplePts [.add 1, .add 3, .add 2] =
    ⟨[(90, 2), (50, 2), (70, 3), (30, 3), (10, 1)], [2, 3, 1], [10, 30, 50, 70, 90]⟩ from rfl]
  simp [lookup, search, searchLoop] <;> simp [find]
/-- a member can lose all its points: with identical points for everybody, add 4, add 5, remove 5 leaves a
  ring that has a member but no point (why `C17_member` speaks of points and `C17_member_of_members`
  needs `NoCollision`) -/
example : (run true (fun _ : Nat => [7]) [.add 4, .add 5, .remove 5]).nodes = [4] ∧
    lookup (run true (fun _ : Nat => [7]) [.add 4, .add 5, .remove 5]) 0 = .panic := by
  rw [show run true (fun _ : Nat => [7]) [.add 4, .add 5, .remove 5] = ⟨[], [4], []⟩ from rfl]
  simp [lookup, search, searchLoop]
/-- `NoCollision` is satisfiable -/
example : NoCollision (fun m : Nat => [m]) :=
  ⟨fun a b hab p hp hq => hab ((List.mem_singleton.mp hp).symm.trans (List.mem_singleton.mp hq)), fun a => by simp⟩

end Fatchoy.C17
