/-
C17 — consistent-hash lookups are stable; membership changes move a minimum of keys.
Property theorems only. The ring model (Model/C17.lean) is generic in the member type `μ` and in a
configuration `K : Cfg μ`: `K.pts` gives the replica points of a member — ANY function, so every theorem below
holds for an arbitrary hash, collisions included — `K.ord` is the order in which `RemoveNode` visits the
remaining members when it gives points back (`OrdOK K`: it enumerates exactly the member set), `K.guarded`
says that `RemoveNode` deletes a point only while the removed member owns it, `K.restores` that it then puts
every replica point a remaining member lacks back on the ring (both regenerated from the source; `Valid`).
`run K ops` is the ring after the history `ops` of AddNode/RemoveNode calls starting from `New()`; `h` is
the hash of the key that is looked up.
-/
import Fatchoy.Lemmas.C17
namespace Fatchoy.C17

variable {μ : Type} [DecidableEq μ]

/-- the regenerated constants satisfy the side-conditions (in particular: RemoveNode is guarded and gives
  points back) -/
theorem C17_valid : Valid params := by decide

/-- …so the configuration the driver runs against the real code exists and meets the hypotheses of the
  theorems below: guard, give-back loop, a visiting order that enumerates the members (`sort.Strings`),
  and at least one replica point per member -/
theorem C17_concrete : ∃ K, concreteCfg? params = some K ∧ K.guarded = true ∧ K.restores = true ∧ OrdOK K ∧
    ∀ a, K.pts a ≠ [] :=
  concreteCfg_valid params C17_valid

/-- `search` on the sorted point list returns the least index whose point is above the hash, or 0 when
  no point is above it (wrap-around) — and never an index outside the list unless the list is empty -/
theorem C17_search_spec (a : List Nat) (h : Nat) (hs : a.Pairwise (· ≤ ·)) :
    (∃ _ : search a h < a.length, h < a[search a h] ∧ ∀ j (_ : j < a.length), j < search a h → a[j] ≤ h) ∨
    (search a h = 0 ∧ ∀ p ∈ a, p ≤ h) :=
  search_sorted a h hs

/-- after every history the point list that `search` runs on is sorted and holds exactly the keys of the map -/
theorem C17_sorted (K : Cfg μ) (hord : OrdOK K) (ops : List (Op μ)) :
    (run K ops).sorted.Pairwise (· ≤ ·) ∧ ∀ q, q ∈ (run K ops).sorted ↔ q ∈ keys (run K ops).circle := by
  have hr := wf_run K hord ops
  exact ⟨by rw [hr.sorted_eq]; exact sorted_sortPoints _, mem_sorted_iff hr⟩

/-- a lookup on a ring with at least one point returns a current member (and it is the owner of the
  cyclic successor of the hash); on a ring without points `GetNodeBy` panics -/
theorem C17_member (K : Cfg μ) (hord : OrdOK K) (ops : List (Op μ)) (h : Nat) :
    ((run K ops).circle = [] → lookup (run K ops) h = .panic) ∧
    ((run K ops).circle ≠ [] → ∃ p m, IsSucc (keys (run K ops).circle) h p ∧
        find (run K ops).circle p = some m ∧ lookup (run K ops) h = .node m ∧ m ∈ (run K ops).nodes) := by
  have hr := wf_run K hord ops
  constructor
  · intro he
    exact lookup_empty hr ((keys_eq_nil_iff _).mpr he) h
  · intro hne
    obtain ⟨p, m, hp, hm, hl⟩ := lookup_total hr (fun hk => hne ((keys_eq_nil_iff _).mp hk)) h
    exact ⟨p, m, hp, hm, hl, hr.owner_mem p m hm⟩

/-- with the give-back loop every replica point of every current member is on the ring after every history
  (owned by it or, through a collision, by another current member) -/
theorem C17_covered (K : Cfg μ) (hrs : K.restores = true) (hord : OrdOK K) (ops : List (Op μ)) :
    ∀ m ∈ (run K ops).nodes, ∀ p ∈ K.pts m, ∃ x ∈ (run K ops).nodes, find (run K ops).circle p = some x := by
  intro m hm p hp
  obtain ⟨x, hx⟩ := (mem_keys_iff _ p).mp (covered_run K hrs hord ops m hm p hp)
  exact ⟨x, (wf_run K hord ops).owner_mem p x hx, hx⟩

/-- a lookup on a ring with at least one MEMBER returns a current member — for an arbitrary hash, whatever
  collides: a non-empty membership always has a point (needs the give-back loop of RemoveNode; every member
  has at least one replica) -/
theorem C17_member_of_members (K : Cfg μ) (hrs : K.restores = true) (hord : OrdOK K) (hpts : ∀ a, K.pts a ≠ [])
    (ops : List (Op μ)) (h : Nat) (hne : (run K ops).nodes ≠ []) :
    ∃ m, lookup (run K ops) h = .node m ∧ m ∈ (run K ops).nodes := by
  obtain ⟨a, ha⟩ := List.exists_mem_of_ne_nil _ hne
  obtain ⟨p, hp⟩ := List.exists_mem_of_ne_nil _ (hpts a)
  obtain ⟨x, _, hf⟩ := C17_covered K hrs hord ops a ha p hp
  have hc : (run K ops).circle ≠ [] := by
    intro he
    rw [he] at hf
    simp [find] at hf
  obtain ⟨_, m, _, _, hl, hm⟩ := (C17_member K hord ops h).2 hc
  exact ⟨m, hl, hm⟩

/-- the answer is a function of the map from points to owners alone: two histories that end in the same
  map answer every lookup alike — no dependence on map iteration order, on the order of insertion or on
  anything else that is not the membership history -/
theorem C17_stable (K : Cfg μ) (hord : OrdOK K) (ops ops' : List (Op μ))
    (hsame : ∀ p, find (run K ops).circle p = find (run K ops').circle p) (h : Nat) :
    lookup (run K ops) h = lookup (run K ops') h :=
  lookup_congr (wf_run K hord ops) (wf_run K hord ops') hsame h

/-- removing something that is not a member changes no lookup -/
theorem C17_stable_remove_absent (K : Cfg μ) (hg : K.guarded = true) (hrs : K.restores = true) (hord : OrdOK K)
    (ops : List (Op μ)) (m : μ) (hm : m ∉ (run K ops).nodes) (h : Nat) :
    lookup (removeNode K (run K ops) m) h = lookup (run K ops) h := by
  have hr := wf_run K hord ops
  have hc := covered_run K hrs hord ops
  apply lookup_congr (wf_removeNode K hord _ m hr) hr
  intro p
  cases hf : find (run K ops).circle p with
  | some x =>
    have hxm : x ≠ m := fun hx => hm (hx ▸ hr.owner_mem p x hf)
    exact removeNode_keep hg _ m p x hf hxm
  | none =>
    cases hf' : find (removeNode K (run K ops) m).circle p with
    | none => rfl
    | some x =>
      exfalso
      have := keys_removeNode_sub hord hr hc m p ((mem_keys_iff _ p).mpr ⟨x, hf'⟩)
      obtain ⟨y, hy⟩ := (mem_keys_iff _ p).mp this
      rw [hf] at hy; cases hy

/-- adding a member again that still owns all its points changes no lookup -/
theorem C17_stable_readd (K : Cfg μ) (hord : OrdOK K) (ops : List (Op μ)) (m : μ)
    (hown : ∀ p ∈ K.pts m, find (run K ops).circle p = some m) (h : Nat) :
    lookup (addNode K.pts (run K ops) m) h = lookup (run K ops) h := by
  have hr := wf_run K hord ops
  apply lookup_congr (wf_addNode K _ m hr) hr
  intro p
  rw [find_addNode]
  by_cases hp : p ∈ K.pts m
  · simp only [hp, if_true]; exact (hown p hp).symm
  · simp only [hp, if_false]

/-- adding a member: every key keeps its member or moves to the added member -/
theorem C17_add_minimal (K : Cfg μ) (hord : OrdOK K) (ops : List (Op μ)) (m y : μ) (h : Nat)
    (hy : lookup (run K ops) h = .node y) :
    lookup (addNode K.pts (run K ops) m) h = .node y ∨ lookup (addNode K.pts (run K ops) m) h = .node m := by
  have hr := wf_run K hord ops
  have hr' := wf_addNode K _ m hr
  obtain ⟨p, hp, hpy⟩ := succ_of_lookup hr hy
  have hsub : ∀ q, q ∈ keys (run K ops).circle → q ∈ keys (addNode K.pts (run K ops) m).circle := by
    intro q hq
    obtain ⟨x, hx⟩ := (mem_keys_iff _ q).mp hq
    apply (mem_keys_iff _ q).mpr
    rw [find_addNode]
    by_cases hqm : q ∈ K.pts m
    · exact ⟨m, by simp [hqm]⟩
    · exact ⟨x, by simp [hqm, hx]⟩
  have hne : keys (addNode K.pts (run K ops) m).circle ≠ [] := List.ne_nil_of_mem (hsub p hp.1)
  obtain ⟨p', x, hp', hx, hl⟩ := lookup_total hr' hne h
  rw [hl]
  rw [find_addNode] at hx
  by_cases hpm : p' ∈ K.pts m
  · simp only [hpm, if_true, Option.some.injEq] at hx
    subst hx; exact Or.inr rfl
  · simp only [hpm, if_false] at hx
    have hmem : p' ∈ keys (run K ops).circle := (mem_keys_iff _ p').mpr ⟨x, hx⟩
    have := (hp'.mono hsub hmem).unique hp
    subst this
    rw [hx] at hpy
    cases hpy
    exact Or.inl rfl

/-- removing a member: a key that was not mapped to the removed member keeps its member (the points given
  back to the remaining members are points the removed member held, so they take no key from anybody else) -/
theorem C17_remove_minimal (K : Cfg μ) (hg : K.guarded = true) (hrs : K.restores = true) (hord : OrdOK K)
    (ops : List (Op μ)) (m y : μ) (h : Nat)
    (hy : lookup (run K ops) h = .node y) (hne : y ≠ m) :
    lookup (removeNode K (run K ops) m) h = .node y := by
  have hr := wf_run K hord ops
  have hc := covered_run K hrs hord ops
  have hr' := wf_removeNode K hord _ m hr
  obtain ⟨p, hp, hpy⟩ := succ_of_lookup hr hy
  have hkeep := removeNode_keep hg (run K ops) m p y hpy hne
  exact lookup_of_succ hr' (hp.mono (keys_removeNode_sub hord hr hc m) ((mem_keys_iff _ p).mpr ⟨y, hkeep⟩)) hkeep

/-- …and the member that was removed is no longer returned by any lookup -/
theorem C17_remove_gone (K : Cfg μ) (hord : OrdOK K) (ops : List (Op μ)) (m : μ) (h : Nat) :
    lookup (removeNode K (run K ops) m) h ≠ .node m := by
  intro hl
  have hr' := wf_removeNode K hord _ m (wf_run K hord ops)
  obtain ⟨p, _, hpm⟩ := succ_of_lookup hr' hl
  have hmem := hr'.owner_mem p m hpm
  rw [removeNode_nodes] at hmem
  simpa using (List.mem_filter.mp hmem).2

/-! ### non-vacuity (tests on a sample, by evaluation): a hash with a collision — members 1 and 2 share point 50.
`search` is defined by well-founded recursion, so the ring is evaluated by `rfl` and the lookup by `simp`. -/

private def samplePts : Nat → List Nat
  | 1 => [10, 50]
  | 2 => [50, 90]
  | 3 => [30, 70]
  | _ => []

/-- guard and give-back loop as in the repaired code; members visited in list order -/
private def sampleCfg (g rs : Bool) : Cfg Nat := { guarded := g, restores := rs, pts := samplePts, ord := id }

/-- the history add 1, add 3, add 2 (2 takes point 50 over from 1); key hash 40 is served by point 50 -/
example : lookup (run (sampleCfg true true) [.add 1, .add 3, .add 2]) 40 = .node 2 := by
  rw [show run (sampleCfg true true) [.add 1, .add 3, .add 2] =
    ⟨[(90, 2), (50, 2), (70, 3), (30, 3), (10, 1)], [2, 3, 1], [10, 30, 50, 70, 90]⟩ from rfl]
  simp [lookup, search, searchLoop] <;> simp [find]
/-- `C17_remove_minimal` applies to it: removing member 1 leaves the key with member 2 -/
example : lookup (removeNode (sampleCfg true true) (run (sampleCfg true true) [.add 1, .add 3, .add 2]) 1) 40 = .node 2 := by
  refine C17_remove_minimal (sampleCfg true true) rfl rfl (fun _ _ => Iff.rfl) _ 1 2 40 ?_ (by decide)
  rw [show run (sampleCfg true true) [.add 1, .add 3, .add 2] =
    ⟨[(90, 2), (50, 2), (70, 3), (30, 3), (10, 1)], [2, 3, 1], [10, 30, 50, 70, 90]⟩ from rfl]
  simp [lookup, search, searchLoop] <;> simp [find]
/-- the unguarded RemoveNode (the code before the first repair) moves that key to member 3: the guard is needed -/
example : lookup (removeNode (sampleCfg false false) (run (sampleCfg false false) [.add 1, .add 3, .add 2]) 1) 40 = .node 3 := by
  rw [show removeNode (sampleCfg false false) (run (sampleCfg false false) [.add 1, .add 3, .add 2]) 1 =
    ⟨[(90, 2), (70, 3), (30, 3)], [2, 3], [30, 70, 90]⟩ from rfl]
  simp [lookup, search, searchLoop] <;> simp [find]
/-- the give-back loop: removing member 2 instead returns point 50 to member 1, and the key with it -/
example : lookup (removeNode (sampleCfg true true) (run (sampleCfg true true) [.add 1, .add 3, .add 2]) 2) 40 = .node 1 := by
  rw [show removeNode (sampleCfg true true) (run (sampleCfg true true) [.add 1, .add 3, .add 2]) 2 =
    ⟨[(50, 1), (70, 3), (30, 3), (10, 1)], [3, 1], [10, 30, 50, 70]⟩ from rfl]
  simp [lookup, search, searchLoop] <;> simp [find]
/-- `C17_add_minimal` with a key that moves (hash 40: member 1 → member 2) and one that stays (hash 20) -/
example : lookup (run (sampleCfg true true) [.add 1, .add 3]) 40 = .node 1 ∧
    lookup (addNode samplePts (run (sampleCfg true true) [.add 1, .add 3]) 2) 40 = .node 2 ∧
    lookup (addNode samplePts (run (sampleCfg true true) [.add 1, .add 3]) 2) 20 = .node 3 := by
  rw [show addNode samplePts (run (sampleCfg true true) [.add 1, .add 3]) 2 =
    ⟨[(90, 2), (50, 2), (70, 3), (30, 3), (10, 1)], [2, 3, 1], [10, 30, 50, 70, 90]⟩ from rfl,
    show run (sampleCfg true true) [.add 1, .add 3] = ⟨[(70, 3), (30, 3), (50, 1), (10, 1)], [3, 1], [10, 30, 50, 70]⟩ from rfl]
  simp [lookup, search, searchLoop] <;> simp [find]
/-- wrap-around: hash 95 is above every point and is served by the least point -/
example : lookup (run (sampleCfg true true) [.add 1, .add 3, .add 2]) 95 = .node 1 := by
  rw [show run (sampleCfg true true) [.add 1, .add 3, .add 2] =
    ⟨[(90, 2), (50, 2), (70, 3), (30, 3), (10, 1)], [2, 3, 1], [10, 30, 50, 70, 90]⟩ from rfl]
  simp [lookup, search, searchLoop] <;> simp [find]
/-- twins (everybody has the same single point): WITHOUT the give-back loop add 4, add 5, remove 5 leaves a
  ring that has a member but no point, and the lookup panics — the defect `C17_member_of_members` excludes -/
example : (run ⟨true, false, fun _ : Nat => [7], id⟩ [.add 4, .add 5, .remove 5]).nodes = [4] ∧
    lookup (run ⟨true, false, fun _ : Nat => [7], id⟩ [.add 4, .add 5, .remove 5]) 0 = .panic := by
  rw [show run ⟨true, false, fun _ : Nat => [7], id⟩ [.add 4, .add 5, .remove 5] = ⟨[], [4], []⟩ from rfl]
  simp [lookup, search, searchLoop]
/-- …WITH it member 4 gets the point back: `C17_member_of_members` applies (hypotheses satisfiable) -/
example : lookup (run ⟨true, true, fun _ : Nat => [7], id⟩ [.add 4, .add 5, .remove 5]) 0 = .node 4 := by
  obtain ⟨m, hl, hm⟩ := C17_member_of_members ⟨true, true, fun _ : Nat => [7], id⟩ rfl (fun _ _ => Iff.rfl)
    (fun _ => by simp) [.add 4, .add 5, .remove 5] 0
    (by rw [show run ⟨true, true, fun _ : Nat => [7], id⟩ [.add 4, .add 5, .remove 5] = ⟨[(7, 4)], [4], [7]⟩ from rfl]; simp)
  rw [show run ⟨true, true, fun _ : Nat => [7], id⟩ [.add 4, .add 5, .remove 5] = ⟨[(7, 4)], [4], [7]⟩ from rfl] at hl hm ⊢
  have : m = 4 := by simpa using hm
  rw [hl, this]

end Fatchoy.C17
