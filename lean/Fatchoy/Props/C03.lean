/-
C03 — a connection delivers every accepted packet exactly once, in order, up to Close.
Property theorems only.  Model: Model/Conn.lean (the LTS of TcpConn at the level of its synchronisation
operations, after the repairs of D2/D3/D4); invariants: Lemmas/Conn*.lean.  `Reachable cfg s` = "s is reached
from the initial state by SOME sequence of actions" (user calls, goroutine steps, peer and consumer actions),
so every theorem below holds for every schedule, any number of senders and closers, all queue capacities.
Ghost history used in the statements: `accepted` (packets enqueued by a SendPacket that returns nil, in queue
order), `wlog` (what the writer is done with; `wire` = the part that was written, `wfail` = the part whose
write failed), `peerAll`/`decoded`/`delivered`/`dropped`/`consumed` on the inbound side.
Not modelled (observed by the harness, see conf/C03.json): kernel buffering, the bytes of a frame, that
`pkt.SetEndpoint(t)` binds an inbound packet to its connection.
-/
import Fatchoy.Lemmas.ConnSteps
import Fatchoy.Lemmas.ConnStart
namespace Fatchoy.Conn

/-- the regenerated state constants satisfy the side-condition of the four-valued abstraction -/
theorem C03_valid : Valid params := by decide

/-- FIFO, no loss, no duplication — in every reachable state: the accepted packets are exactly (in order)
  what the writer is done with, then the packet it holds, then the queue.  When no write failed this reads
  accepted = wire ++ in-flight ++ queue; a write fails only for a packet that cannot be encoded or after
  the peer reset the connection. -/
theorem C03_fifo_inv (cfg : Cfg) {s : State} (h : Reachable cfg s) :
    s.accepted = s.wlog.map (·.1) ++ inflight s.w ++ s.out ∧
    (wfail s = [] → s.accepted = wire s ++ inflight s.w ++ s.out) ∧
    (∀ p ∈ wfail s, p.enc = false ∨ s.broken = true) := by
  have h3 := inv3_reachable h
  refine ⟨h3.fifo, ?_, ?_⟩
  · intro hf
    rw [h3.fifo, wire, wlog_eq_wire s.wlog hf]
  · intro p hp
    exact (inv5_reachable h).failWhy (p, false) (mem_wfail hp) rfl

/-- the graceful close flushes: when a caller of `Close` that won the election has returned, every accepted
  packet has been handled by the writer, in order (`accepted = wire` when no write failed), the queue is
  empty, the writer has exited, the write side is shut (the peer sees end-of-stream right after `wire`),
  and the state is Terminated. -/
theorem C03_close_flushes (cfg : Cfg) {s : State} (h : Reachable cfg s) (c : Closer) (hc : c ∈ s.cls)
    (hg : c.graceful = true) (hr : c.pc = .returned true) :
    s.accepted = s.wlog.map (·.1) ∧ (wfail s = [] → s.accepted = wire s) ∧ s.out = [] ∧ s.w = .exited ∧
    s.writeShut = true ∧ s.st = .terminated := by
  have h1 := inv1_reachable h
  have h3 := inv3_reachable h
  have h5 := inv5_reachable h
  obtain ⟨w, hw, hwg⟩ := h5.wonLink c hc (Or.inr hr)
  obtain ⟨w', hw', hret⟩ := h5.retLink c hc hr
  rw [hw] at hw'; injection hw' with hw'; subst hw'
  have hpc : w.pc = .finished := by
    rw [hg] at hwg
    simpa [Winner.returnable, hwg] using hret
  have hp := h1.some_ w hw
  rw [hpc] at hp
  simp only [phaseOf] at hp
  obtain ⟨_, hst, _, _, _, hgone, hws, _, _⟩ := hp
  have hwx := (hgone trivial).1
  have hout : s.out = [] := h3.drained (by rw [hwx]; rfl)
  have hacc : s.accepted = s.wlog.map (·.1) := by
    have := h3.fifo
    rw [hwx, hout] at this
    simpa [inflight] using this
  refine ⟨hacc, ?_, hout, hwx, hws, hst⟩
  intro hf
  rw [hacc, wire, wlog_eq_wire s.wlog hf]

/-- whoever closed the connection (Close, ForceClose, the reader after a peer fault): once the write side is
  shut — the moment the peer can see end-of-stream — every accepted packet has been handled by the writer
  and nothing is queued or in flight. -/
theorem C03_flushed_at_eof (cfg : Cfg) {s : State} (h : Reachable cfg s) (hws : s.writeShut = true) :
    s.accepted = s.wlog.map (·.1) ∧ (wfail s = [] → s.accepted = wire s) ∧ s.out = [] ∧ s.w = .exited := by
  have h1 := inv1_reachable h
  have h3 := inv3_reachable h
  cases hw : s.win with
  | none => have := (h1.none_ hw).2.2.2.2.1; rw [hws] at this; simp at this
  | some w =>
    have hp := h1.some_ w hw
    have hg : (phaseOf w.graceful w.pc).gone = true := by
      have := hp.2.2.2.2.2.2.1
      rw [hws] at this
      cases hpc : w.pc <;> simp [hpc, phaseOf] at this ⊢
    have hwx := (hp.2.2.2.2.2.1 hg).1
    have hout : s.out = [] := h3.drained (by rw [hwx]; rfl)
    have hacc : s.accepted = s.wlog.map (·.1) := by
      have := h3.fifo
      rw [hwx, hout] at this
      simpa [inflight] using this
    refine ⟨hacc, ?_, hout, hwx⟩
    intro hf
    rw [hacc, wire, wlog_eq_wire s.wlog hf]

/-- nothing is appended to the wire after the write side was shut, no packet is accepted any more, and the
  write side stays shut: end-of-stream really is the end. -/
theorem C03_frozen (cfg : Cfg) {s s' : State} (h : Reachable cfg s) (hws : s.writeShut = true) (a : Action)
    (hs : step cfg s a = some s') : s'.wlog = s.wlog ∧ s'.accepted = s.accepted ∧ s'.writeShut = true := by
  have h1 := inv1_reachable h
  have h2 := inv2_reachable h
  obtain ⟨_, _, _, hwx⟩ := C03_flushed_at_eof cfg h hws
  refine ⟨?_, ?_, (step_mono hs).1 hws⟩
  · rcases step_wlog hs with h' | ⟨p, h' | h'⟩
    · exact h'
    · rw [hwx] at h'; simp at h'
    · rw [hwx] at h'; simp at h'
  · rcases step_accepted hs with h' | ⟨i, p, h'⟩
    · exact h'
    · exfalso
      have hrun := h2.sendRunning _ (List.mem_of_getElem? h') p rfl
      have := (h1.none_ (win_none_of_running h1 hrun)).2.2.2.2.1
      rw [hws] at this; simp at this

/-- no packet is accepted once shutdown began (the state word left Running): "accepted" and "shutdown began"
  are totally ordered, which is what makes the flush complete. -/
theorem C03_no_accept_after_shutdown (cfg : Cfg) {s s' : State} (h : Reachable cfg s) (hst : s.st ≠ .running)
    (a : Action) (hs : step cfg s a = some s') : s'.accepted = s.accepted := by
  rcases step_accepted hs with h' | ⟨i, p, h'⟩
  · exact h'
  · exact absurd ((inv2_reachable h).sendRunning _ (List.mem_of_getElem? h') p rfl) hst

/-- the graceful Close never shuts the receive side of the socket (only ForceClose does): a socket whose receive
  side is shut and whose FIN is out is reset by the kernel when data of the peer arrives, which destroys flushed
  data it has not transmitted yet — with the receive side open, "written" means "delivered, then end-of-stream"
  (trusted: TCP).  The reader is released by a read deadline in the past instead (`C04_no_stuck`). -/
theorem C03_graceful_read_open (cfg : Cfg) {s : State} (h : Reachable cfg s) (w : Winner) (hw : s.win = some w)
    (hg : w.graceful = true) : s.readShut = false := by
  have hp := (inv1_reachable h).some_ w hw
  rw [hp.2.2.1, hg]
  cases w.pc <;> rfl

/-- inbound: the frames the reader decoded are exactly the frames at the head of what the peer sent, in wire
  order, each once; every decoded frame was put into the inbound queue, or is the one being handed over, or
  is the (at most one) frame abandoned because the connection was closing; the inbound queue is FIFO. -/
theorem C03_inbound_once (cfg : Cfg) {s : State} (h : Reachable cfg s) :
    s.peerAll = s.decoded.map In.frame ++ s.peerIn ∧
    s.decoded = s.delivered ++ pending s.r ++ s.dropped ∧ s.dropped.length ≤ 1 ∧
    (s.dropped ≠ [] → s.r = .wgDone ∨ s.r = .exited) ∧
    s.delivered = s.consumed ++ s.inb := by
  have h4 := inv4_reachable h
  exact ⟨h4.wireIn, h4.dec, h4.dropOne, h4.dropLate, h4.inbq⟩

/-- the four counters equal what crossed the wire: packets and bytes written, frames and bytes decoded -/
theorem C03_counters (cfg : Cfg) {s : State} (h : Reachable cfg s) :
    s.sentPkts = (wire s).length ∧ s.sentBytes = sizes (wire s) ∧
    s.recvPkts = s.decoded.length ∧ s.recvBytes = sizes s.decoded := by
  have h3 := inv3_reachable h
  have h4 := inv4_reachable h
  exact ⟨h3.sentP, h3.sentB, h4.recvP, h4.recvB⟩

/-! ### non-vacuity: a schedule with a backlog of two packets at Close (the Lean counter-example of D2) -/

def exCfg : Cfg := ⟨4, 2, 1, 0⟩
def exP (n : Nat) : Pkt := ⟨n, 10 + n, true⟩

/-- Go; three packets are accepted while the writer has taken only the first; Close runs to completion
  (the writer flushes the backlog of two on `done`); the reader leaves after CloseRead. -/
def exBacklog : List Action :=
  [.start, .peerSend (.frame (exP 100)), .rArm, .rChk, .rFrame, .rPush,
   .sendCall 0 (exP 1), .snd 0, .snd 0, .snd 0, .snd 0, .wRecv,
   .sendCall 0 (exP 2), .snd 0, .snd 0, .snd 0, .snd 0,
   .sendCall 0 (exP 3), .snd 0, .snd 0, .snd 0, .snd 0,
   .closeCall true, .cls 0, .cls 0, .win, .win, .win, .win,
   .wWrite true, .wDone, .wFlush, .wWrite true, .wFlush, .wWrite true, .wFlush, .wWgDone,
   .rCheck, .rWgDone, .win, .win, .win, .win, .win, .cls 0]

/-- the schedule is executable, ends with the graceful closer returned as the winner, and the three packets
  are on the wire in order (so the hypotheses of `C03_close_flushes` are satisfiable, non-trivially) -/
example : ∃ s, run exCfg (init exCfg) exBacklog = some s ∧
    (∃ c ∈ s.cls, c.graceful = true ∧ c.pc = .returned true) ∧
    wire s = [exP 1, exP 2, exP 3] ∧ s.accepted = [exP 1, exP 2, exP 3] ∧ s.writeShut = true ∧
    s.delivered = [exP 100] := by
  refine ⟨_, rfl, ⟨⟨true, .returned true⟩, ?_, rfl, rfl⟩, ?_, ?_, ?_, ?_⟩ <;> decide

end Fatchoy.Conn

/-! ## Start-up (`TcpConn.Go`) and the wait group: the separate small LTS `Model/ConnStart.lean`

The LTS above treats `Go` as one atomic action that leaves both pumps running and registered.  The theorems below
are about the LTS that opens `Go` up (one action = one of: the CAS, `wg.Add(1)`, the `go` statement, the first
statement of a pump, …, `wg.Done()`, and the steps of Close/finally), for the order of the code
(`cfg.addInside = false`: the counter is incremented by `Go` BEFORE the `go` statement — regenerated fact
`Gen.C03.goAddBeforeSpawn`), for every schedule, both flags, every queue capacity.  `addInside = true` is the
order of the seeded change C03-w5v1, for which `C03_startup_add_inside_breaks` exhibits the failure. -/
namespace Fatchoy.ConnStart

/-- the regenerated fact: in `Go` every `go t.xPump()` directly follows `t.wg.Add(1)`, the pumps never increment
  the counter and each calls `wg.Done()` once, deferred — the order the theorems below assume (`addInside = false`) -/
theorem C03_startup_valid : Gen.C03.goAddBeforeSpawn = true := by decide

/-- the configuration of the code: `addInside` is the negation of the regenerated fact -/
def codeCfg (cap : Nat) : Cfg := ⟨!Gen.C03.goAddBeforeSpawn, cap⟩

/-- the wait-group counter is never negative (no "sync: negative WaitGroup counter" panic); it counts exactly the
  pump goroutines between their registration and their `wg.Done()` -/
theorem C03_startup_wg_nonneg (cfg : Cfg) (hc : cfg.addInside = false) {s : State} (h : Reachable cfg s) :
    0 ≤ s.wg ∧ s.wg = s.wPc.live + s.rPc.live + s.goPc.pendW + s.goPc.pendR := by
  have hi := inv_reachable hc h
  refine ⟨?_, hi.count⟩
  rw [hi.count]
  simp only [PumpPc.live, GoPc.pendW, GoPc.pendR]
  repeat' split
  all_goals omega

/-- once `wg.Wait()` of `finally` has returned, every pump that `Go` was asked to start has been spawned and has
  exited, and the others were never spawned -/
theorem C03_startup_wait_all_exited (cfg : Cfg) (hc : cfg.addInside = false) {s : State} (h : Reachable cfg s)
    (hw : waitReturned s) :
    s.goPc = .returned ∧
    (s.wPc = if s.wFlag then .exited else .notSpawned) ∧ (s.rPc = if s.rFlag then .exited else .notSpawned) := by
  have hi := inv_reachable hc h
  have hg : s.goPc = .returned := hi.closerGo (by simp only [waitReturned] at hw; grind)
  have h1 := hi.selW (.inr (.inr hg))
  have h2 := hi.selR hg
  have h3 := hi.waitW hw
  have h4 := hi.waitR hw
  refine ⟨hg, ?_, ?_⟩
  · cases hf : s.wFlag <;> grind
  · cases hf : s.rFlag <;> grind

/-- every accepted packet is on the wire or still in the queue, in order — in every reachable state -/
theorem C03_startup_fifo (cfg : Cfg) (hc : cfg.addInside = false) {s : State} (h : Reachable cfg s) :
    s.accepted = s.wire ++ s.queue :=
  (inv_reachable hc h).fifo

/-- Close returns only after every accepted packet was flushed: when `wg.Wait()` has returned (a fortiori when
  Close has returned) and the writer was selected, the wire carries exactly the accepted packets, in order -/
theorem C03_startup_close_flushes (cfg : Cfg) (hc : cfg.addInside = false) {s : State} (h : Reachable cfg s)
    (hw : waitReturned s) (hf : s.wFlag = true) : s.wire = s.accepted ∧ s.queue = [] := by
  have hi := inv_reachable hc h
  have hx := (C03_startup_wait_all_exited cfg hc h hw).2.1
  rw [hf] at hx
  have hq := hi.wEmpty (.inr hx)
  refine ⟨?_, hq⟩
  rw [hi.fifo, hq, List.append_nil]

/-- no packet is accepted after the state flip: an enabled `send` means Close has not passed `beginShutdown` -/
theorem C03_startup_no_accept_after_flip (cfg : Cfg) (hc : cfg.addInside = false) {s s' : State}
    (h : Reachable cfg s) (p : Nat) (hs : step cfg s (.send p) = some s') : s.closer = .idle := by
  have hi := inv_reachable hc h
  simp only [step] at hs
  split at hs
  · next hg => exact hi.stRun hg.1
  · cases hs

/-- without a writer nothing ever reaches the wire -/
theorem C03_startup_no_writer (cfg : Cfg) (hc : cfg.addInside = false) {s : State} (h : Reachable cfg s)
    (hg : s.goPc = .returned) (hf : s.wFlag = false) : s.wPc = .notSpawned :=
  ((inv_reachable hc h).selW (.inr (.inr hg))).2 hf

/-! ### non-vacuity and the negative control -/

/-- Go(writer+reader), two packets accepted, Close issued BEFORE either pump ran its first statement -/
def exEarlyClose : List Action :=
  [.goCall true true, .goAddW, .goSpawnW, .goAddR, .goSpawnR, .send 7, .send 8,
   .closeFlip, .closeDone,
   .wStart, .wSeeDone, .wFlush, .rStart, .wFlush, .wFlushEnd, .rSeeDone, .wWgDone, .rWgDone,
   .closeWait, .closeShutW, .closeQueue, .closeReturn]

/-- with the order of the code the schedule runs to the end: Close returns with both packets on the wire (the
  hypotheses of `C03_startup_close_flushes` / `_wait_all_exited` are satisfiable by a non-trivial state) -/
example : ∃ s, run (codeCfg 4) init exEarlyClose = some s ∧ s.closer = .returned ∧ waitReturned s ∧
    s.wFlag = true ∧ s.wire = [7, 8] ∧ s.accepted = [7, 8] ∧ s.wg = 0 ∧ s.wPc = .exited ∧ s.rPc = .exited :=
  ⟨_, rfl, by decide⟩

/-- `C03_startup_wg_nonneg` at a state where the counter is 2 and one pump is registered but not yet spawned -/
example : ∃ s, run (codeCfg 4) init [.goCall true true, .goAddW, .goSpawnW, .wStart, .goAddR] = some s ∧
    s.wg = 2 ∧ s.rPc = .notSpawned ∧ s.goPc.pendR = 1 := ⟨_, rfl, by decide⟩

/-- `C03_startup_no_accept_after_flip`, `C03_startup_no_writer`: a send is enabled before the flip; reader only -/
example : ∃ s s', run (codeCfg 4) init [.goCall false true, .goSkipW, .goAddR, .goSpawnR] = some s ∧
    step (codeCfg 4) s (.send 5) = some s' ∧ s.goPc = .returned ∧ s.wFlag = false ∧ s'.accepted = [5] :=
  ⟨_, _, rfl, rfl, by decide⟩

/-- the schedule of the seeded change C03-w5v1: the pumps are spawned unregistered, Close runs to completion
  before either of them executes its first statement (`wg.Wait()` sees the counter at zero) -/
def exAddInside : List Action :=
  [.goCall true true, .goSpawnW, .goSpawnR, .send 7, .send 8,
   .closeFlip, .closeDone, .closeWait, .closeShutW, .closeQueue, .closeReturn]

/-- NEGATIVE CONTROL: with the counter incremented by the pump goroutine itself (`addInside = true`) there is a
  reachable state in which Close has returned, the writer was selected, and accepted packets are not on the wire -/
theorem C03_startup_add_inside_breaks :
    ∃ s, Reachable ⟨true, 4⟩ s ∧ s.closer = .returned ∧ s.wFlag = true ∧ s.accepted = [7, 8] ∧ s.wire = [] :=
  ⟨_, ⟨exAddInside, rfl⟩, by decide⟩

/-- the same schedule is NOT executable with the order of the code (the `go` statement needs the preceding Add,
  and then `wg.Wait()` does not return) -/
example : run (codeCfg 4) init exAddInside = none := by decide

end Fatchoy.ConnStart
