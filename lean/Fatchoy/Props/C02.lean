/-
C02 — decoders refuse malformed or corrupted frames: no panic, no oversized allocation.

Property theorems only.  Model: Model/Codec.lean + Model/Crc32.lean (ReadHeadBody, UnmarshalPacket,
ReadPacket of both formats, ReadLenData; every slice index that can go out of range is an explicit
`panicIndex` outcome; `alloc` / `awaited` are ghost outputs: the sizes passed to `make` and to
`io.ReadFull`); parameters regenerated from the source: Gen/C02.lean through Model/C02Params.lean;
lemmas: Lemmas/Codec*.lean.

All theorems are for *any* parameters satisfying the decidable side-condition `Valid02 P`
(documented layouts, limits, and the range guards `length < header` of the three readers), any
environment, any stream (a list of chunks), any chunking.
-/
import Fatchoy.Model.C02Params
import Fatchoy.Lemmas.CodecBitflip
import Fatchoy.Lemmas.CodecLenData
namespace Fatchoy.C02
open Fatchoy.Codec Fatchoy.Crc32

/-- the regenerated constants, layout tables, limits and range guards satisfy the side-conditions -/
theorem C02_valid : Valid02 params := by decide

/-- whatever bytes arrive, however chunked: reading a frame ends with a packet or with one of seven
    errors — never with a panic (an out-of-range index or an unconvertible body) -/
theorem C02_total (P : Params) (hv : Valid02 P) (F : Fmt) (hF : F = P.v1 ∨ F = P.v2) (e : Env) (cs : Chunks) :
    (∃ p, (readPacket P F e cs).res = .ok p) ∨
    (∃ er, (readPacket P F e cs).res = .error er ∧ er.isPanic = false ∧
      (er = .eof ∨ er = .short ∨ er = .overflow ∨ er = .crc ∨ er = .refcount ∨ er = .needDecrypt ∨ er = .decompress)) := by
  cases h : (readPacket P F e cs).res with
  | ok p => exact Or.inl ⟨p, rfl⟩
  | error er =>
    right
    have := readPacket_errors (valid02_fmt hv hF).1 e cs h
    refine ⟨er, rfl, ?_, this⟩
    rcases this with h | h | h | h | h | h | h <;> subst h <;> rfl

/-- the length-prefixed reader: data or one of three errors -/
theorem C02_total_lendata (P : Params) (hv : Valid02 P) (cs : Chunks) :
    (∃ d, (readLenData P cs).res = .ok d) ∨
    (∃ er, (readLenData P cs).res = .error er ∧ (er = .eof ∨ er = .short ∨ er = .overflow)) := by
  cases h : (readLenData P cs).res with
  | ok d => exact Or.inl ⟨d, rfl⟩
  | error er => exact Or.inr ⟨er, rfl, (readLenData_cases P hv.2 cs _ rfl).2.2.1 er h⟩

/-- no payload buffer larger than `Max - HeaderSize` is ever allocated, and all `io.ReadFull` calls of
    one read together never wait for more than `Max` bytes; for the length-prefixed reader the
    bound is the largest value of its 16-bit field -/
theorem C02_alloc_bound (P : Params) (hv : Valid02 P) (F : Fmt) (hF : F = P.v1 ∨ F = P.v2) (e : Env) (cs : Chunks) :
    (∀ a ∈ (readPacket P F e cs).alloc, a ≤ F.max - F.headerSize) ∧ (readPacket P F e cs).awaited.sum ≤ F.max ∧
    (∀ a ∈ (readLenData P cs).alloc, a ≤ 65535 - 2) ∧ (readLenData P cs).awaited.sum ≤ 65535 := by
  obtain ⟨h1, h2⟩ := readHeadBody_bound (valid02_fmt hv hF).1 (valid02_fmt hv hF).2.1 cs
  obtain ⟨h3, h4, _⟩ := readLenData_cases P hv.2 cs _ rfl
  obtain ⟨ha, hw⟩ := readPacket_ghost P F e cs
  rw [ha, hw]
  exact ⟨h1, h2, h3, h4⟩

/-- a length field smaller than the header or larger than the maximum is refused: an error, nothing
    allocated, nothing awaited beyond the header (any header bytes, any continuation of the stream) -/
theorem C02_len_refused (P : Params) (hv : Valid02 P) (F : Fmt) (hF : F = P.v1 ∨ F = P.v2) (e : Env) (cs : Chunks)
    (hdr tail : Bytes) (hcs : flat cs = hdr ++ tail) (hl : hdr.length = F.headerSize) :
    ∃ n, field? F.get "len" hdr = some n ∧
      (n < F.headerSize ∨ n > F.max →
        (readPacket P F e cs).res = .error .overflow ∧ (readPacket P F e cs).alloc = [] ∧
        (readPacket P F e cs).awaited = [F.headerSize] ∧ flat (readPacket P F e cs).rest = tail) := by
  obtain ⟨hF', hlo, _⟩ := valid02_fmt hv hF
  obtain ⟨n, hn, _⟩ := len_field hF' hl
  refine ⟨n, hn, fun hbad => ?_⟩
  obtain ⟨_, hhi, _⟩ := fmt_facts hF'
  obtain ⟨a1, a2, a3, a4⟩ := readHeadBody_refused hl hn (by rw [hlo, hhi]; exact hbad) hcs
  unfold readPacket
  simp only [a1, a2, a3, a4]
  exact ⟨trivial, trivial, trivial, trivial⟩

/-- the same for the length-prefixed reader: a prefix of 0 or 1 is refused before anything is allocated -/
theorem C02_len_refused_lendata (P : Params) (hv : Valid02 P) (cs : Chunks) (hdr tail : Bytes)
    (hcs : flat cs = hdr ++ tail) (hl : hdr.length = 2) (hlow : beGet hdr < 2) :
    (readLenData P cs).res = .error .overflow ∧ (readLenData P cs).alloc = [] ∧ (readLenData P cs).awaited = [2] :=
  (readLenData_cases P hv.2 cs _ rfl).2.2.2 hdr tail hcs hl hlow

/-- the frame of any packet the encoder accepted, cut at any offset `k` before its end, is answered
    with an error (end of stream) — it is never delivered -/
theorem C02_truncated (P : Params) (hv : Valid02 P) (F : Fmt) (hF : F = P.v1 ∨ F = P.v2) (e : Env) (p p' : Pkt)
    (w : Bytes) (hm : marshalBody P e p = .ok (w, p')) (hr : F.v2 = true → p.refs.length ≤ 255)
    (fit : frameLen F p w ≤ F.max) (k : Nat) (hk : k < (writePacket P F e p).bytes.length) (e' : Env) (cs : Chunks)
    (hcs : flat cs = (writePacket P F e p).bytes.take k) :
    (readPacket P F e' cs).res = .error .eof ∨ (readPacket P F e' cs).res = .error .short := by
  obtain ⟨hF', _, _⟩ := valid02_fmt hv hF
  obtain ⟨hdr, pl, hb, hl, hn, hfl, _⟩ := written_frame hF' hv.1.2.2 hm hr fit
  rw [hb] at hcs hk
  rw [List.length_append, hl] at hk
  exact truncated_frame hF' e' hl hn rfl (by omega) hk hcs

/-- the regenerated facts about `WriteLenData` / `ReadLenData` as a pair -/
theorem C02_valid_lendata : ValidLd params := by decide

/-- a length-prefixed record (as `WriteLenData` emits it, any payload of 0..65532 bytes) cut at any
    offset before its end is answered with an error, never delivered -/
theorem C02_truncated_lendata (P : Params) (hv : ValidLd P) (data : Bytes) (h : data.length ≤ 65532) (k : Nat)
    (hk : k < data.length + 2) (cs : Chunks) (hcs : flat cs = (writeLenData P data).bytes.take k) :
    (readLenData P cs).res = .error .eof ∨ (readLenData P cs).res = .error .short :=
  lendata_truncated P hv data h k hk cs hcs

/-- a complete frame whose body does not match its flags is answered with an error, whatever the
    rest of its header says and whether or not there are body bytes: (1) more references announced
    than the payload holds; (2) encrypted bit and no decryptor; (3) compressed bit on a body that
    does not inflate (after decryption when the encrypted bit is set too).
    `f`, `r` are the flag and reference-count bytes of the header, `body` what follows the references. -/
theorem C02_flag_mismatch (P : Params) (hv : Valid02 P) (F : Fmt) (hF : F = P.v1 ∨ F = P.v2) (e : Env) (cs : Chunks)
    (hdr pl tail : Bytes) (n : Nat) (hcs : flat cs = hdr ++ (pl ++ tail)) (hl : hdr.length = F.headerSize)
    (hn : field? F.get "len" hdr = some n) (hnn : n = F.headerSize + pl.length) (hmax : n ≤ F.max) :
    ∃ f r, field? F.get "flag" hdr = some f ∧ (if F.v2 then field? F.get "nref" hdr = some r else r = 0) ∧
      let flag := BitVec.ofNat 8 f
      let body := pl.drop (r * 4)
      let bad := ∃ er, (readPacket P F e cs).res = .error er
      (pl.length < r * 4 → bad) ∧
      (r * 4 ≤ pl.length → flag &&& 2#8 ≠ 0#8 → e.dec = none → bad) ∧
      (r * 4 ≤ pl.length → flag &&& 2#8 = 0#8 → flag &&& 1#8 ≠ 0#8 → e.decompress body = none → bad) ∧
      (∀ g, r * 4 ≤ pl.length → flag &&& 2#8 ≠ 0#8 → e.dec = some g → flag &&& 1#8 ≠ 0#8 →
        e.decompress (g body) = none → bad) := by
  obtain ⟨hF', _, hon⟩ := valid02_fmt hv hF
  obtain ⟨hres, _⟩ := readPacket_complete (P := P) hF' e hcs hl hn hnn hmax
  obtain ⟨f, r, p0, hf, hr, hp0, hshape⟩ := unmarshal_shape (P := P) hF' e pl hl
  obtain ⟨hc, he, _, _⟩ := hv.1.2.2
  refine ⟨f, r, hf, hr, ?_⟩
  intro flag body bad
  have hbad : ∀ er, unmarshalPayload P e F.bodyStepOnFlags p0 r pl = .error er → bad := by
    intro er h
    rcases hshape with h' | h'
    · exact ⟨_, by rw [hres, h']⟩
    · exact ⟨er, by rw [hres, h', h]⟩
  have hb1 : bit8 P.flagCompressed = 1#8 := by rw [hc]; rfl
  have hb2 : bit8 P.flagEncrypted = 2#8 := by rw [he]; rfl
  have hbody : r * 4 ≤ pl.length → flag &&& 3#8 ≠ 0#8 → ∀ er,
      (∀ refs, unmarshalBody P e body { p0 with refs := refs } = .error er) → bad := by
    intro h1 h2 er h
    obtain ⟨refs, hu⟩ := unmarshalPayload_body (P := P) (e := e) (b := F.bodyStepOnFlags) (p0 := p0) h1
      (Or.inr ⟨hon, by rw [hb1, hb2, hp0]; exact h2⟩)
    exact hbad er (by rw [hu]; exact h refs)
  have hclear : ∀ x : BitVec 8, x &&& 2#8 ≠ 0#8 → x &&& 1#8 ≠ 0#8 → x &&& ~~~2#8 &&& 1#8 ≠ 0#8 := by decide
  have hm2 : ∀ x : BitVec 8, x &&& 2#8 ≠ 0#8 → x &&& 3#8 ≠ 0#8 := by decide
  have hm1 : ∀ x : BitVec 8, x &&& 1#8 ≠ 0#8 → x &&& 3#8 ≠ 0#8 := by decide
  refine ⟨fun h => hbad _ (unmarshalPayload_refcount h), fun h1 h3 h4 => ?_, fun h1 h3 h4 h5 => ?_,
    fun g h1 h3 h4 h5 h6 => ?_⟩
  · exact hbody h1 (hm2 _ h3) _ (fun refs => unmarshalBody_undecryptable (by rw [hb2]; simpa [hp0] using h3) h4)
  · exact hbody h1 (hm1 _ h4) _ (fun refs => unmarshalBody_not_decompressible.1 (by rw [hb2]; simpa [hp0] using h3)
      (by rw [hb1]; simpa [hp0] using h4) h5)
  · exact hbody h1 (hm2 _ h3) _ (fun refs => unmarshalBody_not_decompressible.2 g (by rw [hb2]; simpa [hp0] using h3) h4
      (by rw [hb1, hb2]; simpa [hp0] using hclear flag h3 h5) h6)

/-- CRC-32 detects every single-bit error: flipping any one bit of a message of any length changes
    its checksum (the bit step is linear over GF(2), and a zero input bit keeps a non-zero difference non-zero) -/
theorem C02_crc32_flip (m : Bytes) (i : Nat) (h : i < 8 * m.length) : crc32 (flipBit m i) ≠ crc32 m :=
  crc32_flip m i h

/-- the full single-bit statement of the property: ANY flipped bit of the frame of an accepted packet,
    anything following on the stream, is answered with an error.  NOT proved, and not provable from
    the checksum alone: a flip in the length field changes which bytes the checksum covers, and
    CRC-32 gives no guarantee across different coverings (by counting, frames with an undetected
    such flip exist, at a rate of about 2^-32).  What IS proved about it:
    `C02_bitflip_partial` (every bit outside the length field: always a checksum error),
    `C02_bitflip_len_iff` (a length-field flip is refused, runs into the end of the stream, or passes
    the checksum comparison if and only if two different byte strings collide under CRC-32) and
    `C02_bitflip_classified` (this statement with the collision as its only exception).
    The correspondence run tries every flip, the length-field ones included, on its frames. -/
def C02_bitflip_full : Prop :=
  ∀ (P : Params), Valid02 P → ∀ (F : Fmt), F = P.v1 ∨ F = P.v2 → ∀ (e : Env) (p p' : Pkt) (w : Bytes),
    marshalBody P e p = .ok (w, p') → (F.v2 = true → p.refs.length ≤ 255) → frameLen F p w ≤ F.max →
    ∀ (i : Nat), i < 8 * (writePacket P F e p).bytes.length → ∀ (e' : Env) (tail : Bytes) (cs : Chunks),
    flat cs = flipBit (writePacket P F e p).bytes i ++ tail → ∃ er, (readPacket P F e' cs).res = .error er

/-- the frame of any accepted packet with any single bit flipped outside its length field — header
    fields, checksum field, references, body — followed by anything on the stream, read under any
    chunking by a decoder with any environment: the read fails with a checksum error -/
theorem C02_bitflip_partial (P : Params) (hv : Valid02 P) (F : Fmt) (hF : F = P.v1 ∨ F = P.v2) (e : Env) (p p' : Pkt)
    (w : Bytes) (hm : marshalBody P e p = .ok (w, p')) (hr : F.v2 = true → p.refs.length ≤ 255)
    (fit : frameLen F p w ≤ F.max) (i : Nat) (hlo : 8 * lenWidth F ≤ i)
    (hi : i < 8 * (writePacket P F e p).bytes.length) (e' : Env) (tail : Bytes) (cs : Chunks)
    (hcs : flat cs = flipBit (writePacket P F e p).bytes i ++ tail) :
    (readPacket P F e' cs).res = .error .crc := by
  obtain ⟨hF', _, _⟩ := valid02_fmt hv hF
  obtain ⟨hdr, pl, hb, hl, hn, hfl, hcrc⟩ := written_frame hF' hv.1.2.2 hm hr fit
  rw [hb] at hcs hi
  rw [List.length_append, hl] at hi
  exact bitflip_frame hF' e' hl hn rfl (by omega) hcrc i hlo hi hcs

/-- a flipped bit INSIDE the length field, characterised completely.  For the frame `hdr ++ pl` of
    any accepted packet, bit `i` of the length field flipped, anything (`tail`) following: with `n'`
    the damaged length, the read is refused (`n'` outside [header, max]); or ends in end-of-stream
    (fewer than `n' - header` bytes follow the header); or it is `UnmarshalPacket` of the damaged
    header and the first `n' - header` bytes behind it, and then it fails the checksum comparison
    IF AND ONLY IF `crc32 m' ≠ crc32 m`, where `m` are the bytes the original checksum covered and
    `m' ≠ m` the bytes the damaged frame makes it cover.  So a length flip — decreasing or increasing —
    gets past the checksum exactly when two different byte strings have the same CRC-32. -/
theorem C02_bitflip_len_iff (P : Params) (hv : Valid02 P) (F : Fmt) (hF : F = P.v1 ∨ F = P.v2) (e : Env) (p p' : Pkt)
    (w : Bytes) (hm : marshalBody P e p = .ok (w, p')) (hr : F.v2 = true → p.refs.length ≤ 255)
    (fit : frameLen F p w ≤ F.max) (i : Nat) (hi : i < 8 * lenWidth F) (e' : Env) (tail : Bytes) (cs : Chunks)
    (hcs : flat cs = flipBit (writePacket P F e p).bytes i ++ tail) :
    ∃ hdr pl n', (writePacket P F e p).bytes = hdr ++ pl ∧ hdr.length = F.headerSize ∧
      field? F.get "len" (flipBit hdr i) = some n' ∧
      (n' < F.headerSize ∨ n' > F.max → (readPacket P F e' cs).res = .error .overflow) ∧
      (F.headerSize ≤ n' → n' ≤ F.max → (pl ++ tail).length < n' - F.headerSize →
        (readPacket P F e' cs).res = .error .eof ∨ (readPacket P F e' cs).res = .error .short) ∧
      (F.headerSize ≤ n' → n' ≤ F.max → n' - F.headerSize ≤ (pl ++ tail).length →
        let m := hdr.take F.crcCover ++ pl
        let m' := (flipBit hdr i).take F.crcCover ++ (pl ++ tail).take (n' - F.headerSize)
        (readPacket P F e' cs).res = unmarshal P F e' (flipBit hdr i) ((pl ++ tail).take (n' - F.headerSize)) ∧
        m' ≠ m ∧ ((readPacket P F e' cs).res = .error .crc ↔ crc32 m' ≠ crc32 m)) := by
  obtain ⟨hF', hlo, _⟩ := valid02_fmt hv hF
  obtain ⟨hdr, pl, hb, hl, _, _, hcrc⟩ := written_frame hF' hv.1.2.2 hm hr fit
  rw [hb] at hcs
  obtain ⟨n', h1, h2, h3, h4⟩ := lenflip_frame (P := P) hF' hlo e' hl hcrc i hi hcs
  exact ⟨hdr, pl, n', hb, hl, h1, h2, h3, h4⟩

/-- what CAN be said about every single-bit flip (`C02_bitflip_full` up to a CRC collision): the
    frame of any accepted packet with ANY one bit flipped, anything following, is answered with an
    error — unless the bit is in the length field AND there is a byte string `m'` different from
    the checksum-covered bytes `m` of the original frame with the same CRC-32.  The residual risk
    of the single-bit clause of the property is therefore exactly a CRC-32 collision. -/
theorem C02_bitflip_classified (P : Params) (hv : Valid02 P) (F : Fmt) (hF : F = P.v1 ∨ F = P.v2) (e : Env)
    (p p' : Pkt) (w : Bytes) (hm : marshalBody P e p = .ok (w, p')) (hr : F.v2 = true → p.refs.length ≤ 255)
    (fit : frameLen F p w ≤ F.max) (i : Nat) (hi : i < 8 * (writePacket P F e p).bytes.length) (e' : Env)
    (tail : Bytes) (cs : Chunks) (hcs : flat cs = flipBit (writePacket P F e p).bytes i ++ tail) :
    (∃ er, (readPacket P F e' cs).res = .error er) ∨
    (i < 8 * lenWidth F ∧ ∃ hdr pl m', (writePacket P F e p).bytes = hdr ++ pl ∧ hdr.length = F.headerSize ∧
      m' ≠ hdr.take F.crcCover ++ pl ∧ crc32 m' = crc32 (hdr.take F.crcCover ++ pl)) := by
  by_cases hlen : 8 * lenWidth F ≤ i
  · exact Or.inl ⟨_, C02_bitflip_partial P hv F hF e p p' w hm hr fit i hlen hi e' tail cs hcs⟩
  · have hi' : i < 8 * lenWidth F := by omega
    obtain ⟨hdr, pl, n', hb, hl, _, h2, h3, h4⟩ :=
      C02_bitflip_len_iff P hv F hF e p p' w hm hr fit i hi' e' tail cs hcs
    by_cases hrange : n' < F.headerSize ∨ n' > F.max
    · exact Or.inl ⟨_, h2 hrange⟩
    · have hr1 : F.headerSize ≤ n' := by omega
      have hr2 : n' ≤ F.max := by omega
      by_cases hshort : (pl ++ tail).length < n' - F.headerSize
      · rcases h3 hr1 hr2 hshort with h | h
        · exact Or.inl ⟨_, h⟩
        · exact Or.inl ⟨_, h⟩
      · obtain ⟨_, hne, hiff⟩ := h4 hr1 hr2 (by omega)
        by_cases hcol : crc32 ((flipBit hdr i).take F.crcCover ++ (pl ++ tail).take (n' - F.headerSize)) =
            crc32 (hdr.take F.crcCover ++ pl)
        · exact Or.inr ⟨hi', hdr, pl, _, hb, hl, hne, hcol⟩
        · exact Or.inl ⟨_, hiff.mpr hcol⟩

/-- a header that announces more bytes than the stream still holds (in particular: a frame at the
    end of the stream whose length field was increased by a flipped bit) is answered with an error -/
theorem C02_len_beyond_stream (P : Params) (hv : Valid02 P) (F : Fmt) (hF : F = P.v1 ∨ F = P.v2) (e : Env)
    (cs : Chunks) (hdr rest : Bytes) (n : Nat) (hcs : flat cs = hdr ++ rest) (hl : hdr.length = F.headerSize)
    (hn : field? F.get "len" hdr = some n) (hmore : n > F.headerSize + rest.length) :
    (readPacket P F e cs).res = .error .overflow ∨ (readPacket P F e cs).res = .error .eof ∨
    (readPacket P F e cs).res = .error .short := by
  obtain ⟨hF', hlo, _⟩ := valid02_fmt hv hF
  obtain ⟨hsub, hhi, hle, _, hbits, hmb, _⟩ := fmt_facts hF'
  have hres : ∀ er, (readHeadBody F cs).res = .error er → (readPacket P F e cs).res = .error er := by
    intro er h; unfold readPacket; simp only [h]
  by_cases hg : n < F.readLo ∨ n > F.readHi
  · exact Or.inl (hres _ (readHeadBody_refused hl hn hg hcs).1)
  · rw [hhi] at hg
    have hsw : subWrap F.lenBits n F.readSub = n - F.headerSize := by
      rw [hsub, subWrap_eq (by omega) (by omega)]
    obtain ⟨⟨er, h1, h2⟩, _⟩ := readHeadBody_short_payload (rest := rest) hl hn (by rw [hhi]; exact hg)
      (by rw [hsw]; omega) hcs
    rcases h2 with h2 | h2 <;> subst h2
    · exact Or.inr (Or.inl (hres _ h1))
    · exact Or.inr (Or.inr (hres _ h1))

/-! ### non-vacuity: the theorems instantiated on the regenerated parameters and concrete streams -/

/-- a V1 header announcing 5 bytes (less than the header), delivered byte by byte, with more data behind it -/
example : (readPacket params params.v1 hostileEnv ([0] :: [5] :: [1, 0, 0, 7, 0, 0, 0, 9, 1, 2, 3, 4] :: [[8, 8]])).res
      = .error .overflow ∧
    (readPacket params params.v1 hostileEnv ([0] :: [5] :: [1, 0, 0, 7, 0, 0, 0, 9, 1, 2, 3, 4] :: [[8, 8]])).alloc = [] := by
  obtain ⟨n, hn, h⟩ := C02_len_refused params C02_valid params.v1 (Or.inl rfl) hostileEnv
    ([0] :: [5] :: [1, 0, 0, 7, 0, 0, 0, 9, 1, 2, 3, 4] :: [[8, 8]]) [0, 5, 1, 0, 0, 7, 0, 0, 0, 9, 1, 2, 3, 4] [8, 8]
    (by decide) (by decide)
  have : n = 5 := by
    have h5 : field? params.v1.get "len" [0, 5, 1, 0, 0, 7, 0, 0, 0, 9, 1, 2, 3, 4] = some 5 := by decide
    rw [h5] at hn; injection hn with hn; exact hn.symm
  subst this
  exact ⟨(h (Or.inl (by decide))).1, (h (Or.inl (by decide))).2.1⟩

/-- a V2 frame (21 bytes: header announcing 21, one body byte) with the encrypted bit, no decryptor
    (the checksum does not matter: a wrong one is an error as well) -/
example : ∃ er, (readPacket params params.v2 hostileEnv
    [[0, 0, 21, 1, 2, 0, 0, 7, 0, 0, 0, 5, 0, 0, 0, 9, 1, 2, 3, 4, 0x55]]).res = .error er := by
  obtain ⟨f, r, hf, hr, _, h2, _⟩ := C02_flag_mismatch params C02_valid params.v2 (Or.inr rfl) hostileEnv
    [[0, 0, 21, 1, 2, 0, 0, 7, 0, 0, 0, 5, 0, 0, 0, 9, 1, 2, 3, 4, 0x55]]
    [0, 0, 21, 1, 2, 0, 0, 7, 0, 0, 0, 5, 0, 0, 0, 9, 1, 2, 3, 4] [0x55] [] 21 (by decide) (by decide) (by decide)
    (by decide) (by decide)
  have hf2 : f = 2 := by
    have : field? params.v2.get "flag" [0, 0, 21, 1, 2, 0, 0, 7, 0, 0, 0, 5, 0, 0, 0, 9, 1, 2, 3, 4] = some 2 := by decide
    rw [this] at hf; injection hf with hf; exact hf.symm
  have hr0 : r = 0 := by
    have h2' : params.v2.v2 = true := by decide
    simp only [h2', if_true] at hr
    have : field? params.v2.get "nref" [0, 0, 21, 1, 2, 0, 0, 7, 0, 0, 0, 5, 0, 0, 0, 9, 1, 2, 3, 4] = some 0 := by decide
    rw [this] at hr; injection hr with hr; exact hr.symm
  subst hf2; subst hr0
  exact h2 (by decide) (by decide) rfl

/-- a V1 frame of 19 bytes (5 body bytes) cut after 17 bytes, and cut inside the header -/
def cutPkt : Pkt := { cmd := 77#32, seq := 3#16, typ := 0#8, flag := 0x20#8, node := 0#32, refs := [], body := .bytes [1, 2, 3, 4, 5] }
example : ∀ k, k < 19 → ∀ cs, flat cs = (writePacket params params.v1 hostileEnv cutPkt).bytes.take k →
    (readPacket params params.v1 hostileEnv cs).res = .error .eof ∨
    (readPacket params params.v1 hostileEnv cs).res = .error .short := by
  intro k hk cs hcs
  have hm : marshalBody params hostileEnv cutPkt = .ok ([1, 2, 3, 4, 5], cutPkt) := by rfl
  have hlen := (write_ok (F := params.v1) (Or.inl C02_valid.1.1) C02_valid.1.2.2 hm (by decide) (by decide)).2.1
  exact C02_truncated params C02_valid params.v1 (Or.inl rfl) hostileEnv cutPkt cutPkt [1, 2, 3, 4, 5] hm (by decide)
    (by decide) k (by rw [hlen]; exact hk) hostileEnv cs hcs

/-- every bit of the 19-byte frame outside its length field, with more data behind the frame -/
example : ∀ i, 16 ≤ i → i < 8 * 19 → ∀ cs,
    flat cs = flipBit (writePacket params params.v1 hostileEnv cutPkt).bytes i ++ [1, 2, 3] →
    (readPacket params params.v1 hostileEnv cs).res = .error .crc := by
  intro i hlo hi cs hcs
  have hm : marshalBody params hostileEnv cutPkt = .ok ([1, 2, 3, 4, 5], cutPkt) := by rfl
  have hlen := (write_ok (F := params.v1) (Or.inl C02_valid.1.1) C02_valid.1.2.2 hm (by decide) (by decide)).2.1
  exact C02_bitflip_partial params C02_valid params.v1 (Or.inl rfl) hostileEnv cutPkt cutPkt [1, 2, 3, 4, 5] hm
    (by decide) (by decide) i hlo (by rw [hlen]; exact hi) hostileEnv [1, 2, 3] cs hcs

example : crc32 (flipBit [0x31, 0x32, 0x33] 13) ≠ crc32 [0x31, 0x32, 0x33] := C02_crc32_flip _ 13 (by decide)

/-- a V1 header announcing 300 bytes with only 4 bytes behind it -/
example := C02_len_beyond_stream params C02_valid params.v1 (Or.inl rfl) hostileEnv
  [[1, 44, 1, 0, 0, 7, 0, 0, 0, 9, 1, 2, 3, 4, 5, 5, 5, 5]] [1, 44, 1, 0, 0, 7, 0, 0, 0, 9, 1, 2, 3, 4] [5, 5, 5, 5] 300
  (by decide) (by decide) (by decide) (by decide)

example := C02_truncated_lendata params C02_valid_lendata [1, 2, 3] (by decide) 4 (by decide) [[0, 5], [1, 2]] (by decide)

/-- every bit of the 19-byte frame, length field included: an error, or a CRC-32 collision -/
example : ∀ i, i < 8 * 19 → ∀ cs,
    flat cs = flipBit (writePacket params params.v1 hostileEnv cutPkt).bytes i ++ [1, 2, 3] →
    (∃ er, (readPacket params params.v1 hostileEnv cs).res = .error er) ∨
    (i < 8 * lenWidth params.v1 ∧ ∃ hdr pl m', (writePacket params params.v1 hostileEnv cutPkt).bytes = hdr ++ pl ∧
      hdr.length = params.v1.headerSize ∧ m' ≠ hdr.take params.v1.crcCover ++ pl ∧
      crc32 m' = crc32 (hdr.take params.v1.crcCover ++ pl)) := by
  intro i hi cs hcs
  have hm : marshalBody params hostileEnv cutPkt = .ok ([1, 2, 3, 4, 5], cutPkt) := by rfl
  have hlen := (write_ok (F := params.v1) (Or.inl C02_valid.1.1) C02_valid.1.2.2 hm (by decide) (by decide)).2.1
  exact C02_bitflip_classified params C02_valid params.v1 (Or.inl rfl) hostileEnv cutPkt cutPkt [1, 2, 3, 4, 5] hm
    (by decide) (by decide) i (by rw [hlen]; exact hi) hostileEnv [1, 2, 3] cs hcs

/-- any garbage: a packet or a non-panic error, and the bounds hold -/
example := C02_total params C02_valid params.v2 (Or.inr rfl) hostileEnv [[0xff, 0x00], [0x13, 0x37]]
example := C02_alloc_bound params C02_valid params.v1 (Or.inl rfl) hostileEnv [[0xf0, 0x00], [0x13, 0x37]]
example : (readLenData params [[0], [1, 7, 7]]).res = .error .overflow :=
  (C02_len_refused_lendata params C02_valid [[0], [1, 7, 7]] [0, 1] [7, 7] (by decide) (by decide) (by decide)).1

end Fatchoy.C02
