/-
C09 — snowflake ids: increasing, unique, field-separable for any machine id and clock.

Property theorems only.  Model: Model/C09.lean (`new`, `next` of /repo/x/uuid/snowflake.go, the wall
clock a parameter: each call is given the readings the clock shows while it runs); constants
regenerated from the source into Gen/C09.lean; helper lemmas in Lemmas/C09.lean.

* "every machine id": `m` is any natural number (the code takes a uint16).
* "every clock trajectory": `clock : List Nat` / `calls : List (List Nat)` are arbitrary.
* "concurrent callers": `Next` runs under the generator's mutex (regenerated fact `nextLocked`,
  part of `Valid`), so every schedule of concurrent callers is a sequence of whole calls — `run`.
* `Reachable P m s`: `s` is a state of a generator created by `NewSnowflake(m)` after any number of
  completed calls under any clock.
* `Out.starved` is not a result: the supplied readings ran out while the call was still waiting for
  the next time unit (the real call would still be blocked).
-/
import Fatchoy.Lemmas.C09
namespace Fatchoy.C09

/-- the regenerated widths, shifts, masks and limits tile bits 0..62 -/
theorem C09_valid : Valid params := by decide

/-- Every id splits, with the regenerated shifts and widths, into rollback count, time, machine and
sequence fields that hold exactly the values that produced it: the state after the call, where the
machine field is the machine id the generator was created with (mod 2^14), the rollback count is
the one before the call plus one iff the call's first reading was behind the last time used, the
time is the last reading the call consumed (later than all it consumed before), and the sequence
continues within a time unit or restarts at 0.  All fields are inside their ranges: the id is below
2^63. -/
theorem C09_fields (P : Params) (hv : Valid P) {m : Nat} {s : St} (hr : Reachable P m s)
    {clock : List Nat} {id : Nat} {s' : St} {rest : List Nat} (h : next P s clock = (.ok id, s', rest)) :
    (id >>> P.shiftBc = s'.bc ∧ (id >>> P.shiftTs) % 2 ^ P.timeBits = s'.lastTs ∧
      (id >>> P.shiftMid) % 2 ^ P.midBits = s'.mid ∧ id % 2 ^ P.seqBits = s'.seq) ∧
    (s'.mid = m % 2 ^ P.midBits ∧
      (∃ r tl, clock = r :: tl ∧ s'.bc = (if r < s.lastTs then s.bc + 1 else s.bc)) ∧
      (∃ pre, clock = pre ++ s'.lastTs :: rest ∧ ∀ x ∈ pre, x < s'.lastTs) ∧
      ((s'.lastTs = s.lastTs ∧ s'.seq = s.seq + 1) ∨ (s'.lastTs ≠ s.lastTs ∧ s'.seq = 0))) ∧
    (s'.bc ≤ P.maxBack ∧ s'.lastTs ≤ P.maxTime ∧ s'.seq ≤ P.maxSeq ∧ id < 2 ^ 63) := by
  obtain ⟨hI, hm⟩ := reachable_inv P hv hr
  obtain ⟨r, tl, hc, hd⟩ := next_inv P hv hI h (by simp)
  have hv' := hv
  obtain ⟨e1, e2, e3, hS, hM, hT, h63, -⟩ := hv'
  cases hd with
  | ok ts seq' rest h1 h2 h3 h4 h5 h6 =>
    have b1 : ts < 2 ^ P.timeBits := by omega
    have b2 : s.mid < 2 ^ P.midBits := by have := hI.1; omega
    have b3 : seq' < 2 ^ P.seqBits := by omega
    have hf := pack_fields P (bc := bcAfter s r) b1 b2 b3
    rw [← assemble_eq_pack P hv b1 b2 b3] at hf
    refine ⟨by rw [e3, e2, e1]; exact hf, ⟨hm, ⟨r, tl, hc, rfl⟩, ?_, h6⟩, h3, h1, h2, ?_⟩
    · rw [hc]; exact h5
    · rw [assemble_eq_pack P hv b1 b2 b3]
      have hb : bcAfter s r < P.maxBack + 1 := by omega
      have := pack_lt_bound P hb b1 b2 b3
      rw [e3] at h63
      omega

/-- Ids of one generator strictly increase over any sequence of calls — whatever the state, the
clock, and even the constants (the final guard of `Next` enforces it) — and are therefore unique. -/
theorem C09_increasing (P : Params) (s : St) (calls : List (List Nat)) :
    (okIds (run P s calls)).Pairwise (· < ·) ∧ (∀ id ∈ okIds (run P s calls), s.lastID < id) ∧
    (okIds (run P s calls)).Nodup := by
  obtain ⟨h1, h2⟩ := run_increasing P s calls
  exact ⟨h1, h2, h1.imp (fun h => Nat.ne_of_lt h)⟩

/-- Generators whose machine fields differ never produce the same id, whatever their clocks and histories. -/
theorem C09_machines (P : Params) (hv : Valid P) {m₁ m₂ : Nat} (hm : m₁ % 2 ^ P.midBits ≠ m₂ % 2 ^ P.midBits)
    {s₁ s₂ : St} (hr₁ : Reachable P m₁ s₁) (hr₂ : Reachable P m₂ s₂)
    {c₁ c₂ : List Nat} {id₁ id₂ : Nat} {s₁' s₂' : St} {rest₁ rest₂ : List Nat}
    (h₁ : next P s₁ c₁ = (.ok id₁, s₁', rest₁)) (h₂ : next P s₂ c₂ = (.ok id₂, s₂', rest₂)) : id₁ ≠ id₂ := by
  obtain ⟨⟨-, -, f₁, -⟩, ⟨g₁, -⟩, -⟩ := C09_fields P hv hr₁ h₁
  obtain ⟨⟨-, -, f₂, -⟩, ⟨g₂, -⟩, -⟩ := C09_fields P hv hr₂ h₂
  intro he
  rw [he, f₂, g₂] at f₁
  exact hm (g₁ ▸ f₁).symm

/-- Errors instead of ids that could repeat.  (1) A reading beyond the time range is refused, the
state is untouched.  (2) With the rollback field at its maximum a further backward reading is
refused, the state is untouched — hence refused again until the clock reaches the last time used.
(3) When the sequence is exhausted and the unit the call waited for lies beyond the range, the call
is refused, the state is untouched. -/
theorem C09_errors (P : Params) (hv : Valid P) {m : Nat} {s : St} (hr : Reachable P m s) (r : Nat) (tl : List Nat) :
    (P.maxTime < r → next P s (r :: tl) = (.errTime, s, tl)) ∧
    (r ≤ P.maxTime → r < s.lastTs → s.bc = P.maxBack → next P s (r :: tl) = (.errBack, s, tl)) ∧
    (∀ r' rest, r ≤ P.maxTime → r = s.lastTs → s.seq = P.maxSeq → waitNext r tl = some (r', rest) →
      P.maxTime < r' → next P s (r :: tl) = (.errTime, s, rest)) := by
  obtain ⟨hI, -⟩ := reachable_inv P hv hr
  have hp := next_path P s r tl
  refine ⟨?_, ?_, ?_⟩
  · intro h
    generalize next P s (r :: tl) = res at hp
    cases hp with
    | beyond => rfl
    | _ => omega
  · intro h1 h2 h3
    generalize next P s (r :: tl) = res at hp
    cases hp with
    | fourth => rfl
    | _ => omega
  · intro r' rest h1 h2 h3 h4 h5
    generalize next P s (r :: tl) = res at hp
    cases hp with
    | waitBeyond r'' rest'' _ _ _ h4' _ =>
      rw [h4] at h4'; simp only [Option.some.injEq, Prod.mk.injEq] at h4'
      obtain ⟨rfl, rfl⟩ := h4'
      have : ({ s with seq := P.maxSeq } : St) = s := by cases s; simp_all
      rw [this]
    | waited r'' rest'' _ _ _ h4' h5' =>
      rw [h4] at h4'; simp only [Option.some.injEq, Prod.mk.injEq] at h4'
      obtain ⟨rfl, rfl⟩ := h4'; omega
    | starve _ _ _ h4' => rw [h4] at h4'; cases h4'
    | _ => omega

/-- The persistence half of C09_errors(2): once the fourth rollback is refused, every call whose
first reading is still behind the last time used is refused as well, over any number of calls. -/
theorem C09_errors_persist (P : Params) (hv : Valid P) {m : Nat} {s : St} (hr : Reachable P m s)
    (hb : s.bc = P.maxBack) (calls : List (List Nat))
    (hc : ∀ c ∈ calls, ∃ r tl, c = r :: tl ∧ r ≤ P.maxTime ∧ r < s.lastTs) :
    ∀ o ∈ run P s calls, o = .errBack := by
  induction calls with
  | nil => simp [run]
  | cons c cs ih =>
    obtain ⟨r, tl, rfl, h1, h2⟩ := hc _ (List.mem_cons_self)
    have hn := (C09_errors P hv hr r tl).2.1 h1 h2 hb
    intro o ho
    simp only [run, hn, List.mem_cons] at ho
    rcases ho with rfl | ho
    · rfl
    · exact ih (fun c hc' => hc c (List.mem_cons_of_mem _ hc')) o ho

/-- Generation does not fail spuriously: if every reading shown to the call is inside the time
range and the call is not the fourth (or later) backward jump, it returns an id.  (`s.bc` is the
number of backward jumps so far — C09_fields.)  In particular the final guard `ErrUUIDIntOverflow`
is unreachable for such clocks. -/
theorem C09_no_spurious (P : Params) (hv : Valid P) {m : Nat} {s : St} (hr : Reachable P m s)
    {clock : List Nat} {o : Out} {s' : St} {rest : List Nat} (h : next P s clock = (o, s', rest))
    (hne : o ≠ .starved) (hrange : ∀ x ∈ clock, x ≤ P.maxTime)
    (hback : ∀ r tl, clock = r :: tl → r < s.lastTs → s.bc < P.maxBack) :
    ∃ id, o = .ok id := by
  obtain ⟨hI, -⟩ := reachable_inv P hv hr
  obtain ⟨r, tl, hc, hd⟩ := next_inv P hv hI h hne
  cases hd with
  | ok => exact ⟨_, rfl⟩
  | errTime rest hwhy =>
    rcases hwhy with ⟨h1, -⟩ | ⟨-, -, r', hw, h1⟩
    · have := hrange r (by rw [hc]; exact List.mem_cons_self); omega
    · obtain ⟨-, pre, hpre, -⟩ := waitNext_some hw
      have := hrange r' (by rw [hc, hpre]; simp); omega
  | errBack h1 h2 h3 => have := hback _ _ hc h2; omega

/-- A call only keeps waiting (`starved`) while the clock has not passed the unit whose sequence is
exhausted: no reading it was shown is later than the last time used. -/
theorem C09_waits_only_for_clock (P : Params) (hv : Valid P) {m : Nat} {s : St} (hr : Reachable P m s)
    {clock : List Nat} {s' : St} {rest : List Nat} (h : next P s clock = (.starved, s', rest)) :
    ∀ x ∈ clock, x ≤ s.lastTs := by
  obtain ⟨hI, -⟩ := reachable_inv P hv hr
  cases clock with
  | nil => simp
  | cons r tl =>
    rcases next_done P hv hI r tl with ⟨o1, s1, rest1, h1, hd⟩ | ⟨-, h2, -, h4, -⟩
    · rw [h1] at h; simp only [Prod.mk.injEq] at h
      obtain ⟨rfl, -, -⟩ := h; cases hd
    · intro x hx
      rcases List.mem_cons.mp hx with rfl | hx
      · omega
      · have := waitNext_none h4 x hx; omega

/-! ### non-vacuity

Single trajectories at the regenerated constants (tests, not proofs; the states and their step
equations are in Lemmas/C09.lean, section "example trajectories"): they show that the hypotheses of
the theorems above are met by non-trivial states. -/

/-- a generator with machine id 0x4001 ≥ 2^14 after one id and a backward jump of the clock -/
example : Reachable params 0x4001 Ex.s2 := Ex.reach2

/-- C09_fields and C09_no_spurious apply to the rollback step -/
example : (2 ^ 61 + 700 * 2 ^ 24 + 1 * 2 ^ 10) >>> params.shiftBc = 1 :=
  (C09_fields params C09_valid Ex.reach1 Ex.step2).1.1
example : ∃ id, Out.ok (2 ^ 61 + 700 * 2 ^ 24 + 1 * 2 ^ 10) = .ok id :=
  C09_no_spurious params C09_valid Ex.reach1 Ex.step2 (by simp) (by decide)
    (fun r tl h _ => by cases h; decide)

/-- C09_machines: machine ids 0x4001 and 0x4002 under the same clock -/
example : (12717130753 : Nat) ≠ 12717131777 :=
  C09_machines params C09_valid (m₁ := 0x4001) (m₂ := 0x4002) (by decide) (.new 758) (.new 758) Ex.step1 Ex.step1'

/-- C09_errors (2) and C09_errors_persist: a state with all three rollbacks used, reached from `new` -/
example : Reachable params 7 Ex.b3 ∧ Ex.b3.bc = params.maxBack ∧ next params Ex.b3 [20] = (.errBack, Ex.b3, []) :=
  ⟨Ex.reachB3, by decide, (C09_errors params C09_valid Ex.reachB3 20 []).2.1 (by decide) (by decide) (by decide)⟩

/-- C09_errors (1) and (3) on the last supported unit with the sequence used up (a state satisfying
the invariant; reaching it takes 1024 calls and is exercised by the harness) -/
example : Inv params Ex.full := by decide
example : next params Ex.full [137438953472] = (.errTime, Ex.full, []) := by decide
example : next params Ex.full [137438953471, 137438953471, 137438953472] = (.errTime, Ex.full, []) := by decide

/-! ### The translated source (Gen/C09.lean, `namespace Tr`, rewritten from snowflake.go on every run) equals the model.
`Tr.uuid` is the expression `Next` assigns to `sf.lastID` (single-definition locals inlined) as a function of
`sf.machineID`, `sf.seq`, `sf.backwardsCount` and the local `currentTs`, over int64 = `BitVec 64` with Go's wrap-around;
`Tr.machineID` is what `NewSnowflake` stores in the machineID field. For all inputs in the range the model states. -/
section Translated
open Fatchoy.Gen.C09
set_option linter.unusedSimpArgs false

/-- the translated id expression is the model's `assemble` (no bit is lost in the 64-bit word) -/
theorem C09_tr_uuid (mid seq bc ts : BitVec 64)
    (hbc : bc.toNat ≤ params.maxBack) (hts : ts.toNat ≤ params.maxTime) (hmid : mid.toNat ≤ params.midMask) :
    (Tr.uuid mid seq bc ts).toNat = assemble params bc.toNat ts.toNat mid.toNat seq.toNat := by
  simp [params, maxBack, maxTime, midMask] at hbc hts hmid
  simp (disch := omega) [Tr.uuid, assemble, params, shiftBc, shiftTs, shiftMid, Nat.shiftLeft_eq, Nat.mod_eq_of_lt] <;> ac_rfl

/-- … and as the signed int64 Go returns it is the same non-negative number (the model's `Nat` ids are faithful) -/
theorem C09_tr_uuid_int (mid seq bc ts : BitVec 64)
    (hbc : bc.toNat ≤ params.maxBack) (hts : ts.toNat ≤ params.maxTime) (hmid : mid.toNat ≤ params.midMask)
    (hseq : seq.toNat ≤ params.maxSeq) :
    (Tr.uuid mid seq bc ts).toInt = (assemble params bc.toNat ts.toNat mid.toNat seq.toNat : Nat) := by
  have h := C09_tr_uuid mid seq bc ts hbc hts hmid
  have hlt : assemble params bc.toNat ts.toNat mid.toNat seq.toNat < 2 ^ 63 := by
    simp [params, maxBack, maxTime, midMask, maxSeq] at hbc hts hmid hseq
    simp only [assemble, params, shiftBc, shiftTs, shiftMid, Nat.shiftLeft_eq]
    exact Nat.or_lt_two_pow (Nat.or_lt_two_pow (Nat.or_lt_two_pow (by omega) (by omega)) (by omega)) (by omega)
  rw [BitVec.toInt_eq_toNat_of_lt (by omega), h]

/-- the translated machine-id expression of `NewSnowflake` is the model's masking, for every uint16 -/
theorem C09_tr_machineID (m : BitVec 16) : (Tr.machineID m).toNat = (new params m.toNat 0).mid := by
  have := m.isLt
  simp (disch := omega) [Tr.machineID, new, params, midMask, Nat.mod_eq_of_lt] <;> ac_rfl

/-- non-vacuity: the range hypotheses hold at the largest admitted values of all four inputs -/
example : (Tr.uuid 16383#64 1023#64 3#64 137438953471#64).toInt =
    (assemble params 3 137438953471 16383 1023 : Nat) :=
  C09_tr_uuid_int _ _ _ _ (by decide) (by decide) (by decide) (by decide)
/-- test (one sample, not a proof): a machine id above the mask is cut to 14 bits -/
example : Tr.machineID 0xC001#16 = 1#64 := by decide

end Translated

end Fatchoy.C09
