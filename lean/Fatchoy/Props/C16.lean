/-
C16 — packet ciphers invert exactly at every length and interoperate with standard CFB.
Property theorems only.  Reading guide:
  * Model/C16.lean      the in-place machine that interprets the statements of block.go's unrolled
                        functions (`encrypt`, `decrypt`: dispatch on the block size, then `run`), the
                        cryptor `session` (scratch buffer carried from packet to packet), salsa20/none;
  * Model/C16Flat.lean  the same machine written the obvious way (one flat buffer, `data[base+off]`);
                        `C16_flat_buffer` below says the two agree on every program;
  * Model/C16Spec.lean  textbook CFB (`cfbEnc`, `cfbDec`), `BlockFn`, `Supported`, the unrolled shape
                        (`canonEnc`, `canonDec`) and the side-conditions `ValidCore/Factory/Stream`;
  * Gen/C16.lean        the statements, dispatch tables, caller shapes and factory table re-extracted
                        from /repo/x/cipher on every run (`params`).
`E` is an arbitrary block function (AES, 3DES, SM4, Twofish, XTEA are not modelled), the Salsa20
keystream an arbitrary function of the position.
-/
import Fatchoy.Lemmas.C16
import Fatchoy.Lemmas.C16Flat
namespace Fatchoy.C16

/-- the regenerated facts satisfy the side-conditions the proofs need: every function reachable from
  the dispatchers is an unrolled CFB of its block size (any stride; even for decryption), callers work
  in place with scratch arrays of one / two blocks -/
theorem C16_valid_core : ValidCore params := by decide
/-- every clause of `NewCrypt` hands its constructor a key length it accepts; names are distinct;
  the last clause is the default -/
theorem C16_valid_factory : ValidFactory params := by decide
theorem C16_valid_stream : ValidStream params := by decide
/-- the block sizes of the five block ciphers of the package are dispatched -/
theorem C16_supported : Supported params 8 ∧ Supported params 16 := by decide

/-- The hand-unrolled code IS textbook CFB keyed with the first block of the IV: for every block
  function, every IV of at least one block (longer IVs: the first block counts), every content of the
  scratch buffer and every packet of ANY length — strides, tail blocks and the byte-wise remainder
  included — `encrypt`/`decrypt` return exactly `cfbEnc`/`cfbDec` and never panic. -/
theorem C16_unrolled_is_cfb (P : Params) (hv : ValidCore P) (bs : Nat) (hbs : Supported P bs)
    (E : Bytes → Bytes) (hE : BlockFn E bs) (iv buf m : Bytes) (hiv : bs ≤ iv.length) :
    (bs ≤ buf.length →
      ∃ buf', encrypt P E bs iv buf m = some (cfbEnc E bs (iv.take bs) m, buf') ∧ buf'.length = buf.length) ∧
    (2 * bs ≤ buf.length →
      ∃ buf', decrypt P E bs iv buf m = some (cfbDec E bs (iv.take bs) m, buf') ∧ buf'.length = buf.length) := by
  constructor
  · intro hb
    obtain ⟨S, ph, hd, h0, hS⟩ := valid_enc P hv bs hbs
    unfold encrypt; rw [hd]
    exact run_canonEnc bs S ph h0 hS E hE iv buf m hiv hb
  · intro hb
    obtain ⟨S, ph, hd, h0, hS, hS2⟩ := valid_dec P hv bs hbs
    unfold decrypt; rw [hd]
    exact run_canonDec bs S ph h0 hS hS2 E hE iv buf m hiv hb

/-- The machine of Model/C16.lean (bytes below `base` set aside, for speed) IS the in-place machine
  on one flat packet buffer addressed as `data[base + off]` (Model/C16Flat.lean): same packet, same
  scratch buffer, same panics — for every program, valid or not, hence also for a program with a
  swapped, dropped or duplicated line.  Everything below therefore holds of the flat machine too. -/
theorem C16_flat_buffer (P : Params) (E : Bytes → Bytes) (bs : Nat) (iv buf m : Bytes) :
    encryptF P E bs iv buf m = encrypt P E bs iv buf m ∧ decryptF P E bs iv buf m = decrypt P E bs iv buf m := by
  unfold encryptF encrypt decryptF decrypt
  constructor
  · cases dispatch P.enc bs with
    | none => rfl
    | some p => exact run_flat p E bs iv buf m
  · cases dispatch P.dec bs with
    | none => rfl
    | some p => exact run_flat p E bs iv buf m

/-- the statement for the code as it is now: block sizes 8 and 16 -/
theorem C16_unrolled_is_cfb_8_16 (N : Nat) (hN : N = 8 ∨ N = 16) (E : Bytes → Bytes) (hE : BlockFn E N)
    (iv buf m : Bytes) (hiv : N ≤ iv.length) (hbuf : 2 * N ≤ buf.length) :
    (∃ buf', encrypt params E N iv buf m = some (cfbEnc E N (iv.take N) m, buf')) ∧
    (∃ buf', decrypt params E N iv buf m = some (cfbDec E N (iv.take N) m, buf')) := by
  have hs : Supported params N := by rcases hN with rfl | rfl; exact C16_supported.1; exact C16_supported.2
  obtain ⟨h1, h2⟩ := C16_unrolled_is_cfb params C16_valid_core N hs E hE iv buf m hiv
  obtain ⟨b1, hb1, _⟩ := h1 (by omega)
  obtain ⟨b2, hb2, _⟩ := h2 hbuf
  exact ⟨⟨b1, hb1⟩, ⟨b2, hb2⟩⟩

/-- CFB decryption inverts CFB encryption at every length, and the length is unchanged.  `E` need
  not be invertible (CFB only ever uses the forward direction). -/
theorem C16_inverse (E : Bytes → Bytes) (N : Nat) (hN : 0 < N) (hE : BlockFn E N) (iv m : Bytes)
    (hiv : iv.length = N) :
    cfbDec E N iv (cfbEnc E N iv m) = m ∧ (cfbEnc E N iv m).length = m.length := by
  rw [cfbEnc_eq_K, cfbDec_eq_K]
  exact ⟨cfbDecK_cfbEncK E N hN hE _ m (hE iv hiv), length_cfbEncK E N hN hE _ m (hE iv hiv)⟩

/-- Every packet is processed independently of the ones before it.  A sending instance whose
  scratch buffer starts with arbitrary stale bytes `bufS` encrypts `msgs` one after the other: each
  ciphertext is `cfbEnc` of its own plaintext — a function of (E, IV, packet) only.  A receiving
  instance with arbitrary stale scratch bytes `bufR` then decrypts ANY selection `sel` of those
  ciphertexts (any order, with losses, with repetitions) and obtains exactly the corresponding
  plaintexts. -/
theorem C16_stateless (P : Params) (hv : ValidCore P) (bs : Nat) (hbs : Supported P bs)
    (E : Bytes → Bytes) (hE : BlockFn E bs) (iv : Bytes) (hiv : bs ≤ iv.length)
    (bufS bufR : Bytes) (hS : bs ≤ bufS.length) (hR : 2 * bs ≤ bufR.length)
    (msgs : List Bytes) (sel : List Nat) :
    ∃ cts, session (encrypt P E bs iv) bufS msgs = some cts ∧
      cts = msgs.map (cfbEnc E bs (iv.take bs)) ∧
      session (decrypt P E bs iv) bufR (sel.filterMap (cts[·]?)) = some (sel.filterMap (msgs[·]?)) := by
  obtain ⟨_, _, _, h0, _⟩ := valid_enc P hv bs hbs
  refine ⟨_, session_map _ _ bs (fun buf m hb => (C16_unrolled_is_cfb P hv bs hbs E hE iv buf m hiv).1 hb) msgs bufS hS,
    rfl, ?_⟩
  rw [session_map _ _ (2 * bs) (fun buf m hb => (C16_unrolled_is_cfb P hv bs hbs E hE iv buf m hiv).2 hb) _ bufR hR]
  congr 1
  exact select_inverse _ _ (fun m => (C16_inverse E bs h0 hE (iv.take bs) m (by simp; omega)).1) msgs sel

/-- salsa20 / none: decrypting an encrypted packet returns it, lengths are unchanged; the cryptors
  keep no state between packets (the keystream restarts at position 0 for every packet and depends
  on key and nonce only) -/
theorem C16_stream (P : Params) (hv : ValidStream P) (ks : Nat → UInt8) (m : Bytes) :
    salsaDecrypt P ks (salsaEncrypt ks m) = some m ∧ (salsaEncrypt ks m).length = m.length ∧
    noneCrypt P m = some m := by
  obtain ⟨h1, _, _, _, h5⟩ := hv
  refine ⟨?_, length_streamXor ks m, by simp [noneCrypt, h5]⟩
  simp [salsaDecrypt, salsaEncrypt, h1, streamXor_streamXor]

/-- the error branches: an unsupported block size, an IV shorter than a block and a scratch buffer
  shorter than the registers all panic (in Go: `panic("unsupported cipher block size")`, the block's
  "input not full block", a slice bound) — they never return wrong bytes -/
theorem C16_panics (P : Params) (hv : ValidCore P) (E : Bytes → Bytes) (bs : Nat) (iv buf m : Bytes) :
    (¬ Supported P bs → encrypt P E bs iv buf m = none ∧ decrypt P E bs iv buf m = none) ∧
    (Supported P bs → iv.length < bs → encrypt P E bs iv buf m = none ∧ decrypt P E bs iv buf m = none) ∧
    (Supported P bs → buf.length < bs → encrypt P E bs iv buf m = none) ∧
    (Supported P bs → buf.length < 2 * bs → decrypt P E bs iv buf m = none) := by
  refine ⟨fun h => ?_, fun h hiv => ?_, fun h hb => ?_, fun h hb => ?_⟩
  · have h' : bs ∉ P.dec.map (·.1) := by rw [← hv.2.2.1]; exact h
    simp [encrypt, decrypt, dispatch_none _ _ h, dispatch_none _ _ h']
  · obtain ⟨S, ph, hd, _⟩ := valid_enc P hv bs h
    obtain ⟨S', ph', hd', _⟩ := valid_dec P hv bs h
    simp only [encrypt, decrypt, hd, hd']
    exact ⟨run_short_iv _ E bs iv buf m _ [] rfl hiv, run_short_iv _ E bs iv buf m _ [] rfl hiv⟩
  · obtain ⟨S, ph, hd, _⟩ := valid_enc P hv bs h
    simp only [encrypt, hd]
    exact run_short_buf _ E bs iv buf m (Or.inl hb)
  · obtain ⟨S, ph, hd, _⟩ := valid_dec P hv bs h
    simp only [decrypt, hd]
    exact run_short_buf _ E bs iv buf m (Or.inr hb)

/-! ### non-vacuity -/

/-- the toy block function of the correspondence run is a block function (and not injective: the
  theorems do not need more) -/
example : BlockFn (toyE [1, 2, 3]) 8 ∧ BlockFn (toyE [9]) 16 := by
  constructor <;> intro x hx <;> simp [toyE, hx]

/-- the hypotheses of `C16_unrolled_is_cfb` / `C16_stateless` are met by the regenerated parameters,
  a 16-byte block function, a 20-byte IV (longer than a block), stale scratch bytes, a packet sequence
  with lengths 0, 3 and 40 and the selection "third, first, third again" -/
example : ∃ cts, session (encrypt params (toyE [9]) 16 (List.replicate 20 7)) (List.replicate 16 0xAA)
      [[], [1, 2, 3], List.replicate 40 5] = some cts ∧
    cts = [[], [1, 2, 3], List.replicate 40 5].map (cfbEnc (toyE [9]) 16 ((List.replicate 20 7).take 16)) ∧
    session (decrypt params (toyE [9]) 16 (List.replicate 20 7)) (List.replicate 32 0x55)
      ([2, 0, 2].filterMap (cts[·]?)) = some ([2, 0, 2].filterMap ([[], [1, 2, 3], List.replicate 40 5][·]?)) :=
  C16_stateless params C16_valid_core 16 C16_supported.2 (toyE [9])
    (by intro x hx; simp [toyE, hx]) (List.replicate 20 7) (by simp) (List.replicate 16 0xAA) (List.replicate 32 0x55)
    (by simp) (by simp) _ _

/-- `C16_panics` is about real outcomes: block size 12 is not dispatched -/
example : ¬ Supported params 12 := by decide

end Fatchoy.C16
