/-
C18 — the pool executor runs every accepted task exactly once and survives failing tasks.
Property theorems only.  The model (Model/C18.lean) is a labelled transition system written from
sched/executor_threadpool.go: any number of Execute calls (call i submits task i), any number of
workers, any capacity, one Shutdown call, tasks ending ok / error / panic.  `Reach P s` = s is
reachable from a fresh executor by SOME action sequence, so a theorem about all `Reach`-able states
is a theorem about every schedule.  Invariants and helper lemmas: Lemmas/C18.lean.
`accepted` = tasks whose send completed (exactly the calls that return nil, see `C18_accepted_iff`),
`started` / `finished` = tasks in the order a worker took them / their Run ended.
Liveness: `C18_no_stuck` + `C18_progress` (a measure that EVERY action decreases; definitions in Lemmas/C18Live.lean)
+ `C18_shutdown_drains`; assumed: an enabled action of a goroutine is eventually taken, task bodies return.
Not covered (see conf/C18.json): a Shutdown that finds the executor not running.
-/
import Fatchoy.Lemmas.C18Live
namespace Fatchoy.C18

/-- the regenerated facts satisfy the side-conditions: distinct state words, per-task recover, ≥ 1 worker -/
theorem C18_valid : Valid params := by decide

/-- a task is in `accepted` exactly when its Execute call is past its send (it returns nil, and only then) -/
theorem C18_accepted_iff (P : Params) (hv : Valid P) {s : St} (hr : Reach P s) (i : Nat) :
    i ∈ s.accepted ↔ (s.subs[i]? = some .unlockOk ∨ s.subs[i]? = some .retOk) := by
  have h := (reach_inv P hv hr).T.acceptedCount i
  rw [← List.count_pos_iff, h, accAt]
  split <;> simp_all

/-- every accepted task is started exactly once — never twice under any schedule, only accepted
tasks are started, and when Shutdown has returned every accepted task has been started and has finished,
each exactly once -/
theorem C18_once (P : Params) (hv : Valid P) {s : St} (hr : Reach P s) :
    (∀ t, s.accepted.count t ≤ 1) ∧ (∀ t, s.started.count t ≤ 1) ∧ (∀ t, s.finished.count t ≤ s.started.count t) ∧
    (∀ t ∈ s.started, t ∈ s.accepted) ∧
    (s.closer = .ret true → ∀ t ∈ s.accepted, s.started.count t = 1 ∧ s.finished.count t = 1) := by
  have h := reach_inv P hv hr
  have hacc : ∀ t, s.accepted.count t ≤ 1 := by
    intro t; rw [h.T.acceptedCount t, accAt]; split <;> omega
  have hsa : ∀ t, s.started.count t ≤ s.accepted.count t := by
    intro t; rw [← h.T.fifo, List.count_append]; omega
  refine ⟨hacc, fun t => Nat.le_trans (hsa t) (hacc t), fun t => by rw [h.T.startedCount t]; omega, ?_, ?_⟩
  · intro t ht; rw [← h.T.fifo]; exact List.mem_append_left _ ht
  · intro hq t ht
    have hqe := (h.W.afterWait (by rw [hq]; rfl))
    have hf := h.T.fifo
    rw [hqe.2, List.append_nil] at hf
    have h0 : s.workers.countP WPC.alive = 0 := by rw [← h.W.wgEq]; exact hqe.1
    have hruns : runs s.workers t = 0 := by
      apply List.countP_eq_zero.mpr
      intro w hw
      have := List.countP_eq_zero.mp h0 w hw
      cases w <;> simp [WPC.alive, WPC.task?] at this ⊢
    have hc := h.T.startedCount t
    rw [hruns, hf] at hc
    have : 0 < s.accepted.count t := List.count_pos_iff.mpr ht
    have := hacc t
    rw [hf]
    omega

/-- tasks are started in the order they were accepted (any number of workers) -/
theorem C18_fifo (P : Params) (hv : Valid P) {s : St} (hr : Reach P s) : s.started ++ s.queue = s.accepted :=
  (reach_inv P hv hr).T.fifo

/-- one worker: tasks run one at a time, in submission order -/
theorem C18_fifo_1 (P : Params) (hv : Valid P) {s : St} (hr : Reach P s) (h1 : s.n = 1) :
    ∃ r, r.length ≤ 1 ∧ s.started = s.finished ++ r ∧ s.started ++ s.queue = s.accepted := by
  have h := reach_inv P hv hr
  refine ⟨running s.workers, ?_, h.F.serial h1, h.T.fifo⟩
  have := h.A.lenLe
  have := List.length_filterMap_le WPC.task? s.workers
  unfold running; omega

/-- a task that ends in error or panic leaves its worker in the loop: the worker goes back to its select
(main or draining), and if the queue is not empty it can take the next task at once; and no worker is ever
killed (`dead`) or handed the zero value of the closed queue (`nilrun`) -/
theorem C18_survive (P : Params) (hv : Valid P) {s s' : St} (hr : Reach P s) (w t : Nat) (k : Kind)
    (hs : step P s (.finish w k) = some s') :
    (s.workers[w]? = some (.run t) → s'.workers[w]? = some .idle) ∧
    (s.workers[w]? = some (.drun t) → s'.workers[w]? = some .drain) ∧
    (s'.queue ≠ [] → ∃ s'', step P s' (.take w) = some s'') ∧
    (∀ x ∈ s'.workers, x ≠ .dead ∧ x ≠ .nilrun) := by
  have hsv : (k != Kind.panic || P.recovers) = true := by rw [hv.2.1]; simp
  have hbad := (reach_inv P hv (Reach.step _ hr hs)).W.noBad
  have hnb : ∀ x ∈ s'.workers, x ≠ .dead ∧ x ≠ .nilrun := by
    intro x hx; have := hbad x hx; cases x <;> simp [WPC.bad] at this ⊢
  simp only [step, stepFinish, hsv, if_true] at hs
  split at hs
  case h_3 => cases hs
  all_goals
    rename_i t' hw
    injection hs with hs; subst hs
    refine ⟨?_, ?_, ?_, hnb⟩
    · intro h'; rw [hw] at h'
      first | (cases h'; done) | exact getElem?_set_self' hw
    · intro h'; rw [hw] at h'
      first | (cases h'; done) | exact getElem?_set_self' hw
    · intro hq
      simp only [step, stepTake, setWrk] at hq ⊢
      first
        | (rw [getElem?_set_self' (b := WPC.idle) hw]
           cases hqq : s.queue with
           | nil => exact absurd hqq hq
           | cons a q => exact ⟨_, rfl⟩)
        | (rw [getElem?_set_self' (b := WPC.drain) hw]
           cases hqq : s.queue with
           | nil => exact absurd hqq hq
           | cons a q => exact ⟨_, rfl⟩)

/-- once Shutdown has returned: the state is Terminated, every worker has exited, all `n` of them, the queue
is empty, no task is running — and whatever happens afterwards (any further schedule, including new Execute
calls) no task is started, finished or accepted any more -/
theorem C18_shutdown (P : Params) (hv : Valid P) {s : St} (hr : Reach P s) (hq : s.closer = .ret true) :
    s.st = .terminated ∧ s.workers.length = s.n ∧ (∀ w ∈ s.workers, w = .exited) ∧ running s.workers = [] ∧
    s.queue = [] ∧
    ∀ s', Steps P s s' → s'.started = s.started ∧ s'.finished = s.finished ∧ s'.accepted = s.accepted ∧
      s'.workers = s.workers := by
  have h := reach_inv P hv hr
  have hterm := h.A.phasePost hq
  have hqe := h.W.afterWait (by rw [hq]; rfl)
  have h0 : s.workers.countP WPC.alive = 0 := by rw [← h.W.wgEq]; exact hqe.1
  have hall : ∀ w ∈ s.workers, w = .exited := by
    intro w hw
    have := List.countP_eq_zero.mp h0 w hw
    cases w <;> simp [WPC.alive] at this ⊢
  refine ⟨hterm, h.A.fullLen (Or.inr (Or.inr hterm)), hall, ?_, hqe.2, ?_⟩
  · unfold running
    apply List.filterMap_eq_nil_iff.mpr
    intro w hw; rw [hall w hw]; rfl
  · intro s' hs'
    exact (quiet_steps P hv h hq hs').2

/-- no panic site is reachable: no Execute call sends on the closed queue, Shutdown never closes a closed
channel, no worker dies or receives from the closed queue -/
theorem C18_no_panic (P : Params) (hv : Valid P) {s : St} (hr : Reach P s) :
    (∀ pc ∈ s.subs, pc ≠ .panicked) ∧ s.closer ≠ .panicked ∧ (∀ w ∈ s.workers, w ≠ .dead ∧ w ≠ .nilrun) := by
  have h := reach_inv P hv hr
  refine ⟨h.A.subNoPanic, h.A.notPanicked, ?_⟩
  intro x hx; have := h.W.noBad x hx; cases x <;> simp [WPC.bad] at this ⊢

/-- a call that is refused (returns ErrExecutorNotRunning) or is still under way is not in `accepted`, hence
(by `C18_once`) its task is never started -/
theorem C18_refused_not_run (P : Params) (hv : Valid P) {s : St} (hr : Reach P s) (i : Nat)
    (hi : s.subs[i]? = some .retErr) : i ∉ s.accepted ∧ i ∉ s.started := by
  have hacc := (C18_accepted_iff P hv hr i)
  have hn : i ∉ s.accepted := by rw [hacc, hi]; simp
  exact ⟨hn, fun h' => hn ((C18_once P hv hr).2.2.2.1 i h')⟩

/-- Submitting to a running executor returns as soon as the queue has room: from any reachable state in which
the executor is running, Shutdown does not hold the write lock and the queue has room, a fresh Execute call
runs to its `return nil` by its own five steps alone (load, RLock, check, send, RUnlock) — no other wait on
the path — and its task is then queued behind the tasks accepted before -/
theorem C18_accept_returns (P : Params) (hv : Valid P) {s : St} (hr : Reach P s) (i : Nat)
    (hrun : s.st = .running) (hlock : s.closer.holds = false) (hroom : s.queue.length < s.cap)
    (hi : s.subs[i]? = some .idle) :
    ∃ s', runActs P s [.sub i, .sub i, .sub i, .sub i, .sub i] = some s' ∧ s'.subs[i]? = some .retOk ∧
      s'.queue = s.queue ++ [i] ∧ s'.accepted = s.accepted ++ [i] := by
  have h := reach_inv P hv hr
  have hqc : s.qClosed = false := by
    rw [h.A.qClosedEq]
    have h1 := h.A.phaseMid; have h3 := h.A.phasePost
    rw [hrun] at h1 h3
    cases hc : s.closer <;> rw [hc] at h1 h3 <;> simp [CPC.queueClosed, CPC.mid] at h1 h3 ⊢
    rename_i b; cases b <;> simp_all
  have e1 : step P s (.sub i) = some (setSub s i .rlock) := by simp [step, stepSub, hi, hrun]
  have i1 : (setSub s i .rlock).subs[i]? = some .rlock := getElem?_set_self' hi
  have e2 : step P (setSub s i .rlock) (.sub i) = some (setSub (setSub s i .rlock) i .check) := by
    simp only [step, stepSub, i1]; simp [setSub, hlock]
  have i2 : (setSub (setSub s i .rlock) i .check).subs[i]? = some .check := getElem?_set_self' i1
  have e3 : step P (setSub (setSub s i .rlock) i .check) (.sub i) = some (setSub (setSub (setSub s i .rlock) i .check) i .send) := by
    simp only [step, stepSub, i2]; simp [setSub, hrun]
  have i3 : (setSub (setSub (setSub s i .rlock) i .check) i .send).subs[i]? = some .send := getElem?_set_self' i2
  have e4 : step P (setSub (setSub (setSub s i .rlock) i .check) i .send) (.sub i) =
      some (setSub { (setSub (setSub (setSub s i .rlock) i .check) i .send) with
        queue := s.queue ++ [i], accepted := s.accepted ++ [i] } i .unlockOk) := by
    simp only [step, stepSub, i3]; simp [setSub, hqc, hroom]
  have i4 : (setSub { (setSub (setSub (setSub s i .rlock) i .check) i .send) with
        queue := s.queue ++ [i], accepted := s.accepted ++ [i] } i .unlockOk).subs[i]? = some .unlockOk :=
    getElem?_set_self' (l := (setSub (setSub (setSub s i .rlock) i .check) i .send).subs) i3
  refine ⟨setSub (setSub { (setSub (setSub (setSub s i .rlock) i .check) i .send) with
        queue := s.queue ++ [i], accepted := s.accepted ++ [i] } i .unlockOk) i .retOk, ?_, ?_, rfl, rfl⟩
  · simp only [runActs, e1, e2, e3, e4]
    simp only [step, stepSub, i4]
  · exact getElem?_set_self' i4

/-- the same with an unbuffered (or empty) queue: an idle worker is enough — the send is a rendezvous -/
theorem C18_accept_returns_rendezvous (P : Params) (hv : Valid P) {s : St} (hr : Reach P s) (i w : Nat)
    (hrun : s.st = .running) (hlock : s.closer.holds = false) (hq : s.queue = []) (hw : s.workers[w]? = some .idle)
    (hi : s.subs[i]? = some .idle) :
    ∃ s', runActs P s [.sub i, .sub i, .sub i, .handoff i w, .sub i] = some s' ∧ s'.subs[i]? = some .retOk ∧
      s'.workers[w]? = some (.run i) ∧ s'.accepted = s.accepted ++ [i] ∧ s'.started = s.started ++ [i] := by
  have h := reach_inv P hv hr
  have hqc : s.qClosed = false := by
    rw [h.A.qClosedEq]
    have h1 := h.A.phaseMid; have h3 := h.A.phasePost
    rw [hrun] at h1 h3
    cases hc : s.closer <;> rw [hc] at h1 h3 <;> simp [CPC.queueClosed, CPC.mid] at h1 h3 ⊢
    rename_i b; cases b <;> simp_all
  have e1 : step P s (.sub i) = some (setSub s i .rlock) := by simp [step, stepSub, hi, hrun]
  have i1 : (setSub s i .rlock).subs[i]? = some .rlock := getElem?_set_self' hi
  have e2 : step P (setSub s i .rlock) (.sub i) = some (setSub (setSub s i .rlock) i .check) := by
    simp only [step, stepSub, i1]; simp [setSub, hlock]
  have i2 : (setSub (setSub s i .rlock) i .check).subs[i]? = some .check := getElem?_set_self' i1
  have e3 : step P (setSub (setSub s i .rlock) i .check) (.sub i) = some (setSub (setSub (setSub s i .rlock) i .check) i .send) := by
    simp only [step, stepSub, i2]; simp [setSub, hrun]
  have i3 : (setSub (setSub (setSub s i .rlock) i .check) i .send).subs[i]? = some .send := getElem?_set_self' i2
  have w3 : (setSub (setSub (setSub s i .rlock) i .check) i .send).workers[w]? = some .idle := hw
  have e4 : step P (setSub (setSub (setSub s i .rlock) i .check) i .send) (.handoff i w) =
      some (setWrk (setSub { (setSub (setSub (setSub s i .rlock) i .check) i .send) with
        accepted := s.accepted ++ [i], started := s.started ++ [i] } i .unlockOk) w (.run i)) := by
    simp only [step, stepHandoff, i3, w3]; simp [setSub, hqc, hq]
  have i4 : (setWrk (setSub { (setSub (setSub (setSub s i .rlock) i .check) i .send) with
        accepted := s.accepted ++ [i], started := s.started ++ [i] } i .unlockOk) w (.run i)).subs[i]? = some .unlockOk :=
    getElem?_set_self' (l := (setSub (setSub (setSub s i .rlock) i .check) i .send).subs) i3
  refine ⟨setSub (setWrk (setSub { (setSub (setSub (setSub s i .rlock) i .check) i .send) with
        accepted := s.accepted ++ [i], started := s.started ++ [i] } i .unlockOk) w (.run i)) i .retOk, ?_, ?_, ?_, rfl, rfl⟩
  · simp only [runActs, e1, e2, e3, e4]
    simp only [step, stepSub, i4]
  · exact getElem?_set_self' i4
  · exact getElem?_set_self' (l := s.workers) hw

/-! ### liveness (Lemmas/C18Live.lean: `mu`, `Act.internal`, `Unfinished`, `TaskRunning`, `Quiescent`) -/

/-- no stuck state, under every schedule: in every reachable state in which something is left to do that is not
purely the environment's — an Execute call that has begun and not returned (in `start()`, spinning, at `RLock`, at
its check, blocked in its send, at `RUnlock`), a worker before its `ready <-` or draining, an idle worker although
`done` is closed, a task in the queue, a Shutdown call under way (`called = true`: including one that waits in
`guard.Lock()`) — some action of the executor's own goroutines is enabled, or a worker is inside a task body (then
the task, i.e. the environment, has a move: `finish`).  "Internal" excludes: a new Execute call beginning, `finish`,
Shutdown being called, and — because Go's RWMutex prefers a waiting writer — an `RLock` while Shutdown waits for the
lock; so the witness is a step the real primitives allow too. -/
theorem C18_no_stuck (P : Params) (hv : Valid P) (called : Bool) {s : St} (hr : Reach P s) (hu : Unfinished called s) :
    (∃ a, Act.internal called s a = true ∧ (step P s a).isSome = true) ∨ (∃ w ∈ s.workers, w.task?.isSome = true) :=
  no_stuck P called (reach_inv P hv hr) (reach_invL P hv hr) hu

/-- progress under EVERY interleaving.  `mu` (a natural number) is strictly decreased by every action of the LTS —
internal ones and the environment's (a call beginning, a task returning, Shutdown being called) alike; the model has a
fixed finite set of Execute calls (`subs`), so "no new submissions" is part of the state and the not-yet-begun calls
are paid for in `mu`.  Hence (1) every action sequence from `s` has at most `mu s` actions — no livelock, no infinite
spinning — and (2) when it ends in a state where no internal action is enabled and no task body is running
(`Quiescent`; the only assumption on the scheduler is that an enabled action of some goroutine is eventually taken,
and on tasks that they return), then every Execute call that has begun has returned, the queue is empty and every
accepted task has been started and has finished exactly once, every worker is parked in its main select (with `done`
still open) or has exited, and if Shutdown was called it has returned (`ret true`: by `C18_shutdown` all `n` workers
have exited and the state is Terminated; `ret false`: it found the executor not running). -/
theorem C18_progress (P : Params) (hv : Valid P) (called : Bool) {s : St} (hr : Reach P s) (acts : List Act) (s' : St)
    (hrun : runActs P s acts = some s') :
    acts.length + mu s' ≤ mu s ∧
    (Quiescent P called s' →
      (∀ pc ∈ s'.subs, pc = .idle ∨ pc = .retOk ∨ pc = .retErr) ∧
      (s'.queue = [] ∧ ∀ t ∈ s'.accepted, s'.started.count t = 1 ∧ s'.finished.count t = 1) ∧
      ((∀ w ∈ s'.workers, w = .idle ∨ w = .exited) ∧ (WPC.idle ∈ s'.workers → s'.done = false)) ∧
      (called = true → ∃ b, s'.closer = .ret b)) := by
  have hr' := reach_runActs P acts hr hrun
  exact ⟨mu_run P acts hrun, quiescent_done P called (reach_inv P hv hr') (reach_invL P hv hr')⟩

/-- one step of any goroutine or of the environment strictly decreases the measure (the lemma behind `C18_progress`,
stated for single steps from ANY state, reachable or not) -/
theorem C18_measure (P : Params) {s s' : St} (a : Act) (hs : step P s a = some s') : mu s' < mu s :=
  mu_step P hs

/-- Shutdown drains: once Shutdown has returned, every Execute call that returned nil — or will ever return nil in
any continuation, e.g. a call that raced the Shutdown and was still between its send and its return — has had its
task run to its end exactly once, before Shutdown returned; and a call that had not got its task in by then is
refused (it never returns nil). -/
theorem C18_shutdown_drains (P : Params) (hv : Valid P) {s : St} (hr : Reach P s) (hq : s.closer = .ret true) :
    (∀ t ∈ s.accepted, s.started.count t = 1 ∧ s.finished.count t = 1) ∧
    ∀ s', Steps P s s' → ∀ i,
      (s'.subs[i]? = some .retOk ∨ s'.subs[i]? = some .unlockOk → i ∈ s.accepted ∧ s.finished.count i = 1) ∧
      (i ∉ s.accepted → s'.subs[i]? ≠ some .retOk ∧ i ∉ s'.started) := by
  have h1 := (C18_once P hv hr).2.2.2.2 hq
  refine ⟨h1, ?_⟩
  intro s' hs' i
  have hr' := reach_steps P hr hs'
  have hq' := (quiet_steps P hv (reach_inv P hv hr) hq hs').2
  have hacc := C18_accepted_iff P hv hr' i
  rw [hq'.2.2.1] at hacc
  refine ⟨?_, ?_⟩
  · intro hi
    have := hacc.mpr (hi.symm)
    exact ⟨this, (h1 i this).2⟩
  · intro hn
    refine ⟨fun h' => hn (hacc.mpr (Or.inr h')), ?_⟩
    rw [hq'.1]
    exact fun h' => hn ((C18_once P hv hr).2.2.2.1 i h')

/-! ### non-vacuity: a concrete schedule (Lemmas/C18.lean, `demoPrefix`, `demoShutdown`) -/

/-- the hypotheses of `C18_once`/`C18_shutdown` are met by a reachable state in which Shutdown has returned
after a panicking task, a failing task, a start-up race and a blocked Execute (test of one schedule) -/
example : ∃ s, Reach params s ∧ s.closer = .ret true ∧ s.accepted = [0, 1, 2] ∧ s.started = [0, 1, 2] ∧
    s.finished = [0, 1, 2] ∧ s.workers = [.exited, .exited] :=
  ⟨_, reach_runActs params (demoPrefix ++ demoShutdown) (Reach.init 2 1 4) (by rfl), by decide⟩

/-- ... and of `C18_accept_returns`: running, two tasks running, one queued — after one more task is taken
there is room again and a fourth call gets through (test of one schedule) -/
example : ∃ s, Reach params s ∧ s.st = .running ∧ s.closer.holds = false ∧ s.queue.length < s.cap ∧
    s.subs[3]? = some .idle ∧ s.workers = [.run 2, .run 1] ∧ s.finished = [0] :=
  ⟨_, reach_runActs params (demoPrefix ++ [.finish 0 .panic, .take 0]) (Reach.init 2 1 4) (by rfl), by decide⟩

/-- `C18_no_stuck`: Shutdown is in `wg.Wait()`, both workers are inside task bodies and task 2 is queued — the state
is `Unfinished` (a queued task, Shutdown under way) and here it is the environment (the two tasks) that has to move;
its measure is 39 (test of one schedule) -/
example : ∃ s, Reach params s ∧ Unfinished true s ∧ s.closer = .wait ∧ s.queue = [2] ∧ s.workers = [.run 0, .run 1] ∧
    mu s = 39 :=
  ⟨_, reach_runActs params (demoPrefix ++ demoShutdown.take 4) (Reach.init 2 1 4) (by rfl),
    Or.inr (Or.inr (Or.inr (Or.inl (by decide)))), by decide⟩

/-- ... and one action later (task 0 has panicked and returned) worker 0 is back in its select with task 2 queued:
`take 0` is an enabled internal action (test of one schedule) -/
example : ∃ s, Reach params s ∧ Unfinished true s ∧ Act.internal true s (.take 0) = true ∧
    (step params s (.take 0)).isSome = true :=
  ⟨_, reach_runActs params (demoPrefix ++ demoShutdown.take 5) (Reach.init 2 1 4) (by rfl),
    Or.inr (Or.inr (Or.inr (Or.inl (by decide)))), by decide⟩

/-- `C18_progress`: the whole demo schedule — 42 actions from a fresh executor with measure 108 to a `Quiescent`
state with measure 25 (= the one Execute call that never began): Shutdown has returned, tasks 0, 1, 2 have finished
(test of one schedule) -/
example : ∃ s', runActs params (mkInit params 2 1 4) (demoPrefix ++ demoShutdown) = some s' ∧ Quiescent params true s' ∧
    (demoPrefix ++ demoShutdown).length = 42 ∧ mu (mkInit params 2 1 4) = 108 ∧ mu s' = 25 ∧ s'.finished = [0, 1, 2] :=
  ⟨demoEnd, demoEnd_run, demoEnd_quiescent, by decide⟩

end Fatchoy.C18
