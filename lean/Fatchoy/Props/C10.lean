/-
C10 — the tree map behaves as a sorted map and stays balanced under any op sequence.

Property theorems only.  Model: Model/C10.lean (the red-black algorithm of map.go / entry.go / iterator.go,
parent pointers as a zipper) and Model/C10Spec.lean (the sorted association list every query is compared
with, `step`/`run` = the model machine, `specStep`/`specRun` = the specification machine).
Helper lemmas: Lemmas/C10*.lean.  The source facts the iterator model depends on are regenerated from
collections/treemap into Gen/C10.lean.
-/
import Fatchoy.Lemmas.C10Iter
import Fatchoy.Lemmas.C10MultiVisit
namespace Fatchoy.C10

/-- the regenerated source facts (Clear bumps the version; the ascending Remove re-targets its cursor; both
descending iterators have their own Remove) satisfy the side-condition of the model -/
theorem C10_valid : Valid params := by decide

/-! ### (B)+(A) the map is a sorted map -/

/-- Refinement, for ALL op sequences from the empty map: every answer of the tree (Put's previous value,
Remove's result, Get, GetOrDefault, Contains, Size, IsEmpty, First/Last, Floor/Ceiling/Higher, Keys, Values,
in-order listing) equals the answer of the sorted association list that went through the same ops
(`insertS`, `eraseS`, `lookupS`, `head?`, `getLast?`, `floorS`, `ceilingS`, `higherS`); the in-order listing
of the tree IS that list, its keys are strictly increasing, and the size field is its length. -/
theorem C10_refines_sorted_map (P : Params) (ops : List Op) :
    (run P Map.empty ops).2 = (specRun [] ops).2 ∧
    toList (run P Map.empty ops).1.root = (specRun [] ops).1 ∧
    Sorted (toList (run P Map.empty ops).1.root) ∧
    (run P Map.empty ops).1.size = ((toList (run P Map.empty ops).1.root).length : Int) := by
  obtain ⟨h1, h2, h3, h4⟩ := run_refines P ops Map.empty MapOK_empty
  exact ⟨h1, h2, h3, h4⟩

/-- one operation, from any state that satisfies the representation invariant (sorted listing, size field
= number of entries): same answer as the specification, listing transformed as the specification says,
invariant kept -/
theorem C10_step_refines (P : Params) (m : Map) (op : Op) (h : MapOK m) :
    (step P m op).2 = (specStep (toList m.root) op).2 ∧
    toList (step P m op).1.root = (specStep (toList m.root) op).1 ∧ MapOK (step P m op).1 :=
  step_refines P m op h

/-- (A) each lookup walk of the code, on any tree with a sorted listing, is the obvious list search:
getEntry, getFirstEntry, getLastEntry, getFloorEntry, getCeilingEntry, getHigherEntry, getLowerEntry -/
theorem C10_queries (t : Tree) (hs : Sorted (toList t)) (k : Nat) :
    find t k = lookupS k (toList t) ∧ firstEntry t = (toList t).head? ∧ lastEntry t = (toList t).getLast? ∧
    floor t k = floorS k (toList t) ∧ ceiling t k = ceilingS k (toList t) ∧
    higher t k = higherS k (toList t) ∧ lower t k = lowerS k (toList t) :=
  ⟨find_spec t k hs, firstEntry_spec t, lastEntry_spec t, floor_spec t k hs, ceiling_spec t k hs,
    higher_spec t k hs, lower_spec t k hs⟩

/-- pre-order and post-order traversals visit exactly the entries of the map, each once -/
theorem C10_traversals (t : Tree) : (preOrder t).Perm (toList t) ∧ (postOrder t).Perm (toList t) :=
  ⟨preOrder_perm t, postOrder_perm t⟩

/-- the specification really is a map: what `insertS` / `eraseS` do to a sorted list, seen through `lookupS` -/
theorem C10_spec_is_map (l : List Entry) (hs : Sorted l) (k : Nat) (v : Int) :
    Sorted (insertS k v l) ∧ Sorted (eraseS k l) ∧
    lookupS k (insertS k v l) = some v ∧ lookupS k (eraseS k l) = none ∧
    (∀ k', k' ≠ k → lookupS k' (insertS k v l) = lookupS k' l ∧ lookupS k' (eraseS k l) = lookupS k' l) :=
  ⟨insertS_sorted hs, eraseS_sorted hs, lookupS_insertS_same l k v, lookupS_eraseS_same l k,
    fun _ hk => ⟨lookupS_insertS_other l hk v, lookupS_eraseS_other l hk⟩⟩

/-! ### (C) the tree stays balanced -/

/-- after ANY op sequence the tree is a red-black tree: black root, no red node with a red child, the same
number of black nodes on every root-to-nil path -/
theorem C10_balanced (P : Params) (ops : List Op) : RB (run P Map.empty ops).1.root :=
  run_RB P ops Map.empty RB_nil

/-- Put and Remove keep the red-black invariant from any red-black tree (fixAfterInsertion, deleteEntry with
the successor copy and splice, fixAfterDeletion) -/
theorem C10_put_remove_balanced (m : Map) (h : RB m.root) (k : Nat) (v : Int) :
    RB (put m k v).1.root ∧ RB (remove m k).1.root :=
  ⟨put_RB m k v h, remove_RB m k h⟩

/-- after ANY op sequence the height is at most 2·log2(n+1), n = Size() = number of entries
(`Nat.log2` is the floor of the binary logarithm, so this is at least as strong as the real-valued bound) -/
theorem C10_height (P : Params) (ops : List Op) :
    let m := (run P Map.empty ops).1
    height m.root ≤ 2 * Nat.log2 ((toList m.root).length + 1) ∧ m.size = ((toList m.root).length : Int) := by
  intro m
  have h := RB_height (C10_balanced P ops)
  rw [count_eq_length] at h
  exact ⟨h, (C10_refines_sorted_map P ops).2.2.2⟩

/-! ### (D) iterators with selective removal -/

/-- For each of the five iterator kinds, over the map reached by ANY op sequence, and for ANY choice `sel` of
which returned entries to `Remove()`: the loop `for HasNext { e := Next(); if sel(e.key) { Remove() } }`
never panics, ends by `HasNext() == false` within size+1 rounds, returns exactly the entries that were present
when the iterator was created, each once, in the iterator's direction (ascending listing, or its reverse for
the two descending kinds); afterwards the map holds exactly the entries not selected, is still a sorted map
with a correct size field and still a red-black tree.
(`drain` collects the entries of the visited nodes; the key / value iterators return a projection of them.) -/
theorem C10_iter_remove (P : Params) (hP : Valid P) (ops : List Op) (kind : IterKind) (sel : Nat → Bool) :
    let m := (run P Map.empty ops).1
    let r := drain P sel ((toList m.root).length + 1) m (iterNew m kind) []
    r.visited = visitOrder kind (toList m.root) ∧ r.panic = none ∧ iterHasNext r.it = false ∧
      toList r.m.root = (toList m.root).filter (fun e => !sel e.1) ∧ MapOK r.m ∧ RB r.m.root := by
  intro m r
  have hm : MapOK m := (run_refines P ops Map.empty MapOK_empty).2.2
  obtain ⟨h1, h2, h3, h4, h5, h6⟩ := drain_spec P hP m hm kind sel ((toList m.root).length + 1)
  have hall : (visitOrder kind (toList m.root)).take ((toList m.root).length + 1) = visitOrder kind (toList m.root) := by
    apply List.take_of_length_le
    unfold visitOrder; split <;> simp
  rw [hall] at h1 h4
  refine ⟨h1, h2, h3 (by omega), ?_, h5, h6 (C10_balanced P ops)⟩
  rw [h4]
  apply List.filter_congr
  intro e he
  have : (visitOrder kind (toList m.root)).any (fun x => x.1 == e.1) = true := by
    apply List.any_eq_true.mpr
    refine ⟨e, ?_, by simp⟩
    unfold visitOrder; split
    · exact List.mem_reverse.mpr he
    · exact he
  simp [this]

/-- The refinement extended with iteration, for ALL sequences in which map operations alternate with iterator
loops of any kind, any selection of removals and any bound `limit` on the number of rounds (a loop may stop
early and abandon its iterator): every answer — including the list of entries each loop returned, which is the
first `limit` entries in the iterator's direction, and the absence of any panic — equals the answer of the
sorted-list specification; the listing is that list (the selected visited entries gone), sorted, with the right
size field, and the tree is red-black throughout. -/
theorem C10_refines_sorted_map_iter (P : Params) (hP : Valid P) (ops : List Op2) :
    (run2 P Map.empty ops).2 = (specRun2 [] ops).2 ∧
    toList (run2 P Map.empty ops).1.root = (specRun2 [] ops).1 ∧
    MapOK (run2 P Map.empty ops).1 ∧ RB (run2 P Map.empty ops).1.root :=
  run2_refines P hP ops Map.empty MapOK_empty RB_nil

/-- the height bound over the extended machine -/
theorem C10_height_iter (P : Params) (hP : Valid P) (ops : List Op2) :
    let m := (run2 P Map.empty ops).1
    height m.root ≤ 2 * Nat.log2 ((toList m.root).length + 1) ∧ m.size = ((toList m.root).length : Int) := by
  intro m
  obtain ⟨_, _, h3, h4⟩ := C10_refines_sorted_map_iter P hP ops
  have h := RB_height h4
  rw [count_eq_length] at h
  exact ⟨h, h3.2⟩

/-- The modification counter detects foreign changes: every op bumps `version` exactly when it changes the key
set (Put of a new key, Remove of a present key, Clear), never decreases it, and an iterator created before an
op sequence that contains such a change refuses `Next` and `Remove` afterwards ("concurrent modification";
"no such element" / "illegal state" when it had nothing to return / remove anyway). -/
theorem C10_foreign_change_detected (P : Params) (hP : Valid P) (m : Map) (hm : MapOK m) (kind : IterKind)
    (ops : List Op) (hc : structuralRun (toList m.root) ops = true) :
    let it := iterNew m kind
    let m' := (run P m ops).1
    (iterNext m' it = .error .comod ∨ iterNext m' it = .error .noSuchElement) ∧
    (iterRemove P m' it = .error .comod ∨ iterRemove P m' it = .error .illegalState) := by
  intro it m'
  have h := run_version_structural P hP ops m hm hc
  exact stale_refused P m' it (by simp only [it, m', iterNew]; omega)

theorem C10_version (P : Params) (hP : Valid P) (m : Map) (hm : MapOK m) (op : Op) :
    (step P m op).1.version = m.version + (if structural (toList m.root) op then 1 else 0) :=
  step_version P hP m hm op

/-! ### (D') several live iterators at once (Model/C10Multi.lean): histories whose steps are a map operation, the
creation of an iterator of any kind in a slot, `HasNext` / `Next` / `Remove` on the iterator of a slot — any
interleaving, any number of slots.  X runs such histories through `mstep` (Drv/C10.lean). -/

/-- Refinement is not disturbed by iterators, failed or not: after ANY multi-iterator history the listing of the
tree is the sorted association list after the successful changes of the history (`changes`: the map operations, and
`Remove(k)` for every iterator `Remove` that succeeded on a node holding `k`), it is sorted with the right size
field, and the tree is red-black. -/
theorem C10_multi_refines (P : Params) (hP : Valid P) (ops : List MOp) :
    let st := (mrun P MState.empty ops).1
    toList st.m.root = (specRun [] (changes P MState.empty ops)).1 ∧ MapOK st.m ∧ RB st.m.root := by
  intro st
  obtain ⟨h1, h2, h3⟩ := mrun_inv P hP ops MState.empty MInv_empty
  exact ⟨h2, h1.1, h3 RB_nil⟩

/-- in the middle of ANY multi-iterator history a map operation answers as the specification does -/
theorem C10_multi_step_refines (P : Params) (hP : Valid P) (pre : List MOp) (op : Op) :
    let st := (mrun P MState.empty pre).1
    (mstep P st (.base op)).2 = .base (specStep (toList st.m.root) op).2 := by
  intro st
  have h0 := (mrun_inv P hP pre MState.empty MInv_empty).1
  rw [mstep_base, (step_refines P st.m op h0.1).1]

/-- Fail-fast with several live iterators: take the iterator `it` of slot `s` at any point of any history; if the
continuation `ops` does not put a new iterator into that slot and contains a structural change made by anybody
else (`foreignRun`: a Put of a new key / Remove of a present key / Clear on the map, or a successful `Remove` of
ANOTHER slot's iterator), then afterwards `Next` and `Remove` on slot `s` do what the code does on a version
mismatch — panic "concurrent modification" ("no such element" / "illegal state" when it had nothing to return /
remove anyway) — and leave map and iterators untouched: no stale or repeated entry is ever returned. -/
theorem C10_multi_foreign_detected (P : Params) (hP : Valid P) (pre ops : List MOp) (s : Nat) (it : Iter)
    (hg : getIt (mrun P MState.empty pre).1.iters s = some it) (hc : ops.any (recreates s) = false)
    (hf : foreignRun P s (mrun P MState.empty pre).1 ops = true) :
    let st := (mrun P (mrun P MState.empty pre).1 ops).1
    (mstep P st (.next s) = (st, .err .comod) ∨ mstep P st (.next s) = (st, .err .noSuchElement)) ∧
    (mstep P st (.iremove s) = (st, .err .comod) ∨ mstep P st (.iremove s) = (st, .err .illegalState)) := by
  intro st
  have h0 := (mrun_inv P hP pre MState.empty MInv_empty).1
  obtain ⟨it', g, _, _, b, _⟩ := mrun_slot P hP ops _ h0 s it hg hc
  have hlt := b hf
  have g' : getIt st.iters s = some it' := g
  obtain ⟨n1, n2⟩ := stale_refused P st.m it' (by simp only [st]; omega)
  constructor
  · rcases n1 with n | n
    · left; simp only [mstep, g', n]
    · right; simp only [mstep, g', n]
  · rcases n2 with n | n
    · left; simp only [mstep, g', n]
    · right; simp only [mstep, g', n]

/-- An iterator's own `Remove` never invalidates it, and reads by others are not changes: take a fresh iterator of
slot `s` (expected version = the map's, e.g. just created) at any point of any history; over ANY continuation that
does not re-create the slot and contains no structural change by anybody else (its own `Next` / `Remove`, value-only
Puts, queries, creation of / `HasNext` / `Next` on / failed `Remove` of other iterators — in any number and order)
* the keys it had to visit at the start, in its direction (`todo`: the listing from its cursor on, ascending, or
  downwards for the descending kinds), are exactly the keys its `Next` calls returned during the continuation, in
  that order, followed by what it has still to visit in the listing as it is now: nothing is skipped, repeated or
  out of order, whatever it removed itself; `HasNext` is false exactly when nothing is left;
* it stays fresh and positioned (`PosOK`: its cursor is the neighbour, in its direction, of the entry it returned
  last, in the CURRENT listing); `Next` then returns the entry under the cursor, an entry of the map, or panics "no
  such element" exactly at the end; `Remove` succeeds or panics "illegal state" — never "concurrent modification". -/
theorem C10_multi_own_remove_ok (P : Params) (hP : Valid P) (pre ops : List MOp) (s : Nat) (it : Iter)
    (hg : getIt (mrun P MState.empty pre).1.iters s = some it)
    (hv : it.expVer = (mrun P MState.empty pre).1.m.version) (hc : ops.any (recreates s) = false)
    (hf : foreignRun P s (mrun P MState.empty pre).1 ops = false) :
    let st0 := (mrun P MState.empty pre).1
    let st := (mrun P st0 ops).1
    ∃ it', getIt st.iters s = some it' ∧ it'.kind = it.kind ∧ it'.expVer = st.m.version ∧
      todo (toList st0.m.root) it = returnedBy P s st0 ops ++ todo (toList st.m.root) it' ∧
      (iterHasNext it' = false ↔ todo (toList st.m.root) it' = []) ∧
      PosOK (toList st.m.root) it' ∧
      ((it'.next = none ∧ (mstep P st (.next s)).2 = .err .noSuchElement) ∨
        ∃ k v, it'.next = some k ∧ (k, v) ∈ toList st.m.root ∧ (mstep P st (.next s)).2 = .entry it.kind (k, v)) ∧
      ((it'.last = none ∧ (mstep P st (.iremove s)).2 = .err .illegalState) ∨
        (mstep P st (.iremove s)).2 = .removed) := by
  intro st0 st
  have h0 := (mrun_inv P hP pre MState.empty MInv_empty).1
  have h1 : MInv st := (mrun_inv P hP ops _ h0).1
  obtain ⟨it', g, hk, _, _, c⟩ := mrun_slot P hP ops _ h0 s it hg hc
  obtain ⟨it2, g2, htodo⟩ := mrun_todo P hP ops _ h0 s it hg hv hc hf
  rw [g] at g2; cases g2
  have hfresh : it'.expVer = st.m.version := c hf hv
  have g' : getIt st.iters s = some it' := g
  have hpos := (h1.2 s it' g').2 hfresh
  refine ⟨it', g', hk, hfresh, htodo, todo_nil_iff h1.1.1 hpos, hpos, ?_, ?_⟩
  · rcases fresh_next st.m h1.1 it' hfresh hpos with ⟨a, b⟩ | ⟨it2, k, v, a, b, c, _⟩
    · left; exact ⟨a, by simp only [mstep, g', b]⟩
    · right; exact ⟨k, v, b, c, by simp only [mstep, g', a, hk]⟩
  · rcases fresh_remove P hP st.m h1.1 it' hfresh hpos with ⟨a, b⟩ | ⟨k, it2, _, b, _⟩
    · left; exact ⟨a, by simp only [mstep, g', b]⟩
    · right; simp only [mstep, g', b]

/-- a newly created iterator has the whole listing to visit, in its direction -/
theorem C10_multi_todo_new (P : Params) (hP : Valid P) (pre : List MOp) (kind : IterKind) :
    let m := (mrun P MState.empty pre).1.m
    todo (toList m.root) (iterNew m kind) = (visitOrder kind (toList m.root)).map (·.1) := by
  intro m
  exact todo_iterNew m kind (mrun_inv P hP pre MState.empty MInv_empty).1.1.1

/-! ### non-vacuity (tests on samples, labelled as such): a history with replacement, removal of a node with
two children, a deletion fix-up, Clear, neighbour queries with absent keys -/

/-- the facts as they are at HEAD, written out, so that the samples below do not depend on Gen/C10.lean
(a change of a fact then breaks exactly `C10_valid`) -/
def sampleParams : Params := { clearBumps := true, ascRetargets := true, descEntryOwn := true, descKeyOwn := true }

example : Valid sampleParams := by decide

def sampleOps : List Op :=
  [.put 5 50, .put 3 30, .put 7 70, .put 1 10, .put 4 40, .put 6 60, .put 8 80, .put 5 55, .remove 3, .remove 1,
   .floor 2, .floor 6, .ceiling 9, .higher 5, .get 4, .get 3, .size, .first, .last, .keys, .remove 7, .remove 8,
   .inOrder, .clear, .size, .put 2 20, .values]

example : (run sampleParams Map.empty sampleOps).2 =
    [.prev none, .prev none, .prev none, .prev none, .prev none, .prev none, .prev none, .prev (some 50),
     .bool true, .bool true, .entry none, .entry (some (6, 60)), .entry none, .entry (some (6, 60)),
     .val (some 40), .val none, .int 5, .entry (some (4, 40)), .entry (some (8, 80)), .nats [4, 5, 6, 7, 8],
     .bool true, .bool true, .entries [(4, 40), (5, 55), (6, 60)], .unit, .int 0, .prev none, .ints [20]] := by
  decide

example : height (run sampleParams Map.empty (sampleOps.take 10)).1.root = 3 ∧
    RB (run sampleParams Map.empty (sampleOps.take 10)).1.root := ⟨by decide, C10_balanced _ _⟩

/-- D11 scenario (test on a sample): descending entry iterator over 1..7, removing 6, 4 and 2 — each of them
a node with two children at that moment: every entry visited once, in descending order -/
example :
    let m := (run sampleParams Map.empty [.put 1 10, .put 2 20, .put 3 30, .put 4 40, .put 5 50, .put 6 60, .put 7 70]).1
    let r := drain sampleParams (fun k => k % 2 == 0) 8 m (iterNew m .descEntry) []
    (r.visited, r.panic, toList r.m.root) =
      ([(7, 70), (6, 60), (5, 50), (4, 40), (3, 30), (2, 20), (1, 10)], none, [(1, 10), (3, 30), (5, 50), (7, 70)]) := by
  decide

/-- the same loop under the unrepaired facts (inherited ascending Remove) revisits entries: the model
reproduces D11 when `descEntryOwn` is false, so `Valid` is not a vacuous hypothesis (test on a sample) -/
example :
    let m := (run sampleParams Map.empty [.put 1 10, .put 2 20, .put 3 30, .put 4 40, .put 5 50, .put 6 60, .put 7 70]).1
    (drain { sampleParams with descEntryOwn := false } (fun k => k % 2 == 0) 10 m (iterNew m .descEntry) []).visited =
      [(7, 70), (6, 60), (7, 70), (5, 50), (4, 40), (5, 50), (3, 30), (2, 20), (3, 30), (1, 10)] := by
  decide

/-- the extended machine on a sample: a partial ascending loop (3 rounds, removing even keys), a Put, a full
descending key loop removing everything below 4 -/
example : (run2 sampleParams Map.empty
      [.base (.put 3 30), .base (.put 1 10), .base (.put 2 20), .base (.put 5 50), .base (.put 4 40),
       .iterate .entry (fun k => k % 2 == 0) 3, .base .keys, .base (.put 2 22),
       .iterate .descKey (fun k => decide (k < 4)) 100, .base .inOrder, .base .size]).2.drop 5 =
    [.visited [(1, 10), (2, 20), (3, 30)] none, .base (.nats [1, 3, 4, 5]), .base (.prev none),
     .visited [(5, 50), (4, 40), (3, 30), (2, 22), (1, 10)] none, .base (.entries [(4, 40), (5, 50)]),
     .base (.int 2)] := by
  decide

/-! ### non-vacuity of the multi-iterator theorems (tests on samples) -/

def multiPre : List MOp :=
  [.base (.put 2 20), .base (.put 1 10), .base (.put 3 30), .create 0 .entry, .create 1 .key, .next 0, .next 1]

/-- two ascending iterators, one removes, the other then fails fast while the remover goes on; a value-only Put
in between disturbs nobody (test on a sample) -/
example : (mrun sampleParams MState.empty
      (multiPre ++ [.base (.put 3 33), .next 1, .iremove 0, .next 1, .iremove 1, .hasNext 1, .next 0, .iremove 0,
        .next 0, .hasNext 0, .next 0, .base .inOrder])).2.drop 3 =
    [.created, .created, .entry .entry (1, 10), .entry .key (1, 10), .base (.prev (some 30)), .entry .key (2, 20),
     .removed, .err .comod, .err .comod, .has true, .entry .entry (2, 20), .removed, .entry .entry (3, 33),
     .has false, .err .noSuchElement, .base (.entries [(3, 33)])] := by
  decide

/-- the hypotheses of `C10_multi_foreign_detected` / `C10_multi_own_remove_ok_partial` on that sample: slot 1 sees a
foreign change (the Remove through slot 0), slot 0 does not (its own Remove, the reads of slot 1, a value-only Put) -/
example : (getIt (mrun sampleParams MState.empty multiPre).1.iters 1).isSome = true ∧
    foreignRun sampleParams 1 (mrun sampleParams MState.empty multiPre).1 [.base (.put 3 33), .next 1, .iremove 0] = true ∧
    foreignRun sampleParams 0 (mrun sampleParams MState.empty multiPre).1
      [.base (.put 3 33), .next 1, .iremove 0, .next 1, .next 0, .iremove 0] = false ∧
    (specRun [] (changes sampleParams MState.empty (multiPre ++ [.iremove 0, .iremove 1, .iremove 0]))).1 =
      [(2, 20), (3, 30)] := by
  decide

/-- two read-only iterators in opposite directions, interleaved, both complete (test on a sample) -/
example : (mrun sampleParams MState.empty
      [.base (.put 2 20), .base (.put 1 10), .base (.put 3 30), .create 0 .value, .create 1 .descEntry,
       .next 0, .next 1, .next 1, .next 0, .hasNext 0, .next 1, .next 0, .hasNext 0, .hasNext 1, .next 1]).2.drop 5 =
    [.entry .value (1, 10), .entry .descEntry (3, 30), .entry .descEntry (2, 20), .entry .value (2, 20), .has true,
     .entry .descEntry (1, 10), .entry .value (3, 30), .has false, .has false, .err .noSuchElement] := by
  decide
/-- `todo` / `returnedBy` on that sample: slot 0 (ascending, removing 1 and 2 itself) had 1, 2, 3 to visit and
returned 1, 2, 3 -/
example : todo (toList (mrun sampleParams MState.empty (multiPre.take 4)).1.m.root)
      (iterNew (mrun sampleParams MState.empty (multiPre.take 4)).1.m .entry) = [1, 2, 3] ∧
    returnedBy sampleParams 0 (mrun sampleParams MState.empty (multiPre.take 4)).1
      [.create 1 .key, .next 0, .next 1, .iremove 0, .next 1, .next 0, .iremove 0, .next 0, .next 0] = [1, 2, 3] := by
  decide

end Fatchoy.C10
