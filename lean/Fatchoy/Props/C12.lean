/-
C12 — deque and FIFO queues hold exactly what a plain list would.

Property theorems only.  The model (Model/C12.lean) mirrors collections/queue/{deque,unbounded,
unbounded_concurrent}.go statement by statement; `none` in the model is a run-time fault the Go code
does not check for (index out of range, slice bounds), `Out.panic` is an explicit `panic("deque: …")`.
`abs` reads a deque back as the plain list it stands for; `listStep` / `ulistStep` are the plain-list
operations.  Helper lemmas: Lemmas/C12.lean (deque), Lemmas/C12Queue.lean (queues); the constants
come from Gen/C12.lean, regenerated from the source on every run.
-/
import Fatchoy.Model.C12Params
import Fatchoy.Lemmas.C12
import Fatchoy.Lemmas.C12Queue
import Fatchoy.Lemmas.C12Min
import Fatchoy.Lemmas.C12Lock
set_option linter.unusedVariables false
namespace Fatchoy.C12

/-- the regenerated constants and source facts satisfy the side-conditions the proofs need -/
theorem C12_valid : Valid params := by decide

section
variable {α : Type} [Inhabited α]

/-- the ring-buffer invariant holds in every reachable state (it is proved, not assumed) -/
theorem C12_deque_invariant {P : Params} (hv : Valid P) {d : Deque α} (hr : Reach P d) : WF P d := by
  induction hr with
  | zero => exact zero_wf P
  | new size d h =>
    obtain ⟨d0, h0, hw, _⟩ := new_spec (α := α) hv.1 size
    rw [h0] at h; cases h; exact hw
  | call d op d' out _ h ih =>
    obtain ⟨d1, o1, h1, hw1, _⟩ := step_refines hv.1 ih op
    rw [h1] at h; cases h; exact hw1

/-- `NewDeque(size...)` always returns an empty deque; a non-zero capacity argument allocates at least
  that many slots and the minimum is at least the second argument -/
theorem C12_deque_new {P : Params} (hv : Valid P) (size : List Int) :
    ∃ d : Deque α, Deque.new P size = some d ∧ abs d = [] ∧
      (size.getD 0 0 ≠ 0 → (size.getD 0 0).toNat ≤ d.buf.length ∧ 0 < d.buf.length) ∧
      (size.getD 1 0).toNat ≤ d.minCap := by
  obtain ⟨d, h, _, ha, hc, hm⟩ := new_spec (α := α) hv.1 size
  exact ⟨d, h, ha, hc, hm⟩

/-- REFINEMENT, one call: in every reachable state every method (PushBack, PushFront, PopFront, PopBack,
  Front, Back, At, Set, Clear, Rotate by any n of either sign, SetMinCapacity) completes without a
  run-time fault, answers what the plain list answers — the same value, or a panic exactly when the
  list operation is undefined — and leaves the deque standing for the list the plain operation yields;
  `Len()` is that list's length. -/
theorem C12_deque_refines {P : Params} (hv : Valid P) {d : Deque α} (hr : Reach P d) (op : Op α) :
    ∃ d' out, step P d op = some (d', out) ∧ (abs d', out) = listStep (abs d) op ∧
      d'.count = (abs d').length := by
  obtain ⟨d', out, h, _, hr'⟩ := step_refines hv.1 (C12_deque_invariant hv hr) op
  exact ⟨d', out, h, hr', (abs_length d').symm⟩

/-- REFINEMENT, whole histories: from the zero value or from any constructor call, every sequence of
  calls runs to the end and its answers and final contents are those of the same sequence on `[]`. -/
theorem C12_deque_history {P : Params} (hv : Valid P) (d0 : Deque α)
    (h0 : d0 = Deque.zero ∨ ∃ size, Deque.new P size = some d0) (ops : List (Op α)) :
    ∃ d outs, run P d0 ops = some (d, outs) ∧ (abs d, outs) = listRun [] ops := by
  have hr0 : Reach P d0 := by
    rcases h0 with rfl | ⟨size, h⟩
    · exact Reach.zero
    · exact Reach.new size d0 h
  have ha0 : abs d0 = [] := by
    rcases h0 with rfl | ⟨size, h⟩
    · rfl
    · obtain ⟨d, hd, _, ha, _⟩ := new_spec (α := α) hv.1 size
      rw [hd] at h; cases h; exact ha
  obtain ⟨d, outs, h, _, hr⟩ := run_refines hv.1 ops d0 (C12_deque_invariant hv hr0)
  rw [ha0] at hr
  exact ⟨d, outs, h, hr⟩

/-- PANICS: in ANY state (reachable or not) a read or removal on an empty deque and an index outside
  `[0, Len())` are refused by panic and nothing changes — no slot of the buffer is ever read. -/
theorem C12_deque_panics (P : Params) (d : Deque α) :
    (d.count = 0 → step P d .popFront = some (d, .panic) ∧ step P d .popBack = some (d, .panic) ∧
      step P d .front = some (d, .panic) ∧ step P d .back = some (d, .panic)) ∧
    (∀ i : Int, i < 0 ∨ i ≥ d.count →
      step P d (.at i) = some (d, .panic) ∧ ∀ v, step P d (.set i v) = some (d, .panic)) := by
  refine ⟨?_, ?_⟩
  · intro h
    simp [step, popFront, popBack, front, back, h]
  · intro i hi
    refine ⟨?_, fun v => ?_⟩
    · simp only [step, at_]; rw [if_pos hi]; rfl
    · simp only [step, set_]; rw [if_pos hi]

/-- … and in a reachable state a panic happens ONLY then: the deque is unchanged and the call was a
  read/removal with nothing stored or an index outside `[0, Len())`. -/
theorem C12_deque_panics_only {P : Params} (hv : Valid P) {d : Deque α} (hr : Reach P d) (op : Op α)
    (d' : Deque α) (h : step P d op = some (d', .panic)) :
    abs d' = abs d ∧
    ((abs d = [] ∧ (op = .popFront ∨ op = .popBack ∨ op = .front ∨ op = .back)) ∨
     (∃ i, (i < 0 ∨ i ≥ ((abs d).length : Int)) ∧ (op = .at i ∨ ∃ v, op = .set i v))) := by
  obtain ⟨d1, o1, h1, hr1, _⟩ := C12_deque_refines hv hr op
  rw [h1] at h
  cases h
  cases op with
  | pushBack v => simp [listStep] at hr1
  | pushFront v => simp [listStep] at hr1
  | popFront =>
    cases hl : abs d with
    | nil => rw [hl] at hr1; simp [listStep] at hr1; simp [hr1]
    | cons x t => rw [hl] at hr1; simp [listStep] at hr1
  | popBack =>
    cases hl : (abs d).getLast? with
    | none =>
      have : abs d = [] := List.getLast?_eq_none_iff.mp hl
      simp only [listStep, hl] at hr1
      simp only [Prod.mk.injEq] at hr1
      simp [hr1.1, this]
    | some x => simp [listStep, hl] at hr1
  | front =>
    cases hl : abs d with
    | nil => rw [hl] at hr1; simp [listStep] at hr1; simp [hr1]
    | cons x t => rw [hl] at hr1; simp [listStep] at hr1
  | back =>
    cases hl : (abs d).getLast? with
    | none =>
      have : abs d = [] := List.getLast?_eq_none_iff.mp hl
      simp only [listStep, hl] at hr1
      simp only [Prod.mk.injEq] at hr1
      simp [hr1.1, this]
    | some x => simp [listStep, hl] at hr1
  | «at» i =>
    simp only [listStep] at hr1
    split at hr1
    · rename_i hc
      simp only [Prod.mk.injEq] at hr1
      exact ⟨hr1.1, Or.inr ⟨i, hc, Or.inl rfl⟩⟩
    · simp at hr1
  | set i v =>
    simp only [listStep] at hr1
    split at hr1
    · rename_i hc
      simp only [Prod.mk.injEq] at hr1
      exact ⟨hr1.1, Or.inr ⟨i, hc, Or.inr ⟨v, rfl⟩⟩⟩
    · simp at hr1
  | clear => simp [listStep] at hr1
  | rotate n =>
    simp only [listStep] at hr1
    split at hr1 <;> simp at hr1
  | setMinCap e => simp [listStep] at hr1

/-- CAPACITY: in every reachable state `Len()` is the length of the list; an unallocated deque is
  empty; an allocated buffer has a power-of-two size that is at least the configured minimum (itself a
  power of two, at least `minCapacity`) and at least the number of elements. -/
theorem C12_deque_cap {P : Params} (hv : Valid P) {d : Deque α} (hr : Reach P d) :
    d.count = (abs d).length ∧ (d.buf.length = 0 → d.count = 0) ∧
    (0 < d.buf.length → (∃ k, d.buf.length = 2 ^ k) ∧ (∃ j, d.minCap = 2 ^ j) ∧
      P.minCapacity ≤ d.minCap ∧ d.minCap ≤ d.buf.length ∧ d.count ≤ d.buf.length) := by
  have hw := C12_deque_invariant hv hr
  refine ⟨(abs_length d).symm, ?_, ?_⟩
  · intro h; have := hw.count_le; omega
  · intro hpos
    obtain ⟨hm1, hm2⟩ := hw.alloc hpos
    rcases hw.min_ok with h | ⟨hj, hge⟩
    · exact absurd h hm1
    · exact ⟨hw.cap_pos_pow hpos, hj, hge, hm2, hw.count_le⟩

/-- CONFIGURED MINIMUM: the minimum in force (`effMin`: the stored `minCap`, or `minCapacity` for a
  zero-value deque that has not allocated yet) is changed by SetMinCapacity only — to 2^e when that is
  a power of two above `minCapacity` that fits an `int`, else to `minCapacity` — and by no other call;
  and whenever a buffer is allocated after the call it is at least that large. -/
theorem C12_deque_min {P : Params} (hv : Valid P) {d : Deque α} (hr : Reach P d) (op : Op α) :
    ∃ d' out, step P d op = some (d', out) ∧ effMin P d' = cfgMin P (effMin P d) op ∧
      (0 < d'.buf.length → effMin P d' ≤ d'.buf.length) := by
  obtain ⟨d', out, h, _⟩ := C12_deque_refines hv hr op
  refine ⟨d', out, h, step_effMin h, ?_⟩
  intro hpos
  obtain ⟨_, _, hc⟩ := C12_deque_cap hv (Reach.call d op d' out hr h)
  obtain ⟨_, ⟨j, hj⟩, _, hle, _⟩ := hc hpos
  unfold effMin
  have : d'.minCap ≠ 0 := by rw [hj]; exact Nat.ne_of_gt (Nat.two_pow_pos j)
  rw [if_neg this]; exact hle

end

section
variable {α : Type} [Inhabited α]

/-- FIFO: for ANY slice sizes (so the 1/16/128 block boundaries are irrelevant) every history of
  Push / Pop / Front / Len / Init on a fresh queue runs without a fault and answers exactly what the
  plain list queue answers (Pop and Front return the oldest element or report empty; Len is exact);
  the chain of blocks always stands for the plain list; and, as long as Init is not called, what
  was popped followed by what is still queued is what was pushed, in push order: every pushed
  element is returned exactly once, in order. -/
theorem C12_uq_fifo (P : Params) (ops : List (UOp α)) :
    ∃ q outs, UQ.run P (UQ.zero : UQ α) ops = some (q, outs) ∧ (q.abs, outs) = ulistRun [] ops ∧
      q.len = q.abs.length ∧
      ((∀ op, op ∈ ops → op ≠ .init) → pushed ops = popped ops outs ++ q.abs) := by
  obtain ⟨q, outs, h, hw, hr⟩ := urun_refines P ops (UQ.zero : UQ α) UQ.zero_wf
  have h0 : (UQ.zero : UQ α).abs = [] := rfl
  rw [h0] at hr
  refine ⟨q, outs, h, hr, (UQ.abs_length hw).symm, ?_⟩
  intro hni
  have hc := list_conservation ops ([] : List α) hni
  rw [← hr] at hc
  simpa using hc

/-- LINEARIZABILITY of the concurrent queue.  `Valid` records that every method is one
  Lock…Unlock region around one call of the inner queue, so a schedule of any number of goroutines is
  a sequence of atomic actions.  For EVERY such sequence: no action faults; each answer is the plain
  list queue's answer at that point of the sequence; the values handed out by Dequeue, in schedule
  order, followed by what is still queued, are exactly the enqueued values in schedule order — nothing
  lost, nothing duplicated, nothing invented; and for every set of values (take "enqueued by
  producer g") the dequeued ones are a prefix of the enqueued ones: each producer's order is kept. -/
theorem C12_cq_linear (P : Params) (hv : Valid P) (as : List (CAct α)) :
    ∃ q outs, crun P (UQ.zero : UQ α) as = some (q, outs) ∧
      (q.abs, outs) = ulistRun [] (as.map CAct.op) ∧
      enqueued as = dequeued as outs ++ q.abs ∧
      ∀ p : α → Bool, (dequeued as outs).filter p <+: (enqueued as).filter p := by
  obtain ⟨q, outs, h, hr, _, hc⟩ := C12_uq_fifo P (as.map CAct.op) (α := α)
  have hcons : enqueued as = dequeued as outs ++ q.abs := by
    rw [enqueued_eq, dequeued_eq]; exact hc (cact_no_init as)
  refine ⟨q, outs, by rw [crun_eq_run]; exact h, hr, hcons, ?_⟩
  intro p
  exact filter_prefix_of_append p hcons

/-- LOCK LEVEL: why one action per method is the right granularity.  In the lock-level LTS
  (Model/C12Lock.lean) a method is call / Lock-or-RLock / read the shared queue into locals / write
  back what was computed from that copy / Unlock, and any number of goroutines interleave these
  micro-steps arbitrarily; `rlock` says which methods take the read lock and may be any choice that
  gives it only to bodies that write nothing (Len, Peek).  For EVERY run of that LTS: the bodies, in
  the order they wrote back, with the answers they got, are exactly a run of the atomic model ending in
  the current shared queue (so C12_cq_linear applies to them); a copy read under the lock is never
  stale; a body that has read can always write back (no fault); and two goroutines are inside locked
  regions at the same time only if both are readers. -/
theorem C12_cq_lock_atomic (P : Params) (rlock : CAct α → Bool)
    (hr : ∀ a, rlock a = true → a.writes = false) (las : List (LAct α)) (s : LState α)
    (h : lrun P true rlock (LState.init : LState α) las = some s) :
    crun P (UQ.zero : UQ α) (s.hist.map Prod.fst) = some (s.q, s.hist.map Prod.snd) ∧
    (∀ g a sn, s.pc g = .read a sn → sn = s.q ∧ (lstep P true rlock s (.write g)).isSome) ∧
    (∀ g g' a a', holdsA (s.pc g) = some a → holdsA (s.pc g') = some a' → g ≠ g' →
      rlock a = true ∧ rlock a' = true) := by
  have hi := lrun_inv hr las _ s (LInv.init P rlock) h
  obtain ⟨huwf, hat, hsnap, hwl, hrl⟩ := hi
  refine ⟨hat, ?_, ?_⟩
  · intro g a sn hg
    have hsn := hsnap g a sn hg
    refine ⟨hsn, ?_⟩
    subst hsn
    obtain ⟨q1, o1, hs1, _, _⟩ := ustep_refines P huwf a.op
    have hc : cstep P s.q a = some (q1, o1) := hs1
    simp [lstep, hg, hc]
  · intro g g' a a' hg hg' hne
    cases hx : rlock a with
    | false =>
      have h1 := hwl g a hg hx
      cases hy : rlock a' with
      | false =>
        have h2 := hwl g' a' hg' hy
        rw [h1] at h2
        simp only [Option.some.injEq] at h2
        exact absurd h2 hne
      | true =>
        have h2 := (hrl g' a' hg' hy).2
        rw [h1] at h2; cases h2
    | true =>
      cases hy : rlock a' with
      | false =>
        have h1 := hwl g' a' hg' hy
        have h2 := (hrl g a hg hx).2
        rw [h1] at h2; cases h2
      | true => exact ⟨rfl, rfl⟩

end

/-! ### non-vacuity: the hypotheses are met by non-trivial states (evaluated samples — tests, not proofs)

The samples are evaluated with a fixed valid parameter set, not with the regenerated one, so that a
harmless change of a constant in the source does not disturb them. -/

def exParams : Params :=
  { minCapacity := 16, growShift := 1, shrinkShift := 2, firstSlice := 1, maxFirstSlice := 16,
    maxInternalSlice := 128, sliceVarsConst := true,
    pushShape := "node:firstSliceSize,maxInternalSliceSize last:maxFirstSliceSize,maxInternalSliceSize",
    cqMethods := "Dequeue:W:Pop Enqueue:W:Push Len:r:Len Peek:r:Front" }

example : Valid exParams := by decide

/-- NewDeque(16), three PushFront and thirteen PushBack: a reachable, completely full buffer whose
  contents wrap around the end (head = 13) -/
def exOps : List (Op (Option Int)) :=
  [Op.pushFront (some 1), Op.pushFront (some 2), Op.pushFront (some 3)] ++
    (List.range 13).map (fun i => Op.pushBack (some ((10 + i : Nat) : Int)))

def exState : Deque (Option Int) :=
  match Deque.new exParams [16] with
  | some d0 => (match run exParams d0 exOps with | some (d, _) => d | none => Deque.zero)
  | none => Deque.zero

example : exState.count = 16 ∧ exState.buf.length = 16 ∧ exState.head = 13 ∧ exState.tail = 13 := by decide

/-- Rotate on that full buffer takes the index-only shortcut, in both directions, and agrees with the list -/
example : (rotate exState 5).map abs = some ((listStep (abs exState) (.rotate 5)).1) ∧
    (rotate exState (-21)).map abs = some ((listStep (abs exState) (.rotate (-21))).1) := by decide

/-- the plain-list reading of Rotate: n steps front-to-back, negative n back-to-front -/
example : (listStep [1, 2, 3, 4] (.rotate 1 : Op Nat)).1 = [2, 3, 4, 1] ∧
    (listStep [1, 2, 3, 4] (.rotate (-1) : Op Nat)).1 = [4, 1, 2, 3] ∧
    (listStep [1, 2, 3, 4] (.rotate 6 : Op Nat)).1 = [3, 4, 1, 2] := by decide

/-- one more PushBack grows the buffer (32), PopFront down to 8 elements shrinks it again (16) -/
example : ((run exParams exState ([Op.pushBack (some 99)] ++ List.replicate 9 Op.popFront)).map
    (fun r => (r.1.buf.length, r.1.count))) = some (16, 8) := by decide

/-- SetMinCapacity(6) on an allocated 16-slot buffer reallocates to 64 -/
example : ((step exParams exState (.setMinCap 6)).map (fun r => (r.1.buf.length, r.1.minCap, abs r.1 == abs exState))) =
    some (64, 64, true) := by decide

/-- a queue history crossing the first (16) block boundary, and a schedule of three goroutines -/
example : ((UQ.run exParams (UQ.zero : UQ (Option Int))
    ((List.range 20).map (fun (i : Nat) => UOp.push (some (i : Int))) ++ List.replicate 18 UOp.pop)).map
    (fun r => (r.1.blocks.length, r.1.hp, r.1.len))) = some (1, 2, 2) := by decide

example : ((crun exParams (UQ.zero : UQ (Option Int))
    [.enqueue 1 (some 11), .enqueue 2 (some 21), .dequeue 3, .enqueue 1 (some 12), .dequeue 3, .dequeue 2, .dequeue 3]).map
    (fun r => r.2)) = some [.ok, .ok, .val (some 11), .ok, .val (some 21), .val (some 12), .empty] := by decide

/-- the lock matters, and the lock-level LTS is fine-grained enough to show it: WITHOUT the lock two
  goroutines that interleave their Dequeue bodies both receive the same element; WITH the lock the
  same interleaving is not a run (the second Lock is not enabled) -/
def exRlock : CAct (Option Int) → Bool
  | .len _ => true
  | _ => false

def exRace : List (LAct (Option Int)) :=
  [.call (.enqueue 1 (some 7)), .lock 1, .read 1, .write 1, .unlock 1,
   .call (.dequeue 2), .call (.dequeue 3), .lock 2, .lock 3, .read 2, .read 3, .write 2, .write 3]

example : ((lrun exParams false exRlock LState.init exRace).map (fun s => s.hist.map Prod.snd)) =
    some [.ok, .val (some 7), .val (some 7)] := by decide

example : ((lrun exParams true exRlock LState.init exRace).map (fun s => s.hist.map Prod.snd)) = none := by decide

/-- … while the properly locked schedule of the same three calls hands the element out once -/
example : ((lrun exParams true exRlock LState.init
    [.call (.enqueue 1 (some 7)), .lock 1, .read 1, .call (.dequeue 2), .call (.dequeue 3), .write 1, .unlock 1,
     .lock 3, .read 3, .write 3, .unlock 3, .lock 2, .read 2, .write 2, .unlock 2]).map
    (fun s => s.hist.map Prod.snd)) = some [.ok, .val (some 7), .empty] := by decide

/-! ### The translated source (Gen/C12.lean, `namespace Tr` for int = 64 bits, `Tr32` for int = 32 bits, rewritten from
deque.go on every run) equals the model's index arithmetic, for all inputs (no bound on the buffer size).
The proofs normalise (`toNat`, side conditions discharged by `omega`, then equality up to associativity and commutativity
of `&&&` / `+`), so harmless rewrites of the source — swapped operands, an extra local — still prove. -/
section Translated
open Fatchoy.Gen.C12
set_option linter.unusedSimpArgs false

/-- `Tr.Deque_next` (int = 64 bits) is the model's `mask d (i + 1)`: `landMask` with the buffer's mask -/
theorem C12_tr_next (len i : BitVec 64) (hl : 0 < len.toNat) (hi : i.toNat + 1 < 2 ^ 64) :
    (Tr.Deque_next len i).toNat = landMask ((i.toNat : Int) + 1) (len.toNat - 1) := by
  have e : ((i.toNat : Int) + 1) = ((i.toNat + 1 : Nat) : Int) := by omega
  rw [e, landMask_ofNat]
  simp (disch := omega) [Tr.Deque_next, BitVec.toNat_sub_of_le (bv_one_le len hl), BitVec.toNat_add,
    Nat.mod_eq_of_lt, Nat.add_comm] <;> ac_rfl

/-- `Tr.At_pos` / `Tr.Set_pos` are the model's `mask d (head + i)` -/
theorem C12_tr_at (len head i : BitVec 64) (hl : 0 < len.toNat) (hi : head.toNat + i.toNat < 2 ^ 64) :
    (Tr.At_pos head len i).toNat = landMask ((head.toNat : Int) + (i.toNat : Int)) (len.toNat - 1) ∧
    (Tr.Set_pos head len i).toNat = landMask ((head.toNat : Int) + (i.toNat : Int)) (len.toNat - 1) := by
  have e : ((head.toNat : Int) + (i.toNat : Int)) = ((head.toNat + i.toNat : Nat) : Int) := by omega
  rw [e, landMask_ofNat]
  constructor <;>
    (simp (disch := omega) [Tr.At_pos, Tr.Set_pos, BitVec.toNat_sub_of_le (bv_one_le len hl), BitVec.toNat_add,
      Nat.mod_eq_of_lt, Nat.add_comm] <;> ac_rfl)

/-- `Tr.Deque_prev` is the model's `mask d (i - 1)`, also at `i = 0` where `i - 1` is negative -/
theorem C12_tr_prev (len i : BitVec 64) (hl : 0 < len.toNat) :
    (Tr.Deque_prev len i).toNat = landMask ((i.toNat : Int) - 1) (len.toNat - 1) := by
  by_cases h0 : i.toNat = 0
  · have : i = 0#64 := BitVec.eq_of_toNat_eq (by simpa using h0)
    subst this
    have hm : len.toNat - 1 < 2 ^ 64 := by have := len.isLt; omega
    have key : (len.toNat - 1) &&& 18446744073709551615 = len.toNat - 1 :=
      (Nat.and_two_pow_sub_one_eq_mod (len.toNat - 1) 64).trans (Nat.mod_eq_of_lt hm)
    have key' : 18446744073709551615 &&& (len.toNat - 1) = len.toNat - 1 := by rw [Nat.and_comm]; exact key
    show _ = len.toNat - 1 - (0 &&& (len.toNat - 1))
    simp (disch := omega) [Tr.Deque_prev, BitVec.toNat_sub_of_le (bv_one_le len hl), key, key']
  · have e : ((i.toNat : Int) - 1) = ((i.toNat - 1 : Nat) : Int) := by omega
    rw [e, landMask_ofNat]
    simp (disch := omega) [Tr.Deque_prev, BitVec.toNat_sub_of_le (bv_one_le len hl),
      BitVec.toNat_sub_of_le (bv_one_le i (by omega))] <;> ac_rfl

/-- `Tr.shrink_cond` is the condition of the model's `shrinkIfExcess` (sizes below 2^61: no bit is shifted out) -/
theorem C12_tr_shrink (count minCap len : BitVec 64) (hc : count.toNat < 2 ^ 61)
    (hm : minCap.toNat < 2 ^ 63) (hl : len.toNat < 2 ^ 63) :
    Tr.shrink_cond count minCap len =
      decide (len.toNat > minCap.toNat ∧ count.toNat <<< params.shrinkShift = len.toNat) := by
  have e1 : minCap.toInt = minCap.toNat := BitVec.toInt_eq_toNat_of_lt (by omega)
  have e2 : len.toInt = len.toNat := BitVec.toInt_eq_toNat_of_lt (by omega)
  rw [Bool.eq_iff_iff]
  simp (disch := omega) [Tr.shrink_cond, BitVec.slt, e1, e2, params, Gen.C12.shrinkShift, Nat.shiftLeft_eq,
    BitVec.toNat_eq, Nat.mod_eq_of_lt, and_comm, eq_comm (a := len.toNat)]

/-- `Tr32.Deque_next` (int = 32 bits) is the model's `mask d (i + 1)`: `landMask` with the buffer's mask -/
theorem C12_tr32_next (len i : BitVec 32) (hl : 0 < len.toNat) (hi : i.toNat + 1 < 2 ^ 32) :
    (Tr32.Deque_next len i).toNat = landMask ((i.toNat : Int) + 1) (len.toNat - 1) := by
  have e : ((i.toNat : Int) + 1) = ((i.toNat + 1 : Nat) : Int) := by omega
  rw [e, landMask_ofNat]
  simp (disch := omega) [Tr32.Deque_next, BitVec.toNat_sub_of_le (bv_one_le len hl), BitVec.toNat_add,
    Nat.mod_eq_of_lt, Nat.add_comm] <;> ac_rfl

/-- `Tr32.At_pos` / `Tr32.Set_pos` are the model's `mask d (head + i)` -/
theorem C12_tr32_at (len head i : BitVec 32) (hl : 0 < len.toNat) (hi : head.toNat + i.toNat < 2 ^ 32) :
    (Tr32.At_pos head len i).toNat = landMask ((head.toNat : Int) + (i.toNat : Int)) (len.toNat - 1) ∧
    (Tr32.Set_pos head len i).toNat = landMask ((head.toNat : Int) + (i.toNat : Int)) (len.toNat - 1) := by
  have e : ((head.toNat : Int) + (i.toNat : Int)) = ((head.toNat + i.toNat : Nat) : Int) := by omega
  rw [e, landMask_ofNat]
  constructor <;>
    (simp (disch := omega) [Tr32.At_pos, Tr32.Set_pos, BitVec.toNat_sub_of_le (bv_one_le len hl), BitVec.toNat_add,
      Nat.mod_eq_of_lt, Nat.add_comm] <;> ac_rfl)

/-- `Tr32.Deque_prev` is the model's `mask d (i - 1)`, also at `i = 0` where `i - 1` is negative -/
theorem C12_tr32_prev (len i : BitVec 32) (hl : 0 < len.toNat) :
    (Tr32.Deque_prev len i).toNat = landMask ((i.toNat : Int) - 1) (len.toNat - 1) := by
  by_cases h0 : i.toNat = 0
  · have : i = 0#32 := BitVec.eq_of_toNat_eq (by simpa using h0)
    subst this
    have hm : len.toNat - 1 < 2 ^ 32 := by have := len.isLt; omega
    have key : (len.toNat - 1) &&& 4294967295 = len.toNat - 1 :=
      (Nat.and_two_pow_sub_one_eq_mod (len.toNat - 1) 32).trans (Nat.mod_eq_of_lt hm)
    have key' : 4294967295 &&& (len.toNat - 1) = len.toNat - 1 := by rw [Nat.and_comm]; exact key
    show _ = len.toNat - 1 - (0 &&& (len.toNat - 1))
    simp (disch := omega) [Tr32.Deque_prev, BitVec.toNat_sub_of_le (bv_one_le len hl), key, key']
  · have e : ((i.toNat : Int) - 1) = ((i.toNat - 1 : Nat) : Int) := by omega
    rw [e, landMask_ofNat]
    simp (disch := omega) [Tr32.Deque_prev, BitVec.toNat_sub_of_le (bv_one_le len hl),
      BitVec.toNat_sub_of_le (bv_one_le i (by omega))] <;> ac_rfl

/-- `Tr32.shrink_cond` is the condition of the model's `shrinkIfExcess` (sizes below 2^29: no bit is shifted out) -/
theorem C12_tr32_shrink (count minCap len : BitVec 32) (hc : count.toNat < 2 ^ 29)
    (hm : minCap.toNat < 2 ^ 31) (hl : len.toNat < 2 ^ 31) :
    Tr32.shrink_cond count minCap len =
      decide (len.toNat > minCap.toNat ∧ count.toNat <<< params.shrinkShift = len.toNat) := by
  have e1 : minCap.toInt = minCap.toNat := BitVec.toInt_eq_toNat_of_lt (by omega)
  have e2 : len.toInt = len.toNat := BitVec.toInt_eq_toNat_of_lt (by omega)
  rw [Bool.eq_iff_iff]
  simp (disch := omega) [Tr32.shrink_cond, BitVec.slt, e1, e2, params, Gen.C12.shrinkShift, Nat.shiftLeft_eq,
    BitVec.toNat_eq, Nat.mod_eq_of_lt, and_comm, eq_comm (a := len.toNat)]

/-- non-vacuity / test (samples): a 16-slot buffer, wrap at both ends -/
example : Tr.Deque_prev 16#64 0#64 = 15#64 ∧ Tr.Deque_next 16#64 15#64 = 0#64 ∧ Tr.At_pos 14#64 16#64 5#64 = 3#64 ∧
    Tr32.Deque_prev 16#32 0#32 = 15#32 ∧ Tr.shrink_cond 4#64 8#64 16#64 = true ∧ Tr.shrink_cond 4#64 16#64 16#64 = false := by decide

end Translated

end Fatchoy.C12
