/-
C06 — timer cancellation and bookkeeping are atomic and never crash the scheduler.

Property theorems only.  Same two transition systems as C05 (Model/C05Sched.lean): a client call
(after / every / cancel) is ONE action — the code holds `guard` for the whole body — and each `select`
case of the worker (handle one start request, handle one cancel request, tick) is one action; a
state is reachable by ANY interleaving of them (`WReach` / `HReach`), so every statement below holds
"however the cancel is ordered relative to the scheduler's handling of the start request, of ticks
and of other requests".  `Res.panic` marks every place where the code panics (or `trigger` spins).

Linearisation.  "Delivered" is the worker's decision under the guard (the log entry); the channel send
that follows is transport.  A periodic timer cancelled between that decision and the send can still
appear once on `Chan()`: that window is not in the model (see conf/C06.json, `partial`).
-/
import Fatchoy.Lemmas.C05Ex
namespace Fatchoy.C06
open Fatchoy.C05

theorem C06_valid : Valid geom := by decide

/-! ## wheel -/

/-- CANCEL RETURNS TRUE IFF PENDING (wheel): in any reachable state, Cancel(id) answers true exactly when
the timer is in the pipeline (its start request is queued, or it is linked in the wheel — a delivered
one-shot timer is in neither) and has not been cancelled before -/
theorem C06_wheel_cancel_iff_pending (G : Geom) (hv : Valid G) {s s' : WS} (hr : WReach G s) (id : Nat) (b : Bool)
    (hs : WS.step G s (.cancel id) = .ok s' (.bool b)) :
    (b = true ↔ (id ∈ s.f.addIds ∨ id ∈ ids s.w.nodes) ∧ id ∉ s.f.cancelled) := by
  obtain ⟨hG, _⟩ := hv
  generalize G.reqCap = c at hG
  subst hG
  have hi := hr.inv.front.refer_iff id
  simp only [WS.step] at hs
  split at hs
  · rename_i hin
    split at hs
    · cases hs
    · simp only [Res.ok.injEq, Out.bool.injEq] at hs
      rw [← hs.2]; simp only [true_iff]; exact hi.mp hin
  · rename_i hin
    simp only [Res.ok.injEq, Out.bool.injEq] at hs
    rw [← hs.2]
    simp only [Bool.false_eq_true, false_iff]
    exact fun h => hin (hi.mpr h)

/-- A TRUE CANCEL IS FINAL (wheel): after Cancel(id) returned true the timer is out of the table at once
(`IsScheduled` false, `Size` one less) and, along ANY continuation — whatever order the worker
handles the start request, the cancel request and ticks in — it is never delivered and never
scheduled again -/
theorem C06_wheel_cancel_final (G : Geom) (hv : Valid G) {s s1 : WS} (hr : WReach G s) (id : Nat)
    (hs : WS.step G s (.cancel id) = .ok s1 (.bool true)) :
    id ∉ s1.f.refer ∧ s1.f.refer.length + 1 = s.f.refer.length ∧ s1.f.log = s.f.log ∧
    ∀ (acts : List Act) (s' : WS), WS.run G s1 acts = some s' →
      id ∉ s'.f.refer ∧ entries s'.f.log id = entries s.f.log id := by
  obtain ⟨hG, _⟩ := hv
  generalize G.reqCap = c at hG
  subst hG
  have h1 : WInv s1 := hr.inv.step c hs
  simp only [WS.step] at hs
  split at hs
  · rename_i hin
    split at hs
    · cases hs
    · simp only [Res.ok.injEq, and_true] at hs
      subst hs
      have hc : id ∈ (s.f.cancel id).cancelled := List.mem_append_right _ (List.mem_singleton.mpr rfl)
      refine ⟨?_, length_filter_ne hr.inv.front.refer_nodup hin, rfl, ?_⟩
      · exact fun hm => ((h1.front.refer_iff id).mp hm).2 hc
      · intro acts s' hrun
        obtain ⟨c2, e2, i2⟩ := cancelled_run c id acts _ s' h1 hc hrun
        exact ⟨fun hm => ((i2.front.refer_iff id).mp hm).2 c2, e2⟩
  · simp only [Res.ok.injEq, Out.bool.injEq, Bool.false_eq_true, and_false] at hs

/-- A FALSE CANCEL IS A NO-OP (both schedulers): it changes nothing at all -/
theorem C06_wheel_cancel_false_noop (G : Geom) {s s' : WS} (id : Nat)
    (hs : WS.step G s (.cancel id) = .ok s' (.bool false)) : s' = s := by
  simp only [WS.step] at hs
  split at hs
  · split at hs
    · cases hs
    · simp only [Res.ok.injEq, Out.bool.injEq, Bool.true_eq_false, and_false] at hs
  · simp only [Res.ok.injEq, and_true] at hs; exact hs.symm

/-- NO CRASH (wheel): in no reachable state does any action reach a panic site (`bucket.addNode` on a
linked node, nil bucket, bucket mismatch), whatever order start requests, cancel requests and ticks
were handled in -/
theorem C06_wheel_no_crash (G : Geom) (hv : Valid G) {s : WS} (hr : WReach G s) (a : Act) :
    WS.step G s a ≠ .panic := by
  obtain ⟨hG, _⟩ := hv
  generalize G.reqCap = c at hG
  subst hG
  intro hp
  have h := hr.inv
  cases a with
  | after d => simp only [WS.step] at hp; split at hp <;> cases hp
  | every p => simp only [WS.step] at hp; split at hp <;> cases hp
  | cancel j =>
    simp only [WS.step] at hp
    split at hp
    · split at hp <;> cases hp
    · cases hp
  | add =>
    simp only [WS.step] at hp
    split at hp
    · cases hp
    · rename_i r q hq
      split at hp
      · cases hp
      · split at hp
        · rename_i hany
          obtain ⟨n, hn, hi⟩ := List.any_eq_true.mp hany
          simp only [beq_iff_eq] at hi
          have hnd := h.front.nodup
          rw [List.nodup_append] at hnd
          exact hnd.2.2 r.id (by simp [Front.addIds, hq]) r.id (mem_ids.mpr ⟨n, hn, hi⟩) rfl
        · cases hp
  | del => simp only [WS.step] at hp; split at hp <;> cases hp
  | tick => simp only [WS.step] at hp; cases hp
  | clock n => simp only [WS.step] at hp; cases hp

/-- IDS ARE UNIQUE (wheel): the id a start call returns is new — not in the table, not queued, not linked,
never cancelled — and is in the table afterwards -/
theorem C06_wheel_ids_unique (G : Geom) (hv : Valid G) {s s' : WS} (hr : WReach G s) (a : Act)
    (ha : (∃ d, a = .after d) ∨ (∃ p, a = .every p)) (i : Nat) (hs : WS.step G s a = .ok s' (.id i)) :
    i ∉ s.f.refer ∧ i ∉ s.f.addIds ∧ i ∉ ids s.w.nodes ∧ i ∉ s.f.cancelled ∧ i ∈ s'.f.refer := by
  obtain ⟨hG, _⟩ := hv
  generalize G.reqCap = c at hG
  subst hG
  have h := hr.inv.front
  have hid : i = s.f.nextId + 1 ∧ i ∈ s'.f.refer := by
    rcases ha with ⟨d, rfl⟩ | ⟨p, rfl⟩ <;>
    · simp only [WS.step] at hs
      split at hs
      · cases hs
      · simp only [Res.ok.injEq, Out.id.injEq] at hs
        obtain ⟨rfl, rfl⟩ := hs
        exact ⟨nextID_eq _ _ h, List.mem_append_right _ (List.mem_singleton.mpr rfl)⟩
  obtain ⟨rfl, h5⟩ := hid
  refine ⟨fun hm => ?_, fun hm => ?_, fun hm => ?_, fun hm => ?_, h5⟩
  · have := h.refer_le _ hm; omega
  · have := h.addq_le _ hm; omega
  · have := h.linked_le _ hm; omega
  · have := h.canc_le _ hm; omega

/-- OTHERS UNTOUCHED (wheel): handling a cancel request unlinks only nodes of a CANCELLED timer — every
node of an uncancelled timer stays linked — and it touches neither the table nor the log; the
client's Cancel(id) changes no other timer's table entry and nothing in the wheel -/
theorem C06_wheel_others_untouched (G : Geom) (hv : Valid G) {s s' : WS} (hr : WReach G s) :
    (∀ o, WS.step G s .del = .ok s' o →
      (∀ n ∈ s.w.nodes, n.id ∉ s.f.cancelled → n ∈ s'.w.nodes) ∧ s'.f.refer = s.f.refer ∧ s'.f.log = s.f.log) ∧
    (∀ id o, WS.step G s (.cancel id) = .ok s' o →
      s'.w = s.w ∧ s'.f.log = s.f.log ∧ ∀ j, j ≠ id → (j ∈ s'.f.refer ↔ j ∈ s.f.refer)) := by
  obtain ⟨hG, _⟩ := hv
  generalize G.reqCap = c at hG
  subst hG
  refine ⟨fun o hs => ?_, fun id o hs => ?_⟩
  · simp only [WS.step] at hs
    split at hs
    · cases hs; exact ⟨fun n hn _ => hn, rfl, rfl⟩
    · rename_i i q hq
      cases hs
      have hi : i ∈ s.f.cancelled := hr.inv.front.delq i (by rw [hq]; exact List.mem_cons_self ..)
      refine ⟨fun n hn hl => List.mem_filter.mpr ⟨hn, ?_⟩, rfl, rfl⟩
      simp only [ne_eq, decide_eq_true_eq]
      exact fun e => hl (e ▸ hi)
  · simp only [WS.step] at hs
    split at hs
    · split at hs
      · cases hs
      · cases hs
        refine ⟨rfl, rfl, fun j hj => ?_⟩
        simp only [Front.cancel, List.mem_filter, ne_eq, decide_eq_true_eq, hj, not_false_eq_true, and_true]
    · cases hs; exact ⟨rfl, rfl, fun _ _ => Iff.rfl⟩

/-- BOOKKEEPING (wheel): in every reachable state the table has no duplicate and holds exactly the pending
timers, so `Size()` is their number and `IsScheduled(id)` is "id is pending" -/
theorem C06_wheel_bookkeeping (G : Geom) (hv : Valid G) {s : WS} (hr : WReach G s) :
    s.f.refer.Nodup ∧ ∀ id, id ∈ s.f.refer ↔ (id ∈ s.f.addIds ∨ id ∈ ids s.w.nodes) ∧ id ∉ s.f.cancelled := by
  obtain ⟨hG, _⟩ := hv
  generalize G.reqCap = c at hG
  subst hG
  exact ⟨hr.inv.front.refer_nodup, hr.inv.front.refer_iff⟩

/-- NO STALL (wheel): the worker's steps are always enabled (never blocked, and by `no_crash` never a
panic); a client call can only wait for room in its request channel -/
theorem C06_wheel_no_stall (G : Geom) (s : WS) (a : Act) (hb : WS.step G s a = .blocked) :
    ((∃ d, a = .after d) ∨ (∃ p, a = .every p)) ∧ G.reqCap ≤ s.f.addQ.length ∨
    (∃ id, a = .cancel id) ∧ G.reqCap ≤ s.f.delQ.length := by
  cases a with
  | after d =>
    simp only [WS.step] at hb
    split at hb
    · rename_i hf; exact .inl ⟨.inl ⟨d, rfl⟩, hf⟩
    · cases hb
  | every p =>
    simp only [WS.step] at hb
    split at hb
    · rename_i hf; exact .inl ⟨.inr ⟨p, rfl⟩, hf⟩
    · cases hb
  | cancel j =>
    simp only [WS.step] at hb
    split at hb
    · split at hb
      · rename_i hf; exact .inr ⟨⟨j, rfl⟩, hf⟩
      · cases hb
    · cases hb
  | add =>
    simp only [WS.step] at hb
    split at hb
    · cases hb
    · split at hb
      · cases hb
      · split at hb <;> cases hb
  | del => simp only [WS.step] at hb; split at hb <;> cases hb
  | tick => simp only [WS.step] at hb; cases hb
  | clock n => simp only [WS.step] at hb; cases hb

/-! ## heap -/

theorem C06_heap_cancel_iff_pending (G : Geom) {s s' : HS} (hr : HReach G s) (id : Nat) (b : Bool)
    (hs : HS.step G s (.cancel id) = .ok s' (.bool b)) :
    (b = true ↔ (id ∈ s.f.addIds ∨ id ∈ hids s.heap) ∧ id ∉ s.f.cancelled) := by
  have hi := hr.inv.front.refer_iff id
  simp only [HS.step] at hs
  split at hs
  · rename_i hin
    split at hs
    · cases hs
    · simp only [Res.ok.injEq, Out.bool.injEq] at hs
      rw [← hs.2]; simp only [true_iff]; exact hi.mp hin
  · rename_i hin
    simp only [Res.ok.injEq, Out.bool.injEq] at hs
    rw [← hs.2]
    simp only [Bool.false_eq_true, false_iff]
    exact fun h => hin (hi.mpr h)

theorem C06_heap_cancel_final (G : Geom) {s s1 : HS} (hr : HReach G s) (id : Nat)
    (hs : HS.step G s (.cancel id) = .ok s1 (.bool true)) :
    id ∉ s1.f.refer ∧ s1.f.refer.length + 1 = s.f.refer.length ∧ s1.f.log = s.f.log ∧
    ∀ (acts : List Act) (s' : HS), HS.run G s1 acts = some s' →
      id ∉ s'.f.refer ∧ entries s'.f.log id = entries s.f.log id := by
  have h1 : HInv s1 := hr.inv.step G hs
  simp only [HS.step] at hs
  split at hs
  · rename_i hin
    split at hs
    · cases hs
    · simp only [Res.ok.injEq, and_true] at hs
      subst hs
      have hc : id ∈ (s.f.cancel id).cancelled := List.mem_append_right _ (List.mem_singleton.mpr rfl)
      refine ⟨?_, length_filter_ne hr.inv.front.refer_nodup hin, rfl, ?_⟩
      · exact fun hm => ((h1.front.refer_iff id).mp hm).2 hc
      · intro acts s' hrun
        obtain ⟨c2, e2, i2⟩ := hcancelled_run G id acts _ s' h1 hc hrun
        exact ⟨fun hm => ((i2.front.refer_iff id).mp hm).2 c2, e2⟩
  · simp only [Res.ok.injEq, Out.bool.injEq, Bool.false_eq_true, and_false] at hs

theorem C06_heap_cancel_false_noop (G : Geom) {s s' : HS} (id : Nat)
    (hs : HS.step G s (.cancel id) = .ok s' (.bool false)) : s' = s := by
  simp only [HS.step] at hs
  split at hs
  · split at hs
    · cases hs
    · simp only [Res.ok.injEq, Out.bool.injEq, Bool.true_eq_false, and_false] at hs
  · simp only [Res.ok.injEq, and_true] at hs; exact hs.symm

/-- NO CRASH (heap): `heap.Remove` is only called with an index inside the heap (model: a cancel request for
a timer that is not in the heap is a no-op), and `trigger` always terminates (no spin on `id > maxId`,
fuel never runs out), whatever order start requests, cancel requests and ticks were handled in -/
theorem C06_heap_no_crash (G : Geom) {s : HS} (hr : HReach G s) (a : Act) :
    HS.step G s a ≠ .panic := by
  intro hp
  cases a with
  | after d => simp only [HS.step] at hp; split at hp <;> cases hp
  | every p => simp only [HS.step] at hp; split at hp <;> cases hp
  | cancel j =>
    simp only [HS.step] at hp
    split at hp
    · split at hp <;> cases hp
    · cases hp
  | add =>
    simp only [HS.step] at hp
    split at hp
    · cases hp
    · split at hp <;> cases hp
  | del => simp only [HS.step] at hp; split at hp <;> cases hp
  | tick =>
    simp only [HS.step] at hp
    obtain ⟨s', r0, _⟩ := HS.tick_spec s hr.inv
    rw [r0] at hp
    cases hp
  | clock n => simp only [HS.step] at hp; cases hp

theorem C06_heap_ids_unique (G : Geom) {s s' : HS} (hr : HReach G s) (a : Act)
    (ha : (∃ d, a = .after d) ∨ (∃ p, a = .every p)) (i : Nat) (hs : HS.step G s a = .ok s' (.id i)) :
    i ∉ s.f.refer ∧ i ∉ s.f.addIds ∧ i ∉ hids s.heap ∧ i ∉ s.f.cancelled ∧ i ∈ s'.f.refer := by
  have h := hr.inv.front
  have hid : i = s.f.nextId + 1 ∧ i ∈ s'.f.refer := by
    rcases ha with ⟨d, rfl⟩ | ⟨p, rfl⟩ <;>
    · simp only [HS.step] at hs
      split at hs
      · cases hs
      · simp only [Res.ok.injEq, Out.id.injEq] at hs
        obtain ⟨rfl, rfl⟩ := hs
        exact ⟨nextID_eq _ _ h, List.mem_append_right _ (List.mem_singleton.mpr rfl)⟩
  obtain ⟨rfl, h5⟩ := hid
  refine ⟨fun hm => ?_, fun hm => ?_, fun hm => ?_, fun hm => ?_, h5⟩
  · have := h.refer_le _ hm; omega
  · have := h.addq_le _ hm; omega
  · have := h.linked_le _ hm; omega
  · have := h.canc_le _ hm; omega

theorem C06_heap_others_untouched (G : Geom) {s s' : HS} (hr : HReach G s) :
    (∀ o, HS.step G s .del = .ok s' o →
      (∀ n ∈ s.heap, n.id ∉ s.f.cancelled → n ∈ s'.heap) ∧ s'.f.refer = s.f.refer ∧ s'.f.log = s.f.log) ∧
    (∀ id o, HS.step G s (.cancel id) = .ok s' o →
      s'.heap = s.heap ∧ s'.f.log = s.f.log ∧ ∀ j, j ≠ id → (j ∈ s'.f.refer ↔ j ∈ s.f.refer)) := by
  refine ⟨fun o hs => ?_, fun id o hs => ?_⟩
  · simp only [HS.step] at hs
    split at hs
    · cases hs; exact ⟨fun n hn _ => hn, rfl, rfl⟩
    · rename_i i q hq
      cases hs
      have hi : i ∈ s.f.cancelled := hr.inv.front.delq i (by rw [hq]; exact List.mem_cons_self ..)
      refine ⟨fun n hn hl => List.mem_filter.mpr ⟨hn, ?_⟩, rfl, rfl⟩
      simp only [ne_eq, decide_eq_true_eq]
      exact fun e => hl (e ▸ hi)
  · simp only [HS.step] at hs
    split at hs
    · split at hs
      · cases hs
      · cases hs
        refine ⟨rfl, rfl, fun j hj => ?_⟩
        simp only [Front.cancel, List.mem_filter, ne_eq, decide_eq_true_eq, hj, not_false_eq_true, and_true]
    · cases hs; exact ⟨rfl, rfl, fun _ _ => Iff.rfl⟩

theorem C06_heap_bookkeeping (G : Geom) {s : HS} (hr : HReach G s) :
    s.f.refer.Nodup ∧ ∀ id, id ∈ s.f.refer ↔ (id ∈ s.f.addIds ∨ id ∈ hids s.heap) ∧ id ∉ s.f.cancelled :=
  ⟨hr.inv.front.refer_nodup, hr.inv.front.refer_iff⟩

theorem C06_heap_no_stall (G : Geom) (s : HS) (a : Act) (hb : HS.step G s a = .blocked) :
    ((∃ d, a = .after d) ∨ (∃ p, a = .every p)) ∧ G.reqCap ≤ s.f.addQ.length ∨
    (∃ id, a = .cancel id) ∧ G.reqCap ≤ s.f.delQ.length := by
  cases a with
  | after d =>
    simp only [HS.step] at hb
    split at hb
    · rename_i hf; exact .inl ⟨.inl ⟨d, rfl⟩, hf⟩
    · cases hb
  | every p =>
    simp only [HS.step] at hb
    split at hb
    · rename_i hf; exact .inl ⟨.inr ⟨p, rfl⟩, hf⟩
    · cases hb
  | cancel j =>
    simp only [HS.step] at hb
    split at hb
    · split at hb
      · rename_i hf; exact .inr ⟨⟨j, rfl⟩, hf⟩
      · cases hb
    · cases hb
  | add =>
    simp only [HS.step] at hb
    split at hb
    · cases hb
    · split at hb <;> cases hb
  | del => simp only [HS.step] at hb; split at hb <;> cases hb
  | tick => simp only [HS.step] at hb; split at hb <;> cases hb
  | clock n => simp only [HS.step] at hb; cases hb

/-! ## non-vacuity

`exW` / `exH` (Lemmas/C05Ex.lean) are reachable states in which timer 5 was started and cancelled
before the worker saw either request (start request still queued, cancel request queued), timers 1–4
are linked.  The worker may now handle the cancel first, the start first, or tick first. -/

example : WReach geom exW ∧ exW.f.addQ.map (·.id) = [5] ∧ exW.f.delQ = [5] ∧ exW.f.cancelled = [5] ∧
    exW.f.refer = [1, 2, 3, 4] := ⟨exW_reach, by decide, by decide, by decide, by decide⟩

/-- the cancel request overtakes the start request (del before add), then the start is handled, then ticks:
no panic (the run exists), timer 5 is never delivered, the others are -/
example : (WS.run geom exW [.del, .add, .tick, .tick, .tick, .cancel 5]).map
    (fun s => (entries s.f.log 5, entries s.f.log 1, s.f.refer, ids s.w.nodes)) = some ([], [(10, 1)], [2, 3, 4], [3, 4, 2]) := by
  decide

/-- C06_wheel_cancel_final applied to cancelling timer 1 one tick before it is due -/
example (s1 : WS) (h : WS.step geom exW (.cancel 1) = .ok s1 (.bool true)) (s' : WS)
    (hr : WS.run geom s1 [.tick, .tick, .tick, .del, .del, .tick] = some s') :
    1 ∉ s'.f.refer ∧ entries s'.f.log 1 = entries exW.f.log 1 :=
  (C06_wheel_cancel_final geom C06_valid exW_reach 1 h).2.2.2 _ s' hr

example : ∃ s1, WS.step geom exW (.cancel 1) = .ok s1 (.bool true) := ⟨_, rfl⟩

example : HReach geom exH ∧ exH.f.addQ.map (·.id) = [5] ∧ exH.f.delQ = [5] ∧ exH.f.cancelled = [5] :=
  ⟨exH_reach, by decide, by decide, by decide⟩

example : (HS.run geom exH [.del, .add, .clock 5, .tick, .cancel 5]).map
    (fun s => (entries s.f.log 5, entries s.f.log 1, s.f.refer, hids s.heap)) = some ([], [(1005, 1)], [2, 3, 4], [2, 3, 4]) := by
  decide

end Fatchoy.C06
