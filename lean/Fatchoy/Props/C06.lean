/-
C06 — timer cancellation and bookkeeping are atomic and never crash the scheduler.

Property theorems only.  The transition systems are the FINE-GRAINED ones of Model/C06Fine.lean: a client
call (after / every / cancel) is ONE step — the code holds `guard` for its whole body — and the worker's
steps are: handle one start request, handle one cancel request (both only between ticks, they are
`select` cases), enter a tick, and, INSIDE a tick, one step per guarded region (the decision about one
node: cancelled → drop, one-shot → leaves the table, else deliver) and one per channel send.  A state
is reachable (`WFReach` / `HFReach`) by ANY interleaving of these, so a client call may fall before or
after the worker handles the start request, between two nodes of ONE expiry pass, between a node's
decision and its send — "however the cancel is ordered relative to the scheduler's handling of the
start request, of ticks and of other requests".  `Res.panic` marks every place where the code panics (or
`trigger` spins).  `x.pc` is where the worker is; `x.pc.ids` (wheel) the ids it holds in its hands that
are still pending (detached chain, a periodic node between decision and re-arm); `x.pc.inflight` the
ids decided for delivery whose send has not happened yet.

Linearisation and the ONE stated partial.  A delivery is linearised at the decision under the guard.  A
one-shot timer decided for delivery has left the table, so a Cancel arriving before its send answers
false — consistent.  A PERIODIC timer stays in the table; a Cancel arriving between its decision and
its send answers true and cannot stop that send: `C06_*_cancel_final` therefore says "after a true
Cancel the timer is never decided for delivery again, and the log gains at most the sends that were
already in flight at that moment (none if it was not in flight)".  Closing the window would need the
send under the guard, which can deadlock with a full `C`.

The atomic `tick` of the C05 models is the uninterrupted run of these steps (`C06_*_tick_refines`), and
every state of the C05 systems is a state of these (`WReach.fine`, `HReach.fine`).
-/
import Fatchoy.Lemmas.C06Ex
namespace Fatchoy.C06
open Fatchoy.C05

theorem C06_valid : Valid geom := by decide

/-! ## wheel -/

/-- the atomic tick of Model/C05Sched.lean = `begin` followed by uninterrupted `next` steps -/
theorem C06_wheel_tick_refines (G : Geom) (s : WS) :
    ∃ k, WF.nexts G k (WF.detach G { s := s, pc := .idle } false) = some { s := WS.tick G s, pc := .idle } :=
  WF.fine_tick G s

/-- CANCEL RETURNS TRUE IFF PENDING (wheel): wherever the worker is, Cancel(id) answers true exactly when
the timer is in the pipeline — start request queued, linked in the wheel, in the detached chain not yet
decided, or a periodic node between its decision and its re-arm (a one-shot timer decided for delivery
is NOT pending any more) — and has not been cancelled before -/
theorem C06_wheel_cancel_iff_pending (G : Geom) {x x' : WF} (hr : WFReach G x) (id : Nat) (b : Bool)
    (hs : WF.step G x (.cl (.cancel id)) = .ok x' (.bool b)) :
    (b = true ↔ (id ∈ x.s.f.addIds ∨ id ∈ ids x.s.w.nodes ∨ id ∈ x.pc.ids) ∧ id ∉ x.s.f.cancelled) := by
  obtain ⟨_, s', hs', _⟩ := WF.cl_inv G hs
  have hi := hr.inv.front.refer_iff id
  simp only [List.mem_append] at hi
  simp only [WS.step] at hs'
  split at hs'
  · rename_i hin
    split at hs'
    · cases hs'
    · simp only [Res.ok.injEq, Out.bool.injEq] at hs'
      rw [← hs'.2]; simp only [true_iff]; exact hi.mp hin
  · rename_i hin
    simp only [Res.ok.injEq, Out.bool.injEq] at hs'
    rw [← hs'.2]
    simp only [Bool.false_eq_true, false_iff]
    exact fun h => hin (hi.mpr h)

/-- A TRUE CANCEL IS FINAL (wheel), at any point — also inside an expiry pass.  After Cancel(id) returned
true: the timer is out of the table at once (`IsScheduled` false, `Size` one less), nothing else
changed; if it was in flight at that moment it is a PERIODIC timer between its decision and its send;
and along ANY continuation it is never scheduled again and its deliveries in the log grow by at most
the sends that were in flight at the moment of the Cancel — by none at all if it was not in flight. -/
theorem C06_wheel_cancel_final (G : Geom) {x x1 : WF} (hr : WFReach G x) (id : Nat)
    (hs : WF.step G x (.cl (.cancel id)) = .ok x1 (.bool true)) :
    id ∉ x1.s.f.refer ∧ x1.s.f.refer.length + 1 = x.s.f.refer.length ∧ x1.s.f.log = x.s.f.log ∧
    x1.pc = x.pc ∧ x1.s.w = x.s.w ∧
    (∀ b n ns, x.pc = .send b n ns → n.id = id → n.period > 0) ∧
    ∀ (acts : List FAct) (x' : WF), WF.run G x1 acts = some x' →
      id ∉ x'.s.f.refer ∧
      (∃ new, entries x'.s.f.log id = new ++ entries x.s.f.log id ∧ new.length ≤ x.pc.inflight.count id) ∧
      (id ∉ x.pc.inflight → entries x'.s.f.log id = entries x.s.f.log id) := by
  have h1 : WFInv x1 := hr.inv.step G hs
  obtain ⟨_, s', hs', rfl⟩ := WF.cl_inv G hs
  simp only [WS.step] at hs'
  split at hs'
  · rename_i hin
    split at hs'
    · cases hs'
    · simp only [Res.ok.injEq, and_true] at hs'
      subst hs'
      have hc : id ∈ (x.s.f.cancel id).cancelled := List.mem_append_right _ (List.mem_singleton.mpr rfl)
      refine ⟨?_, length_filter_ne hr.inv.front.refer_nodup hin, rfl, rfl, rfl, ?_, ?_⟩
      · exact fun hm => ((h1.front.refer_iff id).mp hm).2 hc
      · intro b n ns hpc hid
        have := hr.inv.fl_one b n ns hpc
        rcases Nat.eq_zero_or_pos n.period with h0 | hp
        · exact absurd (hid ▸ hin) (this h0)
        · exact hp
      · intro acts x' hrun
        have hb : WBudget { x with s := { x.s with f := x.s.f.cancel id } } id (entries x.s.f.log id)
            (x.pc.inflight.count id) := ⟨hc, [], rfl, by simp⟩
        obtain ⟨c2, new, e2, k2⟩ := wbudget_run G acts _ x' hb hrun
        have hinv' := (WFReach.run acts (hr.step hs) hrun).inv
        refine ⟨fun hm => ((hinv'.front.refer_iff id).mp hm).2 c2, ⟨new, e2, by omega⟩, ?_⟩
        intro hnf
        have : x.pc.inflight.count id = 0 := List.count_eq_zero.mpr hnf
        have hl : new.length = 0 := by omega
        rw [e2, List.length_eq_zero_iff.mp hl, List.nil_append]
  · simp only [Res.ok.injEq, Out.bool.injEq, Bool.false_eq_true, and_false] at hs'

/-- A FALSE CANCEL IS A NO-OP (wheel): it changes nothing at all, wherever the worker is -/
theorem C06_wheel_cancel_false_noop (G : Geom) {x x' : WF} (id : Nat)
    (hs : WF.step G x (.cl (.cancel id)) = .ok x' (.bool false)) : x' = x := by
  obtain ⟨_, s', hs', rfl⟩ := WF.cl_inv G hs
  simp only [WS.step] at hs'
  split at hs'
  · split at hs'
    · cases hs'
    · simp only [Res.ok.injEq, Out.bool.injEq, Bool.true_eq_false, and_false] at hs'
  · simp only [Res.ok.injEq, and_true] at hs'; subst hs'; rfl

/-- NO CRASH (wheel): in no reachable state — the worker idle or anywhere inside a tick — does any step reach
a panic site (`bucket.addNode` on a linked node, nil bucket, bucket mismatch) -/
theorem C06_wheel_no_crash (G : Geom) {x : WF} (hr : WFReach G x) (a : FAct) : WF.step G x a ≠ .panic := by
  intro hp
  have h := hr.inv
  have addOK : x.pc = .idle → WS.step G x.s .add ≠ .panic := by
    intro hpc hq
    simp only [WS.step] at hq
    split at hq
    · cases hq
    · rename_i r q hqq
      split at hq
      · cases hq
      · split at hq
        · rename_i hany
          obtain ⟨n, hn, hi⟩ := List.any_eq_true.mp hany
          simp only [beq_iff_eq] at hi
          have hnd := h.front.nodup
          rw [List.nodup_append] at hnd
          exact hnd.2.2 r.id (by simp [Front.addIds, hqq]) r.id
            (List.mem_append_left _ (mem_ids.mpr ⟨n, hn, hi⟩)) rfl
        · cases hq
  cases a with
  | cl a =>
    simp only [WF.step] at hp
    split at hp
    · rename_i hc
      cases hq : WS.step G x.s a with
      | ok s' o => rw [hq] at hp; simp [WF.lift] at hp
      | blocked => rw [hq] at hp; simp [WF.lift] at hp
      | panic =>
        cases a with
        | after d => simp only [WS.step] at hq; split at hq <;> cases hq
        | every p => simp only [WS.step] at hq; split at hq <;> cases hq
        | cancel j =>
          simp only [WS.step] at hq
          split at hq
          · split at hq <;> cases hq
          · cases hq
        | clock n => simp only [WS.step] at hq; cases hq
        | add => simp [Act.isClient] at hc
        | del => simp [Act.isClient] at hc
        | tick => simp [Act.isClient] at hc
    · cases hp
  | add =>
    simp only [WF.step] at hp
    split at hp
    · rename_i hpc
      cases hq : WS.step G x.s .add with
      | ok s' o => rw [hq] at hp; simp [WF.lift] at hp
      | blocked => rw [hq] at hp; simp [WF.lift] at hp
      | panic => exact addOK hpc hq
    all_goals cases hp
  | del =>
    simp only [WF.step] at hp
    split at hp
    · cases hq : WS.step G x.s .del with
      | ok s' o => rw [hq] at hp; simp [WF.lift] at hp
      | blocked => rw [hq] at hp; simp [WF.lift] at hp
      | panic => simp only [WS.step] at hq; split at hq <;> cases hq
    all_goals cases hp
  | begin => simp only [WF.step] at hp; split at hp <;> cases hp
  | next =>
    simp only [WF.step] at hp
    split at hp
    · cases hp
    · split at hp
      · cases hp
      · split at hp <;> cases hp
    · split at hp <;> cases hp
    · cases hp
    · cases hp

/-- IDS ARE UNIQUE (wheel): the id a start call returns — made at any point, also inside a tick — is new:
not in the table, not queued, not linked, not in the worker's hands, not in flight, never cancelled;
and it is in the table afterwards -/
theorem C06_wheel_ids_unique (G : Geom) {x x' : WF} (hr : WFReach G x) (a : Act)
    (ha : (∃ d, a = .after d) ∨ (∃ p, a = .every p)) (i : Nat) (hs : WF.step G x (.cl a) = .ok x' (.id i)) :
    i ∉ x.s.f.refer ∧ i ∉ x.s.f.addIds ∧ i ∉ ids x.s.w.nodes ∧ i ∉ x.pc.ids ∧ i ∉ x.pc.inflight ∧
    i ∉ x.s.f.cancelled ∧ i ∈ x'.s.f.refer := by
  have h := hr.inv.front
  obtain ⟨_, s', hs', rfl⟩ := WF.cl_inv G hs
  have hid : i = x.s.f.nextId + 1 ∧ i ∈ s'.f.refer := by
    rcases ha with ⟨d, rfl⟩ | ⟨p, rfl⟩ <;>
    · simp only [WS.step] at hs'
      split at hs'
      · cases hs'
      · simp only [Res.ok.injEq, Out.id.injEq] at hs'
        obtain ⟨rfl, rfl⟩ := hs'
        exact ⟨nextID_eq _ _ h, List.mem_append_right _ (List.mem_singleton.mpr rfl)⟩
  obtain ⟨rfl, h5⟩ := hid
  refine ⟨fun hm => ?_, fun hm => ?_, fun hm => ?_, fun hm => ?_, fun hm => ?_, fun hm => ?_, h5⟩
  · have := h.refer_le _ hm; omega
  · have := h.addq_le _ hm; omega
  · have := h.linked_le _ (List.mem_append_left _ hm); omega
  · have := h.linked_le _ (List.mem_append_right _ hm); omega
  · have := hr.inv.fl_le _ hm; omega
  · have := h.canc_le _ hm; omega

/-- OTHERS UNTOUCHED (wheel): handling a cancel request unlinks only nodes of a CANCELLED timer and touches
neither table nor log; the client's Cancel(id) changes no other timer's table entry, nothing in the
wheel and nothing in the worker's hands; a worker step inside a tick changes the table entry of at
most the one node it is deciding about and no cancelled mark -/
theorem C06_wheel_others_untouched (G : Geom) {x x' : WF} (hr : WFReach G x) :
    (∀ o, WF.step G x .del = .ok x' o →
      (∀ n ∈ x.s.w.nodes, n.id ∉ x.s.f.cancelled → n ∈ x'.s.w.nodes) ∧ x'.s.f.refer = x.s.f.refer ∧
      x'.s.f.log = x.s.f.log) ∧
    (∀ id o, WF.step G x (.cl (.cancel id)) = .ok x' o →
      x'.s.w = x.s.w ∧ x'.pc = x.pc ∧ x'.s.f.log = x.s.f.log ∧ ∀ j, j ≠ id → (j ∈ x'.s.f.refer ↔ j ∈ x.s.f.refer)) ∧
    (∀ o, WF.step G x .next = .ok x' o →
      x'.s.f.cancelled = x.s.f.cancelled ∧
      ∀ j, (∀ b n ns, x.pc = .pass b (n :: ns) → j ≠ n.id) → (j ∈ x'.s.f.refer ↔ j ∈ x.s.f.refer)) := by
  refine ⟨fun o hs => ?_, fun id o hs => ?_, fun o hs => ?_⟩
  · simp only [WF.step] at hs
    split at hs
    · cases hq : WS.step G x.s .del with
      | ok s' o' =>
        rw [hq] at hs
        simp only [WF.lift, Res.ok.injEq] at hs
        obtain ⟨rfl, _⟩ := hs
        simp only [WS.step] at hq
        split at hq
        · cases hq; exact ⟨fun n hn _ => hn, rfl, rfl⟩
        · rename_i i q hqq
          cases hq
          have hi : i ∈ x.s.f.cancelled := hr.inv.front.delq i (by rw [hqq]; exact List.mem_cons_self ..)
          refine ⟨fun n hn hl => List.mem_filter.mpr ⟨hn, ?_⟩, rfl, rfl⟩
          simp only [ne_eq, decide_eq_true_eq]
          exact fun e => hl (e ▸ hi)
      | blocked => rw [hq] at hs; simp [WF.lift] at hs
      | panic => rw [hq] at hs; simp [WF.lift] at hs
    all_goals cases hs
  · obtain ⟨_, s', hs', rfl⟩ := WF.cl_inv G hs
    simp only [WS.step] at hs'
    split at hs'
    · split at hs'
      · cases hs'
      · cases hs'
        refine ⟨rfl, rfl, rfl, fun j hj => ?_⟩
        simp only [Front.cancel, List.mem_filter, ne_eq, decide_eq_true_eq, hj, not_false_eq_true, and_true]
    · cases hs'; exact ⟨rfl, rfl, rfl, fun _ _ => Iff.rfl⟩
  · simp only [WF.step] at hs
    split at hs
    · cases hs
    · rename_i b n ns hpc
      split at hs
      · cases hs; exact ⟨rfl, fun _ _ => Iff.rfl⟩
      · split at hs
        · cases hs; exact ⟨rfl, fun _ _ => Iff.rfl⟩
        · cases hs
          refine ⟨rfl, fun j hj => ?_⟩
          have := hj b n ns hpc
          simp only [Front.drop, List.mem_filter, ne_eq, decide_eq_true_eq, this, not_false_eq_true, and_true]
    · split at hs <;> cases hs <;> exact ⟨rfl, fun _ _ => Iff.rfl⟩
    · cases hs; exact ⟨rfl, fun _ _ => Iff.rfl⟩
    · cases hs; exact ⟨rfl, fun _ _ => Iff.rfl⟩

/-- BOOKKEEPING (wheel): at every point, also inside an expiry pass, the table has no duplicate and holds
exactly the pending timers, so `Size()` is their number and `IsScheduled(id)` is "id is pending" -/
theorem C06_wheel_bookkeeping (G : Geom) {x : WF} (hr : WFReach G x) :
    x.s.f.refer.Nodup ∧
    ∀ id, id ∈ x.s.f.refer ↔ (id ∈ x.s.f.addIds ∨ id ∈ ids x.s.w.nodes ∨ id ∈ x.pc.ids) ∧ id ∉ x.s.f.cancelled := by
  refine ⟨hr.inv.front.refer_nodup, fun id => ?_⟩
  have := hr.inv.front.refer_iff id
  simpa only [List.mem_append, or_assoc] using this

/-- NO STALL (wheel): the worker always has an enabled step (between ticks it can enter a tick, inside a
tick its next step is enabled and — by `no_crash` — no panic), and a client call can only wait for room
in its request channel -/
theorem C06_wheel_no_stall (G : Geom) (x : WF) :
    ((∃ x', WF.step G x .begin = .ok x' .done) ∨ (∃ x', WF.step G x .next = .ok x' .done)) ∧
    (∀ a, a.isClient = true → WF.step G x (.cl a) = .blocked →
      ((∃ d, a = .after d) ∨ (∃ p, a = .every p)) ∧ G.reqCap ≤ x.s.f.addQ.length ∨
      (∃ id, a = .cancel id) ∧ G.reqCap ≤ x.s.f.delQ.length) := by
  refine ⟨?_, ?_⟩
  · rcases x with ⟨s, pc⟩
    cases pc with
    | idle => exact .inl ⟨_, rfl⟩
    | pass b chain =>
      right
      cases chain with
      | nil => cases b <;> exact ⟨_, rfl⟩
      | cons n ns =>
        simp only [WF.step]
        split
        · exact ⟨_, rfl⟩
        · split <;> exact ⟨_, rfl⟩
    | send b n ns =>
      right
      simp only [WF.step]
      split <;> exact ⟨_, rfl⟩
  · intro a hc hb
    simp only [WF.step, hc, if_true] at hb
    cases hq : WS.step G x.s a with
    | ok s' o => rw [hq] at hb; simp [WF.lift] at hb
    | panic => rw [hq] at hb; simp [WF.lift] at hb
    | blocked =>
      cases a with
      | after d =>
        simp only [WS.step] at hq
        split at hq
        · rename_i hf; exact .inl ⟨.inl ⟨d, rfl⟩, hf⟩
        · cases hq
      | every p =>
        simp only [WS.step] at hq
        split at hq
        · rename_i hf; exact .inl ⟨.inr ⟨p, rfl⟩, hf⟩
        · cases hq
      | cancel j =>
        simp only [WS.step] at hq
        split at hq
        · split at hq
          · rename_i hf; exact .inr ⟨⟨j, rfl⟩, hf⟩
          · cases hq
        · cases hq
      | clock n => simp only [WS.step] at hq; cases hq
      | add => simp [Act.isClient] at hc
      | del => simp [Act.isClient] at hc
      | tick => simp [Act.isClient] at hc

/-- A TICK ALWAYS ENDS (wheel): `WF.measure` is 0 exactly when the worker is between ticks, every worker step
inside a tick decreases it, and no client call changes it (nor the worker's position) — so a tick is over
after at most `measure` worker steps, however many client calls are interleaved -/
theorem C06_wheel_tick_terminates (G : Geom) {x x' : WF} {o : Out} :
    (x.measure = 0 ↔ x.pc = .idle) ∧
    (WF.step G x .next = .ok x' o → x'.measure < x.measure) ∧
    (∀ a, WF.step G x (.cl a) = .ok x' o → x'.measure = x.measure ∧ x'.pc = x.pc) := by
  refine ⟨?_, WF.next_measure G, fun a => WF.client_measure G⟩
  rcases x with ⟨s, pc⟩
  cases pc with
  | idle => simp [WF.measure]
  | pass b c => cases b <;> simp [WF.measure]
  | send b n c => cases b <;> simp [WF.measure]

/-! ## heap -/

/-- the heap's atomic tick = `begin` followed by uninterrupted `next` steps -/
theorem C06_heap_tick_refines (G : Geom) (s s' : HS) (h : HS.tick s = some s') :
    ∃ k, HF.nexts G k { s := s, pc := .trig s.now s.f.nextId [] } = some { s := s', pc := .idle } :=
  HF.fine_tick G s s' h

/-- CANCEL RETURNS TRUE IFF PENDING (heap): a periodic timer decided for delivery is re-armed in the heap and
stays pending; a one-shot timer decided for delivery was popped and is NOT pending any more -/
theorem C06_heap_cancel_iff_pending (G : Geom) {x x' : HF} (hr : HFReach G x) (id : Nat) (b : Bool)
    (hs : HF.step G x (.cl (.cancel id)) = .ok x' (.bool b)) :
    (b = true ↔ (id ∈ x.s.f.addIds ∨ id ∈ hids x.s.heap) ∧ id ∉ x.s.f.cancelled) := by
  obtain ⟨_, s', hs', _⟩ := HF.cl_inv G hs
  have hi := hr.inv.front.refer_iff id
  simp only [HS.step] at hs'
  split at hs'
  · rename_i hin
    split at hs'
    · cases hs'
    · simp only [Res.ok.injEq, Out.bool.injEq] at hs'
      rw [← hs'.2]; simp only [true_iff]; exact hi.mp hin
  · rename_i hin
    simp only [Res.ok.injEq, Out.bool.injEq] at hs'
    rw [← hs'.2]
    simp only [Bool.false_eq_true, false_iff]
    exact fun h => hin (hi.mpr h)

/-- A TRUE CANCEL IS FINAL (heap), at any point — also between two decisions of `trigger` and between the
decisions and the sends.  If the timer was in flight at that moment it is still in the heap (a re-armed
PERIODIC timer); along ANY continuation it is never scheduled again and its deliveries in the log
grow by at most the sends in flight at the moment of the Cancel — by none if it was not in flight. -/
theorem C06_heap_cancel_final (G : Geom) {x x1 : HF} (hr : HFReach G x) (id : Nat)
    (hs : HF.step G x (.cl (.cancel id)) = .ok x1 (.bool true)) :
    id ∉ x1.s.f.refer ∧ x1.s.f.refer.length + 1 = x.s.f.refer.length ∧ x1.s.f.log = x.s.f.log ∧
    x1.pc = x.pc ∧ x1.s.heap = x.s.heap ∧
    (id ∈ x.pc.inflight → id ∈ hids x.s.heap) ∧
    ∀ (acts : List FAct) (x' : HF), HF.run G x1 acts = some x' →
      id ∉ x'.s.f.refer ∧
      (∃ new, entries x'.s.f.log id = new ++ entries x.s.f.log id ∧ new.length ≤ x.pc.inflight.count id) ∧
      (id ∉ x.pc.inflight → entries x'.s.f.log id = entries x.s.f.log id) := by
  have h1 : HFInv x1 := hr.inv.step G hs
  obtain ⟨_, s', hs', rfl⟩ := HF.cl_inv G hs
  simp only [HS.step] at hs'
  split at hs'
  · rename_i hin
    split at hs'
    · cases hs'
    · simp only [Res.ok.injEq, and_true] at hs'
      subst hs'
      have hc : id ∈ (x.s.f.cancel id).cancelled := List.mem_append_right _ (List.mem_singleton.mpr rfl)
      refine ⟨?_, length_filter_ne hr.inv.front.refer_nodup hin, rfl, rfl, rfl, ?_, ?_⟩
      · exact fun hm => ((h1.front.refer_iff id).mp hm).2 hc
      · intro hfl
        rcases ((hr.inv.front.refer_iff id).mp hin).1 with hq | hl
        · exact absurd hq (hr.inv.fl_q id hfl)
        · exact hl
      · intro acts x' hrun
        have hb : HBudget { x with s := { x.s with f := x.s.f.cancel id } } id (entries x.s.f.log id)
            (x.pc.inflight.count id) := ⟨hc, [], rfl, by simp⟩
        obtain ⟨c2, new, e2, k2⟩ := hbudget_run G acts _ x' hb hrun
        have hinv' := (HFReach.run acts (hr.step hs) hrun).inv
        refine ⟨fun hm => ((hinv'.front.refer_iff id).mp hm).2 c2, ⟨new, e2, by omega⟩, ?_⟩
        intro hnf
        have : x.pc.inflight.count id = 0 := List.count_eq_zero.mpr hnf
        have hl : new.length = 0 := by omega
        rw [e2, List.length_eq_zero_iff.mp hl, List.nil_append]
  · simp only [Res.ok.injEq, Out.bool.injEq, Bool.false_eq_true, and_false] at hs'

theorem C06_heap_cancel_false_noop (G : Geom) {x x' : HF} (id : Nat)
    (hs : HF.step G x (.cl (.cancel id)) = .ok x' (.bool false)) : x' = x := by
  obtain ⟨_, s', hs', rfl⟩ := HF.cl_inv G hs
  simp only [HS.step] at hs'
  split at hs'
  · split at hs'
    · cases hs'
    · simp only [Res.ok.injEq, Out.bool.injEq, Bool.true_eq_false, and_false] at hs'
  · simp only [Res.ok.injEq, and_true] at hs'; subst hs'; rfl

/-- NO CRASH (heap): `heap.Remove` is only called with an index inside the heap (model: a cancel request for a
timer that is not in the heap is a no-op) and `trigger` never spins on `id > maxId`: new timers started
while the worker is inside `trigger` are in the request queue, not in the heap -/
theorem C06_heap_no_crash (G : Geom) {x : HF} (hr : HFReach G x) (a : FAct) : HF.step G x a ≠ .panic := by
  intro hp
  have h := hr.inv
  cases a with
  | cl a =>
    simp only [HF.step] at hp
    split at hp
    · rename_i hc
      cases hq : HS.step G x.s a with
      | ok s' o => rw [hq] at hp; simp [HF.lift] at hp
      | blocked => rw [hq] at hp; simp [HF.lift] at hp
      | panic =>
        cases a with
        | after d => simp only [HS.step] at hq; split at hq <;> cases hq
        | every p => simp only [HS.step] at hq; split at hq <;> cases hq
        | cancel j =>
          simp only [HS.step] at hq
          split at hq
          · split at hq <;> cases hq
          · cases hq
        | clock n => simp only [HS.step] at hq; cases hq
        | add => simp [Act.isClient] at hc
        | del => simp [Act.isClient] at hc
        | tick => simp [Act.isClient] at hc
    · cases hp
  | add =>
    simp only [HF.step] at hp
    split at hp
    · cases hq : HS.step G x.s .add with
      | ok s' o => rw [hq] at hp; simp [HF.lift] at hp
      | blocked => rw [hq] at hp; simp [HF.lift] at hp
      | panic =>
        simp only [HS.step] at hq
        split at hq
        · cases hq
        · split at hq <;> cases hq
    all_goals cases hp
  | del =>
    simp only [HF.step] at hp
    split at hp
    · cases hq : HS.step G x.s .del with
      | ok s' o => rw [hq] at hp; simp [HF.lift] at hp
      | blocked => rw [hq] at hp; simp [HF.lift] at hp
      | panic => simp only [HS.step] at hq; split at hq <;> cases hq
    all_goals cases hp
  | begin => simp only [HF.step] at hp; split at hp <;> cases hp
  | next =>
    simp only [HF.step] at hp
    split at hp
    · cases hp
    · rename_i now maxId exp hpc
      split at hp
      · cases hp
      · rename_i n rest hh
        split at hp
        · cases hp
        · split at hp
          · rename_i hgt
            have := h.trig_le now maxId exp hpc n (by rw [hh]; exact List.mem_cons_self ..)
            omega
          · split at hp
            · cases hp
            · split at hp <;> cases hp
    · cases hp
    · cases hp

theorem C06_heap_ids_unique (G : Geom) {x x' : HF} (hr : HFReach G x) (a : Act)
    (ha : (∃ d, a = .after d) ∨ (∃ p, a = .every p)) (i : Nat) (hs : HF.step G x (.cl a) = .ok x' (.id i)) :
    i ∉ x.s.f.refer ∧ i ∉ x.s.f.addIds ∧ i ∉ hids x.s.heap ∧ i ∉ x.pc.inflight ∧ i ∉ x.s.f.cancelled ∧
    i ∈ x'.s.f.refer := by
  have h := hr.inv.front
  obtain ⟨_, s', hs', rfl⟩ := HF.cl_inv G hs
  have hid : i = x.s.f.nextId + 1 ∧ i ∈ s'.f.refer := by
    rcases ha with ⟨d, rfl⟩ | ⟨p, rfl⟩ <;>
    · simp only [HS.step] at hs'
      split at hs'
      · cases hs'
      · simp only [Res.ok.injEq, Out.id.injEq] at hs'
        obtain ⟨rfl, rfl⟩ := hs'
        exact ⟨nextID_eq _ _ h, List.mem_append_right _ (List.mem_singleton.mpr rfl)⟩
  obtain ⟨rfl, h5⟩ := hid
  refine ⟨fun hm => ?_, fun hm => ?_, fun hm => ?_, fun hm => ?_, fun hm => ?_, h5⟩
  · have := h.refer_le _ hm; omega
  · have := h.addq_le _ hm; omega
  · have := h.linked_le _ hm; omega
  · have := hr.inv.fl_le _ hm; omega
  · have := h.canc_le _ hm; omega

theorem C06_heap_others_untouched (G : Geom) {x x' : HF} (hr : HFReach G x) :
    (∀ o, HF.step G x .del = .ok x' o →
      (∀ n ∈ x.s.heap, n.id ∉ x.s.f.cancelled → n ∈ x'.s.heap) ∧ x'.s.f.refer = x.s.f.refer ∧
      x'.s.f.log = x.s.f.log) ∧
    (∀ id o, HF.step G x (.cl (.cancel id)) = .ok x' o →
      x'.s.heap = x.s.heap ∧ x'.pc = x.pc ∧ x'.s.f.log = x.s.f.log ∧
      ∀ j, j ≠ id → (j ∈ x'.s.f.refer ↔ j ∈ x.s.f.refer)) ∧
    (∀ o, HF.step G x .next = .ok x' o →
      x'.s.f.cancelled = x.s.f.cancelled ∧
      ∀ j, (∀ n rest, x.s.heap = n :: rest → j ≠ n.id) → (j ∈ x'.s.f.refer ↔ j ∈ x.s.f.refer)) := by
  refine ⟨fun o hs => ?_, fun id o hs => ?_, fun o hs => ?_⟩
  · simp only [HF.step] at hs
    split at hs
    · cases hq : HS.step G x.s .del with
      | ok s' o' =>
        rw [hq] at hs
        simp only [HF.lift, Res.ok.injEq] at hs
        obtain ⟨rfl, _⟩ := hs
        simp only [HS.step] at hq
        split at hq
        · cases hq; exact ⟨fun n hn _ => hn, rfl, rfl⟩
        · rename_i i q hqq
          cases hq
          have hi : i ∈ x.s.f.cancelled := hr.inv.front.delq i (by rw [hqq]; exact List.mem_cons_self ..)
          refine ⟨fun n hn hl => List.mem_filter.mpr ⟨hn, ?_⟩, rfl, rfl⟩
          simp only [ne_eq, decide_eq_true_eq]
          exact fun e => hl (e ▸ hi)
      | blocked => rw [hq] at hs; simp [HF.lift] at hs
      | panic => rw [hq] at hs; simp [HF.lift] at hs
    all_goals cases hs
  · obtain ⟨_, s', hs', rfl⟩ := HF.cl_inv G hs
    simp only [HS.step] at hs'
    split at hs'
    · split at hs'
      · cases hs'
      · cases hs'
        refine ⟨rfl, rfl, rfl, fun j hj => ?_⟩
        simp only [Front.cancel, List.mem_filter, ne_eq, decide_eq_true_eq, hj, not_false_eq_true, and_true]
    · cases hs'; exact ⟨rfl, rfl, rfl, fun _ _ => Iff.rfl⟩
  · simp only [HF.step] at hs
    split at hs
    · cases hs
    · split at hs
      · cases hs; exact ⟨rfl, fun _ _ => Iff.rfl⟩
      · rename_i n rest hh
        split at hs
        · cases hs; exact ⟨rfl, fun _ _ => Iff.rfl⟩
        · split at hs
          · cases hs
          · split at hs
            · cases hs; exact ⟨rfl, fun _ _ => Iff.rfl⟩
            · split at hs
              · cases hs; exact ⟨rfl, fun _ _ => Iff.rfl⟩
              · cases hs
                refine ⟨rfl, fun j hj => ?_⟩
                have := hj n rest hh
                simp only [Front.drop, List.mem_filter, ne_eq, decide_eq_true_eq, this, not_false_eq_true, and_true]
    · cases hs; exact ⟨rfl, fun _ _ => Iff.rfl⟩
    · cases hs; exact ⟨rfl, fun _ _ => Iff.rfl⟩

theorem C06_heap_bookkeeping (G : Geom) {x : HF} (hr : HFReach G x) :
    x.s.f.refer.Nodup ∧ ∀ id, id ∈ x.s.f.refer ↔ (id ∈ x.s.f.addIds ∨ id ∈ hids x.s.heap) ∧ id ∉ x.s.f.cancelled :=
  ⟨hr.inv.front.refer_nodup, hr.inv.front.refer_iff⟩

/-- NO STALL (heap): between ticks the worker can enter a tick; inside a tick its next step is enabled in every
REACHABLE state (no spin); a client call can only wait for room in its request channel -/
theorem C06_heap_no_stall (G : Geom) {x : HF} (hr : HFReach G x) :
    ((∃ x', HF.step G x .begin = .ok x' .done) ∨ (∃ x', HF.step G x .next = .ok x' .done)) ∧
    (∀ a, a.isClient = true → HF.step G x (.cl a) = .blocked →
      ((∃ d, a = .after d) ∨ (∃ p, a = .every p)) ∧ G.reqCap ≤ x.s.f.addQ.length ∨
      (∃ id, a = .cancel id) ∧ G.reqCap ≤ x.s.f.delQ.length) := by
  refine ⟨?_, ?_⟩
  · have hnp := C06_heap_no_crash G hr .next
    cases hq : HF.step G x .next with
    | ok x' o =>
      right
      refine ⟨x', ?_⟩
      have : o = .done := by
        simp only [HF.step] at hq
        split at hq
        · cases hq
        · split at hq
          · cases hq; rfl
          · split at hq
            · cases hq; rfl
            · split at hq
              · cases hq
              · split at hq
                · cases hq; rfl
                · split at hq <;> cases hq <;> rfl
        · cases hq; rfl
        · cases hq; rfl
      rw [this]
    | panic => exact absurd hq hnp
    | blocked =>
      left
      simp only [HF.step] at hq
      split at hq
      · rename_i hpc; exact ⟨{ x with pc := .trig x.s.now x.s.f.nextId [] }, by simp only [HF.step, hpc]⟩
      · split at hq
        · cases hq
        · split at hq
          · cases hq
          · split at hq
            · cases hq
            · split at hq
              · cases hq
              · split at hq <;> cases hq
      · cases hq
      · cases hq
  · intro a hc hb
    simp only [HF.step, hc, if_true] at hb
    cases hq : HS.step G x.s a with
    | ok s' o => rw [hq] at hb; simp [HF.lift] at hb
    | panic => rw [hq] at hb; simp [HF.lift] at hb
    | blocked =>
      cases a with
      | after d =>
        simp only [HS.step] at hq
        split at hq
        · rename_i hf; exact .inl ⟨.inl ⟨d, rfl⟩, hf⟩
        · cases hq
      | every p =>
        simp only [HS.step] at hq
        split at hq
        · rename_i hf; exact .inl ⟨.inr ⟨p, rfl⟩, hf⟩
        · cases hq
      | cancel j =>
        simp only [HS.step] at hq
        split at hq
        · split at hq
          · rename_i hf; exact .inr ⟨⟨j, rfl⟩, hf⟩
          · cases hq
        · cases hq
      | clock n => simp only [HS.step] at hq; cases hq
      | add => simp [Act.isClient] at hc
      | del => simp [Act.isClient] at hc
      | tick => simp [Act.isClient] at hc

/-- A TICK ALWAYS ENDS (heap): the same measure argument for `trigger` and the send loop -/
theorem C06_heap_tick_terminates (G : Geom) {x x' : HF} {o : Out} :
    (x.measure = 0 ↔ x.pc = .idle) ∧
    (HF.step G x .next = .ok x' o → x'.measure < x.measure) ∧
    (∀ a, HF.step G x (.cl a) = .ok x' o → x'.measure = x.measure ∧ x'.pc = x.pc) := by
  refine ⟨?_, HF.next_measure G, fun a => HF.client_measure G⟩
  rcases x with ⟨s, pc⟩
  cases pc with
  | idle => simp [HF.measure]
  | trig now m e => simp [HF.measure]
  | sends now r => simp [HF.measure]

/-! ## non-vacuity

`exF` (Lemmas/C06Ex.lean): the wheel of C05's `exW` (timer 5 started and cancelled before the worker saw
either request; timers 1–4 linked), one tick later and INSIDE the next tick: second pass, the bucket with
the periodic timer 2 detached, its decision not yet taken.  `exF'`: one step further — timer 2 decided
for delivery, its send not yet done (in flight).  `exHF` / `exHF'`: the heap scheduler inside `trigger`
before the first decision / after the decisions about timers 2 (periodic, re-armed) and 1 (one-shot,
popped), both sends pending.  All are reachable. -/

example : WFReach geom exF ∧ exF.pc = .pass true [⟨2, 9, 2, 0, 0⟩] ∧ exF.s.f.refer = [1, 2, 3, 4] ∧
    exF.s.f.cancelled = [5] ∧ exF.s.f.delQ = [5] ∧ exF.s.f.addQ.map (·.id) = [5] :=
  ⟨exF_reach, by decide, by decide, by decide, by decide, by decide⟩

example : WFReach geom exF' ∧ exF'.pc = .send true ⟨2, 9, 2, 0, 0⟩ [] ∧ exF'.pc.inflight = [2] ∧ 2 ∈ exF'.s.f.refer :=
  ⟨exF'_reach, by decide, by decide, by decide⟩

/-- Cancel(2) inside the pass BEFORE the decision about timer 2: true, and timer 2 is never delivered
(C06_wheel_cancel_final, not in flight) -/
example (x1 : WF) (h : WF.step geom exF (.cl (.cancel 2)) = .ok x1 (.bool true)) (acts : List FAct) (x' : WF)
    (hr : WF.run geom x1 acts = some x') : 2 ∉ x'.s.f.refer ∧ entries x'.s.f.log 2 = entries exF.s.f.log 2 :=
  let r := (C06_wheel_cancel_final geom exF_reach 2 h).2.2.2.2.2.2 acts x' hr
  ⟨r.1, r.2.2 (by decide)⟩

example : ∃ x1, WF.step geom exF (.cl (.cancel 2)) = .ok x1 (.bool true) := ⟨_, rfl⟩

/-- the same Cancel BETWEEN the decision and the send: true as well (timer 2 is periodic, still in the
table), and exactly the send in flight still happens — the one stated partial; the stale requests
(cancel 5, start 5, cancel 2) are then handled in the order del, add, del without a crash and timer 1
fires on time -/
example : (WF.run geom exF' [.cl (.cancel 2), .next, .next, .del, .add, .del, .begin, .next, .next, .next, .next]).map
    (fun x => (x.s.w.time, entries x.s.f.log 2, entries x.s.f.log 1, x.s.f.refer, ids x.s.w.nodes)) =
    some (10, [(9, 2)], [(10, 1)], [3, 4], [3, 4]) := by decide

example (x1 : WF) (h : WF.step geom exF' (.cl (.cancel 2)) = .ok x1 (.bool true)) (acts : List FAct) (x' : WF)
    (hr : WF.run geom x1 acts = some x') :
    2 ∉ x'.s.f.refer ∧ ∃ new, entries x'.s.f.log 2 = new ++ entries exF'.s.f.log 2 ∧ new.length ≤ 1 :=
  let r := (C06_wheel_cancel_final geom exF'_reach 2 h).2.2.2.2.2.2 acts x' hr
  ⟨r.1, r.2.1⟩

example : HFReach geom exHF ∧ exHF.pc = .trig 1003 5 [] ∧ HFReach geom exHF' ∧
    exHF'.pc = .trig 1003 5 [(2, 1002), (1, 1003)] ∧ exHF'.pc.inflight = [2, 1] ∧ exHF'.s.f.refer = [2, 3, 4] :=
  ⟨exHF_reach, by decide, exHF'_reach, by decide, by decide, by decide⟩

/-- heap, cancels after the decisions: Cancel(2) true (in flight, periodic), Cancel(1) false (one-shot decided:
no longer pending); both sends still happen; before the decisions both cancels are true and nothing is sent -/
example : (HF.run geom exHF' [.cl (.cancel 2), .cl (.cancel 1), .next, .next, .next, .next, .del, .add, .del]).map
    (fun x => (x.s.f.log, x.s.f.refer, hids x.s.heap)) = some ([(1003, 1), (1003, 2)], [3, 4], [3, 4]) := by decide
example : (HF.run geom exHF [.cl (.cancel 2), .cl (.cancel 1), .next, .next, .next, .next, .del, .add, .del]).map
    (fun x => (x.s.f.log, x.s.f.refer, hids x.s.heap)) = some ([], [3, 4], [3, 4]) := by decide
example : ∃ x1, HF.step geom exHF' (.cl (.cancel 1)) = .ok x1 (.bool false) := ⟨_, rfl⟩

end Fatchoy.C06
