/-
Model of `hash/crc32` with the IEEE polynomial (what `crc32.NewIEEE()` computes): the reflected
CRC-32, polynomial 0xEDB88320, initial state 0xFFFFFFFF, final complement — bit by bit, least
significant bit of every byte first.  Core-only.  The correspondence run compares it with Go's
table-driven implementation on every frame (C01/C02).
-/
namespace Fatchoy.Crc32

def POLY : BitVec 32 := 0xEDB88320#32

def mask (p : Bool) : BitVec 32 := if p then POLY else 0#32
def bitv (p : Bool) : BitVec 32 := if p then 1#32 else 0#32

/-- one bit of the reflected CRC: state `s`, input bit `b` -/
def stepBit (s : BitVec 32) (b : Bool) : BitVec 32 :=
  ((s ^^^ bitv b) >>> 1) ^^^ mask ((s ^^^ bitv b).getLsbD 0)

/-- bit `i` of a byte -/
def bitOf (b : UInt8) (i : Nat) : Bool := b.toNat.testBit i

/-- the eight bits of a byte, least significant first -/
def byteBits (b : UInt8) : List Bool :=
  [bitOf b 0, bitOf b 1, bitOf b 2, bitOf b 3, bitOf b 4, bitOf b 5, bitOf b 6, bitOf b 7]

/-- one byte = eight bit steps (written out so that the compiled driver allocates nothing) -/
def stepByte (s : BitVec 32) (b : UInt8) : BitVec 32 :=
  stepBit (stepBit (stepBit (stepBit (stepBit (stepBit (stepBit (stepBit s
    (bitOf b 0)) (bitOf b 1)) (bitOf b 2)) (bitOf b 3)) (bitOf b 4)) (bitOf b 5)) (bitOf b 6)) (bitOf b 7)

/-- `hash.Write` -/
def update (s : BitVec 32) (bs : List UInt8) : BitVec 32 := bs.foldl stepByte s

def INIT : BitVec 32 := 0xFFFFFFFF#32

/-- `crc32.ChecksumIEEE` -/
def crc32 (bs : List UInt8) : BitVec 32 := ~~~ (update INIT bs)

/-! ### the table-driven form (what `hash/crc32`'s generic implementation does, and what the compiled
model driver runs): one table look-up per byte, on machine words.  `Lemmas/Crc32.lean` proves
`crc32T = crc32` for every input (`crc32_table_eq`); the codec model calls `crc32T`, the theorems
speak about the bitwise `crc32`. -/

/-- eight zero-input bit steps -/
def shift8 (s : BitVec 32) : BitVec 32 :=
  stepBit (stepBit (stepBit (stepBit (stepBit (stepBit (stepBit (stepBit s
    false) false) false) false) false) false) false) false

/-- the 256-entry table, computed by the bitwise step -/
def table : Array (BitVec 32) := Array.ofFn (n := 256) (fun i => shift8 (BitVec.ofNat 32 i.val))

/-- one byte on bit vectors: `table[(s ^ b) & 0xff] ^ (s ^ b) >> 8` (stepping stone of the proof) -/
def stepByteB (s : BitVec 32) (b : UInt8) : BitVec 32 :=
  let x := s ^^^ BitVec.ofNat 32 b.toNat
  table[(x &&& 0xff#32).toNat]! ^^^ (x >>> 8)

/-- the same table as machine words -/
def tableU : Array UInt32 := table.map UInt32.ofBitVec

/-- one byte on machine words -/
def stepByteT (s : UInt32) (b : UInt8) : UInt32 :=
  let x := s ^^^ b.toUInt32
  tableU[(x &&& 0xff).toNat]! ^^^ (x >>> 8)

def updateT (s : UInt32) (bs : List UInt8) : UInt32 := bs.foldl stepByteT s

/-- table-driven `crc32.ChecksumIEEE` -/
def crc32T (bs : List UInt8) : BitVec 32 := ~~~ (updateT 0xFFFFFFFF bs).toBitVec

end Fatchoy.Crc32
