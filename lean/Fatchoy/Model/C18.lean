/-
C18 — model of sched/executor_threadpool.go (HEAD, with the repairs of D17 and D18) as a labelled
transition system.  One action = one atomic step of one goroutine: an atomic load / CAS / store of
the state word, a channel send / receive / close, a select, RLock / RUnlock / Lock / Unlock,
wg.Add+go / wg.Done / wg.Wait.  "Every schedule" is "every action sequence" (`Reach`).

Goroutines:  submitters (one per Execute call; submitter `i` submits task `i`), the workers
(created by the submitter that wins the Init→Started CAS), one closer (one Shutdown call).

Abstractions (trusted, see conf/C18.json): an action is atomic; `sync.RWMutex` lets a reader in
whenever the writer does not *hold* the lock (Go additionally blocks new readers while a writer is
waiting: fewer behaviours); the `ready` channel (capacity nworker, nworker sends) never blocks its
senders; a panic that is not recovered kills the worker (`dead`), it is not propagated further.
Core only.
-/
import Fatchoy.Gen.C18
namespace Fatchoy.C18

/-- facts regenerated from the source (Gen/C18.lean) -/
structure Params where
  stInit : Nat
  stStarted : Nat
  stRunning : Nat
  stShutdown : Nat
  stTerminated : Nat
  /-- `run` defers `debug.CatchPanic()` and `CatchPanic` calls `recover()` -/
  recovers : Bool
  /-- `NewThreadPoolExecutor`: `nworker <= 0` is replaced by this -/
  minWorkers : Nat
deriving Repr

def params : Params :=
  { stInit := Gen.C18.stateInit, stStarted := Gen.C18.stateStarted, stRunning := Gen.C18.stateRunning,
    stShutdown := Gen.C18.stateShutdown, stTerminated := Gen.C18.stateTerminated,
    recovers := Gen.C18.runRecovers, minWorkers := Gen.C18.minWorkers }

/-- the five states are distinct words (the LTS uses them symbolically), a panicking task is
recovered per task, and a pool has at least one worker -/
def Valid (P : Params) : Prop :=
  [P.stInit, P.stStarted, P.stRunning, P.stShutdown, P.stTerminated].Nodup ∧ P.recovers = true ∧ 1 ≤ P.minWorkers

instance (P : Params) : Decidable (Valid P) := by unfold Valid; infer_instance

inductive Phase | init | started | running | shutdown | terminated
deriving DecidableEq, Repr

inductive Kind | ok | err | panic
deriving DecidableEq, Repr

/-- program counter of one `Execute` call -/
inductive SPC
  | idle                 -- not called yet
  | cas                  -- start(): read StateInit; at `CAS(Init, Started)`
  | spawning (k : Nat)   -- won the CAS; k times `wg.Add(1); go worker`
  | waiting (k : Nat)    -- k times `<-ready`
  | spin                 -- start(): read StateStarted; polls until it changes
  | rlock                -- start() returned; at `guard.RLock()`
  | check                -- holds the read lock; at `state.Get() != StateRunning`
  | send                 -- holds the read lock; at `e.queue <- r`
  | unlockOk             -- sent; deferred RUnlock pending
  | unlockErr            -- not running; deferred RUnlock pending
  | retOk                -- returned nil
  | retErr               -- returned ErrExecutorNotRunning
  | panicked             -- send on the closed queue
deriving DecidableEq, Repr

/-- program counter of one worker goroutine -/
inductive WPC
  | born                 -- created; at `ready <- struct{}{}`
  | idle                 -- in the main select
  | run (t : Nat)        -- running task t (taken in the main select)
  | drain                -- took `<-e.done`; in the non-blocking select
  | drun (t : Nat)       -- running task t (taken while draining)
  | exited               -- returned; `wg.Done()` executed
  | dead                 -- killed: unrecovered panic of a task, or negative WaitGroup counter
  | nilrun               -- received the zero value from the closed queue
deriving DecidableEq, Repr

/-- program counter of the `Shutdown` call -/
inductive CPC
  | idle                 -- not called yet; next: `guard.Lock()`
  | cas                  -- holds the write lock; at `CAS(Running, Shutdown)`
  | unlock (won : Bool)  -- at `guard.Unlock()`
  | closeDone            -- at `close(e.done)`
  | wait                 -- at `wg.Wait()`
  | closeQ               -- at `close(e.queue)`
  | setTerm              -- at `state.Set(Terminated)`
  | ret (won : Bool)     -- returned (won = it was this call that shut the executor down)
  | panicked             -- close of a closed channel
deriving DecidableEq, Repr

structure St where
  n : Nat                -- nworker
  cap : Nat              -- capacity of the queue
  st : Phase
  queue : List Nat       -- buffered content of e.queue, oldest first
  qClosed : Bool
  done : Bool            -- e.done is closed
  ready : Nat            -- tokens in the ready channel
  wg : Nat               -- WaitGroup counter
  workers : List WPC
  subs : List SPC
  closer : CPC
  accepted : List Nat    -- tasks in the order their send completed
  started : List Nat     -- tasks in the order a worker took them
  finished : List Nat    -- tasks in the order their Run ended
deriving Repr

/-- `NewThreadPoolExecutor(w, cap)` plus `m` Execute calls that have not begun -/
def mkInit (P : Params) (w : Int) (cap m : Nat) : St :=
  { n := if w ≤ 0 then P.minWorkers else w.toNat, cap := cap, st := .init, queue := [], qClosed := false,
    done := false, ready := 0, wg := 0, workers := [], subs := List.replicate m .idle, closer := .idle,
    accepted := [], started := [], finished := [] }

/-- the submitter holds the read lock -/
def SPC.holds : SPC → Bool
  | .check | .send | .unlockOk | .unlockErr => true
  | _ => false

def SPC.isSpawner : SPC → Bool
  | .spawning _ | .waiting _ => true
  | _ => false

/-- the closer holds the write lock -/
def CPC.holds : CPC → Bool
  | .cas | .unlock _ => true
  | _ => false

def WPC.task? : WPC → Option Nat
  | .run t | .drun t => some t
  | _ => none

inductive Act
  | sub (i : Nat)            -- the next atomic step of Execute call i
  | handoff (i w : Nat)      -- rendezvous: the send of call i meets the receive of worker w (empty queue)
  | wready (w : Nat)         -- worker w: `ready <- struct{}{}`
  | take (w : Nat)           -- worker w: `r := <-e.queue` (main or draining select)
  | seeDone (w : Nat)        -- worker w: `<-e.done` in the main select
  | finish (w : Nat) (k : Kind)  -- worker w: its task ends with kind k; `run` returns
  | exit (w : Nat)           -- worker w: `default:` of the draining select; return; wg.Done()
  | closer                   -- the next atomic step of Shutdown
deriving Repr

def setSub (s : St) (i : Nat) (pc : SPC) : St := { s with subs := s.subs.set i pc }
def setWrk (s : St) (w : Nat) (pc : WPC) : St := { s with workers := s.workers.set w pc }

def stepSub (s : St) (i : Nat) : Option St :=
  match s.subs[i]? with
  | none => none
  | some pc =>
    match pc with
    | .idle =>
      match s.st with
      | .init => some (setSub s i .cas)
      | .started => some (setSub s i .spin)
      | _ => some (setSub s i .rlock)
    | .cas =>
      if s.st = .init then some (setSub { s with st := .started } i (.spawning 0))
      else some (setSub s i .rlock)
    | .spawning k =>
      if k < s.n then some (setSub { s with wg := s.wg + 1, workers := s.workers ++ [.born] } i (.spawning (k + 1)))
      else some (setSub s i (.waiting 0))
    | .waiting k =>
      if k < s.n then
        (if 0 < s.ready then some (setSub { s with ready := s.ready - 1 } i (.waiting (k + 1))) else none)
      else some (setSub { s with st := .running } i .rlock)
    | .spin => if s.st = .started then none else some (setSub s i .rlock)
    | .rlock => if s.closer.holds then none else some (setSub s i .check)
    | .check => if s.st = .running then some (setSub s i .send) else some (setSub s i .unlockErr)
    | .send =>
      if s.qClosed then some (setSub s i .panicked)
      else if s.queue.length < s.cap then
        some (setSub { s with queue := s.queue ++ [i], accepted := s.accepted ++ [i] } i .unlockOk)
      else none
    | .unlockOk => some (setSub s i .retOk)
    | .unlockErr => some (setSub s i .retErr)
    | .retOk => none
    | .retErr => none
    | .panicked => none

def stepHandoff (s : St) (i w : Nat) : Option St :=
  match s.subs[i]?, s.workers[w]? with
  | some .send, some .idle =>
    if s.qClosed = false ∧ s.queue = [] then
      some (setWrk (setSub { s with accepted := s.accepted ++ [i], started := s.started ++ [i] } i .unlockOk) w (.run i))
    else none
  | some .send, some .drain =>
    if s.qClosed = false ∧ s.queue = [] then
      some (setWrk (setSub { s with accepted := s.accepted ++ [i], started := s.started ++ [i] } i .unlockOk) w (.drun i))
    else none
  | _, _ => none

def stepTake (s : St) (w : Nat) : Option St :=
  match s.workers[w]?, s.queue with
  | some .idle, t :: q => some (setWrk { s with queue := q, started := s.started ++ [t] } w (.run t))
  | some .drain, t :: q => some (setWrk { s with queue := q, started := s.started ++ [t] } w (.drun t))
  | some .idle, [] => if s.qClosed then some (setWrk s w .nilrun) else none
  | some .drain, [] => if s.qClosed then some (setWrk s w .nilrun) else none
  | _, _ => none

def stepFinish (P : Params) (s : St) (w : Nat) (k : Kind) : Option St :=
  let survives : Bool := k != .panic || P.recovers
  match s.workers[w]? with
  | some (.run t) => some (setWrk { s with finished := s.finished ++ [t] } w (if survives then .idle else .dead))
  | some (.drun t) => some (setWrk { s with finished := s.finished ++ [t] } w (if survives then .drain else .dead))
  | _ => none

def stepExit (s : St) (w : Nat) : Option St :=
  match s.workers[w]? with
  | some .drain =>
    if s.queue = [] ∧ s.qClosed = false then
      (if s.wg = 0 then some (setWrk s w .dead) else some (setWrk { s with wg := s.wg - 1 } w .exited))
    else none
  | _ => none

def stepCloser (s : St) : Option St :=
  match s.closer with
  | .idle => if s.subs.any SPC.holds then none else some { s with closer := .cas }
  | .cas =>
    if s.st = .running then some { s with st := .shutdown, closer := .unlock true }
    else some { s with closer := .unlock false }
  | .unlock won => some { s with closer := if won then .closeDone else .ret false }
  | .closeDone => if s.done then some { s with closer := .panicked } else some { s with done := true, closer := .wait }
  | .wait => if s.wg = 0 then some { s with closer := .closeQ } else none
  | .closeQ => if s.qClosed then some { s with closer := .panicked } else some { s with qClosed := true, closer := .setTerm }
  | .setTerm => some { s with st := .terminated, closer := .ret true }
  | .ret _ => none
  | .panicked => none

def step (P : Params) (s : St) : Act → Option St
  | .sub i => stepSub s i
  | .handoff i w => stepHandoff s i w
  | .wready w =>
    match s.workers[w]? with
    | some .born => some (setWrk { s with ready := s.ready + 1 } w .idle)
    | _ => none
  | .take w => stepTake s w
  | .seeDone w =>
    match s.workers[w]? with
    | some .idle => if s.done then some (setWrk s w .drain) else none
    | _ => none
  | .finish w k => stepFinish P s w k
  | .exit w => stepExit s w
  | .closer => stepCloser s

/-- run an action sequence; `none` as soon as an action is not enabled -/
def runActs (P : Params) : St → List Act → Option St
  | s, [] => some s
  | s, a :: as => match step P s a with
    | some s' => runActs P s' as
    | none => none

/-- states reachable from a fresh executor by any action sequence (= under any schedule) -/
inductive Reach (P : Params) : St → Prop
  | init (w : Int) (cap m : Nat) : Reach P (mkInit P w cap m)
  | step {s s' : St} (a : Act) : Reach P s → step P s a = some s' → Reach P s'

/-- `s'` is reachable from `s` -/
inductive Steps (P : Params) : St → St → Prop
  | refl (s : St) : Steps P s s
  | step {s s' s'' : St} (a : Act) : Steps P s s' → step P s' a = some s'' → Steps P s s''

/-! ### which actions are the executor's own (liveness: Props `C18_no_stuck`, `C18_progress`; driver op `quiet`) -/

/-- actions of the executor's own goroutines, as opposed to moves of the environment: a NEW Execute call beginning
(`sub i` at `idle`), a task body returning (`finish`), and — unless `called` — the Shutdown call being made
(`closer` at `idle`; with `called = true` the closer at `idle` is a goroutine waiting in `guard.Lock()`).
Go's `sync.RWMutex` prefers the writer: while a `Lock()` is pending no new reader gets in.  The LTS lets the reader
in (more behaviours, right for safety); for liveness that step must not be the witness, so an `RLock` taken while
the Shutdown call waits for the lock does not count as internal here. -/
def Act.internal (called : Bool) (s : St) : Act → Bool
  | .sub i => s.subs[i]? != some .idle && !(s.subs[i]? == some .rlock && (called && s.closer == .idle))
  | .finish _ _ => false
  | .closer => called || s.closer != .idle
  | _ => true

end Fatchoy.C18
