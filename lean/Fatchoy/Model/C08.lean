/-
Model of /repo/x/uuid/seq.go (C08): NewSeqIDGen, Init, reload, Next — plus the "did not grow" guard
that every store adapter (store_redis.go, store_etcd.go, store_mongo.go, store_mysql.go) puts
between the database and the generator.  Core-only.

Values are `Int`; every arithmetic result is passed through `wrap64`, exactly where the Go code
computes in int64, so the model also answers for inputs that overflow (the theorems exclude them
by an explicit hypothesis).

The database is not modelled: it is an adversary that answers each `Incr` with a `Raw` response.
The property's "given" (no counter value is handed out twice) is the predicate `Legal` in
Lemmas/C08.lean, not part of the transition function — the driver runs the model on illegal
histories as well.

One action = one whole `Init`/`Next` call: `Next` runs under `s.guard` (regenerated fact
`seqNextLocked`), `Init` is called before the generator is shared.
-/
import Fatchoy.Gen.C08
namespace Fatchoy.C08

structure Params where
  defaultStep : Nat
  guardRedis : Bool
  guardEtcd : Bool
  guardMongo : Bool
  guardMysql : Bool
  /-- `Next` = Lock; defer Unlock; … -/
  nextLocked : Bool
  /-- `reload` assigns to the generator only after `Incr` returned without error -/
  reloadAfterIncr : Bool
  /-- `uuid.Init` installs the generator only after `Init` succeeded, with `DefaultSeqStep` -/
  apiInitFirst : Bool
deriving Repr, DecidableEq

def params : Params :=
  { defaultStep := Gen.C08.defaultSeqStep, guardRedis := Gen.C08.guardRedis, guardEtcd := Gen.C08.guardEtcd,
    guardMongo := Gen.C08.guardMongo, guardMysql := Gen.C08.guardMysql, nextLocked := Gen.C08.seqNextLocked,
    reloadAfterIncr := Gen.C08.reloadAfterIncr, apiInitFirst := Gen.C08.apiInitFirst }

abbrev two63 : Int := 9223372036854775808
abbrev two64 : Int := 18446744073709551616

/-- two's-complement int64 result of an exact integer -/
def wrap64 (x : Int) : Int :=
  if -two63 ≤ x ∧ x < two63 then x else (x + two63) % two64 - two63

/-! ### one generator -/

/-- the fields of `SeqIDGen` (the store is outside) -/
structure Gen where
  step : Int
  counter : Int
  lastID : Int
deriving Repr, DecidableEq

/-- `NewSeqIDGen(store, step)` (`step` is an int32) -/
def newGen (P : Params) (step : Int) : Gen :=
  { step := if step ≤ 0 then (P.defaultStep : Int) else step, counter := 0, lastID := 0 }

/-- what `store.Incr()` returned to the generator -/
inductive Resp where
  | ok (c : Int)
  | errStore      -- the database call failed
  | errRange      -- the adapter refused a counter that did not grow (ErrIDOutOfRange)
deriving Repr, DecidableEq

inductive Out where
  | id (n : Int)
  | done          -- Init succeeded
  | errStore
  | errRange
  | errOverflow   -- "SeqID: integer overflow"
deriving Repr, DecidableEq

/-- `(c+1)*step` in int64 -/
def rangeEnd (g : Gen) (c : Int) : Int := wrap64 (wrap64 (c + 1) * g.step)

/-- `reload`: `none` = success -/
def reload (g : Gen) : Resp → Option Out × Gen
  | .errStore => (some .errStore, g)
  | .errRange => (some .errRange, g)
  | .ok c =>
    let g' := { g with counter := c, lastID := wrap64 (c * g.step) }
    if rangeEnd g c < g'.lastID then (some .errOverflow, g') else (none, g')

/-- `Init` -/
def init (g : Gen) (r : Resp) : Out × Gen :=
  match reload g r with
  | (some e, g') => (e, g')
  | (none, g') => (.done, g')

/-- does this call of `Next` go to the store? -/
def needsStore (g : Gen) : Bool := ¬ (wrap64 (g.lastID + 1) ≤ rangeEnd g g.counter)

/-- `Next`; `r` is what the store answers if (and only if) it is asked (`needsStore`) -/
def next (g : Gen) (r : Resp) : Out × Gen :=
  let nxt := wrap64 (g.lastID + 1)
  if nxt ≤ rangeEnd g g.counter then (.id nxt, { g with lastID := nxt })
  else
    match reload g r with
    | (some e, g') => (e, g')
    | (none, g') =>
      let nxt' := wrap64 (g'.lastID + 1)
      (.id nxt', { g' with lastID := nxt' })

/-! ### a store adapter: the guard of `Incr` -/

structure Adapter where
  lastId : Int
deriving Repr, DecidableEq

/-- what the database did in one `Incr` call — the adversary's move -/
inductive Raw where
  | ok (c : Int)          -- moved to `c` and answered
  | failBefore            -- failed, the counter did not move
  | failAfter (c : Int)   -- the counter moved to `c` but the call reported an error
deriving Repr, DecidableEq

/-- `Incr` of every adapter: `if s.lastId != 0 && s.lastId >= cnt { return 0, ErrIDOutOfRange }; s.lastId = cnt` -/
def Adapter.incr (a : Adapter) : Raw → Resp × Adapter
  | .failBefore => (.errStore, a)
  | .failAfter _ => (.errStore, a)
  | .ok c => if a.lastId ≠ 0 ∧ a.lastId ≥ c then (.errRange, a) else (.ok c, { lastId := c })

/-- the counter value a raw response moved the database to, if any -/
def Raw.moved : Raw → Option Int
  | .ok c => some c
  | .failBefore => none
  | .failAfter c => some c

/-! ### the system: one database, adapters, generators -/

structure GenSt where
  gen : Gen
  /-- index of the adapter (Storage value) this generator was created with -/
  ad : Nat
  /-- a call of `Init` has succeeded -/
  inited : Bool
  alive : Bool
  /-- ghost: the counters this generator accepted from the store -/
  leased : List Int
deriving Repr, DecidableEq

structure Sys where
  /-- ghost: every value the database counter has moved to -/
  used : List Int
  ads : List Adapter
  gens : List GenSt
  /-- ghost: every id issued so far, newest first, with the index of the generator -/
  log : List (Nat × Int)
deriving Repr, DecidableEq

def Sys.empty : Sys := { used := [], ads := [], gens := [], log := [] }

inductive Action where
  /-- a new `Storage` value on the same database (a new process, or a reconnect) -/
  | newAdapter
  /-- `NewSeqIDGen(ads[ad], step)`: a new generator, also the re-creation after a crash -/
  | create (step : Int) (ad : Nat)
  | init (g : Nat) (raw : Raw)
  | next (g : Nat) (raw : Raw)
  /-- the process holding generator `g` dies: `g` never acts again -/
  | crash (g : Nat)
deriving Repr, DecidableEq

/-- the store call of generator state `gs`: adapter guard applied to the adversary's move -/
def storeCall (s : Sys) (gs : GenSt) (raw : Raw) : Option (Resp × List Adapter × List Int) :=
  match s.ads[gs.ad]? with
  | none => none
  | some a =>
    let (resp, a') := a.incr raw
    let used' := match raw.moved with
      | some c => c :: s.used
      | none => s.used
    some (resp, s.ads.set gs.ad a', used')

def leaseOf : Resp → List Int → List Int
  | .ok c, l => c :: l
  | _, l => l

/-- `none`: the action names a generator/adapter that does not exist or a generator that crashed.
The `Bool` tells whether the store was called. -/
def step (P : Params) (s : Sys) : Action → Option (Sys × Out × Bool)
  | .newAdapter => some ({ s with ads := s.ads ++ [{ lastId := 0 }] }, .done, false)
  | .create st ad =>
    if ad < s.ads.length then
      some ({ s with gens := s.gens ++ [{ gen := newGen P st, ad := ad, inited := false, alive := true, leased := [] }] }, .done, false)
    else none
  | .crash g =>
    match s.gens[g]? with
    | some gs => if gs.alive then some ({ s with gens := s.gens.set g { gs with alive := false } }, .done, false) else none
    | none => none
  | .init g raw =>
    match s.gens[g]? with
    | some gs =>
      if gs.alive then
        match storeCall s gs raw with
        | none => none
        | some (resp, ads', used') =>
          let (o, gen') := init gs.gen resp
          let gs' := { gs with gen := gen', inited := gs.inited || o == .done, leased := leaseOf resp gs.leased }
          some ({ s with used := used', ads := ads', gens := s.gens.set g gs' }, o, true)
      else none
    | none => none
  | .next g raw =>
    match s.gens[g]? with
    | some gs =>
      if gs.alive then
        if needsStore gs.gen then
          match storeCall s gs raw with
          | none => none
          | some (resp, ads', used') =>
            let (o, gen') := next gs.gen resp
            let gs' := { gs with gen := gen', leased := leaseOf resp gs.leased }
            let log' := match o with
              | .id n => (g, n) :: s.log
              | _ => s.log
            some ({ used := used', ads := ads', gens := s.gens.set g gs', log := log' }, o, true)
        else
          let (o, gen') := next gs.gen .errStore
          let log' := match o with
            | .id n => (g, n) :: s.log
            | _ => s.log
          some ({ s with gens := s.gens.set g { gs with gen := gen' }, log := log' }, o, false)
      else none
    | none => none

end Fatchoy.C08
