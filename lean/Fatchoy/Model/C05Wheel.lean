/-
Model of the back end of /repo/sched/hhwheel_timer.go (HHWheelTimer, after the D5/D6 repairs):
addNode (placement), cascade, shiftWheels, expireNear, tick.  Core-only.

State.  The code keeps two counters that only ever move together (`tick()` increments both):
`tickTime` (int64, virtual time) and `currTick` (uint32, wraps).  The model keeps `time` (= tickTime)
and the constant `off` with `currTick = (off + time) mod 2^32`; so `off + time` is the *unwrapped*
position and `off + deadline` the unwrapped expiry tick of a node.  Every use of the position in the
model goes through `cur` (the wrapped value), exactly like the code.

Buckets.  The 256 + 4*64 doubly linked lists are modelled by ONE list `nodes` whose nodes carry their
bucket coordinates (level 0 = near, 1..4 = tvec[level-1]; slot).  Every `bucket.addNode` appends at
the tail and `replaceInit` + iteration visits a bucket in list order, so the order of `nodes`
restricted to a bucket is that bucket's FIFO order; detaching a bucket is a stable partition.
-/
import Fatchoy.Gen.C05
namespace Fatchoy.C05

/-- geometry and capacities, regenerated from the source -/
structure Geom where
  /-- `ticks < thresholds[k]` selects level k (near = 0); past the last threshold: the last level -/
  thresholds : List Nat
  /-- `idx >> shift` of the branch of each level, as a divisor 2^shift (level 0: 1) -/
  divs : List Nat
  /-- `& mask` of the branch of each level, as a modulus mask+1 -/
  mods : List Nat
  /-- TVR_SIZE (TVR_MASK+1 = 1<<TVR_BITS): slots of the near wheel -/
  nearSize : Nat
  /-- TVN_SIZE (TVN_MASK+1 = 1<<TVN_BITS): slots of an outer wheel -/
  lvlSize : Nat
  /-- WHEEL_LEVEL -/
  levels : Nat
  /-- the clamp `math.MaxUint32` of addNode -/
  maxTicks : Nat
  /-- modulus of the position counter (uint32) -/
  wrap : Nat
  /-- PendingQueueCapacity -/
  reqCap : Nat
deriving DecidableEq, Repr

def geom : Geom :=
  { thresholds := Gen.C05.placeThresholds, divs := Gen.C05.placeDivs, mods := Gen.C05.placeMods,
    nearSize := Gen.C05.tvrSize, lvlSize := Gen.C05.tvnSize, levels := Gen.C05.wheelLevel,
    maxTicks := Gen.C05.clampTicks, wrap := Gen.C05.posWrap, reqCap := Gen.C05.pendingQueueCapacity }

/-- the geometry the proofs are carried out for (8 + 6 + 6 + 6 + 6 bits) -/
def litGeom (cap : Nat) : Geom :=
  { thresholds := [256, 16384, 1048576, 67108864], divs := [1, 256, 16384, 1048576, 67108864],
    mods := [256, 64, 64, 64, 64], nearSize := 256, lvlSize := 64, levels := 4,
    maxTicks := 4294967295, wrap := 4294967296, reqCap := cap }

/-- side-condition on the regenerated constants: exactly the 8+6+6+6+6 wheel on a 32-bit counter,
and request queues that can hold something -/
def Valid (G : Geom) : Prop := G = litGeom G.reqCap ∧ 0 < G.reqCap

instance (G : Geom) : Decidable (Valid G) := by unfold Valid; exact inferInstance

structure WNode where
  id : Nat
  /-- absolute expiry time (node.deadline once the worker has accepted the node) -/
  deadline : Nat
  period : Nat
  /-- 0 = near wheel, k ≥ 1 = tvec[k-1] -/
  level : Nat
  slot : Nat
deriving DecidableEq, Repr

/-- the if-chain of `addNode`: first branch whose threshold exceeds `t` -/
def placeAux (idx t : Nat) : Nat → List Nat → List Nat → List Nat → Nat × Nat
  | lvl, th :: ths, d :: ds, m :: ms =>
    if t < th then (lvl, idx / d % m) else placeAux idx t (lvl + 1) ths ds ms
  | lvl, [], d :: _, m :: _ => (lvl, idx / d % m)
  | lvl, _, _, _ => (lvl, 0)

/-- `addNode`: bucket of a node with `ticks = deadline - tickTime` (already floored at 0) to go,
seen from wrapped position `cur` -/
def place (G : Geom) (cur ticks : Nat) : Nat × Nat :=
  let t := if ticks > G.maxTicks then G.maxTicks else ticks
  let idx := (cur + t) % G.wrap
  placeAux idx t 0 G.thresholds G.divs G.mods

structure Wheel where
  off : Nat
  time : Nat
  nodes : List WNode
deriving Repr

namespace Wheel

/-- `currTick` -/
def cur (G : Geom) (w : Wheel) : Nat := (w.off + w.time) % G.wrap

/-- `t.addNode(node)`: (re)compute the bucket from the remaining ticks and append -/
def link (G : Geom) (w : Wheel) (n : WNode) : WNode :=
  let b := place G (w.cur G) (n.deadline - w.time)
  { n with level := b.1, slot := b.2 }

def inBucket (k s : Nat) (n : WNode) : Bool := n.level == k && n.slot == s

/-- `cascade(level-1, idx)`: detach the bucket, re-add each of its nodes in order -/
def cascade (G : Geom) (w : Wheel) (k s : Nat) : Wheel :=
  { w with nodes := w.nodes.filter (fun n => !inBucket k s n) ++ (w.nodes.filter (inBucket k s)).map (w.link G) }

/-- the loop of `shiftWheels`: `i` levels done, `ticks = ct >> (TVR_BITS + i*TVN_BITS)` -/
def shiftLoop (G : Geom) : Nat → Nat → Nat → Wheel → Wheel
  | 0, _, _, w => w
  | fuel + 1, i, ticks, w =>
    let idx := ticks % G.lvlSize
    let w' := w.cascade G (i + 1) idx
    if idx ≠ 0 then w' else shiftLoop G fuel (i + 1) (ticks / G.lvlSize) w'

/-- `shiftWheels` -/
def shift (G : Geom) (w : Wheel) : Wheel :=
  let ct := w.cur G
  if ct % G.nearSize ≠ 0 then w else shiftLoop G G.levels 0 (ct / G.nearSize) w

end Wheel
end Fatchoy.C05
