/-
C16 — the specification side: textbook CFB, the shape an unrolled function must have (`canonEnc`,
`canonDec`: any block size, any stride) and the decidable side-condition `Valid` that the programs
regenerated from block.go are compared with.  Core-only.
-/
import Fatchoy.Model.C16
namespace Fatchoy.C16

/-! ### textbook CFB with full-block feedback (NIST SP 800-38A CFB-b, b = block size; what
`crypto/cipher.NewCFBEncrypter` computes), the last block may be partial:
  C₀ = IV,  Cᵢ = Pᵢ ⊕ E(Cᵢ₋₁),  Pᵢ = Cᵢ ⊕ E(Cᵢ₋₁). -/

/-- encrypt `m` with previous ciphertext block (initially the IV) `prev` -/
def cfbEnc (E : Bytes → Bytes) (N : Nat) (prev m : Bytes) : Bytes :=
  if _h : m = [] ∨ N = 0 then [] else
    let c := xorBytes (m.take N) (E prev)
    c ++ cfbEnc E N c (m.drop N)
termination_by m.length
decreasing_by
  have : m.length ≠ 0 := fun h => _h (Or.inl (List.eq_nil_of_length_eq_zero h))
  simp only [List.length_drop]; omega

/-- decrypt `c` with previous ciphertext block (initially the IV) `prev` -/
def cfbDec (E : Bytes → Bytes) (N : Nat) (prev c : Bytes) : Bytes :=
  if _h : c = [] ∨ N = 0 then [] else
    xorBytes (c.take N) (E prev) ++ cfbDec E N (c.take N) (c.drop N)
termination_by c.length
decreasing_by
  have : c.length ≠ 0 := fun h => _h (Or.inl (List.eq_nil_of_length_eq_zero h))
  simp only [List.length_drop]; omega

/-- a block function: blocks of `N` bytes to blocks of `N` bytes (nothing else is assumed) -/
def BlockFn (E : Bytes → Bytes) (N : Nat) : Prop := ∀ x, x.length = N → (E x).length = N

/-- the dispatchers have a case for this block size -/
def Supported (P : Params) (bs : Nat) : Prop := bs ∈ P.enc.map (·.1)
instance (P : Params) (bs : Nat) : Decidable (Supported P bs) := by unfold Supported; infer_instance

/-! ### the shape of an unrolled function -/

/-- stride body of an encryption, blocks `k, k+1, …` (`c` of them): xor the word with the keystream
  block, then `E` of the ciphertext block just written becomes the keystream block -/
def encBody (N : Nat) (r : Ref) : Nat → Nat → List Stmt
  | _, 0 => []
  | k, c + 1 => .xor (k * N) (k * N) N r :: .enc (.var false) (k * N) (some N) :: encBody N r (k + 1) c

def encTailStep (N : Nat) (r : Ref) : List Stmt := [.xor 0 0 N r, .enc (.var false) 0 none, .adv N]

/-- `case t: step; fallthrough … case 1: step; fallthrough; case 0: xorBytes(rest)` -/
def encCases (N : Nat) (r : Ref) : Nat → List Case
  | 0 => [⟨0, [.xorRest (.var false)], false⟩]
  | t + 1 => ⟨t + 1, encTailStep N r, true⟩ :: encCases N r t

/-- an encryption unrolled `S` times over blocks of `N` bytes; `viaPtr`: the word xors read the
  keystream block through a pointer bound to `&tbl[0]` (encrypt8) rather than through `tbl` (encrypt16) -/
def canonEnc (N S : Nat) (viaPtr : Bool) : Prog :=
  let r : Ref := if viaPtr then .ptr false else .var false
  { tblLen := N, nextLo := 0, nextHi := 0, div := N, stride := S, window := S * N,
    pre := [.encIV (.var false)],
    body := encBody N r 0 S ++ [.adv (S * N)],
    tag := S,
    cases := encCases N r (S - 1) }

/-- stride body of a decryption: `E` of the ciphertext block goes to the register that does NOT hold
  the current keystream block, and only then the block is overwritten; the registers alternate.
  `cur`: the register holding the keystream of block `k` (`false` = `tbl`). -/
def decBody (N : Nat) (viaPtr : Bool) : Bool → Nat → Nat → List Stmt
  | _, _, 0 => []
  | cur, k, c + 1 =>
    .enc (.var (!cur)) (k * N) (some N) ::
    .xor (k * N) (k * N) N (if viaPtr then .ptr cur else .var cur) ::
    decBody N viaPtr (!cur) (k + 1) c

def decTailStep (N : Nat) : List Stmt := [.enc (.var true) 0 none, .xor 0 0 N (.var false), .swap, .adv N]

def decCases (N : Nat) : Nat → List Case
  | 0 => [⟨0, [.xorRest (.var false)], false⟩]
  | t + 1 => ⟨t + 1, decTailStep N, true⟩ :: decCases N t

/-- a decryption unrolled `S` times (`S` must be even for the alternation to come out with the
  keystream in `tbl` at the end of a stride: that is part of `Valid`) -/
def canonDec (N S : Nat) (viaPtr : Bool) : Prog :=
  { tblLen := N, nextLo := N, nextHi := 2 * N, div := N, stride := S, window := S * N,
    pre := [.encIV (.var false)],
    body := decBody N viaPtr false 0 S ++ [.adv (S * N)],
    tag := S,
    cases := decCases N (S - 1) }

/-! ### side-conditions on the regenerated facts -/

def validEncEntry (e : Nat × Option Prog) : Bool :=
  match e.2 with
  | some p => decide (0 < e.1 ∧ 0 < p.stride ∧ (p = canonEnc e.1 p.stride false ∨ p = canonEnc e.1 p.stride true))
  | none => false

def validDecEntry (e : Nat × Option Prog) : Bool :=
  match e.2 with
  | some p => decide (0 < e.1 ∧ 0 < p.stride ∧ p.stride % 2 = 0 ∧
      (p = canonDec e.1 p.stride false ∨ p = canonDec e.1 p.stride true))
  | none => false

/-- every function the dispatchers can reach is an unrolled CFB of the block size it is reached for,
  both dispatchers know the same block sizes, and the cryptors call them in place with scratch
  arrays of one (encrypt) and two (decrypt) blocks -/
def ValidCore (P : Params) : Prop :=
  P.enc.all validEncEntry = true ∧ P.dec.all validDecEntry = true ∧
  P.enc.map (·.1) = P.dec.map (·.1) ∧ P.enc ≠ [] ∧
  P.xorBytesOK = true ∧ P.xorsimdOK = true ∧ P.callersInPlace = true ∧ P.bufPkgOK = true ∧
  P.encBufBlocks.all (· = 1) = true ∧ P.decBufBlocks.all (· = 2) = true
instance (P : Params) : Decidable (ValidCore P) := by unfold ValidCore; infer_instance

/-- key lengths each constructor of x/cipher accepts (documentation of crypto/aes, crypto/des,
  tjfoc/gmsm/sm4, x/crypto/twofish, x/crypto/xtea; `NewSalsa20` copies into a 32-byte array) -/
def ctorKeyLens : String → Option (List Nat)
  | "NewAESCFB" => some [16, 24, 32]
  | "NewTripleDES" => some [24]
  | "NewSM4" => some [16]
  | "NewTwofish" => some [16, 24, 32]
  | "NewXTEA" => some [16]
  | "NewSalsa20" => some [32]
  | "NewNoneCrypt" => some []
  | _ => none

/-- what a cipher name promises (constructor, key bytes; 0 = the caller's whole key): the table a
  peer with a stock library goes by, and the list of names the harness (hx_c16 `ciphers`) runs
  against crypto/cipher.  A name that is not listed makes `ValidFactory` fail: the property
  quantifies over every name the factory accepts, so a new name has to be added here and there. -/
def promised : String → Option (String × Nat)
  | "aes-128" => some ("NewAESCFB", 16)
  | "aes-192" => some ("NewAESCFB", 24)
  | "" => some ("NewAESCFB", 32)
  | "sm4" => some ("NewSM4", 16)
  | "twofish" => some ("NewTwofish", 0)
  | "3des" => some ("NewTripleDES", 24)
  | "xtea" => some ("NewXTEA", 16)
  | "salsa20" => some ("NewSalsa20", 32)
  | "none" => some ("NewNoneCrypt", 0)
  | _ => none

/-- a clause of `NewCrypt` slices the key to a length its constructor accepts (or hands the whole
  key to a constructor that takes several lengths / ignores it), and keeps what its name promises -/
def validFactoryEntry (f : Factory) : Bool :=
  (match ctorKeyLens f.ctor with
   | some ls => if f.keyLen = 0 then ls.length ≠ 1 else ls.contains f.keyLen
   | none => false) &&
  (match promised f.name with
   | some (c, k) => f.ctor == c && f.keyLen == k
   | none => false)

def ValidFactory (P : Params) : Prop :=
  P.factory.all validFactoryEntry = true ∧
  (P.factory.map (·.name)).Nodup ∧ P.factory.getLast?.map (·.name) = some ""
instance (P : Params) : Decidable (ValidFactory P) := by unfold ValidFactory; infer_instance

def ValidStream (P : Params) : Prop :=
  P.salsaDecIsEnc = true ∧ P.salsaInPlace = true ∧ (P.salsaNonceLen = 8 ∨ P.salsaNonceLen = 24) ∧
  P.salsaKeyLen = 32 ∧ P.noneIdentity = true
instance (P : Params) : Decidable (ValidStream P) := by unfold ValidStream; infer_instance

end Fatchoy.C16
