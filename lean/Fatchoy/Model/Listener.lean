/-
Model of /repo/qnet/tcp_server.go (C04, the listener): a labelled transition system at the level of the
synchronisation operations of `TcpServer` — one program counter per `serve` goroutine (one per `Listen` call:
`ln.Accept`; `testShouldExit`; `accept` = `select { backlog <- endpoint | <-done: conn.Close() }`; `wg.Done`), one for
the caller of `Close` (`ln.Close` for every listener in turn; `close(done)`; `wg.Wait`; `close(backlog)`; fields = nil),
the hand-off queue with its capacity, `done`, the WaitGroup.
Environment actions: `Listen` (before `Close` is called), a client connection arriving at a listener at any time
(refused once that listener is closed), `Accept` failing for another reason, the consumer draining the hand-off
queue or not, the call of `Close`.
Ghost history: connections returned by `Accept`, handed off, closed by the listener because they could not be handed
off, taken by the consumer, refused / reset by the kernel, panics.

It models the code AFTER the repairs of the listener (accept selects on `done`; the shared error channel is not
closed; a connection accepted while `done` is already closed is closed).  Every place the real code would panic is
an explicit outcome (`panics`): send on the closed hand-off queue, close of a closed channel, negative WaitGroup,
`Close` called twice.  Core-only.
-/
import Fatchoy.Gen.C04
namespace Fatchoy.Listener

abbrev Conn := Nat

/-- the hand-off queue `s.backlog` as the serve loops find it in the field: open, closed, or nil -/
inductive Chan | open | closed | nil
deriving DecidableEq, Repr, Hashable, Inhabited

inductive Panic | sendOnClosed | closeOfClosed | closeOfNil | negativeWg | closeTwice
deriving DecidableEq, Repr, Hashable, Inhabited

/-- `serve`: for { Accept; on error: testShouldExit, return; testShouldExit (return, closing the connection);
  accept(conn) = select { backlog <- endpoint | <-done: conn.Close() } }; deferred wg.Done -/
inductive LPc
  | accepting | errCheck | got (c : Conn) | offer (c : Conn) | wgDone | exited
deriving DecidableEq, Repr, Hashable, Inhabited

/-- one `Listen` call: the listening socket (open or closed), the connections waiting in its kernel accept queue,
  and its `serve` goroutine -/
structure Loop where
  isOpen : Bool
  pend : List Conn
  pc : LPc
deriving DecidableEq, Repr, Hashable, Inhabited

/-- `Close`: for i, ln := range lns { ln.Close() }; close(done); wg.Wait(); close(backlog); fields = nil -/
inductive CPc
  | idle | closeLn (k : Nat) | closeDone | wait | closeBacklog | clear | returned | dead
deriving DecidableEq, Repr, Hashable, Inhabited

/-- capacity of the hand-off queue (`make(chan fatchoy.Endpoint, 128)`, regenerated from the source) -/
structure Cfg where
  bcap : Nat
deriving DecidableEq, Repr, Hashable, Inhabited

def cfgGen : Cfg := ⟨Gen.C04.serverBacklogCap⟩

/-- the hand-off queue is buffered (an unbuffered one would need a waiting consumer for every hand-off) -/
def ValidCfg (c : Cfg) : Prop := 1 ≤ c.bcap
instance (c : Cfg) : Decidable (ValidCfg c) := by unfold ValidCfg; infer_instance

structure State where
  loops : List Loop := []
  cl : CPc := .idle
  done : Bool := false
  wg : Nat := 0
  bchan : Chan := .open
  backlog : List Conn := []        -- content of the hand-off queue
  -- ghost history
  accepted : List Conn := []       -- connections `Accept` returned
  handed : List Conn := []         -- connections put into the hand-off queue
  closed : List Conn := []         -- connections the listener closed because they could not be handed off
  taken : List Conn := []          -- connections the consumer took out of the hand-off queue
  refused : List Conn := []        -- clients that found the listener closed
  kreset : List Conn := []         -- connections reset by the kernel: in the accept queue when the listener was closed
  panics : List Panic := []
deriving DecidableEq, Repr, Hashable, Inhabited

def init : State := {}

/-- the connection a serve loop holds between `Accept` and the hand-off -/
def held : LPc → List Conn
  | .got c => [c]
  | .offer c => [c]
  | _ => []

def active : LPc → Nat
  | .exited => 0
  | _ => 1

def setPc (s : State) (i : Nat) (l : Loop) (pc : LPc) : State :=
  { s with loops := s.loops.set i { l with pc := pc } }

/-- `Listen(addr)`: net.Listen; wg.Add(1); go serve — only before `Close` is called (calling it concurrently with
  or after `Close` is a misuse the model does not cover) -/
def stepListen (s : State) : Option State :=
  match s.cl with
  | .idle => some { s with loops := s.loops ++ [⟨true, [], .accepting⟩], wg := s.wg + 1 }
  | _ => none

/-- a client connects to listener `i`: queued by the kernel while the listener is open, refused afterwards -/
def stepDial (s : State) (i : Nat) (c : Conn) : Option State :=
  match s.loops[i]? with
  | none => none
  | some l =>
    if l.isOpen then some { s with loops := s.loops.set i { l with pend := l.pend ++ [c] } }
    else some { s with refused := s.refused ++ [c] }

/-- the consumer receives from the hand-off queue (it holds the channel itself, not the field) -/
def stepTake (s : State) : Option State :=
  match s.backlog with
  | c :: rest => some { s with backlog := rest, taken := s.taken ++ [c] }
  | [] => none

def stepCloseCall (s : State) : Option State :=
  match s.cl with
  | .idle => some { s with cl := .closeLn 0 }
  | _ => some { s with panics := s.panics ++ [.closeTwice] }

/-- `ln.Accept()` returns a connection -/
def stepAccept (s : State) (i : Nat) : Option State :=
  match s.loops[i]? with
  | some ⟨true, c :: rest, .accepting⟩ =>
    some { s with loops := s.loops.set i ⟨true, rest, .got c⟩, accepted := s.accepted ++ [c] }
  | _ => none

/-- `ln.Accept()` fails: the listener was closed (what waited in its accept queue is reset by the kernel), or —
  `env = true` — for a reason of the environment (file descriptors exhausted, …); `serve` returns in both cases -/
def stepAcceptErr (s : State) (i : Nat) (env : Bool) : Option State :=
  match s.loops[i]? with
  | some ⟨o, pend, .accepting⟩ =>
    if o then
      if env then some { s with loops := s.loops.set i ⟨o, pend, .errCheck⟩ } else none
    else some { s with loops := s.loops.set i ⟨o, [], .errCheck⟩, kreset := s.kreset ++ pend }
  | _ => none

/-- the other steps of a serve loop -/
def stepLoop (cfg : Cfg) (s : State) (i : Nat) (takeDone : Bool) : Option State :=
  match s.loops[i]? with
  | none => none
  | some l =>
    match l.pc with
    | .accepting => none
    | .errCheck => some (setPc s i l .wgDone)            -- testShouldExit: returns either way
    | .got c =>
      if s.done then some (setPc { s with closed := s.closed ++ [c] } i l .wgDone)   -- conn.Close(); return
      else some (setPc s i l (.offer c))
    | .offer c =>
      if takeDone then
        if s.done then some (setPc { s with closed := s.closed ++ [c] } i l .accepting) else none
      else
        match s.bchan with
        | .open =>
          if s.backlog.length < cfg.bcap then
            some (setPc { s with backlog := s.backlog ++ [c], handed := s.handed ++ [c] } i l .accepting)
          else none
        | .closed => some (setPc { s with panics := s.panics ++ [.sendOnClosed] } i l .exited)
        | .nil => none
    | .wgDone =>
      if s.wg = 0 then some (setPc { s with panics := s.panics ++ [.negativeWg] } i l .exited)
      else some (setPc { s with wg := s.wg - 1 } i l .exited)
    | .exited => none

def stepClose (s : State) : Option State :=
  match s.cl with
  | .idle => none
  | .closeLn k =>
    match s.loops[k]? with
    | some l =>   -- ln.Close(): what waits in the kernel's accept queue is reset
      some { s with loops := s.loops.set k { l with isOpen := false, pend := [] }, cl := .closeLn (k + 1),
                    kreset := s.kreset ++ l.pend }
    | none => some { s with cl := .closeDone }
  | .closeDone =>
    if s.done then some { s with cl := .dead, panics := s.panics ++ [.closeOfClosed] }
    else some { s with cl := .wait, done := true }
  | .wait => if s.wg = 0 then some { s with cl := .closeBacklog } else none
  | .closeBacklog =>
    match s.bchan with
    | .open => some { s with cl := .clear, bchan := .closed }
    | .closed => some { s with cl := .dead, panics := s.panics ++ [.closeOfClosed] }
    | .nil => some { s with cl := .dead, panics := s.panics ++ [.closeOfNil] }
  | .clear => some { s with cl := .returned, bchan := .nil }
  | .returned => none
  | .dead => none

inductive Action
  -- the user and the environment
  | listen | dial (i : Nat) (c : Conn) | take | closeCall | acceptFail (i : Nat)
  -- internal steps of the goroutines
  | accept (i : Nat) | acceptClosed (i : Nat) | loop (i : Nat) (takeDone : Bool) | close
deriving DecidableEq, Repr, Inhabited

def step (cfg : Cfg) (s : State) : Action → Option State
  | .listen => stepListen s
  | .dial i c => stepDial s i c
  | .take => stepTake s
  | .closeCall => stepCloseCall s
  | .acceptFail i => stepAcceptErr s i true
  | .accept i => stepAccept s i
  | .acceptClosed i => stepAcceptErr s i false
  | .loop i td => stepLoop cfg s i td
  | .close => stepClose s

def Action.internal : Action → Bool
  | .accept _ => true | .acceptClosed _ => true | .loop _ _ => true | .close => true
  | _ => false

inductive Reachable (cfg : Cfg) : State → Prop
  | init : Reachable cfg init
  | step {s s' : State} (a : Action) : Reachable cfg s → step cfg s a = some s' → Reachable cfg s'

def run (cfg : Cfg) (s : State) : List Action → Option State
  | [] => some s
  | a :: as => match step cfg s a with
    | some s' => run cfg s' as
    | none => none

end Fatchoy.Listener
