/-
C12, lock-level model of unbounded_concurrent.go.  Core-only.

Model/C12.lean treats a method of the concurrent queue as one atomic action.  Here a method is what the
source says it is — `guard.Lock()` (or `RLock()`), the body, `guard.Unlock()` — and the body is NOT
atomic: it first reads the shared queue into locals (`read`) and later writes back what it computed
from that possibly stale copy (`write`).  Any number of goroutines interleave these micro-steps
freely; the only synchronisation is the reader/writer lock: Lock is enabled when nobody holds the
lock, RLock when no writer holds it.  `hist` is a ghost: the bodies in the order they wrote back.

Without the lock (`useLock = false`) this LTS exhibits the lost updates one expects (see the example
in Props/C12.lean); with it, Lemmas/C12Lock.lean shows every run equals the atomic run of the bodies
in write-back order, which is what makes the one-action-per-method model the right one.
-/
import Fatchoy.Model.C12
namespace Fatchoy.C12

/-- does the body write the shared queue? -/
def CAct.writes {α : Type} : CAct α → Bool
  | .enqueue _ _ => true
  | .dequeue _ => true
  | .peek _ => false
  | .len _ => false

/-- where a goroutine is inside a method -/
inductive Pc (α : Type) where
  | idle
  | waiting (a : CAct α)
  | locked (a : CAct α)
  | read (a : CAct α) (snap : UQ α)
  | wrote (a : CAct α) (o : UOut α)

structure LState (α : Type) where
  q : UQ α
  writer : Option Nat
  readers : List Nat
  pc : Nat → Pc α
  hist : List (CAct α × UOut α)

inductive LAct (α : Type) where
  | call (a : CAct α)
  | lock (g : Nat)
  | read (g : Nat)
  | write (g : Nat)
  | unlock (g : Nat)

section
variable {α : Type} [Inhabited α]

def LState.init : LState α :=
  { q := UQ.zero, writer := none, readers := [], pc := fun _ => .idle, hist := [] }

def LState.setPc (s : LState α) (g : Nat) (p : Pc α) : LState α :=
  { s with pc := fun x => if x = g then p else s.pc x }

/-- `rlock a = true`: the method takes the read lock (only allowed for bodies that write nothing) -/
def lstep (P : Params) (useLock : Bool) (rlock : CAct α → Bool) (s : LState α) : LAct α → Option (LState α)
  | .call a =>
    match s.pc a.who with
    | .idle => some (s.setPc a.who (.waiting a))
    | _ => none
  | .lock g =>
    match s.pc g with
    | .waiting a =>
      if !useLock then some (s.setPc g (.locked a))
      else if rlock a then
        if s.writer = none then some ({ s with readers := g :: s.readers }.setPc g (.locked a)) else none
      else
        if s.writer = none ∧ s.readers = [] then some ({ s with writer := some g }.setPc g (.locked a)) else none
    | _ => none
  | .read g =>
    match s.pc g with
    | .locked a => some (s.setPc g (.read a s.q))
    | _ => none
  | .write g =>
    match s.pc g with
    | .read a snap =>
      match cstep P snap a with
      | some (q', o) =>
        some ({ s with q := if a.writes then q' else s.q, hist := s.hist ++ [(a, o)] }.setPc g (.wrote a o))
      | none => none
    | _ => none
  | .unlock g =>
    match s.pc g with
    | .wrote a _ =>
      if !useLock then some (s.setPc g .idle)
      else if rlock a then some ({ s with readers := s.readers.erase g }.setPc g .idle)
      else some ({ s with writer := none }.setPc g .idle)
    | _ => none

/-- a run: `none` if some action is not enabled (or a body faults) -/
def lrun (P : Params) (useLock : Bool) (rlock : CAct α → Bool) : LState α → List (LAct α) → Option (LState α)
  | s, [] => some s
  | s, a :: as =>
    match lstep P useLock rlock s a with
    | some s' => lrun P useLock rlock s' as
    | none => none

end
end Fatchoy.C12
