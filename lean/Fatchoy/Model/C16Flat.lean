/-
C16 — the same machine as Model/C16.lean written the obvious way: ONE flat packet buffer `data`
(dst = src) and an integer `base`, every statement addressing `data[base + off …]` exactly as
block.go does.  It is quadratic in the packet length (each access walks the list), which is why the
driver runs the `done`/`rest` representation of Model/C16.lean instead; `C16_flat_buffer`
(Props/C16.lean, proved in Lemmas/C16Flat.lean for EVERY program, valid or not) says the two
machines compute the same thing, so everything proved about one holds for the other.  Core-only.
-/
import Fatchoy.Model.C16
namespace Fatchoy.C16

structure Flat where
  /-- the packet buffer -/
  data : Bytes
  /-- the Go variable `base` -/
  base : Nat
  buf : Bytes
  sw : Bool
deriving Repr

def blockEncryptF (p : Prog) (E : Bytes → Bytes) (bs : Nat) (f : Flat) (r : Ref) (src : Bytes) : Option Flat :=
  let b := resolve f.sw r
  if src.length < bs ∨ regLen p b < bs then none
  else some { f with buf := wr f.buf (regOff p b) (E (src.take bs)) }

def execF (p : Prog) (E : Bytes → Bytes) (bs : Nat) (iv : Bytes) (f : Flat) : Stmt → Option Flat
  | .encIV r => blockEncryptF p E bs f r iv
  | .enc r off len =>
    match len with
    | some l =>  -- data[base+off : base+off+l]
      if f.data.length < f.base + off + l then none else blockEncryptF p E bs f r (rd f.data (f.base + off) l)
    | none =>    -- data[base+off:]
      if f.data.length < f.base + off then none else blockEncryptF p E bs f r (f.data.drop (f.base + off))
  | .xor dOff sOff w r =>
    let k := rd f.buf (regOff p (resolve f.sw r)) w
    if f.data.length < f.base + sOff + w ∨ f.data.length < f.base + dOff + w ∨ k.length < w then none
    else some { f with data := wr f.data (f.base + dOff) (xorBytes (rd f.data (f.base + sOff) w) k) }
  | .swap => some { f with sw := !f.sw }
  | .adv k => if f.data.length < f.base + k then none else some { f with base := f.base + k }
  | .xorRest r =>
    let b := resolve f.sw r
    let x := xorBytes (f.data.drop f.base) (rd f.buf (regOff p b) (regLen p b))
    some { f with data := wr f.data f.base x }

def execsF (p : Prog) (E : Bytes → Bytes) (bs : Nat) (iv : Bytes) : List Stmt → Flat → Option Flat
  | [], f => some f
  | s :: ss, f => (execF p E bs iv f s).bind (execsF p E bs iv ss)

def loopNF (p : Prog) (E : Bytes → Bytes) (bs : Nat) (iv : Bytes) : Nat → Flat → Option Flat
  | 0, f => some f
  | k + 1, f =>
    if f.data.length < f.base + p.window then none
    else (execsF p E bs iv p.body f).bind (loopNF p E bs iv k)

def runFromF (p : Prog) (E : Bytes → Bytes) (bs : Nat) (iv : Bytes) : List Case → Flat → Option Flat
  | [], f => some f
  | c :: cs, f =>
    (execsF p E bs iv c.stmts f).bind (fun f' => if c.fall then runFromF p E bs iv cs f' else some f')

def switchF (p : Prog) (E : Bytes → Bytes) (bs : Nat) (iv : Bytes) : List Case → Nat → Flat → Option Flat
  | [], _, f => some f
  | c :: cs, t, f => if c.label = t then runFromF p E bs iv (c :: cs) f else switchF p E bs iv cs t f

def runF (p : Prog) (E : Bytes → Bytes) (bs : Nat) (iv buf data : Bytes) : Option (Bytes × Bytes) :=
  if buf.length < p.tblLen ∨ buf.length < p.nextHi then none else
  (execsF p E bs iv p.pre { data := data, base := 0, buf := buf, sw := false }).bind fun f1 =>
  let n := data.length / p.div
  (loopNF p E bs iv (n / p.stride) f1).bind fun f2 =>
  (switchF p E bs iv p.cases (n % p.tag) f2).bind fun f3 =>
  some (f3.data, f3.buf)

def encryptF (P : Params) (E : Bytes → Bytes) (bs : Nat) (iv buf data : Bytes) : Option (Bytes × Bytes) :=
  match dispatch P.enc bs with
  | some p => runF p E bs iv buf data
  | none => none

def decryptF (P : Params) (E : Bytes → Bytes) (bs : Nat) (iv buf data : Bytes) : Option (Bytes × Bytes) :=
  match dispatch P.dec bs with
  | some p => runF p E bs iv buf data
  | none => none

/-- the flat view of a state of Model/C16.lean -/
def St.flat (st : St) : Flat := { data := st.data, base := st.base, buf := st.buf, sw := st.sw }

end Fatchoy.C16
