/-
C15 — model of qnet/rpc.go (HEAD, with the repairs of D9 and D15): the RPC client's bookkeeping as a
labelled transition system.  Every critical section of RpcClient (one mutex) is one action; `call` is
enabled only while the request queue has room (the real makeCall blocks there, holding the mutex —
nothing else can observe the half-made call).  `ReapTimeout` is NOT one action: `strip` (stripExpired,
under the mutex: takes the expired list, leaves an empty one) is followed by one `complete` step per
stripped call, outside the mutex — calls, responses, sweeps and further strips (by the callbacks
themselves or by other goroutines) can happen between any two of them.  The clock
is a parameter: `call` carries the deadline the real code computed, `sweep` the instant of the sweep.
What a response packet carries is reduced to what `RpcContext.run` looks at (`Pkt`): the error flag,
the numeric body, the command, and the result of `Decode` (an oracle column: protobuf is not modelled).
Core only.
-/
import Fatchoy.Gen.C15
namespace Fatchoy.C15

structure Params where
  ttlNs : Nat
  /-- codes.RequestTimeout -/
  timeoutCode : Nat
  /-- codes.InternalError -/
  internalError : Nat
  /-- Packet.Errno reads the numeric body (true) or the command (false: the defect D9) -/
  errnoReadsBody : Bool
  /-- makeCall skips sequence numbers present in the pending table (false: the defect D15) -/
  seqSkipsPending : Bool
  seqBits : Nat
  /-- stripExpired installs a freshly made slice as the live expired list, so the batch it hands out shares no
  storage with it.  The model's `strip` treats batch and live list as independent values; that is faithful
  only if this holds (otherwise a sweep during the completion loop would overwrite the batch) -/
  stripFresh : Bool
deriving Repr

def params : Params :=
  { ttlNs := Gen.C15.ttlNs, timeoutCode := Gen.C15.timeoutCode, internalError := Gen.C15.internalError,
    errnoReadsBody := Gen.C15.errnoReadsBody, seqSkipsPending := Gen.C15.seqSkipsPending, seqBits := Gen.C15.seqBits,
    stripFresh := Gen.C15.stripFresh }

def Valid (P : Params) : Prop :=
  0 < P.ttlNs ∧ 0 < P.timeoutCode ∧ 0 < P.internalError ∧ P.errnoReadsBody = true ∧ P.seqSkipsPending = true ∧ P.seqBits = 16 ∧
  P.stripFresh = true

instance (P : Params) : Decidable (Valid P) := by unfold Valid; infer_instance

abbrev Seq := BitVec 16

inductive Mode | async | block
deriving DecidableEq, Repr

/-- an RpcContext: who it is, how it completes, when it expires (ns on the harness clock) -/
structure Ctx where
  id : Nat
  mode : Mode
  dl : Int
deriving DecidableEq, Repr

/-- a response (or timeout) packet as far as `run` looks at it -/
structure Pkt where
  errFlag : Bool
  code : Nat
  cmd : Nat
  decodes : Option Nat
deriving DecidableEq, Repr

structure St where
  cap : Nat
  counter : Seq
  pending : List (Seq × Ctx)            -- pendingCtx (a map: keys distinct)
  expired : List Ctx                    -- c.expired: swept, waiting for the next ReapTimeout
  batches : List (List Ctx)             -- per ReapTimeout under way: stripped calls it has not completed yet
  queue : List (Seq × Nat)              -- request packets not yet consumed: (seq, ctx id)
  nextId : Nat                          -- ids are handed out in call order
  refused : List Nat                    -- calls refused because every sequence number is outstanding
  completions : List (Ctx × Pkt)        -- invocations of RpcContext.run, in order
  callbacks : List (Nat × Option Nat × Nat)  -- async: callback(id; decoded reply or none; error code)
  doneBuf : List (Nat × Pkt)            -- blocking: content of the `done` channels (capacity 1 each)
  returned : List (Nat × Pkt)           -- blocking: what Call returned
  unmatched : Nat                       -- Dispatch calls that returned "rpc context not found"
deriving Repr

def mkInit (cap : Nat) : St :=
  { cap := cap, counter := 0, pending := [], expired := [], batches := [], queue := [], nextId := 0, refused := [],
    completions := [], callbacks := [], doneBuf := [], returned := [], unmatched := 0 }

def keys (l : List (Seq × Ctx)) : List Seq := l.map (·.1)

/-- makeCall's search: at most 2^16 increments; a candidate is taken when it is not 0 and (D15 repaired) not outstanding -/
def nextSeqAux (skipPending : Bool) (used : List Seq) : Nat → Seq → Option Seq
  | 0, _ => none
  | f + 1, c =>
    let c' := c + 1
    if c' ≠ 0 ∧ (skipPending = false ∨ c' ∉ used) then some c' else nextSeqAux skipPending used f c'

def nextSeq (P : Params) (c : Seq) (used : List Seq) : Option Seq := nextSeqAux P.seqSkipsPending used 65536 c

/-- Packet.Errno -/
def errno (P : Params) (p : Pkt) : Nat :=
  if p.errFlag then (if P.errnoReadsBody then p.code else p.cmd) else 0

/-- the arguments `run` passes to an asynchronous callback -/
def cbArgs (P : Params) (p : Pkt) : Option Nat × Nat :=
  if 0 < errno P p then (none, errno P p)
  else match p.decodes with
    | some m => (some m, 0)
    | none => (none, P.internalError)

/-- ReapTimeout's packet: `packet.Make()` + `SetErrno(RequestTimeout)` — command 0, nothing to decode -/
def timeoutPkt (P : Params) : Pkt := { errFlag := true, code := P.timeoutCode, cmd := 0, decodes := none }

/-- RpcContext.run: record, notify the waiter without blocking, run the callback -/
def run (P : Params) (s : St) (c : Ctx) (p : Pkt) : St :=
  let s := { s with completions := s.completions ++ [(c, p)] }
  match c.mode with
  | .async => { s with callbacks := s.callbacks ++ [(c.id, cbArgs P p)] }
  | .block => if s.doneBuf.any (fun e => e.1 == c.id) then s else { s with doneBuf := s.doneBuf ++ [(c.id, p)] }

inductive Act
  | call (mode : Mode) (dl : Int)     -- AsyncCall / Call up to the queue send
  | pop                               -- the consumer of PendingQueue takes one request packet
  | dispatch (seq : Seq) (p : Pkt)    -- Dispatch(pkt)
  | sweep (now : Int)                 -- reapTimeout(now) (the reaper goroutine's tick)
  | strip                             -- ReapTimeout(): stripExpired() — a new batch, the live list emptied
  | complete (b k : Nat)              -- the ReapTimeout owning batch b completes its call at position k
                                      -- (the real loop goes front to back, i.e. k = 0; the position within a
                                      -- batch comes from a map iteration, so any k is allowed here)
  | wake (id : Nat)                   -- the blocking caller `id` receives from its done channel
  | setCounter (v : Seq)              -- hook: any counter position
deriving Repr

def step (P : Params) (s : St) : Act → Option St
  | .call mode dl =>
    if s.queue.length < s.cap then
      match nextSeq P s.counter (keys s.pending) with
      | some sq =>
        some { s with counter := sq,
                      pending := (sq, { id := s.nextId, mode := mode, dl := dl }) :: s.pending.filter (fun e => e.1 != sq),
                      queue := s.queue ++ [(sq, s.nextId)], nextId := s.nextId + 1 }
      | none => some { s with refused := s.refused ++ [s.nextId], nextId := s.nextId + 1 }
    else none
  | .pop =>
    match s.queue with
    | _ :: q => some { s with queue := q }
    | [] => none
  | .dispatch seq p =>
    match s.pending.find? (fun e => e.1 == seq) with
    | some e => some (run P { s with pending := s.pending.filter (fun e => e.1 != seq) } e.2 p)
    | none => some { s with unmatched := s.unmatched + 1 }
  | .sweep now =>
    some { s with expired := s.expired ++ (s.pending.filter (fun e => now > e.2.dl)).map (·.2),
                  pending := s.pending.filter (fun e => !(now > e.2.dl)) }
  | .strip => some { s with batches := s.batches ++ [s.expired], expired := [] }
  | .complete b k =>
    match s.batches[b]? with
    | some l =>
      match l[k]? with
      | some c => some (run P { s with batches := s.batches.set b (l.eraseIdx k) } c (timeoutPkt P))
      | none => none
    | none => none
  | .wake id =>
    match s.doneBuf.find? (fun e => e.1 == id) with
    | some e => some { s with doneBuf := s.doneBuf.filter (fun e => e.1 != id), returned := s.returned ++ [e] }
    | none => none
  | .setCounter v => some { s with counter := v }

inductive Reach (P : Params) : St → Prop
  | init (cap : Nat) : Reach P (mkInit cap)
  | step {s s' : St} (a : Act) : Reach P s → step P s a = some s' → Reach P s'

/-! ### whose move it is, and the blocked makeCall (liveness: Props `C15_no_stuck`, `C15_eventually_completed`; driver op `enabled`) -/

/-- the client's own steps, once a ReapTimeout / a blocking Call is under way: the completion loop of ReapTimeout
(outside the mutex) and the blocked caller's receive from its `done` channel.  Everything else is a move of the
environment: a new call, the queue consumer, a response arriving, the reaper's tick, a ReapTimeout being called,
the counter hook. -/
def Act.internal : Act → Bool
  | .complete _ _ | .wake _ => true
  | _ => false

/-- the action is a critical section of `RpcClient.mu` -/
def Act.mutex : Act → Bool
  | .call _ _ | .dispatch _ _ | .sweep _ | .strip | .setCounter _ => true
  | _ => false

/-- THE ASSUMPTION MADE EXPLICIT.  `held = true`: some `makeCall` is blocked in `c.queue <- pkt` on the full
request queue — it holds the mutex while it waits (DESIGN §10.2, a recorded observation).  Then no critical
section can run (Dispatch, the reaper's sweep, stripExpired, other calls all wait for the mutex); what can still
run is what needs no mutex: the queue consumer (`pop`), the completion loop of a ReapTimeout that has already
stripped, and the wake-up of blocking callers.  `held = false`: the plain LTS. -/
def stepHeld (P : Params) (held : Bool) (s : St) (a : Act) : Option St :=
  if held && a.mutex then none else step P s a

/-- `held` can only be true while the queue is full -/
def HeldOk (held : Bool) (s : St) : Prop := held = true → s.cap ≤ s.queue.length

end Fatchoy.C15
