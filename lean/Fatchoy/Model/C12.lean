/-
Model of /repo/collections/queue (C12): deque.go (ring-buffer deque), unbounded.go (FIFO queue of
linked blocks), unbounded_concurrent.go (the same queue behind a mutex).  Core-only.

Structural: the deque keeps the code's five fields and every method is written statement by
statement (growIfFull / shrinkIfExcess / resize with the two `copy`s, the `&`-mask index arithmetic,
both Rotate loops and the full-buffer shortcut, the Clear loop).  Everything that can fault at run
time in Go (index out of range, slice bounds) makes the model function return `none`, and the
explicit `panic(...)` calls are the outcome `Out.panic`; nothing is totalised.  `none` is also what
the model answers where it does not follow the code: a mask taken of an unallocated buffer
(`len(q.buf)-1 = -1`) and a loop that would not terminate.  The theorems show that no state reachable
through the API ever produces `none`.

Go `int` is modelled by `Nat`/`Int` without overflow (sizes and indexes below 2^62).

This file does not depend on the regenerated constants (they enter through `Params`; the instance
`params` is in Model/C12Params.lean), so a changed constant does not rebuild the proofs.
-/
namespace Fatchoy.C12

structure Params where
  minCapacity : Nat
  growShift : Nat
  shrinkShift : Nat
  firstSlice : Nat
  maxFirstSlice : Nat
  maxInternalSlice : Nat
  sliceVarsConst : Bool
  pushShape : String
  cqMethods : String
deriving Repr, DecidableEq

/-! ## Go primitives -/

/-- Go `x & m` for an `int` x of either sign and a mask `m ≥ 0`, in two's complement of any width:
  for `x = -(n+1)` the bits of `x` are the complement of the bits of `n`, so `x & m` keeps exactly
  the bits of `m` that `n` does not have. -/
def landMask (x : Int) (m : Nat) : Nat :=
  match x with
  | .ofNat n => n &&& m
  | .negSucc n => m - (n &&& m)

/-- `buf[i]` -/
def rd {α : Type} (buf : List α) (i : Nat) : Option α := buf[i]?

/-- `buf[i] = v` -/
def wr {α : Type} (buf : List α) (i : Nat) (v : α) : Option (List α) :=
  if i < buf.length then some (buf.set i v) else none

/-- `buf[lo:hi]` -/
def slice {α : Type} (buf : List α) (lo hi : Nat) : Option (List α) :=
  if lo ≤ hi ∧ hi ≤ buf.length then some ((buf.drop lo).take (hi - lo)) else none

/-- `copy(dst, src)`: the first `min (len dst) (len src)` elements of `dst` are overwritten -/
def copyTo {α : Type} (dst src : List α) : List α := src.take dst.length ++ dst.drop src.length

/-! ## Deque -/

structure Deque (α : Type) where
  buf : List α
  head : Nat
  tail : Nat
  count : Nat
  minCap : Nat
deriving Repr, DecidableEq

/-- what a call answers: nothing, a value, or `panic("deque: …")` -/
inductive Out (α : Type) where
  | ok
  | val (v : α)
  | panic
deriving Repr, DecidableEq

section
variable {α : Type} [Inhabited α]

/-- Go `nil` -/
abbrev nil : α := default

/-- `var d Deque` -/
def Deque.zero : Deque α := { buf := [], head := 0, tail := 0, count := 0, minCap := 0 }

/-- `for x < target { x <<= 1 }` with fuel; `none` = the loop does not terminate (x = 0) -/
def roundUpAux : Nat → Nat → Nat → Option Nat
  | 0, x, target => if target ≤ x then some x else none
  | f + 1, x, target =>
    if target ≤ x then some x else if x = 0 then none else roundUpAux f (x <<< 1) target

/-- a positive x passes `target` after at most `target` doublings -/
def roundUp (x target : Nat) : Option Nat := roundUpAux target x target

/-- `NewDeque(size...)` -/
def Deque.new (P : Params) (size : List Int) : Option (Deque α) := do
  let capacity := size.getD 0 0
  let minimum := size.getD 1 0
  let minCap ← roundUp P.minCapacity minimum.toNat
  if capacity ≠ 0 then
    let bufSize ← roundUp minCap capacity.toNat
    some { buf := List.replicate bufSize nil, head := 0, tail := 0, count := 0, minCap := minCap }
  else
    some { buf := [], head := 0, tail := 0, count := 0, minCap := minCap }

/-- `x & (len(q.buf)-1)` -/
def mask (d : Deque α) (x : Int) : Option Nat :=
  if d.buf.length = 0 then none else some (landMask x (d.buf.length - 1))

/-- `resize`: a new buffer of `count << growShift` slots, the contents copied to its start -/
def resize (P : Params) (d : Deque α) : Option (Deque α) :=
  let newBuf : List α := List.replicate (d.count <<< P.growShift) nil
  if d.tail > d.head then do
    let s ← slice d.buf d.head d.tail
    some { d with buf := copyTo newBuf s, head := 0, tail := d.count }
  else do
    let s1 ← slice d.buf d.head d.buf.length
    let n := min newBuf.length s1.length
    let nb := copyTo newBuf s1
    let s2 ← slice d.buf 0 d.tail
    some { d with buf := nb.take n ++ copyTo (nb.drop n) s2, head := 0, tail := d.count }

def growIfFull (P : Params) (d : Deque α) : Option (Deque α) :=
  if d.count ≠ d.buf.length then some d
  else if d.buf.length = 0 then
    let mc := if d.minCap = 0 then P.minCapacity else d.minCap
    some { d with minCap := mc, buf := List.replicate mc nil }
  else resize P d

def shrinkIfExcess (P : Params) (d : Deque α) : Option (Deque α) :=
  if d.buf.length > d.minCap ∧ d.count <<< P.shrinkShift = d.buf.length then resize P d else some d

def pushBack (P : Params) (d : Deque α) (v : α) : Option (Deque α) := do
  let d ← growIfFull P d
  let b ← wr d.buf d.tail v
  let t ← mask d (d.tail + 1)
  some { d with buf := b, tail := t, count := d.count + 1 }

def pushFront (P : Params) (d : Deque α) (v : α) : Option (Deque α) := do
  let d ← growIfFull P d
  let h ← mask d (d.head - 1)
  let b ← wr d.buf h v
  some { d with buf := b, head := h, count := d.count + 1 }

def popFront (P : Params) (d : Deque α) : Option (Deque α × Out α) :=
  if d.count ≤ 0 then some (d, .panic) else do
    let ret ← rd d.buf d.head
    let b ← wr d.buf d.head nil
    let h ← mask d (d.head + 1)
    let d' ← shrinkIfExcess P { d with buf := b, head := h, count := d.count - 1 }
    some (d', .val ret)

def popBack (P : Params) (d : Deque α) : Option (Deque α × Out α) :=
  if d.count ≤ 0 then some (d, .panic) else do
    let t ← mask d (d.tail - 1)
    let ret ← rd d.buf t
    let b ← wr d.buf t nil
    let d' ← shrinkIfExcess P { d with buf := b, tail := t, count := d.count - 1 }
    some (d', .val ret)

def front (d : Deque α) : Option (Out α) :=
  if d.count ≤ 0 then some .panic else do
    let v ← rd d.buf d.head
    some (.val v)

def back (d : Deque α) : Option (Out α) :=
  if d.count ≤ 0 then some .panic else do
    let t ← mask d (d.tail - 1)
    let v ← rd d.buf t
    some (.val v)

def at_ (d : Deque α) (i : Int) : Option (Out α) :=
  if i < 0 ∨ i ≥ d.count then some .panic else do
    let j ← mask d (d.head + i)
    let v ← rd d.buf j
    some (.val v)

def set_ (d : Deque α) (i : Int) (v : α) : Option (Deque α × Out α) :=
  if i < 0 ∨ i ≥ d.count then some (d, .panic) else do
    let j ← mask d (d.head + i)
    let b ← wr d.buf j v
    some ({ d with buf := b }, .ok)

/-- the loop of `Clear`: `for h := q.head; h != q.tail; h = (h + 1) & modBits { q.buf[h] = nil }`;
  the fuel is the buffer length (`none` if it is used up: the real loop would still be running) -/
def clearLoop (d : Deque α) : Nat → Nat → List α → Option (List α)
  | fuel, h, buf =>
    if h = d.tail then some buf else
    match fuel with
    | 0 => none
    | f + 1 => do
      let b ← wr buf h nil
      let h' ← mask d (h + 1)
      clearLoop d f h' b

def clear (d : Deque α) : Option (Deque α) := do
  let b ← clearLoop d d.buf.length d.head d.buf
  some { d with buf := b, head := 0, tail := 0, count := 0 }

/-- `for ; n < 0; n++ { … }` of Rotate: `k` iterations back to front -/
def rotBack : Nat → Deque α → Option (Deque α)
  | 0, d => some d
  | k + 1, d => do
    let h ← mask d (d.head - 1)
    let t ← mask d (d.tail - 1)
    let x ← rd d.buf t
    let b ← wr d.buf h x
    let b ← wr b t nil
    rotBack k { d with buf := b, head := h, tail := t }

/-- `for ; n > 0; n-- { … }` of Rotate: `k` iterations front to back -/
def rotFwd : Nat → Deque α → Option (Deque α)
  | 0, d => some d
  | k + 1, d => do
    let x ← rd d.buf d.head
    let b ← wr d.buf d.tail x
    let b ← wr b d.head nil
    let h ← mask d (d.head + 1)
    let t ← mask d (d.tail + 1)
    rotFwd k { d with buf := b, head := h, tail := t }

def rotate (d : Deque α) (n : Int) : Option (Deque α) :=
  if d.count ≤ 1 then some d else
  let n := Int.tmod n d.count   -- Go's `%` truncates toward zero
  if n = 0 then some d else
  if d.head = d.tail then do
    let h ← mask d (d.head + n)
    let t ← mask d (d.tail + n)
    some { d with head := h, tail := t }
  else if n < 0 then rotBack n.natAbs d
  else rotFwd n.toNat d

/-- the copy loop of `SetMinCapacity`:
  `for i := 0; i < q.count; i++ { newBuf[i] = q.buf[(q.head+i)&(len(q.buf)-1)] }` (k iterations left) -/
def moveLoop (d : Deque α) : Nat → Nat → List α → Option (List α)
  | 0, _, nb => some nb
  | k + 1, i, nb => do
    let j ← mask d (d.head + i)
    let x ← rd d.buf j
    let nb' ← wr nb i x
    moveLoop d k (i + 1) nb'

/-- `SetMinCapacity(e)`: `1<<e` is an `int`: 2^63 is negative and larger shifts give 0, so the
  comparison with `minCapacity` fails from e = 63 on.  An allocated buffer smaller than the new
  minimum is replaced by one of the minimum size. -/
def setMinCapacity (P : Params) (d : Deque α) (e : Nat) : Option (Deque α) :=
  let mc := if e < 63 ∧ 2 ^ e > P.minCapacity then 2 ^ e else P.minCapacity
  if d.buf.length ≠ 0 ∧ d.buf.length < mc then do
    let nb ← moveLoop d d.count 0 (List.replicate mc nil)
    some { d with minCap := mc, buf := nb, head := 0, tail := d.count }
  else some { d with minCap := mc }

inductive Op (α : Type) where
  | pushBack (v : α)
  | pushFront (v : α)
  | popFront
  | popBack
  | front
  | back
  | at (i : Int)
  | set (i : Int) (v : α)
  | clear
  | rotate (n : Int)
  | setMinCap (e : Nat)
deriving Repr

/-- one call of the API; `none` = a run-time fault the code does not check for (never reachable) -/
def step (P : Params) (d : Deque α) : Op α → Option (Deque α × Out α)
  | .pushBack v => (pushBack P d v).map (·, .ok)
  | .pushFront v => (pushFront P d v).map (·, .ok)
  | .popFront => popFront P d
  | .popBack => popBack P d
  | .front => (front d).map (d, ·)
  | .back => (back d).map (d, ·)
  | .at i => (at_ d i).map (d, ·)
  | .set i v => set_ d i v
  | .clear => (clear d).map (·, .ok)
  | .rotate n => (rotate d n).map (·, .ok)
  | .setMinCap e => (setMinCapacity P d e).map (·, .ok)

/-- a history: the answers so far and the state -/
def run (P : Params) : Deque α → List (Op α) → Option (Deque α × List (Out α))
  | d, [] => some (d, [])
  | d, op :: ops => do
    let (d', o) ← step P d op
    let (d'', os) ← run P d' ops
    some (d'', o :: os)

/-! ### the plain list the deque is compared with -/

def listStep (l : List α) : Op α → List α × Out α
  | .pushBack v => (l ++ [v], .ok)
  | .pushFront v => (v :: l, .ok)
  | .popFront => match l with
    | [] => (l, .panic)
    | x :: t => (t, .val x)
  | .popBack => match l.getLast? with
    | none => (l, .panic)
    | some x => (l.dropLast, .val x)
  | .front => match l.head? with
    | none => (l, .panic)
    | some x => (l, .val x)
  | .back => match l.getLast? with
    | none => (l, .panic)
    | some x => (l, .val x)
  | .at i => if i < 0 ∨ i ≥ l.length then (l, .panic) else (l, .val (l.getD i.toNat nil))
  | .set i v => if i < 0 ∨ i ≥ l.length then (l, .panic) else (l.set i.toNat v, .ok)
  | .clear => ([], .ok)
  | .rotate n =>
    if l.length ≤ 1 then (l, .ok) else
    let k := (n % (l.length : Int)).toNat   -- n steps front-to-back; a negative n goes the other way
    (l.drop k ++ l.take k, .ok)
  | .setMinCap _ => (l, .ok)

def listRun : List α → List (Op α) → List α × List (Out α)
  | l, [] => (l, [])
  | l, op :: ops =>
    let (l', o) := listStep l op
    let (l'', os) := listRun l' ops
    (l'', o :: os)

/-- ring position of the i-th element -/
def wrap (n x : Nat) : Nat := if x < n then x else x - n

/-- the i-th element, read through the ring -/
def slot (d : Deque α) (i : Nat) : α := (d.buf[wrap d.buf.length (d.head + i)]?).getD nil

/-- abstraction: the list the deque stands for -/
def abs (d : Deque α) : List α := (List.range d.count).map (slot d)

end

/-! ## Unbounded FIFO queue (unbounded.go) -/

/-- `blocks` is the chain from `q.head` on (`[]` = `q.head == nil`); `q.tail` is its last block. A block
  is the `val` slice of a node; its capacity is invisible. -/
structure UQ (α : Type) where
  blocks : List (List α)
  hp : Nat
  len : Nat
  lastSliceSize : Nat
deriving Repr, DecidableEq

section
variable {α : Type} [Inhabited α]

/-- `new(UnboundedQueue)` -/
def UQ.zero : UQ α := { blocks := [], hp := 0, len := 0, lastSliceSize := 0 }

/-- `Init()` -/
def UQ.init (q : UQ α) : UQ α := { q with blocks := [], hp := 0, len := 0 }

/-- `Front()` -/
def UQ.front (q : UQ α) : Option (Option α) :=
  match q.blocks with
  | [] => some none
  | b :: _ => do
    let v ← rd b q.hp
    some (some v)

/-- `Push(v)` -/
def UQ.push (P : Params) (q : UQ α) (v : α) : UQ α :=
  match q.blocks.getLast? with
  | none =>   -- q.head == nil
    { q with blocks := [[v]], lastSliceSize := P.maxFirstSlice, len := q.len + 1 }
  | some t =>   -- t = q.tail.val
    if t.length ≥ q.lastSliceSize then
      { q with blocks := q.blocks ++ [[v]], lastSliceSize := P.maxInternalSlice, len := q.len + 1 }
    else
      { q with blocks := q.blocks.dropLast ++ [t ++ [v]], len := q.len + 1 }

/-- `Pop()`; the outer `none` = index fault or `len` going negative (never reachable) -/
def UQ.pop (q : UQ α) : Option (UQ α × Option α) :=
  match q.blocks with
  | [] => some (q, none)
  | b :: rest => do
    let v ← rd b q.hp
    let b' ← wr b q.hp nil
    if q.len = 0 then none else
    let hp := q.hp + 1
    if hp ≥ b'.length then
      some ({ q with blocks := rest, hp := 0, len := q.len - 1 }, some v)
    else
      some ({ q with blocks := b' :: rest, hp := hp, len := q.len - 1 }, some v)

inductive UOp (α : Type) where
  | push (v : α)
  | pop
  | front
  | len
  | init
deriving Repr

inductive UOut (α : Type) where
  | ok
  | val (v : α)
  | empty
  | num (n : Nat)
deriving Repr, DecidableEq

def UQ.step (P : Params) (q : UQ α) : UOp α → Option (UQ α × UOut α)
  | .push v => some (q.push P v, .ok)
  | .pop => do
    let (q', r) ← q.pop
    some (q', match r with | some v => .val v | none => .empty)
  | .front => do
    let r ← q.front
    some (q, match r with | some v => .val v | none => .empty)
  | .len => some (q, .num q.len)
  | .init => some (q.init, .ok)

def UQ.run (P : Params) : UQ α → List (UOp α) → Option (UQ α × List (UOut α))
  | q, [] => some (q, [])
  | q, op :: ops => do
    let (q', o) ← q.step P op
    let (q'', os) ← UQ.run P q' ops
    some (q'', o :: os)

/-- the plain list queue -/
def ulistStep (l : List α) : UOp α → List α × UOut α
  | .push v => (l ++ [v], .ok)
  | .pop => match l with
    | [] => (l, .empty)
    | x :: t => (t, .val x)
  | .front => match l with
    | [] => (l, .empty)
    | x :: _ => (l, .val x)
  | .len => (l, .num l.length)
  | .init => ([], .ok)

def ulistRun : List α → List (UOp α) → List α × List (UOut α)
  | l, [] => (l, [])
  | l, op :: ops =>
    let (l', o) := ulistStep l op
    let (l'', os) := ulistRun l' ops
    (l'', o :: os)

/-- abstraction: the elements still queued, oldest first -/
def UQ.abs (q : UQ α) : List α := q.blocks.flatten.drop q.hp

/-- the values a history pushed, in order -/
def pushed : List (UOp α) → List α
  | [] => []
  | .push v :: ops => v :: pushed ops
  | _ :: ops => pushed ops

/-- the values a history's `Pop`s answered, in order -/
def popped : List (UOp α) → List (UOut α) → List α
  | .pop :: ops, .val v :: os => v :: popped ops os
  | _ :: ops, _ :: os => popped ops os
  | _, _ => []

end

/-! ## Concurrent queue (unbounded_concurrent.go)

Every method is `guard.Lock(); <one call of the inner queue>; guard.Unlock()` (checked on the source
on every run: `Gen.C12.cqMethods`), so a method is one atomic action of the goroutine that calls it,
and a schedule of any number of goroutines is a sequence of such actions. -/

/-- an action: goroutine `g` performs one method -/
inductive CAct (α : Type) where
  | enqueue (g : Nat) (v : α)
  | dequeue (g : Nat)
  | peek (g : Nat)
  | len (g : Nat)
deriving Repr

section
variable {α : Type} [Inhabited α]

def CAct.op : CAct α → UOp α
  | .enqueue _ v => .push v
  | .dequeue _ => .pop
  | .peek _ => .front
  | .len _ => .len

def CAct.who : CAct α → Nat
  | .enqueue g _ => g
  | .dequeue g => g
  | .peek g => g
  | .len g => g

/-- one atomic action on the shared queue -/
def cstep (P : Params) (q : UQ α) (a : CAct α) : Option (UQ α × UOut α) := q.step P a.op

/-- a schedule: the answers each action got, in schedule order -/
def crun (P : Params) : UQ α → List (CAct α) → Option (UQ α × List (UOut α))
  | q, [] => some (q, [])
  | q, a :: as => do
    let (q', o) ← cstep P q a
    let (q'', os) ← crun P q' as
    some (q'', o :: os)

/-- values enqueued by a schedule, in schedule order -/
def enqueued : List (CAct α) → List α
  | [] => []
  | .enqueue _ v :: as => v :: enqueued as
  | _ :: as => enqueued as

/-- values handed out by Dequeue, in schedule order -/
def dequeued : List (CAct α) → List (UOut α) → List α
  | .dequeue _ :: as, .val v :: os => v :: dequeued as os
  | _ :: as, _ :: os => dequeued as os
  | _, _ => []

end
end Fatchoy.C12
