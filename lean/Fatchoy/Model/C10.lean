/-
Model of /repo/collections/treemap (C10): map.go, entry.go, iterator.go — a port of java.util.TreeMap.

Structural: the same red-black algorithm as the code (CLRS insertion / deletion fix-ups), so the model's
tree has the same shape and colours as the real one after every operation (compared by X through the
pre-order dump of the `verif` probe).  Parent pointers become a zipper: a `Path` is the list of
ancestors of the focused subtree, innermost first; "walk up through parent" is "pop a frame".

Node references (iterators hold `*Entry`) are modelled by the key the node currently holds.  The one place
where the code changes the key of a live node — `deleteEntry` copies the successor's key/value into a node
with two children and unlinks the successor instead — is tracked explicitly in `iterRemove`.

Keys are `Nat` (the Go side uses an int key type implementing `collections.Comparable`), values `Int`.
Core-only.
-/
import Fatchoy.Gen.C10
namespace Fatchoy.C10

/-- facts about the source the model depends on, regenerated on every run (Gen/C10.lean) -/
structure Params where
  /-- `Map.Clear` bumps the modification counter -/
  clearBumps : Bool
  /-- `EntryIterator.Remove` re-targets `next` to `lastReturned` when that node has two children.
  The model always does (without it `next` would point at the unlinked successor node, which key
  references cannot express); the fact is only a clause of `Valid`. -/
  ascRetargets : Bool
  /-- `DescendingEntryIterator` has its own `Remove` (without the re-targeting) -/
  descEntryOwn : Bool
  /-- `DescendingKeyIterator` has its own `Remove` (without the re-targeting) -/
  descKeyOwn : Bool
deriving Repr, DecidableEq

def params : Params :=
  { clearBumps := Gen.C10.clearBumpsVersion, ascRetargets := Gen.C10.ascRemoveRetargets,
    descEntryOwn := Gen.C10.descEntryOwnRemove, descKeyOwn := Gen.C10.descKeyOwnRemove }

/-- the side-condition under which the theorems hold and the model is faithful to the code.
With `descEntryOwn`/`descKeyOwn` false the model reproduces the inherited ascending `Remove`;
with `clearBumps` false it agrees with the code except for iterators used across a `Clear`. -/
def Valid (P : Params) : Prop :=
  P.clearBumps = true ∧ P.ascRetargets = true ∧ P.descEntryOwn = true ∧ P.descKeyOwn = true

instance (P : Params) : Decidable (Valid P) := by unfold Valid; exact inferInstance

inductive Color | red | black
deriving DecidableEq, Repr

inductive Tree where
  | nil
  | node (c : Color) (l : Tree) (k : Nat) (v : Int) (r : Tree)
deriving Repr

inductive Dir | L | R
deriving DecidableEq, Repr

/-- one ancestor of the focus: the focus is its `dir` child, `sib` is its other child -/
structure Frame where
  dir : Dir
  c : Color
  k : Nat
  v : Int
  sib : Tree

abbrev Path := List Frame

abbrev Entry := Nat × Int

def fill (f : Frame) (t : Tree) : Tree :=
  match f.dir with
  | .L => .node f.c t f.k f.v f.sib
  | .R => .node f.c f.sib f.k f.v t

/-- rebuild the whole tree from a focus and its ancestors -/
def plug : Path → Tree → Tree
  | [], t => t
  | f :: p, t => plug p (fill f t)

/-- `colorOf(p) == RED` (nil is black) -/
def isRed : Tree → Bool
  | .node .red _ _ _ _ => true
  | _ => false

/-- `setColor(p, BLACK)` (no-op on nil) -/
def blacken : Tree → Tree
  | .node _ l k v r => .node .black l k v r
  | .nil => .nil

/-! ### listings -/

/-- in-order listing: the abstraction function of the refinement -/
def toList : Tree → List Entry
  | .nil => []
  | .node _ l k v r => toList l ++ (k, v) :: toList r

def preOrder : Tree → List Entry
  | .nil => []
  | .node _ l k v r => (k, v) :: (preOrder l ++ preOrder r)

def postOrder : Tree → List Entry
  | .nil => []
  | .node _ l k v r => postOrder l ++ (postOrder r ++ [(k, v)])

def count : Tree → Nat
  | .nil => 0
  | .node _ l _ _ r => count l + 1 + count r

def height : Tree → Nat
  | .nil => 0
  | .node _ l _ _ r => max (height l) (height r) + 1

/-! ### lookups (map.go: getEntry, getFirstEntry, getLastEntry) -/

def find : Tree → Nat → Option Int
  | .nil, _ => none
  | .node _ l k' v r, k => if k < k' then find l k else if k' < k then find r k else some v

def firstEntry : Tree → Option Entry
  | .nil => none
  | .node _ .nil k v _ => some (k, v)
  | .node _ l _ _ _ => firstEntry l

def lastEntry : Tree → Option Entry
  | .nil => none
  | .node _ _ k v .nil => some (k, v)
  | .node _ _ _ _ r => lastEntry r

/-- `for parent != nil && ch == parent.right { ch = parent; parent = parent.parent }; return parent` -/
def climbFromRight : Path → Option Entry
  | [] => none
  | f :: p => match f.dir with
    | .R => climbFromRight p
    | .L => some (f.k, f.v)

/-- `for parent != nil && ch == parent.left { … }; return parent` -/
def climbFromLeft : Path → Option Entry
  | [] => none
  | f :: p => match f.dir with
    | .L => climbFromLeft p
    | .R => some (f.k, f.v)

/-- getCeilingEntry: the walk of the code, `p` = ancestors of the current node -/
def ceilingGo : Tree → Path → Nat → Option Entry
  | .nil, _, _ => none
  | .node c l k' v r, p, k =>
    if k < k' then
      match l with
      | .nil => some (k', v)
      | _ => ceilingGo l ({ dir := .L, c := c, k := k', v := v, sib := r } :: p) k
    else if k' < k then
      match r with
      | .nil => climbFromRight p
      | _ => ceilingGo r ({ dir := .R, c := c, k := k', v := v, sib := l } :: p) k
    else some (k', v)

/-- getFloorEntry -/
def floorGo : Tree → Path → Nat → Option Entry
  | .nil, _, _ => none
  | .node c l k' v r, p, k =>
    if k' < k then
      match r with
      | .nil => some (k', v)
      | _ => floorGo r ({ dir := .R, c := c, k := k', v := v, sib := l } :: p) k
    else if k < k' then
      match l with
      | .nil => climbFromLeft p
      | _ => floorGo l ({ dir := .L, c := c, k := k', v := v, sib := r } :: p) k
    else some (k', v)

/-- getHigherEntry -/
def higherGo : Tree → Path → Nat → Option Entry
  | .nil, _, _ => none
  | .node c l k' v r, p, k =>
    if k < k' then
      match l with
      | .nil => some (k', v)
      | _ => higherGo l ({ dir := .L, c := c, k := k', v := v, sib := r } :: p) k
    else
      match r with
      | .nil => climbFromRight p
      | _ => higherGo r ({ dir := .R, c := c, k := k', v := v, sib := l } :: p) k

/-- getLowerEntry (unexported and unused in the Go code; modelled for completeness) -/
def lowerGo : Tree → Path → Nat → Option Entry
  | .nil, _, _ => none
  | .node c l k' v r, p, k =>
    if k' < k then
      match r with
      | .nil => some (k', v)
      | _ => lowerGo r ({ dir := .R, c := c, k := k', v := v, sib := l } :: p) k
    else
      match l with
      | .nil => climbFromLeft p
      | _ => lowerGo l ({ dir := .L, c := c, k := k', v := v, sib := r } :: p) k

def ceiling (t : Tree) (k : Nat) : Option Entry := ceilingGo t [] k
def floor (t : Tree) (k : Nat) : Option Entry := floorGo t [] k
def higher (t : Tree) (k : Nat) : Option Entry := higherGo t [] k
def lower (t : Tree) (k : Nat) : Option Entry := lowerGo t [] k

/-! ### descent with ancestors (getEntry / the loop of Put, keeping the parents) -/

/-- walk down from `t` looking for `k`: ends at the node holding `k`, or at the nil link where it belongs -/
def descend : Tree → Nat → Path → Tree × Path
  | .nil, _, p => (.nil, p)
  | .node c l k' v r, k, p =>
    if k < k' then descend l k ({ dir := .L, c := c, k := k', v := v, sib := r } :: p)
    else if k' < k then descend r k ({ dir := .R, c := c, k := k', v := v, sib := l } :: p)
    else (.node c l k' v r, p)

/-- entry.go `successor(t)` for the node focused by `(node _ _ _ _ r, p)` -/
def successorAt (r : Tree) (p : Path) : Option Entry :=
  match r with
  | .nil => climbFromRight p
  | _ => firstEntry r

/-- entry.go `predecessor(t)` -/
def predecessorAt (l : Tree) (p : Path) : Option Entry :=
  match l with
  | .nil => climbFromLeft p
  | _ => lastEntry l

/-! ### insertion (Put, fixAfterInsertion) -/

/-- `fixAfterInsertion(x)`: `x = node red xl xk xv xr` (the code paints it red first), `p` its ancestors.
Returns the whole tree before the final `m.root.color = BLACK`. -/
def insFix (xl : Tree) (xk : Nat) (xv : Int) (xr : Tree) : Path → Tree
  | [] => .node .red xl xk xv xr
  | [p] =>
    if p.c = .black then fill p (.node .red xl xk xv xr)
    else
      -- the parent is a red root: `parentOf(parentOf(x))` is nil, `leftOf(nil) != parentOf(x)`, so the code
      -- takes the mirror branch with a nil (black) uncle and its rotations of nil are no-ops.
      -- Unreachable from `New()` (the root is black after every Put); modelled as the code behaves.
      match p.dir with
      | .L => .node .black xl xk xv (.node .red xr p.k p.v p.sib)
      | .R => .node .black p.sib p.k p.v (.node .red xl xk xv xr)
  | p :: g :: rest =>
    if p.c = .black then plug (p :: g :: rest) (.node .red xl xk xv xr)
    else
      match g.sib with
      | .node .red ul uk uv ur =>
        -- red uncle: recolour, continue from the grandparent
        let pb := fill { p with c := .black } (.node .red xl xk xv xr)
        let ub := Tree.node .black ul uk uv ur
        match g.dir with
        | .L => insFix pb g.k g.v ub rest
        | .R => insFix ub g.k g.v pb rest
      | uncle =>
        -- black uncle: one or two rotations, then the loop ends (the new subtree root is black)
        let t := match g.dir, p.dir with
          | .L, .L => Tree.node .black (.node .red xl xk xv xr) p.k p.v (.node .red p.sib g.k g.v uncle)
          | .L, .R => Tree.node .black (.node .red p.sib p.k p.v xl) xk xv (.node .red xr g.k g.v uncle)
          | .R, .R => Tree.node .black (.node .red uncle g.k g.v p.sib) p.k p.v (.node .red xl xk xv xr)
          | .R, .L => Tree.node .black (.node .red uncle g.k g.v xl) xk xv (.node .red xr p.k p.v p.sib)
        plug rest t

/-- the map object: root, `size` and `version` fields as the code keeps them -/
structure Map where
  root : Tree
  size : Int
  version : Nat
deriving Repr

def Map.empty : Map := { root := .nil, size := 0, version := 0 }

/-- `Put`: returns the new map and the previous value (`nil` when the key was absent) -/
def put (m : Map) (k : Nat) (v : Int) : Map × Option Int :=
  match m.root with
  | .nil => ({ root := .node .black .nil k v .nil, size := 1, version := m.version + 1 }, none)
  | root =>
    match descend root k [] with
    | (.node c l k' old r, p) => ({ m with root := plug p (.node c l k' v r) }, some old)
    | (.nil, p) =>
      ({ root := blacken (insFix .nil k v .nil p), size := m.size + 1, version := m.version + 1 }, none)

/-! ### deletion (Remove, deleteEntry, fixAfterDeletion) -/

/-- one step of `fixAfterDeletion` when `x` is a LEFT child and its sibling `sib` is not red (after the
red-sibling rotation, if any).  `pc pk pv` = the parent.
`.inl t`: `t` replaces the parent's subtree and the loop continues with `x := parent` (= root of `t`);
`.inr t`: `t` replaces the parent's subtree and the loop ends (`x = m.root`). -/
def caseL (pc : Color) (x : Tree) (pk : Nat) (pv : Int) (sib : Tree) : Sum Tree Tree :=
  match sib with
  | .nil => .inl (.node pc x pk pv .nil)
  | .node _ sl sk sv sr =>
    if !isRed sl && !isRed sr then .inl (.node pc x pk pv (.node .red sl sk sv sr))
    else if !isRed sr then
      match sl with
      | .node _ sll slk slv slr =>
        .inr (.node pc (.node .black x pk pv sll) slk slv (.node .black slr sk sv sr))
      | .nil => .inl (.node pc x pk pv (.node .red sl sk sv sr)) -- not reachable: `sl` is red here
    else .inr (.node pc (.node .black x pk pv sl) sk sv (blacken sr))

/-- the symmetric step: `x` is a RIGHT child -/
def caseR (pc : Color) (x : Tree) (pk : Nat) (pv : Int) (sib : Tree) : Sum Tree Tree :=
  match sib with
  | .nil => .inl (.node pc .nil pk pv x)
  | .node _ sl sk sv sr =>
    if !isRed sr && !isRed sl then .inl (.node pc (.node .red sl sk sv sr) pk pv x)
    else if !isRed sl then
      match sr with
      | .node _ srl srk srv srr =>
        .inr (.node pc (.node .black sl sk sv srl) srk srv (.node .black srr pk pv x))
      | .nil => .inl (.node pc (.node .red sl sk sv sr) pk pv x) -- not reachable: `sr` is red here
    else .inr (.node pc (blacken sl) sk sv (.node .black sr pk pv x))

/-- `fixAfterDeletion(x)`: `x` is the replacement (or nil for the phantom leaf), `p` its ancestors.
Returns the whole tree, including the final `setColor(x, BLACK)`. -/
def delFix : Tree → Path → Tree
  | x, [] => blacken x
  | x, f :: rest =>
    if isRed x then plug (f :: rest) (blacken x) else
    match f.dir, f.sib with
    | .L, .node .red sl sk sv sr =>
      -- red sibling: rotate it above the parent (which turns red), then one step with the new sibling `sl`
      match caseL .red x f.k f.v sl with
      | .inl t => plug rest (.node .black (blacken t) sk sv sr)     -- x := parent, red: loop ends, painted black
      | .inr t => blacken (plug rest (.node .black t sk sv sr))     -- x := root, painted black
    | .L, sib =>
      match caseL f.c x f.k f.v sib with
      | .inl t => delFix t rest
      | .inr t => blacken (plug rest t)
    | .R, .node .red sl sk sv sr =>
      match caseR .red x f.k f.v sr with
      | .inl t => plug rest (.node .black sl sk sv (blacken t))
      | .inr t => blacken (plug rest (.node .black sl sk sv t))
    | .R, sib =>
      match caseR f.c x f.k f.v sib with
      | .inl t => delFix t rest
      | .inr t => blacken (plug rest t)

/-- key and value of the leftmost node of `node _ l k v _` -/
def minKV : Tree → Nat → Int → Entry
  | .nil, k, v => (k, v)
  | .node _ l k' v' _, _, _ => minKV l k' v'

/-- walk to the leftmost node of `node c l k v r` (whose ancestors are `acc`): its colour, right child, ancestors -/
def descendMin (c : Color) (l : Tree) (k : Nat) (v : Int) (r : Tree) (acc : Path) : Color × Tree × Path :=
  match l with
  | .nil => (c, r, acc)
  | .node lc ll lk lv lr => descendMin lc ll lk lv lr ({ dir := .L, c := c, k := k, v := v, sib := r } :: acc)

/-- unlink a node of colour `c` with at most one child `repl` (nil: the node itself serves as the phantom
replacement during the fix-up and is unlinked afterwards) -/
def spliceOut (c : Color) (repl : Tree) (p : Path) : Tree :=
  if c = .black then delFix repl p else plug p repl

/-- `deleteEntry(p)` for the node `node c l _ _ r` focused under ancestors `p` -/
def deleteAt (c : Color) (l r : Tree) (p : Path) : Tree :=
  match l, r with
  | .nil, r => spliceOut c r p
  | l, .nil => spliceOut c l p
  | l, .node rc rl rk rv rr =>
    -- two children: the successor's key and value move into this node, the successor is unlinked
    let s := minKV rl rk rv
    let (sc, sr, sp) := descendMin rc rl rk rv rr ({ dir := .R, c := c, k := s.1, v := s.2, sib := l } :: p)
    spliceOut sc sr sp

def remove (m : Map) (k : Nat) : Map × Bool :=
  match descend m.root k [] with
  | (.nil, _) => (m, false)
  | (.node c l _ _ r, p) =>
    ({ root := deleteAt c l r p, size := m.size - 1, version := m.version + 1 }, true)

/-- `Clear` (the version bump is a regenerated fact: the unrepaired code did not have it) -/
def clear (P : Params) (m : Map) : Map :=
  { root := .nil, size := 0, version := if P.clearBumps then m.version + 1 else m.version }

/-! ### iterators (iterator.go) -/

inductive IterKind | entry | descEntry | key | descKey | value
deriving DecidableEq, Repr

def IterKind.descending : IterKind → Bool
  | .descEntry => true
  | .descKey => true
  | _ => false

/-- `next` / `lastReturned` are node references: the key the node holds -/
structure Iter where
  kind : IterKind
  next : Option Nat
  last : Option Nat
  expVer : Nat
deriving Repr

inductive IterErr
  | noSuchElement           -- panic "no such element"
  | comod                   -- panic "concurrent modification"
  | illegalState            -- panic "illegal state"
  | dangling                -- the model's node reference is not in the tree (shown impossible, never a Go outcome)
deriving DecidableEq, Repr

def iterNew (m : Map) (kind : IterKind) : Iter :=
  { kind := kind, next := (if kind.descending then lastEntry m.root else firstEntry m.root).map (·.1),
    last := none, expVer := m.version }

def iterHasNext (it : Iter) : Bool := it.next.isSome

/-- `nextEntry` / `prevEntry`: returns the entry of the node that was `next` -/
def iterNext (m : Map) (it : Iter) : Except IterErr (Iter × Entry) :=
  match it.next with
  | none => .error .noSuchElement
  | some k =>
    if it.expVer ≠ m.version then .error .comod else
    match descend m.root k [] with
    | (.nil, _) => .error .dangling
    | (.node _ l k' v r, p) =>
      let nx := if it.kind.descending then predecessorAt l p else successorAt r p
      .ok ({ it with next := nx.map (·.1), last := some k' }, (k', v))

/-- does this iterator kind run the ascending `EntryIterator.Remove` (with the re-targeting)? -/
def usesAscRemove (P : Params) : IterKind → Bool
  | .descEntry => !P.descEntryOwn
  | .descKey => !P.descKeyOwn
  | _ => true

/-- `Remove`: deletes the node `lastReturned`.  When the ascending `Remove` is used and the node has two
children, `next` is re-pointed at that node, which after `deleteEntry` holds its successor's key. -/
def iterRemove (P : Params) (m : Map) (it : Iter) : Except IterErr (Map × Iter) :=
  match it.last with
  | none => .error .illegalState
  | some k =>
    if it.expVer ≠ m.version then .error .comod else
    match descend m.root k [] with
    | (.nil, _) => .error .dangling
    | (.node c l _ _ r, p) =>
      let nx := match l, r with
        | .node .., .node _ rl rk rv _ =>
          if usesAscRemove P it.kind then some (minKV rl rk rv).1 else it.next
        | _, _ => it.next
      let m' : Map := { root := deleteAt c l r p, size := m.size - 1, version := m.version + 1 }
      .ok (m', { it with next := nx, last := none, expVer := m'.version })

end Fatchoy.C10
