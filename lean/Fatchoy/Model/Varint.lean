/-
Go's `encoding/binary` variable-length integers (go1.23 `varint.go`): `PutUvarint`, `Uvarint`,
`PutVarint`, `Varint`, on `List UInt8` and `BitVec 64`, with their round-trip theorems for all 2^64
values (by induction on the 7-bit groups, not by enumeration). Self-contained, Lean core only.

Return conventions of the decoders are Go's: `(value, n)` with
  n > 0   n bytes were read,
  n = 0   the buffer ended before a terminating byte (value 0),
  n < 0   the value overflows 64 bits after -n bytes (value 0).
-/
namespace Fatchoy.Varint

/-- `binary.MaxVarintLen64` -/
def maxVarintLen64 : Nat := 10

/-! ### encoders -/

/-- the loop of `PutUvarint` on the numeric value: `for x >= 0x80 { byte(x)|0x80; x >>= 7 }; byte(x)` -/
def putUvarintNat (x : Nat) : List UInt8 :=
  if h : x < 128 then [UInt8.ofNat x]
  else UInt8.ofNat (x % 128 + 128) :: putUvarintNat (x / 128)
decreasing_by omega

/-- the same loop by structural recursion (so that it evaluates in `decide`/`rfl`): at most `fuel`
continuation bytes, then the last byte. For a uint64 nine continuation bytes always suffice
(`2^64 ≤ 128^10`), see `putUvarint_eq_loop`. -/
def putUvarintFuel : Nat → Nat → List UInt8
  | 0, x => [UInt8.ofNat x]
  | fuel + 1, x =>
    if x < 128 then [UInt8.ofNat x] else UInt8.ofNat (x % 128 + 128) :: putUvarintFuel fuel (x / 128)

/-- `PutUvarint(buf, x)`: the bytes written (Go returns their number) -/
def putUvarint (x : BitVec 64) : List UInt8 := putUvarintFuel 9 x.toNat

/-- zig-zag of `PutVarint`: `ux := uint64(x) << 1; if x < 0 { ux = ^ux }` -/
def zigzag (x : BitVec 64) : BitVec 64 :=
  if x.msb then ~~~(x <<< 1) else x <<< 1

/-- `PutVarint(buf, x)` for the int64 whose two's-complement bits are `x` -/
def putVarint (x : BitVec 64) : List UInt8 := putUvarint (zigzag x)

/-! ### decoders -/

/-- the `for i, b := range buf` loop of `Uvarint`: `i` bytes consumed so far, `x` accumulated, shift `s` -/
def uvarintLoop : List UInt8 → Nat → BitVec 64 → Nat → BitVec 64 × Int
  | [], _, _, _ => (0, 0)
  | b :: rest, i, x, s =>
    if i = maxVarintLen64 then (0, -((i : Int) + 1))
    else if b.toNat < 128 then
      if i = maxVarintLen64 - 1 ∧ b.toNat > 1 then (0, -((i : Int) + 1))
      else (x ||| (BitVec.ofNat 64 b.toNat <<< s), (i : Int) + 1)
    else uvarintLoop rest (i + 1) (x ||| (BitVec.ofNat 64 (b.toNat % 128) <<< s)) (s + 7)

/-- `Uvarint(buf)` -/
def uvarint (buf : List UInt8) : BitVec 64 × Int := uvarintLoop buf 0 0 0

/-- inverse zig-zag of `Varint`: `x := int64(ux >> 1); if ux&1 != 0 { x = ^x }` -/
def unzigzag (ux : BitVec 64) : BitVec 64 :=
  if ux &&& 1 ≠ 0 then ~~~(ux >>> 1) else ux >>> 1

/-- `Varint(buf)`: like Go it decodes the zig-zag even when `Uvarint` reported an error (value 0) -/
def varint (buf : List UInt8) : BitVec 64 × Int :=
  let r := uvarint buf
  (unzigzag r.1, r.2)

/-! ### the structural form is the loop -/

theorem putUvarintFuel_eq : ∀ (fuel x : Nat), x < 128 ^ (fuel + 1) → putUvarintFuel fuel x = putUvarintNat x := by
  intro fuel
  induction fuel with
  | zero => intro x hx; unfold putUvarintNat; simp at hx; simp [putUvarintFuel, hx]
  | succ f ih =>
    intro x hx
    unfold putUvarintNat putUvarintFuel
    by_cases h : x < 128
    · simp [h]
    · have : x / 128 < 128 ^ (f + 1) := by
        rw [Nat.div_lt_iff_lt_mul (by omega)]; rw [Nat.pow_succ] at hx; exact hx
      simp [h, ih _ this]

theorem putUvarint_eq_loop (x : BitVec 64) : putUvarint x = putUvarintNat x.toNat :=
  putUvarintFuel_eq 9 x.toNat (Nat.lt_of_lt_of_le x.isLt (by decide))

/-! ### lengths -/

theorem putUvarintNat_ne_nil (x : Nat) : putUvarintNat x ≠ [] := by
  unfold putUvarintNat; split <;> simp

theorem putUvarintNat_length_pos (x : Nat) : 0 < (putUvarintNat x).length := by
  unfold putUvarintNat; split <;> simp

/-- `x < 128^k` needs at most `k` bytes (`k ≥ 1`) -/
theorem putUvarintNat_length_le (k : Nat) : ∀ x, x < 128 ^ (k + 1) → (putUvarintNat x).length ≤ k + 1 := by
  induction k with
  | zero => intro x hx; unfold putUvarintNat; simp at hx; simp [hx]
  | succ k ih =>
    intro x hx
    unfold putUvarintNat
    split
    · simp
    · have : x / 128 < 128 ^ (k + 1) := by
        rw [Nat.div_lt_iff_lt_mul (by omega)]; rw [Nat.pow_succ] at hx; exact hx
      simp only [List.length_cons]
      have := ih (x / 128) this
      omega

/-- every 64-bit value is written in 1..10 bytes: `PutUvarint` never overruns a `[MaxVarintLen64]byte` -/
theorem putUvarint_length (x : BitVec 64) :
    0 < (putUvarint x).length ∧ (putUvarint x).length ≤ maxVarintLen64 := by
  rw [putUvarint_eq_loop]
  refine ⟨putUvarintNat_length_pos _, ?_⟩
  have h : x.toNat < 128 ^ (9 + 1) := Nat.lt_of_lt_of_le x.isLt (by decide)
  exact putUvarintNat_length_le 9 _ h

theorem putVarint_length (x : BitVec 64) :
    0 < (putVarint x).length ∧ (putVarint x).length ≤ maxVarintLen64 := putUvarint_length _

/-! ### round trip of the unsigned form -/

private theorem or_shift_toNat (acc : BitVec 64) (d s : Nat) (hacc : acc.toNat < 2 ^ s)
    (hsum : acc.toNat + d * 2 ^ s < 2 ^ 64) :
    (acc ||| (BitVec.ofNat 64 d <<< s)).toNat = acc.toNat + d * 2 ^ s := by
  have hp : 0 < 2 ^ s := Nat.pos_of_ne_zero (by simp)
  have hd : d < 2 ^ 64 := by
    have : d ≤ d * 2 ^ s := Nat.le_mul_of_pos_right d hp
    omega
  rw [BitVec.toNat_or, BitVec.toNat_shiftLeft, BitVec.toNat_ofNat, Nat.mod_eq_of_lt hd,
    Nat.shiftLeft_eq, Nat.mod_eq_of_lt (by omega), Nat.or_comm, ← Nat.shiftLeft_eq,
    ← Nat.shiftLeft_add_eq_or_of_lt hacc, Nat.shiftLeft_eq, Nat.add_comm]

private theorem seven_i_lt {i v : Nat} (hv : 128 ≤ v) (h : v * 2 ^ (7 * i) < 2 ^ 64) : i ≤ 8 := by
  have h1 : 128 * 2 ^ (7 * i) ≤ v * 2 ^ (7 * i) := Nat.mul_le_mul_right _ hv
  have h2 : 2 ^ (7 * i + 7) < 2 ^ 64 := by
    rw [Nat.pow_add]; have : (2:Nat) ^ 7 = 128 := by decide
    rw [this, Nat.mul_comm]; omega
  have := (Nat.pow_lt_pow_iff_right (a := 2) (by omega)).mp h2
  omega

/-- the decoder loop run on the encoding of `v`, entered after `i` groups that accumulated `acc` -/
theorem uvarintLoop_put (v : Nat) : ∀ (i : Nat) (acc : BitVec 64) (r : List UInt8),
    acc.toNat < 2 ^ (7 * i) → acc.toNat + v * 2 ^ (7 * i) < 2 ^ 64 → i ≤ 9 →
    uvarintLoop (putUvarintNat v ++ r) i acc (7 * i) =
      (BitVec.ofNat 64 (acc.toNat + v * 2 ^ (7 * i)), (i : Int) + (putUvarintNat v).length) := by
  induction v using Nat.strongRecOn with
  | _ v ih =>
    intro i acc r hacc hsum hi
    have hp : 0 < 2 ^ (7 * i) := Nat.pos_of_ne_zero (by simp)
    unfold putUvarintNat
    by_cases hv : v < 128
    · simp only [hv, dite_true, List.cons_append, List.nil_append, uvarintLoop]
      have hb : (UInt8.ofNat v).toNat = v := by
        rw [UInt8.toNat_ofNat']; exact Nat.mod_eq_of_lt (by omega)
      have hi10 : i ≠ maxVarintLen64 := by unfold maxVarintLen64; omega
      have hov : ¬ (i = maxVarintLen64 - 1 ∧ v > 1) := by
        intro ⟨h9, h1⟩
        have h9' : i = 9 := h9
        subst h9'
        have : 2 * 2 ^ (7 * 9) ≤ v * 2 ^ (7 * 9) := Nat.mul_le_mul_right _ h1
        have h64 : (2:Nat) * 2 ^ (7 * 9) = 2 ^ 64 := by decide
        omega
      simp only [hb, hi10, if_false, hv, if_true, hov, List.length_cons, List.length_nil]
      refine Prod.ext ?_ (by simp)
      apply BitVec.eq_of_toNat_eq
      rw [or_shift_toNat acc v (7 * i) hacc hsum, BitVec.toNat_ofNat, Nat.mod_eq_of_lt hsum]
    · simp only [hv, dite_false, List.cons_append, uvarintLoop]
      have hv' : 128 ≤ v := by omega
      have hb : (UInt8.ofNat (v % 128 + 128)).toNat = v % 128 + 128 := by
        rw [UInt8.toNat_ofNat']; exact Nat.mod_eq_of_lt (by omega)
      have hi8 : i ≤ 8 := seven_i_lt hv' (by omega)
      have hi10 : i ≠ maxVarintLen64 := by unfold maxVarintLen64; omega
      have hnl : ¬ (v % 128 + 128 < 128) := by omega
      have hm : (v % 128 + 128) % 128 = v % 128 := by omega
      simp only [hb, hi10, if_false, hnl, hm]
      -- the accumulator after this group
      have hpow : (2:Nat) ^ (7 * (i + 1)) = 2 ^ (7 * i) * 128 := by
        rw [Nat.mul_add, Nat.pow_add]
      have hsplit : v * 2 ^ (7 * i) = (v % 128) * 2 ^ (7 * i) + (v / 128) * (2 ^ (7 * i) * 128) := by
        have h := Nat.div_add_mod v 128
        calc v * 2 ^ (7 * i) = (128 * (v / 128) + v % 128) * 2 ^ (7 * i) := by rw [h]
          _ = (v % 128) * 2 ^ (7 * i) + (v / 128) * (2 ^ (7 * i) * 128) := by
            rw [Nat.add_mul, Nat.add_comm, Nat.mul_comm 128, Nat.mul_assoc, Nat.mul_comm 128]
      have hlow : acc.toNat + (v % 128) * 2 ^ (7 * i) < 2 ^ 64 := by
        have : 0 ≤ (v / 128) * (2 ^ (7 * i) * 128) := Nat.zero_le _
        omega
      have hacc' := or_shift_toNat acc (v % 128) (7 * i) hacc hlow
      have hbound : acc.toNat + (v % 128) * 2 ^ (7 * i) < 2 ^ (7 * (i + 1)) := by
        rw [hpow]
        have h1 : (v % 128) * 2 ^ (7 * i) ≤ 127 * 2 ^ (7 * i) := Nat.mul_le_mul_right _ (by omega)
        omega
      have hs7 : 7 * i + 7 = 7 * (i + 1) := by omega
      rw [hs7]
      have := ih (v / 128) (by omega) (i + 1) (acc ||| (BitVec.ofNat 64 (v % 128) <<< (7 * i))) r
        (by rw [hacc']; exact hbound) (by rw [hacc', hpow]; omega) (by omega)
      rw [this, hacc', hpow]
      refine Prod.ext ?_ ?_
      · simp only; congr 1; omega
      · simp only [List.length_cons]; push_cast; omega

/-- `Uvarint(PutUvarint(x) ++ rest) = (x, number of bytes written)` for every 64-bit `x` -/
theorem uvarint_putUvarint (x : BitVec 64) (r : List UInt8) :
    uvarint (putUvarint x ++ r) = (x, ((putUvarint x).length : Int)) := by
  rw [putUvarint_eq_loop]
  unfold uvarint
  have h0 : (0 : BitVec 64).toNat = 0 := rfl
  have := uvarintLoop_put x.toNat 0 0 r (by simp) (by simpa using x.isLt) (by omega)
  rw [h0] at this
  simp only [Nat.mul_zero, Nat.pow_zero, Nat.mul_one, Nat.zero_add,
    Int.natCast_zero, Int.zero_add, BitVec.ofNat_toNat, BitVec.setWidth_eq] at this
  exact this

/-! ### zig-zag -/

/-- arithmetic meaning of the zig-zag: non-negative `x ↦ 2x`, negative `x ↦ -2x-1` -/
theorem zigzag_toNat (x : BitVec 64) :
    (zigzag x).toNat = if x.toNat < 2 ^ 63 then 2 * x.toNat else 2 * (2 ^ 64 - x.toNat) - 1 := by
  have hx := x.isLt
  unfold zigzag
  have hm : x.msb = decide (2 ^ 63 ≤ x.toNat) := by rw [BitVec.msb_eq_decide]
  by_cases h : 2 ^ 63 ≤ x.toNat
  · have h1 : x.msb = true := by rw [hm]; exact decide_eq_true h
    rw [if_pos h1, if_neg (by omega), BitVec.toNat_not, BitVec.toNat_shiftLeft, Nat.shiftLeft_eq]
    omega
  · have h1 : ¬ x.msb = true := by rw [hm]; simpa using h
    rw [if_neg h1, if_pos (by omega), BitVec.toNat_shiftLeft, Nat.shiftLeft_eq]
    omega

theorem unzigzag_toNat (u : BitVec 64) :
    (unzigzag u).toNat = if u.toNat % 2 = 0 then u.toNat / 2 else 2 ^ 64 - 1 - u.toNat / 2 := by
  have hu := u.isLt
  unfold unzigzag
  have hand : (u &&& 1 = 0) ↔ u.toNat % 2 = 0 := by
    rw [← BitVec.toNat_inj, BitVec.toNat_and]
    show u.toNat &&& 1 = 0 ↔ u.toNat % 2 = 0
    rw [Nat.and_one_is_mod]
  by_cases h : u.toNat % 2 = 0
  · have h1 : ¬ (u &&& 1 ≠ 0) := fun hn => hn (hand.mpr h)
    rw [if_neg h1, if_pos h, BitVec.toNat_ushiftRight, Nat.shiftRight_eq_div_pow]
  · have h1 : u &&& 1 ≠ 0 := fun hn => h (hand.mp hn)
    rw [if_pos h1, if_neg h, BitVec.toNat_not, BitVec.toNat_ushiftRight, Nat.shiftRight_eq_div_pow]

/-- zig-zag is a bijection of the 64-bit values -/
theorem unzigzag_zigzag (x : BitVec 64) : unzigzag (zigzag x) = x := by
  apply BitVec.eq_of_toNat_eq
  have hx := x.isLt
  rw [unzigzag_toNat, zigzag_toNat]
  split <;> split <;> omega

theorem zigzag_unzigzag (u : BitVec 64) : zigzag (unzigzag u) = u := by
  apply BitVec.eq_of_toNat_eq
  have hu := u.isLt
  rw [zigzag_toNat, unzigzag_toNat]
  split <;> split <;> omega

/-- the signed reading: `x ≥ 0 ↦ 2x`, `x < 0 ↦ -2x-1` as integers -/
theorem zigzag_toInt (x : BitVec 64) :
    ((zigzag x).toNat : Int) = if 0 ≤ x.toInt then 2 * x.toInt else -2 * x.toInt - 1 := by
  have hx := x.isLt
  rw [zigzag_toNat, BitVec.toInt_eq_toNat_cond]
  split <;> split <;> omega

/-! ### round trip of the signed form -/

/-- `Varint(PutVarint(x) ++ rest) = (x, number of bytes written)` for every int64 `x` -/
theorem varint_putVarint (x : BitVec 64) (r : List UInt8) :
    varint (putVarint x ++ r) = (x, ((putVarint x).length : Int)) := by
  unfold varint putVarint
  rw [uvarint_putUvarint]
  simp only [unzigzag_zigzag]

/-- the encodings are injective (distinct values never share an encoding, even as a prefix) -/
theorem putUvarint_inj {x y : BitVec 64} {r r' : List UInt8}
    (h : putUvarint x ++ r = putUvarint y ++ r') : x = y := by
  have hx := uvarint_putUvarint x r
  rw [h, uvarint_putUvarint] at hx
  exact (congrArg Prod.fst hx).symm

theorem putVarint_inj {x y : BitVec 64} {r r' : List UInt8}
    (h : putVarint x ++ r = putVarint y ++ r') : x = y := by
  have hx := varint_putVarint x r
  rw [h, varint_putVarint] at hx
  exact (congrArg Prod.fst hx).symm

/-! ### the error conventions -/

/-- empty buffer: `(0, 0)` -/
theorem uvarint_nil : uvarint [] = (0, 0) := rfl

/-- shape of a result of the loop entered after `i` bytes with `len` bytes left -/
def LoopShape (i len : Nat) (r : BitVec 64 × Int) : Prop :=
  (r.2 = 0 ∧ r.1 = 0) ∨
  ((i : Int) < r.2 ∧ r.2 ≤ (i : Int) + len ∧ r.2 ≤ 10) ∨
  (r.2 < 0 ∧ r.1 = 0 ∧ -r.2 ≤ (i : Int) + len ∧ (r.2 = -10 ∨ r.2 = -11))

theorem uvarintLoop_shape : ∀ (buf : List UInt8) (i : Nat) (x : BitVec 64) (s : Nat), i ≤ 10 →
    LoopShape i buf.length (uvarintLoop buf i x s) := by
  intro buf
  induction buf with
  | nil => intro i x s _; left; exact ⟨rfl, rfl⟩
  | cons b rest ih =>
    intro i x s hi
    rw [List.length_cons]
    unfold uvarintLoop
    have hm : maxVarintLen64 = 10 := rfl
    rw [hm]
    by_cases h10 : i = 10
    · rw [if_pos h10]; right; right
      refine ⟨?_, rfl, ?_, ?_⟩ <;> dsimp only <;> omega
    · rw [if_neg h10]
      by_cases hb : b.toNat < 128
      · rw [if_pos hb]
        by_cases hov : i = 10 - 1 ∧ b.toNat > 1
        · rw [if_pos hov]; right; right
          obtain ⟨h9, _⟩ := hov
          refine ⟨?_, rfl, ?_, ?_⟩ <;> dsimp only <;> omega
        · rw [if_neg hov]; right; left
          refine ⟨?_, ?_, ?_⟩ <;> dsimp only <;> omega
      · rw [if_neg hb]
        have := ih (i + 1) (x ||| (BitVec.ofNat 64 (b.toNat % 128) <<< s)) (s + 7) (by omega)
        rcases this with h | h | h
        · left; exact h
        · right; left
          obtain ⟨h1, h2, h3⟩ := h
          refine ⟨?_, ?_, h3⟩ <;> omega
        · right; right
          obtain ⟨h1, h2, h3, h4⟩ := h
          refine ⟨h1, h2, ?_, h4⟩; omega

/-- Go's documented result shapes of `Uvarint`: `n = 0` (buffer too small, value 0), `0 < n ≤ 10` and
`n ≤ len(buf)` (success), or `n ∈ {-10, -11}` (overflow, value 0) -/
theorem uvarint_bounds (buf : List UInt8) :
    ((uvarint buf).2 = 0 ∧ (uvarint buf).1 = 0) ∨
    (0 < (uvarint buf).2 ∧ (uvarint buf).2 ≤ buf.length ∧ (uvarint buf).2 ≤ 10) ∨
    ((uvarint buf).2 < 0 ∧ (uvarint buf).1 = 0 ∧ ((uvarint buf).2 = -10 ∨ (uvarint buf).2 = -11)) := by
  have := uvarintLoop_shape buf 0 0 0 (by omega)
  unfold uvarint
  rcases this with h | h | h
  · left; exact h
  · right; left
    obtain ⟨h1, h2, h3⟩ := h
    refine ⟨?_, ?_, h3⟩ <;> omega
  · right; right; exact ⟨h.1, h.2.1, h.2.2.2⟩

/-! ### samples (tests, not proofs): the shapes Go documents -/

example : putUvarint 300 = [0xac, 0x02] := by decide
example : putVarint (-1 : BitVec 64) = [0x01] := by decide
example : putVarint (BitVec.ofInt 64 (-2147483648)) = [0xff, 0xff, 0xff, 0xff, 0x0f] := by decide
example : (putUvarint (BitVec.ofNat 64 (2^64 - 1))).length = 10 := by decide
-- ten continuation bytes then anything: overflow reported at byte 11
example : uvarint [0x80, 0x80, 0x80, 0x80, 0x80, 0x80, 0x80, 0x80, 0x80, 0x80, 0x01] = (0, -11) := by decide
-- a tenth byte above 1: overflow reported at byte 10
example : uvarint [0xff, 0xff, 0xff, 0xff, 0xff, 0xff, 0xff, 0xff, 0xff, 0x02] = (0, -10) := by decide
-- no terminating byte: (0, 0)
example : uvarint [0x80, 0x80] = (0, 0) := by decide
-- a non-minimal encoding is accepted (so decoding is not injective)
example : uvarint [0x80, 0x00] = (0, 2) := by decide

end Fatchoy.Varint
