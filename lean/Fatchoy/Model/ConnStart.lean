/-
  Start-up / shutdown handshake of `TcpConn` (qnet/tcp_conn.go) as a separate small labelled transition system.

  The main connection LTS (Model/Conn.lean) starts with both pumps running and registered in the wait group: `Go` is
  one atomic action there.  This LTS opens that action up: one action = one synchronisation operation of
  `Go`, of the first / last statements of the two pumps, of `SendPacket` and of the graceful `Close` + `finally`:

      Go(flag):    state.CAS(Init, Running);
                   if flag&Writer { wg.Add(1); go writePump() };  if flag&Reader { wg.Add(1); go readPump() }
      writePump:   loop { select { pkt := <-outbound: write(pkt) | <-done: return } };
                   deferred: flush() (drain the queue without blocking); wg.Done()
      readPump:    loop … until done is seen; deferred: wg.Done()
      SendPacket:  (under mu.RLock) if state == Running { outbound <- pkt (if there is room) }
      Close:       (under mu.Lock) state.CAS(Running, Shutdown);  close(done);  finally()
      finally:     wg.Wait();  CloseWrite();  state.Set(Terminated); close(outbound)

  `addInside = true` is the order of the seeded change C03-w5v1 (the counter is incremented by the pump goroutine
  itself, as its first statement, instead of by `Go` before the `go` statement).

  Not in this LTS (they are in Model/Conn.lean): frames and their sizes, the peer, the inbound side, ForceClose, racing
  closers, the RWMutex regions (a send is one atomic check-and-enqueue here, which is what `C03_frozen` /
  `C03_no_accept_after_shutdown` prove of the real interleaving).  Assumption carried over from conf/C03.json:
  Close is issued after `Go` has returned (guard of `closeFlip`).
-/
namespace Fatchoy.ConnStart

/-- program counter of a pump goroutine -/
inductive PumpPc
  | notSpawned   -- no `go` statement executed for it
  | spawned      -- goroutine created, has not run its first statement
  | running      -- in its loop
  | flushing     -- left the loop (saw `done` / closed queue), in the deferred function before `wg.Done()`
  | flushed      -- (writer only) `flush()` returned, `wg.Done()` not yet executed
  | exited       -- `wg.Done()` executed
  deriving DecidableEq, Repr, Inhabited, Hashable

/-- program counter of the caller of `Go` -/
inductive GoPc
  | notCalled | casDone | wAdded | wDone | rAdded | returned
  deriving DecidableEq, Repr, Inhabited, Hashable

/-- program counter of the caller of `Close` -/
inductive CloserPc
  | idle         -- Close not called (or not yet past beginShutdown)
  | flipped      -- state word flipped Running -> Shutdown
  | doneClosed   -- close(done) executed; about to call finally (blocked in wg.Wait)
  | waited       -- wg.Wait() returned
  | shutW        -- CloseWrite executed
  | queueClosed  -- state := Terminated, close(outbound)
  | returned     -- Close returned
  deriving DecidableEq, Repr, Inhabited, Hashable

inductive ConnSt | init | running | shutdown | terminated
  deriving DecidableEq, Repr, Inhabited, Hashable

structure Cfg where
  addInside : Bool   -- false: the code (Add in Go before `go`); true: seeded order (Add first statement of the pump)
  cap : Nat          -- capacity of the outbound queue
  deriving DecidableEq, Repr

structure State where
  st : ConnSt := .init
  wg : Int := 0
  goPc : GoPc := .notCalled
  wFlag : Bool := false
  rFlag : Bool := false
  wPc : PumpPc := .notSpawned
  rPc : PumpPc := .notSpawned
  closer : CloserPc := .idle
  done : Bool := false          -- the `done` channel is closed
  qClosed : Bool := false       -- the outbound queue is closed
  queue : List Nat := []
  wire : List Nat := []
  accepted : List Nat := []     -- ghost: packets for which SendPacket returned nil, in order
  deriving DecidableEq, Repr, Inhabited, Hashable

def init : State := {}

inductive Action
  | goCall (w r : Bool)   -- Go(flag): CAS Init -> Running
  | goAddW | goSpawnW | goSkipW
  | goAddR | goSpawnR | goSkipR     -- goSkipR / goSpawnR end with Go returning
  | wStart | rStart                  -- first statement of the pump (with addInside: wg.Add(1))
  | send (p : Nat)                   -- SendPacket accepted
  | wRecv                            -- writer loop: take one packet and write it
  | wSeeDone | wSeeClosed            -- writer loop: done closed / queue closed and drained
  | wFlush | wFlushEnd | wWgDone     -- deferred function of the writer
  | rSeeDone | rWgDone
  | closeFlip | closeDone | closeWait | closeShutW | closeQueue | closeReturn
  deriving DecidableEq, Repr

/-- one step; `none` = the action is not enabled -/
def step (cfg : Cfg) (s : State) : Action → Option State
  | .goCall w r =>
    if s.st = .init ∧ s.goPc = .notCalled then some { s with st := .running, goPc := .casDone, wFlag := w, rFlag := r }
    else none
  | .goAddW =>
    if s.goPc = .casDone ∧ s.wFlag = true ∧ cfg.addInside = false then some { s with wg := s.wg + 1, goPc := .wAdded }
    else none
  | .goSpawnW =>
    if (s.goPc = .wAdded ∨ (s.goPc = .casDone ∧ s.wFlag = true ∧ cfg.addInside = true)) ∧ s.wPc = .notSpawned then
      some { s with wPc := .spawned, goPc := .wDone }
    else none
  | .goSkipW => if s.goPc = .casDone ∧ s.wFlag = false then some { s with goPc := .wDone } else none
  | .goAddR =>
    if s.goPc = .wDone ∧ s.rFlag = true ∧ cfg.addInside = false then some { s with wg := s.wg + 1, goPc := .rAdded }
    else none
  | .goSpawnR =>
    if (s.goPc = .rAdded ∨ (s.goPc = .wDone ∧ s.rFlag = true ∧ cfg.addInside = true)) ∧ s.rPc = .notSpawned then
      some { s with rPc := .spawned, goPc := .returned }
    else none
  | .goSkipR => if s.goPc = .wDone ∧ s.rFlag = false then some { s with goPc := .returned } else none
  | .wStart =>
    if s.wPc = .spawned then
      some { s with wPc := .running, wg := if cfg.addInside then s.wg + 1 else s.wg }
    else none
  | .rStart =>
    if s.rPc = .spawned then
      some { s with rPc := .running, wg := if cfg.addInside then s.wg + 1 else s.wg }
    else none
  | .send p =>
    if s.st = .running ∧ s.queue.length < cfg.cap ∧ s.qClosed = false then
      some { s with queue := s.queue ++ [p], accepted := s.accepted ++ [p] }
    else none
  | .wRecv =>
    if s.wPc = .running then
      match s.queue with
      | p :: q => some { s with queue := q, wire := s.wire ++ [p] }
      | [] => none
    else none
  | .wSeeDone => if s.wPc = .running ∧ s.done = true then some { s with wPc := .flushing } else none
  | .wSeeClosed =>
    if s.wPc = .running ∧ s.qClosed = true ∧ s.queue = [] then some { s with wPc := .flushing } else none
  | .wFlush =>
    if s.wPc = .flushing then
      match s.queue with
      | p :: q => some { s with queue := q, wire := s.wire ++ [p] }
      | [] => none
    else none
  | .wFlushEnd => if s.wPc = .flushing ∧ s.queue = [] then some { s with wPc := .flushed } else none
  | .wWgDone => if s.wPc = .flushed then some { s with wPc := .exited, wg := s.wg - 1 } else none
  | .rSeeDone => if s.rPc = .running ∧ s.done = true then some { s with rPc := .flushing } else none
  | .rWgDone => if s.rPc = .flushing then some { s with rPc := .exited, wg := s.wg - 1 } else none
  | .closeFlip =>
    if s.closer = .idle ∧ s.st = .running ∧ s.goPc = .returned then some { s with st := .shutdown, closer := .flipped }
    else none
  | .closeDone => if s.closer = .flipped then some { s with done := true, closer := .doneClosed } else none
  | .closeWait => if s.closer = .doneClosed ∧ s.wg = 0 then some { s with closer := .waited } else none
  | .closeShutW => if s.closer = .waited then some { s with closer := .shutW } else none
  | .closeQueue =>
    if s.closer = .shutW then some { s with st := .terminated, qClosed := true, closer := .queueClosed } else none
  | .closeReturn => if s.closer = .queueClosed then some { s with closer := .returned } else none

def run (cfg : Cfg) : State → List Action → Option State
  | s, [] => some s
  | s, a :: as => match step cfg s a with
    | some s' => run cfg s' as
    | none => none

def Reachable (cfg : Cfg) (s : State) : Prop := ∃ acts, run cfg init acts = some s

/-- `wg.Wait()` of `finally` has returned -/
def waitReturned (s : State) : Prop :=
  s.closer = .waited ∨ s.closer = .shutW ∨ s.closer = .queueClosed ∨ s.closer = .returned

instance (s : State) : Decidable (waitReturned s) := by unfold waitReturned; infer_instance

end Fatchoy.ConnStart
