/-
Layer ZS of C11: /repo/collections/zset/zset.go on top of the STRUCTURAL skip list S (Model/C11S.lean)
— the same code as layer Z of Model/C11.lean, but every call goes to the pointer/span model, and the
range walks of `GetRange`/`GetRangeByScore` follow the level-0 `forward` and the `backward` pointers.
`Add` takes the tower height the code draws when it inserts.  Core-only.

Outcomes: the outer `Option` is `none` when a pointer walk runs out of fuel (the Go code would not
terminate); `Out.panic` is a nil dereference, or the header leaking into a result (its `Ele` is nil).
-/
import Fatchoy.Model.C11S
namespace Fatchoy.C11

structure ZS where
  dict : Dict
  sl : S.SList
deriving Repr, DecidableEq

def ZS.empty (ml : Nat) : ZS := { dict := [], sl := S.new ml }

namespace S

/-- `n` times `result = append(result, node.Ele); node = node.level[0].forward`; inner `none` = nil
  dereference (or the header, which has no member) -/
def walkFwd (s : SList) : Nat → Option Nat → Option (List Nat)
  | 0, _ => some []
  | _ + 1, none => none
  | n + 1, some x =>
    if x = 0 then none else (walkFwd s n (cell s x 0).fwd).map ((nd s x).ele :: ·)

/-- the same along `node.backward` -/
def walkBwd (s : SList) : Nat → Option Nat → Option (List Nat)
  | 0, _ => some []
  | _ + 1, none => none
  | n + 1, some x =>
    if x = 0 then none else (walkBwd s n (nd s x).bwd).map ((nd s x).ele :: ·)

/-- the loop of `GetRangeByScore`: `for node != nil { if out of range { break }; append; move }`;
  outer `none` = out of fuel, inner `none` = the header leaked -/
def collect (s : SList) (reverse : Bool) (min max : Int) : Nat → Option Nat → Option (Option (List Nat))
  | 0, _ => none
  | _ + 1, none => some (some [])
  | fuel + 1, some x =>
    if (if reverse then decide ((nd s x).score < min) else decide ((nd s x).score > max)) then some (some [])
    else if x = 0 then some none
    else
      (collect s reverse min max fuel (if reverse then (nd s x).bwd else (cell s x 0).fwd)).map
        (fun r => r.map ((nd s x).ele :: ·))

end S

open S in
/-- `Count(min, max)`; `none` = out of fuel -/
def countS (s : SList) (min max : Int) : Option Int :=
  if min > max then some 0
  else match firstInRange s min max with
    | none => none
    | some none => some 0
    | some (some zn) =>
      match getRank s (nd s zn).score (nd s zn).ele with
      | none => none
      | some rank =>
        let count := s.length - (rank - 1)
        match lastInRange s min max with
        | none => none
        | some none => some count
        | some (some zn2) =>
          match getRank s (nd s zn2).score (nd s zn2).ele with
          | none => none
          | some rank2 => some (count - (s.length - rank2))

open S in
/-- `GetRange(start, end, reverse)`; outer `none` = out of fuel, inner `none` = nil dereference -/
def rangeByRankS (s : SList) (start stop : Int) (reverse : Bool) : Option (Option (List Nat)) :=
  let llen := s.length
  match normRange llen start stop with
  | none => some (some [])
  | some (a, b) =>
    let rangeLen := (b - a + 1).toNat
    if reverse then
      let node : Option (Option Nat) :=
        if a > 0 then getElementByRank s (llen - a) else some s.tail
      node.map (walkBwd s rangeLen)
    else
      let node : Option (Option Nat) :=
        if a > 0 then getElementByRank s (a + 1) else some (cell s 0 0).fwd
      node.map (walkFwd s rangeLen)

open S in
/-- `GetRangeByScore(min, max, reverse)` -/
def rangeByScoreS (s : SList) (min max : Int) (reverse : Bool) : Option (Option (List Nat)) :=
  if min > max then some (some [])
  else
    match (if reverse then lastInRange s min max else firstInRange s min max) with
    | none => none
    | some none => some (some [])
    | some (some x) => collect s reverse min max s.nodes.length (some x)

open S in
/-- one call of zset.go; `h` = the tower height drawn if the call inserts a node -/
def stepS (z : ZS) (h : Nat) : Op → Option (ZS × Out)
  | .len => some (z, .int z.sl.length)
  | .add e score =>
    match dget z.dict e with
    | some cur =>
      if cur != score then
        match delete z.sl cur e with
        | none => none
        | some (_, none) => some (z, .panic)   -- `znode.Ele` on a nil node
        | some (s1, some x) =>
          match insert s1 score (nd s1 x).ele h with
          | none => none
          | some (s2, _) => some ({ dict := dset z.dict e score, sl := s2 }, .bool true)
      else some (z, .bool true)
    | none =>
      match insert z.sl score e h with
      | none => none
      | some (s2, id) => some ({ dict := dset z.dict e (nd s2 id).score, sl := s2 }, .bool true)
  | .remove e =>
    match dget z.dict e with
    | some score =>
      match delete z.sl score e with
      | none => none
      | some (s1, _) => some ({ dict := ddel z.dict e, sl := s1 }, .bool true)
    | none => some (z, .bool false)
  | .removeRangeByScore min max =>
    if min > max then some (z, .int 0)
    else match deleteRangeByScore z.sl min max with
      | none => none
      | some (s1, gone) => some ({ dict := ddelAll z.dict gone, sl := s1 }, .int gone.length)
  | .removeRangeByRank start stop =>
    match normRange z.sl.length start stop with
    | none => some (z, .int 0)
    | some (a, b) =>
      match deleteRangeByRank z.sl (a + 1) (b + 1) with
      | none => none
      | some (s1, gone) => some ({ dict := ddelAll z.dict gone, sl := s1 }, .int gone.length)
  | .count min max => (countS z.sl min max).map (fun n => (z, .int n))
  | .getRank e reverse =>
    match dget z.dict e with
    | some score =>
      (getRank z.sl score e).map (fun rank =>
        (z, .int (if reverse then z.sl.length - rank else rank - 1)))
    | none => some (z, .int (-1))
  | .getScore e => some (z, .int ((dget z.dict e).getD 0))
  | .getRange start stop reverse =>
    (rangeByRankS z.sl start stop reverse).map (fun r =>
      match r with
      | some es => (z, .eles es)
      | none => (z, .panic))
  | .getRangeByScore min max reverse =>
    (rangeByScoreS z.sl min max reverse).map (fun r =>
      match r with
      | some es => (z, .eles es)
      | none => (z, .panic))

/-- results of a call sequence, each call with the tower height it would draw; `none` = some walk ran
  out of fuel -/
def traceS (z : ZS) : List (Op × Nat) → Option (List Out)
  | [] => some []
  | (op, h) :: rest =>
    match stepS z h op with
    | none => none
    | some (z', o) => (traceS z' rest).map (o :: ·)

def runS (z : ZS) : List (Op × Nat) → Option ZS
  | [] => some z
  | (op, h) :: rest =>
    match stepS z h op with
    | none => none
    | some (z', _) => runS z' rest

end Fatchoy.C11
