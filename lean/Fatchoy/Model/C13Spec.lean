/-
Specification vocabulary of C13, independent of the recency-list model in Model/C13.lean:

* `lastUse ops k`: the position in the call history of the last call that *uses* key `k`
  (only `Put k _` and `Get k` are uses), read directly off the history;
* `Ref`: a reference LRU that knows nothing about lists — an unordered table of
  (key, value, stamp of last use) and a clock; `Put`/`Get` stamp, eviction removes the entry with the
  smallest stamp, `Keys` sorts by stamp.

Core-only.
-/
import Fatchoy.Model.C13
namespace Fatchoy.C13

/-! ### last use, read off the history -/

/-- does this call count as a use of key `k`?  Only `Put` and `Get` do. -/
def isUse (op : Op) (k : K) : Bool :=
  match op with
  | .put k' _ => k' == k
  | .get k' => k' == k
  | _ => false

/-- history given newest call first: 1-based position (in call order) of the last use of `k`; 0 = never used -/
def lastUseR : List Op → K → Nat
  | [], _ => 0
  | op :: older, k => if isUse op k then older.length + 1 else lastUseR older k

/-- 1-based position in `ops` (call order) of the last call that uses `k`; 0 = never used -/
def lastUse (ops : List Op) (k : K) : Nat := lastUseR ops.reverse k

/-! ### reference LRU with use stamps -/

structure REnt where
  k : K
  v : V
  /-- clock value of the last `Put`/`Get` of this key -/
  t : Nat
deriving Repr, DecidableEq

/-- a table row without its stamp -/
def kv (e : REnt) : K × V := (e.k, e.v)

structure Ref where
  cap : Int
  clock : Nat
  /-- the table; its order carries no meaning -/
  ents : List REnt
  cb : Bool
deriving Repr, DecidableEq

def Ref.new (size : Int) (cb : Bool) : Option Ref :=
  if size ≤ 0 then none else some { cap := size, clock := 0, ents := [], cb := cb }

def rfind (ents : List REnt) (k : K) : Option REnt := ents.find? (fun e => e.k == k)

def rdel (ents : List REnt) (k : K) : List REnt := ents.filter (fun e => e.k != k)

/-- store value `v` under the (present) key `k` and stamp it `now` -/
def rtouch (ents : List REnt) (k : K) (v : V) (now : Nat) : List REnt :=
  ents.map (fun e => if e.k == k then { e with v := v, t := now } else e)

/-- the entry with the smallest stamp -/
def oldest : List REnt → Option REnt
  | [] => none
  | e :: es =>
    match oldest es with
    | none => some e
    | some a => if e.t < a.t then some e else some a

/-- the table by ascending stamp (least recently used first) -/
def byAge (ents : List REnt) : List REnt := ents.mergeSort (fun a b => decide (a.t ≤ b.t))

/-- evict the least recently used entry, if any, and report it -/
def evict1 (ents : List REnt) : List REnt × List (K × V) :=
  match oldest ents with
  | none => (ents, [])
  | some a => (rdel ents a.k, [(a.k, a.v)])

def evictMany : Nat → List REnt → List REnt × List (K × V)
  | 0, l => (l, [])
  | n + 1, l =>
    let r1 := evict1 l
    let r2 := evictMany n r1.1
    (r2.1, r1.2 ++ r2.2)

/-- one call on the reference: (table after, result, entries that left in report order).
  `Resize n` is specified for `0 ≤ n` (see `InDomain`): evict the least recently used entry while more
  than `n` are held, answer how many were evicted.  `Purge` reports newest first (the code's order is
  Go map order; the comparison with the code sorts). -/
def Ref.step (r : Ref) : Op → Ref × Out × List (K × V)
  | .len => (r, .num r.ents.length, [])
  | .cap => (r, .num r.cap, [])
  | .contains k => (r, .bool (rfind r.ents k).isSome, [])
  | .get k =>
    match rfind r.ents k with
    | some e => ({ r with ents := rtouch r.ents k e.v r.clock, clock := r.clock + 1 }, .val (some e.v), [])
    | none => (r, .val none, [])
  | .peek k => (r, .val ((rfind r.ents k).map (·.v)), [])
  | .getOldest => (r, .entry ((oldest r.ents).map (fun a => (a.k, a.v))), [])
  | .keys => (r, .keys ((byAge r.ents).map (·.k)), [])
  | .put k v =>
    match rfind r.ents k with
    | some _ => ({ r with ents := rtouch r.ents k v r.clock, clock := r.clock + 1 }, .bool false, [])
    | none =>
      let ents' := { k := k, v := v, t := r.clock } :: r.ents
      if r.cap < (ents'.length : Int) then
        let x := evict1 ents'
        ({ r with ents := x.1, clock := r.clock + 1 }, .bool true, x.2)
      else ({ r with ents := ents', clock := r.clock + 1 }, .bool true, [])
  | .resize n =>
    let x := evictMany (r.ents.length - n.toNat) r.ents
    ({ r with ents := x.1, cap := n }, .num x.2.length, x.2)
  | .remove k =>
    match rfind r.ents k with
    | some e => ({ r with ents := rdel r.ents k }, .bool true, [(k, e.v)])
    | none => (r, .bool false, [])
  | .removeOldest =>
    match oldest r.ents with
    | some a => ({ r with ents := rdel r.ents a.k }, .entry (some (a.k, a.v)), [(a.k, a.v)])
    | none => (r, .entry none, [])
  | .purge => ({ r with ents := [] }, .unit, (byAge r.ents).reverse.map (fun a => (a.k, a.v)))

def Ref.trace (r : Ref) : List Op → List (Out × List (K × V))
  | [] => []
  | op :: ops => let x := r.step op; (x.2.1, if r.cb then x.2.2 else []) :: Ref.trace x.1 ops

/-- the calls the property speaks about: capacities are not negative -/
def InDomain : Op → Prop
  | .resize n => 0 ≤ n
  | _ => True

end Fatchoy.C13
