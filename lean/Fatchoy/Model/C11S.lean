/-
Structural model S of /repo/collections/zset/zskiplist.go (C11): the skip list with its pointers.
Core-only.

A node is identified by its index into the node table `nodes` (index 0 is the header; a node that has
been unlinked stays in the table as garbage, as it would stay on the Go heap until collected).  Every
node carries its tower `lv` of (forward pointer, span) per level and its backward pointer; the list
carries `tail`, `length`, `level`.  Pointers are `Option Nat` (`none` = nil).  Spans, ranks and the
length are `Int` (Go `int`; the arithmetic `update[i].span - (rank[0] - rank[i])` is not truncated).

Every operation is written the way the Go code walks: the `update[]`/`rank[]` arrays of the search
(`search`: one `walk` per level from the top, position and accumulated rank carried down), the span
arithmetic of `Insert`, `deleteNode` with its level shrinking, the rank walks of `GetRank`,
`GetElementByRank` and `DeleteRangeByRank`.  `Insert` takes the tower height as an input (the code
draws it from `randLevel()`; the harness reads it back from the real node).

Loops that follow pointers carry a fuel (the size of the node table); running out of fuel — a pointer
cycle, the Go code would not terminate — is the explicit outcome `none`.  Table reads are total
(`getD`): reading a level a node does not have, or a dangling id, yields the nil link / an empty node
(the Go code would panic); the invariant `SOk` (Lemmas/C11S*.lean) rules both out.
-/
import Fatchoy.Model.C11
namespace Fatchoy.C11.S

structure Lvl where
  fwd : Option Nat
  span : Int
deriving Repr, DecidableEq

structure SNode where
  score : Int
  ele : Nat
  bwd : Option Nat
  lv : List Lvl
deriving Repr, DecidableEq

structure SList where
  /-- node table; `nodes[0]` is the header (`Score` 0, no member, `maxLevel` levels) -/
  nodes : List SNode
  tail : Option Nat
  length : Int
  level : Nat
deriving Repr, DecidableEq

/-- (score, member) of a node -/
def SNode.key (n : SNode) : Node := ⟨n.score, n.ele⟩

def Lvl.nil : Lvl := ⟨none, 0⟩
def SNode.dflt : SNode := ⟨0, 0, none, []⟩

/-- `NewZSkipList()` with `ZSKIPLIST_MAXLEVEL = ml` -/
def new (ml : Nat) : SList :=
  { nodes := [⟨0, 0, none, List.replicate ml Lvl.nil⟩], tail := none, length := 0, level := 1 }

/-! ### table access -/

def nd (s : SList) (x : Nat) : SNode := s.nodes.getD x SNode.dflt
/-- `x.level[i]` -/
def cell (s : SList) (x i : Nat) : Lvl := (nd s x).lv.getD i Lvl.nil
/-- `len(x.level)` -/
def height (s : SList) (x : Nat) : Nat := (nd s x).lv.length
def nodeOf (s : SList) (x : Nat) : Node := (nd s x).key

/-- `x.level[i] = c` -/
def setCell (s : SList) (x i : Nat) (c : Lvl) : SList :=
  { s with nodes := s.nodes.set x { nd s x with lv := (nd s x).lv.set i c } }
/-- `x.backward = b` -/
def setBwd (s : SList) (x : Nat) (b : Option Nat) : SList :=
  { s with nodes := s.nodes.set x { nd s x with bwd := b } }

/-! ### the search -/

/-- inner loop at level `i`:
  `for x.level[i].forward != nil && c(forward, acc + span) { acc += x.level[i].span; x = forward }`.
  `c` sees the forward node and the rank it has (accumulated rank + span of the link).
  `none` = out of fuel. -/
def walk (s : SList) (c : SNode → Int → Bool) (i : Nat) : Nat → Nat → Int → Option (Nat × Int)
  | 0, _, _ => none
  | fuel + 1, x, acc =>
    match (cell s x i).fwd with
    | none => some (x, acc)
    | some f =>
      if c (nd s f) (acc + (cell s x i).span) then walk s c i fuel f (acc + (cell s x i).span)
      else some (x, acc)

/-- outer loop `for i := n-1; i >= 0; i-- { (rank[i] = rank[i+1]); walk; update[i] = x }`:
  the list of `(update[i], rank[i])`, index = level -/
def search (s : SList) (c : SNode → Int → Bool) : Nat → Nat → Int → Option (List (Nat × Int))
  | 0, _, _ => some []
  | n + 1, x, acc =>
    match walk s c n s.nodes.length x acc with
    | none => none
    | some (x', acc') =>
      match search s c n x' acc' with
      | none => none
      | some rest => some (rest ++ [(x', acc')])

def updOf (ur : List (Nat × Int)) (i : Nat) : Nat := (ur.getD i (0, 0)).1
def rankOf (ur : List (Nat × Int)) (i : Nat) : Int := (ur.getD i (0, 0)).2

/-! ### Insert -/

/-- one iteration of the linking loop of `Insert` at level `i` (`d = rank[0] - rank[i]`):
  `x.level[i].forward = update[i].level[i].forward; update[i].level[i].forward = x;`
  `x.level[i].span = update[i].level[i].span - d; update[i].level[i].span = d + 1` -/
def linkLevel (ur : List (Nat × Int)) (id : Nat) (t : SList) (i : Nat) : SList :=
  let u := updOf ur i
  let d := rankOf ur 0 - rankOf ur i
  let t1 := setCell t id i ⟨(cell t u i).fwd, (cell t u i).span - d⟩
  setCell t1 u i ⟨some id, d + 1⟩

/-- `update[i].level[i].span++` for the levels above the new node -/
def bumpLevel (ur : List (Nat × Int)) (t : SList) (i : Nat) : SList :=
  let u := updOf ur i
  setCell t u i ⟨(cell t u i).fwd, (cell t u i).span + 1⟩

/-- `if level > zsl.level { for i := zsl.level; i < level; i++ { rank[i] = 0; update[i] = zsl.head;`
  `update[i].level[i].span = zsl.length }; zsl.level = level }` — the state part -/
def growLevels (s : SList) (h : Nat) : SList :=
  let s1 := (List.range' s.level (h - s.level)).foldl
    (fun t i => setCell t 0 i ⟨(cell t 0 i).fwd, s.length⟩) s
  { s1 with level := if s.level < h then h else s.level }

/-- `x = newZSkipListNode(level, score, ele)` -/
def pushNode (s : SList) (score : Int) (ele : Nat) (h : Nat) : SList :=
  { s with nodes := s.nodes ++ [⟨score, ele, none, List.replicate h Lvl.nil⟩] }

/-- the last part of `Insert`:
  `if update[0] != zsl.head { x.backward = update[0] } else { x.backward = nil }`;
  `if x.level[0].forward != nil { x.level[0].forward.backward = x } else { zsl.tail = x }`; `zsl.length++` -/
def fixBack (s : SList) (u0 id : Nat) : SList :=
  let s6 := setBwd s id (if u0 ≠ 0 then some u0 else none)
  let s7 := match (cell s6 id 0).fwd with
    | some f => setBwd s6 f (some id)
    | none => { s6 with tail := some id }
  { s7 with length := s7.length + 1 }

/-- `Insert` after the search: `ur0` = the search's `(update[i], rank[i])` for i < zsl.level -/
def insertAt (s : SList) (ur0 : List (Nat × Int)) (score : Int) (ele : Nat) (h : Nat) : SList × Nat :=
  let ur := ur0 ++ List.replicate (h - s.level) (0, 0)
  let s2 := growLevels s h
  let id := s2.nodes.length
  let s3 := pushNode s2 score ele h
  let s4 := (List.range h).foldl (linkLevel ur id) s3
  let s5 := (List.range' h (s4.level - h)).foldl (bumpLevel ur) s4
  (fixBack s5 (updOf ur 0) id, id)

/-- `Insert(score, ele)` with the tower height `h` the code drew; result: (list after, id of the new
  node); `none` = out of fuel -/
def insert (s : SList) (score : Int) (ele : Nat) (h : Nat) : Option (SList × Nat) :=
  (search s (fun f _ => f.key.lt ⟨score, ele⟩) s.level 0 0).map (fun ur0 => insertAt s ur0 score ele h)

/-! ### deleteNode / Delete -/

/-- one iteration of the unlinking loop of `deleteNode` at level `i` -/
def unlinkLevel (upd : List Nat) (x : Nat) (t : SList) (i : Nat) : SList :=
  let u := upd.getD i 0
  if (cell t u i).fwd == some x then
    setCell t u i ⟨(cell t x i).fwd, (cell t u i).span + ((cell t x i).span - 1)⟩
  else setCell t u i ⟨(cell t u i).fwd, (cell t u i).span - 1⟩

/-- `for zsl.level > 1 && zsl.head.level[zsl.level-1].forward == nil { zsl.level-- }` -/
def shrink (s : SList) : Nat → Nat
  | 0 => 0
  | 1 => 1
  | n + 2 => if (cell s 0 (n + 1)).fwd == none then shrink s (n + 1) else n + 2

/-- `if x.level[0].forward != nil { x.level[0].forward.backward = x.backward } else { zsl.tail = x.backward }` -/
def unlinkBack (s : SList) (x : Nat) : SList :=
  match (cell s x 0).fwd with
  | some f => setBwd s f (nd s x).bwd
  | none => { s with tail := (nd s x).bwd }

/-- `deleteNode(x, update)` -/
def deleteNode (s : SList) (x : Nat) (upd : List Nat) : SList :=
  let s1 := (List.range s.level).foldl (unlinkLevel upd x) s
  let s2 := unlinkBack s1 x
  { s2 with level := shrink s2 s2.level, length := s2.length - 1 }

/-- `Delete(score, ele)`; result: (list after, id of the node returned — `none` = nil) -/
def delete (s : SList) (score : Int) (ele : Nat) : Option (SList × Option Nat) :=
  match search s (fun f _ => f.key.lt ⟨score, ele⟩) s.level 0 0 with
  | none => none
  | some ur =>
    match (cell s (updOf ur 0) 0).fwd with
    | none => some (s, none)
    | some x =>
      if score == (nd s x).score && (nd s x).ele == ele then
        some (deleteNode s x (ur.map (·.1)), some x)
      else some (s, none)

/-! ### rank lookups -/

/-- the level loop of `GetRank`: walk, then `if x.Ele != nil && x.Ele.CompareTo(ele) == 0 { return rank }`
  (only the header has no member) -/
def getRankLoop (s : SList) (score : Int) (ele : Nat) : Nat → Nat → Int → Option Int
  | 0, _, _ => some 0
  | n + 1, x, r =>
    match walk s (fun f _ => f.key.le ⟨score, ele⟩) n s.nodes.length x r with
    | none => none
    | some (x', r') =>
      if x' ≠ 0 && (nd s x').ele == ele then some r' else getRankLoop s score ele n x' r'

def getRank (s : SList) (score : Int) (ele : Nat) : Option Int := getRankLoop s score ele s.level 0 0

/-- the level loop of `GetElementByRank`: walk while `traversed + span <= rank`, then
  `if traversed == rank { return x }`; result `some none` = nil, `some (some 0)` = the header -/
def byRankLoop (s : SList) (rank : Int) : Nat → Nat → Int → Option (Option Nat)
  | 0, _, _ => some none
  | n + 1, x, t =>
    match walk s (fun _ q => decide (q ≤ rank)) n s.nodes.length x t with
    | none => none
    | some (x', t') => if t' == rank then some (some x') else byRankLoop s rank n x' t'

def getElementByRank (s : SList) (rank : Int) : Option (Option Nat) := byRankLoop s rank s.level 0 0

/-! ### score ranges -/

/-- `IsInRange(min, max)` -/
def isInRange (s : SList) (min max : Int) : Bool :=
  if min > max then false
  else match s.tail with
    | none => false
    | some t =>
      if (nd s t).score < min then false
      else match (cell s 0 0).fwd with
        | none => false
        | some f => if (nd s f).score > max then false else true

/-- `FirstInRange(min, max)`; result `some none` = nil -/
def firstInRange (s : SList) (min max : Int) : Option (Option Nat) :=
  if !isInRange s min max then some none
  else match search s (fun f _ => decide (f.score < min)) s.level 0 0 with
    | none => none
    | some ur =>
      match (cell s (updOf ur 0) 0).fwd with
      | none => some none
      | some x => if (nd s x).score > max then some none else some (some x)

/-- `LastInRange(min, max)`; the node the walk stops on may be the header (`Score` 0): the code tests
  `x.Score < min` on it like on any node -/
def lastInRange (s : SList) (min max : Int) : Option (Option Nat) :=
  if !isInRange s min max then some none
  else match search s (fun f _ => decide (f.score ≤ max)) s.level 0 0 with
    | none => none
    | some ur =>
      let x := updOf ur 0
      if (nd s x).score < min then some none else some (some x)

/-! ### range deletion -/

/-- `for x != nil && c(x, traversed) { next = x.level[0].forward; deleteNode(x, update);`
  `delete(dict, x.Ele); removed++; traversed++; x = next }`; result: (list after, unlinked nodes in
  order); `none` = out of fuel -/
def delWhile (c : SNode → Int → Bool) (upd : List Nat) :
    Nat → SList → Option Nat → Int → List Node → Option (SList × List Node)
  | 0, _, _, _, _ => none
  | _ + 1, s, none, _, acc => some (s, acc.reverse)
  | fuel + 1, s, some x, t, acc =>
    if c (nd s x) t then
      delWhile c upd fuel (deleteNode s x upd) (cell s x 0).fwd (t + 1) (nodeOf s x :: acc)
    else some (s, acc.reverse)

/-- `DeleteRangeByScore(min, max, dict)` -/
def deleteRangeByScore (s : SList) (min max : Int) : Option (SList × List Node) :=
  match search s (fun f _ => decide (f.score < min)) s.level 0 0 with
  | none => none
  | some ur =>
    delWhile (fun n _ => decide (n.score ≤ max)) (ur.map (·.1)) s.nodes.length s
      (cell s (updOf ur 0) 0).fwd 0 []

/-- `DeleteRangeByRank(start, end, dict)`: walk while `traversed + span < start`; `traversed++`; unlink
  while `traversed <= end` -/
def deleteRangeByRank (s : SList) (start stop : Int) : Option (SList × List Node) :=
  match search s (fun _ q => decide (q < start)) s.level 0 0 with
  | none => none
  | some ur =>
    delWhile (fun _ t => decide (t ≤ stop)) (ur.map (·.1)) s.nodes.length s
      (cell s (updOf ur 0) 0).fwd (rankOf ur 0 + 1) []

/-! ### observation -/

/-- the ids along the level-0 chain -/
def chainFrom (s : SList) : Nat → Option Nat → List Nat
  | 0, _ => []
  | _ + 1, none => []
  | fuel + 1, some x => x :: chainFrom s fuel (cell s x 0).fwd

def ids (s : SList) : List Nat := chainFrom s s.nodes.length (cell s 0 0).fwd

/-- abstraction: the content in level-0 order -/
def abs (s : SList) : SL := (ids s).map (nodeOf s)

/-- the ids along the backward chain from the tail -/
def chainBack (s : SList) : Nat → Option Nat → List Nat
  | 0, _ => []
  | _ + 1, none => []
  | fuel + 1, some x => x :: chainBack s fuel (nd s x).bwd

end Fatchoy.C11.S
