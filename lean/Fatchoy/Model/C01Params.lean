/-
The codec model's parameters as regenerated from the source for C01 (Gen/C01.lean).
-/
import Fatchoy.Gen.C01
import Fatchoy.Model.Codec
namespace Fatchoy.C01
open Fatchoy.Codec

def params : Params :=
  { v1 := { v2 := false, headerSize := Gen.C01.v1HeaderSize, max := Gen.C01.v1MaxPayloadBytes,
            writeMax := Gen.C01.v1WriteMax, defThreshold := Gen.C01.v1DefaultThreshold,
            pack := Gen.C01.v1Pack, setCrc := (Gen.C01.v1SetCrcOff, Gen.C01.v1SetCrcWidth), get := Gen.C01.v1Get,
            crcCover := Gen.C01.v1CrcCover, crcParts := Gen.C01.v1CrcParts, crcCtor := Gen.C01.v1CrcCtor,
            lenBits := Gen.C01.v1LenBits, readLo := Gen.C01.v1ReadLo, readHi := Gen.C01.v1ReadHi,
            readSub := Gen.C01.v1ReadSub, bodyStepOnFlags := Gen.C01.v1BodyStepOnFlags },
    v2 := { v2 := true, headerSize := Gen.C01.v2HeaderSize, max := Gen.C01.v2MaxPayloadBytes,
            writeMax := Gen.C01.v2WriteMax, defThreshold := Gen.C01.v2DefaultThreshold,
            pack := Gen.C01.v2Pack, setCrc := (Gen.C01.v2SetCrcOff, Gen.C01.v2SetCrcWidth), get := Gen.C01.v2Get,
            crcCover := Gen.C01.v2CrcCover, crcParts := Gen.C01.v2CrcParts, crcCtor := Gen.C01.v2CrcCtor,
            lenBits := Gen.C01.v2LenBits, readLo := Gen.C01.v2ReadLo, readHi := Gen.C01.v2ReadHi,
            readSub := Gen.C01.v2ReadSub, bodyStepOnFlags := Gen.C01.v2BodyStepOnFlags },
    maxRefs := Gen.C01.maxRefs,
    flagCompressed := Gen.C01.flagCompressed, flagEncrypted := Gen.C01.flagEncrypted, flagError := Gen.C01.flagError,
    ldHeader := Gen.C01.ldHeader, ldLenBits := Gen.C01.ldLenBits, ldReadLo := Gen.C01.ldReadLo,
    ldReadSub := Gen.C01.ldReadSub, ldWriteAdd := Gen.C01.ldWriteAdd, ldWriteHi := Gen.C01.ldWriteHi,
    ldWriteHeader := Gen.C01.ldWriteHeader, ldRetAdd := Gen.C01.ldRetAdd, nilBodyEncodes := Gen.C01.nilBodyEncodes }

end Fatchoy.C01
