/-
Model of /repo/collections/trie/hashtrie.go (C14): AddWord, Remove (contains/getTailCharNode/remove),
Reset, WordsCount, starts, find, ExactMatch, Contains, Filter.  Core-only.

A trie node is identified by the path of runes that leads to it (the root is the empty path and always
exists); the state is the list of non-root nodes, the list of nodes whose `isEnd` is set, and the word
counter. `node.children[r]` exists iff `path ++ [r]` is a node. Runes are `Nat` code points; texts arrive
as `[]rune(word)`. Every function follows the control flow of the Go function it is named after.
-/
import Fatchoy.Gen.C14
namespace Fatchoy.C14

structure Params where
  /-- `WildCardStar` -/
  wild : Nat
  /-- the rune `Filter` writes over a match (`strings.Repeat("*", n)`) -/
  mask : Nat
  /-- `getTailCharNode` (the membership test of `Remove`) walks `node.children[ch]`, not the wildcard-aware `node.contains(ch)` -/
  exactTail : Bool
deriving Repr, DecidableEq

def params : Params := { wild := Gen.C14.wildCard, mask := Gen.C14.maskRune, exactTail := Gen.C14.tailWalkExact }

abbrev Path := List Nat

structure Trie where
  nodes : List Path
  ends : List Path
  size : Int
deriving Repr, DecidableEq

/-- `NewHashTrie()` / `Reset()` -/
def Trie.empty : Trie := { nodes := [], ends := [], size := 0 }

/-- `node.isEnd` of the node at `p` -/
def isEnd (t : Trie) (p : Path) : Bool := decide (p ∈ t.ends)

/-- `q` is a child of `p`: `q = p ++ [r]` -/
def isChild (p q : Path) : Bool := p.isPrefixOf q && q.length == p.length + 1

/-- `len(node.children) > 0` of the node at `p` -/
def hasChildren (t : Trie) (p : Path) : Bool := t.nodes.any (isChild p)

/-- the loop of `AddWord`: create the missing nodes along the word; returns the node reached -/
def addLoop (nodes : List Path) (path : Path) : List Nat → List Path × Path
  | [] => (nodes, path)
  | c :: rest => addLoop (if path ++ [c] ∈ nodes then nodes else (path ++ [c]) :: nodes) (path ++ [c]) rest

/-- `AddWord` -/
def addWord (t : Trie) (w : List Nat) : Trie :=
  if w = [] then t else
  let r := addLoop t.nodes [] w
  if isEnd t r.2 then { t with nodes := r.1 }
  else { nodes := r.1, ends := r.2 :: t.ends, size := t.size + 1 }

/-- `node.contains(r)`: the literal child, else the wildcard child -/
def childOf (P : Params) (t : Trie) (path : Path) (r : Nat) : Option Path :=
  if path ++ [r] ∈ t.nodes then some (path ++ [r])
  else if path ++ [P.wild] ∈ t.nodes then some (path ++ [P.wild])
  else none

/-- `getTailCharNode`: the node the word leads to -/
def tailNode (P : Params) (t : Trie) (path : Path) : List Nat → Option Path
  | [] => some path
  | c :: rest =>
    if P.exactTail then
      (if path ++ [c] ∈ t.nodes then tailNode P t (path ++ [c]) rest else none)
    else
      match childOf P t path c with
      | some child => tailNode P t child rest
      | none => none

/-- `(*HashTrie).contains(word)` -/
def containsWord (P : Params) (t : Trie) (w : List Nat) : Bool :=
  match tailNode P t [] w with
  | some p => isEnd t p
  | none => false

/-- `delete(node.children, r)`: the child and everything below it becomes unreachable -/
def deleteSubtree (l : List Path) (child : Path) : List Path := l.filter (fun q => !child.isPrefixOf q)

/-- `remove(node, word, depth)` with `node` = the node at `path`, `word[depth:]` = the remaining runes:
  clears the terminal mark at the end of the word and, on the way back, deletes every child that has
  become useless; returns whether `node` itself is useless now (`!node.isEnd && len(node.children) == 0`).
  A missing child is `remove(nil, …) = false`. -/
def removeRec (t : Trie) (path : Path) : List Nat → Trie × Bool
  | [] =>
    let t' := { t with ends := t.ends.filter (· != path) }
    (t', !isEnd t' path && !hasChildren t' path)
  | c :: rest =>
    if path ++ [c] ∈ t.nodes then
      let r := removeRec t (path ++ [c]) rest
      let t2 := if r.2 then { r.1 with nodes := deleteSubtree r.1.nodes (path ++ [c]),
                                       ends := deleteSubtree r.1.ends (path ++ [c]) } else r.1
      (t2, !isEnd t2 path && !hasChildren t2 path)
    else (t, !isEnd t path && !hasChildren t path)

/-- `Remove` -/
def remove (P : Params) (t : Trie) (w : List Nat) : Trie × Bool :=
  if containsWord P t w then
    let r := removeRec t [] w
    ({ r.1 with size := r.1.size - 1 }, true)
  else (t, false)

/-- `starts(word, pos)` seen from `pos`: `path` is the current node, `k` the number of runes consumed so
  far, the list what is left of the text. Returns `idx - pos + 1` for the returned index `idx`
  (`none` = -1): the walk stops at the first terminal node. -/
def matchLen (P : Params) (t : Trie) : Path → Nat → List Nat → Option Nat
  | path, k, [] => if isEnd t path then some (k + 1) else none
  | path, k, ch :: rest =>
    match childOf P t path ch with
    | none => none
    | some child => if isEnd t child then some (k + 1) else matchLen P t child (k + 1) rest

/-- `find(word, pos)` on the suffix that starts at `pos`; `i` counts the start positions tried.
  Returns (start of the match relative to the suffix, length) -/
def find (P : Params) (t : Trie) : Nat → List Nat → Option (Nat × Nat)
  | _, [] => none
  | i, ch :: rest =>
    match matchLen P t [] 0 (ch :: rest) with
    | some n => some (i, n)
    | none => find P t (i + 1) rest

/-- `ExactMatch` -/
def exactMatch (P : Params) (t : Trie) (w : List Nat) : Bool :=
  if w = [] then false else
  match matchLen P t [] 0 w with
  | some n => n == w.length
  | none => false

/-- `Contains` -/
def contains (P : Params) (t : Trie) (w : List Nat) : Bool :=
  match find P t 0 w with
  | some (_, n) => decide (n > 0)
  | none => false

theorem matchLen_gt (P : Params) (t : Trie) (path : Path) (k : Nat) (l : List Nat) (n : Nat)
    (h : matchLen P t path k l = some n) : k < n := by
  induction l generalizing path k with
  | nil =>
    unfold matchLen at h
    split at h
    · cases h; omega
    · cases h
  | cons ch rest ih =>
    unfold matchLen at h
    split at h
    · cases h
    · split at h
      · cases h; omega
      · have := ih _ _ h; omega

theorem find_some_pos (P : Params) (t : Trie) (i : Nat) (l : List Nat) (j n : Nat)
    (h : find P t i l = some (j, n)) : 0 < n ∧ l ≠ [] := by
  induction l generalizing i with
  | nil => simp [find] at h
  | cons ch rest ih =>
    unfold find at h
    split at h
    · rename_i m hm
      cases h
      exact ⟨by have := matchLen_gt P t _ _ _ _ hm; omega, by simp⟩
    · exact ⟨(ih _ h).1, by simp⟩

/-- the loop of `Filter` on what is left of the text from `start`: copy up to the match, write the mask
  over it, resume after it; without a further match copy the rest -/
def filterLoop (P : Params) (t : Trie) (s : List Nat) : List Nat :=
  match _h : find P t 0 s with
  | none => s
  | some (skip, n) => s.take skip ++ List.replicate n P.mask ++ filterLoop P t (s.drop (skip + n))
termination_by s.length
decreasing_by
  have := find_some_pos P t 0 s skip n _h
  have hl : 0 < s.length := List.length_pos_iff.mpr this.2
  simp only [List.length_drop]
  omega

/-- `Filter` -/
def filter (P : Params) (t : Trie) (w : List Nat) : List Nat := filterLoop P t w

inductive Op where
  | add (w : List Nat)
  | remove (w : List Nat)
  | reset
deriving Repr

def step (P : Params) (t : Trie) : Op → Trie
  | .add w => addWord t w
  | .remove w => (remove P t w).1
  | .reset => Trie.empty

/-- the trie after a history, starting from `NewHashTrie()` -/
def run (P : Params) (ops : List Op) : Trie := ops.foldl (step P) Trie.empty

end Fatchoy.C14
