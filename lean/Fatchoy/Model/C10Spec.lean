/-
The specification side of C10: a sorted map is a list of (key, value) pairs with strictly increasing
keys; every operation and query is the obvious list function.  Core-only.
-/
import Fatchoy.Model.C10
namespace Fatchoy.C10

/-- strictly increasing keys: each key present once, in comparator order -/
def Sorted (l : List Entry) : Prop := l.Pairwise (fun a b => a.1 < b.1)

def insertS (k : Nat) (v : Int) : List Entry → List Entry
  | [] => [(k, v)]
  | e :: rest =>
    if k < e.1 then (k, v) :: e :: rest
    else if e.1 < k then e :: insertS k v rest
    else (k, v) :: rest

def eraseS (k : Nat) (l : List Entry) : List Entry := l.filter (fun e => e.1 != k)

def lookupS (k : Nat) (l : List Entry) : Option Int := (l.find? (fun e => e.1 == k)).map (·.2)

/-- least entry with key ≥ k -/
def ceilingS (k : Nat) (l : List Entry) : Option Entry := l.find? (fun e => decide (k ≤ e.1))
/-- least entry with key > k -/
def higherS (k : Nat) (l : List Entry) : Option Entry := l.find? (fun e => decide (k < e.1))
/-- greatest entry with key ≤ k -/
def floorS (k : Nat) (l : List Entry) : Option Entry := l.reverse.find? (fun e => decide (e.1 ≤ k))
/-- greatest entry with key < k -/
def lowerS (k : Nat) (l : List Entry) : Option Entry := l.reverse.find? (fun e => decide (e.1 < k))

/-! ### the two machines of the refinement theorem -/

inductive Op
  | put (k : Nat) (v : Int) | remove (k : Nat) | clear
  | get (k : Nat) | getOrDefault (k : Nat) (d : Int) | contains (k : Nat) | size | isEmpty
  | first | last | floor (k : Nat) | ceiling (k : Nat) | higher (k : Nat)
  | keys | values | inOrder

inductive Out
  | unit
  | prev (o : Option Int)
  | val (o : Option Int)
  | int (n : Int)
  | bool (b : Bool)
  | entry (o : Option Entry)
  | nats (l : List Nat)
  | ints (l : List Int)
  | entries (l : List Entry)
deriving Repr, DecidableEq

/-- the model: what map.go does -/
def step (P : Params) (m : Map) : Op → Map × Out
  | .put k v => let (m', o) := put m k v; (m', .prev o)
  | .remove k => let (m', b) := remove m k; (m', .bool b)
  | .clear => (clear P m, .unit)
  | .get k => (m, .val (find m.root k))
  | .getOrDefault k d => (m, .int ((find m.root k).getD d))
  | .contains k => (m, .bool (find m.root k).isSome)
  | .size => (m, .int m.size)
  | .isEmpty => (m, .bool (decide (m.size = 0)))
  | .first => (m, .entry (firstEntry m.root))
  | .last => (m, .entry (lastEntry m.root))
  | .floor k => (m, .entry (floor m.root k))
  | .ceiling k => (m, .entry (ceiling m.root k))
  | .higher k => (m, .entry (higher m.root k))
  | .keys => (m, .nats ((toList m.root).map (·.1)))
  | .values => (m, .ints ((toList m.root).map (·.2)))
  | .inOrder => (m, .entries (toList m.root))

/-- the specification: the same ops on a sorted association list -/
def specStep (l : List Entry) : Op → List Entry × Out
  | .put k v => (insertS k v l, .prev (lookupS k l))
  | .remove k => (eraseS k l, .bool (lookupS k l).isSome)
  | .clear => ([], .unit)
  | .get k => (l, .val (lookupS k l))
  | .getOrDefault k d => (l, .int ((lookupS k l).getD d))
  | .contains k => (l, .bool (lookupS k l).isSome)
  | .size => (l, .int l.length)
  | .isEmpty => (l, .bool l.isEmpty)
  | .first => (l, .entry l.head?)
  | .last => (l, .entry l.getLast?)
  | .floor k => (l, .entry (floorS k l))
  | .ceiling k => (l, .entry (ceilingS k l))
  | .higher k => (l, .entry (higherS k l))
  | .keys => (l, .nats (l.map (·.1)))
  | .values => (l, .ints (l.map (·.2)))
  | .inOrder => (l, .entries l)

/-- does this op change the set of keys of the sorted map `l` (a structural modification)? -/
def structural (l : List Entry) : Op → Bool
  | .put k _ => (lookupS k l).isNone
  | .remove k => (lookupS k l).isSome
  | .clear => true
  | _ => false

/-- run an op sequence, collecting the answers -/
def run (P : Params) : Map → List Op → Map × List Out
  | m, [] => (m, [])
  | m, op :: ops => let (m', o) := step P m op; let (m'', os) := run P m' ops; (m'', o :: os)

def specRun : List Entry → List Op → List Entry × List Out
  | l, [] => (l, [])
  | l, op :: ops => let (l', o) := specStep l op; let (l'', os) := specRun l' ops; (l'', o :: os)

/-- does an op sequence, applied to the sorted map `l`, contain a structural modification? -/
def structuralRun : List Entry → List Op → Bool
  | _, [] => false
  | l, op :: ops => structural l op || structuralRun (specStep l op).1 ops

/-! ### iterating with selective removal -/

structure DrainResult where
  m : Map
  it : Iter
  visited : List Entry
  /-- the panic that ended the loop, if any -/
  panic : Option IterErr

/-- The loop `for i := 0; i < limit && it.HasNext(); i++ { e := it.Next(); if sel(key(e)) { it.Remove() } }`,
collecting the returned entries; a panic of the iterator ends it and is reported. -/
def drain (P : Params) (sel : Nat → Bool) : Nat → Map → Iter → List Entry → DrainResult
  | 0, m, it, acc => ⟨m, it, acc, none⟩
  | limit + 1, m, it, acc =>
    if iterHasNext it then
      match iterNext m it with
      | .error err => ⟨m, it, acc, some err⟩
      | .ok (it1, e) =>
        if sel e.1 then
          match iterRemove P m it1 with
          | .error err => ⟨m, it1, acc ++ [e], some err⟩
          | .ok (m2, it2) => drain P sel limit m2 it2 (acc ++ [e])
        else drain P sel limit m it1 (acc ++ [e])
    else ⟨m, it, acc, none⟩

/-- the order in which an iterator of this kind must return the entries of a listing -/
def visitOrder (kind : IterKind) (l : List Entry) : List Entry := if kind.descending then l.reverse else l

/-! ### the machines extended with iteration: between two map operations a client may run an iterator of any
kind for up to `limit` rounds, removing the returned entries it selects -/

inductive Op2
  | base (op : Op)
  | iterate (kind : IterKind) (sel : Nat → Bool) (limit : Nat)

inductive Out2
  | base (o : Out)
  | visited (l : List Entry) (panic : Option IterErr)
deriving DecidableEq

def step2 (P : Params) (m : Map) : Op2 → Map × Out2
  | .base op => let (m', o) := step P m op; (m', .base o)
  | .iterate kind sel limit =>
    let r := drain P sel limit m (iterNew m kind) []
    (r.m, .visited r.visited r.panic)

/-- specification: the first `limit` entries in the iterator's direction are returned, never a panic, and the
selected ones among them leave the map -/
def specStep2 (l : List Entry) : Op2 → List Entry × Out2
  | .base op => let (l', o) := specStep l op; (l', .base o)
  | .iterate kind sel limit =>
    let vs := (visitOrder kind l).take limit
    (l.filter (fun e => !(sel e.1 && vs.any (fun x => x.1 == e.1))), .visited vs none)

def run2 (P : Params) : Map → List Op2 → Map × List Out2
  | m, [] => (m, [])
  | m, op :: ops => let (m', o) := step2 P m op; let (m'', os) := run2 P m' ops; (m'', o :: os)

def specRun2 : List Entry → List Op2 → List Entry × List Out2
  | l, [] => (l, [])
  | l, op :: ops => let (l', o) := specStep2 l op; let (l'', os) := specRun2 l' ops; (l'', o :: os)

end Fatchoy.C10
