/-
Model of /repo/collections/consistent/consistent.go (C17): hashKey, AddNode, RemoveNode, GetNodeBy, search,
updateSortedHash.  Core-only.

* ring points are `uint32` values, represented by their `Nat` value (the code only compares them, unsigned);
  the hash itself is computed on `BitVec 32` (FNV-1a, constants regenerated from the source);
* `circle map[uint32]string` is an association list with map semantics (`find`/`insert`/`erase`);
  `nodes map[string]bool` a list used as a set; `sortedHash` the sorted list of the keys of `circle`,
  recomputed by every membership change exactly as `updateSortedHash` does (insertion sort stands for
  `sort.Sort`; Go's random map iteration order is irrelevant because the keys are sorted afterwards);
* `GetNodeBy` on an empty ring indexes an empty slice: the explicit outcome `Res.panic`.
The ring operations are generic in the member type and in a configuration `Cfg`: the function `pts` giving the
replica points of a member and the order `ord` in which the remaining members are visited when `RemoveNode`
gives points back. The theorems of Props/C17.lean hold for every such function (an arbitrary hash) and every
order that enumerates the member set; the driver instantiates them with FNV-1a over
`fmt.Sprintf("%s-%d", node, i)`, i < ReplicaCount, and `sort.Strings`.
-/
import Fatchoy.Gen.C17
namespace Fatchoy.C17

structure Params where
  replicas : Nat
  offset : Nat
  prime : Nat
  hashBits : Nat
  fnvOrder : String
  fmtAdd : String
  fmtRemove : String
  searchCmp : String
  /-- `RemoveNode` deletes a point only when the removed member still owns it -/
  guarded : Bool
  /-- `RemoveNode` then puts every replica point that a remaining member lacks back on the ring -/
  restores : Bool
  fmtRestore : String
deriving Repr, DecidableEq

/-- parameters regenerated from the source on every run -/
def params : Params :=
  { replicas := Gen.C17.replicaCount, offset := Gen.C17.fnvOffset, prime := Gen.C17.fnvPrime,
    hashBits := Gen.C17.hashBits, fnvOrder := Gen.C17.fnvOrder,
    fmtAdd := Gen.C17.replicaFormatAdd, fmtRemove := Gen.C17.replicaFormatRemove,
    searchCmp := Gen.C17.searchCmp, guarded := Gen.C17.removeGuarded,
    restores := Gen.C17.removeRestores, fmtRestore := Gen.C17.replicaFormatRestore }

/-! ### the hash -/

/-- `hashKey`: FNV-1a, 32 bit: `hash ^= uint32(c); hash *= prime` for every byte -/
def fnv (P : Params) (bs : List UInt8) : BitVec 32 :=
  bs.foldl (fun h c => (h ^^^ BitVec.ofNat 32 c.toNat) * BitVec.ofNat 32 P.prime) (BitVec.ofNat 32 P.offset)

/-- the only replica formats the model understands: `%s<sep>%d` with an ASCII separator free of `%` -/
def parseFmt (f : String) : Option (List UInt8) :=
  match f.toList with
  | '%' :: 's' :: rest =>
    let sep := rest.takeWhile (· != '%')
    if rest.dropWhile (· != '%') == ['%', 'd'] && sep.all (fun c => c.toNat < 128) then
      some (sep.map (fun c => UInt8.ofNat c.toNat))
    else none
  | _ => none

/-- `%d` of a non-negative int -/
def decimal (n : Nat) : List UInt8 := (Nat.repr n).toList.map (fun c => UInt8.ofNat c.toNat)

/-- the ring points of a member: `hashKey(fmt.Sprintf("%s-%d", node, i))` for `i = 0 … ReplicaCount-1` -/
def replicaPoints (P : Params) (sep : List UInt8) (m : List UInt8) : List Nat :=
  (List.range P.replicas).map (fun i => (fnv P (m ++ sep ++ decimal i)).toNat)

/-! ### the ring, for an arbitrary member type and an arbitrary assignment of points to members -/

variable {μ : Type} [DecidableEq μ]

/-- `circle[p]` (with the comma-ok form: `none` = no such key) -/
def find : List (Nat × μ) → Nat → Option μ
  | [], _ => none
  | (q, m) :: c, p => if q = p then some m else find c p

/-- `delete(circle, p)` -/
def erase (c : List (Nat × μ)) (p : Nat) : List (Nat × μ) := c.filter (fun e => e.1 != p)

/-- `circle[p] = m` -/
def insert (c : List (Nat × μ)) (p : Nat) (m : μ) : List (Nat × μ) := (p, m) :: erase c p

def keys (c : List (Nat × μ)) : List Nat := c.map (·.1)

def insertSorted (x : Nat) : List Nat → List Nat
  | [] => [x]
  | y :: ys => if x ≤ y then x :: y :: ys else y :: insertSorted x ys

/-- `sort.Sort(Uint32Slice(hashes))` -/
def sortPoints (l : List Nat) : List Nat := l.foldr insertSorted []

structure Ring (μ : Type) where
  circle : List (Nat × μ)
  nodes : List μ
  sorted : List Nat
deriving Repr

/-- `New()` -/
def Ring.empty : Ring μ := { circle := [], nodes := [], sorted := [] }

/-- `updateSortedHash` -/
def updateSorted (c : List (Nat × μ)) : List Nat := sortPoints (keys c)

/-- `AddNode`: every replica point is (re)assigned to the member — a point that another member already
  holds (hash collision) is taken over -/
def addNode (pts : μ → List Nat) (r : Ring μ) (m : μ) : Ring μ :=
  let c := (pts m).foldl (fun c p => insert c p m) r.circle
  { circle := c, nodes := if m ∈ r.nodes then r.nodes else m :: r.nodes, sorted := updateSorted c }

/-- one iteration of `RemoveNode`'s loop. `guarded`: `if c.circle[key] == node { delete(c.circle, key) }`
  (the zero value "" that Go reads for a missing key can only make the test true for a key that is not
  there, where `delete` does nothing); unguarded: `delete(c.circle, key)`. -/
def removeStep (guarded : Bool) (m : μ) (c : List (Nat × μ)) (p : Nat) : List (Nat × μ) :=
  if guarded then (if find c p = some m then erase c p else c) else erase c p

/-- how the ring is configured: the two facts about `RemoveNode` regenerated from the source, the replica
  points of a member (any function: an arbitrary hash), and the order in which `RemoveNode` visits the
  remaining members when it gives points back (`sort.Strings` of the member names in the code) -/
structure Cfg (μ : Type) where
  guarded : Bool
  restores : Bool
  pts : μ → List Nat
  ord : List μ → List μ

/-- `if _, found := c.circle[key]; !found { c.circle[key] = name }` -/
def restoreStep (m : μ) (c : List (Nat × μ)) (p : Nat) : List (Nat × μ) :=
  if (find c p).isNone then insert c p m else c

/-- the give-back loop of `RemoveNode`: for every remaining member, in the given order, every replica
  point that is not on the ring is put there for that member -/
def restore (pts : μ → List Nat) (ms : List μ) (c : List (Nat × μ)) : List (Nat × μ) :=
  ms.foldl (fun c m => (pts m).foldl (restoreStep m) c) c

/-- `RemoveNode`: delete the points the member owns, drop it from the member set, give the remaining
  members the points they lack (points they had lost to the removed member through a collision) -/
def removeNode (K : Cfg μ) (r : Ring μ) (m : μ) : Ring μ :=
  let c := (K.pts m).foldl (removeStep K.guarded m) r.circle
  let nodes := r.nodes.filter (· ≠ m)
  let c' := if K.restores then restore K.pts (K.ord nodes) c else c
  { circle := c', nodes := nodes, sorted := updateSorted c' }

/-- the loop of `search`: `for lo < hi { mid := lo + (hi-lo)/2; if a[mid] <= hash { lo = mid+1 } else { hi = mid } }` -/
def searchLoop (a : List Nat) (h : Nat) (lo hi : Nat) (hhi : hi ≤ a.length) : Nat :=
  if hlt : lo < hi then
    have hm : lo + (hi - lo) / 2 < a.length := by omega
    if a[lo + (hi - lo) / 2] ≤ h then searchLoop a h (lo + (hi - lo) / 2 + 1) hi hhi
    else searchLoop a h lo (lo + (hi - lo) / 2) (by omega)
  else lo
termination_by hi - lo
decreasing_by all_goals omega

/-- `search`: index of the point that serves hash `h` -/
def search (a : List Nat) (h : Nat) : Nat :=
  let lo := searchLoop a h 0 a.length (Nat.le_refl _)
  if lo ≥ a.length then 0 else lo

inductive Res (μ : Type) where
  | panic            -- index out of range: the ring has no point
  | absent           -- the point is not a key of `circle` (Go would return ""): never happens, see `lookup_total`
  | node (m : μ)
deriving Repr, DecidableEq

/-- `GetNodeBy` for a key whose hash is `h`: `c.circle[c.sortedHash[c.search(h)]]` -/
def lookup (r : Ring μ) (h : Nat) : Res μ :=
  match r.sorted[search r.sorted h]? with
  | none => .panic
  | some p => match find r.circle p with
    | some m => .node m
    | none => .absent

inductive Op (μ : Type) where
  | add (m : μ)
  | remove (m : μ)
deriving Repr

def step (K : Cfg μ) (r : Ring μ) : Op μ → Ring μ
  | .add m => addNode K.pts r m
  | .remove m => removeNode K r m

/-- the ring after a history of membership changes, starting from `New()` -/
def run (K : Cfg μ) (ops : List (Op μ)) : Ring μ :=
  ops.foldl (step K) Ring.empty

/-! ### the concrete configuration: byte-string members, FNV-1a replica points, `sort.Strings` -/

/-- `a < b` for Go strings: bytewise lexicographic -/
def bytesLt : List UInt8 → List UInt8 → Bool
  | [], [] => false
  | [], _ :: _ => true
  | _ :: _, [] => false
  | a :: as, b :: bs => a < b || (a == b && bytesLt as bs)

def insertName (x : List UInt8) : List (List UInt8) → List (List UInt8)
  | [] => [x]
  | y :: ys => if bytesLt y x then y :: insertName x ys else x :: y :: ys

/-- `sort.Strings(names)` (the names are distinct) -/
def sortNames (l : List (List UInt8)) : List (List UInt8) := l.foldr insertName []

/-- the configuration the driver runs: `none` = a replica format the model does not know, or different
  formats in AddNode and RemoveNode -/
def concreteCfg? (P : Params) : Option (Cfg (List UInt8)) :=
  match parseFmt P.fmtAdd, parseFmt P.fmtRemove with
  | some sa, some sr =>
    if sa = sr ∧ (P.restores = false ∨ parseFmt P.fmtRestore = some sa) then
      some { guarded := P.guarded, restores := P.restores, pts := replicaPoints P sa, ord := sortNames }
    else none
  | _, _ => none

end Fatchoy.C17
