/-
C10, several live iterators over one tree map: the machine whose steps are a map operation, the creation of an
iterator in a slot, `HasNext` / `Next` / `Remove` on the iterator of a slot — any interleaving, any number of
slots.  The iterator functions are those of Model/C10.lean (`iterNew`, `iterHasNext`, `iterNext`, `iterRemove`);
this file only adds the slot table and the history.  The driver (Drv/C10.lean) answers the op lines
`iter` / `hasnext` / `next` / `irm` of X with `mstep`, the function the `C10_multi_*` theorems are about.
Core-only.
-/
import Fatchoy.Model.C10Spec
namespace Fatchoy.C10

inductive MOp
  | base (op : Op)
  | create (s : Nat) (kind : IterKind)
  | hasNext (s : Nat)
  | next (s : Nat)
  | iremove (s : Nat)

inductive MOut
  | base (o : Out)
  | created
  | has (b : Bool)
  /-- `Next` returned the entry of the visited node (key / value iterators return a projection of it) -/
  | entry (kind : IterKind) (e : Entry)
  | removed
  /-- the panic of the code -/
  | err (e : IterErr)
  /-- the slot holds no iterator (not a Go outcome: the harness never does this) -/
  | noIter
deriving DecidableEq

structure MState where
  m : Map
  iters : List (Nat × Iter)

def MState.empty : MState := { m := Map.empty, iters := [] }

def setIt (its : List (Nat × Iter)) (s : Nat) (it : Iter) : List (Nat × Iter) :=
  (s, it) :: its.filter (fun p => p.1 != s)

def getIt (its : List (Nat × Iter)) (s : Nat) : Option Iter := (its.find? (fun p => p.1 == s)).map (·.2)

def mstep (P : Params) (st : MState) : MOp → MState × MOut
  | .base op => let (m', o) := step P st.m op; ({ st with m := m' }, .base o)
  | .create s kind => ({ st with iters := setIt st.iters s (iterNew st.m kind) }, .created)
  | .hasNext s =>
    match getIt st.iters s with
    | some it => (st, .has (iterHasNext it))
    | none => (st, .noIter)
  | .next s =>
    match getIt st.iters s with
    | none => (st, .noIter)
    | some it =>
      match iterNext st.m it with
      | .ok (it', e) => ({ st with iters := setIt st.iters s it' }, .entry it.kind e)
      | .error err => (st, .err err)
  | .iremove s =>
    match getIt st.iters s with
    | none => (st, .noIter)
    | some it =>
      match iterRemove P st.m it with
      | .ok (m', it') => ({ m := m', iters := setIt st.iters s it' }, .removed)
      | .error err => (st, .err err)

def mrun (P : Params) : MState → List MOp → MState × List MOut
  | st, [] => (st, [])
  | st, op :: ops => let (st', o) := mstep P st op; let (st'', os) := mrun P st' ops; (st'', o :: os)

/-- the change of the map that `op` makes when executed in `st`: the op itself for a map operation,
`Remove(lastReturned.key)` for an iterator `Remove` that succeeds, nothing otherwise -/
def effect (P : Params) (st : MState) : MOp → Option Op
  | .base op => some op
  | .iremove s =>
    match getIt st.iters s with
    | none => none
    | some it =>
      match iterRemove P st.m it with
      | .ok _ => it.last.map Op.remove
      | .error _ => none
  | _ => none

/-- the successful changes of a history, in order -/
def changes (P : Params) : MState → List MOp → List Op
  | _, [] => []
  | st, op :: ops => (effect P st op).toList ++ changes P (mstep P st op).1 ops

/-- does `op`, executed in `st`, change the key set of the map? -/
def changesStructure (P : Params) (st : MState) (op : MOp) : Bool :=
  match effect P st op with
  | some o => structural (toList st.m.root) o
  | none => false

/-- is `op`, executed in `st`, a structural change made by somebody other than the iterator of slot `s`
(a map operation, or the `Remove` of another slot)? -/
def foreignTo (P : Params) (s : Nat) (st : MState) : MOp → Bool
  | .iremove t => t != s && changesStructure P st (.iremove t)
  | op => changesStructure P st op

def foreignRun (P : Params) (s : Nat) : MState → List MOp → Bool
  | _, [] => false
  | st, op :: ops => foreignTo P s st op || foreignRun P s (mstep P st op).1 ops

/-- does the op put a new iterator into slot `s`? -/
def recreates (s : Nat) : MOp → Bool
  | .create t _ => t == s
  | _ => false

end Fatchoy.C10
