/-
Model of the wire codecs of /repo/codec (C01, C02): `marshalPacketBody` / `unmarshalPacketBody`
(marshal.go), `V1Header`/`V2Header` Pack + accessors + checksum (v1_header.go, v2_header.go),
`WritePacket`, `ReadHeadBody`, `UnmarshalPacket`, `ReadPacket` of both formats (v1_codec.go,
v2_codec.go) and `ReadLenData` (codec.go).  Core-only.

Structural: the order of the checks, the two `Write` calls, the `io.ReadFull` calls and their
sizes, the subtraction `length - HeaderSize` in the width of the code's integer type, the header
built by writing every field of the *regenerated* layout table at its offset into a zeroed buffer,
the accessors reading the regenerated accessor table, every slice index that can go out of range
(`panicIndex`) and `BodyToBytes` on a body it cannot convert (`panicBody`).

Abstract (fields of `Env`, never axioms): zlib (`compress`/`decompress`), the cipher pair
(`enc`/`dec`, `none` = nil cryptor), `binary.PutVarint`/`binary.Varint` for integer bodies (C07 owns
them; a concrete implementation for the driver is at the end of this file).
`io.Reader` is a list of chunks: one `Read` returns bytes of the first chunk only.
-/
import Fatchoy.Model.Crc32
namespace Fatchoy.Codec
open Fatchoy.Crc32

abbrev Bytes := List UInt8

/-- header field table: (field, offset, width in bytes) -/
abbrev Layout := List (String × Nat × Nat)

/-- one wire format -/
structure Fmt where
  v2 : Bool                -- server-to-server format: type, node and reference list are decoded
  headerSize : Nat         -- V?HeaderSize
  max : Nat                -- V?MaxPayloadBytes
  writeMax : Nat           -- `WritePacket` refuses nbytes > writeMax
  defThreshold : Nat       -- threshold installed by New?Encoder when the argument is <= 0
  pack : Layout            -- writes of `Pack`, in statement order
  setCrc : Nat × Nat       -- (offset, width) written by `SetChecksum`
  get : Layout             -- the accessors (incl. `Checksum`)
  crcCover : Nat           -- `CalcChecksum` hashes `h[:crcCover]` then references and body
  crcParts : String        -- order of the hashed parts as written in `CalcChecksum`
  crcCtor : String         -- the hash constructor named in `CalcChecksum`
  lenBits : Nat            -- width of the integer type of `head.Len()` (the subtraction wraps in it)
  readLo : Nat             -- `ReadHeadBody` refuses length < readLo (0: no lower guard)
  readHi : Nat             -- `ReadHeadBody` refuses length > readHi
  readSub : Nat            -- `make([]byte, length - readSub)`
  bodyStepOnFlags : Bool   -- `UnmarshalPacket` runs the body step for an empty body when a codec bit is set
deriving Repr, DecidableEq

structure Params where
  v1 : Fmt
  v2 : Fmt
  maxRefs : Nat            -- reference-count limit of V2 WritePacket (math.MaxUint8)
  flagCompressed : Nat
  flagEncrypted : Nat
  flagError : Nat
  ldHeader : Nat           -- ReadLenData: size of the length prefix
  ldLenBits : Nat
  ldReadLo : Nat           -- ReadLenData refuses length < ldReadLo (0: no guard)
  ldReadSub : Nat          -- `make([]byte, length - ldReadSub)`
  ldWriteAdd : Nat         -- WriteLenData: length = len(data) + ldWriteAdd
  ldWriteHi : Nat          -- WriteLenData refuses length > ldWriteHi
  ldWriteHeader : Nat      -- WriteLenData: size of the length prefix it writes
  ldRetAdd : Nat           -- WriteLenData returns len(data) + ldRetAdd
  nilBodyEncodes : Bool    -- BodyToBytes has a `case nil` (D8, owned by C07); otherwise it panics
deriving Repr, DecidableEq

inductive Err
  | eof | short | overflow | crc | refcount | needDecrypt | decompress | compress
  | panicBody     -- BodyToBytes cannot convert the body
  | panicIndex    -- a slice index out of range (accessor / Pack / reference list)
deriving DecidableEq, Repr

def Err.isPanic : Err → Bool
  | .panicBody => true
  | .panicIndex => true
  | _ => false

inductive Body
  | absent                -- nil interface
  | bytes (b : Bytes)     -- []byte (string bodies travel the same way)
  | int (v : Int)         -- int64
deriving DecidableEq, Repr

structure Pkt where
  cmd : BitVec 32
  seq : BitVec 16
  typ : BitVec 8
  flag : BitVec 8
  node : BitVec 32
  refs : List (BitVec 32)
  body : Body
deriving DecidableEq, Repr

/-- `packet.Make()` -/
def Pkt.fresh : Pkt := { cmd := 0, seq := 0, typ := 0, flag := 0, node := 0, refs := [], body := .absent }

structure Env where
  threshold : Nat                      -- the codec's threshold field
  compress : Bytes → Option Bytes      -- fsutil.CompressBytes (none = error)
  decompress : Bytes → Option Bytes    -- fsutil.UncompressBytes (none = error)
  enc : Option (Bytes → Bytes)         -- encryptor.Encrypt, none = nil interface
  dec : Option (Bytes → Bytes)         -- decryptor.Decrypt
  putVarint : Int → Bytes              -- binary.PutVarint
  varint : Bytes → Int                 -- first result of binary.Varint

/-- `New?Encoder(threshold)` -/
def thresholdOf (F : Fmt) (arg : Int) : Nat := if arg ≤ 0 then F.defThreshold else arg.toNat

/-! ### big-endian integers, buffers -/

/-- `w` bytes, most significant first, of `v mod 256^w` -/
def bePut : Nat → Nat → Bytes
  | 0, _ => []
  | w + 1, v => UInt8.ofNat (v / 256 ^ w % 256) :: bePut w v

def beGet (bs : Bytes) : Nat := bs.foldl (fun a b => a * 256 + b.toNat) 0

def zeros (n : Nat) : Bytes := List.replicate n 0

/-- `copy(buf[off:], bs)` as the encoding/binary `Put*` functions do it: out of range panics -/
def putAt (buf : Bytes) (off : Nat) (bs : Bytes) : Option Bytes :=
  if off + bs.length ≤ buf.length then some (buf.take off ++ bs ++ buf.drop (off + bs.length)) else none

/-- all writes of a layout table into a buffer -/
def packFields (val : String → Nat) : Layout → Bytes → Option Bytes
  | [], buf => some buf
  | (name, off, w) :: tbl, buf =>
    match putAt buf off (bePut w (val name)) with
    | some buf' => packFields val tbl buf'
    | none => none

/-- an accessor: `none` = the field is unknown or the slice expression panics -/
def field? (tbl : Layout) (name : String) (hdr : Bytes) : Option Nat :=
  match tbl.find? (fun e => e.1 == name) with
  | some (_, off, w) => if off + w ≤ hdr.length then some (beGet ((hdr.drop off).take w)) else none
  | none => none

/-! ### body marshalling (marshal.go) -/

/-- `pkt.BodyToBytes()` restricted to the body kinds the codec itself produces -/
def bodyToBytes (P : Params) (e : Env) : Body → Option Bytes
  | .absent => if P.nilBodyEncodes then some [] else none
  | .bytes b => some b
  | .int v => some (e.putVarint v)

def bit8 (n : Nat) : BitVec 8 := BitVec.ofNat 8 n

/-- `marshalPacketBody`: the wire body and the packet with its flag updated -/
def marshalBody (P : Params) (e : Env) (p : Pkt) : Except Err (Bytes × Pkt) :=
  match bodyToBytes P e p.body with
  | none => .error .panicBody
  | some body =>
    let r1 : Except Err (Bytes × BitVec 8) :=
      if e.threshold > 0 ∧ body.length > e.threshold then
        match e.compress body with
        | none => .error .compress
        | some z => .ok (z, p.flag ||| bit8 P.flagCompressed)
      else .ok (body, p.flag)
    match r1 with
    | .error er => .error er
    | .ok (body1, flag1) =>
      match e.enc with
      | some f =>
        if body1.length > 0 then .ok (f body1, { p with flag := flag1 ||| bit8 P.flagEncrypted })
        else .ok (body1, { p with flag := flag1 })
      | none => .ok (body1, { p with flag := flag1 })

/-- last step of `unmarshalPacketBody`: store the flag; with the error bit the body is a varint -/
def finishBody (P : Params) (e : Env) (p : Pkt) (flag : BitVec 8) (body : Bytes) : Pkt :=
  if flag &&& bit8 P.flagError ≠ 0 then { p with flag := flag, body := .int (e.varint body) }
  else { p with flag := flag, body := .bytes body }

/-- middle step: inflate when the compression bit is set, and clear it -/
def decompressStep (P : Params) (e : Env) (p : Pkt) (flag : BitVec 8) (body : Bytes) : Except Err Pkt :=
  if flag &&& bit8 P.flagCompressed ≠ 0 then
    match e.decompress body with
    | none => .error .decompress
    | some u => .ok (finishBody P e p (flag &&& ~~~ bit8 P.flagCompressed) u)
  else .ok (finishBody P e p flag body)

/-- `unmarshalPacketBody` (called with a non-empty wire body): decrypt when the encryption bit is
    set (an error without a decryptor) and clear it, then `decompressStep` -/
def unmarshalBody (P : Params) (e : Env) (body : Bytes) (p : Pkt) : Except Err Pkt :=
  if p.flag &&& bit8 P.flagEncrypted ≠ 0 then
    match e.dec with
    | none => .error .needDecrypt
    | some f => decompressStep P e p (p.flag &&& ~~~ bit8 P.flagEncrypted) (f body)
  else decompressStep P e p p.flag body

/-! ### encoder -/

structure WrOut where
  writes : List Bytes          -- the `w.Write` calls, in order
  ret : Except Err Nat         -- (n, nil) or (0, err) / panic
  pkt : Pkt                    -- the caller's packet afterwards

def refBytes (refs : List (BitVec 32)) : Bytes := (refs.map (fun r => bePut 4 r.toNat)).flatten

/-- value of a header field named in the Pack table -/
def packVal (p : Pkt) (nref nbytes : Nat) (name : String) : Nat :=
  if name == "len" then nbytes
  else if name == "typ" then p.typ.toNat
  else if name == "flag" then p.flag.toNat
  else if name == "nref" then nref
  else if name == "seq" then p.seq.toNat
  else if name == "node" then p.node.toNat
  else if name == "cmd" then p.cmd.toNat
  else 0

/-- header bytes: Pack into a zeroed buffer, checksum over `h[:crcCover]`, references and body, SetChecksum -/
def buildHeader (F : Fmt) (p : Pkt) (nref nbytes : Nat) (refsB body : Bytes) : Option Bytes :=
  match packFields (packVal p nref nbytes) F.pack (zeros F.headerSize) with
  | none => none
  | some h0 =>
    let crc := crc32T (h0.take F.crcCover ++ refsB ++ body)
    putAt h0 F.setCrc.1 (bePut F.setCrc.2 crc.toNat)

/-- `WritePacket` of either format (`F.v2` selects the reference handling) -/
def writePacket (P : Params) (F : Fmt) (e : Env) (p : Pkt) : WrOut :=
  if F.v2 = true ∧ p.refs.length > P.maxRefs then ⟨[], .error .refcount, p⟩ else
  match marshalBody P e p with
  | .error er => ⟨[], .error er, p⟩
  | .ok (body, p') =>
    let refs := if F.v2 then p'.refs else []
    let nbytes := F.headerSize + refs.length * 4 + body.length
    if nbytes > F.writeMax then ⟨[], .error .overflow, p'⟩ else
    let refsB := refBytes refs
    match buildHeader F p' refs.length nbytes refsB body with
    | none => ⟨[], .error .panicIndex, p'⟩
    | some hdr => ⟨[hdr ++ refsB, body], .ok nbytes, p'⟩

/-- everything handed to the writer -/
def WrOut.bytes (o : WrOut) : Bytes := o.writes.flatten

/-! ### reader -/

abbrev Chunks := List Bytes

def flat (cs : Chunks) : Bytes := cs.flatten

/-- the `Read` calls of one `io.ReadFull`: whole chunks while they fit, then a part of one.
    Returns the pieces obtained (latest first) and the reader afterwards. -/
def pull : Nat → Chunks → List Bytes → List Bytes × Chunks
  | _, [], acc => (acc, [])
  | n, c :: cs, acc =>
    if n = 0 then (acc, c :: cs)
    else if c.length ≤ n then pull (n - c.length) cs (c :: acc)
    else (c.take n :: acc, c.drop n :: cs)

/-- `io.ReadFull(r, buf)` with `len(buf) = n` -/
def readFull (n : Nat) (cs : Chunks) : Except Err Bytes × Chunks :=
  if n = 0 then (.ok [], cs) else
  let (acc, rest) := pull n cs []
  let got := acc.reverse.flatten
  if got.length = n then (.ok got, rest)
  else if got.length = 0 then (.error .eof, rest)
  else (.error .short, rest)

structure HB where
  res : Except Err (Bytes × Bytes)   -- header, payload
  rest : Chunks
  alloc : List Nat                    -- ghost: sizes passed to `make`
  awaited : List Nat                  -- ghost: sizes passed to `io.ReadFull`

/-- `length - HeaderSize` in an unsigned type of `bits` bits -/
def subWrap (bits len hs : Nat) : Nat := (len + 2 ^ bits - hs % 2 ^ bits) % 2 ^ bits

/-- `ReadHeadBody` -/
def readHeadBody (F : Fmt) (cs : Chunks) : HB :=
  match readFull F.headerSize cs with
  | (.error er, r) => ⟨.error er, r, [], [F.headerSize]⟩
  | (.ok hdr, r) =>
    match field? F.get "len" hdr with
    | none => ⟨.error .panicIndex, r, [], [F.headerSize]⟩
    | some len =>
      if len < F.readLo ∨ len > F.readHi then ⟨.error .overflow, r, [], [F.headerSize]⟩ else
      let n := subWrap F.lenBits len F.readSub
      match readFull n r with
      | (.error er, r') => ⟨.error er, r', [n], [F.headerSize, n]⟩
      | (.ok pl, r') => ⟨.ok (hdr, pl), r', [n], [F.headerSize, n]⟩

/-- the reference list: `n` big-endian words; `none` = `body[pos:]` shorter than a word (panic) -/
def readRefs : Nat → Bytes → Option (List (BitVec 32))
  | 0, _ => some []
  | n + 1, bs =>
    if (bs.take 4).length < 4 then none else   -- fewer than four bytes left (without walking the whole list)
    match readRefs n (bs.drop 4) with
    | some rs => some (BitVec.ofNat 32 (beGet (bs.take 4)) :: rs)
    | none => none

/-- the part of `UnmarshalPacket` after the checksum comparison: reference list, then the body.
    `onFlags`: the body step also runs for an empty body whose flag announces compression or encryption. -/
def unmarshalPayload (P : Params) (e : Env) (onFlags : Bool) (p0 : Pkt) (nref : Nat) (payload : Bytes) : Except Err Pkt :=
  if nref > 0 ∧ payload.length < nref * 4 then .error .refcount else
  match readRefs nref payload with
  | none => .error .panicIndex
  | some refs =>
    let body := payload.drop (nref * 4)
    let p1 := { p0 with refs := refs }
    if body.length > 0 ∨ (onFlags = true ∧ p1.flag &&& (bit8 P.flagCompressed ||| bit8 P.flagEncrypted) ≠ 0)
    then unmarshalBody P e body p1 else .ok p1

/-- `UnmarshalPacket` into a fresh packet -/
def unmarshal (P : Params) (F : Fmt) (e : Env) (hdr payload : Bytes) : Except Err Pkt :=
  let g := field? F.get
  match g "flag" hdr, g "seq" hdr, g "cmd" hdr, g "crc" hdr with
  | some flag, some seq, some cmd, some crc =>
    let hv2 : Option (Nat × Nat × Nat) :=
      if F.v2 then
        match g "typ" hdr, g "node" hdr, g "nref" hdr with
        | some t, some nd, some nr => some (t, nd, nr)
        | _, _, _ => none
      else some (0, 0, 0)
    match hv2 with
    | none => .error .panicIndex
    | some (typ, node, nref) =>
      let p0 : Pkt := { cmd := BitVec.ofNat 32 cmd, seq := BitVec.ofNat 16 seq, typ := BitVec.ofNat 8 typ,
                        flag := BitVec.ofNat 8 flag, node := BitVec.ofNat 32 node, refs := [], body := .absent }
      if (crc32T (hdr.take F.crcCover ++ payload)).toNat ≠ crc then .error .crc
      else unmarshalPayload P e F.bodyStepOnFlags p0 nref payload
  | _, _, _, _ => .error .panicIndex

structure RdOut where
  res : Except Err Pkt
  rest : Chunks
  alloc : List Nat
  awaited : List Nat

/-- `ReadPacket` (= `ReadHeadBody` then `UnmarshalPacket`, as `TcpConn.readPacket` does it) -/
def readPacket (P : Params) (F : Fmt) (e : Env) (cs : Chunks) : RdOut :=
  let hb := readHeadBody F cs
  match hb.res with
  | .error er => ⟨.error er, hb.rest, hb.alloc, hb.awaited⟩
  | .ok (hdr, pl) => ⟨unmarshal P F e hdr pl, hb.rest, hb.alloc, hb.awaited⟩

structure LdOut where
  res : Except Err Bytes
  rest : Chunks
  alloc : List Nat
  awaited : List Nat

/-- `ReadLenData` -/
def readLenData (P : Params) (cs : Chunks) : LdOut :=
  match readFull P.ldHeader cs with
  | (.error er, r) => ⟨.error er, r, [], [P.ldHeader]⟩
  | (.ok hdr, r) =>
    let len := beGet hdr
    if len < P.ldReadLo then ⟨.error .overflow, r, [], [P.ldHeader]⟩ else
    let n := subWrap P.ldLenBits len P.ldReadSub
    match readFull n r with
    | (.error er, r') => ⟨.error er, r', [n], [P.ldHeader, n]⟩
    | (.ok d, r') => ⟨.ok d, r', [n], [P.ldHeader, n]⟩

structure LdWr where
  writes : List Bytes          -- the `w.Write` calls, in order
  ret : Except Err Nat

def LdWr.bytes (o : LdWr) : Bytes := o.writes.flatten

/-- `WriteLenData`: the length prefix counts itself; the value returned on success is
    `len(data) + ldRetAdd` (in the source: `n + 4` after writing `n + 2` bytes) -/
def writeLenData (P : Params) (data : Bytes) : LdWr :=
  let length := data.length + P.ldWriteAdd
  if length > P.ldWriteHi then ⟨[], .error .overflow⟩
  else ⟨[bePut P.ldWriteHeader length, data], .ok (data.length + P.ldRetAdd)⟩

/-! ### concrete varints for the driver (`encoding/binary`); the theorems take them as parameters -/

def putUvarint (fuel : Nat) (u : Nat) : Bytes :=
  match fuel with
  | 0 => []
  | fuel + 1 => if u < 128 then [UInt8.ofNat u] else UInt8.ofNat (u % 128 + 128) :: putUvarint fuel (u / 128)

/-- `binary.PutVarint` of an int64 (zig-zag) -/
def putVarint64 (v : Int) : Bytes :=
  let u : Nat := if v < 0 then (-(2 * v) - 1).toNat else (2 * v).toNat
  putUvarint 10 (u % 2 ^ 64)

/-- `binary.Uvarint`: value only (0 on overflow or a missing terminator) -/
def uvarintAux : Nat → Nat → Nat → Bytes → Nat
  | _, _, _, [] => 0
  | i, x, s, b :: bs =>
    if i = 10 then 0
    else if b.toNat < 128 then
      if i = 9 ∧ b.toNat > 1 then 0 else (x ||| (b.toNat <<< s)) % 2 ^ 64
    else uvarintAux (i + 1) (x ||| ((b.toNat % 128) <<< s)) (s + 7) bs

/-- first result of `binary.Varint` -/
def varint64 (bs : Bytes) : Int :=
  let u := uvarintAux 0 0 0 bs
  if u % 2 = 1 then -((u / 2 : Nat) : Int) - 1 else ((u / 2 : Nat) : Int)

/-! ### the toy cipher of the correspondence run (the Go harness has the same one: `hxcodec.Toy`);
`Props/C01.lean` proves it lawful for every key -/

/-- byte `i` is shifted by `key[i mod |key|] + i` (mod 256); decryption shifts back -/
def toyStep (key : Array UInt8) (encrypt : Bool) (i : Nat) (b : UInt8) : UInt8 :=
  let k := key[i % key.size]! + UInt8.ofNat (i % 256)
  if encrypt then b + k else b - k

def toyGo (key : Array UInt8) (encrypt : Bool) : Nat → Bytes → Bytes → Bytes
  | _, [], acc => acc.reverse
  | i, b :: bs, acc => toyGo key encrypt (i + 1) bs (toyStep key encrypt i b :: acc)

def toy (key : Bytes) (encrypt : Bool) (bs : Bytes) : Bytes := toyGo key.toArray encrypt 0 bs []

end Fatchoy.Codec
