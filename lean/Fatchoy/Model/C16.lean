/-
Model of /repo/x/cipher/block.go (C16): the hand-unrolled CFB cores `encrypt8/16`, `decrypt8/16`,
their dispatchers `encrypt`/`decrypt`, plus the two stream-like cryptors (salsa20.go, non.go).
Core-only.

The four unrolled functions are NOT re-typed here.  `harness/cmd/extract/c16.go` re-reads block.go on
every run and turns each function body into a small straight-line program (`Prog`): the statements
of the loop body and of every `case` of the tail switch, in program order, with their offsets,
widths and operands (Gen/C16.lean; the encoding is `decStmt` below).  This file is the interpreter
of such programs.  It works IN PLACE on one packet buffer, because every caller passes `dst = src`
(fact `callersInPlace`): a statement that overwrites a ciphertext block before `E(block)` has been
taken, a dropped / duplicated / swapped unrolled line, a wrong offset or a wrong register all change
what the interpreter computes.

Outcomes: `none` = the Go code panics (short IV, short scratch buffer, slice out of range) — or, for
programs that are not the ones in the repository, reads memory it does not own.

State representation: the bytes below `base` are kept (reversed) in `done`, the bytes from `base` on
in `rest`; the packet buffer is `done.reverse ++ rest` and `base = done.length`.  Every statement of
block.go addresses the buffer as `base + constant`, and `base` only grows, so this is the same
machine as one flat array at O(stride) instead of O(length) cost per statement.  That is a theorem,
not a convention: Model/C16Flat.lean is the machine written on one flat buffer with an integer
`base`, and `C16_flat_buffer` (Props/C16.lean) proves that the two return the same packet, the same
scratch buffer and the same panics for every program.  Abstraction (both machines): `base += k`
beyond the end of the packet is reported as a panic at that statement (Go panics at the next access
through `base`; every statement sequence of block.go ends with such an access).
-/
import Fatchoy.Gen.C16
namespace Fatchoy.C16

abbrev Bytes := List UInt8

/-- `xorBytes` of block.go (and the fixed-width word xors): byte-wise xor over the shorter length -/
def xorBytes (a b : Bytes) : Bytes := List.zipWith (· ^^^ ·) a b

/-- the `n` bytes at offset `o` (fewer if the buffer ends before) -/
def rd (b : Bytes) (o n : Nat) : Bytes := (b.drop o).take n
/-- overwrite `v.length` bytes at offset `o` (callers check that they fit) -/
def wr (b : Bytes) (o : Nat) (v : Bytes) : Bytes := b.take o ++ (v ++ b.drop (o + v.length))

/-- `k ≤ l.length`, in `k` steps (the packet may be long; `hasLen_iff` in Lemmas/C16.lean) -/
def hasLen : Bytes → Nat → Bool
  | _, 0 => true
  | [], _ + 1 => false
  | _ :: t, k + 1 => hasLen t k

/-! ### the statement language the extractor produces -/

/-- an operand holding a keystream block.  `var false`/`var true`: the slice variables `tbl`/`next`
  (exchanged by `tbl, next = next, tbl`); `ptr false`/`ptr true`: a pointer bound to `&tbl[0]` /
  `&next[0]` before the loop (`ptr`, `ptrTbl`, `ptrNext`), which does not follow later exchanges. -/
inductive Ref where
  | var (next : Bool)
  | ptr (next : Bool)
deriving DecidableEq, Repr

inductive Stmt where
  /-- `block.Encrypt(r, iv)` -/
  | encIV (r : Ref)
  /-- `block.Encrypt(r, data[base+off : base+off+len])` (`len = none`: open-ended `data[base+off:]`) -/
  | enc (r : Ref) (off : Nat) (len : Option Nat)
  /-- the `w`-byte word at `base+dOff` := the word at `base+sOff` xor the first `w` bytes of `r` -/
  | xor (dOff sOff w : Nat) (r : Ref)
  /-- `tbl, next = next, tbl` -/
  | swap
  /-- `base += k` -/
  | adv (k : Nat)
  /-- `xorBytes(data[base:], data[base:], r)` -/
  | xorRest (r : Ref)
deriving DecidableEq, Repr

/-- one `case label:` of the tail switch; `fall` = it ends in `fallthrough` -/
structure Case where
  label : Nat
  stmts : List Stmt
  fall : Bool
deriving DecidableEq, Repr

/-- one unrolled function of block.go -/
structure Prog where
  /-- `tbl := buf[:tblLen]` -/
  tblLen : Nat
  /-- `next := buf[nextLo:nextHi]` (0, 0 when the function has no `next`) -/
  nextLo : Nat
  nextHi : Nat
  /-- `n := len(src) / div` -/
  div : Nat
  /-- loop condition `i < n/stride` -/
  stride : Nat
  /-- `s := src[base:][0:window]`, `d := dst[base:][0:window]` at the head of the loop body -/
  window : Nat
  /-- effectful statements before the loop -/
  pre : List Stmt
  /-- loop body -/
  body : List Stmt
  /-- `switch n % tag` -/
  tag : Nat
  /-- the case clauses in source order -/
  cases : List Case
deriving DecidableEq, Repr

/-! ### the machine -/

structure St where
  /-- the bytes below `base`, last first -/
  done : Bytes
  /-- the bytes from `base` on -/
  rest : Bytes
  /-- the caller's scratch buffer (`c.encbuf[:]`, `c.decbuf[:]`): `tbl` and `next` are views of it -/
  buf : Bytes
  /-- the slice variables `tbl`/`next` are currently exchanged -/
  sw : Bool
deriving Repr

/-- the packet buffer as one flat array -/
def St.data (st : St) : Bytes := st.done.reverse ++ st.rest
def St.base (st : St) : Nat := st.done.length

/-- offset / length in `buf` of the physical register (`false`: the one `tbl` names initially) -/
def regOff (p : Prog) (b : Bool) : Nat := if b then p.nextLo else 0
def regLen (p : Prog) (b : Bool) : Nat := if b then p.nextHi - p.nextLo else p.tblLen

/-- which physical register an operand denotes now -/
def resolve (sw : Bool) : Ref → Bool
  | .var b => b != sw
  | .ptr b => b

/-- `block.Encrypt(r, src)` for a block function `E` of block size `bs`: panics unless source and
  destination hold a full block; reads the first block of `src`, writes one block -/
def blockEncrypt (p : Prog) (E : Bytes → Bytes) (bs : Nat) (st : St) (r : Ref) (src : Bytes) : Option St :=
  let b := resolve st.sw r
  if !hasLen src bs ∨ regLen p b < bs then none
  else some { st with buf := wr st.buf (regOff p b) (E (src.take bs)) }

def exec (p : Prog) (E : Bytes → Bytes) (bs : Nat) (iv : Bytes) (st : St) : Stmt → Option St
  | .encIV r => blockEncrypt p E bs st r iv
  | .enc r off len =>
    match len with
    | some l => if !hasLen st.rest (off + l) then none else blockEncrypt p E bs st r (rd st.rest off l)
    | none => if !hasLen st.rest off then none else blockEncrypt p E bs st r (st.rest.drop off)
  | .xor dOff sOff w r =>
    let k := rd st.buf (regOff p (resolve st.sw r)) w
    if !hasLen st.rest (sOff + w) ∨ !hasLen st.rest (dOff + w) ∨ k.length < w then none
    else some { st with rest := wr st.rest dOff (xorBytes (rd st.rest sOff w) k) }
  | .swap => some { st with sw := !st.sw }
  | .adv k =>
    if !hasLen st.rest k then none
    else some { st with done := (st.rest.take k).reverse ++ st.done, rest := st.rest.drop k }
  | .xorRest r =>
    let b := resolve st.sw r
    let x := xorBytes st.rest (rd st.buf (regOff p b) (regLen p b))
    some { st with rest := x ++ st.rest.drop x.length }

def execs (p : Prog) (E : Bytes → Bytes) (bs : Nat) (iv : Bytes) : List Stmt → St → Option St
  | [], st => some st
  | s :: ss, st => (exec p E bs iv st s).bind (execs p E bs iv ss)

/-- `for i := 0; i < k; i++ { s := src[base:][0:window]; …body… }` -/
def loopN (p : Prog) (E : Bytes → Bytes) (bs : Nat) (iv : Bytes) : Nat → St → Option St
  | 0, st => some st
  | k + 1, st =>
    if !hasLen st.rest p.window then none
    else (execs p E bs iv p.body st).bind (loopN p E bs iv k)

/-- run the first clause and keep going while clauses end in `fallthrough` -/
def runFrom (p : Prog) (E : Bytes → Bytes) (bs : Nat) (iv : Bytes) : List Case → St → Option St
  | [], st => some st
  | c :: cs, st =>
    (execs p E bs iv c.stmts st).bind (fun st' => if c.fall then runFrom p E bs iv cs st' else some st')

/-- Go's `switch tag { case …: }` without default: the first clause whose label equals the tag -/
def switch (p : Prog) (E : Bytes → Bytes) (bs : Nat) (iv : Bytes) : List Case → Nat → St → Option St
  | [], _, st => some st
  | c :: cs, t, st => if c.label = t then runFrom p E bs iv (c :: cs) st else switch p E bs iv cs t st

/-- one call of an unrolled function on packet `data` with scratch buffer `buf`; the result is the
  packet buffer and the scratch buffer afterwards -/
def run (p : Prog) (E : Bytes → Bytes) (bs : Nat) (iv buf data : Bytes) : Option (Bytes × Bytes) :=
  if buf.length < p.tblLen ∨ buf.length < p.nextHi then none else
  (execs p E bs iv p.pre { done := [], rest := data, buf := buf, sw := false }).bind fun st1 =>
  let n := data.length / p.div
  (loopN p E bs iv (n / p.stride) st1).bind fun st2 =>
  (switch p E bs iv p.cases (n % p.tag) st2).bind fun st3 =>
  some (st3.data, st3.buf)

/-! ### decoding Gen/C16.lean -/

def decRef : Nat → Option Ref
  | 0 => some (.var false)
  | 1 => some (.var true)
  | 2 => some (.ptr false)
  | 3 => some (.ptr true)
  | _ => none

/-- row encoding of a statement (written by harness/cmd/extract/c16.go):
  `[0, r, off, len+1 | 0]` enc · `[1, dOff, sOff, w, r]` xor · `[2]` swap · `[3, k]` adv ·
  `[4, r]` xorRest · `[5, r]` encIV;  `r`: 0 `tbl`, 1 `next`, 2 pointer to `tbl[0]`, 3 pointer to `next[0]` -/
def decStmt : List Nat → Option Stmt
  | [0, r, off, l] => (decRef r).map fun r => .enc r off (if l = 0 then none else some (l - 1))
  | [1, d, s, w, r] => (decRef r).map fun r => .xor d s w r
  | [2] => some .swap
  | [3, k] => some (.adv k)
  | [4, r] => (decRef r).map .xorRest
  | [5, r] => (decRef r).map .encIV
  | _ => none

/-- a case clause is `[label, fall] :: statements` -/
def decCase : List (List Nat) → Option Case
  | [label, fall] :: rows => (rows.mapM decStmt).map fun ss => ⟨label, ss, fall != 0⟩
  | _ => none

/-- header row `[tblLen, nextLo, nextHi, div, stride, window, tag]` -/
def decProg (hdr : List Nat) (pre body : List (List Nat)) (cases : List (List (List Nat))) : Option Prog :=
  match hdr with
  | [tblLen, nextLo, nextHi, dv, stride, window, tag] =>
    (pre.mapM decStmt).bind fun pre => (body.mapM decStmt).bind fun body => (cases.mapM decCase).map fun cases =>
      { tblLen, nextLo, nextHi, div := dv, stride, window, pre, body, tag, cases }
  | _ => none

/-- the dispatch of `encrypt` / `decrypt`: `switch block.BlockSize() { case 8: …8(…); case 16: …16(…) }` -/
def decDispatch (sizes : List Nat) (hdrs : List (List Nat)) (pres bodies : List (List (List Nat)))
    (cases : List (List (List (List Nat)))) : List (Nat × Option Prog) :=
  match sizes, hdrs, pres, bodies, cases with
  | s :: ss, h :: hs, p :: ps, b :: bs, c :: cs => (s, decProg h p b c) :: decDispatch ss hs ps bs cs
  | _, _, _, _, _ => []

/-- one `case "name": return Ctor(key[:keyLen], iv)` of `NewCrypt` (`keyLen = 0`: the whole key);
  the `default:` clause has the name "" -/
structure Factory where
  name : String
  ctor : String
  keyLen : Nat
deriving DecidableEq, Repr

def decFactory : List String → List String → List Nat → List Factory
  | n :: ns, c :: cs, k :: ks => ⟨n, c, k⟩ :: decFactory ns cs ks
  | _, _, _ => []

structure Params where
  /-- block size ↦ unrolled function, in case order; `none` = a statement the model does not know -/
  enc : List (Nat × Option Prog)
  dec : List (Nat × Option Prog)
  /-- block.go `xorBytes` is the min-length byte-wise xor; `xor` is templexxx/xorsimd -/
  xorBytesOK : Bool
  xorsimdOK : Bool
  /-- every cryptor's Encrypt/Decrypt calls the core with `dst = src` and its own scratch array -/
  callersInPlace : Bool
  /-- the scratch arrays are sized by the block size of the package the block comes from -/
  bufPkgOK : Bool
  /-- length of the scratch arrays in blocks, per cryptor type: `encbuf`, `decbuf` -/
  encBufBlocks : List Nat
  decBufBlocks : List Nat
  factory : List Factory
  /-- salsa20.go: `Decrypt` is `return c.Encrypt(data)`, `Encrypt` is one in-place `XORKeyStream` -/
  salsaDecIsEnc : Bool
  salsaInPlace : Bool
  salsaNonceLen : Nat
  salsaKeyLen : Nat
  /-- non.go: both methods are `return src` -/
  noneIdentity : Bool
deriving DecidableEq, Repr

/-- parameters regenerated from the source on every run -/
def params : Params :=
  { enc := decDispatch Gen.C16.encSizes Gen.C16.encHdrs Gen.C16.encPres Gen.C16.encBodies Gen.C16.encCases,
    dec := decDispatch Gen.C16.decSizes Gen.C16.decHdrs Gen.C16.decPres Gen.C16.decBodies Gen.C16.decCases,
    xorBytesOK := Gen.C16.xorBytesIsMinLenXor, xorsimdOK := Gen.C16.xorIsXorsimd,
    callersInPlace := Gen.C16.callersInPlace, bufPkgOK := Gen.C16.bufPkgMatchesBlock,
    encBufBlocks := Gen.C16.encBufBlocks, decBufBlocks := Gen.C16.decBufBlocks,
    factory := decFactory Gen.C16.factoryNames Gen.C16.factoryCtors Gen.C16.factoryKeyLens,
    salsaDecIsEnc := Gen.C16.salsaDecIsEnc, salsaInPlace := Gen.C16.salsaInPlace,
    salsaNonceLen := Gen.C16.salsaNonceLen, salsaKeyLen := Gen.C16.salsaKeyLen,
    noneIdentity := Gen.C16.noneIdentity }

/-- `switch block.BlockSize()`: the first case with that size; no such case ⇒
  `panic("unsupported cipher block size")` -/
def dispatch : List (Nat × Option Prog) → Nat → Option Prog
  | [], _ => none
  | (s, p) :: rest, bs => if s = bs then p else dispatch rest bs

/-- `encrypt(block, iv, data, data, buf)` with `block.BlockSize() = bs`, `block.Encrypt = E` -/
def encrypt (P : Params) (E : Bytes → Bytes) (bs : Nat) (iv buf data : Bytes) : Option (Bytes × Bytes) :=
  match dispatch P.enc bs with
  | some p => run p E bs iv buf data
  | none => none

/-- `decrypt(block, iv, data, data, buf)` -/
def decrypt (P : Params) (E : Bytes → Bytes) (bs : Nat) (iv buf data : Bytes) : Option (Bytes × Bytes) :=
  match dispatch P.dec bs with
  | some p => run p E bs iv buf data
  | none => none

/-! ### a cryptor instance: the scratch buffer survives from one packet to the next -/

/-- `c.Encrypt` / `c.Decrypt` applied to the packets `ms` one after the other by ONE instance whose
  scratch array starts as `buf`; the outputs in order (`none`: some call panicked) -/
def session (f : Bytes → Bytes → Option (Bytes × Bytes)) : Bytes → List Bytes → Option (List Bytes)
  | _, [] => some []
  | buf, m :: ms =>
    match f buf m with
    | none => none
    | some (out, buf') => (session f buf' ms).map (out :: ·)

/-! ### salsa20.go / non.go -/

/-- `salsa20.XORKeyStream(data, data, nonce, key)`: the keystream `ks` is a function of key and nonce only
  (x/crypto is not modelled: `ks` is arbitrary in the theorems and an oracle column in the driver) -/
def streamXor (ks : Nat → UInt8) (m : Bytes) : Bytes :=
  (List.range m.length).zipWith (fun i b => b ^^^ ks i) m

def salsaEncrypt (ks : Nat → UInt8) (m : Bytes) : Bytes := streamXor ks m
/-- `Decrypt` as salsa20.go defines it: `c.Encrypt(data)` when `decIsEnc` -/
def salsaDecrypt (P : Params) (ks : Nat → UInt8) (m : Bytes) : Option Bytes :=
  if P.salsaDecIsEnc then some (salsaEncrypt ks m) else none

def noneCrypt (P : Params) (m : Bytes) : Option Bytes := if P.noneIdentity then some m else none

/-! ### the toy block function of the correspondence run (the same in harness/cmd/hx_c16) -/

def rotl3 (x : UInt8) : UInt8 := (x <<< 3) ||| (x >>> 5)

/-- a keyed, deliberately non-invertible mixing of one block; every output byte depends on every
  key byte position it meets and on three input bytes -/
def toyE (key : Bytes) (x : Bytes) : Bytes :=
  let n := x.length
  let xa := x.toArray
  let ka := key.toArray
  let y := ((List.range n).map fun i => rotl3 (xa.getD i 0 + ka.getD (i % ka.size) 0) ^^^ xa.getD ((i + 1) % n) 0).toArray
  (List.range n).map fun i => y.getD i 0 + y.getD ((i + n - 1) % n) 0 * 5 + UInt8.ofNat (i * 17 + n)

end Fatchoy.C16
