/-
Model of /repo/nodeid.go (C20): MakeNodeID, Service, Instance, IsTypeBackend, String, MustParseNodeID.
Core-only. Node ids are 32-bit values represented as `Nat` < 2^32; every operation reduces mod 2^32 or
mod its result type exactly where the Go code converts.
-/
import Fatchoy.Gen.C20
namespace Fatchoy.C20

structure Params where
  serviceShift : Nat
  typeShift : Nat
  fmt : String
  arg0Signed : Bool
  arg0Bits : Nat
  arg1Signed : Bool
  arg1Bits : Nat
  parseBase : Nat
  parseBits : Nat
deriving Repr, DecidableEq

/-- parameters regenerated from the source on every run -/
def params : Params :=
  { serviceShift := Gen.C20.nodeServiceShift, typeShift := Gen.C20.nodeTypeShift,
    fmt := Gen.C20.stringFormat,
    arg0Signed := Gen.C20.stringArg0Signed, arg0Bits := Gen.C20.stringArg0Bits,
    arg1Signed := Gen.C20.stringArg1Signed, arg1Bits := Gen.C20.stringArg1Bits,
    parseBase := Gen.C20.parseBase, parseBits := Gen.C20.parseBits }

/-- `NodeID((uint32(service) << shift) | uint32(instance))` -/
def make (P : Params) (service ins : Nat) : Nat :=
  ((service % 256) <<< P.serviceShift ||| (ins % 65536)) % 2^32

/-- `uint8(n >> shift)` -/
def service (P : Params) (n : Nat) : Nat := (n >>> P.serviceShift) % 256
/-- `uint16(n)` -/
def inst (n : Nat) : Nat := n % 65536
/-- `(uint32(n) & (1<<typeShift)) == 0` -/
def isBackend (P : Params) (n : Nat) : Bool := (n &&& (1 <<< P.typeShift)) == 0

def hexDigit (d : Nat) : Char :=
  if d < 10 then Char.ofNat (48 + d) else Char.ofNat (87 + d)

/-- `strconv.FormatUint(v, 16)`: minimal big-endian lower-case digits -/
def hexMin (v : Nat) : List Char :=
  if _h : v < 16 then [hexDigit v] else hexMin (v / 16) ++ [hexDigit (v % 16)]
decreasing_by omega

/-- fmt's `%0<w>x` applied to an integer of `bits` bits whose unsigned bit pattern is `raw`:
  zero padding counts the sign. -/
def fmtHex (w : Nat) (signed : Bool) (bits raw : Nat) : List Char :=
  if signed && decide (2^(bits-1) ≤ raw) then
    let ds := hexMin (2^bits - raw)
    '-' :: (List.replicate (w - 1 - ds.length) '0' ++ ds)
  else
    let ds := hexMin raw
    List.replicate (w - ds.length) '0' ++ ds

/-- the only formats the model understands: a sequence of `%0<d>x` verbs (d one decimal digit). -/
def parseFmt : List Char → Option (List Nat)
  | [] => some []
  | '%' :: '0' :: d :: 'x' :: rest =>
    if d.isDigit then (parseFmt rest).map (fun ws => (d.toNat - 48) :: ws) else none
  | _ => none

/-- `fmt.Sprintf(P.fmt, <arg0>(n.Service()), n.Instance())`; `none` = a format the model does not know -/
def toStringL (P : Params) (n : Nat) : Option (List Char) :=
  match parseFmt P.fmt.toList with
  | some [w0, w1] =>
    some (fmtHex w0 P.arg0Signed P.arg0Bits (service P n % 2^P.arg0Bits)
       ++ fmtHex w1 P.arg1Signed P.arg1Bits (inst n % 2^P.arg1Bits))
  | _ => none

def digitVal (c : Char) : Option Nat :=
  if '0' ≤ c ∧ c ≤ '9' then some (c.toNat - 48)
  else if 'a' ≤ c ∧ c ≤ 'f' then some (c.toNat - 87)
  else if 'A' ≤ c ∧ c ≤ 'F' then some (c.toNat - 55)
  else none

def parseAux : Nat → List Char → Option Nat
  | acc, [] => some acc
  | acc, c :: cs => match digitVal c with
    | some d => parseAux (acc * 16 + d) cs
    | none => none

/-- `strconv.ParseUint(s, 16, 32)`: `none` = error (MustParseNodeID panics) -/
def parse (P : Params) (s : List Char) : Option Nat :=
  if P.parseBase ≠ 16 then none else
  match s with
  | [] => none
  | _ => match parseAux 0 s with
    | some v => if v < 2^P.parseBits then some v else none
    | none => none

end Fatchoy.C20
