/-
Model of the two timer schedulers of /repo/sched (hhwheel_timer.go, timerqueue.go, timer.go) as the
code stands after the D5/D6 repairs: the client half (RunAfter / RunEvery / Cancel / Size /
IsScheduled, each one atomic step: it holds `guard` for its whole body), the two request queues and
the worker half (one step per `select` case: handle one start request, handle one cancel request,
tick).  Core-only.

Abstractions (see conf/C05.json, conf/C06.json): a node is identified by its id (ids are `Nat`, the
int wrap at 2^63 does not exist); the `cancelled` field of the nodes is the set `cancelled` of ids;
`C` is drained by a consumer (a delivery is an entry of `log`, the send never blocks);
`container/heap` is a list sorted by `Less`.
-/
import Fatchoy.Model.C05Wheel
namespace Fatchoy.C05

/-- a start request travelling on `pendingAdd`.  Wheel: `dl` is the deadline field as the client left
it (the delay for RunAfter, 0 for RunEvery; the worker adds tickTime + period).  Heap: `dl` is the
absolute deadline the client computed. -/
structure Req where
  id : Nat
  dl : Nat
  period : Nat
deriving DecidableEq, Repr

/-- the guard-protected table, the id counter, the two request channels, the cancelled marks and
the deliveries so far (time of the delivering step, id), NEWEST FIRST -/
structure Front where
  refer : List Nat
  nextId : Nat
  addQ : List Req
  delQ : List Nat
  cancelled : List Nat
  log : List (Nat × Nat)
  /-- ghost: the due time (deadline at the moment of delivery) of each entry of `log`, position by
  position; only `deliver` writes either list -/
  dues : List Nat
deriving Repr

def Front.init : Front := { refer := [], nextId := 0, addQ := [], delQ := [], cancelled := [], log := [], dues := [] }

/-- the loop of `nextID`: skip ids that are still in the table (at most 10^4 times) -/
def skipUsed (refer : List Nat) : Nat → Nat → Nat
  | 0, id => id
  | fuel + 1, id => if id ∈ refer then skipUsed refer fuel (id + 1) else id

def nextID (f : Front) : Nat := skipUsed f.refer 10000 (f.nextId + 1)

inductive Out
  | id (n : Nat)
  | bool (b : Bool)
  /-- a worker step that found its channel empty -/
  | idle
  | done
deriving DecidableEq, Repr

/-- outcome of one atomic step -/
inductive Res (σ : Type)
  | ok (s : σ) (out : Out)
  /-- the step cannot complete: a client blocked on a full request channel -/
  | blocked
  /-- the code panics here (or, for the heap's `trigger`, spins forever) -/
  | panic

/-- the atomic steps.  Client: after / every / cancel.  Worker: add / del / tick.
`clock n` lets n time units pass for the heap's clients (the wheel's clients never read a clock). -/
inductive Act
  | after (d : Nat)
  | every (p : Nat)
  | cancel (id : Nat)
  | add
  | del
  | tick
  | clock (n : Nat)
deriving DecidableEq, Repr

namespace Front

/-- `schedule` / RunAfter / RunEvery: new id, request sent, table entry -/
def start (f : Front) (id dl period : Nat) : Front :=
  { f with refer := f.refer ++ [id], nextId := id, addQ := f.addQ ++ [⟨id, dl, period⟩] }

/-- the true branch of `Cancel` -/
def cancel (f : Front) (id : Nat) : Front :=
  { f with cancelled := f.cancelled ++ [id], delQ := f.delQ ++ [id], refer := f.refer.filter (· ≠ id) }

def deliver (f : Front) (t id due : Nat) : Front := { f with log := (t, id) :: f.log, dues := due :: f.dues }

def drop (f : Front) (id : Nat) : Front := { f with refer := f.refer.filter (· ≠ id) }

end Front

/-! ## hashed hierarchical wheel -/

structure WS where
  w : Wheel
  f : Front
deriving Repr

namespace WS

def init (off time : Nat) : WS := { w := { off := off, time := time, nodes := [] }, f := Front.init }

/-- body of the loop of `expireNear` for one node of the detached bucket: decide under the guard
(cancelled: drop without delivery; one-shot: leave the table), then send, then re-arm -/
def expireOne (G : Geom) (s : WS) (n : WNode) : WS :=
  if n.id ∈ s.f.cancelled then s
  else if n.period > 0 then
    { w := { s.w with nodes := s.w.nodes ++ [s.w.link G { n with deadline := s.w.time + n.period }] },
      f := s.f.deliver s.w.time n.id n.deadline }
  else { w := s.w, f := (s.f.deliver s.w.time n.id n.deadline).drop n.id }

def expireList (G : Geom) : WS → List WNode → WS
  | s, [] => s
  | s, n :: ns => expireList G (expireOne G s n) ns

/-- `expireNear` -/
def expire (G : Geom) (s : WS) : WS :=
  let c := s.w.cur G % G.nearSize
  expireList G { s with w := { s.w with nodes := s.w.nodes.filter (fun n => !Wheel.inBucket 0 c n) } }
    (s.w.nodes.filter (Wheel.inBucket 0 c))

/-- `tick` -/
def tick (G : Geom) (s : WS) : WS :=
  let s1 := expire G s
  expire G { s1 with w := Wheel.shift G { s1.w with time := s1.w.time + 1 } }

def step (G : Geom) (s : WS) : Act → Res WS
  | .after d =>
    if s.f.addQ.length ≥ G.reqCap then .blocked
    else let id := nextID s.f; .ok { s with f := s.f.start id d 0 } (.id id)
  | .every p =>
    if s.f.addQ.length ≥ G.reqCap then .blocked
    else let id := nextID s.f; .ok { s with f := s.f.start id 0 p } (.id id)
  | .cancel id =>
    if id ∈ s.f.refer then
      if s.f.delQ.length ≥ G.reqCap then .blocked else .ok { s with f := s.f.cancel id } (.bool true)
    else .ok s (.bool false)
  | .add =>
    match s.f.addQ with
    | [] => .ok s .idle
    | r :: q =>
      let f' := { s.f with addQ := q }
      if r.id ∈ s.f.cancelled then .ok { s with f := f' } .done
      else if s.w.nodes.any (·.id == r.id) then .panic   -- bucket.addNode: "bucket is not nil"
      else
        let n := s.w.link G { id := r.id, deadline := r.dl + s.w.time + r.period, period := r.period, level := 0, slot := 0 }
        .ok { w := { s.w with nodes := s.w.nodes ++ [n] }, f := f' } .done
  | .del =>
    match s.f.delQ with
    | [] => .ok s .idle
    | id :: q => .ok { w := { s.w with nodes := s.w.nodes.filter (·.id ≠ id) }, f := { s.f with delQ := q } } .done
  | .tick => .ok (tick G s) .done
  | .clock _ => .ok s .done

end WS

/-! ## binary heap -/

structure HNode where
  id : Nat
  deadline : Nat
  period : Nat
deriving DecidableEq, Repr

/-- `timerHeap.Less` -/
def hless (a b : HNode) : Bool := a.deadline < b.deadline || (a.deadline == b.deadline && a.id > b.id)

/-- `heap.Push` / `heap.Fix` on the list that stands for the heap: sorted by `Less` -/
def hinsert (n : HNode) : List HNode → List HNode
  | [] => [n]
  | m :: ms => if hless n m then n :: m :: ms else m :: hinsert n ms

structure HS where
  now : Nat
  heap : List HNode
  f : Front
deriving Repr

namespace HS

def init (time : Nat) : HS := { now := time, heap := [], f := Front.init }

/-- the loop of `trigger(now)`; `none` = it does not terminate (the `continue` on `id > maxId`,
or out of fuel).  Returns the (id, deadline at delivery) pairs to send, in order. -/
def triggerLoop (now maxId : Nat) : Nat → HS → List (Nat × Nat) → Option (HS × List (Nat × Nat))
  | 0, _, _ => none
  | fuel + 1, s, acc =>
    match s.heap with
    | [] => some (s, acc)
    | n :: rest =>
      if now < n.deadline then some (s, acc)
      else if n.id > maxId then none
      else if n.id ∈ s.f.cancelled then triggerLoop now maxId fuel { s with heap := rest } acc
      else if n.period > 0 then
        triggerLoop now maxId fuel { s with heap := hinsert { n with deadline := now + n.period } rest } (acc ++ [(n.id, n.deadline)])
      else triggerLoop now maxId fuel { s with heap := rest, f := s.f.drop n.id } (acc ++ [(n.id, n.deadline)])

def logAll (f : Front) (t : Nat) : List (Nat × Nat) → Front
  | [] => f
  | p :: ps => logAll (f.deliver t p.1 p.2) t ps

/-- `tick(now)`: `trigger`, then the sends -/
def tick (s : HS) : Option HS :=
  match triggerLoop s.now s.f.nextId (s.heap.length + 1) s [] with
  | some (s', ids) => some { s' with f := logAll s'.f s.now ids }
  | none => none

def step (G : Geom) (s : HS) : Act → Res HS
  | .after d =>
    if s.f.addQ.length ≥ G.reqCap then .blocked
    else let id := nextID s.f; .ok { s with f := s.f.start id (s.now + d) 0 } (.id id)
  | .every p =>
    if s.f.addQ.length ≥ G.reqCap then .blocked
    else let id := nextID s.f; .ok { s with f := s.f.start id (s.now + p) p } (.id id)
  | .cancel id =>
    if id ∈ s.f.refer then
      if s.f.delQ.length ≥ G.reqCap then .blocked else .ok { s with f := s.f.cancel id } (.bool true)
    else .ok s (.bool false)
  | .add =>
    match s.f.addQ with
    | [] => .ok s .idle
    | r :: q =>
      let f' := { s.f with addQ := q }
      if r.id ∈ s.f.cancelled then .ok { s with f := f' } .done
      else .ok { s with heap := hinsert ⟨r.id, r.dl, r.period⟩ s.heap, f := f' } .done
  | .del =>
    match s.f.delQ with
    | [] => .ok s .idle
    | id :: q => .ok { s with heap := s.heap.filter (·.id ≠ id), f := { s.f with delQ := q } } .done
  | .tick =>
    match tick s with
    | some s' => .ok s' .done
    | none => .panic
  | .clock n => .ok { s with now := s.now + n } .done

end HS
end Fatchoy.C05
