/-
Reference semantics of the sorted set (C11): a plain member→score table and, for every query, the list
of its members sorted by (score, member) — no skip list, no incremental maintenance, no ranks summed
from spans.  Score ranges include both end points; rank ranges are "the elements whose index lies
between the two (normalised) indices", a negative index counting from the end.  Core-only.
-/
import Fatchoy.Model.C11
namespace Fatchoy.C11

def toNode (p : Nat × Int) : Node := ⟨p.2, p.1⟩

/-- the members of the table sorted by score, ties by member -/
def ranking (m : Dict) : List Node := (m.map toNode).mergeSort Node.le

/-- both end points included -/
def inRange (min max : Int) (n : Node) : Bool := min ≤ n.score && n.score ≤ max

/-- a negative index counts from the end -/
def normIdx (len : Nat) (i : Int) : Int := if i < 0 then i + len else i

/-- the elements whose position lies in [start, stop] after normalisation (nothing else is clamped:
  positions outside the list simply do not exist) -/
def slice {α : Type} (l : List α) (start stop : Int) : List α :=
  (l.zipIdx.filter (fun p => normIdx l.length start ≤ (p.2 : Int) && (p.2 : Int) ≤ normIdx l.length stop)).map (·.1)

/-- position in a ranking as `GetRank` reports it: -1 for a member that is not there -/
def rankOut : Option Nat → Int
  | some i => (i : Int)
  | none => -1

/-- one call on the reference table: (table after, result) -/
def refStep (m : Dict) : Op → Dict × Out
  | .len => (m, .int m.length)
  | .add e s => (dset m e s, .bool true)
  | .remove e => if (dget m e).isSome then (ddel m e, .bool true) else (m, .bool false)
  | .removeRangeByScore min max =>
    (m.filter (fun p => !inRange min max (toNode p)), .int ((ranking m).filter (inRange min max)).length)
  | .removeRangeByRank start stop =>
    let gone := (slice (ranking m) start stop).map (·.ele)
    (m.filter (fun p => !gone.contains p.1), .int gone.length)
  | .count min max => (m, .int ((ranking m).filter (inRange min max)).length)
  | .getRank e reverse =>
    let r := if reverse then (ranking m).reverse else ranking m
    (m, .int (rankOut (r.findIdx? (fun n => n.ele == e))))
  | .getScore e => (m, .int ((dget m e).getD 0))
  | .getRange start stop reverse =>
    let r := if reverse then (ranking m).reverse else ranking m
    (m, .eles ((slice r start stop).map (·.ele)))
  | .getRangeByScore min max reverse =>
    let r := if reverse then (ranking m).reverse else ranking m
    (m, .eles ((r.filter (inRange min max)).map (·.ele)))

def refTrace (m : Dict) : List Op → List Out
  | [] => []
  | op :: ops => let r := refStep m op; r.2 :: refTrace r.1 ops

def refRun (m : Dict) (ops : List Op) : Dict := ops.foldl (fun m op => (refStep m op).1) m

end Fatchoy.C11
