/-
Model of /repo/x/uuid/snowflake.go (C09): NewSnowflake and Snowflake.Next.  Core-only.

All quantities are `Nat` (the supported range is non-negative; under `Valid` every id is < 2^63, so
no int64 wrap can occur — `assemble_lt` in Lemmas/C09.lean).  The wall clock is a parameter: a call
of `Next` is given the list of readings the clock will produce while the call runs.  It consumes
one reading, and — when the sequence of the current time unit is exhausted — further readings until
one is later than the current unit (`waitUntilNextTimeUnit`).  Readings not consumed are returned.
`Out.starved` = the list ran out: the real call would still be waiting (no result yet).
-/
import Fatchoy.Gen.C09
namespace Fatchoy.C09

structure Params where
  seqBits : Nat
  midBits : Nat
  timeBits : Nat
  /-- `sf.seq > maxSeq` -/
  maxSeq : Nat
  /-- `currentTs > maxTime` -/
  maxTime : Nat
  /-- `sf.backwardsCount >= maxBack` -/
  maxBack : Nat
  /-- `int64(machineId) & midMask` -/
  midMask : Nat
  shiftBc : Nat
  shiftTs : Nat
  shiftMid : Nat
  seqUnshifted : Bool
  nextLocked : Bool
deriving Repr, DecidableEq

/-- parameters regenerated from the source on every run -/
def params : Params :=
  { seqBits := Gen.C09.sequenceBits, midBits := Gen.C09.machineIDBits, timeBits := Gen.C09.timeUnitBits,
    maxSeq := Gen.C09.maxSeq, maxTime := Gen.C09.maxTime, maxBack := Gen.C09.maxBack,
    midMask := Gen.C09.midMask, shiftBc := Gen.C09.shiftBc, shiftTs := Gen.C09.shiftTs,
    shiftMid := Gen.C09.shiftMid, seqUnshifted := Gen.C09.seqUnshifted, nextLocked := Gen.C09.nextLocked }

/-- the fields of `Snowflake` -/
structure St where
  mid : Nat
  seq : Nat
  lastTs : Nat
  lastID : Nat
  bc : Nat
deriving Repr, DecidableEq

inductive Out where
  | ok (id : Nat)
  | errTime        -- ErrTimeUnitOverflow
  | errBack        -- ErrClockGoneBackwards
  | errOverflow    -- ErrUUIDIntOverflow (the final guard)
  | starved        -- the supplied readings ran out while the call was still reading the clock
deriving Repr, DecidableEq

/-- `NewSnowflake(machineId)`; `m` is the machine id actually used (the argument, or the value of
`privateIP4()` when the argument is 0), `t0` the clock reading taken by the constructor. -/
def new (P : Params) (m t0 : Nat) : St :=
  { mid := m &&& P.midMask, seq := 0, lastTs := t0, lastID := 0, bc := 0 }

/-- `backwardsMask | (currentTs << TimestampShift) | (sf.machineID << SequenceBits) | sf.seq` -/
def assemble (P : Params) (bc ts mid seq : Nat) : Nat :=
  bc <<< P.shiftBc ||| ts <<< P.shiftTs ||| mid <<< P.shiftMid ||| seq

/-- `waitUntilNextTimeUnit(ts)`: read the clock until it shows a later unit -/
def waitNext (ts : Nat) : List Nat → Option (Nat × List Nat)
  | [] => none
  | r :: rs => if r > ts then some (r, rs) else waitNext ts rs

/-- the tail of `Next`: store the unit, build the id, final guard -/
def finish (P : Params) (s : St) (bc ts seq : Nat) (rest : List Nat) : Out × St × List Nat :=
  let id := assemble P bc ts s.mid seq
  if id ≤ s.lastID then (.errOverflow, { s with bc := bc, lastTs := ts, seq := seq }, rest)
  else (.ok id, { s with bc := bc, lastTs := ts, seq := seq, lastID := id }, rest)

/-- `Snowflake.Next` (one whole call: the body runs under `sf.guard`) -/
def next (P : Params) (s : St) : List Nat → Out × St × List Nat
  | [] => (.starved, s, [])
  | r :: rest =>
    if r > P.maxTime then (.errTime, s, rest)
    else if r < s.lastTs ∧ s.bc ≥ P.maxBack then (.errBack, s, rest)
    else
      let bc := if r < s.lastTs then s.bc + 1 else s.bc
      if r = s.lastTs then
        if s.seq + 1 > P.maxSeq then
          match waitNext r rest with
          | none => (.starved, { s with seq := 0 }, [])
          | some (r', rest') =>
            if r' > P.maxTime then (.errTime, { s with seq := P.maxSeq }, rest')
            else finish P s bc r' 0 rest'
        else finish P s bc r (s.seq + 1) rest
      else finish P s bc r 0 rest

end Fatchoy.C09
