/-
The codec model's parameters as regenerated from the source for C02 (Gen/C02.lean).
-/
import Fatchoy.Gen.C02
import Fatchoy.Model.Codec
namespace Fatchoy.C02
open Fatchoy.Codec

def params : Params :=
  { v1 := { v2 := false, headerSize := Gen.C02.v1HeaderSize, max := Gen.C02.v1MaxPayloadBytes,
            writeMax := Gen.C02.v1WriteMax, defThreshold := Gen.C02.v1DefaultThreshold,
            pack := Gen.C02.v1Pack, setCrc := (Gen.C02.v1SetCrcOff, Gen.C02.v1SetCrcWidth), get := Gen.C02.v1Get,
            crcCover := Gen.C02.v1CrcCover, crcParts := Gen.C02.v1CrcParts, crcCtor := Gen.C02.v1CrcCtor,
            lenBits := Gen.C02.v1LenBits, readLo := Gen.C02.v1ReadLo, readHi := Gen.C02.v1ReadHi,
            readSub := Gen.C02.v1ReadSub, bodyStepOnFlags := Gen.C02.v1BodyStepOnFlags },
    v2 := { v2 := true, headerSize := Gen.C02.v2HeaderSize, max := Gen.C02.v2MaxPayloadBytes,
            writeMax := Gen.C02.v2WriteMax, defThreshold := Gen.C02.v2DefaultThreshold,
            pack := Gen.C02.v2Pack, setCrc := (Gen.C02.v2SetCrcOff, Gen.C02.v2SetCrcWidth), get := Gen.C02.v2Get,
            crcCover := Gen.C02.v2CrcCover, crcParts := Gen.C02.v2CrcParts, crcCtor := Gen.C02.v2CrcCtor,
            lenBits := Gen.C02.v2LenBits, readLo := Gen.C02.v2ReadLo, readHi := Gen.C02.v2ReadHi,
            readSub := Gen.C02.v2ReadSub, bodyStepOnFlags := Gen.C02.v2BodyStepOnFlags },
    maxRefs := Gen.C02.maxRefs,
    flagCompressed := Gen.C02.flagCompressed, flagEncrypted := Gen.C02.flagEncrypted, flagError := Gen.C02.flagError,
    ldHeader := Gen.C02.ldHeader, ldLenBits := Gen.C02.ldLenBits, ldReadLo := Gen.C02.ldReadLo,
    ldReadSub := Gen.C02.ldReadSub, ldWriteAdd := Gen.C02.ldWriteAdd, ldWriteHi := Gen.C02.ldWriteHi,
    ldWriteHeader := Gen.C02.ldWriteHeader, ldRetAdd := Gen.C02.ldRetAdd, nilBodyEncodes := Gen.C02.nilBodyEncodes }

end Fatchoy.C02
