/-
C11: what the models of Model/C11.lean were written from, as data, next to the facts regenerated from
collections/zset on every run (Gen/C11.lean): the exported method sets (every method has a model
function or is listed as deliberately unmodelled) and, per mirrored function, its comparisons in
source order.  `Valid params` says the source still has that shape; a changed comparison operator (the
classic range off-by-one) or a new method breaks exactly this.
-/
import Fatchoy.Gen.C11
namespace Fatchoy.C11

structure Params where
  maxLevel : Nat
  skipListMethods : List String
  sortedSetMethods : List String
  cmps : List (String × List String)

/-- regenerated from the source on every run -/
def params : Params :=
  { maxLevel := Gen.C11.maxLevel
    skipListMethods := Gen.C11.skipListMethods
    sortedSetMethods := Gen.C11.sortedSetMethods
    cmps := [("L.deleteNode", Gen.C11.cmpLDeleteNode), ("L.randLevel", Gen.C11.cmpLRandLevel),
      ("L.Insert", Gen.C11.cmpLInsert), ("L.Delete", Gen.C11.cmpLDelete),
      ("L.DeleteRangeByRank", Gen.C11.cmpLDeleteRangeByRank), ("L.DeleteRangeByScore", Gen.C11.cmpLDeleteRangeByScore),
      ("L.GetRank", Gen.C11.cmpLGetRank), ("L.GetElementByRank", Gen.C11.cmpLGetElementByRank),
      ("L.IsInRange", Gen.C11.cmpLIsInRange), ("L.FirstInRange", Gen.C11.cmpLFirstInRange),
      ("L.LastInRange", Gen.C11.cmpLLastInRange),
      ("Z.Add", Gen.C11.cmpZAdd), ("Z.Remove", Gen.C11.cmpZRemove),
      ("Z.RemoveRangeByScore", Gen.C11.cmpZRemoveRangeByScore), ("Z.RemoveRangeByRank", Gen.C11.cmpZRemoveRangeByRank),
      ("Z.Count", Gen.C11.cmpZCount), ("Z.GetRank", Gen.C11.cmpZGetRank), ("Z.GetScore", Gen.C11.cmpZGetScore),
      ("Z.GetRange", Gen.C11.cmpZGetRange), ("Z.GetRangeByScore", Gen.C11.cmpZGetRangeByScore)] }

/-- `ZSkipList` methods with a function in layer L (driver commands `l…`) -/
def modelledSkipList : List String :=
  ["Delete", "DeleteRangeByRank", "DeleteRangeByScore", "FirstInRange", "GetElementByRank", "GetRank",
   "HeadNode", "Insert", "IsInRange", "LastInRange", "Len", "TailNode"]

/-- deliberately not modelled: the two debug printers, and `Height` (a function of the random tower
  heights, not of the content; the harness only checks 1 ≤ Height ≤ maxLevel) -/
def unmodelledSkipList : List String := ["Dump", "Height", "String"]

/-- every `SortedSet` method is an `Op` of layer Z -/
def modelledSortedSet : List String :=
  ["Add", "Count", "GetRange", "GetRangeByScore", "GetRank", "GetScore", "Len", "Remove",
   "RemoveRangeByRank", "RemoveRangeByScore"]

/-- the comparisons the model functions mirror, per source function, in source order -/
def modelCmps : List (String × List String) :=
  [("L.deleteNode", ["i < zsl.level", "update[i].level[i].forward == x", "x.level[0].forward != nil",
      "zsl.level > 1", "zsl.head.level[zsl.level-1].forward == nil"]),
   -- randLevel is not modelled (the tower height is an input of S.insert); what the theorems need from it
   -- is its range: it starts at 1 and clamps at ZSKIPLIST_MAXLEVEL
   ("L.randLevel", ["float32(seed) < ZSKIPLIST_P*0xFFFF", "level > ZSKIPLIST_MAXLEVEL"]),
   ("L.Insert", ["i >= 0", "i != zsl.level-1", "x.level[i].forward != nil", "x.level[i].forward.Score < score",
      "x.level[i].forward.Score == score", "x.level[i].forward.Ele.CompareTo(ele) < 0", "level > zsl.level",
      "i < level", "i < level", "i < zsl.level", "update[0] != zsl.head", "x.level[0].forward != nil"]),
   ("L.Delete", ["i >= 0", "x.level[i].forward != nil", "x.level[i].forward.Score < score",
      "x.level[i].forward.Score == score", "x.level[i].forward.Ele.CompareTo(ele) < 0", "x != nil",
      "score == x.Score", "x.Ele.CompareTo(ele) == 0"]),
   ("L.DeleteRangeByRank", ["i >= 0", "x.level[i].forward != nil", "traversed+x.level[i].span < start", "x != nil",
      "traversed <= end"]),
   ("L.DeleteRangeByScore", ["i >= 0", "x.level[i].forward != nil", "x.level[i].forward.Score < min", "x != nil",
      "x.Score <= max"]),
   ("L.GetRank", ["i >= 0", "x.level[i].forward != nil", "x.level[i].forward.Score < score",
      "x.level[i].forward.Score == score", "x.level[i].forward.Ele.CompareTo(ele) <= 0", "x.Ele != nil",
      "x.Ele.CompareTo(ele) == 0"]),
   ("L.GetElementByRank", ["i >= 0", "x.level[i].forward != nil", "tranversed+x.level[i].span <= rank",
      "tranversed == rank"]),
   ("L.IsInRange", ["min > max", "x == nil", "x.Score < min", "x == nil", "x.Score > max"]),
   ("L.FirstInRange", ["i >= 0", "x.level[i].forward != nil", "x.level[i].forward.Score < min", "x != nil",
      "x.Score > max"]),
   ("L.LastInRange", ["i >= 0", "x.level[i].forward != nil", "x.level[i].forward.Score <= max", "x.Score < min"]),
   ("Z.Add", ["curscore != score"]),
   ("Z.Remove", []),
   ("Z.RemoveRangeByScore", ["min > max"]),
   ("Z.RemoveRangeByRank", ["start < 0", "end < 0", "start < 0", "start > end", "start >= llen", "end >= llen"]),
   ("Z.Count", ["min > max", "zn != nil", "zn != nil"]),
   ("Z.GetRank", []),
   ("Z.GetScore", []),
   ("Z.GetRange", ["start < 0", "end < 0", "start < 0", "start > end", "start >= llen", "end >= llen", "start > 0",
      "start > 0", "rangeLen > 0"]),
   ("Z.GetRangeByScore", ["min > max", "node == nil", "node != nil", "node.Score < min", "node.Score > max"])]

/-- the source still has the shape the models were written from -/
def Valid (P : Params) : Prop :=
  1 ≤ P.maxLevel ∧
  P.skipListMethods.all (fun m => (modelledSkipList ++ unmodelledSkipList).contains m) = true ∧
  modelledSkipList.all (fun m => P.skipListMethods.contains m) = true ∧
  P.sortedSetMethods = modelledSortedSet ∧
  P.cmps = modelCmps
instance (P : Params) : Decidable (Valid P) := by unfold Valid; infer_instance

end Fatchoy.C11
