/-
C11: what the models of Model/C11.lean were written from, as data, next to the facts regenerated from
collections/zset on every run (Gen/C11.lean): the exported method sets (every method has a model
function or is listed as deliberately unmodelled) and, per mirrored function, its comparisons in
source order.  `Valid params` says the source still has that shape; a changed comparison operator (the
classic range off-by-one) or a new method breaks exactly this.
-/
import Fatchoy.Gen.C11
namespace Fatchoy.C11

structure Params where
  maxLevel : Nat
  skipListMethods : List String
  sortedSetMethods : List String
  cmps : List (String × List String)

/-- regenerated from the source on every run -/
def params : Params :=
  { maxLevel := Gen.C11.maxLevel
    skipListMethods := Gen.C11.skipListMethods
    sortedSetMethods := Gen.C11.sortedSetMethods
    cmps := [("L.deleteNode", Gen.C11.cmpLDeleteNode), ("L.randLevel", Gen.C11.cmpLRandLevel),
      ("L.Insert", Gen.C11.cmpLInsert), ("L.Delete", Gen.C11.cmpLDelete),
      ("L.DeleteRangeByRank", Gen.C11.cmpLDeleteRangeByRank), ("L.DeleteRangeByScore", Gen.C11.cmpLDeleteRangeByScore),
      ("L.GetRank", Gen.C11.cmpLGetRank), ("L.GetElementByRank", Gen.C11.cmpLGetElementByRank),
      ("L.IsInRange", Gen.C11.cmpLIsInRange), ("L.FirstInRange", Gen.C11.cmpLFirstInRange),
      ("L.LastInRange", Gen.C11.cmpLLastInRange),
      ("Z.Add", Gen.C11.cmpZAdd), ("Z.Remove", Gen.C11.cmpZRemove),
      ("Z.RemoveRangeByScore", Gen.C11.cmpZRemoveRangeByScore), ("Z.RemoveRangeByRank", Gen.C11.cmpZRemoveRangeByRank),
      ("Z.Count", Gen.C11.cmpZCount), ("Z.GetRank", Gen.C11.cmpZGetRank), ("Z.GetScore", Gen.C11.cmpZGetScore),
      ("Z.GetRange", Gen.C11.cmpZGetRange), ("Z.GetRangeByScore", Gen.C11.cmpZGetRangeByScore)] }

/-- `ZSkipList` methods with a function in layer L (driver commands `l…`) -/
def modelledSkipList : List String :=
  ["Delete", "DeleteRangeByRank", "DeleteRangeByScore", "FirstInRange", "GetElementByRank", "GetRank",
   "HeadNode", "Insert", "IsInRange", "LastInRange", "Len", "TailNode"]

/-- deliberately not modelled: the two debug printers, and `Height` (a function of the random tower
  heights, not of the content; the harness only checks 1 ≤ Height ≤ maxLevel) -/
def unmodelledSkipList : List String := ["Dump", "Height", "String"]

/-- every `SortedSet` method is an `Op` of layer Z -/
def modelledSortedSet : List String :=
  ["Add", "Count", "GetRange", "GetRangeByScore", "GetRank", "GetScore", "Len", "Remove",
   "RemoveRangeByRank", "RemoveRangeByScore"]

/-- the comparisons the model functions mirror, per source function, in source order; the text is
  alpha-normalised by the extractor so that names chosen inside a function do not matter: `_r` is the
  receiver, `_pN` the N-th parameter, `_vN` the locals the table mentions in order of declaration
  (e.g. `Insert(score, ele)`: `_p0` = score, `_p1` = ele, `_v0` = update, `_v1` = x, `_v2`/`_v4`… = the loop indices) -/
def modelCmps : List (String × List String) :=
  [("L.deleteNode", ["_v0 < _r.level", "_p1[_v0].level[_v0].forward == _p0", "_p0.level[0].forward != nil",
      "_r.level > 1", "_r.head.level[_r.level-1].forward == nil"]),
   -- randLevel is not modelled (the tower height is an input of S.insert); what the theorems need from it
   -- is its range: it starts at 1 and clamps at ZSKIPLIST_MAXLEVEL
   ("L.randLevel", ["float32(_v1) < ZSKIPLIST_P*0xFFFF", "_v0 > ZSKIPLIST_MAXLEVEL"]),
   ("L.Insert", ["_v2 >= 0", "_v2 != _r.level-1", "_v1.level[_v2].forward != nil",
      "_v1.level[_v2].forward.Score < _p0", "_v1.level[_v2].forward.Score == _p0",
      "_v1.level[_v2].forward.Ele.CompareTo(_p1) < 0", "_v3 > _r.level", "_v4 < _v3", "_v5 < _v3",
      "_v6 < _r.level", "_v0[0] != _r.head", "_v1.level[0].forward != nil"]),
   ("L.Delete", ["_v1 >= 0", "_v0.level[_v1].forward != nil", "_v0.level[_v1].forward.Score < _p0",
      "_v0.level[_v1].forward.Score == _p0", "_v0.level[_v1].forward.Ele.CompareTo(_p1) < 0", "_v0 != nil",
      "_p0 == _v0.Score", "_v0.Ele.CompareTo(_p1) == 0"]),
   ("L.DeleteRangeByRank", ["_v2 >= 0", "_v1.level[_v2].forward != nil", "_v0+_v1.level[_v2].span < _p0",
      "_v1 != nil", "_v0 <= _p1"]),
   ("L.DeleteRangeByScore", ["_v1 >= 0", "_v0.level[_v1].forward != nil", "_v0.level[_v1].forward.Score < _p0",
      "_v0 != nil", "_v0.Score <= _p1"]),
   ("L.GetRank", ["_v1 >= 0", "_v0.level[_v1].forward != nil", "_v0.level[_v1].forward.Score < _p0",
      "_v0.level[_v1].forward.Score == _p0", "_v0.level[_v1].forward.Ele.CompareTo(_p1) <= 0", "_v0.Ele != nil",
      "_v0.Ele.CompareTo(_p1) == 0"]),
   ("L.GetElementByRank", ["_v2 >= 0", "_v1.level[_v2].forward != nil", "_v0+_v1.level[_v2].span <= _p0",
      "_v0 == _p0"]),
   ("L.IsInRange", ["_p0 > _p1", "_v0 == nil", "_v0.Score < _p0", "_v0 == nil", "_v0.Score > _p1"]),
   ("L.FirstInRange", ["_v1 >= 0", "_v0.level[_v1].forward != nil", "_v0.level[_v1].forward.Score < _p0",
      "_v0 != nil", "_v0.Score > _p1"]),
   ("L.LastInRange", ["_v1 >= 0", "_v0.level[_v1].forward != nil", "_v0.level[_v1].forward.Score <= _p1",
      "_v0.Score < _p0"]),
   ("Z.Add", ["_v0 != _p1"]),
   ("Z.Remove", []),
   ("Z.RemoveRangeByScore", ["_p0 > _p1"]),
   ("Z.RemoveRangeByRank", ["_p0 < 0", "_p1 < 0", "_p0 < 0", "_p0 > _p1", "_p0 >= _v0", "_p1 >= _v0"]),
   ("Z.Count", ["_p0 > _p1", "_v0 != nil", "_v0 != nil"]),
   ("Z.GetRank", []),
   ("Z.GetScore", []),
   ("Z.GetRange", ["_p0 < 0", "_p1 < 0", "_p0 < 0", "_p0 > _p1", "_p0 >= _v0", "_p1 >= _v0", "_p0 > 0",
      "_p0 > 0", "_v1 > 0"]),
   ("Z.GetRangeByScore", ["_p0 > _p1", "_v0 == nil", "_v0 != nil", "_v0.Score < _p0", "_v0.Score > _p1"])]

/-- the source still has the shape the models were written from -/
def Valid (P : Params) : Prop :=
  1 ≤ P.maxLevel ∧
  P.skipListMethods.all (fun m => (modelledSkipList ++ unmodelledSkipList).contains m) = true ∧
  modelledSkipList.all (fun m => P.skipListMethods.contains m) = true ∧
  P.sortedSetMethods = modelledSortedSet ∧
  P.cmps = modelCmps
instance (P : Params) : Decidable (Valid P) := by unfold Valid; infer_instance

end Fatchoy.C11
