/-
Model of /repo/qnet/tcp_conn.go + stream_conn.go (C03, C04): a labelled transition system at the level of
the synchronisation operations of `TcpConn` — channel send/receive/close, the CAS on the state word, the
RWMutex regions of `SendPacket` / `beginShutdown`, the WaitGroup — with one program counter per goroutine:
the writer pump, the reader pump, any number of `SendPacket` callers, any number of `Close`/`ForceClose`
callers, the elected closer (the code after a successful CAS, including `finally`, inline or detached).
`step : Cfg → State → Action → Option State`; "every schedule" = "every action sequence".
Environment actions: the user calls (Go, SendPacket, Close, ForceClose), the peer sends a frame / FIN / RST /
garbage, the read deadline expires, the consumers of the inbound and error channels receive.
Ghost history: accepted sends, the writer's log (what reached the wire), decoded / delivered / dropped
frames, offered errors, panics, a flag for a second successful CAS.

It models the code AFTER the repairs of D2 (flush drains until `default`), D3 (read lock around check+send,
CAS under the write lock), D4 (the reader's inbound send selects on `done`) and of the graceful Close that no
longer shuts the receive side (the reader is woken by a read deadline in the past and re-checks `done`).  Core-only.

Every place the real code would panic is an explicit outcome (`panics`), never a disabled action:
send on a closed queue, close of a closed / nil channel, negative WaitGroup, nil connection, Go twice.
-/
import Fatchoy.Gen.C03
import Fatchoy.Gen.C04
namespace Fatchoy.Conn

/-- the four values of `fatchoy.State` a TcpConn goes through (regenerated from state.go on every run) -/
structure Params where
  stInit : Nat
  stRunning : Nat
  stShutdown : Nat
  stTerminated : Nat
deriving Repr, DecidableEq

def params : Params :=
  ⟨Gen.C03.stateInit, Gen.C03.stateRunning, Gen.C03.stateShutdown, Gen.C03.stateTerminated⟩
def paramsC04 : Params :=
  ⟨Gen.C04.stateInit, Gen.C04.stateRunning, Gen.C04.stateShutdown, Gen.C04.stateTerminated⟩

/-- the LTS abstracts the state word to a four-valued enumeration; that is faithful (a CAS or a comparison on
  the integers behaves like one on the enumeration) iff the four constants are pairwise distinct -/
def Valid (P : Params) : Prop :=
  P.stInit ≠ P.stRunning ∧ P.stInit ≠ P.stShutdown ∧ P.stInit ≠ P.stTerminated ∧
  P.stRunning ≠ P.stShutdown ∧ P.stRunning ≠ P.stTerminated ∧ P.stShutdown ≠ P.stTerminated

instance (P : Params) : Decidable (Valid P) := by unfold Valid; infer_instance

/-- a packet / frame: identity, encoded size on the wire, whether `WritePacket` can encode it -/
structure Pkt where
  id : Nat
  size : Nat
  enc : Bool
deriving DecidableEq, Repr, Hashable, Inhabited

/-- `fatchoy.State` -/
inductive St | init | running | shutdown | terminated
deriving DecidableEq, Repr, Hashable, Inhabited

/-- the integer the state word holds -/
def St.code (P : Params) : St → Nat
  | .init => P.stInit | .running => P.stRunning | .shutdown => P.stShutdown | .terminated => P.stTerminated

/-- what a goroutine finds in the field `t.outbound`: the open queue, the closed queue, or nil -/
inductive Chan | open | closed | nil
deriving DecidableEq, Repr, Hashable, Inhabited

/-- outcome of `SendPacket`: nil, ErrConnIsClosing, ErrConnOutboundOverflow, or a panic -/
inductive SRes | ok | closing | overflow | panic
deriving DecidableEq, Repr, Hashable, Inhabited

/-- error kinds offered to the error channel (`pre`: an item that was in the channel before) -/
inductive Err | closed | forced | eof | read | pre
deriving DecidableEq, Repr, Hashable, Inhabited

/-- what the peer puts on the wire towards this connection -/
inductive In | frame (p : Pkt) | fin | rst | garbage
deriving DecidableEq, Repr, Hashable, Inhabited

inductive Panic | goTwice | sendOnClosed | closeOfClosed | closeOfNil | negativeWg | nilConn
deriving DecidableEq, Repr, Hashable, Inhabited

/-- `SendPacket`: RLock; load state; [H2 send.checked]; select-send/default; (deferred) RUnlock; return -/
inductive SPc
  | rlock (p : Pkt) | check (p : Pkt) | send (p : Pkt) | unlock (r : SRes) | ret (r : SRes)
deriving DecidableEq, Repr, Hashable, Inhabited

/-- `writePump` + deferred `flush` + `wg.Done` -/
inductive WPc
  | idle | select | writing (p : Pkt) | flush | flushing (p : Pkt) | wgDone | exited
deriving DecidableEq, Repr, Hashable, Inhabited

/-- `beginShutdown` as seen by its caller: Lock; CAS; Unlock; then either "lost" (return at once) or
  "won" (the rest of Close/ForceClose is the elected closer `Winner`; the caller returns when that allows) -/
inductive CPc
  | lock | cas | unlockLost | won | returned (won : Bool)
deriving DecidableEq, Repr, Hashable, Inhabited

/-- `readPump`: readPacket = SetReadDeadline(future) [`arm`]; testShouldExit [`chk`]; read+decode [`reading`];
  select{inbound<-pkt | <-done}; testShouldExit; on error ForceClose(err); wg.Done -/
inductive RPc
  | idle | arm | chk | reading | deliver (p : Pkt) | checkExit | closing (e : Err) (c : CPc) | wgDone | exited
deriving DecidableEq, Repr, Hashable, Inhabited

/-- the code after a successful CAS: Unlock; ForceClose: CloseRead; close(done); Close: SetReadDeadline(now)
  [`setDl`; the graceful Close does NOT shut the receive side]; notifyErr; [go] finally =
  wg.Wait; CloseWrite; state=Terminated; close(outbound) [H2 finally.closed]; fields = nil -/
inductive WinPc
  | unlock | closeRead | closeDone | setDl | notify | spawn | wait | shutWrite | setTerm | closeOut | clear | finished | dead
deriving DecidableEq, Repr, Hashable, Inhabited

structure Winner where
  graceful : Bool
  err : Err
  pc : WinPc
deriving DecidableEq, Repr, Hashable, Inhabited

structure Closer where
  graceful : Bool
  pc : CPc
deriving DecidableEq, Repr, Hashable, Inhabited

/-- capacities of the outbound, inbound and error channels; errors sitting in the error channel at the start -/
structure Cfg where
  cap : Nat
  icap : Nat
  ecap : Nat
  pre : Nat
deriving DecidableEq, Repr, Hashable, Inhabited

structure State where
  st : St := .init
  ochan : Chan := .open
  out : List Pkt := []            -- buffered content of the outbound queue
  done : Bool := false            -- `done` is closed
  wg : Nat := 0
  readShut : Bool := false        -- CloseRead happened (ForceClose only: the graceful Close leaves the receive side open)
  rdl : Bool := false             -- the read deadline of the socket is in the past (set by the graceful Close, re-armed by the reader)
  writeShut : Bool := false       -- CloseWrite happened: the peer sees end-of-stream after `wire`
  cleared : Bool := false         -- finally set inbound / errChan / conn to nil
  broken : Bool := false          -- the peer reset the connection: writes may fail
  wbroken : Bool := false         -- a write failed on the socket: bufio.Writer keeps the error, every later write fails
  peerIn : List In := []          -- sent by the peer, not yet consumed by the reader
  inb : List Pkt := []            -- content of the inbound channel
  iwait : Bool := false           -- a consumer is receiving from the inbound channel
  errq : List Err := []           -- content of the error channel
  ewait : Bool := false           -- a consumer is receiving from the error channel
  w : WPc := .idle
  r : RPc := .idle
  snd : List SPc := []
  cls : List Closer := []
  win : Option Winner := none
  -- ghost history
  dupWin : Bool := false          -- a second CAS Running->Shutdown succeeded
  accepted : List Pkt := []       -- packets enqueued by a SendPacket that then returns nil, in queue order
  wlog : List (Pkt × Bool) := []  -- packets the writer is done with, in order; true = written to the socket
  peerAll : List In := []         -- everything the peer ever sent
  decoded : List Pkt := []        -- frames decoded (and counted) by the reader
  delivered : List Pkt := []      -- frames put into the inbound channel
  dropped : List Pkt := []        -- frames decoded but abandoned because the connection was closing
  consumed : List Pkt := []       -- frames taken out of the inbound channel
  offered : List Err := []        -- errors offered to the error channel (delivered or not)
  econsumed : List Err := []      -- errors taken out of the error channel
  panics : List Panic := []
  sentPkts : Nat := 0
  sentBytes : Nat := 0
  recvPkts : Nat := 0
  recvBytes : Nat := 0
deriving DecidableEq, Repr, Hashable, Inhabited

def init (cfg : Cfg) : State := { errq := List.replicate cfg.pre .pre }

/-- what crossed the wire towards the peer, in order -/
def wire (s : State) : List Pkt := (s.wlog.filter (·.2)).map (·.1)
/-- packets whose write failed (not encodable, or the connection was reset) -/
def wfail (s : State) : List Pkt := (s.wlog.filter (fun x => !x.2)).map (·.1)
/-- the packet the writer has dequeued and not yet written -/
def inflight : WPc → List Pkt
  | .writing p => [p]
  | .flushing p => [p]
  | _ => []
/-- the frame the reader has decoded and not yet handed over -/
def pending : RPc → List Pkt
  | .deliver p => [p]
  | _ => []

def sizes (l : List Pkt) : Nat := (l.map (·.size)).sum

/-! ### the RWMutex of D3's repair: its state is determined by who is inside which region -/

def SPc.holds : SPc → Bool
  | .check _ => true | .send _ => true | .unlock _ => true | _ => false
def CPc.holds : CPc → Bool
  | .cas => true | .unlockLost => true | _ => false
def RPc.holds : RPc → Bool
  | .closing _ c => c.holds | _ => false
def winHolds (s : State) : Bool :=
  match s.win with
  | some w => w.pc == .unlock
  | none => false
/-- the write lock is held -/
def wlocked (s : State) : Bool := s.cls.any (·.pc.holds) || s.r.holds || winHolds s
/-- some read lock is held -/
def rlocked (s : State) : Bool := s.snd.any (·.holds)

/-- the caller of Close may return when finally is through; the caller of ForceClose once finally is spawned -/
def Winner.returnable (w : Winner) : Bool :=
  if w.graceful then w.pc == .finished
  else match w.pc with
    | .wait | .shutWrite | .setTerm | .closeOut | .clear | .finished => true
    | _ => false

/-! ### steps -/

/-- `Go(EndpointReadWriter)`, atomic: CAS Init->Running (panic otherwise), wg.Add ×2, both pumps started -/
def stepStart (s : State) : Option State :=
  if s.st = .init then some { s with st := .running, wg := s.wg + 2, w := .select, r := .arm }
  else some { s with panics := s.panics ++ [.goTwice] }

/-- a goroutine calls SendPacket(p): a new caller, or one whose previous call has returned -/
def stepSendCall (s : State) (i : Nat) (p : Pkt) : Option State :=
  if i = s.snd.length then some { s with snd := s.snd ++ [.rlock p] }
  else match s.snd[i]? with
    | some (.ret _) => some { s with snd := s.snd.set i (.rlock p) }
    | _ => none

def stepCloseCall (s : State) (graceful : Bool) : Option State :=
  some { s with cls := s.cls ++ [⟨graceful, .lock⟩] }

def stepSnd (cfg : Cfg) (s : State) (i : Nat) : Option State :=
  match s.snd[i]? with
  | none => none
  | some (.rlock p) => if wlocked s then none else some { s with snd := s.snd.set i (.check p) }
  | some (.check p) =>
    if s.st = .running then some { s with snd := s.snd.set i (.send p) }
    else some { s with snd := s.snd.set i (.unlock .closing) }
  | some (.send p) =>
    match s.ochan with
    | .open =>
      if s.out.length < cfg.cap then
        some { s with snd := s.snd.set i (.unlock .ok), out := s.out ++ [p], accepted := s.accepted ++ [p] }
      else some { s with snd := s.snd.set i (.unlock .overflow) }
    | .closed => some { s with snd := s.snd.set i (.unlock .panic), panics := s.panics ++ [.sendOnClosed] }
    | .nil => some { s with snd := s.snd.set i (.unlock .overflow) }
  | some (.unlock r) => some { s with snd := s.snd.set i (.ret r) }
  | some (.ret _) => none

/-- `beginShutdown` and the caller's wait for its elected half; shared by Close, ForceClose and the reader -/
def electStep (s : State) (graceful : Bool) (e : Err) : CPc → Option (State × CPc)
  | .lock => if wlocked s || rlocked s then none else some (s, .cas)
  | .cas =>
    if s.st = .running then
      match s.win with
      | none => some ({ s with st := .shutdown, win := some ⟨graceful, e, .unlock⟩ }, .won)
      | some _ => some ({ s with st := .shutdown, dupWin := true }, .won)
    else some (s, .unlockLost)
  | .unlockLost => some (s, .returned false)
  | .won =>
    match s.win with
    | some w => if w.returnable then some (s, .returned true) else none
    | none => none
  | .returned _ => none

def stepCls (s : State) (j : Nat) : Option State :=
  match s.cls[j]? with
  | none => none
  | some c =>
    match electStep s c.graceful (if c.graceful then .closed else .forced) c.pc with
    | some (s', pc') => some { s' with cls := s'.cls.set j { c with pc := pc' } }
    | none => none

def setWin (s : State) (w : Winner) (pc : WinPc) : State := { s with win := some { w with pc := pc } }

def stepWin (cfg : Cfg) (s : State) : Option State :=
  match s.win with
  | none => none
  | some w =>
    match w.pc with
    | .unlock => some (setWin s w (if w.graceful then .closeDone else .closeRead))
    | .closeRead => some (setWin (if s.cleared then s else { s with readShut := true }) w .closeDone)
    | .closeDone =>
      if s.done then some (setWin { s with panics := s.panics ++ [.closeOfClosed] } w .dead)
      else some (setWin { s with done := true } w (if w.graceful then .setDl else .notify))
    | .setDl =>
      if s.cleared then some (setWin { s with panics := s.panics ++ [.nilConn] } w .dead)
      else some (setWin { s with rdl := true } w .notify)
    | .notify =>
      let next := if w.graceful then WinPc.wait else WinPc.spawn
      if s.cleared then some (setWin s w next)
      else if s.errq.length < cfg.ecap ∨ (s.errq = [] ∧ s.ewait = true) then
        some (setWin { s with errq := s.errq ++ [w.err], offered := s.offered ++ [w.err] } w next)
      else some (setWin { s with offered := s.offered ++ [w.err] } w next)
    | .spawn => some (setWin s w .wait)
    | .wait => if s.wg = 0 then some (setWin s w .shutWrite) else none
    | .shutWrite =>
      if s.cleared then some (setWin { s with panics := s.panics ++ [.nilConn] } w .dead)
      else some (setWin { s with writeShut := true } w .setTerm)
    | .setTerm => some (setWin { s with st := .terminated } w .closeOut)
    | .closeOut =>
      match s.ochan with
      | .open => some (setWin { s with ochan := .closed } w .clear)
      | .closed => some (setWin { s with panics := s.panics ++ [.closeOfClosed] } w .dead)
      | .nil => some (setWin { s with panics := s.panics ++ [.closeOfNil] } w .dead)
    | .clear => some (setWin { s with ochan := .nil, cleared := true } w .finished)
    | .finished => none
    | .dead => none

/-! writer pump -/

def stepWRecv (s : State) : Option State :=
  match s.w with
  | .select =>
    match s.ochan, s.out with
    | .nil, _ => none
    | _, p :: rest => some { s with w := .writing p, out := rest }
    | .closed, [] => some { s with w := .flush }
    | .open, [] => none
  | _ => none

def stepWDone (s : State) : Option State :=
  match s.w with
  | .select => if s.done then some { s with w := .flush } else none
  | _ => none

/-- `t.write(pkt)`: encode (fails for a packet the codec cannot encode, before any byte is written), then write and
  flush through the bufio.Writer — which fails after a reset, and from then on for ever (sticky error) -/
def writeOne (s : State) (p : Pkt) (ok : Bool) (next : WPc) : Option State :=
  if ok then
    if p.enc && !s.wbroken then
      some { s with w := next, wlog := s.wlog ++ [(p, true)], sentPkts := s.sentPkts + 1, sentBytes := s.sentBytes + p.size }
    else none
  else
    if !p.enc || s.broken then
      some { s with w := next, wlog := s.wlog ++ [(p, false)], wbroken := s.wbroken || p.enc }
    else none

def stepWWrite (s : State) (ok : Bool) : Option State :=
  match s.w with
  | .writing p => writeOne s p ok .select
  | .flushing p => writeOne s p ok .flush
  | _ => none

def stepWFlush (s : State) : Option State :=
  match s.w with
  | .flush =>
    match s.ochan, s.out with
    | .nil, _ => some { s with w := .wgDone }
    | _, p :: rest => some { s with w := .flushing p, out := rest }
    | .closed, [] => some { s with w := .wgDone }
    | .open, [] => some { s with w := .wgDone }
  | _ => none

def stepWWgDone (s : State) : Option State :=
  match s.w with
  | .wgDone =>
    if s.wg = 0 then some { s with w := .exited, panics := s.panics ++ [.negativeWg] }
    else some { s with w := .exited, wg := s.wg - 1 }
  | _ => none

/-! reader pump -/

/-- `readPacket`, first half: `t.conn.SetReadDeadline(now + TConnReadTimeout)` — a deadline in the future again -/
def stepRArm (s : State) : Option State :=
  match s.r with
  | .arm => if s.cleared then none else some { s with r := .chk, rdl := false }
  | _ => none

/-- `t.conn.SetReadDeadline` on the nil connection -/
def stepRNil (s : State) : Option State :=
  match s.r with
  | .arm => if s.cleared then some { s with r := .exited, panics := s.panics ++ [.nilConn] } else none
  | _ => none

/-- `readPacket`, second half: after arming, look at `done` (a graceful Close closes `done` first and sets a
  deadline in the past afterwards: either this check sees `done`, or that deadline is the later write) -/
def stepRChk (s : State) : Option State :=
  match s.r with
  | .chk => some { s with r := if s.done then .closing .read .lock else .reading }
  | _ => none

def stepRFrame (s : State) : Option State :=
  match s.r, s.peerIn with
  | .reading, .frame p :: rest =>
    some { s with r := .deliver p, peerIn := rest, decoded := s.decoded ++ [p],
                  recvPkts := s.recvPkts + 1, recvBytes := s.recvBytes + p.size }
  | _, _ => none

/-- a read fails: after CloseRead; when the deadline is in the past; at a FIN (io.EOF); at garbage (decode
  error); after a reset — which the reader sees as an error, or as io.EOF when the writer's failing write
  consumed the socket error first -/
def readFails (s : State) (eof : Bool) : Bool :=
  s.readShut || s.rdl || s.peerIn.contains .rst ||
  (if eof then s.peerIn.head? == some .fin else s.peerIn.head? == some .garbage)

def stepRErr (s : State) (eof : Bool) : Option State :=
  match s.r with
  | .reading =>
    if readFails s eof then
      some { s with r := .closing (if eof then .eof else .read) .lock }
    else none
  | _ => none

/-- the read deadline (TConnReadTimeout) expires: decided by the environment -/
def stepRTimeout (s : State) : Option State :=
  match s.r with
  | .reading => some { s with r := .closing .read .lock }
  | _ => none

def stepRPush (cfg : Cfg) (s : State) : Option State :=
  match s.r with
  | .deliver p =>
    if !s.cleared && decide (s.inb.length < cfg.icap) then
      some { s with r := .checkExit, inb := s.inb ++ [p], delivered := s.delivered ++ [p] }
    else none
  | _ => none

def stepRDrop (s : State) : Option State :=
  match s.r with
  | .deliver p => if s.done then some { s with r := .wgDone, dropped := s.dropped ++ [p] } else none
  | _ => none

def stepRCheck (s : State) : Option State :=
  match s.r with
  | .checkExit => some { s with r := if s.done then .wgDone else .arm }
  | _ => none

def stepRClose (s : State) : Option State :=
  match s.r with
  | .closing e c =>
    match electStep s false e c with
    | some (s', c') =>
      some { s' with r := match c' with
                          | .returned _ => .wgDone
                          | _ => .closing e c' }
    | none => none
  | _ => none

def stepRWgDone (s : State) : Option State :=
  match s.r with
  | .wgDone =>
    if s.wg = 0 then some { s with r := .exited, panics := s.panics ++ [.negativeWg] }
    else some { s with r := .exited, wg := s.wg - 1 }
  | _ => none

/-! environment -/

def stepPeerSend (s : State) (x : In) : Option State :=
  some { s with peerIn := s.peerIn ++ [x], peerAll := s.peerAll ++ [x], broken := s.broken || x == .rst }

def stepInbPop (s : State) : Option State :=
  match s.iwait, s.inb with
  | true, p :: rest => some { s with inb := rest, iwait := false, consumed := s.consumed ++ [p] }
  | _, _ => none

def stepErrPop (s : State) : Option State :=
  match s.ewait, s.errq with
  | true, e :: rest => some { s with errq := rest, ewait := false, econsumed := s.econsumed ++ [e] }
  | _, _ => none

inductive Action
  -- the user and the environment
  | start | sendCall (i : Nat) (p : Pkt) | closeCall (graceful : Bool) | peerSend (x : In)
  | inbCall | errCall | rTimeout
  -- internal steps of the goroutines
  | snd (i : Nat) | cls (j : Nat) | win
  | wRecv | wDone | wWrite (ok : Bool) | wFlush | wWgDone
  | rArm | rChk | rFrame | rErr (eof : Bool) | rNil | rPush | rDrop | rCheck | rClose | rWgDone
  | inbPop | errPop
deriving DecidableEq, Repr, Inhabited

def step (cfg : Cfg) (s : State) : Action → Option State
  | .start => stepStart s
  | .sendCall i p => stepSendCall s i p
  | .closeCall g => stepCloseCall s g
  | .peerSend x => stepPeerSend s x
  | .inbCall => some { s with iwait := true }
  | .errCall => some { s with ewait := true }
  | .rTimeout => stepRTimeout s
  | .snd i => stepSnd cfg s i
  | .cls j => stepCls s j
  | .win => stepWin cfg s
  | .wRecv => stepWRecv s
  | .wDone => stepWDone s
  | .wWrite ok => stepWWrite s ok
  | .wFlush => stepWFlush s
  | .wWgDone => stepWWgDone s
  | .rFrame => stepRFrame s
  | .rErr eof => stepRErr s eof
  | .rArm => stepRArm s
  | .rChk => stepRChk s
  | .rNil => stepRNil s
  | .rPush => stepRPush cfg s
  | .rDrop => stepRDrop s
  | .rCheck => stepRCheck s
  | .rClose => stepRClose s
  | .rWgDone => stepRWgDone s
  | .inbPop => stepInbPop s
  | .errPop => stepErrPop s

/-- the states reachable from `init cfg` by any action sequence (any schedule, any environment) -/
inductive Reachable (cfg : Cfg) : State → Prop
  | init : Reachable cfg (init cfg)
  | step {s s' : State} (a : Action) : Reachable cfg s → step cfg s a = some s' → Reachable cfg s'

/-- running an action sequence (`none`: some action was not enabled) -/
def run (cfg : Cfg) (s : State) : List Action → Option State
  | [] => some s
  | a :: as => match step cfg s a with
    | some s' => run cfg s' as
    | none => none

end Fatchoy.Conn
