/-
C13: what the model of Model/C13.lean was written from, as data, next to the facts regenerated from
collections/lru/cache.go on every run (Gen/C13.lean): the exported method set (every method is an `Op`
of the model), the comparisons of the deciding functions, what each call of the eviction callback is
handed, and the key type of `Remove`.
-/
import Fatchoy.Gen.C13
namespace Fatchoy.C13

structure Params where
  methods : List String
  cmpNew : List String
  cmpPut : List String
  cmpResize : List String
  callbackCalls : List String
  removeKeyType : String

/-- regenerated from the source on every run -/
def params : Params :=
  { methods := Gen.C13.cacheMethods, cmpNew := Gen.C13.cmpNewCache, cmpPut := Gen.C13.cmpPut,
    cmpResize := Gen.C13.cmpResize, callbackCalls := Gen.C13.callbackCalls,
    removeKeyType := Gen.C13.removeKeyType }

/-- the source still has the shape the model was written from:
  all twelve methods and no other; `NewCache` refuses `size <= 0`; `Put` evicts when `Len() > size`;
  `Resize` clamps `diff < 0` and loops `i < diff`; the callback is handed the entry's key and stored
  value on both paths (`Purge` and `removeElement`); `Remove` takes a string.
  The source text is alpha-normalised by the extractor (`_r` receiver, `_pN` N-th parameter, `_vN` the
  locals a table mentions in order of declaration), so names chosen inside a function do not matter. -/
def Valid (P : Params) : Prop :=
  P.methods = ["Cap", "Contains", "Get", "GetOldest", "Keys", "Len", "Peek", "Purge", "Put", "Remove",
    "RemoveOldest", "Resize"] ∧
  P.cmpNew = ["_p0 <= 0"] ∧ P.cmpPut = ["_r.Len() > _r.size"] ∧ P.cmpResize = ["_v0 < 0", "_v1 < _v0"] ∧
  P.callbackCalls = ["Purge: _r.onEvicted(_v0, _v1.Value.(*Entry).Value)",
    "removeElement: _r.onEvicted(_v0.Key, _v0.Value)"] ∧
  P.removeKeyType = "string"
instance (P : Params) : Decidable (Valid P) := by unfold Valid; infer_instance

end Fatchoy.C13
