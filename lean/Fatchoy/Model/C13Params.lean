/-
C13: what the model of Model/C13.lean was written from, as data, next to the facts regenerated from
collections/lru/cache.go on every run (Gen/C13.lean): the exported method set (every method is an `Op`
of the model), the comparisons of the deciding functions, what each call of the eviction callback is
handed, and the key type of `Remove`.
-/
import Fatchoy.Gen.C13
namespace Fatchoy.C13

structure Params where
  methods : List String
  cmpNew : List String
  cmpPut : List String
  cmpResize : List String
  callbackCalls : List String
  removeKeyType : String

/-- regenerated from the source on every run -/
def params : Params :=
  { methods := Gen.C13.cacheMethods, cmpNew := Gen.C13.cmpNewCache, cmpPut := Gen.C13.cmpPut,
    cmpResize := Gen.C13.cmpResize, callbackCalls := Gen.C13.callbackCalls,
    removeKeyType := Gen.C13.removeKeyType }

/-- the source still has the shape the model was written from:
  all twelve methods and no other; `NewCache` refuses `size <= 0`; `Put` evicts when `Len() > size`;
  `Resize` clamps `diff < 0` and loops `i < diff`; the callback is handed the entry's key and stored
  value on both paths (`Purge` and `removeElement`); `Remove` takes a string -/
def Valid (P : Params) : Prop :=
  P.methods = ["Cap", "Contains", "Get", "GetOldest", "Keys", "Len", "Peek", "Purge", "Put", "Remove",
    "RemoveOldest", "Resize"] ∧
  P.cmpNew = ["size <= 0"] ∧ P.cmpPut = ["c.Len() > c.size"] ∧ P.cmpResize = ["diff < 0", "i < diff"] ∧
  P.callbackCalls = ["Purge: k, v.Value.(*Entry).Value", "removeElement: entry.Key, entry.Value"] ∧
  P.removeKeyType = "string"
instance (P : Params) : Decidable (Valid P) := by unfold Valid; infer_instance

end Fatchoy.C13
